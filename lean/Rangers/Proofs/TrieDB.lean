import Rangers.Model.TrieDB
/-!
Specification predicates and helper lemmas for the C03 theorems about
`Rangers.Model.TrieDB`.  Core Lean only.
-/
namespace Rangers.Model.TrieDB

/-! ## specification predicates -/

/-- `h` is stored in an association list. -/
abbrev Has {β : Type} (l : List (Hash × β)) (h : Hash) : Prop := (l.lookup h).isSome = true

/-- every hash a stored blob needs is stored too. -/
def Closed (d : Disk) : Prop :=
  ∀ h n, d.lookup h = some n → ∀ r ∈ n.need, Has d r

/-- `h` can be read completely from `d` alone: a finite derivation, so a store
    with a reference cycle resolves nothing on the cycle. -/
inductive Resolvable (d : Disk) : Hash → Prop where
  | node (h : Hash) (n : DNode) : d.lookup h = some n → (∀ r ∈ n.need, Resolvable d r) → Resolvable d h

/-- "every root whose top node is present on disk is fully resolvable". -/
def AllRes (d : Disk) : Prop := ∀ h, Has d h → Resolvable d h

/-- every hash a cached node needs is on disk already, or is a cached child the
    commit walk will descend into. -/
def CacheInv (c : Cache) (d : Disk) : Prop :=
  ∀ h n, c.lookup h = some n → ∀ r ∈ n.need, Has d r ∨ (r ∈ n.childs ∧ Has c r)

/-- a hash names one blob: what is cached under `h` is what is on disk under `h`
    (Keccak collision freedom, as a hypothesis). -/
def Consistent (c : Cache) (d : Disk) : Prop :=
  ∀ h n dn, c.lookup h = some n → d.lookup h = some dn → dn = n.toD

/-- `d'` contains everything `d` contains, with the same content. -/
def Extends (d d' : Disk) : Prop := ∀ h dn, d.lookup h = some dn → d'.lookup h = some dn

/-- the post-order property of a Put sequence: whatever a written node needs is
    on disk already or was written earlier in the sequence. -/
def Post (c : Cache) (d : Disk) : List Hash → List Hash → Prop
  | _, [] => True
  | seen, x :: xs =>
    (∀ n, c.lookup x = some n → ∀ r ∈ n.need, Has d r ∨ r ∈ seen) ∧ Post c d (x :: seen) xs

/-! ## association lists -/

theorem lookup_cons_eq {β : Type} (a k : Hash) (b : β) (es : List (Hash × β)) :
    List.lookup a ((k, b) :: es) = if a = k then some b else es.lookup a := by
  rw [List.lookup_cons]
  by_cases h : a = k
  · subst h; simp
  · have : (a == k) = false := by simpa using h
    simp [this, h]

theorem has_of_lookup {β : Type} {l : List (Hash × β)} {h : Hash} {n : β} (e : l.lookup h = some n) : Has l h := by
  simp [Has, e]

theorem lookup_of_has {β : Type} {l : List (Hash × β)} {h : Hash} (e : Has l h) : ∃ n, l.lookup h = some n := by
  unfold Has at e
  cases hl : l.lookup h with
  | none => simp [hl] at e
  | some n => exact ⟨n, rfl⟩

theorem lookup_filter_key {β : Type} (q : Hash → Bool) (l : List (Hash × β)) (h : Hash) :
    (l.filter fun kn => q kn.1).lookup h = if q h then l.lookup h else none := by
  induction l with
  | nil => simp
  | cons kn rest ih =>
    obtain ⟨k, v⟩ := kn
    by_cases hq : q k = true
    · simp only [List.filter_cons, hq, if_true, lookup_cons_eq, ih]
      by_cases hk : h = k
      · subst hk; simp [hq]
      · simp [hk]
    · have hq' : q k = false := by simpa using hq
      have hf : List.filter (fun kn : Hash × β => q kn.1) ((k, v) :: rest) = List.filter (fun kn => q kn.1) rest := by
        simp [List.filter_cons, hq']
      rw [hf, ih, lookup_cons_eq]
      by_cases hk : h = k
      · subst hk; simp [hq']
      · simp [hk]

theorem lookup_map_val {β : Type} (g : Hash → β → β) (l : List (Hash × β)) (h : Hash) :
    (l.map fun kn => (kn.1, g kn.1 kn.2)).lookup h = (l.lookup h).map (g h) := by
  induction l with
  | nil => simp
  | cons kn rest ih =>
    obtain ⟨k, v⟩ := kn
    simp only [List.map_cons, lookup_cons_eq, ih]
    by_cases hk : h = k
    · subst hk; simp
    · simp [hk]

/-! ## allSome -/

inductive All2 {α β : Type} (R : α → β → Prop) : List α → List β → Prop where
  | nil : All2 R [] []
  | cons {a : α} {b : β} {as : List α} {bs : List β} : R a b → All2 R as bs → All2 R (a :: as) (b :: bs)

theorem allSome_map_some {α β : Type} (g : α → Option β) :
    ∀ (l : List α) (ts : List β), allSome (l.map g) = some ts → All2 (fun x t => g x = some t) l ts
  | [], ts, h => by
    simp [allSome] at h; subst h; exact All2.nil
  | x :: xs, ts, h => by
    simp only [List.map_cons] at h
    cases hx : g x with
    | none => simp [hx, allSome] at h
    | some a =>
      simp only [hx, allSome] at h
      cases hr : allSome (xs.map g) with
      | none => simp [hr] at h
      | some as =>
        simp only [hr, Option.some.injEq] at h
        subst h
        exact All2.cons hx (allSome_map_some g xs as hr)

theorem allSome_map_congr {α β : Type} (g g' : α → Option β) :
    ∀ (l : List α) (ts : List β), allSome (l.map g) = some ts →
      (∀ x ∈ l, ∀ t, g x = some t → g' x = some t) → allSome (l.map g') = some ts
  | [], ts, h, _ => by simpa [allSome] using h
  | x :: xs, ts, h, hc => by
    simp only [List.map_cons] at h ⊢
    cases hx : g x with
    | none => simp [hx, allSome] at h
    | some a =>
      simp only [hx, allSome] at h
      cases hr : allSome (xs.map g) with
      | none => simp [hr] at h
      | some as =>
        simp only [hr, Option.some.injEq] at h
        have h1 := hc x (List.mem_cons_self) a hx
        have h2 := allSome_map_congr g g' xs as hr (fun y hy t ht => hc y (List.mem_cons_of_mem _ hy) t ht)
        simp [allSome, h1, h2, h]


theorem All2.imp {α β : Type} {R S : α → β → Prop} {l : List α} {ts : List β}
    (h : All2 R l ts) (hi : ∀ a b, a ∈ l → R a b → S a b) : All2 S l ts := by
  induction h with
  | nil => exact All2.nil
  | cons hr _ ih =>
    exact All2.cons (hi _ _ List.mem_cons_self hr) (ih fun a b ha => hi a b (List.mem_cons_of_mem _ ha))

/-! ## Post -/

theorem post_mono {c : Cache} {d : Disk} : ∀ (ws seen seen' : List Hash),
    (∀ x ∈ seen, x ∈ seen') → Post c d seen ws → Post c d seen' ws
  | [], _, _, _, _ => trivial
  | x :: xs, seen, seen', hs, hp => by
    refine ⟨fun n hn r hr => ?_, post_mono xs (x :: seen) (x :: seen') ?_ hp.2⟩
    · rcases hp.1 n hn r hr with h | h
      · exact Or.inl h
      · exact Or.inr (hs r h)
    · intro y hy
      rcases List.mem_cons.mp hy with h | h
      · exact h ▸ List.mem_cons_self
      · exact List.mem_cons_of_mem _ (hs y h)

theorem post_append {c : Cache} {d : Disk} : ∀ (a b seen : List Hash),
    Post c d seen (a ++ b) ↔ Post c d seen a ∧ Post c d (a.reverse ++ seen) b
  | [], b, seen => by simp [Post]
  | x :: a, b, seen => by
    have ih := post_append (c := c) (d := d) a b (x :: seen)
    simp only [List.cons_append, Post, List.reverse_cons, List.append_assoc, List.singleton_append]
    rw [ih]
    constructor
    · rintro ⟨h1, h2, h3⟩; exact ⟨⟨h1, h2⟩, h3⟩
    · rintro ⟨⟨h1, h2⟩, h3⟩; exact ⟨h1, h2, h3⟩

/-! ## the commit walk -/

theorem walk_zero (c : Cache) (h : Hash) : walk c 0 h = none := rfl

theorem walk_succ (c : Cache) (f : Nat) (h : Hash) :
    walk c (f + 1) h =
      match c.lookup h with
      | none => some []
      | some n =>
        match allSome (n.childs.map (walk c f)) with
        | none => none
        | some ts => some (ts.flatten ++ [h]) := rfl

/-- closed under cached children -/
def ChildClosed (c : Cache) (t : List Hash) : Prop :=
  ∀ x ∈ t, ∀ n, c.lookup x = some n → ∀ r ∈ n.childs, Has c r → r ∈ t

structure GoodTrace (c : Cache) (d : Disk) (x : Hash) (t : List Hash) : Prop where
  cached : ∀ y ∈ t, Has c y
  top : Has c x → x ∈ t
  post : ∀ seen, Post c d seen t
  closed : ChildClosed c t

theorem childClosed_append {c : Cache} {a b : List Hash} (ha : ChildClosed c a) (hb : ChildClosed c b) :
    ChildClosed c (a ++ b) := by
  intro x hx n hn r hr hc
  rcases List.mem_append.mp hx with h | h
  · exact List.mem_append_left _ (ha x h n hn r hr hc)
  · exact List.mem_append_right _ (hb x h n hn r hr hc)

theorem good_flatten {c : Cache} {d : Disk} {l : List Hash} {ts : List (List Hash)}
    (h : All2 (GoodTrace c d) l ts) :
    (∀ y ∈ ts.flatten, Has c y) ∧ (∀ r ∈ l, Has c r → r ∈ ts.flatten) ∧
    (∀ seen, Post c d seen ts.flatten) ∧ ChildClosed c ts.flatten := by
  induction h with
  | nil => exact ⟨by simp, by simp, fun _ => trivial, by intro x hx; simp at hx⟩
  | @cons a b as bs hg _ ih =>
    obtain ⟨i1, i2, i3, i4⟩ := ih
    refine ⟨?_, ?_, ?_, ?_⟩
    · intro y hy
      simp only [List.flatten_cons, List.mem_append] at hy
      rcases hy with h | h
      · exact hg.cached y h
      · exact i1 y h
    · intro r hr hc
      simp only [List.flatten_cons, List.mem_append]
      rcases List.mem_cons.mp hr with h | h
      · exact Or.inl (hg.top (h ▸ hc) |> fun m => h ▸ m)
      · exact Or.inr (i2 r h hc)
    · intro seen
      simp only [List.flatten_cons]
      exact (post_append b bs.flatten seen).mpr ⟨hg.post seen, i3 _⟩
    · simp only [List.flatten_cons]
      exact childClosed_append hg.closed i4

/-- The Put sequences `commit(h)` can produce when **every visit** of a node
    iterates its external children in an order of its own (Go randomises map
    iteration per `range` statement, so a node reached twice in one commit may
    be walked in two different orders).  `f` bounds the recursion depth. -/
def WalksN (c : Cache) : Nat → Hash → List Hash → Prop
  | 0, _, _ => False
  | f + 1, h, ws =>
    match c.lookup h with
    | none => ws = []
    | some n => ∃ ks ts, (∀ x, x ∈ ks ↔ x ∈ n.ext) ∧ All2 (WalksN c f) (ks ++ n.inner) ts ∧ ws = ts.flatten ++ [h]

theorem walksN_good (c : Cache) (d : Disk) (hinv : CacheInv c d) :
    ∀ (f : Nat) (h : Hash) (ws : List Hash), WalksN c f h ws → GoodTrace c d h ws := by
  intro f
  induction f with
  | zero => intro h ws hw; exact absurd hw (by simp [WalksN])
  | succ f ih =>
    intro h ws hw
    unfold WalksN at hw
    cases hl : c.lookup h with
    | none =>
      simp only [hl] at hw
      subst hw
      exact ⟨by simp, by simp [Has, hl], fun _ => trivial, by intro x hx; simp at hx⟩
    | some n =>
      simp only [hl] at hw
      obtain ⟨ks, ts, hks, hall, hws⟩ := hw
      subst hws
      have hmem : ∀ r, r ∈ n.childs → r ∈ ks ++ n.inner := by
        intro r hr
        simp only [CNode.childs, List.mem_append] at hr ⊢
        rcases hr with h1 | h1
        · exact Or.inl ((hks r).mpr h1)
        · exact Or.inr h1
      have h2 := hall.imp (fun a b _ hab => ih a b hab)
      obtain ⟨g1, g2, g3, g4⟩ := good_flatten h2
      refine ⟨?_, fun _ => by simp, ?_, ?_⟩
      · intro y hy
        rcases List.mem_append.mp hy with hy | hy
        · exact g1 y hy
        · simp only [List.mem_singleton] at hy; subst hy; exact has_of_lookup hl
      · intro seen
        refine (post_append _ _ seen).mpr ⟨g3 seen, ?_, trivial⟩
        intro n' hn' r hr
        rw [hl] at hn'
        cases hn'
        rcases hinv h n hl r hr with hd | ⟨hc1, hc2⟩
        · exact Or.inl hd
        · exact Or.inr (List.mem_append_left _ (List.mem_reverse.mpr (g2 r (hmem r hc1) hc2)))
      · intro x hx n' hn' r hr hc
        rcases List.mem_append.mp hx with hx | hx
        · exact List.mem_append_left _ (g4 x hx n' hn' r hr hc)
        · simp only [List.mem_singleton] at hx
          subst hx
          rw [hl] at hn'
          cases hn'
          exact List.mem_append_left _ (g2 r (hmem r hr) hc)

/-- the executable walk is the instance in which every visit uses the stored order. -/
theorem walk_walksN (c : Cache) : ∀ (f : Nat) (h : Hash) (ws : List Hash), walk c f h = some ws → WalksN c f h ws := by
  intro f
  induction f with
  | zero => intro h ws hw; simp [walk_zero] at hw
  | succ f ih =>
    intro h ws hw
    rw [walk_succ] at hw
    unfold WalksN
    cases hl : c.lookup h with
    | none => simp only [hl, Option.some.injEq] at hw; simp only; exact hw.symm
    | some n =>
      simp only [hl] at hw ⊢
      cases ha : allSome (n.childs.map (walk c f)) with
      | none => simp [ha] at hw
      | some ts =>
        simp only [ha, Option.some.injEq] at hw
        exact ⟨n.ext, ts, fun _ => Iff.rfl,
          (allSome_map_some (walk c f) n.childs ts ha).imp (fun a b _ hab => ih a b hab), hw.symm⟩

theorem walk_good (c : Cache) (d : Disk) (hinv : CacheInv c d) :
    ∀ (f : Nat) (h : Hash) (ws : List Hash), walk c f h = some ws → GoodTrace c d h ws :=
  fun f h ws hw => walksN_good c d hinv f h ws (walk_walksN c f h ws hw)


/-! ## writes reaching the disk -/

theorem extends_refl (d : Disk) : Extends d d := fun _ _ h => h

theorem extends_trans {a b c : Disk} (h1 : Extends a b) (h2 : Extends b c) : Extends a c :=
  fun h dn e => h2 h dn (h1 h dn e)

theorem extends_has {d d' : Disk} (he : Extends d d') {r : Hash} (h : Has d r) : Has d' r := by
  obtain ⟨n, hn⟩ := lookup_of_has h
  exact has_of_lookup (he r n hn)

theorem resolvable_extends {d d' : Disk} (he : Extends d d') {k : Hash} (h : Resolvable d k) : Resolvable d' k := by
  induction h with
  | node h n hl _ ih => exact Resolvable.node h n (he h n hl) ih

theorem allRes_closed {d : Disk} (h : AllRes d) : Closed d := by
  intro x n hx r hr
  cases h x (has_of_lookup hx) with
  | node _ n' hl hs =>
    rw [hx] at hl; cases hl
    cases hs r hr with
    | node _ m hm _ => exact has_of_lookup hm

theorem putNode_cached {c : Cache} {d : Disk} {x : Hash} {n : CNode} (hx : c.lookup x = some n) :
    putNode c d x = (x, n.toD) :: d := by simp [putNode, hx]

theorem putNode_uncached {c : Cache} {d : Disk} {x : Hash} (hx : c.lookup x = none) :
    putNode c d x = d := by simp [putNode, hx]

theorem putNode_extends {c : Cache} {d : Disk} (hc : Consistent c d) (x : Hash) : Extends d (putNode c d x) := by
  cases hx : c.lookup x with
  | none => rw [putNode_uncached hx]; exact extends_refl d
  | some n =>
    rw [putNode_cached hx]
    intro h dn hd
    rw [lookup_cons_eq]
    by_cases hk : h = x
    · subst hk; simp [hc h n dn hx hd]
    · simp [hk, hd]

theorem putNode_consistent {c : Cache} {d : Disk} (hc : Consistent c d) (x : Hash) : Consistent c (putNode c d x) := by
  cases hx : c.lookup x with
  | none => rw [putNode_uncached hx]; exact hc
  | some n =>
    rw [putNode_cached hx]
    intro h m dn hm hd
    rw [lookup_cons_eq] at hd
    by_cases hk : h = x
    · subst hk
      simp only [if_true, Option.some.injEq] at hd
      rw [hx] at hm; cases hm; exact hd.symm
    · simp only [hk, if_false] at hd
      exact hc h m dn hm hd

theorem putNode_has_self {c : Cache} {d : Disk} {x : Hash} {n : CNode} (hx : c.lookup x = some n) :
    (putNode c d x).lookup x = some n.toD := by
  rw [putNode_cached hx, lookup_cons_eq]; simp

theorem putNode_allRes {c : Cache} {d : Disk} (ha : AllRes d) (hc : Consistent c d) {x : Hash} {n : CNode}
    (hx : c.lookup x = some n) (hn : ∀ r ∈ n.need, Has d r) : AllRes (putNode c d x) := by
  have he := putNode_extends hc x
  intro h hh
  by_cases hk : h = x
  · subst hk
    refine Resolvable.node h n.toD (putNode_has_self hx) ?_
    intro r hr
    exact resolvable_extends he (ha r (hn r hr))
  · have : (putNode c d x).lookup h = d.lookup h := by
      rw [putNode_cached hx, lookup_cons_eq]; simp [hk]
    have hd : Has d h := by unfold Has at hh ⊢; rw [← this]; exact hh
    exact resolvable_extends he (ha h hd)

theorem applyWrites_nil (c : Cache) (d : Disk) : applyWrites c d [] = d := rfl

theorem applyWrites_cons (c : Cache) (d : Disk) (x : Hash) (xs : List Hash) :
    applyWrites c d (x :: xs) = applyWrites c (putNode c d x) xs := rfl

theorem applyWrites_append (c : Cache) (d : Disk) (a b : List Hash) :
    applyWrites c d (a ++ b) = applyWrites c (applyWrites c d a) b := by
  simp [applyWrites, List.foldl_append]

theorem writes_extends {c : Cache} : ∀ (ws : List Hash) (d : Disk), Consistent c d →
    Extends d (applyWrites c d ws) ∧ Consistent c (applyWrites c d ws)
  | [], d, hc => ⟨extends_refl d, hc⟩
  | x :: xs, d, hc => by
    rw [applyWrites_cons]
    obtain ⟨h1, h2⟩ := writes_extends xs (putNode c d x) (putNode_consistent hc x)
    exact ⟨extends_trans (putNode_extends hc x) h1, h2⟩

/-- what was written is on disk with the cached content (last write wins, all writes agree). -/
theorem writes_lookup {c : Cache} {x : Hash} {n : CNode} (hx : c.lookup x = some n) :
    ∀ (ws : List Hash) (d : Disk), (x ∈ ws ∨ d.lookup x = some n.toD) → (applyWrites c d ws).lookup x = some n.toD
  | [], d, h => by
    rcases h with h | h
    · simp at h
    · simpa [applyWrites_nil] using h
  | y :: ys, d, h => by
    rw [applyWrites_cons]
    apply writes_lookup hx ys
    by_cases hy : y = x
    · subst hy; exact Or.inr (putNode_has_self hx)
    · rcases h with h | h
      · rcases List.mem_cons.mp h with h | h
        · exact absurd h.symm hy
        · exact Or.inl h
      · right
        cases hcy : c.lookup y with
        | none => rw [putNode_uncached hcy]; exact h
        | some m =>
          rw [putNode_cached hcy, lookup_cons_eq]
          simp [Ne.symm hy, h]

/-- The core of C03: a post-order Put sequence keeps "every stored hash is fully
    resolvable" true after **every** prefix, whatever the iteration order was. -/
theorem writes_allRes {c : Cache} {d : Disk} : ∀ (ws seen : List Hash) (d' : Disk),
    AllRes d' → Consistent c d' → (∀ r, Has d r → Has d' r) → (∀ r ∈ seen, Has d' r) →
    (∀ x ∈ ws, Has c x) → Post c d seen ws →
    ∀ p, p <+: ws → AllRes (applyWrites c d' p)
  | [], _, d', ha, _, _, _, _, _, p, hp => by
    have : p = [] := List.prefix_nil.mp hp
    subst this; exact ha
  | x :: xs, seen, d', ha, hc, hd, hs, hcached, hpost, p, hp => by
    rcases List.prefix_cons_iff.mp hp with h | ⟨t, ht, hpt⟩
    · subst h; exact ha
    · subst ht
      rw [applyWrites_cons]
      obtain ⟨n, hn⟩ := lookup_of_has (hcached x List.mem_cons_self)
      have hneed : ∀ r ∈ n.need, Has d' r := by
        intro r hr
        rcases hpost.1 n hn r hr with h | h
        · exact hd r h
        · exact hs r h
      have he := putNode_extends hc x
      refine writes_allRes xs (x :: seen) (putNode c d' x) (putNode_allRes ha hc hn hneed)
        (putNode_consistent hc x) (fun r hr => extends_has he (hd r hr)) ?_
        (fun y hy => hcached y (List.mem_cons_of_mem _ hy)) hpost.2 t hpt
      intro r hr
      rcases List.mem_cons.mp hr with h | h
      · subst h; exact has_of_lookup (putNode_has_self hn)
      · exact extends_has he (hs r h)

/-! ## batches -/

theorem splitBatches_flatten (c : Cache) : ∀ (ws cur : List Hash) (sz : Nat),
    (splitBatches c ws cur sz).flatten = cur.reverse ++ ws
  | [], cur, sz => by simp [splitBatches]
  | h :: rest, cur, sz => by
    unfold splitBatches
    simp only
    split
    · simp [splitBatches_flatten c rest [] 0]
    · simp [splitBatches_flatten c rest (h :: cur)]

/-- the loop written against the batch object issues exactly the batches `splitBatches` describes -/
theorem commitLoop_eq (c : Cache) : ∀ (ws : List Hash) (b : BatchSt) (acc : List (List Hash)),
    commitLoop c ws b acc = acc ++ splitBatches c ws b.items.reverse b.size
  | [], b, acc => by simp [commitLoop, splitBatches]
  | h :: rest, b, acc => by
    unfold commitLoop splitBatches
    simp only [BatchSt.put, BatchSt.valueSize, BatchSt.reset]
    by_cases hf : flushNow (b.size + sizeOf c h) = true
    · simp only [hf, if_true]
      rw [commitLoop_eq c rest ⟨[], 0⟩ (acc ++ [b.items ++ [h]])]
      simp
    · simp only [hf, if_false]
      rw [commitLoop_eq c rest ⟨b.items ++ [h], b.size + sizeOf c h⟩ acc]
      simp

theorem applyBatches_eq (c : Cache) (d : Disk) (bs : List (List Hash)) :
    applyBatches c d bs = applyWrites c d bs.flatten := by
  unfold applyBatches applyWrites
  rw [List.foldl_flatten]

theorem take_flatten_prefix {α : Type} (bs : List (List α)) (j : Nat) : (bs.take j).flatten <+: bs.flatten := by
  conv => rhs; rw [← List.take_append_drop j bs, List.flatten_append]
  exact List.prefix_append _ _


/-! ## closedness alone (no collision-freedom hypothesis needed) -/

theorem putNode_has_mono {c : Cache} {d : Disk} (x : Hash) {r : Hash} (h : Has d r) : Has (putNode c d x) r := by
  cases hx : c.lookup x with
  | none => rw [putNode_uncached hx]; exact h
  | some n =>
    rw [putNode_cached hx]
    unfold Has
    rw [lookup_cons_eq]
    by_cases hk : r = x
    · simp [hk]
    · simpa [hk] using h

theorem putNode_closed {c : Cache} {d : Disk} (hcl : Closed d) {x : Hash} {n : CNode}
    (hx : c.lookup x = some n) (hn : ∀ r ∈ n.need, Has d r) : Closed (putNode c d x) := by
  intro h m hm r hr
  rw [putNode_cached hx, lookup_cons_eq] at hm
  by_cases hk : h = x
  · subst hk
    simp only [if_true, Option.some.injEq] at hm
    subst hm
    exact putNode_has_mono h (hn r hr)
  · simp only [hk, if_false] at hm
    exact putNode_has_mono x (hcl h m hm r hr)

theorem writes_closed {c : Cache} {d : Disk} : ∀ (ws seen : List Hash) (d' : Disk),
    Closed d' → (∀ r, Has d r → Has d' r) → (∀ r ∈ seen, Has d' r) →
    (∀ x ∈ ws, Has c x) → Post c d seen ws →
    ∀ p, p <+: ws → Closed (applyWrites c d' p)
  | [], _, d', ha, _, _, _, _, p, hp => by
    have : p = [] := List.prefix_nil.mp hp
    subst this; exact ha
  | x :: xs, seen, d', ha, hd, hs, hcached, hpost, p, hp => by
    rcases List.prefix_cons_iff.mp hp with h | ⟨t, ht, hpt⟩
    · subst h; exact ha
    · subst ht
      rw [applyWrites_cons]
      obtain ⟨n, hn⟩ := lookup_of_has (hcached x List.mem_cons_self)
      have hneed : ∀ r ∈ n.need, Has d' r := by
        intro r hr
        rcases hpost.1 n hn r hr with h | h
        · exact hd r h
        · exact hs r h
      refine writes_closed xs (x :: seen) (putNode c d' x) (putNode_closed ha hn hneed)
        (fun r hr => putNode_has_mono x (hd r hr)) ?_
        (fun y hy => hcached y (List.mem_cons_of_mem _ hy)) hpost.2 t hpt
      intro r hr
      rcases List.mem_cons.mp hr with h | h
      · subst h; exact has_of_lookup (putNode_has_self hn)
      · exact putNode_has_mono x (hs r h)

/-- acyclicity of a hash-addressed store, as a rank function. -/
def Ranked (d : Disk) : Prop :=
  ∃ rank : Hash → Nat, ∀ h n, d.lookup h = some n → ∀ r ∈ n.need, rank r < rank h

theorem closed_ranked_resolvable {d : Disk} (hcl : Closed d) (hr : Ranked d) :
    ∀ h, Has d h → Resolvable d h := by
  obtain ⟨rank, hrank⟩ := hr
  have key : ∀ k h, rank h < k → Has d h → Resolvable d h := by
    intro k
    induction k with
    | zero => intro h hk; omega
    | succ k ih =>
      intro h hk hh
      obtain ⟨n, hn⟩ := lookup_of_has hh
      refine Resolvable.node h n hn (fun r hr => ih r ?_ (hcl h n hn r hr))
      have := hrank h n hn r hr
      omega
  intro h hh
  exact key (rank h + 1) h (Nat.lt_succ_self _) hh

/-! ## readers: `resolve` and `view` -/

theorem res_and_ok {a b : Res} : Res.and a b = .ok ↔ a = .ok ∧ b = .ok := by
  cases a <;> cases b <;> simp [Res.and]

theorem res_and_missing {a b : Res} : Res.and a b = .missing ↔ a = .missing ∨ b = .missing := by
  cases a <;> cases b <;> simp [Res.and]

theorem res_all_ok : ∀ (l : List Res), Res.all l = .ok ↔ ∀ x ∈ l, x = .ok
  | [] => by simp [Res.all]
  | r :: rs => by simp [Res.all, res_and_ok, res_all_ok rs]

theorem res_all_missing : ∀ (l : List Res), Res.all l = .missing ↔ ∃ x ∈ l, x = .missing
  | [] => by simp [Res.all]
  | r :: rs => by
    simp only [Res.all, res_and_missing, res_all_missing rs, List.mem_cons]
    constructor
    · rintro (h | ⟨x, hx, hm⟩)
      · exact ⟨r, Or.inl rfl, h⟩
      · exact ⟨x, Or.inr hx, hm⟩
    · rintro ⟨x, hx | hx, hm⟩
      · exact Or.inl (hx ▸ hm)
      · exact Or.inr ⟨x, hx, hm⟩

theorem resolve_succ (get : Hash → Option DNode) (f : Nat) (h : Hash) :
    resolve get (f + 1) h = match get h with
      | none => .missing
      | some n => Res.all (n.need.map (resolve get f)) := rfl

theorem resolve_ok_sound (d : Disk) : ∀ (f : Nat) (h : Hash), resolve (diskGet d) f h = .ok → Resolvable d h := by
  intro f
  induction f with
  | zero => intro h hh; simp [resolve] at hh
  | succ f ih =>
    intro h hh
    rw [resolve_succ] at hh
    cases hl : diskGet d h with
    | none => simp [hl] at hh
    | some n =>
      simp only [hl] at hh
      rw [res_all_ok] at hh
      refine Resolvable.node h n hl (fun r hr => ih r (hh _ (List.mem_map.mpr ⟨r, hr, rfl⟩)))

theorem resolve_missing_sound (d : Disk) : ∀ (f : Nat) (h : Hash), resolve (diskGet d) f h = .missing → ¬ Resolvable d h := by
  intro f
  induction f with
  | zero => intro h hh; simp [resolve] at hh
  | succ f ih =>
    intro h hh hres
    rw [resolve_succ] at hh
    cases hres with
    | node _ n hl hs =>
      have hl' : diskGet d h = some n := hl
      simp only [hl'] at hh
      rw [res_all_missing] at hh
      obtain ⟨x, hx, hxm⟩ := hh
      obtain ⟨r, hr, hrx⟩ := List.mem_map.mp hx
      subst hrx
      exact ih r hxm (hs r hr)

theorem view_succ (get : Hash → Option DNode) (f : Nat) (h : Hash) :
    view get (f + 1) h = match get h with
      | none => none
      | some n =>
        match allSome (n.need.map (view get f)) with
        | none => none
        | some vs => some (vs.foldl (fun acc v => (acc.1 + v.1, acc.2 + v.2)) (1, n.tag)) := rfl

/-- if every node `get` shows below `h` is shown identically by `get'`, the views agree. -/
theorem view_transfer (get get' : Hash → Option DNode) (G : Hash → Prop)
    (hstep : ∀ h, G h → ∀ n, get h = some n → get' h = some n ∧ ∀ r ∈ n.need, G r) :
    ∀ (f : Nat) (h : Hash) (v : Nat × Nat), G h → view get f h = some v → view get' f h = some v := by
  intro f
  induction f with
  | zero => intro h v _ hv; simp [view] at hv
  | succ f ih =>
    intro h v hg hv
    rw [view_succ] at hv ⊢
    cases hl : get h with
    | none => simp [hl] at hv
    | some n =>
      obtain ⟨h1, h2⟩ := hstep h hg n hl
      simp only [hl] at hv
      simp only [h1]
      cases ha : allSome (n.need.map (view get f)) with
      | none => simp [ha] at hv
      | some vs =>
        have := allSome_map_congr (view get f) (view get' f) n.need vs ha (fun x hx t ht => ih x t (h2 x hx) ht)
        simp only [ha] at hv
        simp only [this]
        exact hv

end Rangers.Model.TrieDB
