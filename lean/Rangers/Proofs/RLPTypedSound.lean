import Rangers.Proofs.RLPTypedHead
/-! Canonicity of the typed slice decoder: whatever `decT` accepts, `encT` writes back. -/
namespace Rangers.RLP
open Rangers

mutual
  /-- Types for which typed canonicity is claimed: no `rlp:"nil"` field anywhere, integer
      widths as in Go (8..64 bits). -/
  def Ty.plain : Ty → Prop
    | .uint bits => 8 ≤ bits ∧ bits ≤ 64
    | .slice e => e.plain
    | .arr _ e => e.plain
    | .ptr e => e.plain
    | .struct fs => plainFs fs
    | _ => True
  def plainFs : List (Tag × Ty) → Prop
    | [] => True
    | (tag, t) :: fs => tag ≠ .nilOK ∧ t.plain ∧ plainFs fs
end

theorem pow256_le (bits cs : Nat) (h : cs ≤ bits / 8) : 256 ^ cs ≤ 2 ^ bits := by
  have h1 : (256 : Nat) ^ cs = 2 ^ (8 * cs) := by
    have : (256 : Nat) = 2 ^ 8 := by decide
    rw [this, ← Nat.pow_mul]
  rw [h1]
  exact Nat.pow_le_pow_right (by omega) (by omega)

/-- `Stream.uint(bits)` on a slice accepts exactly `writeUint`'s output. -/
theorem uintOf_sound {bits : Nat} {buf rest : Bytes} {n : Nat} (hb : 8 ≤ bits ∧ bits ≤ 64)
    (h : uintOf bits buf = .ok (n, rest)) : buf = encUint n ++ rest ∧ n < 2 ^ bits := by
  unfold uintOf at h
  cases hk : readHead buf with
  | error e => rw [hk] at h; cases h
  | ok r =>
    obtain ⟨k, ts, cs⟩ := r
    rw [hk] at h
    simp only at h
    obtain ⟨hlen, _, hc⟩ := readHead_inv hk
    have hsp := split3 buf ts cs
    have hcl := content_length hlen
    have h2b : 256 ≤ 2 ^ bits := by
      calc 256 = 2 ^ 8 := by decide
        _ ≤ 2 ^ bits := Nat.pow_le_pow_right (by omega) hb.1
    rcases hc with ⟨hk1, hts, hcs, x, tl, hbuf, hx⟩ | ⟨hk1, hhead, hts⟩ | ⟨hk1, _, _⟩
    · subst hk1 hts hcs hbuf
      simp only [List.drop_zero, List.take_succ_cons, List.take_zero] at h
      split at h
      · cases h
      · rename_i hx0
        injection h with h; injection h with h1 h2
        subst h1 h2
        have : ¬ x.toNat = 0 := hx0
        simp [encUint, this, hx]
        omega
    · subst hk1
      simp only at h
      split at h
      · cases h
      · rename_i hov
        split at h
        · rename_i hcs0
          injection h with h; injection h with h1 h2
          subst h1 h2 hcs0
          rw [encHead_small _ _ (by omega)] at hhead
          refine ⟨?_, by omega⟩
          have : buf = buf.take ts ++ buf.drop ts := (List.take_append_drop ts buf).symm
          rw [hhead] at this
          simpa [encUint] using this
        · rename_i hcs0
          have hcs8 : cs ≤ 8 := by omega
          split at h
          · rename_i hcs1
            subst hcs1
            split at h
            · cases h
            · rename_i hlt
              injection h with h; injection h with h1 h2
              subst h1 h2
              cases hcc : (buf.drop ts).take 1 with
              | nil => rw [hcc] at hcl; simp at hcl
              | cons x xs =>
                have hxs : xs = [] := by
                  rw [hcc] at hcl; simpa using hcl
                subst hxs
                rw [hcc] at hlt
                have hx : ¬ x.toNat < 128 := by simpa [headLt128] using hlt
                have hxb := x.toNat_lt
                have hbe : beNat [x] = x.toNat := by simp [beNat]
                rw [hbe]
                have hm : Minimal [x] := by simp only [Minimal]; omega
                have htb : toBE x.toNat = [x] := by rw [← hbe]; exact toBE_beNat [x] hm
                have hne : ¬ x.toNat = 0 := by omega
                refine ⟨?_, by omega⟩
                rw [encHead_small _ _ (by omega)] at hhead
                rw [hcc, hhead] at hsp
                simp only [encUint, hne, hx, if_false, putint, htb]
                simpa using hsp
          · rename_i hcs1
            cases hcc : (buf.drop ts).take cs with
            | nil => rw [hcc] at hcl; simp at hcl; omega
            | cons b0 tl =>
              rw [hcc] at h
              simp only at h
              split at h
              · cases h
              · rename_i hb0
                injection h with h; injection h with h1 h2
                subst h1 h2
                have hm : Minimal (b0 :: tl) := by simpa [Minimal] using hb0
                have htb := toBE_beNat _ hm
                have hlen2 : (b0 :: tl).length = cs := by rw [← hcc]; exact hcl
                have hlt := beNat_lt (b0 :: tl)
                have hge : ¬ beNat (b0 :: tl) < 256 := by
                  intro hlt'
                  have := toBE_length_le 1 _ (by simpa using hlt')
                  rw [htb, hlen2] at this
                  omega
                have hne : ¬ beNat (b0 :: tl) = 0 := by omega
                have h128 : ¬ beNat (b0 :: tl) < 128 := by omega
                refine ⟨?_, ?_⟩
                · rw [encHead_small _ _ (by omega)] at hhead
                  rw [hcc, hhead] at hsp
                  simp only [encUint, hne, h128, if_false, putint, htb, hlen2]
                  simpa using hsp
                · rw [hlen2] at hlt
                  calc beNat (b0 :: tl) < 256 ^ cs := hlt
                    _ ≤ 2 ^ bits := pow256_le bits cs (by omega)
    · subst hk1
      simp only at h
      cases h

end Rangers.RLP

namespace Rangers.RLP
open Rangers

theorem list_case {buf : Bytes} {ts cs : Nat} (hk : readHead buf = .ok (.list, ts, cs)) :
    buf = encListPayload ((buf.drop ts).take cs) ++ buf.drop (ts + cs) := by
  obtain ⟨hlen, _, hc⟩ := readHead_inv hk
  have hcl := content_length hlen
  rcases hc with ⟨hk1, _⟩ | ⟨hk1, _⟩ | ⟨_, hhead, _⟩
  · cases hk1
  · cases hk1
  · unfold encListPayload
    rw [hcl, ← hhead, List.append_assoc]
    exact split3 buf ts cs

theorem encT_any_of_slice {v : Val} {e : Bytes} (h : encT (.slice .any) v = .ok e) : encT .any v = .ok e := by
  cases v <;> simp [encT] at h ⊢
  exact h

theorem encT_any_of_bytes {v : Val} {e : Bytes} (h : encT .bytes v = .ok e) : encT .any v = .ok e := by
  cases v <;> simp [encT] at h ⊢
  exact h

/-- typed canonicity, all four mutually recursive decoders -/
theorem typed_sound : ∀ f,
    (∀ ty b v rest, Ty.plain ty → decT f ty b = .ok (v, rest) → ∃ e, encT ty v = .ok e ∧ b = e ++ rest) ∧
    (∀ e c vs, Ty.plain e → decElems f e c = .ok vs → ∃ p, encElems e vs = .ok p ∧ c = p) ∧
    (∀ e n c vs, Ty.plain e → decArr f e n c = .ok vs → vs.length = n ∧ ∃ p, encElems e vs = .ok p ∧ c = p) ∧
    (∀ fs c vs, plainFs fs → decFields f fs c = .ok vs → ∃ p, encFields fs vs = .ok p ∧ c = p) := by
  intro f
  induction f with
  | zero =>
    refine ⟨?_, ?_, ?_, ?_⟩
    · intro ty b v rest _ h; simp [decT] at h
    · intro e c vs _ h; simp [decElems] at h
    · intro e n c vs _ h; simp [decArr] at h
    · intro fs c vs _ h; simp [decFields] at h
  | succ f ih =>
    obtain ⟨ihT, ihE, ihA, ihF⟩ := ih
    refine ⟨?_, ?_, ?_, ?_⟩
    · intro ty b v rest hp h
      cases ty with
      | raw =>
        simp only [decT] at h
        cases hk : readHead b with
        | error e => rw [hk] at h; cases h
        | ok r =>
          obtain ⟨k, ts, cs⟩ := r
          rw [hk] at h
          simp only at h
          obtain ⟨hlen, _, hc⟩ := readHead_inv hk
          have hsp := split3 b ts cs
          rcases hc with ⟨hk1, hts, hcs, x, tl, hbuf, hx⟩ | ⟨hk1, hhead, _⟩ | ⟨hk1, hhead, _⟩
          · subst hk1 hts hcs hbuf
            simp only at h
            injection h with h; injection h with h1 h2
            subst h1 h2
            exact ⟨_, rfl, by simp⟩
          · subst hk1
            simp only at h
            injection h with h; injection h with h1 h2
            subst h1 h2
            refine ⟨_, rfl, ?_⟩
            rw [← hhead, List.append_assoc]; exact hsp
          · subst hk1
            simp only at h
            injection h with h; injection h with h1 h2
            subst h1 h2
            refine ⟨_, rfl, ?_⟩
            rw [← hhead, List.append_assoc]; exact hsp
      | uint bits =>
        simp only [decT] at h
        cases hu : uintOf bits b with
        | error e => rw [hu] at h; cases h
        | ok r =>
          obtain ⟨n, rest'⟩ := r
          rw [hu] at h
          simp only at h
          injection h with h; injection h with h1 h2
          subst h1 h2
          have hb : 8 ≤ bits ∧ bits ≤ 64 := by simpa [Ty.plain] using hp
          obtain ⟨h1, h2⟩ := uintOf_sound hb hu
          exact ⟨_, by simp only [encT, h2, if_true], h1⟩
      | bool =>
        simp only [decT] at h
        cases hu : uintOf 8 b with
        | error e => rw [hu] at h; cases h
        | ok r =>
          obtain ⟨n, rest'⟩ := r
          rw [hu] at h
          simp only at h
          obtain ⟨h1, _⟩ := uintOf_sound (by omega : 8 ≤ 8 ∧ 8 ≤ 64) hu
          split at h
          · rename_i hn
            injection h with h; injection h with h3 h4
            subst h3 h4 hn
            exact ⟨_, rfl, by simpa [encUint] using h1⟩
          · split at h
            · rename_i hn
              injection h with h; injection h with h3 h4
              subst h3 h4 hn
              exact ⟨_, rfl, by simpa [encUint] using h1⟩
            · cases h
      | big =>
        simp only [decT] at h
        cases hu : bytesOf b with
        | error e => rw [hu] at h; cases h
        | ok r =>
          obtain ⟨c, rest'⟩ := r
          rw [hu] at h
          simp only at h
          have hs := bytesOf_sound hu
          cases hbg : bigOfContent c with
          | error e => rw [hbg] at h; cases h
          | ok n =>
            rw [hbg] at h
            simp only at h
            injection h with h; injection h with h3 h4
            subst h3 h4
            refine ⟨_, rfl, ?_⟩
            unfold bigOfContent at hbg
            cases c with
            | nil =>
              simp only at hbg
              injection hbg with hbg; subst hbg
              simpa [encBig, encString, encHead] using hs
            | cons b0 tl =>
              simp only at hbg
              split at hbg
              · cases hbg
              · rename_i hb0
                injection hbg with hbg; subst hbg
                have hm : Minimal (b0 :: tl) := by simpa [Minimal] using hb0
                have hne := beNat_pos_of_minimal (b0 :: tl) (by simp) hm
                simp only [encBig, hne, if_false, toBE_beNat _ hm]
                exact hs
      | str =>
        simp only [decT] at h
        cases hu : bytesOf b with
        | error e => rw [hu] at h; cases h
        | ok r =>
          obtain ⟨c, rest'⟩ := r
          rw [hu] at h
          simp only at h
          injection h with h; injection h with h3 h4
          subst h3 h4
          exact ⟨_, rfl, bytesOf_sound hu⟩
      | bytes =>
        simp only [decT] at h
        cases hu : bytesOf b with
        | error e => rw [hu] at h; cases h
        | ok r =>
          obtain ⟨c, rest'⟩ := r
          rw [hu] at h
          simp only at h
          injection h with h; injection h with h3 h4
          subst h3 h4
          exact ⟨_, rfl, bytesOf_sound hu⟩
      | barr n =>
        simp only [decT] at h
        cases hk : readHead b with
        | error e => rw [hk] at h; cases h
        | ok r =>
          obtain ⟨k, ts, cs⟩ := r
          rw [hk] at h
          simp only at h
          obtain ⟨hlen, _, hc⟩ := readHead_inv hk
          have hsp := split3 b ts cs
          have hcl := content_length hlen
          rcases hc with ⟨hk1, hts, hcs, x, tl, hbuf, hx⟩ | ⟨hk1, hhead, _⟩ | ⟨hk1, _, _⟩
          · subst hk1 hts hcs hbuf
            simp only at h
            split at h
            · cases h
            · split at h
              · cases h
              · rename_i h0 h1
                injection h with h; injection h with h3 h4
                subst h3 h4
                have hn : n = 1 := by omega
                subst hn
                exact ⟨encString [x], by simp [encT], by simp [encString_byte x hx]⟩
          · subst hk1
            simp only at h
            split at h
            · cases h
            · split at h
              · cases h
              · split at h
                · cases h
                · rename_i h0 h1 hcanon
                  injection h with h; injection h with h3 h4
                  subst h3 h4
                  have hn : n = cs := by omega
                  subst hn
                  refine ⟨encString ((b.drop ts).take n), by simp [encT, hcl], ?_⟩
                  have hc' : ¬ (((b.drop ts).take n).length = 1 ∧ headLt128 ((b.drop ts).take n) = true) := by
                    rw [hcl]; exact hcanon
                  rw [encString_nonbyte _ hc', hcl, ← hhead, List.append_assoc]
                  exact hsp
          · subst hk1
            simp only at h
            cases h
      | any =>
        simp only [decT] at h
        cases hk : readHead b with
        | error e => rw [hk] at h; cases h
        | ok r =>
          obtain ⟨k, ts, cs⟩ := r
          rw [hk] at h
          simp only at h
          cases k with
          | list =>
            simp only at h
            obtain ⟨e, he, hb⟩ := ihT (.slice .any) b v rest (by simp [Ty.plain]) h
            exact ⟨e, encT_any_of_slice he, hb⟩
          | byte =>
            simp only at h
            obtain ⟨e, he, hb⟩ := ihT .bytes b v rest (by simp [Ty.plain]) h
            exact ⟨e, encT_any_of_bytes he, hb⟩
          | string =>
            simp only at h
            obtain ⟨e, he, hb⟩ := ihT .bytes b v rest (by simp [Ty.plain]) h
            exact ⟨e, encT_any_of_bytes he, hb⟩
      | slice e =>
        simp only [decT] at h
        cases hk : readHead b with
        | error e => rw [hk] at h; cases h
        | ok r =>
          obtain ⟨k, ts, cs⟩ := r
          rw [hk] at h
          simp only at h
          cases k with
          | byte => simp at h
          | string => simp at h
          | list =>
            simp only at h
            cases hd : decElems f e ((b.drop ts).take cs) with
            | error er => rw [hd] at h; cases h
            | ok vs =>
              rw [hd] at h
              simp only at h
              injection h with h; injection h with h3 h4
              subst h3 h4
              obtain ⟨p, hp1, hp2⟩ := ihE e _ vs (by simpa [Ty.plain] using hp) hd
              refine ⟨encListPayload p, by simp [encT, hp1], ?_⟩
              rw [← hp2]; exact list_case hk
      | arr n e =>
        simp only [decT] at h
        cases hk : readHead b with
        | error e => rw [hk] at h; cases h
        | ok r =>
          obtain ⟨k, ts, cs⟩ := r
          rw [hk] at h
          simp only at h
          cases k with
          | byte => simp at h
          | string => simp at h
          | list =>
            simp only at h
            cases hd : decArr f e n ((b.drop ts).take cs) with
            | error er => rw [hd] at h; cases h
            | ok vs =>
              rw [hd] at h
              simp only at h
              injection h with h; injection h with h3 h4
              subst h3 h4
              obtain ⟨hl, p, hp1, hp2⟩ := ihA e n _ vs (by simpa [Ty.plain] using hp) hd
              refine ⟨encListPayload p, by simp [encT, hp1, hl], ?_⟩
              rw [← hp2]; exact list_case hk
      | ptr e =>
        simp only [decT] at h
        cases hd : decT f e b with
        | error er => rw [hd] at h; cases h
        | ok r =>
          obtain ⟨v', rest'⟩ := r
          rw [hd] at h
          simp only at h
          injection h with h; injection h with h3 h4
          subst h3 h4
          obtain ⟨e', he, hb⟩ := ihT e b v' rest' (by simpa [Ty.plain] using hp) hd
          exact ⟨e', by simpa [encT] using he, hb⟩
      | struct fs =>
        simp only [decT] at h
        cases hk : readHead b with
        | error e => rw [hk] at h; cases h
        | ok r =>
          obtain ⟨k, ts, cs⟩ := r
          rw [hk] at h
          simp only at h
          cases k with
          | byte => simp at h
          | string => simp at h
          | list =>
            simp only at h
            cases hd : decFields f fs ((b.drop ts).take cs) with
            | error er => rw [hd] at h; cases h
            | ok vs =>
              rw [hd] at h
              simp only at h
              injection h with h; injection h with h3 h4
              subst h3 h4
              obtain ⟨p, hp1, hp2⟩ := ihF fs _ vs (by simpa [Ty.plain] using hp) hd
              refine ⟨encListPayload p, by simp [encT, hp1], ?_⟩
              rw [← hp2]; exact list_case hk
    · intro e c vs hp h
      cases c with
      | nil =>
        simp only [decElems] at h
        injection h with h; subst h
        exact ⟨[], by simp [encElems], rfl⟩
      | cons x xs =>
        rw [decElems] at h
        cases hd : decT f e (x :: xs) with
        | error er => rw [hd] at h; cases h
        | ok r =>
          obtain ⟨v, rest⟩ := r
          rw [hd] at h
          simp only at h
          cases hd2 : decElems f e rest with
          | error er => rw [hd2] at h; cases h
          | ok vs' =>
            rw [hd2] at h
            simp only at h
            injection h with h; subst h
            obtain ⟨a, ha1, ha2⟩ := ihT e _ v rest hp hd
            obtain ⟨p, hp1, hp2⟩ := ihE e rest vs' hp hd2
            exact ⟨a ++ p, by simp [encElems, ha1, hp1], by rw [ha2, hp2]⟩
    · intro e n c vs hp h
      cases n with
      | zero =>
        cases c with
        | nil => simp only [decArr] at h; injection h with h; subst h; exact ⟨rfl, [], by simp [encElems], rfl⟩
        | cons x xs => simp [decArr] at h
      | succ n =>
        cases c with
        | nil => simp [decArr] at h
        | cons x xs =>
          simp only [decArr] at h
          cases hd : decT f e (x :: xs) with
          | error er => rw [hd] at h; cases h
          | ok r =>
            obtain ⟨v, rest⟩ := r
            rw [hd] at h
            simp only at h
            cases hd2 : decArr f e n rest with
            | error er => rw [hd2] at h; cases h
            | ok vs' =>
              rw [hd2] at h
              simp only at h
              injection h with h; subst h
              obtain ⟨a, ha1, ha2⟩ := ihT e _ v rest hp hd
              obtain ⟨hl, p, hp1, hp2⟩ := ihA e n rest vs' hp hd2
              exact ⟨by simp [hl], a ++ p, by simp [encElems, ha1, hp1], by rw [ha2, hp2]⟩
    · intro fs c vs hp h
      cases fs with
      | nil =>
        cases c with
        | nil => simp only [decFields] at h; injection h with h; subst h; exact ⟨[], by simp [encFields], rfl⟩
        | cons x xs => simp [decFields] at h
      | cons fld fs' =>
        obtain ⟨tag, ty⟩ := fld
        simp only [plainFs] at hp
        simp only [decFields] at h
        cases tag with
        | nilOK => exact absurd rfl hp.1
        | tail =>
          simp only at h
          cases ty with
          | slice e =>
            cases fs' with
            | nil =>
              simp only at h
              cases hd : decElems f e c with
              | error er => rw [hd] at h; cases h
              | ok vs' =>
                rw [hd] at h
                simp only at h
                injection h with h; subst h
                obtain ⟨p, hp1, hp2⟩ := ihE e c vs' (by simpa [Ty.plain] using hp.2.1) hd
                exact ⟨p, by simp [encFields, hp1], hp2⟩
            | cons _ _ => simp at h
          | _ => simp at h
        | none =>
          simp only at h
          cases c with
          | nil => simp at h
          | cons x xs =>
            simp only at h
            cases hd : decT f ty (x :: xs) with
            | error er => rw [hd] at h; cases h
            | ok r =>
              obtain ⟨v, rest⟩ := r
              rw [hd] at h
              simp only at h
              cases hd2 : decFields f fs' rest with
              | error er => rw [hd2] at h; cases h
              | ok vs' =>
                rw [hd2] at h
                simp only at h
                injection h with h; subst h
                obtain ⟨a, ha1, ha2⟩ := ihT ty _ v rest hp.2.1 hd
                obtain ⟨p, hp1, hp2⟩ := ihF fs' rest vs' hp.2.2 hd2
                exact ⟨a ++ p, by simp [encFields, ha1, hp1], by rw [ha2, hp2]⟩

end Rangers.RLP
