import Rangers.Proofs.MinerTx
/-! C20: totals of shadowing association lists (balances, escrow) and point updates of sums. -/
namespace Rangers.Miner

section assoc
variable {K : Type} [BEq K] [LawfulBEq K] [DecidableEq K]

def adedup : List K → List K
  | [] => []
  | a :: l => if a ∈ l then adedup l else a :: adedup l

theorem mem_adedup (a : K) (l : List K) : a ∈ adedup l ↔ a ∈ l := by
  induction l with
  | nil => simp [adedup]
  | cons b l ih =>
    unfold adedup
    by_cases hb : b ∈ l
    · simp only [hb, if_true, ih, List.mem_cons]
      constructor
      · intro h; exact Or.inr h
      · rintro (h | h)
        · subst h; exact hb
        · exact h
    · simp [hb, ih]

theorem nodup_adedup (l : List K) : (adedup l).Nodup := by
  induction l with
  | nil => simp [adedup]
  | cons b l ih =>
    unfold adedup
    by_cases hb : b ∈ l
    · simp [hb, ih]
    · simp [hb, ih, mem_adedup]

/-- Value of a key in a shadowing association list (absent = 0). -/
def aget (l : List (K × Nat)) (k : K) : Nat := (l.lookup k).getD 0

theorem aget_cons (l : List (K × Nat)) (k q : K) (n : Nat) : aget ((k, n) :: l) q = if q = k then n else aget l q := by
  simp only [aget, List.lookup_cons]
  by_cases h : q = k
  · simp [h]
  · have : (q == k) = false := by simpa using h
    simp [this, h]

theorem aget_of_notin (l : List (K × Nat)) (k : K) (h : k ∉ l.map Prod.fst) : aget l k = 0 := by
  induction l with
  | nil => rfl
  | cons e l ih =>
    obtain ⟨a, n⟩ := e
    have h1 : k ≠ a := fun x => h (by simp [x])
    have h2 : k ∉ l.map Prod.fst := fun x => h (by simp [x])
    rw [aget_cons, if_neg h1, ih h2]

/-- Sum of the current values over all keys. -/
def atotal (l : List (K × Nat)) : Nat := ((adedup (l.map Prod.fst)).map (aget l)).sum

/-- Changing `f` at one point of a duplicate-free list changes the sum by the difference there. -/
theorem sum_point (ks : List K) (f g : K → Nat) (k : K) (hk : k ∈ ks) (hn : ks.Nodup) (hfg : ∀ q ∈ ks, q ≠ k → f q = g q) :
    (ks.map f).sum + g k = (ks.map g).sum + f k := by
  induction ks with
  | nil => cases hk
  | cons a ks ih =>
    have hnd := List.nodup_cons.mp hn
    by_cases ha : a = k
    · subst ha
      have hrest : ks.map f = ks.map g := by
        apply List.map_congr_left
        intro q hq
        exact hfg q (List.mem_cons_of_mem _ hq) (fun e => hnd.1 (e ▸ hq))
      simp only [List.map_cons, List.sum_cons, hrest]; omega
    · have hk' : k ∈ ks := by
        rcases List.mem_cons.mp hk with e | e
        · exact absurd e.symm ha
        · exact e
      have := ih hk' hnd.2 (fun q hq hne => hfg q (List.mem_cons_of_mem _ hq) hne)
      have hfa := hfg a (List.mem_cons_self ..) ha
      simp only [List.map_cons, List.sum_cons, hfa]; omega

theorem sum_congr (ks : List K) (f g : K → Nat) (hfg : ∀ q ∈ ks, f q = g q) : (ks.map f).sum = (ks.map g).sum := by
  rw [List.map_congr_left hfg]

theorem atotal_cons (l : List (K × Nat)) (k : K) (n : Nat) : atotal ((k, n) :: l) + aget l k = atotal l + n := by
  unfold atotal
  simp only [List.map_cons, adedup]
  by_cases hk : k ∈ l.map Prod.fst
  · simp only [hk, if_true]
    have := sum_point (adedup (l.map Prod.fst)) (aget ((k, n) :: l)) (aget l) k ((mem_adedup _ _).mpr hk) (nodup_adedup _)
      (fun q _ hne => by rw [aget_cons, if_neg hne])
    rw [aget_cons, if_pos rfl] at this
    omega
  · simp only [hk, if_false, List.map_cons, List.sum_cons]
    rw [aget_cons, if_pos rfl, aget_of_notin l k hk]
    have : ((adedup (l.map Prod.fst)).map (aget ((k, n) :: l))).sum = ((adedup (l.map Prod.fst)).map (aget l)).sum := by
      apply sum_congr
      intro q hq
      have : q ≠ k := fun e => hk (e ▸ (mem_adedup _ _).mp hq)
      rw [aget_cons, if_neg this]
    omega

end assoc

/-- All liquid tokens. -/
def balTotal (st : State) : Nat := atotal st.bal
/-- All tokens held in the per-height escrow accounts. -/
def escTotal (st : State) : Nat := atotal st.escrow

theorem balOf_eq_aget (st : State) (a : Bytes) : st.balOf a = aget st.bal a := rfl
theorem escOf_eq_aget (st : State) (h : Nat) (a : Bytes) : st.escOf h a = aget st.escrow (h, a) := rfl

theorem balTotal_setBal (st : State) (a : Bytes) (n : Nat) : balTotal (st.setBal a n) + st.balOf a = balTotal st + n :=
  atotal_cons st.bal a n

theorem balTotal_subBal (st : State) (a : Bytes) (n : Nat) (h : n ≤ st.balOf a) : balTotal (st.subBal a n) + n = balTotal st := by
  have := balTotal_setBal st a (st.balOf a - n)
  unfold State.subBal; omega

theorem balTotal_addBal (st : State) (a : Bytes) (n : Nat) : balTotal (st.addBal a n) = balTotal st + n := by
  have := balTotal_setBal st a (st.balOf a + n)
  unfold State.addBal; omega

theorem escTotal_setEsc (st : State) (h : Nat) (a : Bytes) (n : Nat) : escTotal (st.setEsc h a n) + st.escOf h a = escTotal st + n :=
  atotal_cons st.escrow (h, a) n

theorem balTotal_of_bal (st st' : State) (h : st'.bal = st.bal) : balTotal st' = balTotal st := by unfold balTotal; rw [h]
theorem escTotal_of_escrow (st st' : State) (h : st'.escrow = st.escrow) : escTotal st' = escTotal st := by unfold escTotal; rw [h]

theorem balTotal_processFee (st st1 : State) (src : Bytes) (h : processFee st src = some st1) : balTotal st1 = balTotal st := by
  simp only [processFee] at h
  split at h
  · cases h
  · rename_i hge
    cases h
    rw [balTotal_addBal]
    have := balTotal_subBal st (feePayer src) fee (by omega)
    omega

end Rangers.Miner
