import Rangers.Proofs.JournalRootCongr
import Rangers.Proofs.JournalRoot
/-! Single-step inverse lemmas for the finer relation `SimR` (`RevAt c SimR`), under the side
conditions that exclude the four root mechanisms: the object written is already disarmed
(`onDirty == nil`, i.e. already dirty), its caches are not empty, the slot is coherent
(`GetData` answers what `updateTrie` would flush), created accounts are not in the dirty set. -/
namespace Rangers.Proofs.JournalG
open Rangers Rangers.Model.Journal Rangers.Proofs.Journal

theorem relOk_SimR (c : Cfg) : RelOk c SimR :=
  ⟨SimR.refl, SimR.trans, fun e h => undo_congrR c h e,
   fun u j rv n => simR_of_same_view rfl rfl rfl ⟨rfl, rfl, rfl, rfl, rfl, rfl, fun _ _ => rfl, rfl, rfl, rfl⟩⟩

variable {c : Cfg}

theorem RevAtR.congr_at {f f' : ADB → ADB} {s : ADB} (h : f s = f' s) (h' : RevAt c SimR f' s) : RevAt c SimR f s := by
  obtain ⟨a, b, d, e⟩ := h'
  exact ⟨by rw [h]; exact a, by rw [h]; exact b, by rw [h]; exact d, by rw [h]; exact e⟩

theorem RevAtR.id (s : ADB) : RevAt c SimR (fun x => x) s :=
  RevAt.of_rel (fun h => h) rfl rfl rfl (fun _ => SimR.refl s)

theorem RevAtR.of_crashed_fix {f : ADB → ADB} {s : ADB} (h : f s = s) : RevAt c SimR f s :=
  RevAtR.congr_at (f' := fun x => x) h (RevAtR.id s)

theorem RevAtR.crash_after {h : ADB → ADB} {s : ADB} (hh : RevAt c SimR h s) : RevAt c SimR (fun x => crash (h x)) s := by
  obtain ⟨E, hj, _⟩ := hh.inv
  exact ⟨fun _ => rfl, hh.revs, hh.nextRev, ⟨E, hj, fun hc => by cases hc⟩⟩

/-- strengthen a `Sim`-level `RevAt` by the `Extra` half -/
theorem RevAtR.strengthen {f : ADB → ADB} {s : ADB} (h : Proofs.Journal.RevAt c f s)
    (hx : ∀ E, (f s).journal = s.journal ++ E → (f s).crashed = false →
      (∀ b, b ∈ (undoAll c (f s) E).dirtySet ↔ b ∈ s.dirtySet) ∧ ∀ b, XRes (res (undoAll c (f s) E) b) (res s b)) :
    RevAt c SimR f s := by
  obtain ⟨E, hj, hE⟩ := h.inv
  exact ⟨h.sticky, h.revs, h.nextRev, ⟨E, hj, fun hc => ⟨hE hc, fun _ => (hx E hj hc).1, fun _ => (hx E hj hc).2⟩⟩⟩

theorem simR_of_objview {u s : ADB} (h : Sim u s) (hv : ObjView u = ObjView s) : SimR u s := by
  simp only [ObjView, Prod.mk.injEq] at hv
  exact ⟨h, fun _ a => by rw [hv.2.1], fun _ a => by rw [res_congr hv.1 hv.2.2 a]; exact XRes.refl _⟩

/-- a global op leaves `Finalise`'s input alone and appends only global entries -/
theorem global_step (c : Cfg) (s : ADB) (op : Op) (hop : opGlobal op = true) (h1 : op ≠ Op.snapshot) (h2 : ∀ id, op ≠ Op.revert id) :
    ObjView (step c s op) = ObjView s ∧ ∃ E0, (step c s op).journal = s.journal ++ E0 ∧ ∀ e ∈ E0, entryGlobal e = true := by
  have nil : s.journal = s.journal ++ [] := by simp
  cases op with
  | addRefund g =>
    simp only [step, addRefund]; split
    · exact ⟨rfl, [], nil, by simp⟩
    · exact ⟨rfl, [Entry.refund s.refund], rfl, by simp [entryGlobal]⟩
  | subRefund g =>
    simp only [step, subRefund]; split
    · exact ⟨rfl, [], nil, by simp⟩
    · split
      · exact ⟨rfl, [Entry.refund s.refund], rfl, by simp [entryGlobal]⟩
      · exact ⟨rfl, [Entry.refund s.refund], rfl, by simp [entryGlobal]⟩
  | addLog a t d =>
    simp only [step, addLog]; split
    · exact ⟨rfl, [], nil, by simp⟩
    · exact ⟨rfl, [Entry.addLog s.thash], rfl, by simp [entryGlobal]⟩
  | alAddr a =>
    simp only [step, addAddressToAccessList]; split
    · exact ⟨rfl, [], nil, by simp⟩
    · split
      · exact ⟨rfl, [Entry.alAddr a], rfl, by simp [entryGlobal]⟩
      · exact ⟨rfl, [], nil, by simp⟩
  | alSlot a sl =>
    simp only [step, addSlotToAccessList]; split
    · exact ⟨rfl, [], nil, by simp⟩
    · split
      · exact ⟨rfl, [], by simp [crash], by simp⟩
      · rename_i al addrMod slotMod _
        refine ⟨rfl, (if addrMod then [Entry.alAddr a] else []) ++ (if slotMod then [Entry.alSlot a sl] else []), ?_, ?_⟩
        · cases addrMod <;> cases slotMod <;> simp
        · intro e he
          cases addrMod <;> cases slotMod <;> simp at he <;> (try rcases he with he | he) <;> (try subst he) <;> rfl
  | tset a k v =>
    simp only [step, setTransientState]; split
    · exact ⟨rfl, [], nil, by simp⟩
    · split
      · exact ⟨rfl, [], nil, by simp⟩
      · exact ⟨rfl, [Entry.transient a k (tget s.transient a k)], rfl, by simp [entryGlobal]⟩
  | snapshot => exact absurd rfl h1
  | revert id => exact absurd rfl (h2 id)
  | _ => simp [opGlobal] at hop

/-- ops that do not touch account objects -/
theorem revAtR_global (s : ADB) (op : Op) (hop : opGlobal op = true) (h1 : op ≠ Op.snapshot) (h2 : ∀ id, op ≠ Op.revert id)
    (hold : Proofs.Journal.RevAt c (fun x => step c x op) s) : RevAt c SimR (fun x => step c x op) s := by
  obtain ⟨hv, E0, hj0, hg⟩ := global_step c s op hop h1 h2
  refine RevAtR.strengthen hold (fun E hj _ => ?_)
  have hE : E = E0 := List.append_cancel_left (hj.symm.trans hj0)
  subst hE
  have hview : ObjView (undoAll c (step c s op) E) = ObjView s := (undoAll_global c _ E hg).trans hv
  simp only [ObjView, Prod.mk.injEq] at hview
  exact ⟨fun b => by rw [hview.2.1], fun b => by rw [res_congr hview.1 hview.2.2 b]; exact XRes.refl _⟩

/-! ### account objects -/

theorem revAtR_resolve (s : ADB) (a : Addr) : RevAt c SimR (fun x => (resolve x a).1) s := by
  refine RevAtR.strengthen (revAt_resolve c s a) (fun E hj _ => ?_)
  have hE : E = [] := by
    have : (resolve s a).1.journal = s.journal := by rw [resolve_fields]
    simpa [this] using hj
  subst hE
  exact ⟨fun b => by rw [undoAll_nil, resolve_dirtySet], fun b => by rw [undoAll_nil, resolve_res]; exact XRes.refl _⟩

/-- a non-existent account about to be created must not sit in the dirty set -/
def CreateOk (s : ADB) (a : Addr) : Prop := res s a = .absent → a ∉ s.dirtySet

instance (s : ADB) (a : Addr) : Decidable (CreateOk s a) := by unfold CreateOk; infer_instance

theorem revAtR_resolveNew (s : ADB) (a : Addr) (hok : CreateOk s a) : RevAt c SimR (fun x => (resolveNew x a).1) s := by
  cases hr : res s a with
  | deleted => exact RevAtR.of_crashed_fix (by simp [resolveNew_deleted hr])
  | live o => exact RevAtR.congr_at (f' := fun x => (resolve x a).1) (by simp [resolveNew_live hr]) (revAtR_resolve s a)
  | absent =>
    obtain ⟨_, hm, ht⟩ := resolve_absent hr
    have hnd := hok hr
    refine RevAtR.strengthen (revAt_resolveNew c s a) (fun E hj hc => ?_)
    simp only [resolveNew_absent hr] at hj hc ⊢
    have hE : E = [Entry.create a] := (List.append_cancel_left hj).symm
    subst hE
    rw [undoAll_singleton]
    simp only [undo, hc, Bool.false_eq_true, if_false]
    refine ⟨fun b => ?_, fun b => ?_⟩
    · simp only [mem_sdel, mem_sadd]
      constructor
      · rintro ⟨h1, h2 | h2⟩
        · exact absurd h2 h1
        · exact h2
      · intro h; exact ⟨fun hb => hnd (hb ▸ h), Or.inr h⟩
    · have : res { s with objs := mdel (mset s.objs a Obj.fresh) a, dirtySet := sdel (sadd s.dirtySet a) a,
                          journal := s.journal ++ [Entry.create a], crashed := false } b = res s b := by
        simp only [res_def, mget_mdel, mget_mset]
        by_cases hab : a = b
        · subst hab; simp [hm, ht]
        · simp [hab]
      rw [this]; exact XRes.refl _

/-- a read must not turn an empty read cache into a non-empty one (`empty()` counts cached keys) -/
def ReadOkObj (o : Obj) (k : Key) : Prop := o.cached.isEmpty = false ∨ mget o.strie k = none

instance (o : Obj) (k : Key) : Decidable (ReadOkObj o k) := by unfold ReadOkObj; infer_instance

theorem read_cemp (o : Obj) (k : Key) (h : ReadOkObj o k) : (o.read k).1.cached.isEmpty = o.cached.isEmpty := by
  unfold Obj.read
  cases hc : mget o.cached k with
  | some v => rfl
  | none =>
    cases hs : mget o.strie k with
    | none => rfl
    | some v =>
      rcases h with h | h
      · simp [isEmpty_mset, h]
      · rw [hs] at h; cases h

theorem XObj_read (o : Obj) (k : Key) (h : ReadOkObj o k) : XObj (o.read k).1 o := by
  have e := Obj.read_fst_other o k
  refine ⟨by rw [e], by rw [e], by rw [e], by rw [e], fun k' => by rw [e]; rfl, read_cemp o k h, by rw [e]⟩

theorem revAtR_readAt {s : ADB} {a : Addr} {o : Obj} (k : Key) (hm : mget s.objs a = some o) (hd : o.deleted = false)
    (hok : ReadOkObj o k) : RevAt c SimR (fun x => (readAt x a k).1) s := by
  obtain ⟨h1, _, _⟩ := readAt_sim k hm hd
  have hres : res s a = .live o := by rw [res_def, hm]; simp [hd]
  have hd' : (o.read k).1.deleted = false := by rw [Obj.read_fst_other]; exact hd
  refine RevAtR.strengthen (revAt_readAt c k hm hd) (fun E hj _ => ?_)
  have hE : E = [] := by
    have : (readAt s a k).1.journal = s.journal := by rw [h1]; rfl
    simpa [this] using hj
  subst hE
  rw [undoAll_nil, h1]
  refine ⟨fun b => Iff.rfl, fun b => ?_⟩
  rw [res_putObj s a b _ hd']
  by_cases hab : a = b
  · subst hab; simp only [if_true, hres]; exact .live (XObj_read o k hok)
  · simp only [hab, if_false]; exact XRes.refl _

/-- `revAt_modify` for `SimR`: the object must already be disarmed (`onDirty == nil`) -/
theorem revAtR_modify {s : ADB} {a : Addr} {o : Obj} (e : Entry) (fwd bwd : Obj → Obj) (f : ADB → ADB)
    (hs : s.crashed = false) (hm : mget s.objs a = some o) (hd : o.deleted = false) (harm : o.armed = false)
    (hf : f s = markDirty { s with journal := s.journal ++ [e] } a (fwd o))
    (hfd : ∀ x, (fwd x).deleted = x.deleted) (hbd : ∀ x, (bwd x).deleted = x.deleted)
    (hfa : ∀ x, (fwd x).armed = x.armed) (hba : ∀ x, (bwd x).armed = x.armed)
    (F : ADB → Obj → ADB)
    (hundo : ∀ r : ADB, r.crashed = false →
      undo c r e = (match resolve r a with | (r1, none) => crash r1 | (r1, some o') => F r1 o'))
    (hF : ∀ (u : ADB) (o' : Obj), mget u.objs a = some o' → F u o' = markDirty u a (bwd o'))
    (hsim : ObjSim s.codes { bwd { fwd o with armed := false } with armed := false } o)
    (hx : XObj { bwd { fwd o with armed := false } with armed := false } o) :
    RevAt c SimR f s := by
  have hres : res s a = .live o := by rw [res_def, hm]; simp [hd]
  refine RevAtR.strengthen (revAt_modify c e fwd bwd f hs hm hd hf hfd hbd F hundo hF hsim) (fun E hj _ => ?_)
  rw [hf, markDirty_journal] at hj
  have hE : E = [e] := (List.append_cancel_left hj).symm
  subst hE
  rw [undoAll_singleton, hf]
  have hc1 : (markDirty { s with journal := s.journal ++ [e] } a (fwd o)).crashed = false := by
    rw [markDirty_crashed]; exact hs
  have hr1 : res (markDirty { s with journal := s.journal ++ [e] } a (fwd o)) a = .live { fwd o with armed := false } := by
    rw [res_markDirty _ _ _ _ ((hfd o).trans hd)]; simp
  rw [hundo _ hc1]
  obtain ⟨r1, e1, m1, _, rr, dd⟩ := modify_liveX hr1 bwd ((hbd _).trans ((hfd o).trans hd))
  rw [e1]
  simp only [hF r1 _ m1]
  refine ⟨fun b => ?_, fun b => ?_⟩
  · rw [dd b, hba, markDirty_dirtySet, hfa, harm]; simp
  · rw [rr b]
    by_cases hab : a = b
    · subst hab; simp only [if_true, hres]; exact .live hx
    · simp only [hab, if_false]
      rw [res_markDirty _ _ _ _ ((hfd o).trans hd)]
      simp only [hab, if_false]
      rw [res_congr (s := { s with journal := s.journal ++ [e] }) (t := s) rfl rfl b]
      exact XRes.refl _

theorem revAtR_setNonceJ {s : ADB} {a : Addr} {o : Obj} (n : Nat)
    (hs : s.crashed = false) (hm : mget s.objs a = some o) (hd : o.deleted = false) (harm : o.armed = false) :
    RevAt c SimR (fun x => setNonceRaw { x with journal := x.journal ++ [Entry.nonce a o.nonce] } a n) s :=
  revAtR_modify (Entry.nonce a o.nonce) (fun x => { x with nonce := n }) (fun x => { x with nonce := o.nonce }) _ hs hm hd harm
    (by simp [setNonceRaw, hm]) (fun _ => rfl) (fun _ => rfl) (fun _ => rfl) (fun _ => rfl)
    (fun u _ => setNonceRaw u a o.nonce)
    (fun r hr => by simp only [undo, hr, Bool.false_eq_true, if_false]; rcases resolve r a with ⟨r1, _ | _⟩ <;> rfl)
    (fun u o' hu => by simp [setNonceRaw, hu])
    ⟨rfl, rfl, rfl, fun _ => rfl, rfl⟩
    ⟨rfl, rfl, rfl, harm.symm, fun _ => rfl, rfl, rfl⟩

/-- the object is disarmed, both caches hold something, and `GetData(k)` answers what `updateTrie` would flush -/
def WarmObj (o : Obj) (k : Key) : Prop :=
  o.armed = false ∧ o.cached.isEmpty = false ∧ o.dirty.isEmpty = false ∧
  (if o.get k = [] then none else some (o.get k)) = Fx o k

instance (o : Obj) (k : Key) : Decidable (WarmObj o k) := by unfold WarmObj; infer_instance

theorem revAtR_setDataJ {s : ADB} {a : Addr} {o : Obj} (k : Key) (v : Val)
    (hs : s.crashed = false) (hm : mget s.objs a = some o) (hd : o.deleted = false) (hw : WarmObj o k) :
    RevAt c SimR (fun x => setDataJ x a k v) s := by
  obtain ⟨harm, hce, hde, hcoh⟩ := hw
  obtain ⟨h1, h2, _⟩ := readAt_sim k hm hd
  have hrd := revAtR_readAt (c := c) k hm hd (Or.inl hce)
  have e := Obj.read_fst_other o k
  have hd' : (o.read k).1.deleted = false := by rw [e]; exact hd
  have hc1 : (readAt s a k).1.crashed = false := by rw [h1]; exact hs
  by_cases hv : v = o.get k
  · refine RevAtR.congr_at (f' := fun x => (readAt x a k).1) ?_ hrd
    simp only [setDataJ]
    rw [show readAt s a k = ((readAt s a k).1, (readAt s a k).2) from rfl]
    simp only [hc1, Bool.false_eq_true, if_false, h2, hv, if_true]
  · have hm1 : mget (readAt s a k).1.objs a = some (o.read k).1 := by rw [h1]; simp [putObj]
    have harm1 : (o.read k).1.armed = false := by rw [e]; exact harm
    have step2 := revAtR_modify (c := c) (s := (readAt s a k).1) (a := a) (o := (o.read k).1) (Entry.storage a k (o.get k))
      (fun x => { x with cached := mset x.cached k v, dirty := mset x.dirty k v })
      (fun x => { x with cached := mset x.cached k (o.get k), dirty := mset x.dirty k (o.get k) })
      (fun x => setDataRaw { x with journal := x.journal ++ [Entry.storage a k (o.get k)] } a k v)
      hc1 hm1 hd' harm1 (by simp [setDataRaw, hm1]) (fun _ => rfl) (fun _ => rfl) (fun _ => rfl) (fun _ => rfl)
      (fun u _ => setDataRaw u a k (o.get k))
      (fun r hr => by simp only [undo, hr, Bool.false_eq_true, if_false]; rcases resolve r a with ⟨r1, _ | _⟩ <;> rfl)
      (fun u o' hu => by simp [setDataRaw, hu])
      ⟨rfl, rfl, rfl, fun k' => by
        simp only [Obj.get, mget_mset]
        by_cases hk : k = k'
        · subst hk
          simp only [if_true]
          have := (Obj.read_fst_get o k k).symm
          simpa [Obj.get] using this
        · simp [hk], rfl⟩
      ⟨rfl, rfl, rfl, harm1.symm, fun k' => by
        have hfx : Fx (o.read k).1 k' = Fx o k' := by rw [e]; rfl
        by_cases hk : k = k'
        · subst hk
          rw [hfx, ← hcoh]
          simp [Fx, mget_mset]
        · simp [Fx, mget_mset, hk],
        by simp [isEmpty_mset, read_cemp o k (Or.inl hce), hce],
        by rw [e]; simp [isEmpty_mset, hde]⟩
    refine RevAtR.congr_at ?_ (RevAt.comp (relOk_SimR c) hrd step2)
    simp only [setDataJ]
    rw [show readAt s a k = ((readAt s a k).1, (readAt s a k).2) from rfl]
    simp only [hc1, Bool.false_eq_true, if_false, h2, hv]

/-- common shape of the object ops, for `SimR` -/
theorem revAtR_viaResolveNew (s : ADB) (a : Addr) (f : ADB → ADB) (g : ADB → Obj → ADB) (crashOnNil : Bool)
    (hcr : s.crashed = true → f s = s)
    (hf : s.crashed = false → f s = (match resolveNew s a with
        | (s1, none) => if crashOnNil then crash s1 else s1
        | (s1, some o) => g s1 o))
    (hok : CreateOk s a)
    (hg : ∀ s1 o, s1.crashed = false → mget s1.objs a = some o → o.deleted = false →
      (res s a = .live o ∨ (res s a = .absent ∧ o = Obj.fresh)) → RevAt c SimR (fun x => g x o) s1) :
    RevAt c SimR f s := by
  by_cases hs : s.crashed = true
  · exact RevAtR.of_crashed_fix (hcr hs)
  have hs : s.crashed = false := by simpa using hs
  have h1 := revAtR_resolveNew (c := c) s a hok
  cases hrn : resolveNew s a with
  | mk s1 r =>
    have e1 : (resolveNew s a).1 = s1 := by rw [hrn]
    cases r with
    | none =>
      cases crashOnNil with
      | false => exact RevAtR.congr_at (f' := fun x => (resolveNew x a).1) (by rw [hf hs, hrn]; simp) h1
      | true => exact RevAtR.congr_at (f' := fun x => crash (resolveNew x a).1) (by rw [hf hs, hrn]; simp) (RevAtR.crash_after h1)
    | some o =>
      obtain ⟨hm, hd, _⟩ := resolveNew_some hrn
      have hs1 : s1.crashed = false := by rw [← e1, resolveNew_crashed]; exact hs
      have hlink : res s a = .live o ∨ (res s a = .absent ∧ o = Obj.fresh) := by
        cases hr : res s a with
        | deleted => rw [resolveNew_deleted hr] at hrn; cases hrn
        | absent =>
          rw [resolveNew_absent hr] at hrn
          simp only [Prod.mk.injEq, Option.some.injEq] at hrn
          exact Or.inr ⟨rfl, hrn.2.symm⟩
        | live o' =>
          rw [resolveNew_live hr] at hrn
          obtain ⟨s2, e, _⟩ := resolve_live hr
          rw [e] at hrn
          simp only [Prod.mk.injEq, Option.some.injEq] at hrn
          rw [hrn.2]; exact Or.inl rfl
      have h2 : RevAt c SimR (fun x => g x o) (resolveNew s a).1 := by rw [e1]; exact hg s1 o hs1 hm hd hlink
      exact RevAtR.congr_at (f' := fun x => g (resolveNew x a).1 o) (by rw [hf hs, hrn]) (RevAt.comp (relOk_SimR c) h1 h2)

/-- writes that only change the nonce: the live object must already be disarmed -/
def NonceOk (s : ADB) (a : Addr) : Prop :=
  CreateOk s a ∧ (match res s a with | .live o => o.armed = false | _ => True)

instance (s : ADB) (a : Addr) : Decidable (NonceOk s a) := by
  unfold NonceOk; apply instDecidableAnd (dq := ?_); split <;> infer_instance

/-- storage writes: a live, disarmed, warm object with a coherent slot -/
def DataOk (s : ADB) (a : Addr) (k : Key) : Prop :=
  match res s a with
  | .live o => WarmObj o k
  | .deleted => True
  | .absent => False

instance (s : ADB) (a : Addr) (k : Key) : Decidable (DataOk s a k) := by unfold DataOk; split <;> infer_instance

theorem armed_of_link {s : ADB} {a : Addr} {o : Obj} (h : NonceOk s a)
    (hl : res s a = .live o ∨ (res s a = .absent ∧ o = Obj.fresh)) : o.armed = false := by
  rcases hl with hl | ⟨_, rfl⟩
  · have := h.2; rw [hl] at this; exact this
  · rfl

theorem revAtR_setNonce (s : ADB) (a : Addr) (n : Nat) (hok : NonceOk s a) : RevAt c SimR (fun x => setNonce x a n) s :=
  revAtR_viaResolveNew s a _ (fun s1 o => setNonceRaw { s1 with journal := s1.journal ++ [Entry.nonce a o.nonce] } a n) false
    (fun h => by simp [setNonce, h])
    (fun h => by simp only [setNonce, h, Bool.false_eq_true, if_false]; rcases resolveNew s a with ⟨s1, _ | _⟩ <;> rfl)
    hok.1 (fun s1 o h1 hm hd hl => revAtR_setNonceJ n h1 hm hd (armed_of_link hok hl))

theorem revAtR_incNonce (s : ADB) (a : Addr) (hok : NonceOk s a) : RevAt c SimR (fun x => (increaseNonce x a).1) s :=
  revAtR_viaResolveNew s a _ (fun s1 o => setNonceRaw { s1 with journal := s1.journal ++ [Entry.nonce a o.nonce] } a ((o.nonce + 1) % U64)) false
    (fun h => by simp [increaseNonce, h])
    (fun h => by simp only [increaseNonce, h, Bool.false_eq_true, if_false]; rcases resolveNew s a with ⟨s1, _ | _⟩ <;> rfl)
    hok.1 (fun s1 o h1 hm hd hl => revAtR_setNonceJ _ h1 hm hd (armed_of_link hok hl))

theorem createOk_of_dataOk {s : ADB} {a : Addr} {k : Key} (h : DataOk s a k) : CreateOk s a := by
  intro hr; unfold DataOk at h; rw [hr] at h; exact absurd h (by simp)

theorem warm_of_link {s : ADB} {a : Addr} {k : Key} {o : Obj} (h : DataOk s a k)
    (hl : res s a = .live o ∨ (res s a = .absent ∧ o = Obj.fresh)) : WarmObj o k := by
  rcases hl with hl | ⟨hl, _⟩
  · unfold DataOk at h; rw [hl] at h; exact h
  · unfold DataOk at h; rw [hl] at h; exact absurd h (by simp)

theorem revAtR_setData (s : ADB) (a : Addr) (k : Key) (v : Val) (hok : DataOk s a k) : RevAt c SimR (fun x => setData x a k v) s :=
  revAtR_viaResolveNew s a _ (fun s1 _ => setDataJ s1 a k v) false
    (fun h => by simp [setData, h])
    (fun h => by simp only [setData, h, Bool.false_eq_true, if_false]; rcases resolveNew s a with ⟨s1, _ | _⟩ <;> rfl)
    (createOk_of_dataOk hok) (fun s1 o h1 hm hd hl => revAtR_setDataJ k v h1 hm hd (warm_of_link hok hl))

theorem revAtR_setBalance (s : ADB) (a : Addr) (n : Nat) (hok : DataOk s c.tok (c.balKey a)) :
    RevAt c SimR (fun x => setBalance c x a n) s :=
  revAtR_viaResolveNew s c.tok _ (fun s1 _ => setDataJ s1 c.tok (c.balKey a) (natToBE n)) true
    (fun h => by simp [setBalance, h])
    (fun h => by simp only [setBalance, h, Bool.false_eq_true, if_false]; rcases resolveNew s c.tok with ⟨s1, _ | _⟩ <;> rfl)
    (createOk_of_dataOk hok) (fun s1 o h1 hm hd hl => revAtR_setDataJ _ _ h1 hm hd (warm_of_link hok hl))

theorem revAtR_create (s : ADB) (a : Addr) (hok : CreateOk s a) : RevAt c SimR (fun x => createAccount x a) s := by
  by_cases hs : s.crashed = true
  · exact RevAtR.of_crashed_fix (by simp [createAccount, hs])
  · exact RevAtR.congr_at (f' := fun x => (resolveNew x a).1) (by simp [createAccount, hs]) (revAtR_resolveNew s a hok)

theorem revAtR_resolveOnly (s : ADB) (a : Addr) (f : ADB → ADB) (hcr : s.crashed = true → f s = s)
    (hf : s.crashed = false → f s = (resolve s a).1) : RevAt c SimR f s := by
  by_cases hs : s.crashed = true
  · exact RevAtR.of_crashed_fix (hcr hs)
  · exact RevAtR.congr_at (f' := fun x => (resolve x a).1) (hf (by simpa using hs)) (revAtR_resolve s a)

theorem revAtR_qExist (s : ADB) (a : Addr) : RevAt c SimR (fun x => (exist x a).1) s :=
  revAtR_resolveOnly s a _ (fun h => by simp [exist, h])
    (fun h => by simp only [exist, h, Bool.false_eq_true, if_false]; rcases resolve s a with ⟨s1, _ | _⟩ <;> rfl)
theorem revAtR_qEmpty (s : ADB) (a : Addr) : RevAt c SimR (fun x => (isEmptyQ x a).1) s :=
  revAtR_resolveOnly s a _ (fun h => by simp [isEmptyQ, h])
    (fun h => by simp only [isEmptyQ, h, Bool.false_eq_true, if_false]; rcases resolve s a with ⟨s1, _ | _⟩ <;> rfl)
theorem revAtR_qNonce (s : ADB) (a : Addr) : RevAt c SimR (fun x => (getNonce x a).1) s :=
  revAtR_resolveOnly s a _ (fun h => by simp [getNonce, h])
    (fun h => by simp only [getNonce, h, Bool.false_eq_true, if_false]; rcases resolve s a with ⟨s1, _ | _⟩ <;> rfl)
theorem revAtR_qSuicided (s : ADB) (a : Addr) : RevAt c SimR (fun x => (hasSuicided x a).1) s :=
  revAtR_resolveOnly s a _ (fun h => by simp [hasSuicided, h])
    (fun h => by simp only [hasSuicided, h, Bool.false_eq_true, if_false]; rcases resolve s a with ⟨s1, _ | _⟩ <;> rfl)
theorem revAtR_qCodeSize (s : ADB) (a : Addr) : RevAt c SimR (fun x => (getCodeSize x a).1) s :=
  revAtR_resolveOnly s a _ (fun h => by simp [getCodeSize, h])
    (fun h => by simp only [getCodeSize, h, Bool.false_eq_true, if_false]; rcases resolve s a with ⟨s1, _ | _⟩ <;> rfl)
theorem revAtR_qCodeHash (s : ADB) (a : Addr) : RevAt c SimR (fun x => (getCodeHash x a).1) s :=
  revAtR_resolveOnly s a _ (fun h => by simp [getCodeHash, h])
    (fun h => by simp only [getCodeHash, h, Bool.false_eq_true, if_false]; rcases resolve s a with ⟨s1, _ | _⟩ <;> rfl)

/-- a `GetData` whose cache fill does not change cache emptiness -/
def ReadOk (s : ADB) (a : Addr) (k : Key) : Prop :=
  match res s a with | .live o => ReadOkObj o k | _ => True

instance (s : ADB) (a : Addr) (k : Key) : Decidable (ReadOk s a k) := by unfold ReadOk; split <;> infer_instance

theorem revAtR_qData (s : ADB) (a : Addr) (k : Key) (hok : ReadOk s a k) : RevAt c SimR (fun x => (getData x a k).1) s := by
  by_cases hs : s.crashed = true
  · exact RevAtR.of_crashed_fix (by simp [getData, hs])
  have hs : s.crashed = false := by simpa using hs
  have h1 := revAtR_resolve (c := c) s a
  cases hrn : resolve s a with
  | mk s1 r =>
    have e1 : (resolve s a).1 = s1 := by rw [hrn]
    cases r with
    | none => exact RevAtR.congr_at (f' := fun x => (resolve x a).1) (by simp [getData, hs, hrn]) h1
    | some o =>
      obtain ⟨hm, hd⟩ := resolve_some hrn
      have hro : ReadOkObj o k := by
        cases hr : res s a with
        | deleted => rw [resolve_deleted hr] at hrn; cases hrn
        | absent => rw [(resolve_absent hr).1] at hrn; cases hrn
        | live o' =>
          obtain ⟨s2, e, _⟩ := resolve_live hr
          rw [e] at hrn
          simp only [Prod.mk.injEq, Option.some.injEq] at hrn
          have := hok; unfold ReadOk at this; rw [hr] at this; rw [← hrn.2]; exact this
      have h2 : RevAt c SimR (fun x => (readAt x a k).1) (resolve s a).1 := by rw [e1]; exact revAtR_readAt k hm hd hro
      exact RevAtR.congr_at (f' := fun x => (readAt (resolve x a).1 a k).1) (by simp [getData, hs, hrn]) (RevAt.comp (relOk_SimR c) h1 h2)

end Rangers.Proofs.JournalG
