import Rangers.Proofs.DecimalFormat
import Rangers.Proofs.DecimalTotal
/-! Helper lemmas for `Props/C18Aux.lean` (Float64ToBigInt, base-N numerals). -/
namespace Rangers.Decimal

/-- a 512-bit ToNearestEven product with an exact factor `B` that leaves the product below
    114 bits is exact. -/
theorem mul_small_exact (neg : Bool) (m B : Nat) (e : Int) (hm : 0 < m) (hB : 0 < B)
    (hb : bitLen (m * B) ≤ 114) (he1 : -2000 ≤ e) (he2 : e ≤ 2000) :
    mul .nearestEven prec (.fin neg m e) (.fin false B 0) = .fin neg (m * B) e := by
  have hpos : m * B ≠ 0 := Nat.pos_iff_ne_zero.mp (Nat.mul_pos hm hB)
  simp only [mul, Bool.bne_false, add_zero]
  rw [finish_fin_of_small neg .nearestEven prec _ e false (by norm_num [prec]) hpos (by omega) (by omega)
    (by omega), roundMant_fits .nearestEven false (by unfold prec; omega)]
  simp

theorem float64With_exact (neg : Bool) (m B : Nat) (e : Int) (hm : 0 < m) (hB : 0 < B)
    (hb : bitLen (m * B) ≤ 114) (he1 : -2000 ≤ e) (he2 : e ≤ 2000) :
    float64ToBigIntWith B (.fin neg m e) = .ok (toInt (.fin neg (m * B) e)) := by
  unfold float64ToBigIntWith
  dsimp only
  rw [mul_small_exact neg m B e hm hB hb he1 he2]

/-- the multiplication inside `Float64ToBigInt` never rounds: a float64 mantissa (≤ 2^53)
    times `10^18` has at most 114 bits. -/
theorem f64_mul_exact (neg : Bool) (m : Nat) (e : Int) (hm : 0 < m) (hm2 : m ≤ 2 ^ 53)
    (he1 : -2000 ≤ e) (he2 : e ≤ 2000) :
    float64ToBigIntOf (.fin neg m e) = .ok (toInt (.fin neg (m * 1000000000000000000) e)) := by
  have hb : bitLen (m * 1000000000000000000) ≤ 114 := by
    apply bitLen_le_of_lt
    calc m * 1000000000000000000 ≤ 2 ^ 53 * 1000000000000000000 := Nat.mul_le_mul_right _ hm2
      _ < 2 ^ 114 := by decide +kernel
  exact float64With_exact neg m 1000000000000000000 e hm (by norm_num) hb he1 he2

/-- value of a digit `0-9a-z` -/
def digVal36 (c : Char) : Nat := if c.isDigit then c.toNat - 48 else c.toNat - 87

/-- value of a digit string in base `b` -/
def ofBaseDigits (b : Nat) (l : Str) : Nat := l.foldl (fun a c => b * a + digVal36 c) 0

theorem digVal36_digitChar : ∀ d < 16, digVal36 (Nat.digitChar d) = d := by decide

end Rangers.Decimal
