import Rangers.Proofs.Round
/-! Recovery and liveness of the signing-round model under the explicit crypto hypotheses `Lawful`. -/
namespace Rangers.Proofs.Round
open Rangers.Model.Round

variable {G : Type}

/-- What the theorems assume of the cryptographic oracle, for the keys registered in
`env.pkKnown` (all of them DKG shares of one group key):
* C14 (uniqueness): a signature verifies under a member key for `d` iff it is that member's share on `d`;
  `VerifySig` rejects nil signatures;
* the group signature on `d` is non-nil, on the curve and verifies under the group key;
* C13 (threshold recovery): Lagrange recovery from the shares on `d` of any `k = GetGroupK(n)`
  distinct members is the group signature on `d`. -/
structure Lawful (c : Crypto G) (env : Env) (shareOf : Id → Data → G) (groupSig : Data → G) : Prop where
  verify_iff : ∀ id d s, id ∈ env.pkKnown → (c.verify id d s = true ↔ s = shareOf id d)
  verify_nonnil : ∀ id d s, c.verify id d s = true → c.isNil s = false
  groupSig_ok : ∀ d, c.isNil (groupSig d) = false ∧ c.isValid (groupSig d) = true ∧
    c.verifyGroup d (groupSig d) = true
  recover_eq : ∀ (ids : List Id) (d : Data), ids.Nodup → (∀ i ∈ ids, i ∈ env.pkKnown) →
    ids.length = groupK env.groupSize → c.recover (ids.map fun i => (i, shareOf i d)) = groupSig d

theorem Lawful.withChain {c : Crypto G} {env : Env} {sh : Id → Data → G} {gs : Data → G} (b : Bool)
    (h : Lawful c env sh gs) : Lawful c (env.withChain b) sh gs :=
  ⟨h.verify_iff, h.verify_nonnil, h.groupSig_ok, h.recover_eq⟩

/-! ### exact results of `AddWitnessSign` -/

theorem addWitnessSign_recovered (c : Crypto G) (g : Gen G) (id : Id) (s : G) (h : g.recovered c = true) :
    g.addWitnessSign c id s = (g, false, true) := by
  unfold Gen.addWitnessSign; rw [if_pos h]

theorem addWitnessSign_has (c : Crypto G) (g : Gen G) (id : Id) (s : G) (h : g.recovered c = false)
    (hh : g.has id = true) : g.addWitnessSign c id s = (g, false, false) := by
  unfold Gen.addWitnessSign Gen.addWitnessForce
  rw [if_neg (by simp [h]), if_pos hh]

theorem addWitnessSign_below (c : Crypto G) (g : Gen G) (id : Id) (s : G) (h : g.recovered c = false)
    (hh : g.has id = false) (hl : g.witness.length + 1 < g.threshold) :
    g.addWitnessSign c id s = ({ g with witness := g.witness ++ [(id, s)] }, true, false) := by
  unfold Gen.addWitnessSign Gen.addWitnessForce
  rw [if_neg (by simp [h]), if_neg (by simp [hh])]
  simp only [List.length_append, List.length_cons, List.length_nil]
  rw [if_neg (by omega)]

theorem addWitnessSign_reach (c : Crypto G) (g : Gen G) (id : Id) (s : G) (hn : g.groupSign = none)
    (hh : g.has id = false) (hl : g.witness.length + 1 = g.threshold) :
    g.addWitnessSign c id s =
      ({ g with witness := g.witness ++ [(id, s)], groupSign := some (c.recover (g.witness ++ [(id, s)])) },
        true, true) := by
  have h : g.recovered c = false := by simp [Gen.recovered, hn]
  unfold Gen.addWitnessSign Gen.addWitnessForce
  rw [if_neg (by simp [h]), if_neg (by simp [hh])]
  simp only [List.length_append, List.length_cons, List.length_nil]
  rw [if_pos (by omega)]
  unfold Gen.genGroupSign
  have h' : Gen.recovered c { g with witness := g.witness ++ [(id, s)] } = false := by
    simp [Gen.recovered, hn]
  rw [if_neg (by simp [h'])]
  simp only [List.length_append, List.length_cons, List.length_nil]
  rw [if_neg (by omega)]
  have : (g.witness ++ [(id, s)]).take g.threshold = g.witness ++ [(id, s)] := by
    apply List.take_of_length_le
    simp; omega
  rw [this]

/-! ### the stronger invariant under `Lawful` -/

theorem witness_eq_shares (c : Crypto G) (env : Env) (sh : Id → Data → G) (gs : Data → G)
    (hl : Lawful c env sh gs) (d : Data) :
    ∀ l : List (Id × G), (∀ e ∈ l, e.1 ∈ env.pkKnown ∧ c.verify e.1 d e.2 = true) →
      l = (l.map (·.1)).map (fun i => (i, sh i d)) := by
  intro l
  induction l with
  | nil => intro _; rfl
  | cons e rest ih =>
    intro h
    have he := h e (by simp)
    have : e.2 = sh e.1 d := (hl.verify_iff e.1 d e.2 he.1).mp he.2
    simp only [List.map_cons]
    rw [← ih (fun x hx => h x (by simp [hx]))]
    congr 1
    exact Prod.ext rfl this

structure Inv2 (c : Crypto G) (env : Env) (gs : Data → G) (st : RState G) : Prop where
  inv : Inv c env st
  thr_g : st.gSign.threshold = groupK env.groupSize
  thr_r : st.rSign.threshold = groupK env.groupSize
  ids_eq : st.gSign.witness.map (·.1) = st.rSign.witness.map (·.1)
  open_ : st.canProcessed = false →
    st.gSign.witness.length < groupK env.groupSize ∧ st.gSign.groupSign = none ∧ st.rSign.groupSign = none
  closed : st.canProcessed = true →
    st.gSign.witness.length = groupK env.groupSize ∧
    st.gSign.groupSign = some (gs env.hash) ∧ st.rSign.groupSign = some (gs env.prevRandom) ∧
    st.bhSignature = some (gs env.hash) ∧ st.bhRandom = some (gs env.prevRandom)

theorem has_congr (g r : Gen G) (h : g.witness.map (·.1) = r.witness.map (·.1)) (id : Id) :
    g.has id = r.has id := by
  have h1 := has_eq_true_iff g id
  have h2 := has_eq_true_iff r id
  rw [h] at h1
  cases hg : g.has id <;> cases hr : r.has id <;> simp_all

theorem recovered_of_groupSig (c : Crypto G) (env : Env) (sh : Id → Data → G) (gs : Data → G)
    (hl : Lawful c env sh gs) (g : Gen G) (d : Data) (h : g.groupSign = some (gs d)) :
    g.recovered c = true := by
  have := hl.groupSig_ok d
  simp [Gen.recovered, h, this.1, this.2.1]

/-- The tail of `update` once every guard has passed. -/
def updateTail (c : Crypto G) (st : RState G) (m : VMsg G) : Step G :=
  let ga := st.gSign.addWitnessSign c m.signer m.sig
  if !ga.2.1 then ⟨st, false, .alreadyHad⟩
  else
    let ra := st.rSign.addWitnessSign c m.signer m.rand
    let st1 := { st with gSign := ga.1, rSign := ra.1 }
    if ra.2.1 && ga.2.2 && ra.2.2 then
      ⟨{ st1 with bhSignature := ga.1.groupSign, bhRandom := ra.1.groupSign, canProcessed := true },
        false, .recovered⟩
    else ⟨st1, false, .added⟩

/-- `update` either leaves the state alone or runs the tail with all guards passed. -/
theorem update_cases (c : Crypto G) (env : Env) (st : RState G) (m : VMsg G) :
    ((update c env st m).st = st) ∨
    (update c env st m = updateTail c st m ∧ env.blockExists = false ∧ m.signer ∈ env.pkKnown ∧
      (env.bindsHash = true → m.dataHash = env.hash) ∧ c.verify m.signer m.dataHash m.sig = true ∧
      c.verify m.signer env.prevRandom m.rand = true) := by
  unfold update
  split; · left; rfl
  split; · left; rfl
  split; · left; rfl
  split; · left; rfl
  split; · left; rfl
  split; · left; rfl
  split; · left; rfl
  rename_i h1 h2 h3 h4 h5 h6 h7
  right
  refine ⟨rfl, by simpa using h2, by simpa using h3, ?_, ?_, by simpa using h7⟩
  · intro hb; rw [hb] at h4; simpa using h4
  · have : (m.signerNonZero && c.verify m.signer m.dataHash m.sig) = true := by simpa using h5
    exact (Bool.and_eq_true _ _ ▸ this).2

/-- When all guards pass, `update` is its tail. -/
theorem update_pass (c : Crypto G) (env : Env) (st : RState G) (m : VMsg G)
    (h1 : m.idShape = .ok) (h2 : env.blockExists = false) (h3 : m.signer ∈ env.pkKnown)
    (h4 : m.dataHash = env.hash) (h5 : m.signerNonZero = true)
    (h5' : c.verify m.signer env.hash m.sig = true) (h6 : c.isNil m.rand = false)
    (h7 : c.verify m.signer env.prevRandom m.rand = true) :
    update c env st m = updateTail c st m := by
  unfold update
  rw [if_neg (by rw [h1]; decide), if_neg (by simp [h2]), if_neg (by simpa using h3),
    if_neg (by simp [h4]), if_neg (by simp [h4, h5, h5']), if_neg (by simp [h6]), if_neg (by simp [h7])]
  rfl

theorem updateTail_inv2 (c : Crypto G) (env : Env) (sh : Id → Data → G) (gs : Data → G)
    (hl : Lawful c env sh gs) (st : RState G) (m : VMsg G)
    (h : Inv2 c env gs st) (hpk : m.signer ∈ env.pkKnown)
    (hvs : c.verify m.signer env.hash m.sig = true) (hvr : c.verify m.signer env.prevRandom m.rand = true) :
    Inv2 c env gs (updateTail c st m).st ∧
    ((updateTail c st m).st.canProcessed = false → (updateTail c st m).st.gSign.has m.signer = true) := by
  have hgok := GenOk.add c env env.hash st.gSign m.signer m.sig h.inv.g hpk hvs
  have hrok := GenOk.add c env env.prevRandom st.rSign m.signer m.rand h.inv.r hpk hvr
  cases hcp : st.canProcessed
  · -- still collecting
    obtain ⟨hlen, hgn, hrn⟩ := h.open_ hcp
    have hgrec : st.gSign.recovered c = false := by simp [Gen.recovered, hgn]
    have hrrec : st.rSign.recovered c = false := by simp [Gen.recovered, hrn]
    cases hhas : st.gSign.has m.signer
    · have hrhas : st.rSign.has m.signer = false := by rw [← has_congr _ _ h.ids_eq]; exact hhas
      have hrlen : st.rSign.witness.length = st.gSign.witness.length := by
        have := congrArg List.length h.ids_eq; simpa using this.symm
      by_cases hk : st.gSign.witness.length + 1 < groupK env.groupSize
      · -- below the threshold: both generators append
        have eg := addWitnessSign_below c st.gSign m.signer m.sig hgrec hhas (by rw [h.thr_g]; exact hk)
        have er := addWitnessSign_below c st.rSign m.signer m.rand hrrec hrhas (by rw [h.thr_r, hrlen]; exact hk)
        rw [eg] at hgok; rw [er] at hrok
        unfold updateTail
        simp only [eg, er]
        refine ⟨⟨⟨hgok, hrok⟩, h.thr_g, h.thr_r, ?_, ?_, ?_⟩, ?_⟩
        · simp [h.ids_eq]
        · intro _
          refine ⟨?_, hgn, hrn⟩
          simp; omega
        · intro hc; simp [hcp] at hc
        · intro _; simp [Gen.has]
      · -- the k-th share: both generators recover
        have hk' : st.gSign.witness.length + 1 = groupK env.groupSize := by omega
        have eg := addWitnessSign_reach c st.gSign m.signer m.sig hgn hhas (by rw [h.thr_g]; exact hk')
        have er := addWitnessSign_reach c st.rSign m.signer m.rand hrn hrhas (by rw [h.thr_r, hrlen]; exact hk')
        rw [eg] at hgok; rw [er] at hrok
        have recg : c.recover (st.gSign.witness ++ [(m.signer, m.sig)]) = gs env.hash := by
          have hw := witness_eq_shares c env sh gs hl env.hash _ hgok.valid
          simp only [] at hw
          rw [hw]
          apply hl.recover_eq _ _ hgok.nodup
          · intro i hi
            obtain ⟨e, he, rfl⟩ := List.mem_map.mp hi
            exact (hgok.valid e he).1
          · simp; omega
        have recr : c.recover (st.rSign.witness ++ [(m.signer, m.rand)]) = gs env.prevRandom := by
          have hw := witness_eq_shares c env sh gs hl env.prevRandom _ hrok.valid
          simp only [] at hw
          rw [hw]
          apply hl.recover_eq _ _ hrok.nodup
          · intro i hi
            obtain ⟨e, he, rfl⟩ := List.mem_map.mp hi
            exact (hrok.valid e he).1
          · simp; omega
        unfold updateTail
        simp only [eg, er, recg, recr]
        refine ⟨⟨⟨⟨hgok.valid, hgok.nodup⟩, ⟨hrok.valid, hrok.nodup⟩⟩, h.thr_g, h.thr_r, ?_, ?_, ?_⟩, ?_⟩
        · simp [h.ids_eq]
        · intro hc; simp at hc
        · intro _
          refine ⟨?_, rfl, rfl, rfl, rfl⟩
          simp; omega
        · intro hc; simp at hc
    · -- the sender is already present: nothing changes
      have eg := addWitnessSign_has c st.gSign m.signer m.sig hgrec hhas
      unfold updateTail
      simp only [eg]
      exact ⟨h, fun _ => hhas⟩
  · -- already recovered: nothing changes
    obtain ⟨_, hgs, _, _, _⟩ := h.closed hcp
    have eg := addWitnessSign_recovered c st.gSign m.signer m.sig
      (recovered_of_groupSig c env sh gs hl _ _ hgs)
    unfold updateTail
    simp only [eg]
    refine ⟨h, fun hc => ?_⟩
    simp [hcp] at hc

/-! ### lifting to `update`, `start`, `advance`, the party and the processor -/

theorem update_err_false (c : Crypto G) (env : Env) (st : RState G) (m : VMsg G)
    (hex : env.blockExists = false) : (update c env st m).err = false := by
  unfold update
  split; · rfl
  split; · rename_i h; rw [hex] at h; exact absurd h (by decide)
  split; · rfl
  split; · rfl
  split; · rfl
  split; · rfl
  split; · rfl
  simp only []
  split; · rfl
  split <;> rfl

/-- `update` never touches the bookkeeping fields. -/
theorem update_fields (c : Crypto G) (env : Env) (st : RState G) (m : VMsg G) :
    (update c env st m).st.finished = st.finished ∧ (update c env st m).st.processed = st.processed ∧
    (update c env st m).st.future = st.future ∧ (update c env st m).st.generated = st.generated ∧
    (update c env st m).st.started = st.started := by
  unfold update
  split; · simp
  split; · simp
  split; · simp
  split; · simp
  split; · simp
  split; · simp
  split; · simp
  simp only []
  split; · simp
  split <;> simp

theorem update_inv2 (c : Crypto G) (env : Env) (hb : env.bindsHash = true) (sh : Id → Data → G)
    (gs : Data → G) (hl : Lawful c env sh gs) (st : RState G) (m : VMsg G) (h : Inv2 c env gs st) :
    Inv2 c env gs (update c env st m).st := by
  rcases update_cases c env st m with h0 | ⟨he, _, hpk, hdh, hvs, hvr⟩
  · rw [h0]; exact h
  · rw [he]
    rw [hdh hb] at hvs
    exact (updateTail_inv2 c env sh gs hl st m h hpk hvs hvr).1

theorem startLoop_inv2 (c : Crypto G) (env : Env) (hb : env.bindsHash = true) (sh : Id → Data → G)
    (gs : Data → G) (hl : Lawful c env sh gs) (ms : List (VMsg G)) :
    ∀ st : RState G, Inv2 c env gs st → Inv2 c env gs (startLoop c env st ms).1 := by
  induction ms with
  | nil => intro st h; exact h
  | cons m rest ih =>
    intro st h
    unfold startLoop
    have hu := update_inv2 c env hb sh gs hl st m h
    simp only []
    split
    · split
      · exact ih _ hu
      · exact hu
    split; · exact hu
    exact ih _ hu

theorem startLoop_fields (c : Crypto G) (env : Env) (ms : List (VMsg G)) :
    ∀ st : RState G, (startLoop c env st ms).1.finished = st.finished ∧
      (startLoop c env st ms).1.processed = st.processed ∧ (startLoop c env st ms).1.future = st.future ∧
      (startLoop c env st ms).1.generated = st.generated := by
  induction ms with
  | nil => intro st; exact ⟨rfl, rfl, rfl, rfl⟩
  | cons m rest ih =>
    intro st
    have hf := update_fields c env st m
    unfold startLoop
    simp only []
    have := ih (update c env st m).st
    have hgo := (⟨this.1.trans hf.1, this.2.1.trans hf.2.1, this.2.2.1.trans hf.2.2.1, this.2.2.2.trans hf.2.2.2.1⟩ :
      _ ∧ _ ∧ _ ∧ _)
    split
    · split
      · exact hgo
      · exact ⟨hf.1, hf.2.1, hf.2.2.1, hf.2.2.2.1⟩
    split; · exact ⟨hf.1, hf.2.1, hf.2.2.1, hf.2.2.2.1⟩
    exact hgo

theorem startLoop_err_false (c : Crypto G) (env : Env) (hex : env.blockExists = false) (ms : List (VMsg G)) :
    ∀ st : RState G, (startLoop c env st ms).2.1 = false := by
  induction ms with
  | nil => intro st; rfl
  | cons m rest ih =>
    intro st
    unfold startLoop
    simp only []
    split
    · split
      · exact ih _
      · rfl
    split
    · rename_i h; rw [update_err_false c env st m hex] at h; exact absurd h (by decide)
    · exact ih _

/-- `sigOk` holds for the group signature. -/
theorem sigOk_groupSig (c : Crypto G) (env : Env) (sh : Id → Data → G) (gs : Data → G)
    (hl : Lawful c env sh gs) (d : Data) : sigOk c d (some (gs d)) = true := by
  have := hl.groupSig_ok d
  simp [sigOk, this.1, this.2.1, this.2.2]

/-- With valid recovered signatures `round2.Start` generates the block. -/
theorem start2_ok (c : Crypto G) (env : Env) (sh : Id → Data → G) (gs : Data → G)
    (hl : Lawful c env sh gs) (st : RState G) (hf : st.finished = false) (hex : env.blockExists = false)
    (h1 : st.bhSignature = some (gs env.hash)) (h2 : st.bhRandom = some (gs env.prevRandom)) :
    start2 c env st =
      ({ st with finished := true, generated := some (some (gs env.hash), some (gs env.prevRandom)) }, false) := by
  unfold start2
  rw [if_neg (by simp [hf])]
  simp only []
  rw [if_neg (by simp [hex]), h1, h2]
  rw [if_neg (by simp [sigOk_groupSig c env sh gs hl]), if_neg (by simp [sigOk_groupSig c env sh gs hl])]

/-! ### the processor while it collects, and once it has finished -/

/-- The honest verify message of member `i` (what `round0.normalPieceVerify` sends). -/
def honestMsg (env : Env) (sh : Id → Data → G) (i : Id) (mid : MsgId) : VMsg G :=
  { mid := mid, blockHash := env.hash, signer := i, idShape := .ok, signerNonZero := true,
    dataHash := env.hash, sig := sh i env.hash, rand := sh i env.prevRandom }

structure Collecting (c : Crypto G) (env : Env) (gs : Data → G) (F : List MsgId) (pr : Proc G) : Prop where
  mgr : pr.inManager = true
  ending : pr.ending = none
  phase : pr.party.phase = .r1
  noErr : pr.party.errPending = false
  noDone : pr.party.donePending = false
  cp : pr.party.rs.canProcessed = false
  fin : pr.party.rs.finished = false
  inv2 : Inv2 c env gs pr.party.rs
  blocked : ∀ mid, (mid ∈ pr.party.rs.processed ∨ mid ∈ pr.party.rs.future.map (·.mid)) → mid ∈ F

structure Finished (env : Env) (gs : Data → G) (pr : Proc G) : Prop where
  ending : pr.ending = some true
  gen : pr.party.rs.generated = some (some (gs env.hash), some (gs env.prevRandom))
  mgr : pr.inManager = false
  done : pr.done = true

/-- Member `i` is accounted for: the block is finalised or `i`'s share is in the set. -/
def Has (pr : Proc G) (i : Id) : Prop := pr.ending = some true ∨ pr.party.rs.gSign.has i = true

theorem updateTail_has_mono (c : Crypto G) (st : RState G) (m : VMsg G) (j : Id)
    (h : st.gSign.has j = true) : (updateTail c st m).st.gSign.has j = true := by
  have key : (st.gSign.addWitnessSign c m.signer m.sig).1.has j = true := by
    rcases addWitnessSign_cases c st.gSign m.signer m.sig with h1 | h1
    · rw [h1.2]; exact h
    · rw [has_eq_true_iff] at h ⊢
      rw [h1.2.1, List.map_append]
      exact List.mem_append_left _ h
  unfold updateTail
  simp only []
  split; · exact h
  split <;> exact key

theorem update_has_mono (c : Crypto G) (env : Env) (st : RState G) (m : VMsg G) (j : Id)
    (h : st.gSign.has j = true) : (update c env st m).st.gSign.has j = true := by
  rcases update_cases c env st m with h0 | ⟨he, _⟩
  · rw [h0]; exact h
  · rw [he]; exact updateTail_has_mono c st m j h

/-- After the reaper, a party that just completed is `Finished`. -/
theorem settle_done (env : Env) (gs : Data → G) (pr : Proc G) (h1 : pr.party.errPending = false)
    (h2 : pr.party.donePending = true)
    (hg : pr.party.rs.generated = some (some (gs env.hash), some (gs env.prevRandom))) :
    Finished env gs (settle pr) := by
  unfold settle
  rw [if_neg (by simp [h1]), if_pos h2]
  exact ⟨rfl, hg, rfl, rfl⟩

theorem settle_idle (pr : Proc G) (h1 : pr.party.errPending = false) (h2 : pr.party.donePending = false) :
    settle pr = pr := by
  unfold settle
  rw [if_neg (by simp [h1]), if_neg (by simp [h2])]

theorem advance_open (c : Crypto G) (env : Env) (rs : RState G) (ep dp : Bool)
    (h : rs.canProcessed = false) : advance c env ⟨.r1, rs, ep, dp⟩ = ⟨.r1, rs, ep, dp⟩ := by
  simp [advance, h]

/-- The state `round2.Start` leaves after generating the block. -/
def closedState (gs : Data → G) (env : Env) (rs : RState G) : RState G :=
  { rs with canProcessed := true, number := 2, finished := true, generated := some (some (gs env.hash), some (gs env.prevRandom)) }

theorem advance_closed (c : Crypto G) (env : Env) (sh : Id → Data → G) (gs : Data → G)
    (hl : Lawful c env sh gs) (rs : RState G) (ep dp : Bool) (hcp : rs.canProcessed = true)
    (hfin : rs.finished = false) (hex : env.blockExists = false)
    (h1 : rs.bhSignature = some (gs env.hash)) (h2 : rs.bhRandom = some (gs env.prevRandom)) :
    advance c env ⟨.r1, rs, ep, dp⟩ = ⟨.ended, closedState gs env rs, ep, true⟩ := by
  have := start2_ok c env sh gs hl { rs with canProcessed := true, number := 2 } hfin hex h1 h2
  simp [advance, hcp, this, closedState]

/-- The result of `baseParty.Update` on a collecting party. -/
inductive PartyResult (c : Crypto G) (env : Env) (sh : Id → Data → G) (gs : Data → G)
    (rs : RState G) (m : VMsg G) (p' : Party G) : Prop
  | collecting (rs' : RState G) (hp : p' = ⟨.r1, rs', false, false⟩) (hcp : rs'.canProcessed = false)
      (hfin : rs'.finished = false) (hinv : Inv2 c env gs rs') (hproc : rs'.processed = rs.processed)
      (hfut : rs'.future = rs.future) (hmono : ∀ j, rs.gSign.has j = true → rs'.gSign.has j = true)
      (hhon : ∀ i mid, m = honestMsg env sh i mid → i ∈ env.pkKnown →
        mid ∉ rs.processed → mid ∉ rs.future.map (·.mid) → rs'.gSign.has i = true)
  | finished (rs' : RState G) (hp : p' = ⟨.ended, rs', false, true⟩)
      (hgen : rs'.generated = some (some (gs env.hash), some (gs env.prevRandom)))

theorem honest_passes (c : Crypto G) (env : Env) (sh : Id → Data → G) (gs : Data → G)
    (hl : Lawful c env sh gs) (hex : env.blockExists = false) (rs : RState G) (i : Id) (mid : MsgId)
    (hi : i ∈ env.pkKnown) :
    update c env rs (honestMsg env sh i mid) = updateTail c rs (honestMsg env sh i mid) ∧
    c.verify i env.hash (sh i env.hash) = true ∧ c.verify i env.prevRandom (sh i env.prevRandom) = true := by
  have hv := (hl.verify_iff i env.hash (sh i env.hash) hi).mpr rfl
  have hr := (hl.verify_iff i env.prevRandom (sh i env.prevRandom) hi).mpr rfl
  exact ⟨update_pass c env rs (honestMsg env sh i mid) rfl hex hi rfl rfl hv (hl.verify_nonnil _ _ _ hr) hr, hv, hr⟩

theorem updateTail_out (c : Crypto G) (rs : RState G) (m : VMsg G) : (updateTail c rs m).out ≠ .panicked := by
  unfold updateTail
  simp only []
  split; · simp
  split <;> simp

theorem partyUpdate_collecting (c : Crypto G) (env : Env) (hb : env.bindsHash = true)
    (hex : env.blockExists = false) (sh : Id → Data → G) (gs : Data → G) (hl : Lawful c env sh gs)
    (rs : RState G) (m : VMsg G) (hcp : rs.canProcessed = false) (hfin : rs.finished = false)
    (hinv : Inv2 c env gs rs) :
    PartyResult c env sh gs rs m (partyUpdate c env ⟨.r1, rs, false, false⟩ m).1 := by
  simp only [partyUpdate]
  by_cases hacc : canAccept1 rs m = true
  · rw [if_neg (by simp [hacc])]
    have herr := update_err_false c env rs m hex
    have hfld := update_fields c env rs m
    have hinv' := update_inv2 c env hb sh gs hl rs m hinv
    by_cases hpan : (update c env rs m).out = .panicked
    · rw [if_pos hpan]
      refine .collecting rs rfl hcp hfin hinv rfl rfl (fun _ h => h) ?_
      intro i mid hm hi _ _
      exfalso
      subst hm
      rw [(honest_passes c env sh gs hl hex rs i mid hi).1] at hpan
      exact updateTail_out c rs _ hpan
    · rw [if_neg hpan, if_neg (by simp [herr])]
      cases hcp' : (update c env rs m).st.canProcessed
      · rw [advance_open c env _ false false hcp']
        refine .collecting _ rfl hcp' (by rw [hfld.1]; exact hfin) hinv' hfld.2.1 hfld.2.2.1
          (fun j hj => update_has_mono c env rs m j hj) ?_
        intro i mid hm hi _ _
        subst hm
        obtain ⟨hp, hv, hr⟩ := honest_passes c env sh gs hl hex rs i mid hi
        have ht := (updateTail_inv2 c env sh gs hl rs (honestMsg env sh i mid) hinv hi hv hr).2
        rw [hp] at hcp' ⊢
        exact ht hcp'
      · obtain ⟨_, _, _, hs1, hs2⟩ := hinv'.closed hcp'
        rw [advance_closed c env sh gs hl _ false false hcp' (by rw [hfld.1]; exact hfin) hex hs1 hs2]
        exact .finished _ rfl rfl
  · have hacc' : canAccept1 rs m = false := by simpa using hacc
    rw [if_pos (by simp [hacc']), advance_open c env rs false false hcp]
    refine .collecting rs rfl hcp hfin hinv rfl rfl (fun _ h => h) ?_
    intro i mid hm _ h1 h2
    exfalso
    subst hm
    unfold canAccept1 at hacc'
    simp only [honestMsg, Bool.and_eq_false_iff, Bool.not_eq_false', List.contains_eq_mem,
      decide_eq_true_eq, List.any_eq_true, beq_iff_eq] at hacc'
    rcases hacc' with h | ⟨f, hf, hfm⟩
    · exact h1 h
    · exact h2 (List.mem_map.mpr ⟨f, hf, hfm⟩)

/-- One delivered packet, while collecting and with the block not yet on the chain: the processor keeps
collecting (every counted member stays counted, an honest sender gets counted) or finishes with a valid block. -/
theorem deliver_collecting (c : Crypto G) (env : Env) (hb : env.bindsHash = true)
    (hex : env.blockExists = false) (sh : Id → Data → G) (gs : Data → G) (hl : Lawful c env sh gs)
    (F : List MsgId) (pr : Proc G) (w : Wire G) (h : Collecting c env gs F pr) :
    (Collecting c env gs F (pr.deliver c env w).1 ∨ Finished env gs (pr.deliver c env w).1) ∧
    (∀ j, pr.party.rs.gSign.has j = true → Has (pr.deliver c env w).1 j) ∧
    (∀ i mid, w = .ok (honestMsg env sh i mid) → i ∈ env.pkKnown → mid ∉ F → Has (pr.deliver c env w).1 i) := by
  obtain ⟨⟨phase, rs, ep, dp⟩, mgr, done, stray, ending⟩ := pr
  obtain ⟨hmgr, hend, hph, hep, hdp, hcp, hfin, hinv, hblk⟩ := h
  simp only at hmgr hend hph hep hdp hcp hfin hinv hblk
  subst hmgr hend hph hep hdp
  cases w with
  | ok m =>
    simp only [Proc.deliver, decode, Proc.onVerify]
    by_cases hfile : (m.blockHash == env.hash) = true
    · simp only [hfile, if_true]
      rcases partyUpdate_collecting c env hb hex sh gs hl rs m hcp hfin hinv with
        ⟨rs', hp, hcp', hfin', hinv', hproc, hfut, hmono, hhon⟩ | ⟨rs', hp, hgen⟩
      · rw [hp, settle_idle _ rfl rfl]
        refine ⟨Or.inl ⟨rfl, rfl, rfl, rfl, rfl, hcp', hfin', hinv', ?_⟩, fun j hj => Or.inr (hmono j hj), ?_⟩
        · intro mid hm
          apply hblk
          simpa [hproc, hfut] using hm
        · intro i mid hw hi hmid
          right
          have hm : m = honestMsg env sh i mid := by injection hw
          exact hhon i mid hm hi (fun hx => hmid (hblk mid (Or.inl hx))) (fun hx => hmid (hblk mid (Or.inr hx)))
      · rw [hp]
        have hf := settle_done env gs
          ({ party := ⟨.ended, rs', false, true⟩, inManager := true, done := done, stray := stray, ending := none } : Proc G)
          rfl rfl hgen
        exact ⟨Or.inr hf, fun j _ => Or.inl hf.ending, fun i mid _ _ _ => Or.inl hf.ending⟩
    · simp only [hfile]
      refine ⟨Or.inl ⟨rfl, rfl, rfl, rfl, rfl, hcp, hfin, hinv, hblk⟩, fun j hj => Or.inr hj, ?_⟩
      intro i mid hw
      have hm : m = honestMsg env sh i mid := by injection hw
      subst hm
      exact absurd (by simp [honestMsg]) hfile
  | protoBad =>
    simp only [Proc.deliver, decode]
    exact ⟨Or.inl ⟨rfl, rfl, rfl, rfl, rfl, hcp, hfin, hinv, hblk⟩, fun j hj => Or.inr hj,
      fun i mid hw => by cases hw⟩
  | noSign =>
    simp only [Proc.deliver, decode]
    exact ⟨Or.inl ⟨rfl, rfl, rfl, rfl, rfl, hcp, hfin, hinv, hblk⟩, fun j hj => Or.inr hj,
      fun i mid hw => by cases hw⟩
  | emptyDataSign =>
    simp only [Proc.deliver, decode]
    exact ⟨Or.inl ⟨rfl, rfl, rfl, rfl, rfl, hcp, hfin, hinv, hblk⟩, fun j hj => Or.inr hj,
      fun i mid hw => by cases hw⟩

/-- Once finished, nothing a later packet does changes the outcome. -/
theorem deliver_finished (c : Crypto G) (env : Env) (gs : Data → G) (pr : Proc G) (w : Wire G)
    (h : Finished env gs pr) : Finished env gs (pr.deliver c env w).1 := by
  obtain ⟨party, mgr, done, stray, ending⟩ := pr
  obtain ⟨hend, hgen, hmgr, hdone⟩ := h
  simp only at hend hgen hmgr hdone
  subst hend hmgr hdone
  cases w with
  | ok m =>
    simp only [Proc.deliver, decode, Proc.onVerify]
    by_cases hfile : (m.blockHash == env.hash) = true
    · simp only [hfile, if_true]
      exact ⟨rfl, hgen, rfl, rfl⟩
    · simp only [hfile]
      exact ⟨rfl, hgen, rfl, rfl⟩
  | protoBad => exact ⟨rfl, hgen, rfl, rfl⟩
  | noSign => exact ⟨rfl, hgen, rfl, rfl⟩
  | emptyDataSign => exact ⟨rfl, hgen, rfl, rfl⟩

/-! ### a party that recovered inside `round1.Start` but was stopped by a panic before advancing -/

/-- `round1.Start` recovered the signatures from stored messages and a later stored message made it
panic (recovered by `baseParty.Update`): the party sits in round1 with `canProcessed` set and advances
on the next message it is handed. -/
structure Ready (c : Crypto G) (env : Env) (gs : Data → G) (pr : Proc G) : Prop where
  mgr : pr.inManager = true
  ending : pr.ending = none
  phase : pr.party.phase = .r1
  noErr : pr.party.errPending = false
  noDone : pr.party.donePending = false
  cp : pr.party.rs.canProcessed = true
  fin : pr.party.rs.finished = false
  inv2 : Inv2 c env gs pr.party.rs

theorem update_ready (c : Crypto G) (env : Env) (sh : Id → Data → G) (gs : Data → G)
    (hl : Lawful c env sh gs) (rs : RState G) (m : VMsg G) (hcp : rs.canProcessed = true)
    (hinv : Inv2 c env gs rs) : (update c env rs m).st = rs := by
  rcases update_cases c env rs m with h0 | ⟨he, _⟩
  · exact h0
  · rw [he]
    obtain ⟨_, hgs, _, _, _⟩ := hinv.closed hcp
    have eg := addWitnessSign_recovered c rs.gSign m.signer m.sig (recovered_of_groupSig c env sh gs hl _ _ hgs)
    unfold updateTail
    simp only [eg]
    rfl

theorem deliver_ready (c : Crypto G) (env : Env) (hex : env.blockExists = false)
    (sh : Id → Data → G) (gs : Data → G) (hl : Lawful c env sh gs) (pr : Proc G) (w : Wire G)
    (h : Ready c env gs pr) :
    (Ready c env gs (pr.deliver c env w).1 ∨ Finished env gs (pr.deliver c env w).1) ∧
    (∀ i mid, w = .ok (honestMsg env sh i mid) → i ∈ env.pkKnown → Finished env gs (pr.deliver c env w).1) := by
  obtain ⟨⟨phase, rs, ep, dp⟩, mgr, done, stray, ending⟩ := pr
  obtain ⟨hmgr, hend, hph, hep, hdp, hcp, hfin, hinv⟩ := h
  simp only at hmgr hend hph hep hdp hcp hfin hinv
  subst hmgr hend hph hep hdp
  obtain ⟨_, _, _, hs1, hs2⟩ := hinv.closed hcp
  have hadv := advance_closed c env sh gs hl rs false false hcp hfin hex hs1 hs2
  have hfinished : Finished env gs (settle
      ({ party := ⟨.ended, closedState gs env rs, false, true⟩, inManager := true, done := done,
         stray := stray, ending := none } : Proc G)) := settle_done env gs _ rfl rfl rfl
  cases w with
  | ok m =>
    simp only [Proc.deliver, decode, Proc.onVerify]
    by_cases hfile : (m.blockHash == env.hash) = true
    · simp only [hfile, if_true, partyUpdate]
      by_cases hacc : canAccept1 rs m = true
      · rw [if_neg (by simp [hacc])]
        have hst := update_ready c env sh gs hl rs m hcp hinv
        have herr := update_err_false c env rs m hex
        by_cases hpan : (update c env rs m).out = .panicked
        · rw [if_pos hpan, settle_idle _ rfl rfl]
          refine ⟨Or.inl ⟨rfl, rfl, rfl, rfl, rfl, hcp, hfin, hinv⟩, ?_⟩
          intro i mid hw hi
          exfalso
          have hm : m = honestMsg env sh i mid := by injection hw
          subst hm
          rw [(honest_passes c env sh gs hl hex rs i mid hi).1] at hpan
          exact updateTail_out c rs _ hpan
        · rw [if_neg hpan, if_neg (by simp [herr]), hst, hadv]
          exact ⟨Or.inr hfinished, fun _ _ _ _ => hfinished⟩
      · have hacc' : canAccept1 rs m = false := by simpa using hacc
        rw [if_pos (by simp [hacc']), hadv]
        exact ⟨Or.inr hfinished, fun _ _ _ _ => hfinished⟩
    · simp only [hfile]
      refine ⟨Or.inl ⟨rfl, rfl, rfl, rfl, rfl, hcp, hfin, hinv⟩, ?_⟩
      intro i mid hw
      have hm : m = honestMsg env sh i mid := by injection hw
      subst hm
      exact absurd (by simp [honestMsg]) hfile
  | protoBad =>
    simp only [Proc.deliver, decode]
    exact ⟨Or.inl ⟨rfl, rfl, rfl, rfl, rfl, hcp, hfin, hinv⟩, fun i mid hw => by cases hw⟩
  | noSign =>
    simp only [Proc.deliver, decode]
    exact ⟨Or.inl ⟨rfl, rfl, rfl, rfl, rfl, hcp, hfin, hinv⟩, fun i mid hw => by cases hw⟩
  | emptyDataSign =>
    simp only [Proc.deliver, decode]
    exact ⟨Or.inl ⟨rfl, rfl, rfl, rfl, rfl, hcp, hfin, hinv⟩, fun i mid hw => by cases hw⟩

/-! ### the state right after the party entered round1 -/

theorem inv2_fresh (c : Crypto G) (env : Env) (gs : Data → G) (hk : 0 < groupK env.groupSize)
    (st : RState G) (hcp : st.canProcessed = false) :
    Inv2 c env gs { st with gSign := Gen.new (groupK env.groupSize), rSign := Gen.new (groupK env.groupSize) } :=
  ⟨⟨GenOk.new c env _ _, GenOk.new c env _ _⟩, rfl, rfl, rfl,
    fun _ => ⟨by simpa [Gen.new] using hk, rfl, rfl⟩, fun h => by simp [hcp] at h⟩

theorem start1_spec (c : Crypto G) (env : Env) (hb : env.bindsHash = true) (hex : env.blockExists = false)
    (hk : 0 < groupK env.groupSize) (sh : Id → Data → G) (gs : Data → G) (hl : Lawful c env sh gs)
    (processed : List MsgId) (future : List (VMsg G)) :
    ∃ rs pn, start1 c env (RState.init processed future) = (rs, false, pn) ∧ Inv2 c env gs rs ∧ rs.finished = false ∧
      (∀ mid, (mid ∈ rs.processed ∨ mid ∈ rs.future.map (·.mid)) → mid ∈ processed ++ future.map (·.mid)) := by
  have h0 := inv2_fresh c env gs hk (RState.init processed future : RState G) rfl
  unfold start1
  rw [if_neg (by simp [RState.init])]
  simp only []
  by_cases hemp : future.isEmpty = true
  · have : (RState.init processed future : RState G).future.isEmpty = true := hemp
    rw [if_pos this]
    refine ⟨_, false, rfl, h0, rfl, ?_⟩
    intro mid hm
    simp only [RState.init, List.mem_append] at hm ⊢
    exact hm
  · have : ¬ (RState.init processed future : RState G).future.isEmpty = true := hemp
    rw [if_neg this]
    have hl2 := startLoop_inv2 c env hb sh gs hl (RState.init processed future : RState G).future _ h0
    have hfl := startLoop_fields c env (RState.init processed future : RState G).future
      ({ (RState.init processed future : RState G) with gSign := Gen.new (groupK env.groupSize), rSign := Gen.new (groupK env.groupSize) })
    have herr := startLoop_err_false c env hex (RState.init processed future : RState G).future
      ({ (RState.init processed future : RState G) with gSign := Gen.new (groupK env.groupSize), rSign := Gen.new (groupK env.groupSize) })
    generalize startLoop c env
      ({ (RState.init processed future : RState G) with gSign := Gen.new (groupK env.groupSize), rSign := Gen.new (groupK env.groupSize) })
      (RState.init processed future : RState G).future = r at hl2 hfl herr ⊢
    obtain ⟨rs, e, pn⟩ := r
    simp only at hl2 hfl herr
    subst herr
    cases pn
    · simp only [Bool.or_false, Bool.false_eq_true, if_false]
      refine ⟨_, false, rfl, ⟨⟨hl2.inv.g, hl2.inv.r⟩, hl2.thr_g, hl2.thr_r, hl2.ids_eq, hl2.open_, hl2.closed⟩, hfl.1, ?_⟩
      intro mid hm
      simp only [hfl.2.1, RState.init, List.map_nil, List.not_mem_nil, or_false, List.mem_append] at hm ⊢
      exact hm
    · simp only [Bool.or_true, if_true]
      refine ⟨_, true, rfl, hl2, hfl.1, ?_⟩
      intro mid hm
      simp only [hfl.2.1, hfl.2.2.1, RState.init, List.mem_append] at hm ⊢
      exact hm

theorem initWith_state (c : Crypto G) (env : Env) (hb : env.bindsHash = true) (hex : env.blockExists = false)
    (hk : 0 < groupK env.groupSize) (sh : Id → Data → G) (gs : Data → G) (hl : Lawful c env sh gs)
    (processed : List MsgId) (future : List (VMsg G)) :
    Collecting c env gs (processed ++ future.map (·.mid)) (Proc.initWith c env processed future) ∨
    Finished env gs (Proc.initWith c env processed future) ∨ Ready c env gs (Proc.initWith c env processed future) := by
  obtain ⟨rs, pn, hs, hinv, hfin, hblk⟩ := start1_spec c env hb hex hk sh gs hl processed future
  simp only [Proc.initWith, enter, hs]
  cases pn
  · simp only [Bool.false_eq_true, if_false]
    cases hcp : rs.canProcessed
    · rw [advance_open c env _ false false hcp, settle_idle _ rfl rfl]
      exact Or.inl ⟨rfl, rfl, rfl, rfl, rfl, hcp, hfin, hinv, hblk⟩
    · obtain ⟨_, _, _, hs1, hs2⟩ := hinv.closed hcp
      rw [advance_closed c env sh gs hl _ false false hcp hfin hex hs1 hs2]
      exact Or.inr (Or.inl (settle_done env gs _ rfl rfl rfl))
  · simp only [if_true]
    rw [settle_idle _ rfl rfl]
    cases hcp : rs.canProcessed
    · exact Or.inl ⟨rfl, rfl, rfl, rfl, rfl, hcp, hfin, hinv, hblk⟩
    · exact Or.inr (Or.inr ⟨rfl, rfl, rfl, rfl, rfl, hcp, hfin, hinv⟩)

theorem init_state (c : Crypto G) (env : Env) (hb : env.bindsHash = true) (hex : env.blockExists = false)
    (hk : 0 < groupK env.groupSize) (sh : Id → Data → G) (gs : Data → G) (hl : Lawful c env sh gs)
    (future : List (VMsg G)) :
    Collecting c env gs (future.map (·.mid)) (Proc.init c env future) ∨
    Finished env gs (Proc.init c env future) ∨ Ready c env gs (Proc.init c env future) := by
  have := initWith_state c env hb hex hk sh gs hl [] future
  simpa [Proc.init, Proc.initWith] using this

/-! ### whole histories (block not on the chain) -/

theorem run_finished (c : Crypto G) (env : Env) (gs : Data → G) (ws : List (Wire G)) :
    ∀ pr : Proc G, Finished env gs pr → Finished env gs (Proc.run c env pr ws) := by
  induction ws with
  | nil => intro pr h; exact h
  | cons w rest ih => intro pr h; exact ih _ (deliver_finished c env gs pr w h)

theorem run_mono (c : Crypto G) (env : Env) (hb : env.bindsHash = true) (hex : env.blockExists = false)
    (sh : Id → Data → G) (gs : Data → G) (hl : Lawful c env sh gs) (F : List MsgId) (i : Id)
    (ws : List (Wire G)) :
    ∀ pr : Proc G, (Collecting c env gs F pr ∨ Finished env gs pr) → Has pr i → Has (Proc.run c env pr ws) i := by
  induction ws with
  | nil => intro pr _ h; exact h
  | cons w rest ih =>
    intro pr hg hh
    rcases hg with hc | hf
    · have hd := deliver_collecting c env hb hex sh gs hl F pr w hc
      rcases hh with he | hhas
      · rw [hc.ending] at he; cases he
      · exact ih _ hd.1 (hd.2.1 i hhas)
    · exact Or.inl (run_finished c env gs (w :: rest) pr hf).ending

theorem run_collecting (c : Crypto G) (env : Env) (hb : env.bindsHash = true) (hex : env.blockExists = false)
    (sh : Id → Data → G) (gs : Data → G) (hl : Lawful c env sh gs) (F : List MsgId) (ws : List (Wire G)) :
    ∀ pr : Proc G, Collecting c env gs F pr →
      (Collecting c env gs F (Proc.run c env pr ws) ∨ Finished env gs (Proc.run c env pr ws)) ∧
      (∀ i mid, Wire.ok (honestMsg env sh i mid) ∈ ws → i ∈ env.pkKnown → mid ∉ F →
        Has (Proc.run c env pr ws) i) := by
  induction ws with
  | nil => intro pr h; exact ⟨Or.inl h, fun i mid hm => by cases hm⟩
  | cons w rest ih =>
    intro pr h
    have hd := deliver_collecting c env hb hex sh gs hl F pr w h
    show (Collecting c env gs F (Proc.run c env (pr.deliver c env w).1 rest) ∨
        Finished env gs (Proc.run c env (pr.deliver c env w).1 rest)) ∧ _
    rcases hd.1 with hc | hf
    · have hi := ih _ hc
      refine ⟨hi.1, ?_⟩
      intro i mid hm hpk hmid
      rcases List.mem_cons.mp hm with hw | hr
      · exact run_mono c env hb hex sh gs hl F i rest _ (Or.inl hc) (hd.2.2 i mid hw.symm hpk hmid)
      · exact hi.2 i mid hr hpk hmid
    · have := run_finished c env gs rest _ hf
      exact ⟨Or.inr this, fun _ _ _ _ _ => Or.inl this.ending⟩

theorem run_ready (c : Crypto G) (env : Env) (hex : env.blockExists = false)
    (sh : Id → Data → G) (gs : Data → G) (hl : Lawful c env sh gs) (ws : List (Wire G)) :
    ∀ pr : Proc G, Ready c env gs pr →
      (∃ i mid, Wire.ok (honestMsg env sh i mid) ∈ ws ∧ i ∈ env.pkKnown) →
      Finished env gs (Proc.run c env pr ws) := by
  induction ws with
  | nil => intro pr _ ⟨i, mid, hm, _⟩; cases hm
  | cons w rest ih =>
    intro pr h ⟨i, mid, hm, hpk⟩
    have hd := deliver_ready c env hex sh gs hl pr w h
    show Finished env gs (Proc.run c env (pr.deliver c env w).1 rest)
    rcases List.mem_cons.mp hm with hw | hr
    · exact run_finished c env gs rest _ (hd.2 i mid hw.symm hpk)
    · rcases hd.1 with hrd | hf
      · exact ih _ hrd ⟨i, mid, hr, hpk⟩
      · exact run_finished c env gs rest _ hf

/-! ### `Inv2` along arbitrary histories (the block may appear on the chain at any time) -/

theorem Inv2.withChain {c : Crypto G} {env : Env} {gs : Data → G} {st : RState G} (b : Bool) :
    Inv2 c (env.withChain b) gs st ↔ Inv2 c env gs st :=
  ⟨fun h => ⟨(Inv.withChain b).mp h.inv, h.thr_g, h.thr_r, h.ids_eq, h.open_, h.closed⟩,
   fun h => ⟨(Inv.withChain b).mpr h.inv, h.thr_g, h.thr_r, h.ids_eq, h.open_, h.closed⟩⟩

theorem Inv2.congr {c : Crypto G} {env : Env} {gs : Data → G} {st st' : RState G} (h : Inv2 c env gs st)
    (h1 : st'.gSign = st.gSign) (h2 : st'.rSign = st.rSign) (h3 : st'.canProcessed = st.canProcessed)
    (h4 : st'.bhSignature = st.bhSignature) (h5 : st'.bhRandom = st.bhRandom) : Inv2 c env gs st' :=
  ⟨⟨by rw [h1]; exact h.inv.g, by rw [h2]; exact h.inv.r⟩, by rw [h1]; exact h.thr_g, by rw [h2]; exact h.thr_r,
    by rw [h1, h2]; exact h.ids_eq, by rw [h1, h2, h3]; exact h.open_, by rw [h1, h2, h3, h4, h5]; exact h.closed⟩

theorem start2_same (c : Crypto G) (env : Env) (st : RState G) :
    (start2 c env st).1.gSign = st.gSign ∧ (start2 c env st).1.rSign = st.rSign ∧
    (start2 c env st).1.canProcessed = st.canProcessed ∧ (start2 c env st).1.bhSignature = st.bhSignature ∧
    (start2 c env st).1.bhRandom = st.bhRandom := by
  unfold start2
  split; · simp
  simp only []
  split; · simp
  split; · simp
  split <;> simp

theorem advance_inv2 (c : Crypto G) (env : Env) (gs : Data → G) (p : Party G) (h : Inv2 c env gs p.rs) :
    Inv2 c env gs (advance c env p).rs := by
  unfold advance
  split
  · exact h
  · split; · exact h
    rename_i hcp
    have hcp' : p.rs.canProcessed = true := by simpa using hcp
    simp only []
    have h2 := start2_same c env { p.rs with canProcessed := true, number := 2 }
    have hbase : Inv2 c env gs { p.rs with canProcessed := true, number := 2 } :=
      h.congr rfl rfl (by simp [hcp']) rfl rfl
    split <;> exact hbase.congr h2.1 h2.2.1 h2.2.2.1 h2.2.2.2.1 h2.2.2.2.2
  · split <;> exact h

theorem partyUpdate_inv2 (c : Crypto G) (env : Env) (hb : env.bindsHash = true) (sh : Id → Data → G)
    (gs : Data → G) (hl : Lawful c env sh gs) (p : Party G) (m : VMsg G) (h : Inv2 c env gs p.rs) :
    Inv2 c env gs (partyUpdate c env p m).1.rs := by
  unfold partyUpdate
  split
  · exact h
  · exact advance_inv2 c env gs p h
  · split; · exact advance_inv2 c env gs p h
    simp only []
    have hu := update_inv2 c env hb sh gs hl p.rs m h
    split; · exact h
    split; · exact hu
    exact advance_inv2 c env gs _ hu

theorem deliver_inv2 (c : Crypto G) (env : Env) (hb : env.bindsHash = true) (sh : Id → Data → G)
    (gs : Data → G) (hl : Lawful c env sh gs) (pr : Proc G) (w : Wire G) (h : Inv2 c env gs pr.party.rs) :
    Inv2 c env gs (pr.deliver c env w).1.party.rs := by
  unfold Proc.deliver
  split
  · exact h
  · unfold Proc.onVerify
    split
    · split
      · simp only []
        rw [settle_rs]
        exact partyUpdate_inv2 c env hb sh gs hl pr.party _ h
      · split <;> exact h
    · exact h

theorem start1_inv2 (c : Crypto G) (env : Env) (hb : env.bindsHash = true) (hk : 0 < groupK env.groupSize)
    (sh : Id → Data → G) (gs : Data → G) (hl : Lawful c env sh gs) (future : List (VMsg G)) :
    Inv2 c env gs (start1 c env (RState.init [] future)).1 := by
  have h0 := inv2_fresh c env gs hk (RState.init [] future : RState G) rfl
  unfold start1
  rw [if_neg (by simp [RState.init])]
  simp only []
  split; · exact h0
  have hl2 := startLoop_inv2 c env hb sh gs hl (RState.init [] future : RState G).future _ h0
  split
  · exact hl2
  · exact hl2.congr rfl rfl rfl rfl rfl

theorem init_inv2 (c : Crypto G) (env : Env) (hb : env.bindsHash = true) (hk : 0 < groupK env.groupSize)
    (sh : Id → Data → G) (gs : Data → G) (hl : Lawful c env sh gs) (future : List (VMsg G)) :
    Inv2 c env gs (Proc.init c env future).party.rs := by
  unfold Proc.init
  rw [settle_rs]
  unfold enter
  simp only []
  have h1 := start1_inv2 c env hb hk sh gs hl future
  split; · exact h1
  split; · exact h1
  exact advance_inv2 c env gs _ h1

theorem runX_inv2 (c : Crypto G) (env : Env) (hb : env.bindsHash = true) (sh : Id → Data → G)
    (gs : Data → G) (hl : Lawful c env sh gs) (ws : List (Bool × Wire G)) :
    ∀ pr : Proc G, Inv2 c env gs pr.party.rs → Inv2 c env gs (Proc.runX c env pr ws).party.rs := by
  induction ws with
  | nil => intro pr h; exact h
  | cons bw rest ih =>
    intro pr h
    obtain ⟨b, w⟩ := bw
    unfold Proc.runX
    apply ih
    apply (Inv2.withChain b).mp
    exact deliver_inv2 c (env.withChain b) hb sh gs (hl.withChain b) pr w ((Inv2.withChain b).mpr h)

theorem groupK_pos {n : Nat} (h : 0 < n) : 0 < groupK n := by
  unfold groupK; omega

theorem run_tri (c : Crypto G) (env : Env) (hb : env.bindsHash = true) (hex : env.blockExists = false)
    (sh : Id → Data → G) (gs : Data → G) (hl : Lawful c env sh gs) (F : List MsgId) (ws : List (Wire G)) :
    ∀ pr : Proc G, (Collecting c env gs F pr ∨ Finished env gs pr ∨ Ready c env gs pr) →
      (Collecting c env gs F (Proc.run c env pr ws) ∨ Finished env gs (Proc.run c env pr ws) ∨
        Ready c env gs (Proc.run c env pr ws)) := by
  induction ws with
  | nil => intro pr h; exact h
  | cons w rest ih =>
    intro pr h
    show _ ∨ _ ∨ _
    rcases h with hc | hf | hr
    · rcases (deliver_collecting c env hb hex sh gs hl F pr w hc).1 with h1 | h1
      · exact ih _ (Or.inl h1)
      · exact ih _ (Or.inr (Or.inl h1))
    · exact ih _ (Or.inr (Or.inl (deliver_finished c env gs pr w hf)))
    · rcases (deliver_ready c env hex sh gs hl pr w hr).1 with h1 | h1
      · exact ih _ (Or.inr (Or.inr h1))
      · exact ih _ (Or.inr (Or.inl h1))

end Rangers.Proofs.Round
