import Rangers.Model.TxAuth
/-! Round-trip lemmas for the codecs on the way of a wrapped Ethereum transaction
(`common.ToHex`/`FromHex`, big-endian integers of `common.Sign`). Core Lean only.
The RLP part rests on C08's theorems: see `Proofs/TxAuthRlp.lean`. -/
namespace Rangers.Model.TxAuth
open Rangers

/-! ### hex -/

theorem nibbleVal_nibbleByte : ∀ n, n < 16 → nibbleVal? (nibbleByte n) = some n := by decide

theorem hexDecodePrefix_hexChars (bs : Bytes) : hexDecodePrefix (hexChars bs) = bs := by
  induction bs with
  | nil => rfl
  | cons b bs ih =>
    have h1 : b.toNat / 16 < 16 := by have := b.toNat_lt; omega
    have h2 : b.toNat % 16 < 16 := Nat.mod_lt _ (by omega)
    simp only [hexChars, hexDecodePrefix, nibbleVal_nibbleByte _ h1, nibbleVal_nibbleByte _ h2, ih]
    congr 1
    have : b.toNat / 16 * 16 + b.toNat % 16 = b.toNat := by omega
    rw [this]
    exact UInt8.ofNat_toNat

theorem hexChars_length (bs : Bytes) : (hexChars bs).length = 2 * bs.length := by
  induction bs with
  | nil => rfl
  | cons b bs ih => simp only [hexChars, List.length_cons, ih]; omega

/-- `common.FromHex(common.ToHex(b)) = b` for non-empty `b`. -/
theorem fromHex_toHex0x (b : Bytes) (hne : b ≠ []) : fromHex (toHex0x b) = b := by
  have hemp : b.isEmpty = false := by cases b <;> simp_all
  unfold toHex0x fromHex
  simp only [hemp, Bool.false_eq_true, ↓reduceIte, List.length_cons, hexChars_length]
  have h1 : 2 * b.length + 1 + 1 > 1 := by omega
  have h2 : ¬ (2 * b.length % 2 = 1) := by omega
  simp only [h1, ↓reduceIte, h2]
  exact hexDecodePrefix_hexChars b

/-! ### big-endian integers (`big.Int.Bytes` / `SetBytes`) -/

theorem go_fuel2 (f g n : Nat) (acc : Bytes) (h : n < f) (h' : n < g) :
    natToBE.go f n acc = natToBE.go g n acc := by
  induction f generalizing g n acc with
  | zero => omega
  | succ f ih =>
    cases g with
    | zero => omega
    | succ g =>
      by_cases hn : n = 0
      · subst hn; simp [natToBE.go]
      · have hlt : n / 256 < n := Nat.div_lt_self (by omega) (by omega)
        rw [natToBE.go, if_neg hn, natToBE.go, if_neg hn]
        exact ih g (n / 256) _ (by omega) (by omega)

theorem go_fuel (f n : Nat) (acc : Bytes) (h : n < f) : natToBE.go f n acc = natToBE.go (n + 1) n acc :=
  go_fuel2 f (n + 1) n acc h (Nat.lt_succ_self n)

theorem go_acc (f n : Nat) (acc : Bytes) : natToBE.go f n acc = natToBE.go f n [] ++ acc := by
  induction f generalizing n acc with
  | zero => simp [natToBE.go]
  | succ f ih =>
    by_cases hn : n = 0
    · simp [natToBE.go, hn]
    · rw [natToBE.go, if_neg hn, natToBE.go, if_neg hn, ih _ (_ :: acc), ih _ [_]]
      simp

theorem natToBE_zero : natToBE 0 = [] := by simp [natToBE, natToBE.go]

/-- the recursion equation of `natToBE` -/
theorem natToBE_pos (n : Nat) (hn : n ≠ 0) :
    natToBE n = natToBE (n / 256) ++ [UInt8.ofNat (n % 256)] := by
  have hlt : n / 256 < n := Nat.div_lt_self (by omega) (by omega)
  unfold natToBE
  rw [natToBE.go, if_neg hn, go_acc, go_fuel n (n / 256) [] hlt]

theorem beToNat_snoc (xs : Bytes) (b : UInt8) : beToNat (xs ++ [b]) = beToNat xs * 256 + b.toNat := by
  simp [beToNat, List.foldl_append]

theorem beToNat_natToBE (n : Nat) : beToNat (natToBE n) = n := by
  induction n using Nat.strongRecOn with
  | _ n ih =>
    by_cases hn : n = 0
    · subst hn; rw [natToBE_zero]; rfl
    · have hlt : n / 256 < n := Nat.div_lt_self (by omega) (by omega)
      rw [natToBE_pos n hn, beToNat_snoc, ih _ hlt, UInt8.toNat_ofNat']
      omega

theorem natToBE_length_le (k n : Nat) (h : n < 256 ^ k) : (natToBE n).length ≤ k := by
  induction k generalizing n with
  | zero =>
    have : n = 0 := by simpa using h
    subst this; simp [natToBE_zero]
  | succ k ih =>
    by_cases hn : n = 0
    · subst hn; simp [natToBE_zero]
    · rw [natToBE_pos n hn]
      have : n / 256 < 256 ^ k := by
        rw [Nat.pow_succ] at h
        exact Nat.div_lt_of_lt_mul (by rw [Nat.mul_comm]; exact h)
      have := ih _ this
      simp; omega

theorem natToBE_head_ne_zero (n : Nat) : (natToBE n).head? ≠ some 0 := by
  induction n using Nat.strongRecOn with
  | _ n ih =>
    by_cases hn : n = 0
    · subst hn; simp [natToBE_zero]
    · have hlt : n / 256 < n := Nat.div_lt_self (by omega) (by omega)
      rw [natToBE_pos n hn]
      by_cases hq : n / 256 = 0
      · rw [hq, natToBE_zero]
        simp only [List.nil_append, List.head?_cons, ne_eq, Option.some.injEq]
        intro h0
        have := congrArg UInt8.toNat h0
        rw [UInt8.toNat_ofNat'] at this
        simp at this
        omega
      · have hne : natToBE (n / 256) ≠ [] := by
          intro he
          have := beToNat_natToBE (n / 256)
          rw [he] at this
          exact hq this.symm
        have hh := ih _ hlt
        cases hq' : natToBE (n / 256) with
        | nil => exact absurd hq' hne
        | cons x xs =>
          rw [hq'] at hh
          simpa using hh

theorem natToBE_ne_nil (n : Nat) (hn : n ≠ 0) : natToBE n ≠ [] := by
  rw [natToBE_pos n hn]; simp

theorem natToBE_small (n : Nat) (h0 : n ≠ 0) (h : n < 256) : natToBE n = [UInt8.ofNat n] := by
  rw [natToBE_pos n h0]
  have : n / 256 = 0 := by omega
  rw [this, natToBE_zero, Nat.mod_eq_of_lt h]
  rfl

theorem snoc_induction {P : Bytes → Prop} (h0 : P []) (hs : ∀ xs b, P xs → P (xs ++ [b])) : ∀ l, P l := by
  intro l
  have : ∀ r : Bytes, P r.reverse := by
    intro r
    induction r with
    | nil => exact h0
    | cons a r ih => rw [List.reverse_cons]; exact hs _ _ ih
  have h := this l.reverse
  rwa [List.reverse_reverse] at h

/-- `Sign.Bytes()` after `SetBytes`: left-padding the minimal big-endian form of a
    byte string's value back to the string's length gives the string. -/
theorem padLeft_natToBE_beToNat (bs : Bytes) : padLeft bs.length (natToBE (beToNat bs)) = bs := by
  induction bs using snoc_induction with
  | h0 => simp [padLeft, beToNat, natToBE_zero]
  | hs xs b ih =>
    rw [beToNat_snoc]
    by_cases hn : beToNat xs * 256 + b.toNat = 0
    · have hx : beToNat xs = 0 := by omega
      have hb : b.toNat = 0 := by omega
      have hb' : b = 0 := by
        apply UInt8.toNat_inj.1; simpa using hb
      rw [hx, natToBE_zero] at ih
      rw [hn, natToBE_zero]
      simp only [padLeft, List.length_nil, Nat.sub_zero, List.append_nil, List.length_append,
        List.length_cons, Nat.zero_add] at ih ⊢
      rw [List.replicate_succ', ih, hb']
    · rw [natToBE_pos _ hn]
      have hb := b.toNat_lt
      have e1 : (beToNat xs * 256 + b.toNat) / 256 = beToNat xs := by omega
      have e2 : (beToNat xs * 256 + b.toNat) % 256 = b.toNat := by omega
      rw [e1, e2, UInt8.ofNat_toNat]
      simp only [padLeft, List.length_append, List.length_cons, List.length_nil, Nat.zero_add] at ih ⊢
      have : xs.length + 1 - ((natToBE (beToNat xs)).length + 1) = xs.length - (natToBE (beToNat xs)).length := by
        omega
      rw [this, ← List.append_assoc, ih]

/-- A 65-byte signature survives `BytesToSign` / `Sign.Bytes()` unchanged, so
    every bit of the wire signature is what the recovery sees. -/
theorem sign_bytes_roundtrip (b : Bytes) (sg : Sign) (h : bytesToSign b = some sg) : sg.bytes = b := by
  unfold bytesToSign at h
  by_cases hl : b.length = 65
  · simp only [hl, ↓reduceIte, Option.some.injEq] at h
    subst h
    unfold Sign.bytes
    have l1 : (b.take 32).length = 32 := by simp [hl]
    have l2 : ((b.drop 32).take 32).length = 32 := by simp [hl]
    have p1 := padLeft_natToBE_beToNat (b.take 32)
    have p2 := padLeft_natToBE_beToNat ((b.drop 32).take 32)
    rw [l1] at p1
    rw [l2] at p2
    simp only [p1, p2]
    have l3 : (b.drop 64).length = 1 := by simp [hl]
    have h3 : [(b.drop 64).headD 0] = b.drop 64 := by
      match hd : b.drop 64, l3 with
      | [x], _ => rfl
    rw [h3]
    have e : (b.drop 32).take 32 ++ b.drop 64 = b.drop 32 := by
      have : b.drop 64 = (b.drop 32).drop 32 := by rw [List.drop_drop]
      rw [this, List.take_append_drop]
    rw [List.append_assoc, e, List.take_append_drop]
  · simp [hl] at h

end Rangers.Model.TxAuth
