import Rangers.Model.TxAuth
/-! Round-trip lemmas for the codecs on the way of a wrapped Ethereum transaction
(`common.ToHex`/`FromHex`, big-endian integers, RLP of `eth_tx.txdata`). Core Lean only. -/
namespace Rangers.Model.TxAuth
open Rangers

/-! ### hex -/

theorem nibbleVal_nibbleByte : ∀ n, n < 16 → nibbleVal? (nibbleByte n) = some n := by decide

theorem hexDecodePrefix_hexChars (bs : Bytes) : hexDecodePrefix (hexChars bs) = bs := by
  induction bs with
  | nil => rfl
  | cons b bs ih =>
    have h1 : b.toNat / 16 < 16 := by have := b.toNat_lt; omega
    have h2 : b.toNat % 16 < 16 := Nat.mod_lt _ (by omega)
    simp only [hexChars, hexDecodePrefix, nibbleVal_nibbleByte _ h1, nibbleVal_nibbleByte _ h2, ih]
    congr 1
    have : b.toNat / 16 * 16 + b.toNat % 16 = b.toNat := by omega
    rw [this]
    exact UInt8.ofNat_toNat

theorem hexChars_length (bs : Bytes) : (hexChars bs).length = 2 * bs.length := by
  induction bs with
  | nil => rfl
  | cons b bs ih => simp only [hexChars, List.length_cons, ih]; omega

/-- `common.FromHex(common.ToHex(b)) = b` for non-empty `b`. -/
theorem fromHex_toHex0x (b : Bytes) (hne : b ≠ []) : fromHex (toHex0x b) = b := by
  have hemp : b.isEmpty = false := by cases b <;> simp_all
  unfold toHex0x fromHex
  simp only [hemp, Bool.false_eq_true, ↓reduceIte, List.length_cons, hexChars_length]
  have h1 : 2 * b.length + 1 + 1 > 1 := by omega
  have h2 : ¬ (2 * b.length % 2 = 1) := by omega
  simp only [h1, ↓reduceIte, h2]
  exact hexDecodePrefix_hexChars b

/-! ### big-endian integers (`big.Int.Bytes` / `SetBytes`) -/

theorem go_fuel2 (f g n : Nat) (acc : Bytes) (h : n < f) (h' : n < g) :
    natToBE.go f n acc = natToBE.go g n acc := by
  induction f generalizing g n acc with
  | zero => omega
  | succ f ih =>
    cases g with
    | zero => omega
    | succ g =>
      by_cases hn : n = 0
      · subst hn; simp [natToBE.go]
      · have hlt : n / 256 < n := Nat.div_lt_self (by omega) (by omega)
        rw [natToBE.go, if_neg hn, natToBE.go, if_neg hn]
        exact ih g (n / 256) _ (by omega) (by omega)

theorem go_fuel (f n : Nat) (acc : Bytes) (h : n < f) : natToBE.go f n acc = natToBE.go (n + 1) n acc :=
  go_fuel2 f (n + 1) n acc h (Nat.lt_succ_self n)

theorem go_acc (f n : Nat) (acc : Bytes) : natToBE.go f n acc = natToBE.go f n [] ++ acc := by
  induction f generalizing n acc with
  | zero => simp [natToBE.go]
  | succ f ih =>
    by_cases hn : n = 0
    · simp [natToBE.go, hn]
    · rw [natToBE.go, if_neg hn, natToBE.go, if_neg hn, ih _ (_ :: acc), ih _ [_]]
      simp

theorem natToBE_zero : natToBE 0 = [] := by simp [natToBE, natToBE.go]

/-- the recursion equation of `natToBE` -/
theorem natToBE_pos (n : Nat) (hn : n ≠ 0) :
    natToBE n = natToBE (n / 256) ++ [UInt8.ofNat (n % 256)] := by
  have hlt : n / 256 < n := Nat.div_lt_self (by omega) (by omega)
  unfold natToBE
  rw [natToBE.go, if_neg hn, go_acc, go_fuel n (n / 256) [] hlt]

theorem beToNat_snoc (xs : Bytes) (b : UInt8) : beToNat (xs ++ [b]) = beToNat xs * 256 + b.toNat := by
  simp [beToNat, List.foldl_append]

theorem beToNat_natToBE (n : Nat) : beToNat (natToBE n) = n := by
  induction n using Nat.strongRecOn with
  | _ n ih =>
    by_cases hn : n = 0
    · subst hn; rw [natToBE_zero]; rfl
    · have hlt : n / 256 < n := Nat.div_lt_self (by omega) (by omega)
      rw [natToBE_pos n hn, beToNat_snoc, ih _ hlt, UInt8.toNat_ofNat']
      omega

theorem natToBE_length_le (k n : Nat) (h : n < 256 ^ k) : (natToBE n).length ≤ k := by
  induction k generalizing n with
  | zero =>
    have : n = 0 := by simpa using h
    subst this; simp [natToBE_zero]
  | succ k ih =>
    by_cases hn : n = 0
    · subst hn; simp [natToBE_zero]
    · rw [natToBE_pos n hn]
      have : n / 256 < 256 ^ k := by
        rw [Nat.pow_succ] at h
        exact Nat.div_lt_of_lt_mul (by rw [Nat.mul_comm]; exact h)
      have := ih _ this
      simp; omega

theorem natToBE_head_ne_zero (n : Nat) : (natToBE n).head? ≠ some 0 := by
  induction n using Nat.strongRecOn with
  | _ n ih =>
    by_cases hn : n = 0
    · subst hn; simp [natToBE_zero]
    · have hlt : n / 256 < n := Nat.div_lt_self (by omega) (by omega)
      rw [natToBE_pos n hn]
      by_cases hq : n / 256 = 0
      · rw [hq, natToBE_zero]
        simp only [List.nil_append, List.head?_cons, ne_eq, Option.some.injEq]
        intro h0
        have := congrArg UInt8.toNat h0
        rw [UInt8.toNat_ofNat'] at this
        simp at this
        omega
      · have hne : natToBE (n / 256) ≠ [] := by
          intro he
          have := beToNat_natToBE (n / 256)
          rw [he] at this
          exact hq this.symm
        have hh := ih _ hlt
        cases hq' : natToBE (n / 256) with
        | nil => exact absurd hq' hne
        | cons x xs =>
          rw [hq'] at hh
          simpa using hh

theorem natToBE_ne_nil (n : Nat) (hn : n ≠ 0) : natToBE n ≠ [] := by
  rw [natToBE_pos n hn]; simp

theorem natToBE_small (n : Nat) (h0 : n ≠ 0) (h : n < 256) : natToBE n = [UInt8.ofNat n] := by
  rw [natToBE_pos n h0]
  have : n / 256 = 0 := by omega
  rw [this, natToBE_zero, Nat.mod_eq_of_lt h]
  rfl

theorem snoc_induction {P : Bytes → Prop} (h0 : P []) (hs : ∀ xs b, P xs → P (xs ++ [b])) : ∀ l, P l := by
  intro l
  have : ∀ r : Bytes, P r.reverse := by
    intro r
    induction r with
    | nil => exact h0
    | cons a r ih => rw [List.reverse_cons]; exact hs _ _ ih
  have h := this l.reverse
  rwa [List.reverse_reverse] at h

/-- `Sign.Bytes()` after `SetBytes`: left-padding the minimal big-endian form of a
    byte string's value back to the string's length gives the string. -/
theorem padLeft_natToBE_beToNat (bs : Bytes) : padLeft bs.length (natToBE (beToNat bs)) = bs := by
  induction bs using snoc_induction with
  | h0 => simp [padLeft, beToNat, natToBE_zero]
  | hs xs b ih =>
    rw [beToNat_snoc]
    by_cases hn : beToNat xs * 256 + b.toNat = 0
    · have hx : beToNat xs = 0 := by omega
      have hb : b.toNat = 0 := by omega
      have hb' : b = 0 := by
        apply UInt8.toNat_inj.1; simpa using hb
      rw [hx, natToBE_zero] at ih
      rw [hn, natToBE_zero]
      simp only [padLeft, List.length_nil, Nat.sub_zero, List.append_nil, List.length_append,
        List.length_cons, Nat.zero_add] at ih ⊢
      rw [List.replicate_succ', ih, hb']
    · rw [natToBE_pos _ hn]
      have hb := b.toNat_lt
      have e1 : (beToNat xs * 256 + b.toNat) / 256 = beToNat xs := by omega
      have e2 : (beToNat xs * 256 + b.toNat) % 256 = b.toNat := by omega
      rw [e1, e2, UInt8.ofNat_toNat]
      simp only [padLeft, List.length_append, List.length_cons, List.length_nil, Nat.zero_add] at ih ⊢
      have : xs.length + 1 - ((natToBE (beToNat xs)).length + 1) = xs.length - (natToBE (beToNat xs)).length := by
        omega
      rw [this, ← List.append_assoc, ih]

/-- A 65-byte signature survives `BytesToSign` / `Sign.Bytes()` unchanged, so
    every bit of the wire signature is what the recovery sees. -/
theorem sign_bytes_roundtrip (b : Bytes) (sg : Sign) (h : bytesToSign b = some sg) : sg.bytes = b := by
  unfold bytesToSign at h
  by_cases hl : b.length = 65
  · simp only [hl, ↓reduceIte, Option.some.injEq] at h
    subst h
    unfold Sign.bytes
    have l1 : (b.take 32).length = 32 := by simp [hl]
    have l2 : ((b.drop 32).take 32).length = 32 := by simp [hl]
    have p1 := padLeft_natToBE_beToNat (b.take 32)
    have p2 := padLeft_natToBE_beToNat ((b.drop 32).take 32)
    rw [l1] at p1
    rw [l2] at p2
    simp only [p1, p2]
    have l3 : (b.drop 64).length = 1 := by simp [hl]
    have h3 : [(b.drop 64).headD 0] = b.drop 64 := by
      match hd : b.drop 64, l3 with
      | [x], _ => rfl
    rw [h3]
    have e : (b.drop 32).take 32 ++ b.drop 64 = b.drop 32 := by
      have : b.drop 64 = (b.drop 32).drop 32 := by rw [List.drop_drop]
      rw [this, List.take_append_drop]
    rw [List.append_assoc, e, List.take_append_drop]
  · simp [hl] at h

/-! ### RLP of the payload struct -/

theorem u8_toNat (n : Nat) (h : n < 256) : (UInt8.ofNat n).toNat = n := by
  rw [UInt8.toNat_ofNat']; omega

theorem readKind_byte (b : UInt8) (rest : Bytes) (h : b.toNat < 128) :
    readKind (b :: rest) = some (.byte b, rest) := by
  simp [readKind, UInt8.lt_iff_toNat_lt, h]

theorem readKind_strS (b : UInt8) (rest : Bytes) (h1 : 128 ≤ b.toNat) (h2 : b.toNat < 184) :
    readKind (b :: rest) = some (.str (b.toNat - 128), rest) := by
  have : ¬ b.toNat < 128 := by omega
  simp [readKind, UInt8.lt_iff_toNat_lt, this, h2]

theorem readKind_strL (b : UInt8) (rest r : Bytes) (sz : Nat) (h1 : 184 ≤ b.toNat) (h2 : b.toNat < 192)
    (hrs : readSizeBE (b.toNat - 183) rest = some (sz, r)) (hsz : ¬ sz < 56) :
    readKind (b :: rest) = some (.str sz, r) := by
  have a1 : ¬ b.toNat < 128 := by omega
  have a2 : ¬ b.toNat < 184 := by omega
  simp [readKind, UInt8.lt_iff_toNat_lt, a1, a2, h2, hrs, hsz]

theorem readKind_listS (b : UInt8) (rest : Bytes) (h1 : 192 ≤ b.toNat) (h2 : b.toNat < 248) :
    readKind (b :: rest) = some (.list (b.toNat - 192), rest) := by
  have a1 : ¬ b.toNat < 128 := by omega
  have a2 : ¬ b.toNat < 184 := by omega
  have a3 : ¬ b.toNat < 192 := by omega
  simp [readKind, UInt8.lt_iff_toNat_lt, a1, a2, a3, h2]

theorem readKind_listL (b : UInt8) (rest r : Bytes) (sz : Nat) (h1 : 248 ≤ b.toNat)
    (hrs : readSizeBE (b.toNat - 247) rest = some (sz, r)) (hsz : ¬ sz < 56) :
    readKind (b :: rest) = some (.list sz, r) := by
  have a1 : ¬ b.toNat < 128 := by omega
  have a2 : ¬ b.toNat < 184 := by omega
  have a3 : ¬ b.toNat < 192 := by omega
  have a4 : ¬ b.toNat < 248 := by omega
  simp [readKind, UInt8.lt_iff_toNat_lt, a1, a2, a3, a4, hrs, hsz]

theorem encTo_none : encTo none = [0x80] := rfl
theorem encTo_some (a : Bytes) : encTo (some a) = encBytes a := rfl

theorem encBytes_nil : encBytes [] = rlpHeader 0x80 0 := by simp [encBytes]
theorem encBytes_one (b : UInt8) : encBytes [b] = if b < 128 then [b] else rlpHeader 0x80 1 ++ [b] := rfl
theorem encBytes_two (b1 b2 : UInt8) (t : Bytes) :
    encBytes (b1 :: b2 :: t) = rlpHeader 0x80 (b1 :: b2 :: t).length ++ (b1 :: b2 :: t) := rfl

theorem readSizeBE_natToBE (len : Nat) (rest : Bytes) (h0 : len ≠ 0) :
    readSizeBE (natToBE len).length (natToBE len ++ rest) = some (len, rest) := by
  have hne := natToBE_ne_nil len h0
  have hpos : (natToBE len).length ≠ 0 := by
    intro h; exact hne (List.length_eq_zero_iff.1 h)
  unfold readSizeBE
  simp only [hpos, ↓reduceIte, List.length_append, List.take_left', List.drop_left']
  have h1 : ¬ ((natToBE len).length + rest.length < (natToBE len).length) := by omega
  simp only [h1, ↓reduceIte, natToBE_head_ne_zero, and_false, beToNat_natToBE]

theorem readKind_header_str (len : Nat) (rest : Bytes) (hlen : len < 2 ^ 64) :
    readKind (rlpHeader 0x80 len ++ rest) = some (.str len, rest) := by
  unfold rlpHeader
  by_cases h : len < 56
  · simp only [h, ↓reduceIte, List.singleton_append]
    have hb : (UInt8.ofNat (128 + len)).toNat = 128 + len := u8_toNat _ (by omega)
    rw [readKind_strS _ _ (by omega) (by omega), hb]
    simp
  · have h0 : len ≠ 0 := by omega
    have hl8 : (natToBE len).length ≤ 8 := natToBE_length_le 8 len (by simpa using hlen)
    have hl1 : (natToBE len).length ≠ 0 := by
      intro hh; exact natToBE_ne_nil len h0 (List.length_eq_zero_iff.1 hh)
    simp only [h, ↓reduceIte, List.cons_append]
    have hb : (UInt8.ofNat (128 + 55 + (natToBE len).length)).toNat = 128 + 55 + (natToBE len).length :=
      u8_toNat _ (by omega)
    have e : 128 + 55 + (natToBE len).length - 183 = (natToBE len).length := by omega
    exact readKind_strL _ _ rest len (by omega) (by omega) (by rw [hb, e]; exact readSizeBE_natToBE len rest h0) h

theorem readKind_header_list (len : Nat) (rest : Bytes) (hlen : len < 2 ^ 64) :
    readKind (rlpHeader 0xC0 len ++ rest) = some (.list len, rest) := by
  unfold rlpHeader
  by_cases h : len < 56
  · simp only [h, ↓reduceIte, List.singleton_append]
    have hb : (UInt8.ofNat (192 + len)).toNat = 192 + len := u8_toNat _ (by omega)
    rw [readKind_listS _ _ (by omega) (by omega), hb]
    simp
  · have h0 : len ≠ 0 := by omega
    have hl8 : (natToBE len).length ≤ 8 := natToBE_length_le 8 len (by simpa using hlen)
    have hl1 : (natToBE len).length ≠ 0 := by
      intro hh; exact natToBE_ne_nil len h0 (List.length_eq_zero_iff.1 hh)
    simp only [h, ↓reduceIte, List.cons_append]
    have hb : (UInt8.ofNat (192 + 55 + (natToBE len).length)).toNat = 192 + 55 + (natToBE len).length :=
      u8_toNat _ (by omega)
    have e : 192 + 55 + (natToBE len).length - 247 = (natToBE len).length := by omega
    exact readKind_listL _ _ rest len (by omega) (by rw [hb, e]; exact readSizeBE_natToBE len rest h0) h

theorem decBytes_encBytes (bs rest : Bytes) (h : bs.length < 2 ^ 64) :
    decBytes (encBytes bs ++ rest) = some (bs, rest) := by
  match bs, h with
  | [], _ =>
    unfold decBytes
    rw [encBytes_nil, readKind_header_str 0 _ (by omega)]
    simp
  | [b], _ =>
    unfold decBytes
    rw [encBytes_one]
    by_cases hb : b < 128
    · have hb' : b.toNat < 128 := by simpa using UInt8.lt_iff_toNat_lt.1 hb
      simp only [hb, ↓reduceIte, List.singleton_append]
      rw [readKind_byte _ _ hb']
    · simp only [hb, ↓reduceIte, List.append_assoc]
      rw [readKind_header_str 1 _ (by omega)]
      simp [headLt128, hb]
  | b1 :: b2 :: t, h =>
    unfold decBytes
    rw [encBytes_two]
    simp only [List.append_assoc]
    rw [readKind_header_str _ _ h]
    have hl : ¬ ((b1 :: b2 :: t ++ rest).length < (b1 :: b2 :: t).length) := by simp
    have h1 : ¬ ((b1 :: b2 :: t).length = 1) := by simp
    simp only [hl, ↓reduceIte, h1, false_and, List.take_left', List.drop_left']

theorem decBig_encNat (n : Nat) (rest : Bytes) (h : n < 2 ^ 256) :
    decBig (encNat n ++ rest) = some (n, rest) := by
  have hl : (natToBE n).length ≤ 32 := natToBE_length_le 32 n (by simpa using h)
  unfold decBig encNat
  rw [decBytes_encBytes _ _ (by omega)]
  simp only [natToBE_head_ne_zero, ↓reduceIte, beToNat_natToBE]

theorem decU64_encNat (n : Nat) (rest : Bytes) (h : n < 2 ^ 64) :
    decU64 (encNat n ++ rest) = some (n, rest) := by
  unfold decU64 encNat
  by_cases h0 : n = 0
  · subst h0
    rw [natToBE_zero, encBytes_nil, readKind_header_str 0 _ (by omega)]
    simp [beToNat]
  · by_cases hs : n < 128
    · rw [natToBE_small n h0 (by omega)]
      have hb : (UInt8.ofNat n).toNat = n := u8_toNat _ (by omega)
      have hlt : UInt8.ofNat n < 128 := by
        apply UInt8.lt_iff_toNat_lt.2; rw [hb]; simpa using hs
      rw [encBytes_one]
      simp only [hlt, ↓reduceIte, List.singleton_append]
      rw [readKind_byte _ _ (by rw [hb]; exact hs)]
      have hne : UInt8.ofNat n ≠ 0 := by
        intro he; have := congrArg UInt8.toNat he; rw [hb] at this; simp at this; exact h0 this
      simp [hb, hne]
    · have hl8 : (natToBE n).length ≤ 8 := natToBE_length_le 8 n (by simpa using h)
      have hdec := decBytes_encBytes (natToBE n) rest (by omega)
      -- unfold what decBytes saw to reuse the header lemma
      cases hq : natToBE n with
      | nil => exact absurd hq (natToBE_ne_nil n h0)
      | cons b t =>
        have hhead : (natToBE n).head? ≠ some 0 := natToBE_head_ne_zero n
        have hval : beToNat (natToBE n) = n := beToNat_natToBE n
        rw [hq] at hhead hval hl8
        cases t with
        | nil =>
          -- single byte ≥ 128
          have hbn : b.toNat = n := by simpa [beToNat] using hval
          have hb : ¬ (b < 128) := by
            intro hb; have := UInt8.lt_iff_toNat_lt.1 hb; simp at this; omega
          rw [encBytes_one]
          simp only [hb, ↓reduceIte, List.append_assoc]
          rw [readKind_header_str 1 _ (by omega)]
          have hb0 : ¬ (b = 0) := by intro he; rw [he] at hbn; simp at hbn; omega
          simp [beToNat, hbn, hb0, hs]
        | cons b2 t2 =>
          rw [encBytes_two]
          simp only [List.append_assoc]
          rw [readKind_header_str _ _ (by have := hl8; simp only [List.length_cons] at this ⊢; omega)]
          have hl : ¬ ((b :: b2 :: t2 ++ rest).length < (b :: b2 :: t2).length) := by simp
          have h8 : ¬ ((b :: b2 :: t2).length > 8) := by omega
          have hb0 : ¬ (b = 0) := by simpa using hhead
          simp only [h8, hl, ↓reduceIte, List.take_left', List.drop_left', List.head?_cons,
            Option.some.injEq, hb0, hval]
          have : ¬ ((b :: b2 :: t2).length > 0 ∧ n < 128) := by omega
          simp only [this, ↓reduceIte]

theorem decOptAddr_encTo (to : Option Bytes) (rest : Bytes) (h : ∀ a, to = some a → a.length = 20) :
    decOptAddr (encTo to ++ rest) = some (to, rest) := by
  cases to with
  | none =>
    unfold decOptAddr
    rw [encTo_none]
    have := readKind_header_str 0 rest (by omega)
    simp only [rlpHeader] at this
    simp at this
    simp [this]
  | some a =>
    have hl := h a rfl
    unfold decOptAddr
    rw [encTo_some]
    match a, hl with
    | b1 :: b2 :: t, hl =>
      rw [encBytes_two]
      simp only [List.append_assoc]
      rw [readKind_header_str _ _ (by rw [hl]; omega)]
      rw [hl]
      have hl' : ¬ ((b1 :: b2 :: t ++ rest).length < 20) := by simp at hl ⊢; omega
      simp only [ne_eq, not_true_eq_false, ↓reduceIte, hl']
      have e1 : (b1 :: b2 :: t ++ rest).take 20 = b1 :: b2 :: t := by rw [← hl]; exact List.take_left' rfl
      have e2 : (b1 :: b2 :: t ++ rest).drop 20 = rest := by rw [← hl]; exact List.drop_left' rfl
      rw [e1, e2]

/-- what a payload produced by an Ethereum wallet satisfies: 64-bit nonce and gas,
    20-byte recipient (or none), 256-bit integers, sizes below 2^64 -/
structure WfEthTx (e : EthTx) : Prop where
  nonce : e.nonce < 2 ^ 64
  gas : e.gas < 2 ^ 64
  to : ∀ a, e.to = some a → a.length = 20
  data : e.data.length < 2 ^ 64
  price : e.price < 2 ^ 256
  value : e.value < 2 ^ 256
  v : e.v < 2 ^ 256
  r : e.r < 2 ^ 256
  s : e.s < 2 ^ 256
  size : (coreFields e ++ encNat e.v ++ encNat e.r ++ encNat e.s).length < 2 ^ 64

theorem decFields_payload (e : EthTx) (wf : WfEthTx e) :
    decFields (coreFields e ++ encNat e.v ++ encNat e.r ++ encNat e.s) = some e := by
  have hp : coreFields e ++ encNat e.v ++ encNat e.r ++ encNat e.s =
      encNat e.nonce ++ (encNat e.price ++ (encNat e.gas ++ (encTo e.to ++ (encNat e.value ++
        (encBytes e.data ++ (encNat e.v ++ (encNat e.r ++ (encNat e.s ++ [])))))))) := by
    simp [coreFields]
  rw [hp]
  unfold decFields
  rw [decU64_encNat _ _ wf.nonce]; dsimp only
  rw [decBig_encNat _ _ wf.price]; dsimp only
  rw [decU64_encNat _ _ wf.gas]; dsimp only
  rw [decOptAddr_encTo _ _ wf.to]; dsimp only
  rw [decBig_encNat _ _ wf.value]; dsimp only
  rw [decBytes_encBytes _ _ wf.data]; dsimp only
  rw [decBig_encNat _ _ wf.v]; dsimp only
  rw [decBig_encNat _ _ wf.r]; dsimp only
  rw [decBig_encNat _ _ wf.s]; dsimp only
  simp

/-- `rlp.DecodeBytes(rlp.EncodeToBytes(tx))` gives `tx` back. -/
theorem decodeTx_encodeTx (e : EthTx) (wf : WfEthTx e) : decodeTx (encodeTx e) = some e := by
  unfold decodeTx encodeTx encList
  rw [readKind_header_list _ _ wf.size]
  simp only [↓reduceIte]
  exact decFields_payload e wf

theorem encodeTx_ne_nil (e : EthTx) : encodeTx e ≠ [] := by
  unfold encodeTx encList rlpHeader
  split <;> simp

end Rangers.Model.TxAuth
