import Rangers.Model.TxAuth
/-! Helper lemmas for C07 (core Lean only). -/
namespace Rangers.Model.TxAuth
open Rangers

theorem digitByte_toNat (d : Nat) (h : d < 10) : (digitByte d).toNat = 48 + d := by
  unfold digitByte
  rw [UInt8.toNat_ofNat']
  omega

theorem valRev_decRev (fuel n : Nat) (h : n < fuel) : valRev (decRev fuel n) = n := by
  induction fuel generalizing n with
  | zero => omega
  | succ f ih =>
    unfold decRev
    by_cases h10 : n < 10
    · simp [h10, valRev, digitByte_toNat n h10]
    · simp only [h10, ↓reduceIte, valRev]
      rw [digitByte_toNat _ (Nat.mod_lt _ (by omega)), ih (n / 10) (by omega)]
      omega

theorem decRev_digits (fuel n : Nat) : ∀ b ∈ decRev fuel n, 48 ≤ b.toNat ∧ b.toNat ≤ 57 := by
  induction fuel generalizing n with
  | zero => intro b hb; simp [decRev] at hb
  | succ f ih =>
    intro b hb
    unfold decRev at hb
    by_cases h10 : n < 10
    · simp only [h10, ↓reduceIte, List.mem_singleton] at hb
      rw [hb, digitByte_toNat n h10]; omega
    · simp only [h10, ↓reduceIte, List.mem_cons] at hb
      rcases hb with hb | hb
      · rw [hb, digitByte_toNat _ (Nat.mod_lt _ (by omega))]
        have := Nat.mod_lt n (show 10 > 0 by omega)
        omega
      · exact ih _ b hb

theorem decimal_digits (n : Nat) : ∀ b ∈ decimal n, 48 ≤ b.toNat ∧ b.toNat ≤ 57 := by
  intro b hb
  unfold decimal at hb
  exact decRev_digits _ _ b (List.mem_reverse.1 hb)

/-- `strconv.FormatUint` is injective. -/
theorem decimal_injective {a b : Nat} (h : decimal a = decimal b) : a = b := by
  unfold decimal at h
  have h' := List.reverse_inj.1 h
  have := congrArg valRev h'
  rwa [valRev_decRev _ _ (Nat.lt_succ_self a), valRev_decRev _ _ (Nat.lt_succ_self b)] at this

/-- `strconv.Itoa` is injective. -/
theorem decimalInt_injective {i j : Int} (h : decimalInt i = decimalInt j) : i = j := by
  unfold decimalInt at h
  by_cases hi : i < 0 <;> by_cases hj : j < 0 <;> simp only [hi, hj, ↓reduceIte] at h
  · have := decimal_injective (List.cons.inj h).2
    omega
  · have hm : (45 : UInt8) ∈ decimal j.natAbs := by rw [← h]; exact List.mem_cons_self ..
    have := decimal_digits _ _ hm
    simp at this
  · have hm : (45 : UInt8) ∈ decimal i.natAbs := by rw [h]; exact List.mem_cons_self ..
    have := decimal_digits _ _ hm
    simp at this
  · have := decimal_injective h
    omega

/-! ### signature bytes -/

def Sign.body (sg : Sign) : Bytes := padLeft 32 (natToBE sg.r) ++ padLeft 32 (natToBE sg.s)

theorem Sign.bytes_eq (sg : Sign) : sg.bytes = sg.body ++ [sg.recid] := rfl

theorem uint8_alias_facts (v : UInt8) (h1 : 27 ≤ v) (h2 : v ≤ 30) :
    (v > 26) ∧ ¬ (v - 27 > 26) ∧ ¬ (v - 27 ≥ 4) := by
  have h1' : 27 ≤ v.toNat := by simpa using UInt8.le_iff_toNat_le.1 h1
  have h2' : v.toNat ≤ 30 := by simpa using UInt8.le_iff_toNat_le.1 h2
  have hs : (v - 27).toNat = v.toNat - 27 := by
    rw [UInt8.toNat_sub_of_le _ _ h1]; rfl
  refine ⟨?_, ?_, ?_⟩
  · apply UInt8.lt_iff_toNat_lt.2; simp; omega
  · intro h; have := UInt8.lt_iff_toNat_lt.1 h; simp [hs] at this; omega
  · intro h; have := UInt8.le_iff_toNat_le.1 h; simp [hs] at this; omega

theorem recoverPubkey_snoc (cr : Crypto) (msg body : Bytes) (v : UInt8) (hb : body.length = 64) :
    recoverPubkey cr msg (body ++ [v]) =
      if msg.length ≠ 32 then none
      else if (if v > 26 then v - 27 else v) ≥ 4 then none
      else libRecover cr msg (body ++ [if v > 26 then v - 27 else v]) := by
  unfold recoverPubkey
  have hl : (body ++ [v]).length = 65 := by simp [hb]
  have hd : (body ++ [v]).drop 64 = [v] := by rw [← hb]; exact List.drop_left' rfl
  have ht : (body ++ [v]).take 64 = body := by rw [← hb]; exact List.take_left' rfl
  simp only [hl, ne_eq, not_true_eq_false, ↓reduceIte, hd, List.headD_cons, ht]

theorem recoverPubkey_len (cr : Crypto) (msg sig pk : Bytes) (h : recoverPubkey cr msg sig = some pk) :
    sig.length = 65 := by
  unfold recoverPubkey at h
  by_cases h1 : msg.length = 32 <;> by_cases h2 : sig.length = 65 <;> simp_all

/-- the two spellings of a recovery id recover the same key -/
theorem recoverPubkey_alias (cr : Crypto) (msg body : Bytes) (v : UInt8) (hb : body.length = 64)
    (h1 : 27 ≤ v) (h2 : v ≤ 30) :
    recoverPubkey cr msg (body ++ [v - 27]) = recoverPubkey cr msg (body ++ [v]) := by
  obtain ⟨a, b, c⟩ := uint8_alias_facts v h1 h2
  rw [recoverPubkey_snoc _ _ _ _ hb, recoverPubkey_snoc _ _ _ _ hb]
  simp only [a, b, c, ↓reduceIte]

end Rangers.Model.TxAuth
