import Rangers.Proofs.MinerRun3
/-! C20: the per-miner ledger — what every step does to the stake recorded for one (registry, id). -/
namespace Rangers.Miner

/-- The id a transaction works on. -/
def txTarget : Tx → Bytes
  | .apply _ id .. => id
  | .add _ id _ => id
  | .refund _ id _ => id
  | .chacc _ id _ => id
  | .bad .. => []

/-- The registry an accepted transaction writes to. -/
def txDb (cfg : Cfg) (st : State) : Tx → DbId
  | .apply _ _ typ .. => dbOfType typ
  | .add _ id _ => match getMiner cfg st id with | some m => dbOfType m.typ | none => .zero
  | .refund _ id _ => match getMiner cfg st id with | some m => dbOfType m.typ | none => .zero
  | .chacc _ id _ => match getMiner cfg st id with | some m => dbOfType m.typ | none => .zero
  | .bad .. => .zero

theorem execute_ok_onlyKeys (cfg : Cfg) (st1 : State) (tx : Tx) (hr : RecKeyed cfg st1) (hex : (execute cfg st1 tx).1 = "ok") :
    OnlyKeys cfg st1 (execute cfg st1 tx).2 (txDb cfg st1 tx) (txTarget tx) := by
  cases tx with
  | apply src id typ stake acct pk vrf =>
    simp only [execute, txDb, txTarget] at hex ⊢
    obtain ⟨_, _, heq⟩ := execApply_ok cfg st1 src id typ stake acct pk vrf hex
    rw [heq] at hex ⊢
    rw [(addMiner_ok cfg st1 _ _ _ _ hex).1]
    exact onlyKeys_updateMiner cfg _ st1
      { id := id, typ := typ, stake := stake, status := statusNormal, applyHeight := st1.height + heightAfterStake,
        account := if isEmptySlice acct then src else acct } _ (onlyKeys_refl cfg st1 _ _ _ rfl)
  | add src id delta =>
    simp only [execute, txDb, txTarget] at hex ⊢
    obtain ⟨_, heq⟩ := execAdd_ok cfg st1 src id delta hex
    rw [heq] at hex ⊢
    by_cases hd : delta = 0
    · subst hd
      have : addStake cfg st1 (toAddr src) id 0 = ("ok", st1) := by simp [addStake]
      rw [this]; exact onlyKeys_refl cfg st1 st1 _ _ rfl
    · obtain ⟨m, hm, hap, _⟩ := addStake_ok cfg st1 _ id delta hd hex
      obtain ⟨_, _, _, hmid, _⟩ := getMiner_some cfg st1 id m hr hm
      rw [hap, hm]
      subst hmid
      exact onlyKeys_updateMiner cfg _ st1
        { m with stake := (m.stake + delta) % 2 ^ 64,
                 status := if reactivates m.typ ((m.stake + delta) % 2 ^ 64) then statusNormal else m.status } none
        (onlyKeys_refl cfg st1 _ _ _ rfl)
  | refund src id amount =>
    simp only [execute, txDb, txTarget] at hex ⊢
    obtain ⟨m, hm, _, _, hap⟩ := execRefund_ok cfg st1 src id amount hex
    obtain ⟨_, _, _, hmid, _⟩ := getMiner_some cfg st1 id m hr hm
    rw [hap, hm]
    subst hmid
    have hcore : OnlyKeys cfg st1 (refundCore cfg st1 m.id src m (refundMoney m amount)) (dbOfType m.typ) m.id := by
      unfold refundCore
      split
      · exact onlyKeys_removeMiner cfg st1 st1 _ _ _ _ (onlyKeys_refl cfg st1 st1 _ _ rfl)
      · exact onlyKeys_updateMiner cfg st1 st1 { m with stake := m.stake - refundMoney m amount } none (onlyKeys_refl cfg st1 st1 _ _ rfl)
    exact hcore
  | chacc src id na =>
    simp only [execute, txDb, txTarget] at hex ⊢
    obtain ⟨m, hm, _, _, _, hap⟩ := execChacc_ok cfg st1 src id na hex
    obtain ⟨_, _, _, hmid, _⟩ := getMiner_some cfg st1 id m hr hm
    rw [hap, hm]
    subst hmid
    exact onlyKeys_updateMiner cfg st1 st1 { m with account := na } none (onlyKeys_refl cfg st1 st1 _ _ rfl)
  | bad k src => cases k <;> simp [execute] at hex

/-- Any step leaves the stake of every (registry, id) other than the target's alone. -/
theorem stakeAt_runTx_frame (cfg : Cfg) (U : List Bytes) (st : State) (tx : Tx) (hs : SepU cfg U) (hr : RecKeyed cfg st)
    (ht : txTarget tx ∈ U) (d : DbId) (j : Bytes) (hj : j ∈ U) (hne : ¬ (d = txDb cfg st tx ∧ j = txTarget tx)) :
    stakeAt cfg (runTx cfg st tx).2 d j = stakeAt cfg st d j := by
  by_cases hres : (runTx cfg st tx).1 = "ok"
  · obtain ⟨st1, hfee, hex, hst⟩ := runTx_ok cfg st tx hres
    have hl := (processFee_live st st1 _ hfee).1
    have hr1 : RecKeyed cfg st1 := (recKeyed_congr cfg st st1 hl).mpr hr
    have hk := execute_ok_onlyKeys cfg st1 tx hr1 hex
    have hdb : txDb cfg st1 tx = txDb cfg st tx := by
      cases tx <;> simp only [txDb, getMiner_congr cfg st st1 hl]
    rw [hst, ← stakeAt_of_live cfg st st1 hl]
    apply stakeAt_frame cfg st1 _ _ d _ j hk
    rw [hdb]
    by_cases hd : d = txDb cfg st tx
    · right
      have hji : j ≠ txTarget tx := fun e => hne ⟨hd, e⟩
      exact sep_keys_disjoint cfg U hs (txTarget tx) j ht hj hji _ (by simp [keysOf])
    · exact Or.inl hd
  · exact stakeAt_of_live cfg st _ (runTx_not_ok_live cfg st tx hres) d j

theorem stakeTotal_genesis (cfg : Cfg) (U : List Bytes) (h : Nat) (bal : List (Bytes × Nat)) :
    stakeTotal cfg { State.empty h with bal := bal } U = 0 := by
  have hz : ∀ d j, stakeAt cfg { State.empty h with bal := bal } d j = 0 := by
    intro d j; simp [stakeAt, State.empty, Store.get, u64]
  have hsum : ∀ d, (U.map (stakeAt cfg { State.empty h with bal := bal } d)).sum = 0 := by
    intro d
    induction U with
    | nil => rfl
    | cons a U ih => simp only [List.map_cons, List.sum_cons, hz, ih]
  unfold stakeTotal
  rw [hsum, hsum, hsum]

end Rangers.Miner
