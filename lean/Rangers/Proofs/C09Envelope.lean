import Rangers.Model.WireEnvelope
import Rangers.Proofs.C09Conv
/-! Lemmas about the protobuf-go reader, the envelope and the frame header (C09). Core Lean only. -/
namespace Rangers.Wire
open Rangers Rangers.Json

/-- A raw field protobuf-go can both write and read: field number 1 … 2^29−1. -/
def RawWF2 : Raw → Prop
  | .vint num v => 1 ≤ num ∧ num ≤ 536870911 ∧ v < 2 ^ 64
  | .len num b => 1 ≤ num ∧ num ≤ 536870911 ∧ b.length < 2 ^ 64
  | .other _ _ => False

def RawsWF2 (rs : List Raw) : Prop := ∀ r ∈ rs, RawWF2 r

theorem RawWF_of_RawWF2 (r : Raw) (h : RawWF2 r) : RawWF r := by
  cases r with
  | vint n v => obtain ⟨a, b, c⟩ := h; exact ⟨a, by omega, c⟩
  | len n b => obtain ⟨a, b', c⟩ := h; exact ⟨a, by omega, c⟩
  | other _ _ => exact absurd h (by simp [RawWF2])

theorem rawStepV2_enc (r : Raw) (rest : Bytes) (h : RawWF2 r) :
    rawStepV2 (encRaw r ++ rest) = some (r, rest) := by
  cases r with
  | vint num v =>
    obtain ⟨h1, h2, h3⟩ := h
    have e1 := getVarint_enc (num * 8) (encVarint v ++ rest) (by omega)
    have e2 := getVarint_enc v rest h3
    have hd : num * 8 / 8 = num := by omega
    have hm : num * 8 % 8 = 0 := by omega
    have hz : ¬ (num = 0 ∨ num > 536870911) := by omega
    simp only [encRaw, List.append_assoc, rawStepV2, e1, hd, hm, hz, if_false, e2]
  | len num b =>
    obtain ⟨h1, h2, h3⟩ := h
    have e1 := getVarint_enc (num * 8 + 2) (encVarint b.length ++ (b ++ rest)) (by omega)
    have e2 := getVarint_enc b.length (b ++ rest) h3
    have hd : (num * 8 + 2) / 8 = num := by omega
    have hm : (num * 8 + 2) % 8 = 2 := by omega
    have hz : ¬ (num = 0 ∨ num > 536870911) := by omega
    have hl : ¬ ((b ++ rest).length < b.length) := by simp
    simp only [encRaw, List.append_assoc, rawStepV2, e1, hd, hm, hz, if_false, e2, hl,
      List.take_left', List.drop_left']
  | other _ _ => exact absurd h (by simp [RawWF2])

theorem rawFieldsV2_enc (rs : List Raw) : ∀ (f : Nat), rs.length < f → RawsWF2 rs →
    rawFieldsV2 f (encRaws rs) = some rs := by
  induction rs with
  | nil =>
    intro f hf _
    cases f with
    | zero => omega
    | succ f => simp [encRaws, rawFieldsV2]
  | cons r rs ih =>
    intro f hf hwf
    cases f with
    | zero => omega
    | succ f =>
      have hr : RawWF2 r := hwf r (by simp)
      have hrs : RawsWF2 rs := fun x hx => hwf x (by simp [hx])
      have hstep := rawStepV2_enc r (encRaws rs) hr
      have hrec := ih f (by simpa using hf) hrs
      simp only [encRaws]
      cases hb : encRaw r ++ encRaws rs with
      | nil => exact absurd hb (encRaw_ne_nil r (RawWF_of_RawWF2 r hr))
      | cons b bs =>
        rw [rawFieldsV2, ← hb, hstep]
        simp only [hrec]

theorem parseRawV2_encRaws (rs : List Raw) (h : RawsWF2 rs) : parseRawV2 (encRaws rs) = some rs := by
  unfold parseRawV2
  have hwf : RawsWF rs := fun r hr => RawWF_of_RawWF2 r (h r hr)
  exact rawFieldsV2_enc rs _ (by have := encRaws_length rs hwf; omega) h

theorem RawsWF2_repLenR (n : Nat) (l : List Bytes) (h1 : 1 ≤ n) (h2 : n ≤ 536870911)
    (h : ∀ b ∈ l, b.length < 2 ^ 64) : RawsWF2 (repLenR n l) := by
  induction l with
  | nil => intro r hr; simp [repLenR] at hr
  | cons b l ih =>
    intro r hr
    simp only [repLenR, List.mem_cons] at hr
    rcases hr with rfl | hr
    · exact ⟨h1, h2, h b (by simp)⟩
    · exact ih (fun x hx => h x (by simp [hx])) r hr

theorem method4_length (m : Bytes) : (method4 m).length = 4 := by
  unfold method4
  simp only [List.length_append, List.length_replicate, List.length_take]
  omega

end Rangers.Wire
