import Mathlib.Tactic.Linarith
import Mathlib.Tactic.Zify
import Mathlib.Tactic.Ring
import Rangers.Model.Qn
import Rangers.Proofs.C16Bytes
/-! Arithmetic lemmas about the float64 rounding model and `calQn`. -/
namespace Rangers.Proofs.C16Qn
open Rangers Rangers.Model Rangers.Model.Qn

theorem beToNat_lt (bs : Bytes) : beToNat bs < 256 ^ bs.length := by
  induction bs using Rangers.Proofs.C16Bytes.rev_ind with
  | hnil => simp [beToNat]
  | hsnoc bs b ih =>
    rw [Rangers.Proofs.C16Bytes.beToNat_append_one]
    have hb : b.toNat < 256 := UInt8.toNat_lt b
    simp only [List.length_append, List.length_cons, List.length_nil, Nat.pow_succ]
    omega

theorem bitLen_le_of_lt (n k : Nat) (h : n < 2 ^ k) : bitLen n ≤ k := by
  unfold bitLen
  split
  · omega
  · rename_i hn
    have := (Nat.log2_lt hn).mpr h
    omega

theorem lt_pow_bitLen (n : Nat) : n < 2 ^ bitLen n := by
  unfold bitLen
  split
  · rename_i h; subst h; decide
  · exact Nat.lt_log2_self

theorem pow_bitLen_le (n : Nat) (hn : n ≠ 0) : 2 ^ (bitLen n - 1) ≤ n := by
  unfold bitLen
  simp only [hn, ↓reduceIte, Nat.add_sub_cancel]
  exact Nat.log2_self_le hn

theorem roundNat53_of_lt (n : Nat) (h : n < 2 ^ 53) : roundNat53 n = n := by
  unfold roundNat53
  simp [bitLen_le_of_lt n 53 h]

theorem divRoundEven_le (x b M : Nat) (hb : 0 < b) (h : x ≤ M * b) : divRoundEven x b ≤ M := by
  unfold divRoundEven
  have hq : x / b ≤ M := Nat.div_le_of_le_mul (by rw [Nat.mul_comm]; exact h)
  simp only []
  split
  · -- rounding up: then x / b < M, otherwise the remainder would be 0
    rename_i hup
    by_contra hcon
    have heq : x / b = M := by omega
    have hdm := Nat.div_add_mod x b
    rw [heq, Nat.mul_comm] at hdm
    have hr : x % b = 0 := by omega
    rcases hup with h1 | ⟨h1, _⟩ <;> omega
  · exact hq

/-- The binary exponent is a lower bound: `b·2^k ≤ a` for every `k ≤ binExp a b`. -/
theorem binExp_le (a b k : Nat) (ha : a ≠ 0) (hk : (k : Int) ≤ binExp a b) : b * 2 ^ k ≤ a := by
  unfold binExp at hk
  simp only [] at hk
  have h1 := pow_bitLen_le a ha
  have h2 := lt_pow_bitLen b
  have hla : 1 ≤ bitLen a := by
    unfold bitLen; simp [ha]
  -- the fallback bound: k ≤ e0 - 1
  have low : (k : Int) ≤ (bitLen a : Int) - (bitLen b : Int) - 1 → b * 2 ^ k ≤ a := by
    intro hk1
    have hk' : k + bitLen b ≤ bitLen a - 1 := by omega
    calc b * 2 ^ k ≤ 2 ^ bitLen b * 2 ^ k := Nat.mul_le_mul_right _ (Nat.le_of_lt h2)
      _ = 2 ^ (k + bitLen b) := by rw [← Nat.pow_add, Nat.add_comm]
      _ ≤ 2 ^ (bitLen a - 1) := Nat.pow_le_pow_right (by decide) hk'
      _ ≤ a := h1
  by_cases he0 : (bitLen a : Int) - (bitLen b : Int) ≥ 0
  · by_cases hge : a ≥ b * 2 ^ ((bitLen a : Int) - (bitLen b : Int)).toNat
    · simp only [he0, hge, ↓reduceIte, decide_true] at hk
      have hk' : k ≤ ((bitLen a : Int) - (bitLen b : Int)).toNat := by omega
      calc b * 2 ^ k ≤ b * 2 ^ ((bitLen a : Int) - (bitLen b : Int)).toNat :=
            Nat.mul_le_mul_left _ (Nat.pow_le_pow_right (by decide) hk')
        _ ≤ a := hge
    · simp only [he0, hge, ↓reduceIte, decide_false] at hk
      exact low (by simpa using hk)
  · by_cases hge : a * 2 ^ (-((bitLen a : Int) - (bitLen b : Int))).toNat ≥ b
    · simp only [he0, hge, ↓reduceIte, decide_true] at hk
      omega
    · simp only [he0, hge, ↓reduceIte, decide_false] at hk
      exact low (by simpa using hk)

/-- Rounding to float64 is monotone against an exactly representable integer bound:
    `a/b ≤ N < 2^53` implies `⌊float64(a/b)⌋ ≤ N`. -/
theorem floorFloat_le (a b N fl : Nat) (hb : 0 < b) (hN : N < 2 ^ 53) (hab : a ≤ N * b)
    (h : floorFloat a b = some fl) : fl ≤ N := by
  unfold floorFloat at h
  split at h
  · injection h with h; omega
  · rename_i ha
    simp only [] at h
    split at h
    · cases h
    · split at h
      · rename_i hsh
        injection h with h
        subst h
        apply Nat.div_le_of_le_mul
        apply divRoundEven_le _ _ _ hb
        calc a * 2 ^ (52 - binExp a b).toNat ≤ N * b * 2 ^ (52 - binExp a b).toNat :=
              Nat.mul_le_mul_right _ hab
          _ = 2 ^ (52 - binExp a b).toNat * N * b := by ring
      · rename_i hsh
        exfalso
        have h53 : ((53 : Nat) : Int) ≤ binExp a b := by omega
        have := binExp_le a b 53 ha h53
        have : N * b < 2 ^ 53 * b := Nat.mul_lt_mul_of_pos_right hN hb
        rw [Nat.mul_comm b] at *
        omega

end Rangers.Proofs.C16Qn

namespace Rangers.Proofs.C16Qn
open Rangers Rangers.Model Rangers.Model.Qn

/-- Range of `calQnCore` whenever the exact ratio is at most `maxQN`
    (`v ≤ s`, `s > 0`): the float step can add at most one. -/
theorem calQnCore_range (P : Params) (hmax : P.maxQN < 2 ^ 52) (v s : Frac) (q : Nat)
    (hvd : 0 < v.den) (hs : 0 < s.num)
    (hle : v.num.toNat * s.den ≤ v.den * s.num.natAbs)
    (h : calQnCore P v s = .val q) : 1 ≤ q ∧ q ≤ P.maxQN + 1 := by
  unfold calQnCore at h
  split at h
  · cases h
  · split at h
    · cases h
    · simp only [] at h
      split at h
      · injection h with h; omega
      · split at h
        · cases h
        · rename_i fl hfl
          have hb : 0 < v.den * s.num.natAbs := Nat.mul_pos hvd (by omega)
          have hab : v.num.toNat * s.den * P.maxQN ≤ P.maxQN * (v.den * s.num.natAbs) := by
            rw [Nat.mul_comm]
            exact Nat.mul_le_mul_left _ hle
          have hflN := floorFloat_le _ _ P.maxQN fl hb (by omega) hab hfl
          have hlt : fl + 1 < 2 ^ 53 := by
            have : (2 : Nat) ^ 53 = 2 * 2 ^ 52 := by decide
            omega
          rw [roundNat53_of_lt _ hlt] at h
          split at h
          · injection h with h; omega
          · cases h

/-- With exact arithmetic instead of `Float64()`: if the ratio is strictly below
    `maxQN` the quality number is at most `maxQN`. -/
theorem exact_floor_lt (rn rd N : Nat) (h : rn < N * rd) : rn / rd + 1 ≤ N := by
  have : rn / rd < N := Nat.div_lt_of_lt_mul (by rw [Nat.mul_comm]; exact h)
  omega

theorem value_le_max (prove : Bytes) : beToNat (prove.take 32) ≤ max256 := by
  have h := beToNat_lt (prove.take 32)
  have hl : (prove.take 32).length ≤ 32 := by simp
  have : 256 ^ (prove.take 32).length ≤ 256 ^ 32 := Nat.pow_le_pow_right (by decide) hl
  have e : (256 : Nat) ^ 32 = max256 + 1 := by decide
  omega

/-- Acceptance (`vrfValueRatio < stakeRatio`) bounds the exact ratio `r = v/(s'/maxQN)`
    by `maxQN` for the capped stake ratio `s'`. -/
theorem accepted_ratio_bound (vn : Nat) (s : Frac) (hv : vn ≤ max256)
    (hok : Frac.lt ⟨vn, max256⟩ s = true) :
    0 < (capRatio s).num ∧
      (⟨(vn : Int), max256⟩ : Frac).num.toNat * (capRatio s).den ≤ max256 * (capRatio s).num.natAbs := by
  unfold capRatio
  split
  · simp; exact hv
  · unfold Frac.lt at hok
    simp only [decide_eq_true_eq] at hok
    have hpos : (0 : Int) ≤ (vn : Int) * (s.den : Int) := by positivity
    have hm : (0 : Int) < (max256 : Int) := by decide
    have hsn : 0 < s.num := by
      by_contra hcon
      have : s.num * (max256 : Int) ≤ 0 := Int.mul_nonpos_of_nonpos_of_nonneg (by omega) (by omega)
      omega
    refine ⟨hsn, ?_⟩
    simp only [Int.toNat_natCast]
    have : ((vn * s.den : Nat) : Int) < ((max256 * s.num.natAbs : Nat) : Int) := by
      push_cast
      rw [abs_of_pos hsn, Int.mul_comm (max256 : Int)]
      exact hok
    exact Nat.le_of_lt (by exact_mod_cast this)


end Rangers.Proofs.C16Qn
