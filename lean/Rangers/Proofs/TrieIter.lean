import Rangers.Proofs.TrieDelete
/- Iteration: strict order of the returned hex paths, extensionality of sorted association lists. -/
namespace Rangers.Trie
open Rangers

/-! ### order on hex paths -/

theorem key_trichotomy (a b : Key) : a < b ∨ a = b ∨ b < a := by
  induction a generalizing b with
  | nil => cases b with
    | nil => right; left; rfl
    | cons y b => left; exact List.nil_lt_cons y b
  | cons x a ih =>
    cases b with
    | nil => right; right; exact List.nil_lt_cons x a
    | cons y b =>
      rcases Nat.lt_trichotomy x y with h | h | h
      · left; exact List.cons_lt_cons_iff.mpr (Or.inl h)
      · subst h
        rcases ih b with h | h | h
        · left; exact List.cons_lt_cons_iff.mpr (Or.inr ⟨rfl, h⟩)
        · right; left; rw [h]
        · right; right; exact List.cons_lt_cons_iff.mpr (Or.inr ⟨rfl, h⟩)
      · right; right; exact List.cons_lt_cons_iff.mpr (Or.inl h)

theorem key_lt_irrefl (a : Key) : ¬ a < a := List.lt_irrefl a
theorem key_lt_trans {a b c : Key} (h1 : a < b) (h2 : b < c) : a < c := List.lt_trans h1 h2

theorem append_lt_append_left (p a b : Key) : p ++ a < p ++ b ↔ a < b := by
  induction p with
  | nil => simp
  | cons x p ih =>
    simp only [List.cons_append, List.cons_lt_cons_iff, ih]
    constructor
    · rintro (h | ⟨_, h⟩)
      · exact absurd h (Nat.lt_irrefl x)
      · exact h
    · intro h; exact Or.inr (by simpa using h)

/-- strictly ascending keys -/
def SortedKeys (L : List (Key × Bytes)) : Prop := L.Pairwise (fun e1 e2 => e1.1 < e2.1)

theorem sortedKeys_prepend (p : Key) (L : List (Key × Bytes)) (h : SortedKeys L) : SortedKeys (prepend p L) := by
  unfold SortedKeys prepend
  rw [List.pairwise_map]
  exact h.imp (fun hab => (append_lt_append_left p _ _).mpr hab)

theorem mem_iterL {cs : List Node} {s : Nat} {e : Key × Bytes} :
    e ∈ iterL cs s ↔ ∃ j, j < cs.length ∧ ∃ e' ∈ iter (cs[j]?.getD .nil), e = ((s + j) :: e'.1, e'.2) := by
  induction cs generalizing s with
  | nil => simp [iterL]
  | cons c cs ih =>
    simp only [iterL, List.mem_append, ih, prepend, List.mem_map, List.length_cons]
    constructor
    · rintro (⟨a, ha, rfl⟩ | ⟨j, hj, e', he', rfl⟩)
      · exact ⟨0, by omega, a, by simpa using ha, by simp⟩
      · exact ⟨j + 1, by omega, e', by simpa using he', by simp; omega⟩
    · rintro ⟨j, hj, e', he', rfl⟩
      cases j with
      | zero => left; exact ⟨e', by simpa using he', by simp⟩
      | succ j => right; exact ⟨j, by omega, e', by simpa using he', by simp; omega⟩

theorem sortedKeys_iterL (cs : List Node) (s : Nat) (h : ∀ c ∈ cs, SortedKeys (iter c)) : SortedKeys (iterL cs s) := by
  induction cs generalizing s with
  | nil => simp [iterL, SortedKeys]
  | cons c cs ih =>
    simp only [iterL, SortedKeys, List.pairwise_append]
    refine ⟨sortedKeys_prepend _ _ (h c (by simp)), ih (s + 1) (fun c' hc' => h c' (by simp [hc'])), ?_⟩
    intro a ha b hb
    simp only [prepend, List.mem_map] at ha
    obtain ⟨a', _, rfl⟩ := ha
    obtain ⟨j, _, e', _, rfl⟩ := mem_iterL.mp hb
    exact List.cons_lt_cons_iff.mpr (Or.inl (by omega))

/-- the iterator returns strictly ascending hex paths (terminator 16 greatest), for every trie -/
theorem sortedKeys_iter (t : Node) : SortedKeys (iter t) := by
  induction t using Node.induct with
  | hnil => simp [iter, SortedKeys]
  | hval b => simp [iter, SortedKeys]
  | hshort k v ih => simp only [iter]; exact sortedKeys_prepend k _ ih
  | hfull cs ih => simp only [iter]; exact sortedKeys_iterL cs 0 ih

/-- two strictly sorted association lists with the same lookup function are equal -/
theorem sorted_ext (L1 L2 : List (Key × Bytes)) (h1 : SortedKeys L1) (h2 : SortedKeys L2)
    (h : ∀ k, L1.lookup k = L2.lookup k) : L1 = L2 := by
  induction L1 generalizing L2 with
  | nil =>
    cases L2 with
    | nil => rfl
    | cons e L2 =>
      obtain ⟨k, v⟩ := e
      have := h k; simp [List.lookup_cons] at this
  | cons e1 T1 ih =>
    cases L2 with
    | nil =>
      obtain ⟨k, v⟩ := e1
      have := h k; simp [List.lookup_cons] at this
    | cons e2 T2 =>
      obtain ⟨k1, v1⟩ := e1
      obtain ⟨k2, v2⟩ := e2
      have hs1 := List.pairwise_cons.mp h1
      have hs2 := List.pairwise_cons.mp h2
      have hnone1 : ∀ k, k < k1 ∨ k = k1 → T1.lookup k = none := by
        intro k hk
        apply lookup_none_of_not_mem
        intro e he heq
        have := hs1.1 e he
        rw [heq] at this
        rcases hk with hk | hk
        · exact key_lt_irrefl _ (key_lt_trans this hk)
        · rw [hk] at this; exact key_lt_irrefl _ this
      have hnone2 : ∀ k, k < k2 ∨ k = k2 → T2.lookup k = none := by
        intro k hk
        apply lookup_none_of_not_mem
        intro e he heq
        have := hs2.1 e he
        rw [heq] at this
        rcases hk with hk | hk
        · exact key_lt_irrefl _ (key_lt_trans this hk)
        · rw [hk] at this; exact key_lt_irrefl _ this
      have hk : k1 = k2 := by
        rcases key_trichotomy k1 k2 with hlt | heq | hlt
        · have := h k1
          have hne : (k1 == k2) = false := by
            apply beq_false_of_ne; intro h0; rw [h0] at hlt; exact key_lt_irrefl _ hlt
          simp [List.lookup_cons, hne, hnone2 k1 (Or.inl hlt)] at this
        · exact heq
        · have := h k2
          have hne : (k2 == k1) = false := by
            apply beq_false_of_ne; intro h0; rw [h0] at hlt; exact key_lt_irrefl _ hlt
          simp [List.lookup_cons, hne, hnone1 k2 (Or.inl hlt)] at this
      subst hk
      have hv : v1 = v2 := by
        have := h k1; simpa [List.lookup_cons] using this
      subst hv
      congr 1
      apply ih T2 hs1.2 hs2.2
      intro k
      by_cases hkk : k = k1
      · subst hkk; rw [hnone1 k (Or.inr rfl), hnone2 k (Or.inr rfl)]
      · have := h k
        have hne : (k == k1) = false := beq_false_of_ne hkk
        simpa [List.lookup_cons, hne] using this

end Rangers.Trie
