import Rangers.Proofs.JournalSim
/-! Every `undo` method respects `Sim` (congruence). -/
namespace Rangers.Proofs.Journal
open Rangers Rangers.Model.Journal

/-- workhorse: both states replace the object at `a` by similar objects -/
theorem sim_upd {s t rs rt : ADB} {a : Addr} {os ot : Obj} (h : Sim s t) (hs : s.crashed = false)
    (frs : Frame rs s) (frt : Frame rt t) (crs : rs.crashed = false) (crt : rt.crashed = false)
    (hrs : ∀ b, res rs b = if a = b then Res.live os else res s b)
    (hrt : ∀ b, res rt b = if a = b then Res.live ot else res t b)
    (ho : ObjSim s.codes os ot) : Sim rs rt := by
  refine ⟨crs.trans crt.symm, fun _ => frs.trans ((h.frame hs).trans frt.symm), fun _ b => ?_⟩
  rw [hrs b, hrt b, frs.codes]
  by_cases hab : a = b
  · simp only [hab, if_true]; exact .live ho
  · simp only [hab, if_false]; exact h.objs hs b

/-- both states only changed fields outside `Sim`'s view of objects -/
theorem sim_same_res {s t rs rt : ADB} (h : Sim s t) (hs : s.crashed = false)
    (frs : Frame rs s) (frt : Frame rt t) (crs : rs.crashed = false) (crt : rt.crashed = false)
    (hrs : ∀ b, res rs b = res s b) (hrt : ∀ b, res rt b = res t b) : Sim rs rt := by
  refine ⟨crs.trans crt.symm, fun _ => frs.trans ((h.frame hs).trans frt.symm), fun _ b => ?_⟩
  rw [hrs b, hrt b, frs.codes]; exact h.objs hs b

theorem crash_crashed (s : ADB) : (crash s).crashed = true := rfl

/-! ### object-level pieces -/

theorem Obj.get_set (o : Obj) (k k' : Key) (v : Val) (d : List (Key × Val)) :
    ({ o with cached := mset o.cached k v, dirty := d } : Obj).get k' = if k = k' then v else o.get k' := by
  simp only [Obj.get, mget_mset]
  by_cases h : k = k' <;> simp [h]

theorem frame_of_objs_only {s r : ADB} (h : r = { s with objs := r.objs, dirtySet := r.dirtySet, journal := r.journal }) :
    Frame r s := by
  rw [h]; exact ⟨rfl, rfl, rfl, rfl, rfl, rfl, fun _ _ => rfl, rfl, rfl, rfl⟩

theorem markDirty_Frame (s : ADB) (a : Addr) (o : Obj) : Frame (markDirty s a o) s := by
  unfold markDirty; split <;> exact ⟨rfl, rfl, rfl, rfl, rfl, rfl, fun _ _ => rfl, rfl, rfl, rfl⟩

theorem markDirty_crashed (s : ADB) (a : Addr) (o : Obj) : (markDirty s a o).crashed = s.crashed := by
  unfold markDirty; split <;> rfl

theorem markDirty_journal (s : ADB) (a : Addr) (o : Obj) : (markDirty s a o).journal = s.journal := by
  unfold markDirty; split <;> rfl

/-- effect of "resolve `a`, then store a modified copy through `markDirty`" on a live address -/
theorem modify_live {s : ADB} {a : Addr} {o : Obj} (h : res s a = .live o) (f : Obj → Obj)
    (hf : (f o).deleted = false) :
    ∃ s1, resolve s a = (s1, some o) ∧ mget s1.objs a = some o ∧
      Frame (markDirty s1 a (f o)) s ∧ (markDirty s1 a (f o)).crashed = s.crashed ∧
      (∀ b, res (markDirty s1 a (f o)) b = if a = b then Res.live { f o with armed := false } else res s b) := by
  obtain ⟨s1, h1, h2, _, h4, h5⟩ := resolve_live h
  refine ⟨s1, h1, h2, ?_, ?_, fun b => ?_⟩
  · exact (markDirty_Frame s1 a (f o)).trans (by rw [h4]; exact ⟨rfl, rfl, rfl, rfl, rfl, rfl, fun _ _ => rfl, rfl, rfl, rfl⟩)
  · rw [markDirty_crashed, h4]
  · rw [res_markDirty s1 a b (f o) hf]
    by_cases hab : a = b
    · simp [hab]
    · simp [hab, h5 b]

/-! ### transient storage -/

theorem isZero_toHash {v : Bytes} (h : isZero v = true) : toHash v = zeroHash := by
  have hv : ∀ x ∈ v, x = 0 := by
    intro x hx
    have := List.all_eq_true.mp h x hx
    simpa using this
  have hrep : v = List.replicate v.length 0 := List.eq_replicate_iff.mpr ⟨rfl, hv⟩
  unfold toHash zeroHash
  by_cases hl : v.length > 32
  · simp only [hl, if_true]
    rw [hrep]; simp only [List.length_replicate, List.drop_replicate]
    congr 1; omega
  · simp only [hl, if_false]
    rw [hrep]; simp only [List.length_replicate, List.replicate_append_replicate]
    congr 1; omega

theorem toHash_nil : toHash [] = zeroHash := by simp [toHash, zeroHash]

theorem tget_tset (t : List (Addr × List (Hash × Hash))) (a a' : Addr) (k k' v : Hash) :
    tget (tset t a k v) a' k' = if a = a' ∧ k = k' then toHash v else tget t a' k' := by
  unfold tset
  by_cases hz : isZero v = true
  · simp only [hz, if_true]
    cases hm : mget t a with
    | none =>
      simp only
      by_cases h : a = a' ∧ k = k'
      · obtain ⟨rfl, rfl⟩ := h
        simp [tget, hm, isZero_toHash hz]
      · simp [h]
    | some m =>
      simp only
      by_cases he : (mdel m k).isEmpty = true
      · simp only [he, if_true]
        unfold tget
        by_cases haa : a = a'
        · subst haa
          simp only [mget_mdel_self, hm, true_and]
          have hnil : mdel m k = [] := List.isEmpty_iff.mp he
          by_cases hk : k = k'
          · simp [hk, isZero_toHash hz]
          · simp only [hk, if_false]
            have : mget m k' = none := by
              have := mget_mdel_ne m hk
              rw [hnil] at this; simpa using this.symm
            simp [this, toHash_nil]
        · simp [haa, mget_mdel_ne t haa]
      · simp only [he, Bool.false_eq_true, if_false]
        unfold tget
        by_cases haa : a = a'
        · subst haa
          simp only [mget_mset_self, hm, true_and]
          by_cases hk : k = k'
          · simp [hk, isZero_toHash hz, toHash_nil]
          · simp [hk, mget_mdel_ne m hk]
        · simp [haa, mget_mset_ne t _ haa]
  · simp only [hz, Bool.false_eq_true, if_false]
    cases hm : mget t a with
    | none =>
      simp only
      unfold tget
      by_cases haa : a = a'
      · subst haa
        simp only [mget_mset_self, hm, true_and]
        by_cases hk : k = k'
        · simp [hk, mget]
        · simp [hk, mget, toHash_nil]
      · simp [haa, mget_mset_ne t _ haa]
    | some m =>
      simp only
      unfold tget
      by_cases haa : a = a'
      · subst haa
        simp only [mget_mset_self, hm, true_and]
        by_cases hk : k = k'
        · simp [hk]
        · simp [hk, mget_mset_ne m _ hk]
      · simp [haa, mget_mset_ne t _ haa]


/-! ### `getOrNewAccountObject` -/

theorem resolveNew_live {s : ADB} {a : Addr} {o : Obj} (h : res s a = .live o) :
    resolveNew s a = resolve s a := by
  rw [res_def] at h
  unfold resolveNew resolve
  cases hm : mget s.objs a with
  | some o1 => rfl
  | none =>
    simp only [hm] at h ⊢
    cases ht : mget s.trie a with
    | none => simp [ht] at h
    | some l => rfl

theorem resolveNew_deleted {s : ADB} {a : Addr} (h : res s a = .deleted) : resolveNew s a = (s, none) := by
  rw [res_def] at h
  unfold resolveNew
  cases hm : mget s.objs a with
  | some o1 =>
    simp only [hm] at h ⊢
    by_cases hd : o1.deleted = true
    · simp [hd]
    · simp [hd] at h
  | none =>
    simp only [hm] at h
    split at h <;> cases h

theorem resolveNew_absent {s : ADB} {a : Addr} (h : res s a = .absent) :
    resolveNew s a = ({ s with objs := mset s.objs a Obj.fresh, dirtySet := sadd s.dirtySet a,
                                journal := s.journal ++ [Entry.create a] }, some Obj.fresh) := by
  obtain ⟨_, hm, ht⟩ := resolve_absent h
  unfold resolveNew
  simp [hm, ht]

/-- `Obj.fresh` after `setData(k, v)` -/
def freshSet (k : Key) (v : Val) : Obj :=
  { Obj.fresh with cached := mset Obj.fresh.cached k v, dirty := mset Obj.fresh.dirty k v, armed := false }

/-- the un-journaled balance write respects `Sim` -/
theorem setBalanceRaw_congr (c : Cfg) {s t : ADB} (h : Sim s t) (a : Addr) (n : Nat) :
    Sim (setBalanceRaw c s a n) (setBalanceRaw c t a n) := by
  by_cases hs : s.crashed = true
  · -- crashed states: resolveNew never un-crashes, both results stay crashed
    have ht : t.crashed = true := h.crashed ▸ hs
    have key : ∀ u : ADB, u.crashed = true → (setBalanceRaw c u a n).crashed = true := by
      intro u hu
      unfold setBalanceRaw resolveNew
      cases hm : mget u.objs c.tok with
      | some o1 =>
        by_cases hd : o1.deleted = true
        · simp [hd, crash]
        · simp only [hd, Bool.false_eq_true, if_false]
          unfold setDataRaw; simp only [hm]; rw [markDirty_crashed]; exact hu
      | none =>
        cases htr : mget u.trie c.tok with
        | some l =>
          simp only
          unfold setDataRaw; simp only [putObj, mget_mset_self]; rw [markDirty_crashed]; exact hu
        | none =>
          simp only
          unfold setDataRaw; simp only [mget_mset_self]; rw [markDirty_crashed]; exact hu
    exact Sim.of_crashed (key s hs) (key t ht)
  · have hs : s.crashed = false := by simpa using hs
    have ht : t.crashed = false := h.crashed ▸ hs
    have R := h.objs hs c.tok
    unfold setBalanceRaw
    cases hrs : res s c.tok with
    | deleted =>
      rw [hrs] at R
      have hrt := R.of_deleted
      rw [resolveNew_deleted hrs, resolveNew_deleted hrt]
      exact Sim.of_crashed rfl rfl
    | absent =>
      rw [hrs] at R
      have hrt := R.of_absent
      rw [resolveNew_absent hrs, resolveNew_absent hrt]
      simp only
      unfold setDataRaw
      simp only [mget_mset_self]
      refine sim_upd (a := c.tok)
        (os := freshSet (c.balKey a) (natToBE n)) (ot := freshSet (c.balKey a) (natToBE n))
        h hs ?_ ?_ ?_ ?_ (fun b => ?_) (fun b => ?_) (ObjSim.refl _ _)
      · exact (markDirty_Frame _ _ _).trans ⟨rfl, rfl, rfl, rfl, rfl, rfl, fun _ _ => rfl, rfl, rfl, rfl⟩
      · exact (markDirty_Frame _ _ _).trans ⟨rfl, rfl, rfl, rfl, rfl, rfl, fun _ _ => rfl, rfl, rfl, rfl⟩
      · rw [markDirty_crashed]; exact hs
      · rw [markDirty_crashed]; exact ht
      · rw [res_markDirty _ _ _ _ rfl]
        by_cases hab : c.tok = b
        · simp [hab, freshSet]
        · simp only [hab, if_false]
          rw [res_of_mset (s := s) (r := { s with objs := mset s.objs c.tok Obj.fresh, dirtySet := sadd s.dirtySet c.tok, journal := s.journal ++ [Entry.create c.tok] }) (a := c.tok) (o := Obj.fresh) rfl rfl rfl b]; simp [hab]
      · rw [res_markDirty _ _ _ _ rfl]
        by_cases hab : c.tok = b
        · simp [hab, freshSet]
        · simp only [hab, if_false]
          rw [res_of_mset (s := t) (r := { t with objs := mset t.objs c.tok Obj.fresh, dirtySet := sadd t.dirtySet c.tok, journal := t.journal ++ [Entry.create c.tok] }) (a := c.tok) (o := Obj.fresh) rfl rfl rfl b]; simp [hab]
    | live o =>
      rw [hrs] at R
      obtain ⟨o', hrt, ho⟩ := R.of_live
      obtain ⟨s1, e1, m1, f1, c1, r1⟩ := modify_live hrs
        (fun o => { o with cached := mset o.cached (c.balKey a) (natToBE n), dirty := mset o.dirty (c.balKey a) (natToBE n) })
        (by obtain ⟨_, _, _, hd, _⟩ := resolve_live hrs; exact hd)
      obtain ⟨t1, e2, m2, f2, c2, r2⟩ := modify_live hrt
        (fun o => { o with cached := mset o.cached (c.balKey a) (natToBE n), dirty := mset o.dirty (c.balKey a) (natToBE n) })
        (by obtain ⟨_, _, _, hd, _⟩ := resolve_live hrt; exact hd)
      rw [resolveNew_live hrs, resolveNew_live hrt, e1, e2]
      simp only
      unfold setDataRaw
      simp only [m1, m2]
      refine sim_upd (a := c.tok) h hs f1 f2 (c1.trans hs) (c2.trans ht) r1 r2 ?_
      refine ⟨ho.1, ho.2.1, ho.2.2.1, fun k => ?_, ho.2.2.2.2⟩
      show Obj.get { o with cached := _, dirty := _, armed := false } k = Obj.get { o' with cached := _, dirty := _, armed := false } k
      simp only [Obj.get, mget_mset]
      have := ho.2.2.2.1 k
      simp only [Obj.get] at this
      by_cases hk : c.balKey a = k <;> simp [hk, this]

end Rangers.Proofs.Journal
