import Rangers.Proofs.TrieDBContent
/-! Concrete instance used by the non-vacuity examples of Props/C03Content.lean. -/
namespace Rangers.Props.C03Content
open Rangers Rangers.Trie Rangers.Model.TrieDB

def exH : Bytes → Bytes := fun b => [UInt8.ofNat b.length]
def exT : Trie.Node := Trie.run [.upd [1] [2]]
def exRoot : Bytes := exH (enc exH exT)
def exK : Bytes → Hash := fun b => beToNat b
def exBlob : Bytes → Blob := fun h => if h = exRoot then .node (collapse exH exT) else .raw []
def exS : St := ⟨[(exK exRoot, ⟨(enc exH exT).length, 0, [], [], []⟩)], []⟩

theorem exS_inv : Inv exS :=
  ⟨by intro h hh; simp [exS, Has] at hh,
   by intro k n hk r hr
      simp only [exS] at hk
      rw [lookup_cons_eq] at hk
      split at hk
      · simp at hk; subst hk; simp at hr
      · simp at hk,
   by intro k n dn hk hd; simp [exS] at hd⟩

end Rangers.Props.C03Content
