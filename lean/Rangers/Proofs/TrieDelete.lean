import Rangers.Proofs.TrieInsert
/- `delete`: equations, the branch reduction, abstract content after delete, preservation of the minimal form. -/
namespace Rangers.Trie
open Rangers

/-- `delete` on a short node merges a short child into the parent -/
def mergeShort (kk : Key) (child : Node) : Node :=
  match child with
  | .short ck cv => .short (kk ++ ck) cv
  | c => .short kk c

/-- the branch reduction at the end of `delete` on a full node -/
def reduce (cs' : List Node) : Node :=
  match soleChild cs' with
  | some pos =>
    if pos != 16 then mergeShort [pos] (cs'[pos]?.getD .nil)
    else .short [pos] (cs'[pos]?.getD .nil)
  | none => .full cs'

theorem delete_short_eq (kk : Key) (v : Node) (key : Key) :
    delete (.short kk v) key =
      if prefixLen key kk < kk.length then (false, .short kk v)
      else if prefixLen key kk = key.length then (true, .nil)
      else if (delete v (key.drop kk.length)).1 = false then (false, .short kk v)
      else (true, mergeShort kk (delete v (key.drop kk.length)).2) := by
  simp only [delete, mergeShort, Bool.not_eq_true']
  split
  · rfl
  · split
    · rfl
    · split
      · rfl
      · split <;> simp_all

theorem delete_full_eq (cs : List Node) (i : Nat) (r : Key) (hi : i < cs.length) :
    delete (.full cs) (i :: r) =
      if (delete (cs[i]?.getD .nil) r).1 = false then (false, .full cs)
      else (true, reduce (cs.set i (delete (cs[i]?.getD .nil) r).2)) := by
  simp only [delete, deleteAt_eq cs i r hi, reduce, mergeShort, Bool.not_eq_true']
  split
  · rfl
  · split
    · split
      · split <;> simp_all
      · simp_all
    · simp_all

theorem delete_not_dirty (n : Node) (k : Key) (h : (delete n k).1 = false) : (delete n k).2 = n := by
  cases n with
  | nil => simp [delete]
  | value b => simp [delete] at h
  | short kk v =>
    rw [delete_short_eq] at h ⊢
    split
    · rfl
    · split
      · rename_i h1 h2; rw [if_neg h1, if_pos h2] at h; simp at h
      · split
        · rfl
        · rename_i h1 h2 h3; rw [if_neg h1, if_neg h2, if_neg h3] at h; simp at h
  | full cs =>
    cases k with
    | nil => simp [delete]
    | cons x r =>
      by_cases hx : x < cs.length
      · rw [delete_full_eq _ _ _ hx] at h ⊢
        split
        · rfl
        · rename_i h1; rw [if_neg h1] at h; simp at h
      · simp [delete, deleteAt_oob cs x r (by omega)]



/-! ### `soleChild` -/

theorem filter_range'_length (cs : List Node) (s : Nat) :
    ((List.range' s cs.length).filter (fun i => !isNil (cs[i - s]?.getD .nil))).length = countNN cs := by
  induction cs generalizing s with
  | nil => simp [countNN]
  | cons c cs ih =>
    simp only [List.length_cons, List.range'_succ, List.filter_cons, Nat.sub_self, List.getElem?_cons_zero,
      Option.getD_some, countNN]
    have hcongr : (List.range' (s + 1) cs.length).filter (fun i => !isNil ((c :: cs)[i - s]?.getD .nil))
        = (List.range' (s + 1) cs.length).filter (fun i => !isNil (cs[i - (s + 1)]?.getD .nil)) := by
      apply List.filter_congr
      intro i hi
      have : s + 1 ≤ i := (List.mem_range'_1.mp hi).1
      have h2 : i - s = (i - (s + 1)) + 1 := by omega
      rw [h2, List.getElem?_cons_succ]
    rw [hcongr]
    have := ih (s + 1)
    cases hc : isNil c
    · simp only [Bool.not_false, if_true, List.length_cons, this, Bool.false_eq_true, if_false]; omega
    · simp only [Bool.not_true, Bool.false_eq_true, if_false, this, if_true]; omega

theorem soleChild_filter (cs : List Node) :
    soleChild cs = match (List.range cs.length).filter (fun i => !isNil (cs[i]?.getD .nil)) with
      | [p] => some p
      | _ => none := by
  unfold soleChild
  simp only [List.getD_eq_getElem?_getD]
  rfl

theorem filter_length_countNN (cs : List Node) :
    ((List.range cs.length).filter (fun i => !isNil (cs[i]?.getD .nil))).length = countNN cs := by
  have := filter_range'_length cs 0
  simpa only [Nat.sub_zero, ← List.range_eq_range'] using this

theorem soleChild_some {cs : List Node} {p : Nat} (h : soleChild cs = some p) :
    p < cs.length ∧ cs[p]?.getD .nil ≠ .nil ∧ (∀ j, j ≠ p → cs[j]?.getD .nil = .nil) ∧ countNN cs = 1 := by
  rw [soleChild_filter] at h
  have hlen := filter_length_countNN cs
  match hf : (List.range cs.length).filter (fun i => !isNil (cs[i]?.getD .nil)), h with
  | [q], h =>
    simp only [Option.some.injEq] at h; subst h
    have hmem : ∀ j, j ∈ (List.range cs.length).filter (fun i => !isNil (cs[i]?.getD .nil)) ↔ j = q := by
      intro j; rw [hf]; simp
    have hp := (hmem q).mpr rfl
    simp only [List.mem_filter, List.mem_range, Bool.not_eq_true'] at hp
    refine ⟨hp.1, (isNil_false_iff _).mp hp.2, fun j hj => ?_, ?_⟩
    · by_cases hjl : j < cs.length
      · have := (hmem j)
        simp only [List.mem_filter, List.mem_range, Bool.not_eq_true', hjl, true_and] at this
        have h3 : ¬ isNil (cs[j]?.getD .nil) = false := fun h => hj (this.mp h)
        exact (isNil_iff _).mp (by simpa using h3)
      · simp [Nat.not_lt.mp hjl]
    · rw [← hlen, hf]; rfl

theorem soleChild_none {cs : List Node} (h : soleChild cs = none) : countNN cs ≠ 1 := by
  rw [soleChild_filter] at h
  have hlen := filter_length_countNN cs
  intro h1
  rw [h1] at hlen
  match hf : (List.range cs.length).filter (fun i => !isNil (cs[i]?.getD .nil)), h, hlen with
  | [q], h, _ => simp at h
  | [], _, h0 => simp at h0
  | _ :: _ :: _, _, h0 => simp at h0



/-! ### abstract content after delete -/

theorem content_mergeShort (kk : Key) (c : Node) (k : Key) :
    content (mergeShort kk c) k = content (.short kk c) k := by
  cases c with
  | short ck cv =>
    simp only [mergeShort, content_short]
    by_cases h : kk <+: k
    · obtain ⟨s, rfl⟩ := h
      simp only [List.prefix_append_right_inj, List.prefix_append, if_true, List.drop_left, List.length_append]
      by_cases h2 : ck <+: s
      · obtain ⟨s2, rfl⟩ := h2
        simp [← List.append_assoc, ← List.length_append]
      · simp [h2]
    · have : ¬ (kk ++ ck <+: k) := fun h0 => h (List.IsPrefix.trans (List.prefix_append _ _) h0)
      simp [h, this]
  | _ => rfl

theorem content_reduce (cs' : List Node) (k : Key) : content (reduce cs') k = content (.full cs') k := by
  unfold reduce
  cases hs : soleChild cs' with
  | none => rfl
  | some pos =>
    obtain ⟨_, _, hothers, _⟩ := soleChild_some hs
    have h1 : content (if (pos != 16) = true then mergeShort [pos] (cs'[pos]?.getD .nil) else .short [pos] (cs'[pos]?.getD .nil)) k
        = content (.short [pos] (cs'[pos]?.getD .nil)) k := by
      split
      · exact content_mergeShort _ _ _
      · rfl
    simp only [h1]
    rw [content_short]
    cases k with
    | nil => simp [content_full_nil]
    | cons j r =>
      rw [content_full_cons]
      by_cases hj : j = pos
      · subst hj; simp
      · have : ¬ ([pos] <+: j :: r) := by
          intro h; have := List.prefix_iff_eq_take.mp h; simp at this; exact hj this.symm
        simp [this, hothers j hj]

theorem delete_at_value_pos (c : Node) (hc : c = .nil ∨ ∃ b, c = .value b) : (delete c []).2 = .nil := by
  rcases hc with rfl | ⟨b, rfl⟩ <;> simp [delete]

theorem content_delete (t : Node) :
    ∀ key, WFRoot t → ValidKey key → ∀ k',
      content (delete t key).2 k' = if k' = key then none else content t k' := by
  induction t using Node.induct with
  | hnil => intro key _ _ k'; simp [delete]
  | hval b => intro key h; rcases h with h | h <;> simp [WF] at h
  | hshort kk v ih =>
    intro key hwf hk k'
    have hwf : WF (.short kk v) := hwf.resolve_left (by simp)
    rw [delete_short_eq]
    split
    · -- mismatch: nothing to delete
      rename_i hlt
      have hnp : ¬ kk <+: key := fun h => by
        have := (prefixLen_eq_right_iff _ _).mpr h; omega
      by_cases hkk' : k' = key
      · subst hkk'; simp [content_short, hnp]
      · simp [hkk']
    · rename_i hge
      have hm : prefixLen key kk = kk.length := by
        have := prefixLen_le_right key kk; omega
      have hpre : kk <+: key := (prefixLen_eq_right_iff _ _).mp hm
      split
      · -- whole match: the leaf disappears
        rename_i hwhole
        have heq : kk = key := by
          have := (prefixLen_eq_left_iff _ _).mp hwhole
          exact List.IsPrefix.eq_of_length hpre (by rw [← hm, hwhole])
        subst heq
        rcases (WF_short_iff kk v).mp hwf with ⟨b, rfl, hkk, hb⟩ | ⟨cs, rfl, hne, hnib, hfull⟩
        · simp only [content_nil, content_leaf]
          by_cases h : k' = kk <;> simp [h]
        · exact absurd (List.prefix_refl kk) (hk.not_prefix_nibs hnib)
      · rename_i hnw
        rcases (WF_short_iff kk v).mp hwf with ⟨b, rfl, hkk, hb⟩ | ⟨cs, rfl, hne, hnib, hfull⟩
        · have heq : kk = key := hk.eq_of_prefix hkk hpre
          subst heq; exact absurd hm hnw
        · have hk2 : ValidKey (key.drop kk.length) := hk.drop_of_nibs hpre hnib
          have hcont : content (if (delete (.full cs) (key.drop kk.length)).1 = false then (false, Node.short kk (.full cs))
                else (true, mergeShort kk (delete (.full cs) (key.drop kk.length)).2)).2 k'
              = content (.short kk (delete (.full cs) (key.drop kk.length)).2) k' := by
            split
            · rename_i hnd
              rw [delete_not_dirty _ _ hnd]
            · exact content_mergeShort _ _ _
          rw [hcont, content_short, content_short]
          by_cases hp' : kk <+: k'
          · simp only [hp', if_true]
            rw [ih _ (Or.inr hfull) hk2]
            simp only [prefix_drop_eq_iff hp' hpre]
          · have : k' ≠ key := by intro h0; rw [h0] at hp'; exact hp' hpre
            simp [hp', this]
  | hfull cs ih =>
    intro key hwf hk k'
    have hwf : WF (.full cs) := hwf.resolve_left (by simp)
    obtain ⟨hlen, hslots, hcnt⟩ := (WF_full_iff cs).mp hwf
    obtain ⟨i, r, rfl⟩ : ∃ x r, key = x :: r := by
      cases key with
      | nil => exact absurd rfl hk.ne_nil
      | cons x r => exact ⟨x, r, rfl⟩
    have hi : i < 17 := by
      have := hk.le16 i (by simp); omega
    rw [delete_full_eq cs i r (by omega)]
    have hcont : content (if (delete (cs[i]?.getD .nil) r).1 = false then (false, Node.full cs)
          else (true, reduce (cs.set i (delete (cs[i]?.getD .nil) r).2))).2 k'
        = content (.full (cs.set i (delete (cs[i]?.getD .nil) r).2)) k' := by
      split
      · rename_i hnd
        rw [delete_not_dirty _ _ hnd, set_getD_self]
      · exact content_reduce _ _
    rw [hcont]
    cases k' with
    | nil => simp [content_full_nil]
    | cons j r' =>
      rw [content_full_cons, content_full_cons, getD_set _ _ _ _ (by omega)]
      by_cases hji : j = i
      · subst hji
        simp only [if_true, List.cons.injEq, true_and]
        rcases (validKey_cons j r).mp hk with ⟨rfl, rfl⟩ | ⟨hj16, hr⟩
        · have hs := hslots 16 (by omega)
          have hc : cs[16]?.getD .nil = .nil ∨ ∃ b, cs[16]?.getD .nil = .value b := by
            rcases hs with h | h
            · exact Or.inl h
            · simp only [if_true] at h
              obtain ⟨b, hb, _⟩ := h; exact Or.inr ⟨b, hb⟩
          rw [delete_at_value_pos _ hc]
          by_cases h : r' = []
          · simp [h]
          · simp only [h, if_false]
            rcases hc with h1 | ⟨b, h1⟩ <;> simp [h1, content_value, h]
        · have hs := hslots j (by omega)
          have hroot : WFRoot (cs[j]?.getD .nil) := by
            rcases hs with h | h
            · exact Or.inl h
            · have : ¬ j = 16 := by omega
              simp only [this, if_false] at h; exact Or.inr h
          rcases getD_mem_or_nil cs j with h0 | hmem
          · rw [h0]; simp [delete]
          · exact ih _ hmem r hroot hr r'
      · simp [hji]



/-! ### `delete` keeps the minimal form -/

theorem mergeShort_ne_nil (kk : Key) (c : Node) : mergeShort kk c ≠ .nil := by
  unfold mergeShort; split <;> simp

theorem reduce_ne_nil (cs' : List Node) : reduce cs' ≠ .nil := by
  unfold reduce
  split
  · split
    · exact mergeShort_ne_nil _ _
    · simp
  · simp

theorem WF_mergeShort (kk : Key) (c : Node) (hne : kk ≠ []) (hn : Nibs kk) (hc : WF c) : WF (mergeShort kk c) := by
  cases c with
  | nil => exact absurd hc not_WF_nil
  | value b => exact absurd hc (not_WF_value b)
  | full cs => exact (WF_short_iff _ _).mpr (Or.inr ⟨cs, rfl, hne, hn, hc⟩)
  | short ck cv =>
    simp only [mergeShort]
    rcases (WF_short_iff ck cv).mp hc with ⟨b, rfl, hck, hb⟩ | ⟨cs, rfl, hcne, hcn, hfull⟩
    · exact (WF_short_iff _ _).mpr (Or.inl ⟨b, rfl, (validKey_append kk ck hck.ne_nil).mpr ⟨hn, hck⟩, hb⟩)
    · exact (WF_short_iff _ _).mpr (Or.inr ⟨cs, rfl, by simp [hne], (nibs_append _ _).mpr ⟨hn, hcn⟩, hfull⟩)

theorem WF_reduce (cs' : List Node) (hlen : cs'.length = 17)
    (hslots : ∀ j, j < 17 → SlotOK j (cs'[j]?.getD .nil)) (hcnt : 1 ≤ countNN cs') : WF (reduce cs') := by
  unfold reduce
  cases hs : soleChild cs' with
  | none =>
    have := soleChild_none hs
    exact (WF_full_iff cs').mpr ⟨hlen, hslots, by omega⟩
  | some pos =>
    obtain ⟨hp, hne, _, _⟩ := soleChild_some hs
    have hsl := hslots pos (by omega)
    simp only
    by_cases h16 : pos = 16
    · subst h16
      rcases hsl with h | h
      · exact absurd h hne
      · simp only [if_true] at h
        obtain ⟨b, hb, hbne⟩ := h
        simp only [bne_self_eq_false, Bool.false_eq_true, if_false, hb]
        exact (WF_short_iff _ _).mpr (Or.inl ⟨b, rfl, by simp [ValidKey], hbne⟩)
    · have : (pos != 16) = true := by simpa using h16
      simp only [this, if_true]
      rcases hsl with h | h
      · exact absurd h hne
      · simp only [h16, if_false] at h
        exact WF_mergeShort _ _ (by simp) (by intro y hy; simp at hy; omega) h

theorem delete_full_ne_nil (cs : List Node) (key : Key) : (delete (.full cs) key).2 ≠ .nil := by
  cases key with
  | nil => simp [delete]
  | cons i r =>
    by_cases hi : i < cs.length
    · rw [delete_full_eq cs i r hi]
      split
      · simp
      · exact reduce_ne_nil _
    · simp [delete, deleteAt_oob cs i r (by omega)]

theorem delete_wf (t : Node) :
    ∀ key, WFRoot t → ValidKey key → WFRoot (delete t key).2 := by
  induction t using Node.induct with
  | hnil => intro key _ _; left; simp [delete]
  | hval b => intro key h; rcases h with h | h <;> simp [WF] at h
  | hshort kk v ih =>
    intro key hwf0 hk
    have hwf : WF (.short kk v) := hwf0.resolve_left (by simp)
    rw [delete_short_eq]
    split
    · exact hwf0
    · rename_i hge
      have hm : prefixLen key kk = kk.length := by
        have := prefixLen_le_right key kk; omega
      have hpre : kk <+: key := (prefixLen_eq_right_iff _ _).mp hm
      split
      · left; rfl
      · rename_i hnw
        split
        · exact hwf0
        · rename_i hd
          rcases (WF_short_iff kk v).mp hwf with ⟨b, rfl, hkk, hb⟩ | ⟨cs, rfl, hne, hnib, hfull⟩
          · have heq : kk = key := hk.eq_of_prefix hkk hpre
            subst heq; exact absurd hm hnw
          · have hk2 : ValidKey (key.drop kk.length) := hk.drop_of_nibs hpre hnib
            have hw := (ih _ (Or.inr hfull) hk2).resolve_left (delete_full_ne_nil cs _)
            right
            exact WF_mergeShort _ _ hne hnib hw
  | hfull cs ih =>
    intro key hwf0 hk
    have hwf : WF (.full cs) := hwf0.resolve_left (by simp)
    obtain ⟨hlen, hslots, hcnt⟩ := (WF_full_iff cs).mp hwf
    obtain ⟨i, r, rfl⟩ : ∃ x r, key = x :: r := by
      cases key with
      | nil => exact absurd rfl hk.ne_nil
      | cons x r => exact ⟨x, r, rfl⟩
    have hi : i < 17 := by
      have := hk.le16 i (by simp); omega
    rw [delete_full_eq cs i r (by omega)]
    split
    · exact hwf0
    · right
      have hX : SlotOK i (delete (cs[i]?.getD .nil) r).2 := by
        rcases (validKey_cons i r).mp hk with ⟨rfl, rfl⟩ | ⟨hj16, hr⟩
        · have hs := hslots 16 (by omega)
          have hc : cs[16]?.getD .nil = .nil ∨ ∃ b, cs[16]?.getD .nil = .value b := by
            rcases hs with h | h
            · exact Or.inl h
            · simp only [if_true] at h
              obtain ⟨b, hb, _⟩ := h; exact Or.inr ⟨b, hb⟩
          rw [delete_at_value_pos _ hc]; left; rfl
        · have hs := hslots i (by omega)
          have hne16 : ¬ i = 16 := by omega
          have hroot : WFRoot (cs[i]?.getD .nil) := by
            rcases hs with h | h
            · exact Or.inl h
            · simp only [hne16, if_false] at h; exact Or.inr h
          have hw : WFRoot (delete (cs[i]?.getD .nil) r).2 := by
            rcases getD_mem_or_nil cs i with h0 | hmem
            · rw [h0]; left; simp [delete]
            · exact ih _ hmem r hroot hr
          rcases hw with h | h
          · left; exact h
          · right; simp only [hne16, if_false]; exact h
      apply WF_reduce
      · simp [hlen]
      · intro j hj
        rw [getD_set _ _ _ _ (by omega)]
        by_cases hji : j = i
        · subst hji; simpa using hX
        · simpa [hji] using hslots j hj
      · have := countNN_set cs i (delete (cs[i]?.getD .nil) r).2 (by omega)
        split at this <;> split at this <;> omega


/-- on a minimal-form trie and a terminated key, `tryGet` returns the abstract content -/
theorem get_eq_content (t : Node) : ∀ k, WFRoot t → ValidKey k → get t k = content t k := by
  induction t using Node.induct with
  | hnil => intro k _ _; simp
  | hval b => intro k h; rcases h with h | h <;> simp [WF] at h
  | hshort kk v ih =>
    intro k hwf hk
    have hwf : WF (.short kk v) := hwf.resolve_left (by simp)
    rw [get_short, content_short]
    by_cases hp : kk <+: k
    · simp only [hp, if_true]
      rcases (WF_short_iff kk v).mp hwf with ⟨b, rfl, hkk, hb⟩ | ⟨cs, rfl, hne, hnib, hfull⟩
      · have heq : kk = k := hk.eq_of_prefix hkk hp
        subst heq; simp [content_value]
      · exact ih _ (Or.inr hfull) (hk.drop_of_nibs hp hnib)
    · simp [hp]
  | hfull cs ih =>
    intro k hwf hk
    have hwf : WF (.full cs) := hwf.resolve_left (by simp)
    obtain ⟨hlen, hslots, hcnt⟩ := (WF_full_iff cs).mp hwf
    obtain ⟨i, r, rfl⟩ : ∃ x r, k = x :: r := by
      cases k with
      | nil => exact absurd rfl hk.ne_nil
      | cons x r => exact ⟨x, r, rfl⟩
    have hi : i < 17 := by
      have := hk.le16 i (by simp); omega
    rw [get_full_cons, content_full_cons]
    rcases (validKey_cons i r).mp hk with ⟨rfl, rfl⟩ | ⟨hj16, hr⟩
    · rcases hslots 16 (by omega) with h | h
      · rw [h]; simp
      · simp only [if_true] at h
        obtain ⟨b, hb, _⟩ := h
        rw [hb]; simp [content_value]
    · have hroot : WFRoot (cs[i]?.getD .nil) := by
        rcases hslots i (by omega) with h | h
        · exact Or.inl h
        · have : ¬ i = 16 := by omega
          simp only [this, if_false] at h; exact Or.inr h
      rcases getD_mem_or_nil cs i with h0 | hmem
      · rw [h0]; simp
      · exact ih _ hmem r hroot hr

end Rangers.Trie
