import Rangers.Model.RLPStream
import Rangers.Proofs.RLPKindRefine
/-! Refinement of the `Stream` state machine to the slice decoders: exact effect of the read
    primitives on a `DecodeBytes`-style stream (limited, `remaining = len(inp)`). -/
namespace Rangers.RLP
open Rangers

/-- advance the innermost list position -/
def bump : List (Nat × Nat) → Nat → List (Nat × Nat)
  | [], _ => []
  | (p, sz) :: r, n => (p + n, sz) :: r

/-- bytes the next read may take: rest of the innermost list, or of the input at top level -/
def avail (st : List (Nat × Nat)) (rem : Nat) : Nat :=
  match st with
  | [] => rem
  | (p, sz) :: _ => sz - p

/-- the part of the state that determines what reads return -/
structure Core (s : Stream) (inp : Bytes) (st : List (Nat × Nat)) : Prop where
  inp_eq : s.inp = inp
  rem : s.remaining = inp.length
  stk : s.stack = st
  lim : s.limited = true

theorem avail_bump (st : List (Nat × Nat)) (rem n : Nat) (h : n ≤ avail st rem) (hr : avail st rem ≤ rem) :
    avail (bump st n) (rem - n) = avail st rem - n := by
  cases st with
  | nil => simp [avail, bump]
  | cons t r => obtain ⟨p, sz⟩ := t; simp only [avail, bump] at h ⊢; omega

/-- `willRead n` with `n` available: positions advance, nothing is refused. -/
theorem willRead_ok {s : Stream} {inp : Bytes} {st : List (Nat × Nat)} (hc : Core s inp st) (n : Nat)
    (hn : n ≤ avail st inp.length) (hav : avail st inp.length ≤ inp.length) :
    (willRead s n).1 = none ∧ (willRead s n).2.inp = inp ∧ (willRead s n).2.remaining = inp.length - n ∧
    (willRead s n).2.stack = bump st n ∧ (willRead s n).2.limited = true ∧ (willRead s n).2.kind = none ∧
    (willRead s n).2.consumed = s.consumed ∧ (willRead s n).2.byteval = s.byteval := by
  obtain ⟨h1, h2, h3, h4⟩ := hc
  unfold willRead
  cases st with
  | nil =>
    simp only [avail] at hn
    have hn' : ¬ inp.length < n := by omega
    simp [h3, willReadLimit, h4, hn', h1, h2, bump]
  | cons t r =>
    obtain ⟨p, sz⟩ := t
    simp only [avail] at hn hav
    have a1 : ¬ sz - p < n := by omega
    have a2 : ¬ inp.length < n := by omega
    simp [h3, a1, willReadLimit, h4, a2, h1, h2, bump]

theorem readByte_ok {s : Stream} {x : UInt8} {tl : Bytes} {st : List (Nat × Nat)} (hc : Core s (x :: tl) st)
    (hn : 1 ≤ avail st (x :: tl).length) (hav : avail st (x :: tl).length ≤ (x :: tl).length) :
    (readByte s).1 = .ok x ∧ Core (readByte s).2 tl (bump st 1) ∧ (readByte s).2.kind = none ∧
    (readByte s).2.byteval = s.byteval := by
  obtain ⟨w1, w2, w3, w4, w5, w6, w7, w8⟩ := willRead_ok hc 1 hn hav
  unfold readByte
  cases hw : willRead s 1 with
  | mk oe s1 =>
    rw [hw] at w1 w2 w3 w4 w5 w6 w7 w8
    simp only at w1 w2 w3 w4 w5 w6 w7 w8
    subst w1
    simp only [w2]
    refine ⟨trivial, ⟨rfl, ?_, w4, w5⟩, w6, w8⟩
    simp only [w3, List.length_cons]; omega

theorem readFull_ok {s : Stream} {inp : Bytes} {st : List (Nat × Nat)} (hc : Core s inp st) (n : Nat)
    (hn : n ≤ avail st inp.length) (hav : avail st inp.length ≤ inp.length) :
    (readFull s n).1 = .ok (inp.take n) ∧ Core (readFull s n).2 (inp.drop n) (bump st n) ∧
    (readFull s n).2.kind = none ∧ (readFull s n).2.byteval = s.byteval := by
  obtain ⟨w1, w2, w3, w4, w5, w6, w7, w8⟩ := willRead_ok hc n hn hav
  unfold readFull
  cases hw : willRead s n with
  | mk oe s1 =>
    rw [hw] at w1 w2 w3 w4 w5 w6 w7 w8
    simp only at w1 w2 w3 w4 w5 w6 w7 w8
    subst w1
    have hle : n ≤ inp.length := by omega
    simp only [w2, if_pos hle]
    refine ⟨trivial, ⟨rfl, ?_, w4, w5⟩, w6, w8⟩
    simp only [w3, List.length_drop]

/-- the long-size path of `Stream.readKind` reads what `readLong` computes on the visible window -/
theorem readLongSize_ok {s : Stream} {tl : Bytes} {st : List (Nat × Nat)} (hc : Core s tl st) (n cs : Nat)
    (hn1 : 1 ≤ n) (hav : avail st tl.length ≤ tl.length)
    (hl : readLong (tl.take (avail st tl.length)) n = .ok cs) :
    (readLongSize s n).1 = (cs, none) ∧ Core (readLongSize s n).2 (tl.drop n) (bump st n) ∧
    (readLongSize s n).2.kind = none ∧ (readLongSize s n).2.byteval = s.byteval := by
  obtain ⟨hlen, hbe, h56⟩ := readLong_inv hl hn1
  have hna : n ≤ avail st tl.length := by
    simp only [List.length_take] at hlen; omega
  have htake : tl.take n = toBE cs := by
    rw [hbe, List.take_take]; congr 1; omega
  have hbn : beNat (tl.take n) = cs := by rw [htake, beNat_toBE]
  unfold readLongSize readUint
  have hn0 : ¬ n = 0 := by omega
  rw [if_neg hn0]
  by_cases h1 : n = 1
  · subst h1
    rw [if_pos rfl]
    cases tl with
    | nil =>
      have := congrArg List.length htake
      have hp := toBE_length_pos (show cs ≠ 0 by omega)
      simp at this; omega
    | cons b0 rest =>
      obtain ⟨r1, r2, r3, r4⟩ := readByte_ok hc (by omega) hav
      have hb0 : b0.toNat = cs := by simpa [beNat] using hbn
      cases hr : readByte s with
      | mk r s1 =>
        rw [hr] at r1 r2 r3 r4
        simp only at r1 r2 r3 r4
        subst r1
        simp only
        have hlt : ¬ cs < 56 := by omega
        rw [hb0, if_neg hlt]
        exact ⟨rfl, by simpa using r2, r3, r4⟩
  · rw [if_neg h1]
    obtain ⟨r1, r2, r3, r4⟩ := readFull_ok hc n hna hav
    cases hr : readFull s n with
    | mk r s1 =>
      rw [hr] at r1 r2 r3 r4
      simp only at r1 r2 r3 r4
      subst r1
      simp only
      cases hb : tl.take n with
      | nil =>
        have := congrArg List.length hb
        simp only [List.length_take, List.length_nil] at this
        omega
      | cons b0 rest =>
        have hm : b0.toNat ≠ 0 := toBE_head_ne_zero cs b0 rest (by rw [← htake, hb])
        simp only [hm, if_false]
        rw [← hb, hbn]
        have hlt : ¬ cs < 56 := by omega
        rw [if_neg hlt]
        exact ⟨rfl, r2, r3, r4⟩

theorem take_cons_pos {x : UInt8} {tl : Bytes} {a : Nat} (h : 1 ≤ a) : (x :: tl).take a = x :: tl.take (a - 1) := by
  cases a with
  | zero => omega
  | succ k => simp

/-- header length actually consumed from the reader for a header `readHead` describes -/
def hdrLen (k : Kind) (ts : Nat) : Nat := if k = .byte then 1 else ts
/-- the size `Kind()` reports (0 for a single byte) -/
def kSize (k : Kind) (cs : Nat) : Nat := if k = .byte then 0 else cs

set_option maxRecDepth 8192 in
/-- `Stream.readKind` on a stream whose visible window parses (as a slice) to `(k, ts, cs)` -/
theorem sReadKind_ok {s : Stream} {x : UInt8} {tl : Bytes} {st : List (Nat × Nat)} {k : Kind} {ts cs : Nat}
    (hc : Core s (x :: tl) st) (ha1 : 1 ≤ avail st (x :: tl).length)
    (hav : avail st (x :: tl).length ≤ (x :: tl).length)
    (hh : readHead ((x :: tl).take (avail st (x :: tl).length)) = .ok (k, ts, cs)) :
    (sReadKind s).1 = (k, kSize k cs, none) ∧
    Core (sReadKind s).2 ((x :: tl).drop (hdrLen k ts)) (bump st (hdrLen k ts)) ∧
    (k = .byte → (sReadKind s).2.byteval = x) ∧
    kSize k cs ≤ avail st (x :: tl).length - hdrLen k ts ∧ hdrLen k ts ≤ avail st (x :: tl).length := by
  rw [take_cons_pos ha1] at hh
  obtain ⟨b1, b2, b3, b4⟩ := readByte_ok hc ha1 hav
  have hav1 : avail (bump st 1) tl.length ≤ tl.length := by
    have := avail_bump st (x :: tl).length 1 ha1 hav
    simp only [List.length_cons, Nat.add_sub_cancel] at this hav ⊢
    omega
  have hab : avail (bump st 1) tl.length = avail st (x :: tl).length - 1 := by
    have := avail_bump st (x :: tl).length 1 ha1 hav
    simpa using this
  unfold sReadKind
  cases hr : readByte s with
  | mk r s1 =>
    rw [hr] at b1 b2 b3 b4
    simp only at b1 b2 b3 b4
    subst b1
    simp only
    have hc0 : Core { s1 with byteval := 0 } tl (bump st 1) := ⟨b2.inp_eq, b2.rem, b2.stk, b2.lim⟩
    simp only [readHead, List.length_cons, List.length_take] at hh
    by_cases c1 : x.toNat < 0x80
    · simp only [c1, if_true] at hh ⊢
      split at hh
      · cases hh
      · simp only [Except.ok.injEq, Prod.mk.injEq] at hh
        obtain ⟨rfl, rfl, rfl⟩ := hh
        refine ⟨by first | rfl | trivial, ?_, (fun _ => by first | rfl | trivial), ?_, ?_⟩
        · simpa [hdrLen] using (⟨b2.inp_eq, b2.rem, b2.stk, b2.lim⟩ : Core { s1 with byteval := x } tl (bump st 1))
        · simp [kSize]
        · simp only [hdrLen, if_true]; exact ha1
    · simp only [c1, if_false] at hh ⊢
      by_cases c2 : x.toNat < 0xb8
      · simp only [c2, if_true] at hh ⊢
        split at hh
        · cases hh
        · rename_i hfit
          simp only [Except.ok.injEq, Prod.mk.injEq] at hh
          obtain ⟨rfl, rfl, rfl⟩ := hh
          refine ⟨by first | rfl | trivial, ?_, (fun h => by cases h), ?_, ?_⟩
          · simpa [hdrLen] using hc0
          · simp only [kSize, hdrLen, reduceCtorEq, if_false, List.length_cons] at hfit hav ha1 ⊢; omega
          · simp only [hdrLen, reduceCtorEq, if_false]; exact ha1
      · simp only [c2, if_false] at hh ⊢
        by_cases c3 : x.toNat < 0xc0
        · simp only [c3, if_true] at hh ⊢
          cases hl : readLong (tl.take (avail st (tl.length + 1) - 1)) (x.toNat - 0xb7) with
          | error e => rw [hl] at hh; cases hh
          | ok sz =>
            rw [hl] at hh
            simp only at hh
            split at hh
            · cases hh
            · rename_i hfit
              simp only [Except.ok.injEq, Prod.mk.injEq] at hh
              obtain ⟨rfl, rfl, rfl⟩ := hh
              have hl' : readLong (tl.take (avail (bump st 1) tl.length)) (x.toNat - 0xb7) = .ok sz := by
                rw [hab]; simpa using hl
              obtain ⟨l1, l2, l3, l4⟩ := readLongSize_ok hc0 (x.toNat - 0xb7) sz (by omega) hav1 hl'
              have hn := (readLong_inv hl (by omega)).1
              simp only [List.length_take] at hn
              cases hrl : readLongSize { s1 with byteval := 0 } (x.toNat - 0xb7) with
              | mk r2 s2 =>
                rw [hrl] at l1 l2 l3 l4
                simp only at l1 l2 l3 l4
                subst l1
                refine ⟨by first | rfl | trivial, ?_, (fun h => by cases h), ?_, ?_⟩
                · simp only [hdrLen, reduceCtorEq, if_false]
                  have e1 : (x :: tl).drop (x.toNat - 0xb7 + 1) = tl.drop (x.toNat - 0xb7) := by simp
                  have e2 : bump st (x.toNat - 0xb7 + 1) = bump (bump st 1) (x.toNat - 0xb7) := by
                    cases st with
                    | nil => rfl
                    | cons t r => obtain ⟨p, q⟩ := t; simp only [bump]; congr 2; omega
                  rw [e1, e2]; exact l2
                · simp only [kSize, hdrLen, reduceCtorEq, if_false, List.length_cons]; omega
                · simp only [hdrLen, reduceCtorEq, if_false, List.length_cons]; omega
        · simp only [c3, if_false] at hh ⊢
          by_cases c4 : x.toNat < 0xf8
          · simp only [c4, if_true] at hh ⊢
            split at hh
            · cases hh
            · rename_i hfit
              simp only [Except.ok.injEq, Prod.mk.injEq] at hh
              obtain ⟨rfl, rfl, rfl⟩ := hh
              refine ⟨by first | rfl | trivial, ?_, (fun h => by cases h), ?_, ?_⟩
              · simpa [hdrLen] using hc0
              · simp only [kSize, hdrLen, reduceCtorEq, if_false, List.length_cons] at hfit hav ha1 ⊢; omega
              · simp only [hdrLen, reduceCtorEq, if_false]; exact ha1
          · simp only [c4, if_false] at hh ⊢
            cases hl : readLong (tl.take (avail st (tl.length + 1) - 1)) (x.toNat - 0xf7) with
            | error e => rw [hl] at hh; cases hh
            | ok sz =>
              rw [hl] at hh
              simp only at hh
              split at hh
              · cases hh
              · rename_i hfit
                simp only [Except.ok.injEq, Prod.mk.injEq] at hh
                obtain ⟨rfl, rfl, rfl⟩ := hh
                have hxb := x.toNat_lt
                have hl' : readLong (tl.take (avail (bump st 1) tl.length)) (x.toNat - 0xf7) = .ok sz := by
                  rw [hab]; simpa using hl
                obtain ⟨l1, l2, l3, l4⟩ := readLongSize_ok hc0 (x.toNat - 0xf7) sz (by omega) hav1 hl'
                have hn := (readLong_inv hl (by omega)).1
                simp only [List.length_take] at hn
                cases hrl : readLongSize { s1 with byteval := 0 } (x.toNat - 0xf7) with
                | mk r2 s2 =>
                  rw [hrl] at l1 l2 l3 l4
                  simp only at l1 l2 l3 l4
                  subst l1
                  refine ⟨by first | rfl | trivial, ?_, (fun h => by cases h), ?_, ?_⟩
                  · simp only [hdrLen, reduceCtorEq, if_false]
                    have e1 : (x :: tl).drop (x.toNat - 0xf7 + 1) = tl.drop (x.toNat - 0xf7) := by simp
                    have e2 : bump st (x.toNat - 0xf7 + 1) = bump (bump st 1) (x.toNat - 0xf7) := by
                      cases st with
                      | nil => rfl
                      | cons t r => obtain ⟨p, q⟩ := t; simp only [bump]; congr 2; omega
                    rw [e1, e2]; exact l2
                  · simp only [kSize, hdrLen, reduceCtorEq, if_false, List.length_cons]; omega
                  · simp only [hdrLen, reduceCtorEq, if_false, List.length_cons]; omega

theorem atEnd_false {st : List (Nat × Nat)} {rem : Nat} (h : 1 ≤ avail st rem) (hs : st ≠ [] ∨ True) : atEnd st = false := by
  cases st with
  | nil => rfl
  | cons t r => obtain ⟨p, sz⟩ := t; simp only [avail] at h; simp only [atEnd, decide_eq_false_iff_not]; omega

/-- `Kind()` at an element boundary: the header the slice parser sees is read, cached and fits. -/
theorem sKind_ok {s : Stream} {x : UInt8} {tl : Bytes} {st : List (Nat × Nat)} {k : Kind} {ts cs : Nat}
    (hc : Core s (x :: tl) st) (hk : s.kind = none) (ha1 : 1 ≤ avail st (x :: tl).length)
    (hav : avail st (x :: tl).length ≤ (x :: tl).length)
    (hh : readHead ((x :: tl).take (avail st (x :: tl).length)) = .ok (k, ts, cs)) :
    (sKind s).1 = .ok (k, kSize k cs) ∧
    Core (sKind s).2 ((x :: tl).drop (hdrLen k ts)) (bump st (hdrLen k ts)) ∧
    (sKind s).2.kind = some k ∧ (sKind s).2.size = kSize k cs ∧ (sKind s).2.kinderr = none ∧
    (k = .byte → (sKind s).2.byteval = x) ∧
    kSize k cs ≤ avail st (x :: tl).length - hdrLen k ts ∧ hdrLen k ts ≤ avail st (x :: tl).length := by
  have hc0 : Core { s with kinderr := none } (x :: tl) st := ⟨hc.inp_eq, hc.rem, hc.stk, hc.lim⟩
  obtain ⟨r1, r2, r3, r4, r5⟩ := sReadKind_ok hc0 ha1 hav hh
  unfold sKind
  rw [hk]
  simp only
  unfold sKindFresh
  simp only
  have hat : atEnd s.stack = false := by rw [hc.stk]; exact atEnd_false ha1 (Or.inr trivial)
  rw [hat]
  simp only [Bool.false_eq_true, if_false]
  cases hr : sReadKind { s with kinderr := none } with
  | mk r s1 =>
    rw [hr] at r1 r2 r3
    simp only at r1 r2 r3
    subst r1
    simp only
    have hb : kindBoundErr s1 (kSize k cs) = none := by
      unfold kindBoundErr
      rw [r2.stk]
      cases st with
      | nil =>
        simp only [bump, avail] at r4 ⊢
        have : ¬ (s1.limited = true ∧ kSize k cs > s1.remaining) := by
          rw [r2.rem]; simp only [List.length_drop]; intro ⟨_, h⟩; omega
        simp [this]
      | cons t r =>
        obtain ⟨p, sz⟩ := t
        simp only [bump, avail] at r4 ⊢
        have : ¬ kSize k cs > sz - (p + hdrLen k ts) := by omega
        simp [this]
    rw [hb]
    exact ⟨by first | rfl | trivial, ⟨r2.inp_eq, r2.rem, r2.stk, r2.lim⟩, by first | rfl | trivial, by first | rfl | trivial, by first | rfl | trivial, r3, r4, r5⟩

theorem bump_bump (st : List (Nat × Nat)) (a b : Nat) : bump (bump st a) b = bump st (a + b) := by
  cases st with
  | nil => rfl
  | cons t r => obtain ⟨p, sz⟩ := t; simp only [bump]; congr 2; omega

theorem bump_zero (st : List (Nat × Nat)) : bump st 0 = st := by
  cases st with
  | nil => rfl
  | cons t r => obtain ⟨p, sz⟩ := t; simp [bump]

theorem take_drop_take (l : Bytes) (a ts cs : Nat) (h : ts + cs ≤ a) : ((l.take a).drop ts).take cs = (l.drop ts).take cs := by
  rw [List.drop_take, List.take_take]; congr 1; omega

/-- `Bytes()` at an element boundary returns the content the slice parser delimits -/
theorem sBytes_ok {s : Stream} {x : UInt8} {tl : Bytes} {st : List (Nat × Nat)} {k : Kind} {ts cs : Nat}
    (hc : Core s (x :: tl) st) (hk : s.kind = none) (ha1 : 1 ≤ avail st (x :: tl).length)
    (hav : avail st (x :: tl).length ≤ (x :: tl).length)
    (hh : readHead ((x :: tl).take (avail st (x :: tl).length)) = .ok (k, ts, cs)) (hnl : k ≠ .list)
    (hcanon : ¬ (k = .string ∧ cs = 1 ∧ headLt128 (((x :: tl).take (avail st (x :: tl).length)).drop ts) = true)) :
    (sBytes s).1 = .ok ((((x :: tl).take (avail st (x :: tl).length)).drop ts).take cs) ∧
    Core (sBytes s).2 ((x :: tl).drop (ts + cs)) (bump st (ts + cs)) ∧ (sBytes s).2.kind = none := by
  obtain ⟨k1, k2, k3, k4, k5, k6, k7, k8⟩ := sKind_ok hc hk ha1 hav hh
  obtain ⟨hl, _, hcase⟩ := readHead_inv hh
  simp only [List.length_take] at hl
  unfold sBytes
  cases hr : sKind s with
  | mk r s1 =>
    rw [hr] at k1 k2 k3 k4 k5 k6
    simp only at k1 k2 k3 k4 k5 k6
    subst k1
    simp only
    cases k with
    | list => exact absurd rfl hnl
    | byte =>
      rcases hcase with ⟨_, hts, hcs, _⟩ | ⟨h, _⟩ | ⟨h, _⟩
      · subst hts hcs
        simp only [hdrLen, if_true] at k2
        rw [take_cons_pos ha1]
        simp only [List.drop_zero, List.take_succ_cons, List.take_zero]
        exact ⟨by rw [k6 rfl], ⟨k2.inp_eq, k2.rem, k2.stk, k2.lim⟩, by first | rfl | trivial⟩
      · cases h
      · cases h
    | string =>
      simp only [hdrLen, kSize, reduceCtorEq, if_false] at k2 k4 k7 k8
      have hks : kSize Kind.string cs = cs := by simp [kSize]
      simp only [hks]
      have hc1 : Core { s1 with allocs := cs :: s1.allocs } ((x :: tl).drop ts) (bump st ts) :=
        ⟨k2.inp_eq, k2.rem, k2.stk, k2.lim⟩
      have hab := avail_bump st (x :: tl).length ts k8 hav
      have hcl : ((x :: tl).drop ts).length = (x :: tl).length - ts := by simp
      obtain ⟨f1, f2, f3, _⟩ := readFull_ok hc1 cs (by rw [hcl, hab]; exact k7) (by rw [hcl, hab]; omega)
      cases hrf : readFull { s1 with allocs := cs :: s1.allocs } cs with
      | mk r2 s2 =>
        rw [hrf] at f1 f2 f3
        simp only at f1 f2 f3
        subst f1
        simp only
        have hcont : (((x :: tl).take (avail st (x :: tl).length)).drop ts).take cs = ((x :: tl).drop ts).take cs :=
          take_drop_take _ _ _ _ (by omega)
        have hcan : ¬ (cs = 1 ∧ headLt128 (((x :: tl).drop ts).take cs) = true) := by
          intro ⟨h1, h2⟩
          apply hcanon
          refine ⟨rfl, h1, ?_⟩
          subst h1
          rw [← hcont] at h2
          rw [headLt128_take (by omega)] at h2
          exact h2
        rw [if_neg hcan, hcont]
        refine ⟨rfl, ?_, f3⟩
        rw [List.drop_drop, bump_bump] at f2
        exact ⟨f2.inp_eq, f2.rem, f2.stk, f2.lim⟩

end Rangers.RLP
