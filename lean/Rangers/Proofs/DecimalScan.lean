import Rangers.Proofs.DecimalArith
/-!
String level of the C18 model: what `nat.scan` / `Float.scan` / `Float.Parse` do on a
plain decimal string `[sign] digits [ "." digits ]`, and what shape `bigIntToStr`
produces.
-/
namespace Rangers.Decimal

/-- all characters are decimal digits -/
def allDig (s : Str) : Prop := ∀ c ∈ s, isDig c = true

instance (s : Str) : Decidable (allDig s) := by unfold allDig; infer_instance

theorem allDig_nil : allDig [] := by intro c h; cases h

theorem allDig_cons {c : Char} {s : Str} : allDig (c :: s) ↔ isDig c = true ∧ allDig s := by
  unfold allDig; simp

theorem allDig_append {a b : Str} : allDig (a ++ b) ↔ allDig a ∧ allDig b := by
  unfold allDig
  constructor
  · intro h; exact ⟨fun c hc => h c (List.mem_append_left _ hc), fun c hc => h c (List.mem_append_right _ hc)⟩
  · rintro ⟨h1, h2⟩ c hc
    rcases List.mem_append.mp hc with h | h
    · exact h1 c h
    · exact h2 c h

theorem allDig_replicate_zero (k : Nat) : allDig (List.replicate k '0') := by
  intro c hc
  rw [List.eq_of_mem_replicate hc]; decide

theorem allDig_toDigits (n : Nat) : allDig (Nat.toDigits 10 n) := by
  intro c hc
  exact Nat.isDigit_of_mem_toDigits (by decide) (by decide) hc

theorem isDig_ne_dot {c : Char} (h : isDig c = true) : c ≠ '.' := by
  rintro rfl; revert h; decide

theorem isDig_ne_minus {c : Char} (h : isDig c = true) : c ≠ '-' := by
  rintro rfl; revert h; decide

theorem isDig_ne_plus {c : Char} (h : isDig c = true) : c ≠ '+' := by
  rintro rfl; revert h; decide

theorem isDig_ne_f {c : Char} (h : isDig c = true) : c ≠ 'f' := by
  rintro rfl; revert h; decide

/-! ### nat.scan -/

theorem scanMant_digits (ds rest : Str) (fo : Bool) (m cnt : Nat) (dp : Option Nat) (h : allDig ds) :
    scanMant (ds ++ rest) fo m cnt dp = scanMant rest fo (Nat.ofDigitChars 10 ds m) (cnt + ds.length) dp := by
  induction ds generalizing m cnt with
  | nil => simp
  | cons c cs ih =>
    obtain ⟨hc, hcs⟩ := allDig_cons.mp h
    have hne : c ≠ '.' := isDig_ne_dot hc
    rw [List.cons_append, scanMant]
    simp only [hne, decide_false, Bool.false_and, Bool.false_eq_true, if_false, hc, if_true]
    rw [ih _ _ hcs, Nat.ofDigitChars_cons, List.length_cons]
    congr 1
    · unfold digVal; rw [Nat.mul_comm]
    · omega

theorem scanMant_dot (rest : Str) (m cnt : Nat) (dp : Option Nat) :
    scanMant ('.' :: rest) true m cnt dp = scanMant rest false m cnt (some cnt) := by
  rw [scanMant]; simp

theorem scanMant_nil (fo : Bool) (m cnt : Nat) (dp : Option Nat) :
    scanMant [] fo m cnt dp = ⟨m, cnt, dp, []⟩ := by
  rw [scanMant]

/-- body of a plain decimal: integer digits, optionally a radix point and fraction digits -/
def plainBody (ip fp : Str) (dot : Bool) : Str := ip ++ (if dot then '.' :: fp else [])

theorem scanMant_plain (ip fp : Str) (dot : Bool) (hip : allDig ip) (hfp : allDig fp)
    (hdot : dot = false → fp = []) :
    scanMant (plainBody ip fp dot) true 0 0 none =
      ⟨Nat.ofDigitChars 10 (ip ++ fp) 0, ip.length + fp.length,
        if dot then some ip.length else none, []⟩ := by
  unfold plainBody
  cases dot with
  | false =>
    have : fp = [] := hdot rfl
    subst this
    simp only [Bool.false_eq_true, if_false]
    have := scanMant_digits ip [] true 0 0 none hip
    rw [this, scanMant_nil]; simp
  | true =>
    simp only [if_true]
    rw [scanMant_digits ip _ true 0 0 none hip, scanMant_dot]
    have := scanMant_digits fp [] false (Nat.ofDigitChars 10 ip 0) (0 + ip.length) (some (0 + ip.length)) hfp
    rw [List.append_nil] at this
    rw [this, scanMant_nil, Nat.ofDigitChars_append]; simp

/-! ### Float.scan / Float.Parse on a plain decimal -/

/-- optional sign: `none` = no sign character -/
def signStr : Option Bool → Str
  | none => []
  | some true => ['-']
  | some false => ['+']

def signNeg : Option Bool → Bool
  | some true => true
  | _ => false

theorem plainBody_ne_nil (ip fp : Str) (dot : Bool) (h : ip ++ fp ≠ []) (hdot : dot = false → fp = []) :
    plainBody ip fp dot ≠ [] := by
  unfold plainBody
  cases dot with
  | true => simp
  | false =>
    have := hdot rfl
    subst this
    simpa using h

/-- the first character of a plain body is a digit or the radix point -/
theorem plainBody_head (ip fp : Str) (dot : Bool) (hip : allDig ip) (c : Char) (t : Str)
    (h : plainBody ip fp dot = c :: t) : c ≠ '-' ∧ c ≠ '+' := by
  unfold plainBody at h
  cases ip with
  | nil =>
    cases dot with
    | true =>
      simp at h
      obtain ⟨rfl, _⟩ := h
      constructor <;> decide
    | false => simp at h
  | cons a as =>
    simp at h
    obtain ⟨rfl, _⟩ := h
    have := (allDig_cons.mp hip).1
    exact ⟨isDig_ne_minus this, isDig_ne_plus this⟩

theorem scanFloat_sign (sg : Option Bool) (body : Str) (hne : body ≠ [])
    (hhead : ∀ c t, body = c :: t → c ≠ '-' ∧ c ≠ '+') :
    scanFloat (signStr sg ++ body) = scanBody (signNeg sg) body := by
  cases body with
  | nil => exact absurd rfl hne
  | cons c t =>
    obtain ⟨h1, h2⟩ := hhead c t rfl
    cases sg with
    | none => simp only [signStr, List.nil_append, scanFloat, h1, h2, if_false, signNeg]
    | some b =>
      cases b with
      | true => simp [signStr, scanFloat, signNeg]
      | false => simp [signStr, scanFloat, signNeg]

theorem scanExp_nil : scanExp [] = some (0, 10, []) := by rw [scanExp]

/-- the arithmetic half of `Float.scan` with `f` fraction digits and no exponent -/
theorem buildFloat_plain (neg : Bool) (M f : Nat) (fcount : Int)
    (hfc : (if fcount < 0 then fcount else 0) = -(f : Int))
    (hf : f ≤ 1000000) (hM : bitLen M ≤ 1000000) :
    buildFloat neg M fcount 0 10 = some (plainFloat neg M f) := by
  unfold buildFloat
  simp only [hfc, reduceIte, add_zero]
  have hr1 : ¬ ((bitLen M : Int) + -(f : Int) < minExp) := by unfold minExp; omega
  have hr2 : ¬ ((bitLen M : Int) + -(f : Int) > maxExp) := by unfold maxExp; omega
  simp only [hr1, hr2, decide_false, Bool.or_self, Bool.false_eq_true, if_false]
  unfold plainFloat
  by_cases hf0 : f = 0
  · simp [hf0]
  · have hlt : -(f : Int) < 0 := by omega
    have hne0 : -(f : Int) ≠ 0 := by omega
    simp [hf0, hne0]

/-- `Float.scan` on `[sign] ip [ "." fp ]`. -/
theorem scanFloat_plain (sg : Option Bool) (ip fp : Str) (dot : Bool) (hip : allDig ip) (hfp : allDig fp)
    (hdot : dot = false → fp = []) (hne : ip ++ fp ≠ [])
    (hf : fp.length ≤ 1000000) (hM : bitLen (Nat.ofDigitChars 10 (ip ++ fp) 0) ≤ 1000000) :
    scanFloat (signStr sg ++ plainBody ip fp dot) =
      if Nat.ofDigitChars 10 (ip ++ fp) 0 = 0 then some (.zero (signNeg sg))
      else some (plainFloat (signNeg sg) (Nat.ofDigitChars 10 (ip ++ fp) 0) fp.length) := by
  rw [scanFloat_sign sg _ (plainBody_ne_nil ip fp dot hne hdot) (plainBody_head ip fp dot hip)]
  unfold scanBody
  rw [scanMant_plain ip fp dot hip hfp hdot]
  have hcount : ip.length + fp.length ≠ 0 := by
    intro h
    apply hne
    have : (ip ++ fp).length = 0 := by rw [List.length_append]; exact h
    exact List.length_eq_zero_iff.mp this
  simp only [hcount, if_false, scanExp_nil]
  by_cases hM0 : Nat.ofDigitChars 10 (ip ++ fp) 0 = 0
  · simp [hM0]
  · simp only [hM0, if_false]
    have hfc : (if fcountOf (if dot = true then some ip.length else none) (ip.length + fp.length) < 0
                then fcountOf (if dot = true then some ip.length else none) (ip.length + fp.length)
                else 0) = -(fp.length : Int) := by
      cases dot with
      | false =>
        have := hdot rfl
        subst this
        simp [fcountOf]
      | true =>
        simp only [if_true, fcountOf]
        push_cast
        split <;> omega
    rw [buildFloat_plain (signNeg sg) _ fp.length _ hfc hf hM]
    simp

theorem parseFloat_eq_scanFloat (s : Str) (h : ∀ c ∈ s, c ≠ 'f') : parseFloat s = scanFloat s := by
  have hno : ∀ t : Str, 'f' ∈ t → s ≠ t := fun t ht e => h 'f' (e ▸ ht) rfl
  unfold parseFloat
  have h1 := hno ['I', 'n', 'f'] (by decide)
  have h2 := hno ['i', 'n', 'f'] (by decide)
  have h3 := hno ['+', 'I', 'n', 'f'] (by decide)
  have h4 := hno ['+', 'i', 'n', 'f'] (by decide)
  have h5 := hno ['-', 'I', 'n', 'f'] (by decide)
  have h6 := hno ['-', 'i', 'n', 'f'] (by decide)
  simp [h1, h2, h3, h4, h5, h6]

theorem plain_no_f (sg : Option Bool) (ip fp : Str) (dot : Bool) (hip : allDig ip) (hfp : allDig fp) :
    ∀ c ∈ signStr sg ++ plainBody ip fp dot, c ≠ 'f' := by
  intro c hc
  rcases List.mem_append.mp hc with h | h
  · cases sg with
    | none => simp [signStr] at h
    | some b => cases b <;> simp [signStr] at h <;> subst h <;> decide
  · unfold plainBody at h
    rcases List.mem_append.mp h with h | h
    · exact isDig_ne_f (hip c h)
    · cases dot with
      | false => simp at h
      | true =>
        simp only [if_true, List.mem_cons] at h
        rcases h with rfl | h
        · decide
        · exact isDig_ne_f (hfp c h)

/-- **Workhorse.** `strToBigInt` on a plain decimal string `[sign] ip [ "." fp ]` with
    at most 248 fraction digits (`pow5` exact), digits value `N`: if
    `N·10^(d - |fp|) < 2^510` the result is exactly `± ⌊N·10^d / 10^|fp|⌋`. -/
theorem strToBigInt_plain (sg : Option Bool) (ip fp : Str) (dot : Bool) (d : Nat)
    (hip : allDig ip) (hfp : allDig fp) (hdot : dot = false → fp = []) (hne : ip ++ fp ≠ [])
    (hf : fp.length ≤ 248)
    (hbound : Nat.ofDigitChars 10 (ip ++ fp) 0 * 10 ^ (d - fp.length) < 2 ^ 510) :
    strToBigInt (signStr sg ++ plainBody ip fp dot) (d : Int) =
      .ok (if signNeg sg then -((Nat.ofDigitChars 10 (ip ++ fp) 0 * 10 ^ d / 10 ^ fp.length : ℕ) : Int)
           else ((Nat.ofDigitChars 10 (ip ++ fp) 0 * 10 ^ d / 10 ^ fp.length : ℕ) : Int)) := by
  have hsne : signStr sg ++ plainBody ip fp dot ≠ [] := by
    intro h
    exact plainBody_ne_nil ip fp dot hne hdot (List.append_eq_nil_iff.mp h).2
  have hMlt : Nat.ofDigitChars 10 (ip ++ fp) 0 < 2 ^ 510 :=
    lt_of_le_of_lt (Nat.le_mul_of_pos_right _ (by positivity)) hbound
  have hMbits := bitLen_le_of_lt hMlt
  unfold strToBigInt
  rw [if_neg hsne, parseFloat_eq_scanFloat _ (plain_no_f sg ip fp dot hip hfp),
    scanFloat_plain sg ip fp dot hip hfp hdot hne (by omega) (by omega)]
  by_cases hM0 : Nat.ofDigitChars 10 (ip ++ fp) 0 = 0
  · simp only [hM0, if_true, Nat.zero_mul, Nat.zero_div]
    simp [mul, baseFloat, toInt]
  · simp only [hM0, if_false]
    obtain ⟨m, e, hmul, hint⟩ := plain_scaled (signNeg sg) _ fp.length d (Nat.pos_of_ne_zero hM0) hf hbound
    rw [hmul]
    simp only [hint]

end Rangers.Decimal
