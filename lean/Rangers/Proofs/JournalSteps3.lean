import Rangers.Proofs.JournalSuicide
/-! `RevAt` for GetCode, AddLog, AddSlotToAccessList. -/
namespace Rangers.Proofs.Journal
open Rangers Rangers.Model.Journal

section
variable (c : Cfg)

theorem revAt_qCode (s : ADB) (a : Addr) : RevAt c (fun x => (getCode x a).1) s := by
  by_cases hs : s.crashed = true
  · exact RevAt.of_crashed_fix hs (by simp [getCode, hs])
  have hs : s.crashed = false := by simpa using hs
  have h1 := revAt_resolve c s a
  cases hrn : resolve s a with
  | mk s1 r =>
    have e1 : (resolve s a).1 = s1 := by rw [hrn]
    cases r with
    | none => exact RevAt.congr_at (f' := fun x => (resolve x a).1) (by simp [getCode, hs, hrn]) h1
    | some o =>
      obtain ⟨hm, hd⟩ := resolve_some hrn
      have h2 : RevAt c (fun x => (loadCode x a).1) (resolve s a).1 := by rw [e1]; exact (revAt_loadCode c hm hd).2.2
      exact RevAt.congr_at (f' := fun x => (loadCode (resolve x a).1 a).1) (by simp [getCode, hs, hrn]) (RevAt.comp h1 h2)

/-! ### logs -/

theorem mset_same {α : Type} (m : List (Bytes × α)) (k : Bytes) (v : α) (h : mget m k = some v) : mset m k v = m := by
  induction m with
  | nil => simp [mget] at h
  | cons p t ih =>
    obtain ⟨pk, pv⟩ := p
    simp only [mget] at h
    by_cases hk : pk = k
    · subst hk; simp only [if_true, Option.some.injEq] at h; subst h; simp [mset]
    · simp only [hk, if_false] at h; simp [mset, hk, ih h]

theorem mset_mset {α : Type} (m : List (Bytes × α)) (k : Bytes) (v w : α) : mset (mset m k v) k w = mset m k w := by
  induction m with
  | nil => simp [mset]
  | cons p t ih =>
    obtain ⟨pk, pv⟩ := p
    by_cases hk : pk = k
    · subst hk; simp [mset]
    · simp [mset, hk, ih]

/-- representable log counter, and no tx hash is mapped to an empty log list (the package deletes the key instead) -/
def AddLogOk (s : ADB) : Prop := s.logSize + 1 < U64 ∧ mget s.logs s.thash ≠ some []

instance (s : ADB) : Decidable (AddLogOk s) := by unfold AddLogOk; infer_instance

theorem revAt_addLog (s : ADB) (a : Addr) (t d : Bytes) (hok : AddLogOk s) : RevAt c (fun x => addLog x a t d) s := by
  by_cases hs : s.crashed = true
  · exact RevAt.of_crashed_fix hs (by simp [addLog, hs])
  have hs : s.crashed = false := by simpa using hs
  obtain ⟨hsz, hne⟩ := hok
  refine ⟨fun h => (by rw [hs] at h; cases h), by simp [addLog, hs], by simp [addLog, hs],
    ⟨[Entry.addLog s.thash], by simp [addLog, hs], fun _ => ?_⟩⟩
  rw [undoAll_singleton]
  have hmod : (s.logSize + 1) % U64 = s.logSize + 1 := Nat.mod_eq_of_lt hsz
  have hback : (s.logSize + 1 + U64 - 1) % U64 = s.logSize := by
    have : s.logSize + 1 + U64 - 1 = s.logSize + U64 := by omega
    rw [this, Nat.add_mod_right]; exact Nat.mod_eq_of_lt (by omega)
  simp only [addLog, undo, hs, Bool.false_eq_true, if_false, mget_mset_self, Option.getD_some, hmod, hback]
  cases hold : mget s.logs s.thash with
  | none =>
    simp only [Option.getD_none, List.nil_append, mdel_mset_fresh _ _ _ hold]
    exact sim_of_same_view hs.symm rfl ⟨rfl, rfl, rfl, rfl, rfl, rfl, fun _ _ => rfl, rfl, rfl, rfl⟩
  | some l =>
    cases l with
    | nil => exact absurd hold hne
    | cons x xs =>
      simp only [Option.getD_some]
      cases xs with
      | nil =>
        simp only [List.cons_append, List.nil_append, List.dropLast, mset_mset, mset_same _ _ _ hold]
        exact sim_of_same_view hs.symm rfl ⟨rfl, rfl, rfl, rfl, rfl, rfl, fun _ _ => rfl, rfl, rfl, rfl⟩
      | cons y ys =>
        have hdl : ∀ r : LogRec, (x :: y :: (ys ++ [r])).dropLast = x :: y :: ys := by
          intro r; simp [List.dropLast_append_cons, List.dropLast]
        simp only [List.cons_append, hdl, mset_mset, mset_same _ _ _ hold]
        exact sim_of_same_view hs.symm rfl ⟨rfl, rfl, rfl, rfl, rfl, rfl, fun _ _ => rfl, rfl, rfl, rfl⟩


/-! ### access list slots -/

theorem sdel_not_mem (m : List Bytes) (k : Bytes) (h : k ∉ m) : sdel m k = m := by
  unfold sdel
  rw [List.filter_eq_self]
  intro x hx
  simp only [decide_eq_true_eq]
  intro hxk; subst hxk; exact h hx

theorem sdel_append_self (m : List Bytes) (k : Bytes) (h : k ∉ m) : sdel (m ++ [k]) k = m := by
  unfold sdel
  rw [List.filter_append]
  have : List.filter (fun x => decide (x ≠ k)) [k] = [] := by simp
  rw [this, List.append_nil]
  exact sdel_not_mem m k h

/-- a slot set that is about to be extended is not empty (`DeleteSlot` would otherwise truncate `slots`) -/
def AddSlotOk (s : ADB) (a : Addr) : Prop :=
  match mget s.al.addrs a with
  | none => True
  | some idx =>
    idx < 0 ∨ (match s.al.slots[idx.toNat]? with
      | some m => m ≠ []
      | none => True)

instance (s : ADB) (a : Addr) : Decidable (AddSlotOk s a) := by
  unfold AddSlotOk; split
  · infer_instance
  · apply instDecidableOr (dq := ?_); split <;> infer_instance

theorem al_ext {x y : AccessList} (h1 : x.addrs = y.addrs) (h2 : x.slots = y.slots) : x = y := by
  cases x; cases y; simp_all

theorem revAt_alSlot (s : ADB) (a : Addr) (slot : Hash) (hok : AddSlotOk s a) :
    RevAt c (fun x => addSlotToAccessList x a slot) s := by
  by_cases hs : s.crashed = true
  · exact RevAt.of_crashed_fix hs (by simp [addSlotToAccessList, hs])
  have hs : s.crashed = false := by simpa using hs
  have fin : ∀ (u : ADB), u.crashed = false → u.objs = s.objs → Frame u s → Sim u s :=
    fun u h1 h2 h3 => sim_of_same_view (h1.trans hs.symm) h2 h3
  cases hm : mget s.al.addrs a with
  | none =>
    -- address and slot are new: two entries
    have hadd : s.al.addSlot a slot = some ({ addrs := mset s.al.addrs a (Int.ofNat s.al.slots.length), slots := s.al.slots ++ [[slot]] }, true, true) := by
      simp [AccessList.addSlot, hm]
    refine ⟨fun h => (by rw [hs] at h; cases h), by simp [addSlotToAccessList, hs, hadd], by simp [addSlotToAccessList, hs, hadd],
      ⟨[Entry.alAddr a, Entry.alSlot a slot], by simp [addSlotToAccessList, hs, hadd], fun _ => ?_⟩⟩
    simp only [addSlotToAccessList, hs, hadd, Bool.false_eq_true, if_false, if_true, undoAll, List.reverse_cons, List.reverse_nil,
      List.nil_append, List.cons_append, List.foldl]
    have hdel : AccessList.deleteSlot { addrs := mset s.al.addrs a (Int.ofNat s.al.slots.length), slots := s.al.slots ++ [[slot]] } a slot =
        some { addrs := mset (mset s.al.addrs a (Int.ofNat s.al.slots.length)) a (-1), slots := s.al.slots } := by
      have h0 : ¬ (Int.ofNat s.al.slots.length < 0) := Int.not_lt.mpr (Int.natCast_nonneg _)
      simp [AccessList.deleteSlot, h0, sdel, List.take_left']
    simp only [undo, hs, Bool.false_eq_true, if_false, hdel, AccessList.deleteAddress, mset_mset, mdel_mset_fresh _ _ _ hm]
    exact fin _ rfl rfl ⟨rfl, rfl, rfl, rfl, rfl, rfl, fun _ _ => rfl, rfl, rfl, rfl⟩
  | some idx =>
    by_cases hneg : idx = -1
    · subst hneg
      have hadd : s.al.addSlot a slot = some ({ addrs := mset s.al.addrs a (Int.ofNat s.al.slots.length), slots := s.al.slots ++ [[slot]] }, false, true) := by
        simp [AccessList.addSlot, hm]
      refine ⟨fun h => (by rw [hs] at h; cases h), by simp [addSlotToAccessList, hs, hadd], by simp [addSlotToAccessList, hs, hadd],
        ⟨[Entry.alSlot a slot], by simp [addSlotToAccessList, hs, hadd], fun _ => ?_⟩⟩
      rw [undoAll_singleton]
      have hdel : AccessList.deleteSlot { addrs := mset s.al.addrs a (Int.ofNat s.al.slots.length), slots := s.al.slots ++ [[slot]] } a slot =
          some { addrs := mset (mset s.al.addrs a (Int.ofNat s.al.slots.length)) a (-1), slots := s.al.slots } := by
        have h0 : ¬ (Int.ofNat s.al.slots.length < 0) := Int.not_lt.mpr (Int.natCast_nonneg _)
        simp [AccessList.deleteSlot, h0, sdel, List.take_left']
      simp only [addSlotToAccessList, hs, hadd, Bool.false_eq_true, if_false, if_true, undo, hdel, mset_mset, mset_same _ _ _ hm]
      exact fin _ rfl rfl ⟨rfl, rfl, rfl, rfl, rfl, rfl, fun _ _ => rfl, rfl, rfl, rfl⟩
    · by_cases hlt : idx < 0
      · -- corrupt index: panic
        have hadd : s.al.addSlot a slot = none := by simp [AccessList.addSlot, hm, hneg, hlt]
        exact ⟨fun h => (by rw [hs] at h; cases h), by simp [addSlotToAccessList, hs, hadd, crash], by simp [addSlotToAccessList, hs, hadd, crash],
          ⟨[], by simp [addSlotToAccessList, hs, hadd, crash], fun hc => by simp [addSlotToAccessList, hs, hadd, crash] at hc⟩⟩
      · cases hsl : s.al.slots[idx.toNat]? with
        | none =>
          have hadd : s.al.addSlot a slot = none := by simp [AccessList.addSlot, hm, hneg, hlt, hsl]
          exact ⟨fun h => (by rw [hs] at h; cases h), by simp [addSlotToAccessList, hs, hadd, crash], by simp [addSlotToAccessList, hs, hadd, crash],
            ⟨[], by simp [addSlotToAccessList, hs, hadd, crash], fun hc => by simp [addSlotToAccessList, hs, hadd, crash] at hc⟩⟩
        | some m =>
          by_cases hin : slot ∈ m
          · have hadd : s.al.addSlot a slot = some (s.al, false, false) := by simp [AccessList.addSlot, hm, hneg, hlt, hsl, hin]
            exact RevAt.congr_at (f' := fun x => x) (by simp only [addSlotToAccessList, hs, hadd, Bool.false_eq_true, if_false]; cases s; simp_all) (RevAt.id c s)
          · have hne : m ≠ [] := by
              have := hok
              unfold AddSlotOk at this
              rw [hm] at this
              rcases this with h | h
              · exact absurd h hlt
              · rw [hsl] at h; exact h
            have hadd : s.al.addSlot a slot = some ({ s.al with slots := s.al.slots.set idx.toNat (m ++ [slot]) }, false, true) := by
              simp [AccessList.addSlot, hm, hneg, hlt, hsl, hin]
            refine ⟨fun h => (by rw [hs] at h; cases h), by simp [addSlotToAccessList, hs, hadd], by simp [addSlotToAccessList, hs, hadd],
              ⟨[Entry.alSlot a slot], by simp [addSlotToAccessList, hs, hadd], fun _ => ?_⟩⟩
            rw [undoAll_singleton]
            have hil : idx.toNat < s.al.slots.length := by
              rcases Nat.lt_or_ge idx.toNat s.al.slots.length with h | h
              · exact h
              · rw [List.getElem?_eq_none h] at hsl; cases hsl
            have hget : s.al.slots[idx.toNat] = m := by
              rw [List.getElem?_eq_getElem hil] at hsl; exact Option.some.inj hsl
            have hdel : AccessList.deleteSlot { s.al with slots := s.al.slots.set idx.toNat (m ++ [slot]) } a slot = some s.al := by
              have hemp : (sdel (m ++ [slot]) slot).isEmpty = false := by
                rw [sdel_append_self m slot hin]; cases m with
                | nil => exact absurd rfl hne
                | cons _ _ => rfl
              have hme : m.isEmpty = false := by cases m with
                | nil => exact absurd rfl hne
                | cons _ _ => rfl
              simp only [AccessList.deleteSlot, hm, hlt, if_false, List.getElem?_set_self hil, hemp, Bool.false_eq_true,
                sdel_append_self m slot hin, List.set_set, hme]
              congr 1
              refine al_ext (x := { addrs := s.al.addrs, slots := s.al.slots.set idx.toNat m }) (y := s.al) rfl ?_
              show s.al.slots.set idx.toNat m = s.al.slots
              rw [← hget, List.set_getElem_self]
            simp only [addSlotToAccessList, hs, hadd, Bool.false_eq_true, if_false, if_true, undo, hdel]
            exact fin _ rfl rfl ⟨rfl, rfl, rfl, rfl, rfl, rfl, fun _ _ => rfl, rfl, rfl, rfl⟩

end
end Rangers.Proofs.Journal
