import Rangers.Model.Evm10Ops
/-!
C10 — helper lemmas: the transcribed uint256 methods equal the corresponding `BitVec`
operations / `Nat` expressions.  The property theorems in `Props/C10.lean` are stated
against an independent Yellow-Paper formulation and use these.
-/
namespace Rangers.Proofs.Evm10
open Rangers Rangers.Model.Evm10 Rangers.Model.Evm10.U256

theorem isZero_iff (x : Word) : isZero x = true ↔ x = 0#256 := by
  simp [isZero]

theorem isZero_iff_toNat (x : Word) : isZero x = true ↔ x.toNat = 0 := by
  rw [isZero_iff]
  constructor
  · intro h; simp [h]
  · intro h; exact BitVec.eq_of_toNat_eq (by simpa using h)

theorem neg_eq (x : Word) : neg x = -x := by
  simp [neg, sub]

theorem sign_eq (x : Word) :
    sign x = if x = 0#256 then 0 else if x.msb then -1 else 1 := by
  unfold sign
  by_cases h : x = 0#256 <;> simp [h, isZero]

theorem msb_zero : (0#256).msb = false := by decide

theorem sign_pos_iff (x : Word) : sign x > 0 ↔ (x ≠ 0#256 ∧ x.msb = false) := by
  rw [sign_eq]
  by_cases h : x = 0#256
  · simp [h]
  · cases hm : x.msb <;> simp [h]

theorem sign_neg_iff (x : Word) : sign x < 0 ↔ x.msb = true := by
  rw [sign_eq]
  by_cases h : x = 0#256
  · simp [h]
  · cases hm : x.msb <;> simp [h]

theorem div_eq (x y : Word) : div x y = x / y := by
  unfold div
  by_cases h : isZero y = true
  · rw [isZero_iff] at h; subst h; simp
  · simp [h]

theorem mod_eq (x y : Word) : mod x y = if y = 0#256 then 0#256 else x % y := by
  unfold mod
  by_cases h : isZero y = true
  · have := (isZero_iff y).1 h; simp [this, isZero]
  · have : y ≠ 0#256 := fun e => h ((isZero_iff y).2 e)
    simp [h, this]

/-- `SDiv` with its four sign branches is two's-complement signed division. -/
theorem sdiv_eq (n d : Word) : sdiv n d = BitVec.sdiv n d := by
  unfold sdiv
  rw [BitVec.sdiv_eq]
  simp only [div_eq, neg_eq]
  by_cases hn0 : n = 0#256
  · subst hn0
    have : ¬ (sign (0#256) > 0) := by simp [sign_eq]
    simp only [this, if_false, msb_zero]
    cases hd : d.msb
    · have : ¬ (sign d < 0) := by rw [sign_neg_iff]; simp [hd]
      simp [this]
    · have : sign d < 0 := by rw [sign_neg_iff]; exact hd
      simp [this]
  · cases hn : n.msb
    · have hp : sign n > 0 := by rw [sign_pos_iff]; exact ⟨hn0, hn⟩
      simp only [hp, if_true]
      cases hd : d.msb
      · by_cases hd0 : d = 0#256
        · subst hd0; simp [sign_eq]
        · have : sign d > 0 := by rw [sign_pos_iff]; exact ⟨hd0, hd⟩
          simp [this]
      · have : ¬ (sign d > 0) := by rw [sign_pos_iff]; simp [hd]
        simp [this]
    · have hp : ¬ (sign n > 0) := by rw [sign_pos_iff]; simp [hn]
      simp only [hp, if_false]
      cases hd : d.msb
      · have : ¬ (sign d < 0) := by rw [sign_neg_iff]; simp [hd]
        simp [this]
      · have : sign d < 0 := by rw [sign_neg_iff]; exact hd
        simp [this]

theorem sign_eq_neg_one_iff (x : Word) : sign x = -1 ↔ x.msb = true := by
  rw [sign_eq]
  by_cases h : x = 0#256
  · simp [h]
  · cases hm : x.msb <;> simp [h]

/-- `SMod` is the two's-complement remainder with the sign of the dividend, 0 for a zero divisor. -/
theorem smod_eq (x y : Word) : smod x y = if y = 0#256 then 0#256 else BitVec.srem x y := by
  unfold smod
  simp only [sign_eq_neg_one_iff, neg_eq, mod_eq]
  rw [BitVec.srem_eq]
  by_cases hy0 : y = 0#256
  · subst hy0
    cases hx : x.msb <;> simp
  · have hny : -y ≠ 0#256 := by
      intro h; apply hy0; have := congrArg (fun z => -z) h; simpa using this
    cases hx : x.msb <;> cases hy : y.msb <;> simp [hy0, hny]


/-! ### EXP : the square-and-multiply loop -/

theorem expLoop_spec (n : Nat) : ∀ (res m : Word) (w : Nat), w < 2 ^ n →
    (expLoop n res m w).toNat = (res.toNat * m.toNat ^ w) % W := by
  induction n with
  | zero =>
    intro res m w hw
    have : w = 0 := by simpa using hw
    subst this
    simp [expLoop, W, Nat.mod_eq_of_lt res.isLt]
  | succ n ih =>
    intro res m w hw
    unfold expLoop
    have hw2 : w / 2 < 2 ^ n := by
      rw [Nat.pow_succ] at hw; omega
    rw [ih _ _ _ hw2]
    have hdec : w = 2 * (w / 2) + w % 2 := by omega
    have hsq : (mul m m).toNat = (m.toNat * m.toNat) % W := by simp [mul, BitVec.toNat_mul, W]
    rcases Nat.mod_two_eq_zero_or_one w with h0 | h1
    · have hne : ¬ (w % 2 = 1) := by omega
      simp only [hne, if_false]
      rw [hsq]
      conv => rhs; rw [hdec, h0, Nat.add_zero, Nat.pow_mul]
      rw [Nat.pow_two]
      rw [Nat.mul_mod, Nat.pow_mod, Nat.mod_mod, ← Nat.pow_mod, ← Nat.mul_mod]
    · simp only [h1, if_true]
      rw [hsq]
      have hm : (mul res m).toNat = (res.toNat * m.toNat) % W := by simp [mul, BitVec.toNat_mul, W]
      rw [hm]
      conv => rhs; rw [hdec, h1, Nat.pow_succ, Nat.pow_mul, Nat.pow_two]
      rw [Nat.mul_mod, Nat.mod_mod, Nat.pow_mod, Nat.mod_mod, ← Nat.pow_mod, ← Nat.mul_mod]
      congr 1
      rw [Nat.mul_assoc, Nat.mul_comm (m.toNat) _]

theorem lt_two_pow_bitLen (e : Word) : e.toNat < 2 ^ bitLen e := by
  unfold bitLen
  by_cases h : e.toNat = 0
  · simp [h]
  · simp only [h, if_false]
    exact Nat.lt_log2_self

theorem exp_toNat (b e : Word) : (exp b e).toNat = b.toNat ^ e.toNat % W := by
  unfold exp
  rw [expLoop_spec _ _ _ _ (lt_two_pow_bitLen e)]
  simp


/-! ### ADDMOD / MULMOD -/

theorem W_pos : 0 < W := by unfold W; exact Nat.two_pow_pos 256

theorem mod_toNat (x y : Word) (hy : y.toNat ≠ 0) : (mod x y).toNat = x.toNat % y.toNat := by
  rw [mod_eq]
  have : y ≠ 0#256 := by intro h; apply hy; simp [h]
  simp [this]

theorem ofNat_toNat (n : Nat) : (ofNat n).toNat = n % W := by simp [ofNat, W]

theorem addmod_toNat (x y m : Word) (hm : m.toNat ≠ 0) :
    (addmod x y m).toNat = (x.toNat + y.toNat) % m.toNat := by
  unfold addmod
  have hz : isZero m = false := by
    cases h : isZero m
    · rfl
    · exact absurd ((isZero_iff_toNat m).1 h) hm
  simp only [hz, Bool.false_eq_true, if_false]
  have hmlt : m.toNat < W := m.isLt
  by_cases hs : x.toNat + y.toNat ≥ W
  · simp only [hs, if_true]
    rw [ofNat_toNat]
    apply Nat.mod_eq_of_lt
    exact Nat.lt_trans (Nat.mod_lt _ (Nat.pos_of_ne_zero hm)) hmlt
  · simp only [hs, if_false]
    rw [mod_toNat _ _ hm]
    have : (add x y).toNat = x.toNat + y.toNat := by
      simp only [add, BitVec.toNat_add]
      apply Nat.mod_eq_of_lt
      simp only [W] at hs; omega
    rw [this]

theorem mulmod_toNat (x y m : Word) :
    (mulmod x y m).toNat = if m.toNat = 0 then 0 else (x.toNat * y.toNat) % m.toNat := by
  unfold mulmod
  by_cases hm : m.toNat = 0
  · have : isZero m = true := (isZero_iff_toNat m).2 hm
    simp [this, hm]
  · have hmz : isZero m = false := by
      cases h : isZero m
      · rfl
      · exact absurd ((isZero_iff_toNat m).1 h) hm
    simp only [hm, if_false]
    by_cases hx : x.toNat = 0
    · have : isZero x = true := (isZero_iff_toNat x).2 hx
      simp [this, hx]
    · have hxz : isZero x = false := by
        cases h : isZero x
        · rfl
        · exact absurd ((isZero_iff_toNat x).1 h) hx
      by_cases hy : y.toNat = 0
      · have : isZero y = true := (isZero_iff_toNat y).2 hy
        simp [this, hy]
      · have hyz : isZero y = false := by
          cases h : isZero y
          · rfl
          · exact absurd ((isZero_iff_toNat y).1 h) hy
        simp only [hxz, hyz, hmz, Bool.or_self, Bool.false_eq_true, if_false]
        have hmlt : m.toNat < W := m.isLt
        by_cases hp : x.toNat * y.toNat / W = 0
        · simp only [hp, if_true]
          rw [mod_toNat _ _ hm, ofNat_toNat]
          have : x.toNat * y.toNat < W := by
            rcases Nat.div_eq_zero_iff.1 hp with h | h
            · exact absurd h (Nat.ne_of_gt W_pos)
            · exact h
          rw [Nat.mod_eq_of_lt this]
        · simp only [hp, if_false]
          rw [ofNat_toNat]
          apply Nat.mod_eq_of_lt
          exact Nat.lt_trans (Nat.mod_lt _ (Nat.pos_of_ne_zero hm)) hmlt

/-! ### signed comparison -/

theorem slt_eq (z x : Word) : slt z x = decide (z.toInt < x.toInt) := by
  unfold slt lt
  simp only [sign_eq]
  rw [BitVec.toInt_eq_msb_cond, BitVec.toInt_eq_msb_cond]
  have hz := z.isLt
  have hx := x.isLt
  have hzm := BitVec.msb_eq_decide z
  have hxm := BitVec.msb_eq_decide x
  by_cases hz0 : z = 0#256 <;> by_cases hx0 : x = 0#256 <;>
    cases hzb : z.msb <;> cases hxb : x.msb <;>
    simp_all <;> omega

theorem sgt_eq (z x : Word) : sgt z x = decide (x.toInt < z.toInt) := by
  unfold sgt gt lt
  simp only [sign_eq]
  rw [BitVec.toInt_eq_msb_cond, BitVec.toInt_eq_msb_cond]
  have hz := z.isLt
  have hx := x.isLt
  have hzm := BitVec.msb_eq_decide z
  have hxm := BitVec.msb_eq_decide x
  by_cases hz0 : z = 0#256 <;> by_cases hx0 : x = 0#256 <;>
    cases hzb : z.msb <;> cases hxb : x.msb <;>
    simp_all <;> omega


/-! ### uint64 views -/

theorem two64_lt_W : (2:Nat) ^ 64 < W := by unfold W; exact Nat.pow_lt_pow_right (by omega) (by omega)

theorem lo64_of_isUint64 (x : Word) (h : isUint64 x = true) : lo64 x = x.toNat := by
  simp only [isUint64, decide_eq_true_eq] at h
  simp [lo64, Nat.mod_eq_of_lt h]

theorem ltUint64_iff (x : Word) (n : Nat) (hn : n ≤ 2 ^ 64) : ltUint64 x n = true ↔ x.toNat < n := by
  unfold ltUint64 isUint64 lo64
  simp only [Bool.and_eq_true, decide_eq_true_eq]
  omega

theorem gtUint64_iff (x : Word) (n : Nat) (hn : n < 2 ^ 64) : gtUint64 x n = true ↔ x.toNat > n := by
  unfold gtUint64 isUint64 lo64
  simp only [Bool.or_eq_true, decide_eq_true_eq, Bool.not_eq_true', decide_eq_false_iff_not]
  omega

/-! ### BYTE -/

theorem byte_toNat (z n : Word) :
    (byte z n).toNat = if n.toNat < 32 then (z.toNat / 2 ^ (8 * (31 - n.toNat))) % 256 else 0 := by
  unfold byte uint64WithOverflow
  by_cases hn : n.toNat < 32
  · have hu : isUint64 n = true := by
      simp only [isUint64, decide_eq_true_eq]; omega
    have hl : lo64 n = n.toNat := lo64_of_isUint64 n hu
    simp only [hu, hl, hn, Bool.not_true, Bool.not_false, Bool.true_and, decide_true, if_true]
    simp only [U256.and, rsh, BitVec.toNat_and, BitVec.toNat_ushiftRight, Nat.shiftRight_eq_div_pow]
    have : (0xff#256 : BitVec 256).toNat = 2 ^ 8 - 1 := by decide
    rw [this, Nat.and_two_pow_sub_one_eq_mod]
  · simp only [hn, if_false]
    by_cases hu : isUint64 n = true
    · have hl : lo64 n = n.toNat := lo64_of_isUint64 n hu
      simp [hu, hl, hn]
    · simp [hu]

/-! ### shifts -/

theorem opSHL_toNat (s v : Word) : (opSHL s v).toNat = (v.toNat * 2 ^ s.toNat) % W := by
  unfold opSHL
  by_cases h : s.toNat < 256
  · have h1 : ltUint64 s 256 = true := (ltUint64_iff s 256 (by omega)).2 h
    have hu : lo64 s = s.toNat := by
      simp only [lo64]; apply Nat.mod_eq_of_lt; omega
    simp only [h1, if_true, lsh, hu, BitVec.toNat_shiftLeft, Nat.shiftLeft_eq, W]
  · have h1 : ltUint64 s 256 = false := by
      cases hh : ltUint64 s 256
      · rfl
      · exact absurd ((ltUint64_iff s 256 (by omega)).1 hh) h
    simp only [h1, Bool.false_eq_true, if_false]
    have : s.toNat = 256 + (s.toNat - 256) := by omega
    rw [this, Nat.pow_add, ← Nat.mul_assoc, Nat.mul_comm v.toNat, Nat.mul_assoc]
    simp [W]

theorem opSHR_toNat (s v : Word) : (opSHR s v).toNat = v.toNat / 2 ^ s.toNat := by
  unfold opSHR
  by_cases h : s.toNat < 256
  · have h1 : ltUint64 s 256 = true := (ltUint64_iff s 256 (by omega)).2 h
    have hu : lo64 s = s.toNat := by
      simp only [lo64]; apply Nat.mod_eq_of_lt; omega
    simp only [h1, if_true, rsh, hu, BitVec.toNat_ushiftRight, Nat.shiftRight_eq_div_pow]
  · have h1 : ltUint64 s 256 = false := by
      cases hh : ltUint64 s 256
      · rfl
      · exact absurd ((ltUint64_iff s 256 (by omega)).1 hh) h
    simp only [h1, Bool.false_eq_true, if_false]
    have hv : v.toNat < 2 ^ s.toNat :=
      Nat.lt_of_lt_of_le v.isLt (Nat.pow_le_pow_right (by omega) (by omega))
    simp [Nat.div_eq_of_lt hv]

theorem srsh_eq (x : Word) (n : Nat) : srsh x n = BitVec.sshiftRight x n := by
  unfold srsh rsh
  cases h : x.msb
  · simp [BitVec.sshiftRight_eq_of_msb_false h]
  · simp

theorem toInt_bounds (v : Word) : -(2:Int) ^ 255 ≤ v.toInt ∧ v.toInt < (2:Int) ^ 255 := by
  have h1 := @BitVec.le_toInt 256 v
  have h2 := @BitVec.toInt_lt 256 v
  simp only [Nat.add_one_sub_one] at h1 h2
  constructor
  · have : (256 - 1) = 255 := rfl
    simpa using h1
  · simpa using h2

theorem opSAR_toInt (s v : Word) : (opSAR s v).toInt = v.toInt / (2 : Int) ^ s.toNat := by
  unfold opSAR
  obtain ⟨hlo, hhi⟩ := toInt_bounds v
  by_cases h : s.toNat > 256
  · have h1 : gtUint64 s 256 = true := (gtUint64_iff s 256 (by omega)).2 h
    simp only [h1, if_true]
    have hpowN : (2:Nat) ^ 256 ≤ 2 ^ s.toNat := Nat.pow_le_pow_right (by omega) (by omega)
    have hpow : (2:Int) ^ 256 ≤ (2:Int) ^ s.toNat := by exact_mod_cast hpowN
    have h255 : (2:Int) ^ 255 < (2:Int) ^ 256 := by omega
    rw [sign_eq]
    by_cases hv0 : v = 0#256
    · subst hv0; simp
    · cases hm : v.msb
      · simp only [hv0, if_false, Bool.false_eq_true]
        have hnn : 0 ≤ v.toInt := by
          rw [BitVec.toInt_eq_toNat_of_msb hm]; exact Int.natCast_nonneg _
        have hlt : v.toInt < (2:Int) ^ s.toNat := by omega
        rw [Int.ediv_eq_zero_of_lt hnn hlt]
        simp
      · simp only [hv0, if_false, if_true]
        have hneg : v.toInt < 0 := BitVec.toInt_neg_of_msb_true hm
        have hd : v.toInt / (2:Int) ^ s.toNat = -1 :=
          Int.ediv_eq_neg_one_of_neg_of_le hneg (by omega)
        rw [hd]
        decide
  · have h1 : gtUint64 s 256 = false := by
      cases hh : gtUint64 s 256
      · rfl
      · exact absurd ((gtUint64_iff s 256 (by omega)).1 hh) h
    have hu : lo64 s = s.toNat := by
      simp only [lo64]; apply Nat.mod_eq_of_lt; omega
    simp only [h1, Bool.false_eq_true, if_false, hu, srsh_eq, BitVec.toInt_sshiftRight,
      Int.shiftRight_eq_div_pow]
    norm_cast


/-! ### SIGNEXTEND -/

theorem mask_toNat (bit : Nat) (hb : bit < 256) :
    (sub (lsh 1#256 bit) 1#256).toNat = 2 ^ bit - 1 := by
  have h1 : (lsh 1#256 bit).toNat = 2 ^ bit := by
    simp only [lsh, BitVec.toNat_shiftLeft, Nat.shiftLeft_eq]
    have : (1#256 : BitVec 256).toNat = 1 := by decide
    rw [this, Nat.one_mul]
    exact Nat.mod_eq_of_lt (Nat.pow_lt_pow_right (by omega) hb)
  have hp : 0 < 2 ^ bit := Nat.two_pow_pos bit
  have hlt : 2 ^ bit < 2 ^ 256 := Nat.pow_lt_pow_right (by omega) hb
  simp only [sub, BitVec.toNat_sub, h1]
  have : (1#256 : BitVec 256).toNat = 1 := by decide
  rw [this]
  have e : 2 ^ 256 - 1 + 2 ^ bit = (2 ^ bit - 1) + 2 ^ 256 := by omega
  rw [e, Nat.add_mod_right]
  exact Nat.mod_eq_of_lt (by omega)

theorem mask_getLsbD (bit i : Nat) (hb : bit < 256) :
    (sub (lsh 1#256 bit) 1#256).getLsbD i = decide (i < bit) := by
  rw [BitVec.getLsbD, mask_toNat bit hb, Nat.testBit_two_pow_sub_one]

theorem extendSign_getLsbD (x b : Word) (i : Nat) (hi : i < 256) :
    (extendSign x b).getLsbD i =
      if b.toNat < 31 then
        (if i ≤ 8 * b.toNat + 7 then x.getLsbD i else x.getLsbD (8 * b.toNat + 7))
      else x.getLsbD i := by
  unfold extendSign
  by_cases hgt : b.toNat > 31
  · have h1 : gtUint64 b 31 = true := (gtUint64_iff b 31 (by omega)).2 hgt
    have : ¬ b.toNat < 31 := by omega
    simp [h1, this]
  · have h1 : gtUint64 b 31 = false := by
      cases hh : gtUint64 b 31
      · rfl
      · exact absurd ((gtUint64_iff b 31 (by omega)).1 hh) hgt
    have hu : lo64 b = b.toNat := by
      simp only [lo64]; apply Nat.mod_eq_of_lt; omega
    have hbit : 8 * b.toNat + 7 < 256 := by omega
    simp only [h1, Bool.false_eq_true, if_false, hu]
    rw [Nat.mul_comm b.toNat 8]
    generalize hbt : 8 * b.toNat + 7 = bit at *
    cases hx : x.getLsbD bit
    · simp only [Bool.false_eq_true, if_false, U256.and, BitVec.getLsbD_and, mask_getLsbD bit i hbit]
      by_cases hlt : i < bit
      · have : i ≤ bit := by omega
        simp [hlt, this]
      · by_cases heq : i = bit
        · subst heq; simp [hx]
        · have : ¬ i ≤ bit := by omega
          simp [hlt, this]
          intro h31; exfalso; omega
    · simp only [if_true, U256.or, U256.not, BitVec.getLsbD_or, BitVec.getLsbD_not, hi, decide_true,
        Bool.true_and, mask_getLsbD bit i hbit]
      by_cases hlt : i < bit
      · have : i ≤ bit := by omega
        simp [hlt, this]
      · by_cases heq : i = bit
        · subst heq; simp [hx]
        · have : ¬ i ≤ bit := by omega
          simp [hlt, this]
          by_cases h31 : b.toNat < 31
          · exact Or.inl h31
          · exfalso; omega

end Rangers.Proofs.Evm10
