import Rangers.Model.Bls14Jac
import Rangers.Proofs.Bls14Curve
/-!
Jacobian ⇒ affine: the affine image `(x/z², y/z³)` of every `curvePoint` operation as the code
computes it is the affine operation of `Model/Bls14G1.lean`. Pure field algebra over `ZMod p`
(`p` prime); the curve equation is never used — add-2007-bl / dbl-2009-l are the chord and tangent
rule written projectively.
-/
namespace Rangers.Proofs.Bls14
open Rangers Rangers.Model.Bls14

variable [hp : Fact (Nat.Prime P)]

/-- All three coordinates reduced (always true of values held by the Go code). -/
def JRed (c : Jac) : Prop := c.x < P ∧ c.y < P ∧ c.z < P

/-- Field-level affine view of a Jacobian triple. -/
noncomputable def jAffF (c : Jac) : Option (F × F) :=
  if (c.z : F) = 0 then none else some ((c.x : F) / (c.z : F) ^ 2, (c.y : F) / (c.z : F) ^ 3)

/-- Field-level view of a model point. -/
def ptAffF : Pt → Option (F × F)
  | .inf => none
  | .aff x y => some ((x : F), (y : F))

/-- Tangent rule over the field. -/
noncomputable def doubleF : Option (F × F) → Option (F × F)
  | none => none
  | some (x, y) =>
    if y = 0 then none
    else some ((3 * x ^ 2 / (2 * y)) ^ 2 - 2 * x,
               (3 * x ^ 2 / (2 * y)) * (x - ((3 * x ^ 2 / (2 * y)) ^ 2 - 2 * x)) - y)

/-- Chord-and-tangent rule over the field, with the case analysis of `Pt.add`. -/
noncomputable def addF : Option (F × F) → Option (F × F) → Option (F × F)
  | none, q => q
  | some p, none => some p
  | some (x1, y1), some (x2, y2) =>
    if x1 = x2 then (if y1 = y2 then doubleF (some (x1, y1)) else none)
    else some (((y2 - y1) / (x2 - x1)) ^ 2 - x1 - x2,
               ((y2 - y1) / (x2 - x1)) * (x1 - (((y2 - y1) / (x2 - x1)) ^ 2 - x1 - x2)) - y1)

theorem ptAffF_inj (p q : Pt) (hp' : p.reduced = true) (hq : q.reduced = true)
    (h : ptAffF p = ptAffF q) : p = q := by
  cases p with
  | inf => cases q with
    | inf => rfl
    | aff x y => simp [ptAffF] at h
  | aff x y => cases q with
    | inf => simp [ptAffF] at h
    | aff x' y' =>
      simp only [Pt.reduced, Bool.and_eq_true, decide_eq_true_eq] at hp' hq
      simp only [ptAffF, Option.some.injEq, Prod.mk.injEq] at h
      rw [natCast_inj_of_lt hp'.1 hq.1 h.1, natCast_inj_of_lt hp'.2 hq.2 h.2]

theorem cast_eq_zero_iff_of_lt {a : ℕ} (ha : a < P) : (a : F) = 0 ↔ a = 0 := by
  constructor
  · intro h
    by_contra h0
    exact natCast_ne_zero_of_lt a (Nat.pos_of_ne_zero h0) ha h
  · rintro rfl; simp

/-- `MakeAffine` + `Marshal` view = field-level view; the result is reduced. -/
theorem toPt_affF (c : Jac) (hr : JRed c) : ptAffF c.toPt = jAffF c ∧ c.toPt.reduced = true := by
  obtain ⟨hx, hy, hz⟩ := hr
  unfold Jac.toPt jMakeAffine jAffF
  by_cases h1 : c.z = 1
  · simp [h1, ptAffF, Pt.reduced, hx, hy]
  · by_cases h0 : c.z = 0
    · simp [h0, ptAffF, Pt.reduced]
    · have hzF : (c.z : F) ≠ 0 := fun h => h0 ((cast_eq_zero_iff_of_lt hz).mp h)
      simp only [beq_iff_eq, h1, h0, if_false, hzF]
      rw [if_neg (by decide : ¬ (1 = 0))]
      refine ⟨?_, by simp [Pt.reduced, fmul_lt]⟩
      simp only [ptAffF, cast_fmul, cast_finv, Option.some.injEq, Prod.mk.injEq]
      constructor <;> field_simp

/-! ### the affine model over the field -/

theorem ptDouble_affF (p : Pt) :
    ptAffF (Pt.double p) = doubleF (ptAffF p) ∧ (Pt.double p).reduced = (true || p.reduced) := by
  cases p with
  | inf => simp [Pt.double, ptAffF, doubleF, Pt.reduced]
  | aff x y =>
    by_cases hy : (y : F) = 0
    · have hb : (y % P == 0) = true := (beq_mod_zero_iff y).mpr hy
      simp [Pt.double, hb, ptAffF, doubleF, hy, Pt.reduced]
    · have hb : ¬ (y % P == 0) = true := fun h => hy ((beq_mod_zero_iff y).mp h)
      simp only [Pt.double, hb, Bool.false_eq_true, ↓reduceIte, ptAffF, doubleF, hy, Bool.true_or]
      refine ⟨?_, by simp [Pt.reduced, fsub_lt]⟩
      simp only [cast_fsub, cast_fmul, cast_finv, Option.some.injEq, Prod.mk.injEq]
      push_cast
      constructor <;> ring

theorem ptAdd_affF (p q : Pt) (hp' : p.reduced = true) (hq : q.reduced = true) :
    ptAffF (Pt.add p q) = addF (ptAffF p) (ptAffF q) ∧ (Pt.add p q).reduced = true := by
  cases p with
  | inf => cases q <;> simp [Pt.add, ptAffF, addF, hq]
  | aff x1 y1 =>
    cases q with
    | inf => simp [Pt.add, ptAffF, addF, hp']
    | aff x2 y2 =>
      by_cases hx : (x1 : F) = x2
      · have hbx : (x1 % P == x2 % P) = true := (beq_mod_iff x1 x2).mpr hx
        by_cases hy : (y1 : F) = y2
        · have hby : (y1 % P == y2 % P) = true := (beq_mod_iff y1 y2).mpr hy
          have hd := ptDouble_affF (.aff x1 y1)
          simp only [Pt.add, hbx, hby, if_true, ptAffF, addF, hx, hy]
          simp only [ptAffF, hx, hy] at hd
          exact ⟨hd.1, by rw [hd.2]; rfl⟩
        · have hby : ¬ (y1 % P == y2 % P) = true := fun h => hy ((beq_mod_iff y1 y2).mp h)
          simp [Pt.add, hbx, hby, ptAffF, addF, hx, hy, Pt.reduced]
      · have hbx : ¬ (x1 % P == x2 % P) = true := fun h => hx ((beq_mod_iff x1 x2).mp h)
        simp only [Pt.add, hbx, Bool.false_eq_true, ↓reduceIte, ptAffF, addF, hx]
        refine ⟨?_, by simp [Pt.reduced, fsub_lt]⟩
        simp only [cast_fsub, cast_fmul, cast_finv, Option.some.injEq, Prod.mk.injEq]
        constructor <;> ring

/-! ### the Jacobian formulas over the field -/

omit hp in
theorem jDouble_red (a : Jac) : JRed (jDouble a) :=
  ⟨fsub_lt _ _, fsub_lt _ _, fadd_lt _ _⟩

theorem jDouble_z (a : Jac) : ((jDouble a).z : F) = 2 * a.y * a.z := by
  simp only [jDouble, cast_fadd, cast_fmul]; ring

/-- dbl-2009-l is the tangent rule. -/
theorem jDouble_affF (a : Jac) : jAffF (jDouble a) = doubleF (jAffF a) := by
  by_cases hz : (a.z : F) = 0
  · have : ((jDouble a).z : F) = 0 := by rw [jDouble_z, hz, mul_zero]
    simp [jAffF, this, hz, doubleF]
  · by_cases hy : (a.y : F) = 0
    · have : ((jDouble a).z : F) = 0 := by rw [jDouble_z, hy]; ring
      simp [jAffF, this, hz, doubleF, hy]
    · have h2 := two_ne_zero' (hp := hp)
      have hz' : ((jDouble a).z : F) ≠ 0 := by
        rw [jDouble_z]; exact mul_ne_zero (mul_ne_zero h2 hy) hz
      have hY : (a.y : F) / (a.z : F) ^ 3 ≠ 0 := div_ne_zero hy (pow_ne_zero _ hz)
      rw [jAffF, if_neg hz', jAffF, if_neg hz]
      simp only [doubleF, hY, if_false, Option.some.injEq, Prod.mk.injEq]
      rw [jDouble_z]
      simp only [jDouble, cast_fadd, cast_fsub, cast_fmul]
      constructor
      · field_simp; ring
      · field_simp; ring

/-- `h` and `s2 − s1` of `curvePoint.Add`. -/
def jH (a b : Jac) : ℕ := fsub (fmul b.x (fmul a.z a.z)) (fmul a.x (fmul b.z b.z))
def jT (a b : Jac) : ℕ :=
  fsub (fmul b.y (fmul a.z (fmul a.z a.z))) (fmul a.y (fmul b.z (fmul b.z b.z)))

theorem jH_cast (a b : Jac) : ((jH a b : ℕ) : F) = b.x * a.z ^ 2 - a.x * b.z ^ 2 := by
  simp only [jH, cast_fsub, cast_fmul]; ring

theorem jT_cast (a b : Jac) : ((jT a b : ℕ) : F) = b.y * a.z ^ 3 - a.y * b.z ^ 3 := by
  simp only [jT, cast_fsub, cast_fmul]; ring

/-- The general branch of `curvePoint.Add` (after the infinity and doubling exits). -/
def jAddGen (a b : Jac) : Jac :=
  let z12 := fmul a.z a.z
  let z22 := fmul b.z b.z
  let u1 := fmul a.x z22
  let u2 := fmul b.x z12
  let t := fmul b.z z22
  let s1 := fmul a.y t
  let t := fmul a.z z12
  let s2 := fmul b.y t
  let h := fsub u2 u1
  let t := fadd h h
  let i := fmul t t
  let j := fmul h i
  let t := fsub s2 s1
  let r := fadd t t
  let v := fmul u1 i
  let t4 := fmul r r
  let t := fadd v v
  let t6 := fsub t4 j
  let cx := fsub t6 t
  let t := fsub v cx
  let t4 := fmul s1 j
  let t6 := fadd t4 t4
  let t4 := fmul r t
  let cy := fsub t4 t6
  let t := fadd a.z b.z
  let t4 := fmul t t
  let t := fsub t4 z12
  let t4 := fsub t z22
  let cz := fmul t4 h
  ⟨cx, cy, cz⟩

omit hp in
/-- `curvePoint.Add` is: two infinity exits, the doubling exit, else the general branch. -/
theorem jAdd_eq (a b : Jac) :
    jAdd a b =
      if a.z = 0 then b else if b.z = 0 then a
      else if (jH a b == 0 && jT a b == 0) = true then jDouble a else jAddGen a b := by
  unfold jAdd Jac.isInfinity
  by_cases h1 : a.z = 0
  · simp [h1]
  · by_cases h2 : b.z = 0
    · simp [h1, h2]
    · simp only [beq_iff_eq, h1, h2, if_false]
      rfl

theorem jAddGen_z (a b : Jac) :
    ((jAddGen a b).z : F) = 2 * a.z * b.z * (b.x * a.z ^ 2 - a.x * b.z ^ 2) := by
  simp only [jAddGen, cast_fmul, cast_fsub, cast_fadd]; ring

theorem jAddGen_x (a b : Jac) :
    ((jAddGen a b).x : F) =
      (2 * (b.y * a.z ^ 3 - a.y * b.z ^ 3)) ^ 2 - 4 * (b.x * a.z ^ 2 - a.x * b.z ^ 2) ^ 3
        - 8 * a.x * b.z ^ 2 * (b.x * a.z ^ 2 - a.x * b.z ^ 2) ^ 2 := by
  simp only [jAddGen, cast_fmul, cast_fsub, cast_fadd]; ring

theorem jAddGen_y (a b : Jac) :
    ((jAddGen a b).y : F) =
      2 * (b.y * a.z ^ 3 - a.y * b.z ^ 3) *
        (4 * a.x * b.z ^ 2 * (b.x * a.z ^ 2 - a.x * b.z ^ 2) ^ 2 - (jAddGen a b).x)
        - 8 * a.y * b.z ^ 3 * (b.x * a.z ^ 2 - a.x * b.z ^ 2) ^ 3 := by
  simp only [jAddGen, cast_fmul, cast_fsub, cast_fadd]; ring

omit hp in
theorem jAdd_red (a b : Jac) (ha : JRed a) (hb : JRed b) : JRed (jAdd a b) := by
  rw [jAdd_eq]
  split
  · exact hb
  · split
    · exact ha
    · split
      · exact jDouble_red a
      · exact ⟨fsub_lt _ _, fsub_lt _ _, fmul_lt _ _⟩

/-- add-2007-bl with the case analysis of `curvePoint.Add` is the chord-and-tangent rule. -/
theorem jAdd_affF (a b : Jac) (ha : JRed a) (hb : JRed b) :
    jAffF (jAdd a b) = addF (jAffF a) (jAffF b) := by
  rw [jAdd_eq]
  by_cases hza : a.z = 0
  · have : (a.z : F) = 0 := by rw [hza]; simp
    simp [hza, jAffF, addF]
  · have hzaF : (a.z : F) ≠ 0 := fun h => hza ((cast_eq_zero_iff_of_lt ha.2.2).mp h)
    rw [if_neg hza]
    have hA : jAffF a = some ((a.x : F) / (a.z : F) ^ 2, (a.y : F) / (a.z : F) ^ 3) := by
      rw [jAffF, if_neg hzaF]
    by_cases hzb : b.z = 0
    · have : (b.z : F) = 0 := by rw [hzb]; simp
      rw [if_pos hzb, hA]
      simp [jAffF, this, addF]
    · have hzbF : (b.z : F) ≠ 0 := fun h => hzb ((cast_eq_zero_iff_of_lt hb.2.2).mp h)
      rw [if_neg hzb]
      have hB : jAffF b = some ((b.x : F) / (b.z : F) ^ 2, (b.y : F) / (b.z : F) ^ 3) := by
        rw [jAffF, if_neg hzbF]
      have hHlt : jH a b < P := fsub_lt _ _
      have hTlt : jT a b < P := fsub_lt _ _
      have hX : (a.x : F) / (a.z : F) ^ 2 = (b.x : F) / (b.z : F) ^ 2 ↔ jH a b = 0 := by
        rw [← cast_eq_zero_iff_of_lt hHlt, jH_cast, div_eq_div_iff (pow_ne_zero _ hzaF) (pow_ne_zero _ hzbF),
          sub_eq_zero]
        constructor <;> intro h <;> linear_combination -h
      have hY : (a.y : F) / (a.z : F) ^ 3 = (b.y : F) / (b.z : F) ^ 3 ↔ jT a b = 0 := by
        rw [← cast_eq_zero_iff_of_lt hTlt, jT_cast, div_eq_div_iff (pow_ne_zero _ hzaF) (pow_ne_zero _ hzbF),
          sub_eq_zero]
        constructor <;> intro h <;> linear_combination -h
      rw [hB]
      by_cases hH : jH a b = 0
      · by_cases hT : jT a b = 0
        · -- same affine point: doubling
          have hc : (jH a b == 0 && jT a b == 0) = true := by simp [hH, hT]
          rw [if_pos hc, jDouble_affF, hA]
          simp only [addF, hX.mpr hH, hY.mpr hT, if_true]
        · -- opposite points: z = (…)·h = 0
          have hc : ¬ (jH a b == 0 && jT a b == 0) = true := by simp [hT]
          have hHF : (b.x : F) * a.z ^ 2 - a.x * b.z ^ 2 = 0 := by rw [← jH_cast, hH]; simp
          have hz0 : ((jAddGen a b).z : F) = 0 := by rw [jAddGen_z, hHF, mul_zero]
          rw [if_neg hc, jAffF, if_pos hz0, hA]
          have hYne : ¬ (a.y : F) / (a.z : F) ^ 3 = (b.y : F) / (b.z : F) ^ 3 := fun h => hT (hY.mp h)
          simp only [addF, hX.mpr hH, hYne, if_true, if_false]
      · -- chord
        have hc : ¬ (jH a b == 0 && jT a b == 0) = true := by simp [hH]
        have hXne : ¬ (a.x : F) / (a.z : F) ^ 2 = (b.x : F) / (b.z : F) ^ 2 := fun h => hH (hX.mp h)
        have hHF : (b.x : F) * a.z ^ 2 - a.x * b.z ^ 2 ≠ 0 := by
          rw [← jH_cast]; exact fun h => hH ((cast_eq_zero_iff_of_lt hHlt).mp h)
        have h2 := two_ne_zero' (hp := hp)
        have hz' : ((jAddGen a b).z : F) ≠ 0 := by
          rw [jAddGen_z]
          exact mul_ne_zero (mul_ne_zero (mul_ne_zero h2 hzaF) hzbF) hHF
        rw [if_neg hc, jAffF, if_neg hz', hA]
        simp only [addF, hXne, if_false, Option.some.injEq, Prod.mk.injEq]
        rw [jAddGen_y, jAddGen_x, jAddGen_z]
        -- make D = x2 z1² − x1 z2² and T = y2 z1³ − y1 z2³ atoms and eliminate x2, y2
        have hbx : (b.x : F) = ((b.x * a.z ^ 2 - a.x * b.z ^ 2) + a.x * b.z ^ 2) / (a.z : F) ^ 2 := by
          field_simp; ring
        have hby : (b.y : F) = ((b.y * a.z ^ 3 - a.y * b.z ^ 3) + a.y * b.z ^ 3) / (a.z : F) ^ 3 := by
          field_simp; ring
        generalize hD : (b.x : F) * a.z ^ 2 - a.x * b.z ^ 2 = D at hbx hHF ⊢
        generalize hT' : (b.y : F) * a.z ^ 3 - a.y * b.z ^ 3 = T at hby ⊢
        rw [hbx, hby]
        have e1 : (D + (a.x : F) * b.z ^ 2) / (a.z : F) ^ 2 / (b.z : F) ^ 2 - (a.x : F) / (a.z : F) ^ 2
            = D / ((a.z : F) ^ 2 * (b.z : F) ^ 2) := by field_simp; ring
        have e2 : (T + (a.y : F) * b.z ^ 3) / (a.z : F) ^ 3 / (b.z : F) ^ 3 - (a.y : F) / (a.z : F) ^ 3
            = T / ((a.z : F) ^ 3 * (b.z : F) ^ 3) := by field_simp; ring
        rw [e1, e2]
        constructor
        · field_simp; ring
        · field_simp; ring

/-! ### Jacobian operations and their affine images -/

theorem toPt_jAdd (a b : Jac) (ha : JRed a) (hb : JRed b) :
    (jAdd a b).toPt = Pt.add a.toPt b.toPt := by
  have h1 := toPt_affF (jAdd a b) (jAdd_red a b ha hb)
  have h2 := toPt_affF a ha
  have h3 := toPt_affF b hb
  have h4 := ptAdd_affF a.toPt b.toPt h2.2 h3.2
  apply ptAffF_inj _ _ h1.2 h4.2
  rw [h1.1, jAdd_affF a b ha hb, h4.1, h2.1, h3.1]

theorem toPt_jDouble (a : Jac) (ha : JRed a) : (jDouble a).toPt = Pt.double a.toPt := by
  have h1 := toPt_affF (jDouble a) (jDouble_red a)
  have h2 := toPt_affF a ha
  have h4 := ptDouble_affF a.toPt
  apply ptAffF_inj _ _ h1.2 (by rw [h4.2]; rfl)
  rw [h1.1, jDouble_affF a, h4.1, h2.1]

omit hp in
theorem toPt_ofPt (p : Pt) (hr : p.reduced = true) : (Jac.ofPt p).toPt = p ∧ JRed (Jac.ofPt p) := by
  cases p with
  | inf => exact ⟨by decide, by decide, by decide, by decide⟩
  | aff x y =>
    simp only [Pt.reduced, Bool.and_eq_true, decide_eq_true_eq] at hr
    exact ⟨by simp [Jac.ofPt, Jac.toPt, jMakeAffine], hr.1, hr.2, show 1 < P by decide⟩

theorem toPt_jMulStep (a s : Jac) (ha : JRed a) (hs : JRed s) (bit : Bool) :
    (jMulStep a s bit).toPt =
      (if bit then Pt.add (Pt.double s.toPt) a.toPt else Pt.double s.toPt) ∧ JRed (jMulStep a s bit) := by
  cases bit with
  | false => exact ⟨by simp [jMulStep, toPt_jDouble s hs], jDouble_red s⟩
  | true =>
    simp only [jMulStep, if_true]
    rw [toPt_jAdd _ _ (jDouble_red s) ha, toPt_jDouble s hs]
    exact ⟨rfl, jAdd_red _ _ (jDouble_red s) ha⟩

theorem toPt_foldl (a : Jac) (ha : JRed a) (bs : List Bool) (s : Jac) (hs : JRed s) :
    (bs.foldl (jMulStep a) s).toPt =
      bs.foldl (fun s b => if b then Pt.add (Pt.double s) a.toPt else Pt.double s) s.toPt := by
  induction bs generalizing s with
  | nil => rfl
  | cons b bs ih =>
    simp only [List.foldl_cons]
    have h := toPt_jMulStep a s ha hs b
    rw [ih _ h.2, h.1]

/-- `curvePoint.Mul` (with its extra leading zero bit) has the affine image `Pt.mul`. -/
theorem toPt_jMul (a : Jac) (ha : JRed a) (k : ℕ) : (jMul a k).toPt = Pt.mul a.toPt k := by
  unfold jMul Pt.mul
  rw [List.reverse_append, List.reverse_singleton, List.singleton_append, List.foldl_cons]
  have h0 := toPt_jMulStep a Jac.infinity ha ⟨by decide, by decide, by decide⟩ false
  rw [toPt_foldl a ha _ _ h0.2, h0.1]
  rfl

omit hp in
theorem jNeg_red (a : Jac) (ha : JRed a) : JRed (jNeg a) := ⟨ha.1, fneg_lt _, ha.2.2⟩

/-- `curvePoint.Neg` has the affine image `Pt.neg`. -/
theorem toPt_jNeg (a : Jac) (ha : JRed a) : (jNeg a).toPt = a.toPt.neg := by
  have h1 := toPt_affF (jNeg a) (jNeg_red a ha)
  have h2 := toPt_affF a ha
  have hnr : a.toPt.neg.reduced = true := by
    cases h : a.toPt with
    | inf => rfl
    | aff x y =>
      have := h2.2; rw [h] at this
      simp only [Pt.reduced, Bool.and_eq_true, decide_eq_true_eq] at this
      simp [Pt.neg, Pt.reduced, this.1, fneg_lt]
  apply ptAffF_inj _ _ h1.2 hnr
  rw [h1.1]
  have h3 : ptAffF a.toPt.neg = (ptAffF a.toPt).map (fun q => (q.1, -q.2)) := by
    cases a.toPt with
    | inf => rfl
    | aff x y => simp [Pt.neg, ptAffF, cast_fneg]
  rw [h3, h2.1]
  unfold jAffF
  simp only [jNeg, cast_fneg]
  split
  · rfl
  · simp [neg_div]

end Rangers.Proofs.Bls14
