import Mathlib.NumberTheory.LucasPrimality
import Mathlib.Tactic.ReduceModChar
import Mathlib.Tactic.NormNum.Prime
import Mathlib.Algebra.BigOperators.Associated
/-!
Pratt certificate for the bn256 group order `r` (`bn256.Order`, regenerated from the source into
`Generated.Bn256.order`): `r` is prime. Produced by a script (Pollard-rho factorisation of every
`q - 1` in the tree, least primitive root as witness); every modular power is re-evaluated by
`reduce_mod_char`, nothing is taken on trust. If the constant in `constants.go` changes, the last
theorem no longer type-checks.
-/
namespace Rangers.Proofs.C13Pratt

/-- Lucas/Pratt step: `p` is prime if `a` has order `p-1` mod `p`, witnessed on the prime
    factors (listed with multiplicity) of `p-1`. -/
theorem pratt (p a : ℕ) (l : List ℕ) (hl : ∀ q ∈ l, q.Prime) (hprod : l.prod = p - 1)
    (ha : (a : ZMod p) ^ (p - 1) = 1) (hd : ∀ q ∈ l, (a : ZMod p) ^ ((p - 1) / q) ≠ 1) : p.Prime := by
  apply lucas_primality p a ha
  intro q hq hdvd
  rw [← hprod] at hdvd
  obtain ⟨x, hx, hqx⟩ := (Prime.dvd_prod_iff hq.prime).1 hdvd
  have := (Nat.prime_dvd_prime_iff_eq hq (hl x hx)).1 hqx
  subst this
  exact hd q hx

theorem prime_101 : Nat.Prime 101 := by
  refine pratt 101 2 [2, 2, 5, 5] ?_ (by norm_num) (by reduce_mod_char) ?_
  · intro q hq
    simp only [List.mem_cons, List.mem_nil_iff, or_false] at hq
    rcases hq with rfl | rfl | rfl | rfl
    · exact (by norm_num)
    · exact (by norm_num)
    · exact (by norm_num)
    · exact (by norm_num)
  · intro q hq
    simp only [List.mem_cons, List.mem_nil_iff, or_false] at hq
    rcases hq with rfl | rfl | rfl | rfl <;> (reduce_mod_char; decide)

theorem prime_127 : Nat.Prime 127 := by
  refine pratt 127 3 [2, 3, 3, 7] ?_ (by norm_num) (by reduce_mod_char) ?_
  · intro q hq
    simp only [List.mem_cons, List.mem_nil_iff, or_false] at hq
    rcases hq with rfl | rfl | rfl | rfl
    · exact (by norm_num)
    · exact (by norm_num)
    · exact (by norm_num)
    · exact (by norm_num)
  · intro q hq
    simp only [List.mem_cons, List.mem_nil_iff, or_false] at hq
    rcases hq with rfl | rfl | rfl | rfl <;> (reduce_mod_char; decide)

theorem prime_157 : Nat.Prime 157 := by
  refine pratt 157 5 [2, 2, 3, 13] ?_ (by norm_num) (by reduce_mod_char) ?_
  · intro q hq
    simp only [List.mem_cons, List.mem_nil_iff, or_false] at hq
    rcases hq with rfl | rfl | rfl | rfl
    · exact (by norm_num)
    · exact (by norm_num)
    · exact (by norm_num)
    · exact (by norm_num)
  · intro q hq
    simp only [List.mem_cons, List.mem_nil_iff, or_false] at hq
    rcases hq with rfl | rfl | rfl | rfl <;> (reduce_mod_char; decide)

theorem prime_233 : Nat.Prime 233 := by
  refine pratt 233 3 [2, 2, 2, 29] ?_ (by norm_num) (by reduce_mod_char) ?_
  · intro q hq
    simp only [List.mem_cons, List.mem_nil_iff, or_false] at hq
    rcases hq with rfl | rfl | rfl | rfl
    · exact (by norm_num)
    · exact (by norm_num)
    · exact (by norm_num)
    · exact (by norm_num)
  · intro q hq
    simp only [List.mem_cons, List.mem_nil_iff, or_false] at hq
    rcases hq with rfl | rfl | rfl | rfl <;> (reduce_mod_char; decide)

theorem prime_313 : Nat.Prime 313 := by
  refine pratt 313 10 [2, 2, 2, 3, 13] ?_ (by norm_num) (by reduce_mod_char) ?_
  · intro q hq
    simp only [List.mem_cons, List.mem_nil_iff, or_false] at hq
    rcases hq with rfl | rfl | rfl | rfl | rfl
    · exact (by norm_num)
    · exact (by norm_num)
    · exact (by norm_num)
    · exact (by norm_num)
    · exact (by norm_num)
  · intro q hq
    simp only [List.mem_cons, List.mem_nil_iff, or_false] at hq
    rcases hq with rfl | rfl | rfl | rfl | rfl <;> (reduce_mod_char; decide)

theorem prime_509 : Nat.Prime 509 := by
  refine pratt 509 2 [2, 2, 127] ?_ (by norm_num) (by reduce_mod_char) ?_
  · intro q hq
    simp only [List.mem_cons, List.mem_nil_iff, or_false] at hq
    rcases hq with rfl | rfl | rfl
    · exact (by norm_num)
    · exact (by norm_num)
    · exact prime_127
  · intro q hq
    simp only [List.mem_cons, List.mem_nil_iff, or_false] at hq
    rcases hq with rfl | rfl | rfl <;> (reduce_mod_char; decide)

theorem prime_809 : Nat.Prime 809 := by
  refine pratt 809 3 [2, 2, 2, 101] ?_ (by norm_num) (by reduce_mod_char) ?_
  · intro q hq
    simp only [List.mem_cons, List.mem_nil_iff, or_false] at hq
    rcases hq with rfl | rfl | rfl | rfl
    · exact (by norm_num)
    · exact (by norm_num)
    · exact (by norm_num)
    · exact prime_101
  · intro q hq
    simp only [List.mem_cons, List.mem_nil_iff, or_false] at hq
    rcases hq with rfl | rfl | rfl | rfl <;> (reduce_mod_char; decide)

theorem prime_977 : Nat.Prime 977 := by
  refine pratt 977 3 [2, 2, 2, 2, 61] ?_ (by norm_num) (by reduce_mod_char) ?_
  · intro q hq
    simp only [List.mem_cons, List.mem_nil_iff, or_false] at hq
    rcases hq with rfl | rfl | rfl | rfl | rfl
    · exact (by norm_num)
    · exact (by norm_num)
    · exact (by norm_num)
    · exact (by norm_num)
    · exact (by norm_num)
  · intro q hq
    simp only [List.mem_cons, List.mem_nil_iff, or_false] at hq
    rcases hq with rfl | rfl | rfl | rfl | rfl <;> (reduce_mod_char; decide)

theorem prime_1979 : Nat.Prime 1979 := by
  refine pratt 1979 2 [2, 23, 43] ?_ (by norm_num) (by reduce_mod_char) ?_
  · intro q hq
    simp only [List.mem_cons, List.mem_nil_iff, or_false] at hq
    rcases hq with rfl | rfl | rfl
    · exact (by norm_num)
    · exact (by norm_num)
    · exact (by norm_num)
  · intro q hq
    simp only [List.mem_cons, List.mem_nil_iff, or_false] at hq
    rcases hq with rfl | rfl | rfl <;> (reduce_mod_char; decide)

theorem prime_4073 : Nat.Prime 4073 := by
  refine pratt 4073 3 [2, 2, 2, 509] ?_ (by norm_num) (by reduce_mod_char) ?_
  · intro q hq
    simp only [List.mem_cons, List.mem_nil_iff, or_false] at hq
    rcases hq with rfl | rfl | rfl | rfl
    · exact (by norm_num)
    · exact (by norm_num)
    · exact (by norm_num)
    · exact prime_509
  · intro q hq
    simp only [List.mem_cons, List.mem_nil_iff, or_false] at hq
    rcases hq with rfl | rfl | rfl | rfl <;> (reduce_mod_char; decide)

theorem prime_5743 : Nat.Prime 5743 := by
  refine pratt 5743 10 [2, 3, 3, 11, 29] ?_ (by norm_num) (by reduce_mod_char) ?_
  · intro q hq
    simp only [List.mem_cons, List.mem_nil_iff, or_false] at hq
    rcases hq with rfl | rfl | rfl | rfl | rfl
    · exact (by norm_num)
    · exact (by norm_num)
    · exact (by norm_num)
    · exact (by norm_num)
    · exact (by norm_num)
  · intro q hq
    simp only [List.mem_cons, List.mem_nil_iff, or_false] at hq
    rcases hq with rfl | rfl | rfl | rfl | rfl <;> (reduce_mod_char; decide)

theorem prime_6473 : Nat.Prime 6473 := by
  refine pratt 6473 3 [2, 2, 2, 809] ?_ (by norm_num) (by reduce_mod_char) ?_
  · intro q hq
    simp only [List.mem_cons, List.mem_nil_iff, or_false] at hq
    rcases hq with rfl | rfl | rfl | rfl
    · exact (by norm_num)
    · exact (by norm_num)
    · exact (by norm_num)
    · exact prime_809
  · intro q hq
    simp only [List.mem_cons, List.mem_nil_iff, or_false] at hq
    rcases hq with rfl | rfl | rfl | rfl <;> (reduce_mod_char; decide)

theorem prime_7297 : Nat.Prime 7297 := by
  refine pratt 7297 5 [2, 2, 2, 2, 2, 2, 2, 3, 19] ?_ (by norm_num) (by reduce_mod_char) ?_
  · intro q hq
    simp only [List.mem_cons, List.mem_nil_iff, or_false] at hq
    rcases hq with rfl | rfl | rfl | rfl | rfl | rfl | rfl | rfl | rfl
    · exact (by norm_num)
    · exact (by norm_num)
    · exact (by norm_num)
    · exact (by norm_num)
    · exact (by norm_num)
    · exact (by norm_num)
    · exact (by norm_num)
    · exact (by norm_num)
    · exact (by norm_num)
  · intro q hq
    simp only [List.mem_cons, List.mem_nil_iff, or_false] at hq
    rcases hq with rfl | rfl | rfl | rfl | rfl | rfl | rfl | rfl | rfl <;> (reduce_mod_char; decide)

theorem prime_7907 : Nat.Prime 7907 := by
  refine pratt 7907 2 [2, 59, 67] ?_ (by norm_num) (by reduce_mod_char) ?_
  · intro q hq
    simp only [List.mem_cons, List.mem_nil_iff, or_false] at hq
    rcases hq with rfl | rfl | rfl
    · exact (by norm_num)
    · exact (by norm_num)
    · exact (by norm_num)
  · intro q hq
    simp only [List.mem_cons, List.mem_nil_iff, or_false] at hq
    rcases hq with rfl | rfl | rfl <;> (reduce_mod_char; decide)

theorem prime_8147 : Nat.Prime 8147 := by
  refine pratt 8147 2 [2, 4073] ?_ (by norm_num) (by reduce_mod_char) ?_
  · intro q hq
    simp only [List.mem_cons, List.mem_nil_iff, or_false] at hq
    rcases hq with rfl | rfl
    · exact (by norm_num)
    · exact prime_4073
  · intro q hq
    simp only [List.mem_cons, List.mem_nil_iff, or_false] at hq
    rcases hq with rfl | rfl <;> (reduce_mod_char; decide)

theorem prime_39581 : Nat.Prime 39581 := by
  refine pratt 39581 2 [2, 2, 5, 1979] ?_ (by norm_num) (by reduce_mod_char) ?_
  · intro q hq
    simp only [List.mem_cons, List.mem_nil_iff, or_false] at hq
    rcases hq with rfl | rfl | rfl | rfl
    · exact (by norm_num)
    · exact (by norm_num)
    · exact (by norm_num)
    · exact prime_1979
  · intro q hq
    simp only [List.mem_cons, List.mem_nil_iff, or_false] at hq
    rcases hq with rfl | rfl | rfl | rfl <;> (reduce_mod_char; decide)

theorem prime_237487 : Nat.Prime 237487 := by
  refine pratt 237487 5 [2, 3, 39581] ?_ (by norm_num) (by reduce_mod_char) ?_
  · intro q hq
    simp only [List.mem_cons, List.mem_nil_iff, or_false] at hq
    rcases hq with rfl | rfl | rfl
    · exact (by norm_num)
    · exact (by norm_num)
    · exact prime_39581
  · intro q hq
    simp only [List.mem_cons, List.mem_nil_iff, or_false] at hq
    rcases hq with rfl | rfl | rfl <;> (reduce_mod_char; decide)

theorem prime_1802797 : Nat.Prime 1802797 := by
  refine pratt 1802797 2 [2, 2, 3, 19, 7907] ?_ (by norm_num) (by reduce_mod_char) ?_
  · intro q hq
    simp only [List.mem_cons, List.mem_nil_iff, or_false] at hq
    rcases hq with rfl | rfl | rfl | rfl | rfl
    · exact (by norm_num)
    · exact (by norm_num)
    · exact (by norm_num)
    · exact (by norm_num)
    · exact prime_7907
  · intro q hq
    simp only [List.mem_cons, List.mem_nil_iff, or_false] at hq
    rcases hq with rfl | rfl | rfl | rfl | rfl <;> (reduce_mod_char; decide)

theorem prime_1868033 : Nat.Prime 1868033 := by
  refine pratt 1868033 3 [2, 2, 2, 2, 2, 2, 2, 2, 7297] ?_ (by norm_num) (by reduce_mod_char) ?_
  · intro q hq
    simp only [List.mem_cons, List.mem_nil_iff, or_false] at hq
    rcases hq with rfl | rfl | rfl | rfl | rfl | rfl | rfl | rfl | rfl
    · exact (by norm_num)
    · exact (by norm_num)
    · exact (by norm_num)
    · exact (by norm_num)
    · exact (by norm_num)
    · exact (by norm_num)
    · exact (by norm_num)
    · exact (by norm_num)
    · exact prime_7297
  · intro q hq
    simp only [List.mem_cons, List.mem_nil_iff, or_false] at hq
    rcases hq with rfl | rfl | rfl | rfl | rfl | rfl | rfl | rfl | rfl <;> (reduce_mod_char; decide)

theorem prime_8074559 : Nat.Prime 8074559 := by
  refine pratt 8074559 11 [2, 17, 237487] ?_ (by norm_num) (by reduce_mod_char) ?_
  · intro q hq
    simp only [List.mem_cons, List.mem_nil_iff, or_false] at hq
    rcases hq with rfl | rfl | rfl
    · exact (by norm_num)
    · exact (by norm_num)
    · exact prime_237487
  · intro q hq
    simp only [List.mem_cons, List.mem_nil_iff, or_false] at hq
    rcases hq with rfl | rfl | rfl <;> (reduce_mod_char; decide)

theorem prime_280941149 : Nat.Prime 280941149 := by
  refine pratt 280941149 2 [2, 2, 37, 233, 8147] ?_ (by norm_num) (by reduce_mod_char) ?_
  · intro q hq
    simp only [List.mem_cons, List.mem_nil_iff, or_false] at hq
    rcases hq with rfl | rfl | rfl | rfl | rfl
    · exact (by norm_num)
    · exact (by norm_num)
    · exact (by norm_num)
    · exact prime_233
    · exact prime_8147
  · intro q hq
    simp only [List.mem_cons, List.mem_nil_iff, or_false] at hq
    rcases hq with rfl | rfl | rfl | rfl | rfl <;> (reduce_mod_char; decide)

theorem prime_320897867 : Nat.Prime 320897867 := by
  refine pratt 320897867 2 [2, 89, 1802797] ?_ (by norm_num) (by reduce_mod_char) ?_
  · intro q hq
    simp only [List.mem_cons, List.mem_nil_iff, or_false] at hq
    rcases hq with rfl | rfl | rfl
    · exact (by norm_num)
    · exact (by norm_num)
    · exact prime_1802797
  · intro q hq
    simp only [List.mem_cons, List.mem_nil_iff, or_false] at hq
    rcases hq with rfl | rfl | rfl <;> (reduce_mod_char; decide)

theorem prime_25671829361 : Nat.Prime 25671829361 := by
  refine pratt 25671829361 7 [2, 2, 2, 2, 5, 320897867] ?_ (by norm_num) (by reduce_mod_char) ?_
  · intro q hq
    simp only [List.mem_cons, List.mem_nil_iff, or_false] at hq
    rcases hq with rfl | rfl | rfl | rfl | rfl | rfl
    · exact (by norm_num)
    · exact (by norm_num)
    · exact (by norm_num)
    · exact (by norm_num)
    · exact (by norm_num)
    · exact prime_320897867
  · intro q hq
    simp only [List.mem_cons, List.mem_nil_iff, or_false] at hq
    rcases hq with rfl | rfl | rfl | rfl | rfl | rfl <;> (reduce_mod_char; decide)

theorem prime_71260195429 : Nat.Prime 71260195429 := by
  refine pratt 71260195429 6 [2, 2, 3, 3, 313, 977, 6473] ?_ (by norm_num) (by reduce_mod_char) ?_
  · intro q hq
    simp only [List.mem_cons, List.mem_nil_iff, or_false] at hq
    rcases hq with rfl | rfl | rfl | rfl | rfl | rfl | rfl
    · exact (by norm_num)
    · exact (by norm_num)
    · exact (by norm_num)
    · exact (by norm_num)
    · exact prime_313
    · exact prime_977
    · exact prime_6473
  · intro q hq
    simp only [List.mem_cons, List.mem_nil_iff, or_false] at hq
    rcases hq with rfl | rfl | rfl | rfl | rfl | rfl | rfl <;> (reduce_mod_char; decide)

theorem prime_4365978647773 : Nat.Prime 4365978647773 := by
  refine pratt 4365978647773 2 [2, 2, 3, 7, 41, 157, 8074559] ?_ (by norm_num) (by reduce_mod_char) ?_
  · intro q hq
    simp only [List.mem_cons, List.mem_nil_iff, or_false] at hq
    rcases hq with rfl | rfl | rfl | rfl | rfl | rfl | rfl
    · exact (by norm_num)
    · exact (by norm_num)
    · exact (by norm_num)
    · exact (by norm_num)
    · exact (by norm_num)
    · exact prime_157
    · exact prime_8074559
  · intro q hq
    simp only [List.mem_cons, List.mem_nil_iff, or_false] at hq
    rcases hq with rfl | rfl | rfl | rfl | rfl | rfl | rfl <;> (reduce_mod_char; decide)

theorem prime_130979359433191 : Nat.Prime 130979359433191 := by
  refine pratt 130979359433191 6 [2, 3, 5, 4365978647773] ?_ (by norm_num) (by reduce_mod_char) ?_
  · intro q hq
    simp only [List.mem_cons, List.mem_nil_iff, or_false] at hq
    rcases hq with rfl | rfl | rfl | rfl
    · exact (by norm_num)
    · exact (by norm_num)
    · exact (by norm_num)
    · exact prime_4365978647773
  · intro q hq
    simp only [List.mem_cons, List.mem_nil_iff, or_false] at hq
    rcases hq with rfl | rfl | rfl | rfl <;> (reduce_mod_char; decide)

theorem prime_3658759154569600381739 : Nat.Prime 3658759154569600381739 := by
  refine pratt 3658759154569600381739 2 [2, 25671829361, 71260195429] ?_ (by norm_num) (by reduce_mod_char) ?_
  · intro q hq
    simp only [List.mem_cons, List.mem_nil_iff, or_false] at hq
    rcases hq with rfl | rfl | rfl
    · exact (by norm_num)
    · exact prime_25671829361
    · exact prime_71260195429
  · intro q hq
    simp only [List.mem_cons, List.mem_nil_iff, or_false] at hq
    rcases hq with rfl | rfl | rfl <;> (reduce_mod_char; decide)

theorem prime_263430659129011227485209 : Nat.Prime 263430659129011227485209 := by
  refine pratt 263430659129011227485209 11 [2, 2, 2, 3, 3, 3658759154569600381739] ?_ (by norm_num) (by reduce_mod_char) ?_
  · intro q hq
    simp only [List.mem_cons, List.mem_nil_iff, or_false] at hq
    rcases hq with rfl | rfl | rfl | rfl | rfl | rfl
    · exact (by norm_num)
    · exact (by norm_num)
    · exact (by norm_num)
    · exact (by norm_num)
    · exact (by norm_num)
    · exact prime_3658759154569600381739
  · intro q hq
    simp only [List.mem_cons, List.mem_nil_iff, or_false] at hq
    rcases hq with rfl | rfl | rfl | rfl | rfl | rfl <;> (reduce_mod_char; decide)

theorem prime_31084817777223324843254663 : Nat.Prime 31084817777223324843254663 := by
  refine pratt 31084817777223324843254663 5 [2, 59, 263430659129011227485209] ?_ (by norm_num) (by reduce_mod_char) ?_
  · intro q hq
    simp only [List.mem_cons, List.mem_nil_iff, or_false] at hq
    rcases hq with rfl | rfl | rfl
    · exact (by norm_num)
    · exact (by norm_num)
    · exact prime_263430659129011227485209
  · intro q hq
    simp only [List.mem_cons, List.mem_nil_iff, or_false] at hq
    rcases hq with rfl | rfl | rfl <;> (reduce_mod_char; decide)

theorem prime_491513138693455212421542731357 : Nat.Prime 491513138693455212421542731357 := by
  refine pratt 491513138693455212421542731357 2 [2, 2, 59, 67, 31084817777223324843254663] ?_ (by norm_num) (by reduce_mod_char) ?_
  · intro q hq
    simp only [List.mem_cons, List.mem_nil_iff, or_false] at hq
    rcases hq with rfl | rfl | rfl | rfl | rfl
    · exact (by norm_num)
    · exact (by norm_num)
    · exact (by norm_num)
    · exact (by norm_num)
    · exact prime_31084817777223324843254663
  · intro q hq
    simp only [List.mem_cons, List.mem_nil_iff, or_false] at hq
    rcases hq with rfl | rfl | rfl | rfl | rfl <;> (reduce_mod_char; decide)

theorem prime_65000549695646603732796438742359905742570406053903786389881062969044166799969 : Nat.Prime 65000549695646603732796438742359905742570406053903786389881062969044166799969 := by
  refine pratt 65000549695646603732796438742359905742570406053903786389881062969044166799969 7 [2, 2, 2, 2, 2, 3, 5743, 1868033, 1868033, 1868033, 280941149, 130979359433191, 491513138693455212421542731357] ?_ (by norm_num) (by reduce_mod_char) ?_
  · intro q hq
    simp only [List.mem_cons, List.mem_nil_iff, or_false] at hq
    rcases hq with rfl | rfl | rfl | rfl | rfl | rfl | rfl | rfl | rfl | rfl | rfl | rfl | rfl
    · exact (by norm_num)
    · exact (by norm_num)
    · exact (by norm_num)
    · exact (by norm_num)
    · exact (by norm_num)
    · exact (by norm_num)
    · exact prime_5743
    · exact prime_1868033
    · exact prime_1868033
    · exact prime_1868033
    · exact prime_280941149
    · exact prime_130979359433191
    · exact prime_491513138693455212421542731357
  · intro q hq
    simp only [List.mem_cons, List.mem_nil_iff, or_false] at hq
    rcases hq with rfl | rfl | rfl | rfl | rfl | rfl | rfl | rfl | rfl | rfl | rfl | rfl | rfl <;> (reduce_mod_char; decide)


end Rangers.Proofs.C13Pratt
