import Rangers.Proofs.RLPStreamRefine
/-! Refinement, continued: `List`/`ListEnd`, and generic decoding through the state machine. -/
namespace Rangers.RLP
open Rangers

theorem sList_ok {s : Stream} {x : UInt8} {tl : Bytes} {st : List (Nat × Nat)} {ts cs : Nat}
    (hc : Core s (x :: tl) st) (hk : s.kind = none) (ha1 : 1 ≤ avail st (x :: tl).length)
    (hav : avail st (x :: tl).length ≤ (x :: tl).length)
    (hh : readHead ((x :: tl).take (avail st (x :: tl).length)) = .ok (.list, ts, cs)) :
    (sList s).1 = .ok cs ∧ Core (sList s).2 ((x :: tl).drop ts) ((0, cs) :: bump st ts) ∧
    (sList s).2.kind = none ∧ cs ≤ avail st (x :: tl).length - ts ∧ ts ≤ avail st (x :: tl).length := by
  obtain ⟨k1, k2, k3, k4, k5, k6, k7, k8⟩ := sKind_ok hc hk ha1 hav hh
  simp only [hdrLen, kSize, reduceCtorEq, if_false] at k1 k2 k4 k7 k8
  unfold sList
  cases hr : sKind s with
  | mk r s1 =>
    rw [hr] at k1 k2 k3 k4 k5
    simp only at k1 k2 k3 k4 k5
    subst k1
    simp only [ne_eq, not_true_eq_false, if_false]
    exact ⟨by first | rfl | trivial, ⟨k2.inp_eq, k2.rem, by simp [k2.stk], k2.lim⟩, by first | rfl | trivial, k7, k8⟩

theorem sListEnd_ok {s : Stream} {inp : Bytes} {st : List (Nat × Nat)} {cs : Nat} (hc : Core s inp ((cs, cs) :: st)) :
    (sListEnd s).1 = none ∧ Core (sListEnd s).2 inp (bump st cs) ∧ (sListEnd s).2.kind = none := by
  unfold sListEnd
  rw [hc.stk]
  simp only [ne_eq, not_true_eq_false, if_false]
  refine ⟨by first | rfl | trivial, ⟨hc.inp_eq, hc.rem, ?_, hc.lim⟩, by first | rfl | trivial⟩
  cases st with
  | nil => rfl
  | cons t r => obtain ⟨p, sz⟩ := t; rfl

end Rangers.RLP

namespace Rangers.RLP
open Rangers

/-- `Kind()` on a stream whose header is already cached without error returns the cache -/
theorem sKind_cached {s : Stream} {k : Kind} (hk : s.kind = some k) (he : s.kinderr = none) :
    sKind s = (.ok (k, s.size), s) := by
  unfold sKind; rw [hk]; simp only; rw [he]

theorem sBytes_idem {s s1 : Stream} {k : Kind} {n : Nat} (h : sKind s = (.ok (k, n), s1))
    (hk : s1.kind = some k) (he : s1.kinderr = none) (hs : s1.size = n) : sBytes s1 = sBytes s := by
  unfold sBytes
  rw [sKind_cached hk he, h, hs]

theorem sList_idem {s s1 : Stream} {k : Kind} {n : Nat} (h : sKind s = (.ok (k, n), s1))
    (hk : s1.kind = some k) (he : s1.kinderr = none) (hs : s1.size = n) : sList s1 = sList s := by
  unfold sList
  rw [sKind_cached hk he, h, hs]

/-- the stream-side statement of "generic decoding from this state yields what the pure decoder
    yields on the visible window", at pure fuel `f` (the stream needs one more) -/
def RefAt (f : Nat) : Prop :=
  (∀ (s : Stream) (inp : Bytes) (st : List (Nat × Nat)) (it : Item) (rest : Bytes),
      Core s inp st → s.kind = none → avail st inp.length ≤ inp.length →
      decItemF f (inp.take (avail st inp.length)) = .ok (it, rest) →
      ∃ n, n + rest.length = avail st inp.length ∧ (sDecodeAny (f + 1) s).1 = .ok it ∧
        Core (sDecodeAny (f + 1) s).2 (inp.drop n) (bump st n) ∧ (sDecodeAny (f + 1) s).2.kind = none) ∧
  (∀ (s : Stream) (inp : Bytes) (p sz : Nat) (r : List (Nat × Nat)) (xs : List Item),
      Core s inp ((p, sz) :: r) → s.kind = none → sz - p ≤ inp.length → p ≤ sz →
      decItemsF f (inp.take (sz - p)) = .ok xs →
      (sAnyElems (f + 1) s).1 = .ok xs ∧ Core (sAnyElems (f + 1) s).2 (inp.drop (sz - p)) ((sz, sz) :: r) ∧
        (sAnyElems (f + 1) s).2.kind = none)

theorem ref_zero : RefAt 0 :=
  ⟨by intro s inp st it rest _ _ _ h; simp [decItemF] at h, by intro s inp p sz r xs _ _ _ _ h; simp [decItemsF] at h⟩

end Rangers.RLP

namespace Rangers.RLP
open Rangers

theorem ref_succ_B {f : Nat} (ih : RefAt f) :
    ∀ (s : Stream) (inp : Bytes) (p sz : Nat) (r : List (Nat × Nat)) (xs : List Item),
      Core s inp ((p, sz) :: r) → s.kind = none → sz - p ≤ inp.length → p ≤ sz →
      decItemsF (f + 1) (inp.take (sz - p)) = .ok xs →
      (sAnyElems (f + 2) s).1 = .ok xs ∧ Core (sAnyElems (f + 2) s).2 (inp.drop (sz - p)) ((sz, sz) :: r) ∧
        (sAnyElems (f + 2) s).2.kind = none := by
  obtain ⟨ihA, ihB⟩ := ih
  intro s inp p sz r xs hc hk hav hps h
  by_cases hz : sz - p = 0
  · -- the list is used up: Kind answers EOL, the loop ends
    have hpe : p = sz := by omega
    subst hpe
    rw [hz] at h
    simp only [List.take_zero, decItemsF, Except.ok.injEq] at h
    subst h
    rw [sAnyElems, sDecodeAny]
    have hkf : sKind s = (.error .eol, { s with kinderr := none }) := by
      unfold sKind; rw [hk]; simp only
      unfold sKindFresh; simp only
      rw [hc.stk]; simp [atEnd]
      try exact hk
    rw [hkf]
    simp only [hz, List.drop_zero]
    exact ⟨trivial, ⟨hc.inp_eq, hc.rem, hc.stk, hc.lim⟩, hk⟩
  · have hwl : (inp.take (sz - p)).length = sz - p := by simp only [List.length_take]; omega
    cases hw : inp.take (sz - p) with
    | nil => rw [hw] at hwl; simp at hwl; omega
    | cons y ys =>
      rw [hw, decItemsF] at h
      cases hd : decItemF f (y :: ys) with
      | error e => rw [hd] at h; cases h
      | ok t =>
        obtain ⟨x, rest'⟩ := t
        rw [hd] at h
        simp only at h
        cases hd2 : decItemsF f rest' with
        | error e => rw [hd2] at h; cases h
        | ok xs' =>
          rw [hd2] at h
          simp only [Except.ok.injEq] at h
          subst h
          have hav' : avail ((p, sz) :: r) inp.length ≤ inp.length := by simpa [avail] using hav
          have hd' : decItemF f (inp.take (avail ((p, sz) :: r) inp.length)) = .ok (x, rest') := by
            simpa [avail, hw] using hd
          obtain ⟨n, hn, a1, a2, a3⟩ := ihA s inp ((p, sz) :: r) x rest' hc hk hav' hd'
          simp only [avail] at hn
          -- the pure rest is the window of the advanced stream
          have hs := (dec_sound f).1 _ _ _ hd
          have hrest : rest' = (inp.drop n).take (sz - (p + n)) := by
            have hel : (encode x).length = n := by
              have := congrArg List.length hs
              rw [← hw] at this
              simp only [List.length_append, hwl] at this
              omega
            have : rest' = (y :: ys).drop n := by
              rw [hs, List.drop_left' hel]
            rw [this, ← hw, List.drop_take]
            congr 1; omega
          rw [sAnyElems]
          cases hr : sDecodeAny (f + 1) s with
          | mk res s1 =>
            rw [hr] at a1 a2 a3
            simp only at a1 a2 a3
            subst a1
            simp only
            simp only [bump] at a2
            have hb := ihB s1 (inp.drop n) (p + n) sz r xs' a2 a3 (by simp only [List.length_drop]; omega) (by omega)
              (by rw [← hrest]; exact hd2)
            obtain ⟨b1, b2, b3⟩ := hb
            cases hr2 : sAnyElems (f + 1) s1 with
            | mk res2 s2 =>
              rw [hr2] at b1 b2 b3
              simp only at b1 b2 b3
              subst b1
              simp only
              refine ⟨trivial, ?_, b3⟩
              rw [List.drop_drop] at b2
              have e : n + (sz - (p + n)) = sz - p := by omega
              rw [e] at b2
              exact b2

end Rangers.RLP

namespace Rangers.RLP
open Rangers

theorem ref_succ_A {f : Nat} (ih : RefAt f) :
    ∀ (s : Stream) (inp : Bytes) (st : List (Nat × Nat)) (it : Item) (rest : Bytes),
      Core s inp st → s.kind = none → avail st inp.length ≤ inp.length →
      decItemF (f + 1) (inp.take (avail st inp.length)) = .ok (it, rest) →
      ∃ n, n + rest.length = avail st inp.length ∧ (sDecodeAny (f + 2) s).1 = .ok it ∧
        Core (sDecodeAny (f + 2) s).2 (inp.drop n) (bump st n) ∧ (sDecodeAny (f + 2) s).2.kind = none := by
  obtain ⟨_, ihB⟩ := ih
  intro s inp st it rest hc hk hav h
  rw [decItemF] at h
  cases hrk : readKind (inp.take (avail st inp.length)) with
  | error e => rw [hrk] at h; cases h
  | ok t =>
    obtain ⟨k, ts, cs⟩ := t
    rw [hrk] at h
    simp only at h
    obtain ⟨hh, hcanon⟩ := (readKind_iff_readHead _ k ts cs).1 hrk
    obtain ⟨hl, _, _⟩ := readHead_inv hh
    have hwl : (inp.take (avail st inp.length)).length = avail st inp.length := by
      simp only [List.length_take]; omega
    rw [hwl] at hl
    have hpos := (readHead_pos hh).1
    cases inp with
    | nil => simp at hav; simp only [List.length_nil] at hl; omega
    | cons x tl =>
      have ha1 : 1 ≤ avail st (x :: tl).length := by omega
      obtain ⟨k1, k2, k3, k4, k5, k6, k7, k8⟩ := sKind_ok hc hk ha1 hav hh
      rw [sDecodeAny]
      cases hr : sKind s with
      | mk res s1 =>
        rw [hr] at k1 k2 k3 k4 k5
        simp only at k1 k2 k3 k4 k5
        subst k1
        simp only
        have hdl : ((x :: tl).take (avail st (x :: tl).length)).drop (ts + cs) =
            ((x :: tl).drop (ts + cs)).take (avail st (x :: tl).length - (ts + cs)) := List.drop_take ..
        cases k with
        | list =>
          simp only [if_true]
          simp only at h
          rw [sList_idem hr k3 k5 k4]
          obtain ⟨l1, l2, l3, l4, l5⟩ := sList_ok hc hk ha1 hav hh
          cases hd : decItemsF f ((((x :: tl).take (avail st (x :: tl).length)).drop ts).take cs) with
          | error e => rw [hd] at h; cases h
          | ok xs =>
            rw [hd] at h
            simp only [Except.ok.injEq, Prod.mk.injEq] at h
            obtain ⟨rfl, rfl⟩ := h
            have hcont : (((x :: tl).take (avail st (x :: tl).length)).drop ts).take cs = ((x :: tl).drop ts).take cs :=
              take_drop_take _ _ _ _ hl
            rw [hcont] at hd
            cases hrl : sList s with
            | mk res2 s2 =>
              rw [hrl] at l1 l2 l3
              simp only at l1 l2 l3
              subst l1
              simp only
              have hlen2 : cs - 0 ≤ ((x :: tl).drop ts).length := by simp only [List.length_drop]; omega
              by_cases hcs : cs = 0
              · subst hcs
                simp only [if_true]
                have hxs : xs = [] := by
                  cases f with
                  | zero => simp [decItemsF] at hd
                  | succ f' => simpa [decItemsF] using hd.symm
                subst hxs
                obtain ⟨e1, e2, e3⟩ := sListEnd_ok (s := s2) (inp := (x :: tl).drop ts) (st := bump st ts) (cs := 0) l2
                cases hre : sListEnd s2 with
                | mk oe s3 =>
                  rw [hre] at e1 e2 e3
                  simp only at e1 e2 e3
                  subst e1
                  simp only
                  refine ⟨ts, ?_, trivial, ?_, e3⟩
                  · rw [hdl]; simp only [List.length_take, List.length_drop, Nat.add_zero]; omega
                  · rw [bump_bump] at e2; simpa using e2
              · simp only [hcs, if_false]
                obtain ⟨b1, b2, b3⟩ := ihB s2 ((x :: tl).drop ts) 0 cs (bump st ts) xs l2 l3 hlen2 (Nat.zero_le _) (by simpa using hd)
                cases hra : sAnyElems (f + 1) s2 with
                | mk res3 s3 =>
                  rw [hra] at b1 b2 b3
                  simp only at b1 b2 b3
                  subst b1
                  simp only
                  simp only [Nat.sub_zero, List.drop_drop] at b2
                  obtain ⟨e1, e2, e3⟩ := sListEnd_ok b2
                  cases hre : sListEnd s3 with
                  | mk oe s4 =>
                    rw [hre] at e1 e2 e3
                    simp only at e1 e2 e3
                    subst e1
                    simp only
                    refine ⟨ts + cs, ?_, trivial, ?_, e3⟩
                    · rw [hdl]; simp only [List.length_take, List.length_drop]; omega
                    · rw [bump_bump] at e2; exact e2
        | byte =>
          simp only [reduceCtorEq, if_false]
          simp only [Except.ok.injEq, Prod.mk.injEq] at h
          obtain ⟨rfl, rfl⟩ := h
          rw [sBytes_idem hr k3 k5 k4]
          obtain ⟨y1, y2, y3⟩ := sBytes_ok hc hk ha1 hav hh (by simp) hcanon
          cases hrb : sBytes s with
          | mk res2 s2 =>
            rw [hrb] at y1 y2 y3
            simp only at y1 y2 y3
            subst y1
            simp only
            refine ⟨ts + cs, ?_, by first | rfl | trivial, y2, y3⟩
            rw [hdl]; simp only [List.length_take, List.length_drop]; omega
        | string =>
          simp only [reduceCtorEq, if_false]
          simp only [Except.ok.injEq, Prod.mk.injEq] at h
          obtain ⟨rfl, rfl⟩ := h
          rw [sBytes_idem hr k3 k5 k4]
          obtain ⟨y1, y2, y3⟩ := sBytes_ok hc hk ha1 hav hh (by simp) hcanon
          cases hrb : sBytes s with
          | mk res2 s2 =>
            rw [hrb] at y1 y2 y3
            simp only at y1 y2 y3
            subst y1
            simp only
            refine ⟨ts + cs, ?_, by first | rfl | trivial, y2, y3⟩
            rw [hdl]; simp only [List.length_take, List.length_drop]; omega

theorem stream_refines : ∀ f, RefAt f := by
  intro f
  induction f with
  | zero => exact ref_zero
  | succ f ih => exact ⟨ref_succ_A ih, ref_succ_B ih⟩

end Rangers.RLP
