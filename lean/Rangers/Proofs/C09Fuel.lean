import Rangers.Model.Wire
/-! Fuel sufficiency for the two fuelled loops of `Model/Wire.lean`: the fuel the callers supply
(`length + 1`) is never exhausted, so the `fuel = 0 ⇒ none` branches are unreachable. Core Lean only. -/
namespace Rangers.Wire
open Rangers

theorem readVarint_shrinks : ∀ (f : Nat) (bs : Bytes) (v : Nat) (r : Bytes),
    readVarint f bs = some (v, r) → r.length < bs.length := by
  intro f
  induction f with
  | zero => intro bs v r h; simp [readVarint] at h
  | succ f ih =>
    intro bs v r h
    cases bs with
    | nil => simp [readVarint] at h
    | cons b rest =>
      simp only [readVarint] at h
      split at h
      · split at h
        · cases h
        · simp only [Option.some.injEq, Prod.mk.injEq] at h
          obtain ⟨_, rfl⟩ := h
          simp
      · split at h
        · cases h
        · cases hr : readVarint f rest with
          | none => simp [hr] at h
          | some p =>
            obtain ⟨v', r'⟩ := p
            simp only [hr, Option.some.injEq, Prod.mk.injEq] at h
            obtain ⟨_, rfl⟩ := h
            have := ih rest v' r' hr
            simp only [List.length_cons]
            omega

theorem getVarint_shrinks (bs : Bytes) (v : Nat) (r : Bytes) (h : getVarint bs = some (v, r)) :
    r.length < bs.length := readVarint_shrinks 10 bs v r h

theorem findEnd_shrinks : ∀ (f d : Nat) (bs r : Bytes), findEnd f d bs = some r → r.length < bs.length := by
  intro f
  induction f with
  | zero => intro d bs r h; simp [findEnd] at h
  | succ f ih =>
    intro d bs r h
    simp only [findEnd] at h
    cases hg : getVarint bs with
    | none => simp [hg] at h
    | some p =>
      obtain ⟨x, r1⟩ := p
      have l1 := getVarint_shrinks bs x r1 hg
      simp only [hg] at h
      split at h
      · cases hg2 : getVarint r1 with
        | none => simp [hg2] at h
        | some q =>
          obtain ⟨y, r2⟩ := q
          have l2 := getVarint_shrinks r1 y r2 hg2
          simp only [hg2] at h
          have := ih d r2 r h
          omega
      · split at h
        · cases h
        · have := ih d _ r h
          simp only [List.length_drop] at this
          omega
      · cases hg2 : getVarint r1 with
        | none => simp [hg2] at h
        | some q =>
          obtain ⟨m, r2⟩ := q
          have l2 := getVarint_shrinks r1 m r2 hg2
          simp only [hg2] at h
          split at h
          · cases h
          · have := ih d _ r h
            simp only [List.length_drop] at this
            omega
      · have := ih (d + 1) r1 r h
        omega
      · split at h
        · simp only [Option.some.injEq] at h
          subst h
          exact l1
        · have := ih (d - 1) r1 r h
          omega
      · split at h
        · cases h
        · have := ih d _ r h
          simp only [List.length_drop] at this
          omega
      · cases h

/-- `findEnd` does not depend on its fuel once the fuel exceeds the input length. -/
theorem findEnd_fuel : ∀ (f1 f2 d : Nat) (bs : Bytes), bs.length < f1 → bs.length < f2 →
    findEnd f1 d bs = findEnd f2 d bs := by
  intro f1
  induction f1 with
  | zero => intro f2 d bs h; omega
  | succ f1 ih =>
    intro f2 d bs h1 h2
    cases f2 with
    | zero => omega
    | succ f2 =>
      simp only [findEnd]
      cases hg : getVarint bs with
      | none => rfl
      | some p =>
        obtain ⟨x, r1⟩ := p
        have l1 := getVarint_shrinks bs x r1 hg
        simp only []
        split
        · cases hg2 : getVarint r1 with
          | none => rfl
          | some q =>
            obtain ⟨y, r2⟩ := q
            have l2 := getVarint_shrinks r1 y r2 hg2
            exact ih f2 d r2 (by omega) (by omega)
        · split
          · rfl
          · exact ih f2 d _ (by simp only [List.length_drop]; omega) (by simp only [List.length_drop]; omega)
        · cases hg2 : getVarint r1 with
          | none => rfl
          | some q =>
            obtain ⟨m, r2⟩ := q
            have l2 := getVarint_shrinks r1 m r2 hg2
            simp only []
            split
            · rfl
            · exact ih f2 d _ (by simp only [List.length_drop]; omega) (by simp only [List.length_drop]; omega)
        · exact ih f2 (d + 1) r1 (by omega) (by omega)
        · split
          · rfl
          · exact ih f2 (d - 1) r1 (by omega) (by omega)
        · split
          · rfl
          · exact ih f2 d _ (by simp only [List.length_drop]; omega) (by simp only [List.length_drop]; omega)
        · rfl

theorem rawStep_shrinks (bs : Bytes) (r : Raw) (rest : Bytes) (h : rawStep bs = some (r, rest)) :
    rest.length < bs.length := by
  simp only [rawStep] at h
  cases hg : getVarint bs with
  | none => simp [hg] at h
  | some p =>
    obtain ⟨x, r1⟩ := p
    have l1 := getVarint_shrinks bs x r1 hg
    simp only [hg] at h
    split at h
    · cases h
    · split at h
      · cases hg2 : getVarint r1 with
        | none => simp [hg2] at h
        | some q =>
          obtain ⟨y, r2⟩ := q
          have l2 := getVarint_shrinks r1 y r2 hg2
          simp only [hg2, Option.some.injEq, Prod.mk.injEq] at h
          obtain ⟨_, rfl⟩ := h
          omega
      · split at h
        · cases h
        · simp only [Option.some.injEq, Prod.mk.injEq] at h
          obtain ⟨_, rfl⟩ := h
          simp only [List.length_drop]; omega
      · cases hg2 : getVarint r1 with
        | none => simp [hg2] at h
        | some q =>
          obtain ⟨m, r2⟩ := q
          have l2 := getVarint_shrinks r1 m r2 hg2
          simp only [hg2] at h
          split at h
          · cases h
          · simp only [Option.some.injEq, Prod.mk.injEq] at h
            obtain ⟨_, rfl⟩ := h
            simp only [List.length_drop]; omega
      · cases hf : findEnd (r1.length + 1) 1 r1 with
        | none => simp [hf] at h
        | some r2 =>
          have l2 := findEnd_shrinks _ _ _ _ hf
          simp only [hf, Option.some.injEq, Prod.mk.injEq] at h
          obtain ⟨_, rfl⟩ := h
          omega
      · split at h
        · cases h
        · simp only [Option.some.injEq, Prod.mk.injEq] at h
          obtain ⟨_, rfl⟩ := h
          simp only [List.length_drop]; omega
      · cases h

/-- `rawFields` does not depend on its fuel once the fuel exceeds the input length. -/
theorem rawFields_fuel : ∀ (f1 f2 : Nat) (bs : Bytes), bs.length < f1 → bs.length < f2 →
    rawFields f1 bs = rawFields f2 bs := by
  intro f1
  induction f1 with
  | zero => intro f2 bs h; omega
  | succ f1 ih =>
    intro f2 bs h1 h2
    cases f2 with
    | zero => omega
    | succ f2 =>
      cases bs with
      | nil => rfl
      | cons b bs =>
        simp only [rawFields]
        cases hs : rawStep (b :: bs) with
        | none => rfl
        | some p =>
          obtain ⟨r, rest⟩ := p
          have l := rawStep_shrinks _ _ _ hs
          simp only [List.length_cons] at l h1 h2
          simp only []
          rw [ih f2 rest (by omega) (by omega)]

/-- The fuel `parseRaw` supplies is sufficient: more fuel never changes the answer, so a `none`
    from `parseRaw` is a genuine decoding error, never fuel exhaustion. -/
theorem parseRaw_fuel_sufficient (bs : Bytes) (f : Nat) (h : bs.length < f) : rawFields f bs = parseRaw bs :=
  rawFields_fuel f (bs.length + 1) bs h (by omega)

end Rangers.Wire
