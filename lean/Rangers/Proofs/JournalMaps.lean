import Rangers.Model.Journal
/-! Association-list lemmas used by the C04 proofs (core only). -/
namespace Rangers.Proofs.Journal
open Rangers Rangers.Model.Journal

variable {α : Type}

@[simp] theorem mget_nil (k : Bytes) : mget ([] : List (Bytes × α)) k = none := rfl

theorem mget_mset (m : List (Bytes × α)) (k k' : Bytes) (v : α) :
    mget (mset m k v) k' = if k = k' then some v else mget m k' := by
  induction m with
  | nil => simp [mset, mget]
  | cons p t ih =>
    obtain ⟨pk, pv⟩ := p
    simp only [mset]
    by_cases h : pk = k
    · subst h; simp only [if_true, mget]; split <;> rfl
    · simp only [h, if_false, mget, ih]
      by_cases h2 : pk = k'
      · subst h2; simp [Ne.symm h]
      · simp [h2]

@[simp] theorem mget_mset_self (m : List (Bytes × α)) (k : Bytes) (v : α) :
    mget (mset m k v) k = some v := by simp [mget_mset]

theorem mget_mset_ne (m : List (Bytes × α)) {k k' : Bytes} (v : α) (h : k ≠ k') :
    mget (mset m k v) k' = mget m k' := by simp [mget_mset, h]

theorem mget_mdel (m : List (Bytes × α)) (k k' : Bytes) :
    mget (mdel m k) k' = if k = k' then none else mget m k' := by
  induction m with
  | nil => simp [mdel, mget]
  | cons p t ih =>
    obtain ⟨pk, pv⟩ := p
    unfold mdel at ih ⊢
    simp only [List.filter]
    by_cases h : pk = k
    · subst h; simp only [ne_eq, not_true_eq_false, decide_false, ih, mget]
      split <;> simp_all
    · simp only [ne_eq, h, not_false_eq_true, decide_true, mget, ih]
      by_cases h2 : pk = k'
      · subst h2; simp [Ne.symm h]
      · simp [h2]

@[simp] theorem mget_mdel_self (m : List (Bytes × α)) (k : Bytes) : mget (mdel m k) k = none := by
  simp [mget_mdel]

theorem mget_mdel_ne (m : List (Bytes × α)) {k k' : Bytes} (h : k ≠ k') :
    mget (mdel m k) k' = mget m k' := by simp [mget_mdel, h]

end Rangers.Proofs.Journal
