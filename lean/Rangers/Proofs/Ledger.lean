import Rangers.Model.Ledger
/-! Helper lemmas about the ledger model (C06). Core Lean only. -/
namespace Rangers.Ledger

theorem get_put (b : Bal) (a a' : Addr) (v : Nat) :
    get (put b a v) a' = if a' = a then v else get b a' := by
  induction b with
  | nil =>
    simp only [put, get]
    by_cases h : a = a'
    · subst h; simp
    · have h' : ¬ a' = a := fun e => h e.symm
      simp [h, h']
  | cons p r ih =>
    obtain ⟨k, x⟩ := p
    simp only [put]
    by_cases hk : k = a
    · subst hk
      simp only [if_true, get]
      by_cases h : k = a'
      · subst h; simp
      · have h' : ¬ a' = k := fun e => h e.symm
        simp [h, h']
    · simp only [hk, if_false, get]
      by_cases h : k = a'
      · subst h
        simp [hk]
      · simp only [h, if_false]
        exact ih

theorem get_put_same (b : Bal) (a : Addr) (v : Nat) : get (put b a v) a = v := by
  rw [get_put]; simp

theorem get_put_other (b : Bal) (a a' : Addr) (v : Nat) (h : a' ≠ a) : get (put b a v) a' = get b a' := by
  rw [get_put]; simp [h]

/-- The sum of all slots changes exactly by the difference at the written slot. -/
theorem total_put (b : Bal) (a : Addr) (v : Nat) : total (put b a v) + get b a = total b + v := by
  induction b with
  | nil => simp [put, total, get]
  | cons p r ih =>
    obtain ⟨k, x⟩ := p
    simp only [put]
    by_cases hk : k = a
    · subst hk
      simp only [if_true, total, get]
      omega
    · simp only [hk, if_false, total, get]
      omega

theorem get_le_total (b : Bal) (a : Addr) : get b a ≤ total b := by
  induction b with
  | nil => simp [get, total]
  | cons p r ih =>
    obtain ⟨k, x⟩ := p
    simp only [get, total]
    by_cases hk : k = a
    · simp [hk]
    · simp only [hk, if_false]; omega

/-! ### addBal / subBal -/

theorem get_addBal (b : Bal) (a a' : Addr) (v : Int) :
    get (addBal b a v) a' = if a' = a then (((get b a : Nat) : Int) + v).natAbs else get b a' := by
  unfold addBal; rw [get_put]

/-- A non-negative credit adds exactly its amount to the sum. -/
theorem total_addBal (b : Bal) (a : Addr) (n : Nat) : total (addBal b a (n : Int)) = total b + n := by
  unfold addBal
  have h := total_put b a (((get b a : Nat) : Int) + (n : Int)).natAbs
  have e : (((get b a : Nat) : Int) + (n : Int)).natAbs = get b a + n := by omega
  rw [e] at h ⊢
  omega

theorem get_addBal_same (b : Bal) (a : Addr) (n : Nat) : get (addBal b a (n : Int)) a = get b a + n := by
  rw [get_addBal]; simp; omega

theorem get_addBal_other (b : Bal) (a a' : Addr) (v : Int) (h : a' ≠ a) : get (addBal b a v) a' = get b a' := by
  rw [get_addBal]; simp [h]

/-- `SubFT` never wraps: either it refuses and nothing changes, or the slot had at least the amount. -/
theorem subBal_refuses (b : Bal) (a : Addr) (n : Nat) :
    ((subBal b a (n : Int)).2 = false ∧ (subBal b a (n : Int)).1 = b ∧ get b a < n) ∨
    ((subBal b a (n : Int)).2 = true ∧ n ≤ get b a ∧
      total (subBal b a (n : Int)).1 + n = total b ∧
      get (subBal b a (n : Int)).1 a + n = get b a) := by
  unfold subBal
  by_cases h : ((get b a : Nat) : Int) < (n : Int)
  · left; simp only [h, if_true]; refine ⟨trivial, trivial, ?_⟩; omega
  · right
    simp only [h, if_false]
    have hn : n ≤ get b a := by omega
    have e : (((get b a : Nat) : Int) - (n : Int)).natAbs = get b a - n := by omega
    rw [e]
    have t := total_put b a (get b a - n)
    refine ⟨trivial, hn, ?_, ?_⟩
    · omega
    · rw [get_put_same]; omega

theorem subBal_ok_of_le (b : Bal) (a : Addr) (n : Nat) (h : n ≤ get b a) :
    (subBal b a (n : Int)).2 = true ∧ total (subBal b a (n : Int)).1 + n = total b ∧
    get (subBal b a (n : Int)).1 a + n = get b a := by
  rcases subBal_refuses b a n with ⟨_, _, hlt⟩ | ⟨h1, _, h3, h4⟩
  · omega
  · exact ⟨h1, h3, h4⟩

theorem get_subBal_other (b : Bal) (a a' : Addr) (v : Int) (h : a' ≠ a) : get (subBal b a v).1 a' = get b a' := by
  unfold subBal
  by_cases c : ((get b a : Nat) : Int) < v
  · simp [c]
  · simp only [c, if_false]; rw [get_put_other _ _ _ _ h]

theorem total_subBal_le (b : Bal) (a : Addr) (n : Nat) : total (subBal b a (n : Int)).1 ≤ total b := by
  rcases subBal_refuses b a n with ⟨_, h, _⟩ | ⟨_, _, h, _⟩
  · rw [h]; exact Nat.le_refl _
  · omega

/-! ### canTransfer / vmTransfer -/

theorem canTransfer_nat (b : Bal) (a : Addr) (n : Nat) : canTransfer b a (n : Int) = true ↔ n ≤ get b a := by
  unfold canTransfer
  have : ¬ ((n : Int) < 0) := by omega
  simp only [this, if_false, decide_eq_true_eq]
  omega

theorem canTransfer_neg (b : Bal) (a : Addr) (v : Int) (h : v < 0) : canTransfer b a v = false := by
  unfold canTransfer; simp [h]

/-- A guarded `vm.Transfer` moves value: the sum is unchanged. -/
theorem total_vmTransfer (b : Bal) (src dst : Addr) (n : Nat) (h : n ≤ get b src) :
    total (vmTransfer b src dst (n : Int)) = total b := by
  unfold vmTransfer
  rw [total_addBal]
  have := (subBal_ok_of_le b src n h).2.1
  omega

theorem vmTransfer_zero (b : Bal) (src dst : Addr) : total (vmTransfer b src dst 0) = total b :=
  total_vmTransfer b src dst 0 (Nat.zero_le _)

/-! ### registry / escrow bookkeeping -/

theorem toWei_add (a b : Nat) : toWei (a + b) = toWei a + toWei b := by
  unfold toWei
  induction b with
  | zero => simp [scale]
  | succ k ih => rw [← Nat.add_assoc, scale, scale, ih]; omega

theorem toWei_sub_add (a b : Nat) (h : b ≤ a) : toWei (a - b) + toWei b = toWei a := by
  have := toWei_add (a - b) b
  rw [Nat.sub_add_cancel h] at this
  exact this.symm

theorem toWei_div_le (v : Nat) : toWei (v / wei) ≤ v := by
  rw [toWei_eq]; exact Nat.div_mul_le_self v wei

theorem regGet_id : ∀ (r : Reg) (id : Nat) (m : MinerRec), regGet r id = some m → m.id = id := by
  intro r
  induction r with
  | nil => intro id m h; simp [regGet] at h
  | cons x r ih =>
    intro id m h
    simp only [regGet] at h
    by_cases c : x.id = id
    · simp only [c, if_true, Option.some.injEq] at h; subst h; exact c
    · simp only [c, if_false] at h; exact ih id m h

theorem stakeSum_regSet : ∀ (r : Reg) (m x : MinerRec), regGet r x.id = some m →
    stakeSum (regSet r x) + toWei m.stake = stakeSum r + toWei x.stake := by
  intro r
  induction r with
  | nil => intro m x h; simp [regGet] at h
  | cons y r ih =>
    intro m x h
    simp only [regGet] at h
    simp only [regSet]
    by_cases c : y.id = x.id
    · simp only [c, if_true, Option.some.injEq] at h
      subst h
      simp only [c, if_true, stakeSum]; omega
    · simp only [c, if_false] at h
      simp only [c, if_false, stakeSum]
      have := ih m x h
      omega

theorem stakeSum_regSet_new : ∀ (r : Reg) (x : MinerRec), regGet r x.id = none →
    stakeSum (regSet r x) = stakeSum r + toWei x.stake := by
  intro r
  induction r with
  | nil => intro x _; simp [regSet, stakeSum]
  | cons y r ih =>
    intro x h
    simp only [regGet] at h
    simp only [regSet]
    by_cases c : y.id = x.id
    · simp [c] at h
    · simp only [c, if_false] at h
      simp only [c, if_false, stakeSum]
      have := ih x h
      omega

theorem stakeSum_regDel : ∀ (r : Reg) (id : Nat) (m : MinerRec), regGet r id = some m →
    stakeSum (regDel r id) + toWei m.stake = stakeSum r := by
  intro r
  induction r with
  | nil => intro id m h; simp [regGet] at h
  | cons y r ih =>
    intro id m h
    simp only [regGet] at h
    simp only [regDel]
    by_cases c : y.id = id
    · simp only [c, if_true, Option.some.injEq] at h
      subst h
      simp only [c, if_true, stakeSum]; omega
    · simp only [c, if_false] at h
      simp only [c, if_false, stakeSum]
      have := ih id m h
      omega

/-- `GetRefundStake` removes from the registry exactly the tokens it reports as refunded. -/
theorem getRefundStake_sum (r r' : Reg) (hc : Addr → Bool) (id : Nat) (acct a : Addr) (money refund : Nat)
    (h : getRefundStake r hc id acct money = some (r', refund, a)) :
    stakeSum r' + toWei refund = stakeSum r := by
  unfold getRefundStake at h
  cases hg : regGet r id with
  | none => simp [hg] at h
  | some m =>
    simp only [hg] at h
    by_cases c1 : m.account ≠ acct
    · simp [c1] at h
    · simp only [c1, if_false] at h
      have hid := regGet_id r id m hg
      generalize hm : (if money = uint64Max then m.stake else money) = mny at h
      by_cases c2 : m.stake < mny
      · simp [c2] at h
      · simp only [c2, if_false, Option.some.injEq, Prod.mk.injEq] at h
        obtain ⟨h1, h2, _⟩ := h
        subst h2
        have hle : mny ≤ m.stake := by omega
        have hw := toWei_sub_add m.stake mny hle
        by_cases hz : (decide (m.stake - mny < minStake m.typ) && decide (m.stake - mny = 0) && !hc acct) = true
        · rw [if_pos hz] at h1
          subst h1
          have := stakeSum_regDel r id m hg
          have hz0 : m.stake - mny = 0 := by
            simp only [Bool.and_eq_true, decide_eq_true_eq] at hz
            exact hz.1.2
          rw [hz0] at hw
          have : toWei 0 = 0 := rfl
          omega
        · rw [if_neg hz] at h1
          subst h1
          have := stakeSum_regSet r m { m with stake := m.stake - mny } (by simpa [hid] using hg)
          simp only at this
          omega

theorem escrowTotal_append : ∀ (e f : Escrow), escrowTotal (e ++ f) = escrowTotal e + escrowTotal f := by
  intro e f
  induction e with
  | nil => simp [escrowTotal]
  | cons p r ih =>
    obtain ⟨k, a, v⟩ := p
    simp only [List.cons_append, escrowTotal, ih]; omega

theorem escrowTotal_single (h : Nat) (a : Addr) (v : Nat) : escrowTotal [(h, a, v)] = v := by
  simp [escrowTotal]

end Rangers.Ledger
