import Rangers.Model.RLP
/-! Integer lemmas for the RLP model: `beNat` / `toBE` are inverse on minimal byte strings. -/
namespace Rangers.RLP
open Rangers

theorem foldl_be (b : Bytes) (acc : Nat) :
    b.foldl (fun a x => a * 256 + x.toNat) acc
      = acc * 256 ^ b.length + b.foldl (fun a x => a * 256 + x.toNat) 0 := by
  induction b generalizing acc with
  | nil => simp
  | cons x xs ih =>
    simp only [List.foldl_cons, List.length_cons]
    rw [ih (acc * 256 + x.toNat), ih (0 * 256 + x.toNat)]
    simp only [Nat.zero_mul, Nat.zero_add, Nat.pow_succ]
    grind

theorem beNat_nil : beNat [] = 0 := rfl

theorem beNat_cons (x : UInt8) (xs : Bytes) : beNat (x :: xs) = x.toNat * 256 ^ xs.length + beNat xs := by
  unfold beNat
  simp only [List.foldl_cons]
  rw [foldl_be]
  simp

theorem beNat_append (a b : Bytes) : beNat (a ++ b) = beNat a * 256 ^ b.length + beNat b := by
  unfold beNat
  rw [List.foldl_append, foldl_be]

theorem beNat_snoc (a : Bytes) (x : UInt8) : beNat (a ++ [x]) = beNat a * 256 + x.toNat := by
  rw [beNat_append]; simp [beNat]

theorem rev_induction {P : Bytes → Prop} (hnil : P [])
    (append_singleton : ∀ (a : Bytes) (x : UInt8), P a → P (a ++ [x])) : ∀ b, P b := by
  have h : ∀ r : Bytes, P r.reverse := by
    intro r
    induction r with
    | nil => simpa using hnil
    | cons x xs ih => rw [List.reverse_cons]; exact append_singleton _ _ ih
  intro b
  have := h b.reverse
  simpa using this

theorem beNat_lt (b : Bytes) : beNat b < 256 ^ b.length := by
  induction b using rev_induction with
  | hnil => simp [beNat]
  | append_singleton a x ih =>
    rw [beNat_snoc, List.length_append, List.length_singleton, Nat.pow_succ]
    have := x.toNat_lt
    omega

theorem toBEf_irrel : ∀ (f f' n : Nat), n ≤ f → n ≤ f' → toBEf f n = toBEf f' n := by
  intro f
  induction f with
  | zero =>
    intro f' n h _
    have : n = 0 := by omega
    subst this
    cases f' <;> simp [toBEf]
  | succ f ih =>
    intro f' n h h'
    cases f' with
    | zero =>
      have : n = 0 := by omega
      subst this; simp [toBEf]
    | succ f' =>
      by_cases hn : n = 0
      · subst hn; simp [toBEf]
      · simp only [toBEf, hn, if_false]
        have h1 : n / 256 ≤ f := by omega
        have h2 : n / 256 ≤ f' := by omega
        rw [ih f' (n / 256) h1 h2]

theorem toBE_zero : toBE 0 = [] := rfl

theorem toBE_pos {n : Nat} (hn : n ≠ 0) : toBE n = toBE (n / 256) ++ [UInt8.ofNat (n % 256)] := by
  unfold toBE
  cases n with
  | zero => exact absurd rfl hn
  | succ m =>
    simp only [toBEf, hn, if_false]
    rw [toBEf_irrel m ((m + 1) / 256) ((m + 1) / 256) (by omega) (Nat.le_refl _)]

theorem ofNat_mod_toNat (n : Nat) : (UInt8.ofNat (n % 256)).toNat = n % 256 := by
  simp [UInt8.toNat_ofNat']

theorem beNat_toBE (n : Nat) : beNat (toBE n) = n := by
  induction n using Nat.strongRecOn with
  | _ n ih =>
    by_cases hn : n = 0
    · subst hn; rfl
    · rw [toBE_pos hn, beNat_snoc, ih (n / 256) (by omega), ofNat_mod_toNat]
      omega

theorem toBE_length_le (k : Nat) : ∀ n, n < 256 ^ k → (toBE n).length ≤ k := by
  induction k with
  | zero => intro n h; have : n = 0 := by simpa using h
            subst this; simp [toBE_zero]
  | succ k ih =>
    intro n h
    by_cases hn : n = 0
    · subst hn; simp [toBE_zero]
    · rw [toBE_pos hn]
      simp only [List.length_append, List.length_singleton]
      have : n / 256 < 256 ^ k := by
        rw [Nat.pow_succ] at h
        exact Nat.div_lt_of_lt_mul (by omega)
      have := ih _ this
      omega

theorem toBE_length_pos {n : Nat} (hn : n ≠ 0) : 0 < (toBE n).length := by
  rw [toBE_pos hn]; simp

theorem toBE_head_ne_zero (n : Nat) : ∀ b0 rest, toBE n = b0 :: rest → b0.toNat ≠ 0 := by
  induction n using Nat.strongRecOn with
  | _ n ih =>
    intro b0 rest h
    by_cases hn : n = 0
    · subst hn; simp [toBE_zero] at h
    · rw [toBE_pos hn] at h
      by_cases hq : n / 256 = 0
      · rw [hq, toBE_zero] at h
        simp only [List.nil_append, List.cons.injEq] at h
        rw [← h.1, ofNat_mod_toNat]
        omega
      · have hne : toBE (n / 256) ≠ [] := by
          intro he
          have := toBE_length_pos hq
          rw [he] at this; simp at this
        cases hq' : toBE (n / 256) with
        | nil => exact absurd hq' hne
        | cons c cs =>
          rw [hq'] at h
          simp only [List.cons_append, List.cons.injEq] at h
          rw [← h.1]
          exact ih (n / 256) (by omega) c cs hq'

/-- head byte non-zero (or empty) : the byte string is a minimal big-endian number -/
def Minimal : Bytes → Prop
  | [] => True
  | b0 :: _ => b0.toNat ≠ 0

theorem beNat_pos_of_minimal : ∀ (b : Bytes), b ≠ [] → Minimal b → beNat b ≠ 0 := by
  intro b hb hm
  cases b with
  | nil => exact absurd rfl hb
  | cons x xs =>
    rw [beNat_cons]
    simp only [Minimal] at hm
    have : 0 < 256 ^ xs.length := Nat.pow_pos (by omega)
    have : 0 < x.toNat * 256 ^ xs.length := Nat.mul_pos (by omega) this
    omega

theorem minimal_init {a : Bytes} {x : UInt8} (h : Minimal (a ++ [x])) (ha : a ≠ []) : Minimal a := by
  cases a with
  | nil => exact absurd rfl ha
  | cons c cs => simpa [Minimal] using h

theorem toBE_beNat (b : Bytes) : Minimal b → toBE (beNat b) = b := by
  induction b using rev_induction with
  | hnil => intro _; rfl
  | append_singleton a x ih =>
    intro hm
    have hne : beNat (a ++ [x]) ≠ 0 := beNat_pos_of_minimal _ (by simp) hm
    rw [toBE_pos hne, beNat_snoc]
    have hx := x.toNat_lt
    have h1 : (beNat a * 256 + x.toNat) / 256 = beNat a := by omega
    have h2 : (beNat a * 256 + x.toNat) % 256 = x.toNat := by omega
    rw [h1, h2]
    by_cases ha : a = []
    · subst ha; simp [beNat_nil, toBE_zero]
    · rw [ih (minimal_init hm ha)]
      simp

theorem toBE_minimal (n : Nat) : Minimal (toBE n) := by
  cases h : toBE n with
  | nil => trivial
  | cons b0 rest => exact toBE_head_ne_zero n b0 rest h

end Rangers.RLP
