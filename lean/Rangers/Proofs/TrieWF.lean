import Rangers.Proofs.TrieKeys
/- Usable forms of the minimal-form invariant `WF`. -/
namespace Rangers.Trie
open Rangers

/-- what may sit in slot `i` of a full node -/
def SlotOK (i : Nat) (c : Node) : Prop :=
  c = .nil ∨ (if i = 16 then ∃ b, c = .value b ∧ b ≠ [] else WF c)

theorem WF_short_iff (k : Key) (v : Node) :
    WF (.short k v) ↔ (∃ b, v = .value b ∧ ValidKey k ∧ b ≠ []) ∨
                       (∃ cs, v = .full cs ∧ k ≠ [] ∧ Nibs k ∧ WF (.full cs)) := by
  cases v <;> simp [WF]

theorem WFslots_iff (cs : List Node) (s : Nat) :
    WFslots cs s ↔ ∀ j, j < cs.length → SlotOK (s + j) (cs[j]?.getD .nil) := by
  induction cs generalizing s with
  | nil => simp [WFslots]
  | cons c cs ih =>
    simp only [WFslots, ih, List.length_cons]
    constructor
    · rintro ⟨h0, h1⟩ j hj
      cases j with
      | zero => simpa [SlotOK] using h0
      | succ j =>
        have := h1 j (by omega)
        simpa [Nat.add_assoc, Nat.add_comm 1 j] using this
    · intro h
      refine ⟨by simpa [SlotOK] using h 0 (by omega), fun j hj => ?_⟩
      have := h (j + 1) (by omega)
      simpa [Nat.add_assoc, Nat.add_comm 1 j] using this

theorem WF_full_iff (cs : List Node) :
    WF (.full cs) ↔ cs.length = 17 ∧ (∀ j, j < 17 → SlotOK j (cs[j]?.getD .nil)) ∧ 2 ≤ countNN cs := by
  simp only [WF, WFslots_iff, Nat.zero_add]
  constructor
  · rintro ⟨h1, h2, h3⟩; exact ⟨h1, fun j hj => h2 j (h1 ▸ hj), h3⟩
  · rintro ⟨h1, h2, h3⟩; exact ⟨h1, fun j hj => h2 j (h1 ▸ hj), h3⟩

theorem not_WF_nil : ¬ WF .nil := by simp [WF]
theorem not_WF_value (b : Bytes) : ¬ WF (.value b) := by simp [WF]

theorem WF.ne_nil {t : Node} (h : WF t) : t ≠ .nil := by
  intro h0; subst h0; exact not_WF_nil h

theorem isNil_iff (c : Node) : isNil c = true ↔ c = .nil := by cases c <;> simp [isNil]
theorem isNil_false_iff (c : Node) : isNil c = false ↔ c ≠ .nil := by cases c <;> simp [isNil]

/-! ### counting occupied slots -/

theorem countNN_set (cs : List Node) (i : Nat) (c : Node) (h : i < cs.length) :
    countNN (cs.set i c) + (if isNil (cs[i]?.getD .nil) then 0 else 1) = countNN cs + (if isNil c then 0 else 1) := by
  induction cs generalizing i with
  | nil => simp at h
  | cons x cs ih =>
    cases i with
    | zero => simp [countNN]; omega
    | succ i =>
      have := ih i (by simpa using h)
      simp only [List.set_cons_succ, countNN, List.getElem?_cons_succ]
      omega

theorem countNN_replicate (n : Nat) : countNN (List.replicate n .nil) = 0 := by
  induction n with
  | zero => simp [countNN]
  | succ n ih => simp [List.replicate_succ, countNN, isNil, ih]

@[simp] theorem getD_replicate_nil (n i : Nat) : (List.replicate n Node.nil)[i]?.getD .nil = .nil := by
  simp only [List.getElem?_replicate]
  split <;> rfl

theorem getD_set (cs : List Node) (i j : Nat) (c : Node) (h : i < cs.length) :
    (cs.set i c)[j]?.getD .nil = if j = i then c else cs[j]?.getD .nil := by
  simp only [List.getElem?_set]
  by_cases hij : i = j
  · subst hij; simp [h]
  · have : ¬ j = i := fun h => hij h.symm
    simp [hij, this]

theorem set_getD_self (cs : List Node) (i : Nat) : cs.set i (cs[i]?.getD .nil) = cs := by
  induction cs generalizing i with
  | nil => simp
  | cons x cs ih =>
    cases i with
    | zero => simp
    | succ i => simp only [List.set_cons_succ, List.getElem?_cons_succ, ih i]

/-- a list with at least one / two occupied slots exhibits them -/
theorem exists_of_countNN_pos (cs : List Node) (h : 1 ≤ countNN cs) :
    ∃ i, i < cs.length ∧ cs[i]?.getD .nil ≠ .nil := by
  induction cs with
  | nil => simp [countNN] at h
  | cons x cs ih =>
    by_cases hx : isNil x = true
    · simp only [countNN, hx, if_true, Nat.zero_add] at h
      obtain ⟨i, hi, hne⟩ := ih h
      exact ⟨i + 1, by simpa using hi, by simpa using hne⟩
    · refine ⟨0, by simp, ?_⟩
      simp only [List.getElem?_cons_zero, Option.getD_some]
      intro h0; subst h0; simp [isNil] at hx

theorem exists_two_of_countNN (cs : List Node) (h : 2 ≤ countNN cs) :
    ∃ i j, i < j ∧ j < cs.length ∧ cs[i]?.getD .nil ≠ .nil ∧ cs[j]?.getD .nil ≠ .nil := by
  induction cs with
  | nil => simp [countNN] at h
  | cons x cs ih =>
    by_cases hx : isNil x = true
    · simp only [countNN, hx, if_true, Nat.zero_add] at h
      obtain ⟨i, j, hij, hj, h1, h2⟩ := ih h
      exact ⟨i + 1, j + 1, by omega, by simpa using hj, by simpa using h1, by simpa using h2⟩
    · have hx' : isNil x = false := by simpa using hx
      simp only [countNN, hx'] at h
      obtain ⟨j, hj, h2⟩ := exists_of_countNN_pos cs (by simp at h; omega)
      refine ⟨0, j + 1, by omega, by simpa using hj, ?_, by simpa using h2⟩
      simp only [List.getElem?_cons_zero, Option.getD_some]
      intro h0; subst h0; simp [isNil] at hx

theorem countNN_pos_of (cs : List Node) (j : Nat) (hj : j < cs.length) (h2 : cs[j]?.getD .nil ≠ .nil) :
    1 ≤ countNN cs := by
  induction cs generalizing j with
  | nil => simp at hj
  | cons y cs ih =>
    cases j with
    | zero =>
      have : isNil y = false := by simpa [isNil_false_iff] using h2
      simp [countNN, this]
    | succ j =>
      have := ih j (by simpa using hj) (by simpa using h2)
      simp only [countNN]; omega

theorem countNN_ge_two_of (cs : List Node) (i j : Nat) (hij : i ≠ j) (hi : i < cs.length) (hj : j < cs.length)
    (h1 : cs[i]?.getD .nil ≠ .nil) (h2 : cs[j]?.getD .nil ≠ .nil) : 2 ≤ countNN cs := by
  induction cs generalizing i j with
  | nil => simp at hi
  | cons x cs ih =>
    cases i with
    | zero =>
      cases j with
      | zero => exact absurd rfl hij
      | succ j =>
        have hx : isNil x = false := by simpa [isNil_false_iff] using h1
        have := countNN_pos_of cs j (by simpa using hj) (by simpa using h2)
        simp only [countNN, hx]; simp; omega
    | succ i =>
      cases j with
      | zero =>
        have hx : isNil x = false := by simpa [isNil_false_iff] using h2
        have := countNN_pos_of cs i (by simpa using hi) (by simpa using h1)
        simp only [countNN, hx]; simp; omega
      | succ j =>
        have := ih i j (by omega) (by simpa using hi) (by simpa using hj) (by simpa using h1) (by simpa using h2)
        simp only [countNN]; omega

end Rangers.Trie
