import Rangers.Proofs.JournalRevert
/-! Per-op `RevAt` lemmas: what each mutator appends to the journal is undone exactly (up to `Sim`). -/
namespace Rangers.Proofs.Journal
open Rangers Rangers.Model.Journal

theorem RevAt.congr_at {c : Cfg} {f f' : ADB → ADB} {s : ADB} (h : f s = f' s) (h' : RevAt c f' s) : RevAt c f s := by
  obtain ⟨a, b, d, e⟩ := h'
  exact ⟨by rw [h]; exact a, by rw [h]; exact b, by rw [h]; exact d, by rw [h]; exact e⟩

theorem RevAt.id (c : Cfg) (s : ADB) : RevAt c (fun x => x) s :=
  RevAt.of_sim (fun h => h) rfl rfl rfl (fun _ => Sim.refl s)

/-- a crashed state is left alone -/
theorem RevAt.of_crashed_fix {c : Cfg} {f : ADB → ADB} {s : ADB} (hs : s.crashed = true) (h : f s = s) : RevAt c f s :=
  RevAt.congr_at (f' := fun x => x) h (RevAt.id c s)

theorem undoAll_singleton (c : Cfg) (s : ADB) (e : Entry) : undoAll c s [e] = undo c s e := rfl

theorem frame_rfl_journal (s : ADB) (j : List Entry) : Frame { s with journal := j } s :=
  ⟨rfl, rfl, rfl, rfl, rfl, rfl, fun _ _ => rfl, rfl, rfl, rfl⟩

/-! ### resolve / resolveNew -/

theorem resolve_fields (s : ADB) (a : Addr) :
    (resolve s a).1 = { s with objs := (resolve s a).1.objs } := by
  unfold resolve; repeat' split
  all_goals rfl

theorem resolve_res (s : ADB) (a b : Addr) : res (resolve s a).1 b = res s b := by
  cases h : res s a with
  | absent => rw [(resolve_absent h).1]
  | deleted => rw [resolve_deleted h]
  | live o => obtain ⟨s1, e, _, _, _, r⟩ := resolve_live h; rw [e]; exact r b

theorem resolve_sim (s : ADB) (a : Addr) : Sim (resolve s a).1 s := by
  refine ⟨by rw [resolve_fields], fun _ => by rw [resolve_fields]; exact ⟨rfl, rfl, rfl, rfl, rfl, rfl, fun _ _ => rfl, rfl, rfl, rfl⟩,
    fun _ b => ?_⟩
  rw [resolve_res]; exact ResRel.refl _ _

theorem revAt_resolve (c : Cfg) (s : ADB) (a : Addr) : RevAt c (fun x => (resolve x a).1) s :=
  RevAt.of_sim (fun h => by rw [resolve_fields]; exact h) (by rw [resolve_fields]) (by rw [resolve_fields])
    (by rw [resolve_fields]) (fun _ => resolve_sim s a)

/-- what `getOrNewAccountObject` leaves behind when it answers an object -/
theorem resolveNew_some {s : ADB} {a : Addr} {s1 : ADB} {o : Obj} (h : resolveNew s a = (s1, some o)) :
    mget s1.objs a = some o ∧ o.deleted = false ∧ res s1 a = .live o := by
  have key : mget s1.objs a = some o ∧ o.deleted = false := by
    cases hr : res s a with
    | deleted => rw [resolveNew_deleted hr] at h; cases h
    | absent =>
      rw [resolveNew_absent hr] at h
      simp only [Prod.mk.injEq, Option.some.injEq] at h
      obtain ⟨rfl, rfl⟩ := h
      exact ⟨by simp, rfl⟩
    | live o' =>
      rw [resolveNew_live hr] at h
      obtain ⟨s2, e, m, hd, _, _⟩ := resolve_live hr
      rw [e] at h
      simp only [Prod.mk.injEq, Option.some.injEq] at h
      obtain ⟨rfl, rfl⟩ := h
      exact ⟨m, hd⟩
  refine ⟨key.1, key.2, ?_⟩
  rw [res_def, key.1]; simp [key.2]

theorem resolveNew_none {s : ADB} {a : Addr} {s1 : ADB} (h : resolveNew s a = (s1, none)) : s1 = s ∧ res s a = .deleted := by
  cases hr : res s a with
  | deleted => rw [resolveNew_deleted hr] at h; simp only [Prod.mk.injEq] at h; exact ⟨h.1.symm, rfl⟩
  | absent => rw [resolveNew_absent hr] at h; simp at h
  | live o' =>
    rw [resolveNew_live hr] at h
    obtain ⟨s2, e, _⟩ := resolve_live hr
    rw [e] at h; simp at h

theorem revAt_resolveNew (c : Cfg) (s : ADB) (a : Addr) : RevAt c (fun x => (resolveNew x a).1) s := by
  cases hr : res s a with
  | deleted => exact RevAt.congr_at (f' := fun x => x) (by simp [resolveNew_deleted hr]) (RevAt.id c s)
  | live o =>
    exact RevAt.congr_at (f' := fun x => (resolve x a).1) (by simp [resolveNew_live hr]) (revAt_resolve c s a)
  | absent =>
    obtain ⟨_, hm, ht⟩ := resolve_absent hr
    refine ⟨fun h => by simp only [resolveNew_absent hr]; exact h, by simp only [resolveNew_absent hr],
      by simp only [resolveNew_absent hr], ⟨[Entry.create a], by simp only [resolveNew_absent hr], fun hc => ?_⟩⟩
    simp only [resolveNew_absent hr] at hc ⊢
    rw [undoAll_singleton]
    simp only [undo, hc, Bool.false_eq_true, if_false]
    refine ⟨hc.symm, fun _ => ⟨rfl, rfl, rfl, rfl, rfl, rfl, fun _ _ => rfl, rfl, rfl, rfl⟩, fun _ b => ?_⟩
    have : res { s with objs := mdel (mset s.objs a Obj.fresh) a, dirtySet := sdel (sadd s.dirtySet a) a,
                        journal := s.journal ++ [Entry.create a], crashed := false } b = res s b := by
      simp only [res_def, mget_mdel, mget_mset]
      by_cases hab : a = b
      · subst hab; simp [hm, ht]
      · simp [hab]
    rw [this]; exact ResRel.refl _ _

/-! ### journaled modification of the object stored at `a` -/

/-- forward step `markDirty (journal ++ [e]) a (fwd o)`, whose entry `e` undoes by storing `bwd` of the object -/
theorem revAt_modify (c : Cfg) {s : ADB} {a : Addr} {o : Obj} (e : Entry) (fwd bwd : Obj → Obj) (f : ADB → ADB)
    (hs : s.crashed = false) (hm : mget s.objs a = some o) (hd : o.deleted = false)
    (hf : f s = markDirty { s with journal := s.journal ++ [e] } a (fwd o))
    (hfd : ∀ x, (fwd x).deleted = x.deleted) (hbd : ∀ x, (bwd x).deleted = x.deleted)
    (F : ADB → Obj → ADB)
    (hundo : ∀ r : ADB, r.crashed = false →
      undo c r e = (match resolve r a with | (r1, none) => crash r1 | (r1, some o') => F r1 o'))
    (hF : ∀ (u : ADB) (o' : Obj), mget u.objs a = some o' → F u o' = markDirty u a (bwd o'))
    (hsim : ObjSim s.codes { bwd { fwd o with armed := false } with armed := false } o) :
    RevAt c f s := by
  have hres : res s a = .live o := by rw [res_def, hm]; simp [hd]
  refine ⟨fun h => (by rw [hs] at h; cases h), (by rw [hf, markDirty_frame]), (by rw [hf, markDirty_frame]),
    ⟨[e], by rw [hf, markDirty_journal], fun hc => ?_⟩⟩
  rw [undoAll_singleton, hf]
  have hc1 : (markDirty { s with journal := s.journal ++ [e] } a (fwd o)).crashed = false := by
    rw [markDirty_crashed]; exact hs
  have hr1 : res (markDirty { s with journal := s.journal ++ [e] } a (fwd o)) a = .live { fwd o with armed := false } := by
    rw [res_markDirty _ _ _ _ ((hfd o).trans hd)]; simp
  rw [hundo _ hc1]
  obtain ⟨r1, e1, m1, f1, c1, rr⟩ := modify_live hr1 bwd ((hbd _).trans ((hfd o).trans hd))
  rw [e1]
  simp only [hF r1 _ m1]
  refine ⟨c1.trans hc1 |>.trans hs.symm, fun _ => f1.trans ((markDirty_Frame _ _ _).trans (frame_rfl_journal s _)), fun _ b => ?_⟩
  rw [rr b]
  by_cases hab : a = b
  · subst hab
    simp only [if_true, hres]
    have hcodes : (markDirty r1 a (bwd { fwd o with armed := false })).codes = s.codes :=
      (f1.trans ((markDirty_Frame _ _ _).trans (frame_rfl_journal s _))).codes
    rw [hcodes]
    exact .live hsim
  · simp only [hab, if_false]
    rw [res_markDirty _ _ _ _ ((hfd o).trans hd)]
    simp only [hab, if_false]
    rw [res_congr (s := { s with journal := s.journal ++ [e] }) (t := s) rfl rfl b]
    exact ResRel.refl _ _

theorem revAt_setNonceJ (c : Cfg) {s : ADB} {a : Addr} {o : Obj} (n : Nat)
    (hs : s.crashed = false) (hm : mget s.objs a = some o) (hd : o.deleted = false) :
    RevAt c (fun x => setNonceRaw { x with journal := x.journal ++ [Entry.nonce a o.nonce] } a n) s :=
  revAt_modify c (Entry.nonce a o.nonce) (fun x => { x with nonce := n }) (fun x => { x with nonce := o.nonce }) _ hs hm hd
    (by simp [setNonceRaw, hm]) (fun _ => rfl) (fun _ => rfl)
    (fun u _ => setNonceRaw u a o.nonce)
    (fun r hr => by simp only [undo, hr, Bool.false_eq_true, if_false]; rcases resolve r a with ⟨r1, _ | _⟩ <;> rfl)
    (fun u o' hu => by simp [setNonceRaw, hu])
    ⟨rfl, rfl, rfl, fun _ => rfl, rfl⟩

theorem Obj.read_fst_get (o : Obj) (k k' : Key) : (o.read k).1.get k' = o.get k' := by
  unfold Obj.read
  cases hc : mget o.cached k with
  | some v => rfl
  | none =>
    cases hs : mget o.strie k with
    | none => rfl
    | some v =>
      simp only [Obj.get, mget_mset]
      by_cases hk : k = k'
      · subst hk; simp [hc, hs]
      · simp [hk]

theorem Obj.read_snd (o : Obj) (k : Key) : (o.read k).2 = o.get k := by
  unfold Obj.read Obj.get
  cases hc : mget o.cached k with
  | some v => rfl
  | none => cases hs : mget o.strie k <;> rfl

theorem Obj.read_fst_other (o : Obj) (k : Key) :
    (o.read k).1 = { o with cached := (o.read k).1.cached } := by
  unfold Obj.read
  cases hc : mget o.cached k with
  | some v => rfl
  | none => cases hs : mget o.strie k <;> rfl

/-- `GetData` on the object stored at `a`: only fills the read cache -/
theorem readAt_sim {s : ADB} {a : Addr} {o : Obj} (k : Key) (hm : mget s.objs a = some o) (hd : o.deleted = false) :
    (readAt s a k).1 = putObj s a (o.read k).1 ∧ (readAt s a k).2 = o.get k ∧ Sim (readAt s a k).1 s := by
  have h1 : (readAt s a k).1 = putObj s a (o.read k).1 := by simp [readAt, hm]
  refine ⟨h1, by simp [readAt, hm, Obj.read_snd], ?_⟩
  rw [h1]
  have hd' : (o.read k).1.deleted = false := by rw [Obj.read_fst_other]; exact hd
  refine ⟨rfl, fun _ => putObj_Frame _ _ _, fun _ b => ?_⟩
  rw [res_putObj s a b _ hd']
  by_cases hab : a = b
  · subst hab
    have : res s a = .live o := by rw [res_def, hm]; simp [hd]
    simp only [if_true, this]
    refine .live ⟨?_, ?_, ?_, fun k' => Obj.read_fst_get o k k', ?_⟩
    all_goals (rw [Obj.read_fst_other]; try rfl)
  · simp only [hab, if_false]; exact ResRel.refl _ _

theorem revAt_readAt (c : Cfg) {s : ADB} {a : Addr} {o : Obj} (k : Key) (hm : mget s.objs a = some o) (hd : o.deleted = false) :
    RevAt c (fun x => (readAt x a k).1) s := by
  obtain ⟨h1, _, h3⟩ := readAt_sim k hm hd
  exact RevAt.of_sim (fun h => by rw [h1]; exact h) (by rw [h1]; rfl) (by rw [h1]; rfl) (by rw [h1]; rfl) (fun _ => h3)

/-- `accountObject.SetData` on the object stored at `a` -/
theorem revAt_setDataJ (c : Cfg) {s : ADB} {a : Addr} {o : Obj} (k : Key) (v : Val)
    (hs : s.crashed = false) (hm : mget s.objs a = some o) (hd : o.deleted = false) :
    RevAt c (fun x => setDataJ x a k v) s := by
  obtain ⟨h1, h2, h3⟩ := readAt_sim k hm hd
  have hrd := revAt_readAt c k hm hd
  have hd' : (o.read k).1.deleted = false := by rw [Obj.read_fst_other]; exact hd
  have hc1 : (readAt s a k).1.crashed = false := by rw [h1]; exact hs
  by_cases hv : v = o.get k
  · refine RevAt.congr_at (f' := fun x => (readAt x a k).1) ?_ hrd
    simp only [setDataJ]
    rw [show readAt s a k = ((readAt s a k).1, (readAt s a k).2) from rfl]
    simp only [hc1, Bool.false_eq_true, if_false, h2, hv, if_true]
  · -- journaled write on top of the cache fill
    have hm1 : mget (readAt s a k).1.objs a = some (o.read k).1 := by rw [h1]; simp [putObj]
    have step2 := revAt_modify c (s := (readAt s a k).1) (a := a) (o := (o.read k).1) (Entry.storage a k (o.get k))
      (fun x => { x with cached := mset x.cached k v, dirty := mset x.dirty k v })
      (fun x => { x with cached := mset x.cached k (o.get k), dirty := mset x.dirty k (o.get k) })
      (fun x => setDataRaw { x with journal := x.journal ++ [Entry.storage a k (o.get k)] } a k v)
      hc1 hm1 hd' (by simp [setDataRaw, hm1]) (fun _ => rfl) (fun _ => rfl)
      (fun u _ => setDataRaw u a k (o.get k))
      (fun r hr => by simp only [undo, hr, Bool.false_eq_true, if_false]; rcases resolve r a with ⟨r1, _ | _⟩ <;> rfl)
      (fun u o' hu => by simp [setDataRaw, hu])
      ⟨rfl, rfl, rfl, fun k' => by
        simp only [Obj.get, mget_mset]
        by_cases hk : k = k'
        · subst hk
          simp only [if_true]
          have := (Obj.read_fst_get o k k).symm
          simpa [Obj.get] using this
        · simp [hk], rfl⟩
    refine RevAt.congr_at ?_ (RevAt.comp hrd step2)
    simp only [setDataJ]
    rw [show readAt s a k = ((readAt s a k).1, (readAt s a k).2) from rfl]
    simp only [hc1, Bool.false_eq_true, if_false, h2, hv]

end Rangers.Proofs.Journal
