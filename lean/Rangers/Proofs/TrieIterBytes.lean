import Rangers.Proofs.TrieRun
/- Byte-level view of iteration: completeness, hex-path order, and how it relates to bytewise key order. -/
namespace Rangers.Trie
open Rangers

theorem decodeNibbles_hexOfBytes (k : Bytes) : decodeNibbles (hexOfBytes k) = k := by
  induction k with
  | nil => simp [hexOfBytes, decodeNibbles]
  | cons b k ih =>
    simp only [hexOfBytes, decodeNibbles, ih]
    congr 1
    have : b.toNat / 16 * 16 + b.toNat % 16 = b.toNat := by omega
    rw [this]; simp

theorem hasTerm_append_16 (n : Key) : hasTerm (n ++ [16]) = true := by
  simp [hasTerm]

theorem hexToKeybytes_keybytesToHex (k : Bytes) : hexToKeybytes (keybytesToHex k) = k := by
  simp [hexToKeybytes, keybytesToHex, hasTerm_append_16, decodeNibbles_hexOfBytes]

theorem keyLE_nil (k : Key) : keyLE [] k = true := by cases k <;> simp [keyLE]

theorem lookup_of_mem_sorted {L : List (Key × Bytes)} (hs : SortedKeys L) {κ : Key} {v : Bytes}
    (h : (κ, v) ∈ L) : L.lookup κ = some v := by
  induction L with
  | nil => simp at h
  | cons e L ih =>
    obtain ⟨k1, v1⟩ := e
    have hs' := List.pairwise_cons.mp hs
    simp only [List.lookup_cons]
    cases h with
    | head => simp
    | tail _ h =>
      have hlt := hs'.1 _ h
      have hne : (κ == k1) = false := by
        apply beq_false_of_ne; intro h0; subst h0; exact key_lt_irrefl _ hlt
      simp only [hne]
      exact ih hs'.2 h

/-- every path the iterator returns after a history is the hex form of a byte key -/
theorem iter_keys_are_byte_keys {t : Node} {m : Bytes → Option Bytes} (h : Represents t m)
    {e : Key × Bytes} (he : e ∈ iter t) : ∃ k, e.1 = keybytesToHex k ∧ m k = some e.2 := by
  have hc : content t e.1 = some e.2 := lookup_of_mem_sorted (sortedKeys_iter t) he
  by_cases hk : ∃ k, e.1 = keybytesToHex k
  · obtain ⟨k, hk⟩ := hk
    exact ⟨k, hk, by rw [← h.agree k, ← hk]; exact hc⟩
  · have := h.only e.1 (fun k hk' => hk ⟨k, hk'⟩)
    rw [this] at hc; cases hc

theorem iterFrom_nil (t : Node) : iterFrom t [] = (iter t).map (fun e => (hexToKeybytes e.1, e.2)) := by
  unfold iterFrom
  congr 1
  apply List.filter_eq_self.mpr
  intro e _
  simp [hexOfBytes, keyLE_nil]

theorem mem_iterFrom_nil {t : Node} {m : Bytes → Option Bytes} (h : Represents t m) (k v : Bytes) :
    (k, v) ∈ iterFrom t [] ↔ m k = some v := by
  rw [iterFrom_nil, List.mem_map]
  constructor
  · rintro ⟨e, he, heq⟩
    obtain ⟨k', hk', hm⟩ := iter_keys_are_byte_keys h he
    simp only [Prod.mk.injEq] at heq
    rw [hk', hexToKeybytes_keybytesToHex] at heq
    rw [← heq.1, ← heq.2]; exact hm
  · intro hm
    have : content t (keybytesToHex k) = some v := by rw [h.agree]; exact hm
    exact ⟨(keybytesToHex k, v), lookup_some_mem this, by simp [hexToKeybytes_keybytesToHex]⟩

theorem iterFrom_sorted_hex {t : Node} {m : Bytes → Option Bytes} (h : Represents t m) :
    (iterFrom t []).Pairwise (fun e1 e2 => keybytesToHex e1.1 < keybytesToHex e2.1) := by
  rw [iterFrom_nil, List.pairwise_map]
  apply List.Pairwise.imp_of_mem _ (sortedKeys_iter t)
  intro a b ha hb hab
  obtain ⟨ka, hka, _⟩ := iter_keys_are_byte_keys h ha
  obtain ⟨kb, hkb, _⟩ := iter_keys_are_byte_keys h hb
  simp only [hka, hkb, hexToKeybytes_keybytesToHex] at hab ⊢
  exact hab

/-! ### hex-path order versus byte order -/

theorem hex_lt_iff (k1 k2 : Bytes) :
    keybytesToHex k1 < keybytesToHex k2 ↔ (k1 < k2 ∧ ¬ k1 <+: k2) ∨ (k2 <+: k1 ∧ k2 ≠ k1) := by
  induction k1 generalizing k2 with
  | nil =>
    cases k2 with
    | nil => simp [keybytesToHex, hexOfBytes]
    | cons b k =>
      have := b.toNat_lt
      simp only [keybytesToHex, hexOfBytes, List.nil_append, List.cons_append, List.cons_lt_cons_iff]
      constructor
      · rintro (h | ⟨h, _⟩) <;> omega
      · rintro (⟨_, h⟩ | ⟨h, _⟩)
        · exact absurd List.nil_prefix h
        · simp at h
  | cons b1 r1 ih =>
    cases k2 with
    | nil =>
      have := b1.toNat_lt
      simp only [keybytesToHex, hexOfBytes, List.nil_append, List.cons_append, List.cons_lt_cons_iff]
      constructor
      · intro _; right; simp
      · intro _; left; omega
    | cons b2 r2 =>
      have hih := ih r2
      simp only [keybytesToHex] at hih
      simp only [keybytesToHex, hexOfBytes, List.cons_append, List.cons_lt_cons_iff, hih,
        List.cons_prefix_cons, UInt8.lt_iff_toNat_lt, ne_eq, List.cons.injEq]
      have e : b1 = b2 ↔ b1.toNat = b2.toNat := UInt8.toNat_inj.symm
      have := b1.toNat_lt
      have := b2.toNat_lt
      constructor
      · rintro (h | ⟨h1, h | ⟨h2, h3⟩⟩)
        · left; exact ⟨Or.inl (by omega), fun h0 => by have := e.mp h0.1; omega⟩
        · left; exact ⟨Or.inl (by omega), fun h0 => by have := e.mp h0.1; omega⟩
        · have hb : b1 = b2 := e.mpr (by omega)
          rcases h3 with ⟨h4, h5⟩ | ⟨h4, h5⟩
          · left; exact ⟨Or.inr ⟨hb, h4⟩, fun h0 => h5 h0.2⟩
          · right; exact ⟨⟨hb.symm, h4⟩, fun h0 => h5 h0.2⟩
      · rintro (⟨h1 | ⟨h1, h2⟩, h3⟩ | ⟨⟨h1, h2⟩, h3⟩)
        · by_cases hq : b1.toNat / 16 < b2.toNat / 16
          · left; exact hq
          · right; exact ⟨by omega, Or.inl (by omega)⟩
        · have := e.mp h1
          right; refine ⟨by omega, Or.inr ⟨by omega, Or.inl ⟨h2, fun h0 => h3 ⟨h1, h0⟩⟩⟩⟩
        · have := e.mp h1.symm
          right; refine ⟨by omega, Or.inr ⟨by omega, Or.inr ⟨h2, fun h0 => h3 ⟨h1, h0⟩⟩⟩⟩

end Rangers.Trie
