import Rangers.Proofs.MinerInv
/-! C20: effect of each successful transaction on the stake slots, balances and the refund context. -/
namespace Rangers.Miner

/-- The stake the registry of type `d` records for `id` (0 when there is no slot). -/
def stakeAt (cfg : Cfg) (st : State) (d : DbId) (id : Bytes) : Nat := u64 ((st.live d).get (slotStake cfg id))

/-- `j`'s stake slot is none of the record/account/status keys of `i`. -/
def Untouched (cfg : Cfg) (i j : Bytes) : Prop :=
  cfg.H j ≠ i ∧ cfg.H j ≠ cfg.H (cfg.H i) ∧ cfg.H j ≠ cfg.H (cfg.H (cfg.H i))

theorem beToNat_foldl_lt (l : Bytes) (acc : Nat) :
    l.foldl (fun a b => a * 256 + b.toNat) acc < (acc + 1) * 256 ^ l.length := by
  induction l generalizing acc with
  | nil => simp
  | cons b l ih =>
    simp only [List.foldl_cons, List.length_cons]
    have hb : b.toNat < 256 := b.toNat_lt
    have := ih (acc * 256 + b.toNat)
    calc _ < (acc * 256 + b.toNat + 1) * 256 ^ l.length := this
      _ ≤ ((acc + 1) * 256) * 256 ^ l.length := Nat.mul_le_mul_right _ (by omega)
      _ = (acc + 1) * 256 ^ (l.length + 1) := by rw [Nat.pow_succ, Nat.mul_assoc, Nat.mul_comm 256]

theorem u64_lt (b : Bytes) : u64 b < 2 ^ 64 := by
  unfold u64
  split
  · decide
  · have := beToNat_foldl_lt (b.take 8) 0
    have hl : (b.take 8).length = 8 := by simp; omega
    rw [hl] at this
    simpa [beToNat] using this

theorem stakeAt_lt (cfg : Cfg) (st : State) (d : DbId) (id : Bytes) : stakeAt cfg st d id < 2 ^ 64 := u64_lt _

theorem stakeAt_write (cfg : Cfg) (st : State) (d d' : DbId) (k v j : Bytes) :
    stakeAt cfg (st.write d k v) d' j = if d' = d ∧ slotStake cfg j = k then u64 v else stakeAt cfg st d' j := by
  unfold stakeAt
  rw [write_get]
  split <;> rfl

theorem stakeAt_of_live (cfg : Cfg) (st st' : State) (h : st'.live = st.live) (d : DbId) (j : Bytes) :
    stakeAt cfg st' d j = stakeAt cfg st d j := by unfold stakeAt; rw [h]

/-- `UpdateMiner(isNew = false)`: the record's own stake slot holds the new stake … -/
theorem stakeAt_updateMiner_self (cfg : Cfg) (st : State) (m : Miner) (hu : Untouched cfg m.id m.id) :
    stakeAt cfg (updateMiner cfg st m none) (dbOfType m.typ) m.id = m.stake % 2 ^ 64 := by
  unfold updateMiner
  simp only [stakeAt_write, slotStake, slotAcct, slotStatus, true_and, hu.2.1, hu.2.2, if_false, if_true, u64_u64be]

/-- … and no other stake slot changes. -/
theorem stakeAt_updateMiner_frame (cfg : Cfg) (st : State) (m : Miner) (oi : Option Info) (d : DbId) (j : Bytes)
    (hu : Untouched cfg m.id j) (hne : d ≠ dbOfType m.typ ∨ cfg.H j ≠ cfg.H m.id) :
    stakeAt cfg (updateMiner cfg st m oi) d j = stakeAt cfg st d j := by
  unfold updateMiner
  have h1 := hu.1; have h2 := hu.2.1; have h3 := hu.2.2
  cases oi with
  | none =>
    simp only [stakeAt_write, slotStake, slotAcct, slotStatus, h2, h3, and_false, if_false]
    rcases hne with h | h <;> simp [h]
  | some info =>
    simp only [stakeAt_write, slotStake, slotAcct, slotStatus, h1, h2, h3, and_false, if_false]
    rcases hne with h | h <;> simp [h]

theorem stakeAt_updateMiner_new (cfg : Cfg) (st : State) (m : Miner) (info : Info) (hu : Untouched cfg m.id m.id) :
    stakeAt cfg (updateMiner cfg st m (some info)) (dbOfType m.typ) m.id = m.stake % 2 ^ 64 := by
  unfold updateMiner
  simp only [stakeAt_write, slotStake, slotAcct, slotStatus, true_and, hu.2.1, hu.2.2, if_false, if_true, u64_u64be]

theorem stakeAt_removeMiner_self (cfg : Cfg) (st : State) (id acc : Bytes) (t l : Nat) (hu : Untouched cfg id id) :
    stakeAt cfg (removeMiner cfg st id acc t l) (dbOfType t) id = l % 2 ^ 64 := by
  unfold removeMiner
  split
  · rename_i h
    simp only [stakeAt_write, slotStake, slotAcct, slotStatus, true_and, hu.2.1, hu.2.2, if_false, if_true, u64_nil, h.1]
  · simp only [stakeAt_write, slotStake, slotAcct, slotStatus, true_and, hu.2.2, if_false, if_true, u64_u64be]

theorem stakeAt_removeMiner_frame (cfg : Cfg) (st : State) (id acc : Bytes) (t l : Nat) (d : DbId) (j : Bytes)
    (hu : Untouched cfg id j) (hne : d ≠ dbOfType t ∨ cfg.H j ≠ cfg.H id) :
    stakeAt cfg (removeMiner cfg st id acc t l) d j = stakeAt cfg st d j := by
  unfold removeMiner
  have h1 := hu.1; have h2 := hu.2.1; have h3 := hu.2.2
  split
  · simp only [stakeAt_write, slotStake, slotAcct, slotStatus, h1, h2, h3, and_false, if_false]
    rcases hne with h | h <;> simp [h]
  · simp only [stakeAt_write, slotStake, slotAcct, slotStatus, h3, and_false, if_false]
    rcases hne with h | h <;> simp [h]

theorem stakeAt_refundApply (cfg : Cfg) (st : State) (id src : Bytes) (m : Miner) (money : Nat) (d : DbId) (j : Bytes) :
    stakeAt cfg (refundApply cfg st id src m money) d j = stakeAt cfg (refundCore cfg st id src m money) d j := rfl

theorem stakeAt_refundCore_self (cfg : Cfg) (st : State) (src : Bytes) (m : Miner) (money : Nat) (hu : Untouched cfg m.id m.id) :
    stakeAt cfg (refundCore cfg st m.id src m money) (dbOfType m.typ) m.id = (m.stake - money) % 2 ^ 64 := by
  unfold refundCore
  split
  · exact stakeAt_removeMiner_self cfg _ _ _ _ _ hu
  · exact stakeAt_updateMiner_self cfg st { m with stake := m.stake - money } hu

theorem stakeAt_refundCore_frame (cfg : Cfg) (st : State) (src : Bytes) (m : Miner) (money : Nat) (d : DbId) (j : Bytes)
    (hu : Untouched cfg m.id j) (hne : cfg.H j ≠ cfg.H m.id) :
    stakeAt cfg (refundCore cfg st m.id src m money) d j = stakeAt cfg st d j := by
  unfold refundCore
  split
  · exact stakeAt_removeMiner_frame cfg _ _ _ _ _ d j hu (Or.inr hne)
  · exact stakeAt_updateMiner_frame cfg st { m with stake := m.stake - money } none d j hu (Or.inr hne)

theorem stakeAt_addStakeApply_self (cfg : Cfg) (st : State) (p : Bytes) (m : Miner) (delta : Nat) (hu : Untouched cfg m.id m.id) :
    stakeAt cfg (addStakeApply cfg st p m delta) (dbOfType m.typ) m.id = (m.stake + delta) % 2 ^ 64 := by
  unfold addStakeApply
  have := stakeAt_updateMiner_self cfg (st.subBal p (stakeWei delta))
    { m with stake := (m.stake + delta) % 2 ^ 64,
             status := if reactivates m.typ ((m.stake + delta) % 2 ^ 64) then statusNormal else m.status } hu
  simp only at this ⊢
  rw [this, Nat.mod_mod]

theorem stakeAt_addStakeApply_frame (cfg : Cfg) (st : State) (p : Bytes) (m : Miner) (delta : Nat) (d : DbId) (j : Bytes)
    (hu : Untouched cfg m.id j) (hne : cfg.H j ≠ cfg.H m.id) :
    stakeAt cfg (addStakeApply cfg st p m delta) d j = stakeAt cfg st d j := by
  unfold addStakeApply
  have := stakeAt_updateMiner_frame cfg (st.subBal p (stakeWei delta))
    { m with stake := (m.stake + delta) % 2 ^ 64,
             status := if reactivates m.typ ((m.stake + delta) % 2 ^ 64) then statusNormal else m.status } none d j hu (Or.inr hne)
  simp only at this ⊢
  rw [this]
  exact stakeAt_of_live cfg st _ rfl d j

/-! ### what success of each executor means -/

theorem addMiner_ok (cfg : Cfg) (st : State) (p : Bytes) (i : Info) (s : Nat) (a : Bytes)
    (h : (addMiner cfg st p i s a).1 = "ok") :
    (addMiner cfg st p i s a).2 = addMinerApply cfg st p i s a ∧ stakeWei s ≤ st.balOf p ∧
      (getMiner cfg st i.id).isSome = false ∧ (byAccount cfg st a).isSome = false := by
  unfold addMiner at h ⊢
  split at h
  · simp at h
  · repeat' split at h
    all_goals first | (simp at h; done) | skip
    rename_i h1 h2 h3 h4 h5
    simp only [h1, h2, h3, h4, h5, if_false]
    refine ⟨by simp, by omega, by simpa using h4, by simpa using h5⟩

theorem addStake_ok (cfg : Cfg) (st : State) (p id : Bytes) (dl : Nat) (hd : dl ≠ 0)
    (h : (addStake cfg st p id dl).1 = "ok") :
    ∃ m, getMiner cfg st id = some m ∧ (addStake cfg st p id dl).2 = addStakeApply cfg st p m dl ∧ stakeWei dl ≤ st.balOf p := by
  unfold addStake at h ⊢
  simp only [hd, if_false] at h ⊢
  split at h
  · simp at h
  · rename_i hb
    simp only [hb, if_false]
    cases hm : getMiner cfg st id with
    | none => simp [hm] at h
    | some m => exact ⟨m, rfl, rfl, by omega⟩

theorem execRefund_ok (cfg : Cfg) (st : State) (src id : Bytes) (am : Nat)
    (h : (execRefund cfg st src id am).1 = "ok") :
    ∃ m, getMiner cfg st id = some m ∧ src = m.account ∧ refundMoney m am ≤ m.stake ∧
      (execRefund cfg st src id am).2 = refundApply cfg st id src m (refundMoney m am) := by
  unfold execRefund at h ⊢
  split at h
  · simp at h
  · rename_i h0
    simp only [h0, if_false]
    cases hm : getMiner cfg st id with
    | none => simp [hm] at h
    | some m =>
      simp only [hm] at h ⊢
      split at h
      · simp at h
      · rename_i h1
        split at h
        · simp at h
        · rename_i h2
          simp only [h1, h2, if_false]
          exact ⟨m, rfl, by simpa using h1, by omega, rfl⟩

theorem execChacc_ok (cfg : Cfg) (st : State) (src id na : Bytes) (h : (execChacc cfg st src id na).1 = "ok") :
    ∃ m, getMiner cfg st id = some m ∧ m.account = src ∧ m.account ≠ na ∧ (byAccount cfg st na).isSome = false ∧
      (execChacc cfg st src id na).2 = updateMiner cfg st { m with account := na } none := by
  unfold execChacc at h ⊢
  cases hm : getMiner cfg st id with
  | none => simp [hm] at h
  | some m =>
    simp only [hm] at h ⊢
    repeat' split at h
    all_goals first | (simp at h; done) | skip
    rename_i h1 h2 h3
    simp only [h1, h2, h3, if_false]
    exact ⟨m, rfl, by simpa using h2, h1, by simpa using h3, rfl⟩

/-! ### lookups only read `live` and `trie` -/

theorem getMinerById_congr (cfg : Cfg) (st st' : State) (h : st'.live = st.live) (d : DbId) (id : Bytes) :
    getMinerById cfg st' d id = getMinerById cfg st d id := by unfold getMinerById; rw [h]

theorem getMiner_congr (cfg : Cfg) (st st' : State) (h : st'.live = st.live) (id : Bytes) :
    getMiner cfg st' id = getMiner cfg st id := by
  unfold getMiner; rw [getMinerById_congr cfg st st' h, getMinerById_congr cfg st st' h]

theorem iter_congr (cfg : Cfg) (st st' : State) (h : st'.live = st.live) (ht : st'.trie = st.trie) (d : DbId) :
    iter cfg st' d = iter cfg st d := by
  unfold iter iterCurrent; rw [h, ht]

theorem byAccount_congr (cfg : Cfg) (st st' : State) (h : st'.live = st.live) (ht : st'.trie = st.trie) (a : Bytes) :
    byAccount cfg st' a = byAccount cfg st a := by
  unfold byAccount; rw [iter_congr cfg st st' h ht, iter_congr cfg st st' h ht]

theorem recKeyed_congr (cfg : Cfg) (st st' : State) (h : st'.live = st.live) : RecKeyed cfg st' ↔ RecKeyed cfg st := by
  unfold RecKeyed; rw [h]

end Rangers.Miner
