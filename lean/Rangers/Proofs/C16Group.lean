import Rangers.Proofs.C16Curve
import Mathlib.Algebra.Group.Defs
import Mathlib.Algebra.Group.Basic
import Mathlib.Algebra.Group.MinimalAxioms
/-!
The points of a complete twisted Edwards curve (a = −1 = i², d non-square, char ≠ 2) form a
commutative group under the addition law — proved here from the field identities of
`C16Curve` (closure, associativity, completeness), no assumption left.
-/
namespace Rangers.Proofs.C16Group
open Rangers.Proofs.C16Curve

variable {F : Type} [Field F]

/-- curve parameters with the side conditions that make the addition law complete -/
structure EdParams (F : Type) [Field F] where
  d : F
  i : F
  hi : i ^ 2 = -1
  h2 : (2 : F) ≠ 0
  hd : ¬ IsSquare d

@[ext] structure EdPoint (P : EdParams F) where
  x : F
  y : F
  on : OnCurve P.d x y

variable {P : EdParams F}

theorem dn (a b : EdPoint P) :
    1 + P.d * a.x * b.x * a.y * b.y ≠ 0 ∧ 1 - P.d * a.x * b.x * a.y * b.y ≠ 0 :=
  denoms_ne_zero P.d P.i a.x a.y b.x b.y P.hi P.h2 P.hd a.on b.on

def add (a b : EdPoint P) : EdPoint P :=
  ⟨addX P.d a.x a.y b.x b.y, addY P.d a.x a.y b.x b.y,
    add_closed P.d a.x a.y b.x b.y a.on b.on (dn a b).1 (dn a b).2⟩

def zero : EdPoint P := ⟨0, 1, zero_onCurve P.d⟩
def neg (a : EdPoint P) : EdPoint P := ⟨-a.x, a.y, neg_onCurve P.d a.x a.y a.on⟩

theorem add_comm' (a b : EdPoint P) : add a b = add b a := by
  ext
  · exact addX_comm _ _ _ _ _
  · exact addY_comm _ _ _ _ _

theorem add_zero' (a : EdPoint P) : add a zero = a := by
  ext
  · exact (add_zero_right P.d a.x a.y).1
  · exact (add_zero_right P.d a.x a.y).2

theorem add_neg' (a : EdPoint P) : add a (neg a) = zero := by
  have hD : 1 + P.d * a.x ^ 2 * a.y ^ 2 ≠ 0 := by
    have := (dn a (neg a)).2
    simp only [neg] at this
    intro h0; apply this; linear_combination h0
  ext
  · exact (add_neg_self P.d a.x a.y a.on hD).1
  · exact (add_neg_self P.d a.x a.y a.on hD).2

theorem add_assoc' (a b c : EdPoint P) : add (add a b) c = add a (add b c) := by
  obtain ⟨hD1, hD2⟩ := dn a b
  obtain ⟨hE1, hE2⟩ := dn b c
  obtain ⟨hL1, hL2⟩ := dn (add a b) c
  obtain ⟨hR1, hR2⟩ := dn a (add b c)
  simp only [add, addX, addY] at hL1 hL2 hR1 hR2
  -- the cleared denominators are non-zero
  have hLx : (1 + P.d * a.x * b.x * a.y * b.y) * (1 - P.d * a.x * b.x * a.y * b.y)
      + P.d * (a.x * b.y + b.x * a.y) * (a.y * b.y + a.x * b.x) * c.x * c.y ≠ 0 := by
    intro h0; apply hL1
    rw [lden_x _ _ _ _ _ _ _ hD1 hD2, h0, zero_div]
  have hLy : (1 + P.d * a.x * b.x * a.y * b.y) * (1 - P.d * a.x * b.x * a.y * b.y)
      - P.d * (a.x * b.y + b.x * a.y) * (a.y * b.y + a.x * b.x) * c.x * c.y ≠ 0 := by
    intro h0; apply hL2
    rw [lden_y _ _ _ _ _ _ _ hD1 hD2, h0, zero_div]
  have hRx : (1 + P.d * b.x * c.x * b.y * c.y) * (1 - P.d * b.x * c.x * b.y * c.y)
      + P.d * a.x * a.y * (b.x * c.y + c.x * b.y) * (b.y * c.y + b.x * c.x) ≠ 0 := by
    intro h0; apply hR1
    rw [rden_x _ _ _ _ _ _ _ hE1 hE2, h0, zero_div]
  have hRy : (1 + P.d * b.x * c.x * b.y * c.y) * (1 - P.d * b.x * c.x * b.y * c.y)
      - P.d * a.x * a.y * (b.x * c.y + c.x * b.y) * (b.y * c.y + b.x * c.x) ≠ 0 := by
    intro h0; apply hR2
    rw [rden_y _ _ _ _ _ _ _ hE1 hE2, h0, zero_div]
  ext
  · show addX P.d ((a.x * b.y + b.x * a.y) / (1 + P.d * a.x * b.x * a.y * b.y))
        ((a.y * b.y + a.x * b.x) / (1 - P.d * a.x * b.x * a.y * b.y)) c.x c.y
      = addX P.d a.x a.y ((b.x * c.y + c.x * b.y) / (1 + P.d * b.x * c.x * b.y * c.y))
        ((b.y * c.y + b.x * c.x) / (1 - P.d * b.x * c.x * b.y * c.y))
    rw [left_x _ _ _ _ _ _ _ hD1 hD2, right_x _ _ _ _ _ _ _ hE1 hE2, div_eq_div_iff hLx hRx]
    have := assoc_poly_x P.d a.x a.y b.x b.y c.x c.y a.on b.on c.on
    unfold nLx dLx nRx dRx at this
    linear_combination this
  · show addY P.d ((a.x * b.y + b.x * a.y) / (1 + P.d * a.x * b.x * a.y * b.y))
        ((a.y * b.y + a.x * b.x) / (1 - P.d * a.x * b.x * a.y * b.y)) c.x c.y
      = addY P.d a.x a.y ((b.x * c.y + c.x * b.y) / (1 + P.d * b.x * c.x * b.y * c.y))
        ((b.y * c.y + b.x * c.x) / (1 - P.d * b.x * c.x * b.y * c.y))
    rw [left_y _ _ _ _ _ _ _ hD1 hD2, right_y _ _ _ _ _ _ _ hE1 hE2, div_eq_div_iff hLy hRy]
    have := assoc_poly_y P.d a.x a.y b.x b.y c.x c.y a.on b.on c.on
    unfold nLy dLy nRy dRy at this
    linear_combination this

instance : Add (EdPoint P) := ⟨add⟩
instance : Zero (EdPoint P) := ⟨zero⟩
instance : Neg (EdPoint P) := ⟨neg⟩

/-- The curve points form a commutative group. -/
instance : AddCommGroup (EdPoint P) :=
  { AddGroup.ofLeftAxioms (G := EdPoint P) add_assoc'
      (fun a => by
        show add zero a = a
        rw [add_comm']; exact add_zero' a)
      (fun a => by
        show add (neg a) a = zero
        rw [add_comm']; exact add_neg' a) with
    add_comm := add_comm' }

end Rangers.Proofs.C16Group
