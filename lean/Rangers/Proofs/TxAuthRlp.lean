import Rangers.Model.TxAuth
import Rangers.Props.C08
/-!
The RLP layer of C07 on top of C08's theorems: the payload codec of a wrapped Ethereum
transaction is `RLP.decodeBytes` / `RLP.encode` (lossless and canonical by
`Props.C08.decodeBytes_encode`, `decodeBytes_canonical`) plus the typing `txOfItem`, whose
integer fields are canonical by `Props.C08.integers_canonical` / `big_integers_canonical`.
-/
namespace Rangers.Model.TxAuth
open Rangers Rangers.RLP

theorem uint_toBE (n : Nat) (h : n < 2 ^ 64) : okOpt (uintOfContent 64 (toBE n)) = some n := by
  have := (Props.C08.integers_canonical 64 (toBE n) n).2 ⟨rfl, by have := toBE_len_64 h; omega⟩
  rw [this]; rfl

theorem big_toBE (n : Nat) : okOpt (bigOfContent (toBE n)) = some n := by
  rw [(Props.C08.big_integers_canonical (toBE n) n).2 rfl]; rfl

theorem uint_inv (c : Bytes) (n : Nat) (h : okOpt (uintOfContent 64 c) = some n) : c = toBE n ∧ n < 2 ^ 64 := by
  cases hu : uintOfContent 64 c with
  | error e => rw [hu] at h; cases h
  | ok m =>
    rw [hu] at h
    have hm : m = n := by simpa [okOpt] using h
    subst hm
    obtain ⟨hc, hl⟩ := (Props.C08.integers_canonical 64 c m).1 hu
    refine ⟨hc, ?_⟩
    have h1 := beNat_lt c
    have h2 : beNat c = m := by rw [hc, beNat_toBE]
    have h3 : 256 ^ c.length ≤ 2 ^ 64 := by
      have : c.length ≤ 8 := by omega
      calc 256 ^ c.length ≤ 256 ^ 8 := Nat.pow_le_pow_right (by omega) this
        _ = 2 ^ 64 := by decide
    omega

theorem big_inv (c : Bytes) (n : Nat) (h : okOpt (bigOfContent c) = some n) : c = toBE n := by
  cases hu : bigOfContent c with
  | error e => rw [hu] at h; cases h
  | ok m =>
    rw [hu] at h
    have hm : m = n := by simpa [okOpt] using h
    subst hm
    exact (Props.C08.big_integers_canonical c m).1 hu

/-- what a payload produced by an Ethereum wallet satisfies: 64-bit nonce and gas,
    20-byte recipient (or none), all payload sizes below 2^64 -/
structure WfEthTx (e : EthTx) : Prop where
  nonce : e.nonce < 2 ^ 64
  gas : e.gas < 2 ^ 64
  to : ∀ a, e.to = some a → a.length = 20
  size : (itemOfTx e).sizeOK

theorem toOfItem_toItem (to : Option Bytes) (h : ∀ a, to = some a → a.length = 20) :
    toOfItem (toItem to) = some to := by
  cases to with
  | none => rfl
  | some a =>
    have hl := h a rfl
    match a, hl with
    | x :: xs, hl => simp [toItem, toOfItem, hl]

theorem txOfItem_itemOfTx (e : EthTx) (wf : WfEthTx e) : txOfItem (itemOfTx e) = some e := by
  simp only [itemOfTx, coreItems, List.cons_append, List.nil_append, txOfItem]
  cases hto : toItem e.to with
  | str a =>
    simp only [uint_toBE _ wf.nonce, uint_toBE _ wf.gas, big_toBE, ← hto, toOfItem_toItem _ wf.to]
  | list xs => cases hte : e.to <;> simp [toItem, hte] at hto

/-- `rlp.DecodeBytes(rlp.EncodeToBytes(tx))` gives `tx` back (C08 `decodeBytes_encode` + field typing). -/
theorem decodeTx_encodeTx (e : EthTx) (wf : WfEthTx e) : decodeTx (encodeTx e) = some e := by
  unfold decodeTx encodeTx
  rw [Props.C08.decodeBytes_encode _ wf.size]
  exact txOfItem_itemOfTx e wf

theorem encodeTx_ne_nil (e : EthTx) : encodeTx e ≠ [] := encode_ne_nil _

/-- the second item the typing maps to a contract creation: recipient written as the empty *list* -/
def itemOfTxAlt (e : EthTx) : Item :=
  .list [.str (toBE e.nonce), .str (toBE e.price), .str (toBE e.gas), .list [],
         .str (toBE e.value), .str e.data, .str (toBE e.v), .str (toBE e.r), .str (toBE e.s)]

theorem txOfItem_itemOfTxAlt (e : EthTx) (wf : WfEthTx e) (hto : e.to = none) :
    txOfItem (itemOfTxAlt e) = some e := by
  cases e with
  | mk nonce price gas to value data v r s =>
    simp only at hto
    subst hto
    simp only [itemOfTxAlt, txOfItem, uint_toBE _ wf.nonce, uint_toBE _ wf.gas, big_toBE, toOfItem]

theorem toOfItem_inv (it : Item) (to : Option Bytes) (h : toOfItem it = some to) :
    it = toItem to ∨ (it = .list [] ∧ to = none) := by
  cases it with
  | str a =>
    cases a with
    | nil => simp [toOfItem] at h; subst h; left; rfl
    | cons x xs =>
      simp only [toOfItem] at h
      split at h
      · injection h with h; subst h; left; rfl
      · cases h
  | list xs =>
    cases xs with
    | nil => simp [toOfItem] at h; subst h; right; exact ⟨rfl, rfl⟩
    | cons x xs => simp [toOfItem] at h

/-- The typing has exactly the preimages C08's finding `noncanon:nil-ptr-empty-kind`
    predicts for `eth_tx.txdata`: the item the encoder writes, or — for a contract
    creation — the same item with the recipient written as the empty list. -/
theorem txOfItem_preimages (it : Item) (e : EthTx) (h : txOfItem it = some e) :
    it = itemOfTx e ∨ (e.to = none ∧ it = itemOfTxAlt e) := by
  unfold txOfItem at h
  split at h
  · rename_i n p g to vl d v r s
    split at h
    · rename_i nonce price gas to' value v' r' s' h1 h2 h3 h4 h5 h6 h7 h8
      injection h with h; subst h
      have e1 := (uint_inv _ _ h1).1
      have e2 := big_inv _ _ h2
      have e3 := (uint_inv _ _ h3).1
      have e5 := big_inv _ _ h5
      have e6 := big_inv _ _ h6
      have e7 := big_inv _ _ h7
      have e8 := big_inv _ _ h8
      subst e1 e2 e3 e5 e6 e7 e8
      rcases toOfItem_inv _ _ h4 with ht | ⟨ht, hn⟩
      · left; subst ht; rfl
      · right; subst ht; subst hn; exact ⟨rfl, rfl⟩
    · cases h
  · cases h

theorem txOfItem_wf_fields (it : Item) (e : EthTx) (h : txOfItem it = some e) :
    e.nonce < 2 ^ 64 ∧ e.gas < 2 ^ 64 ∧ ∀ a, e.to = some a → a.length = 20 := by
  unfold txOfItem at h
  split at h
  · rename_i n p g to vl d v r s
    split at h
    · rename_i nonce price gas to' value v' r' s' h1 h2 h3 h4 h5 h6 h7 h8
      injection h with h; subst h
      refine ⟨(uint_inv _ _ h1).2, (uint_inv _ _ h3).2, ?_⟩
      intro a ha
      simp only at ha
      subst ha
      cases to with
      | str b =>
        cases b with
        | nil => simp [toOfItem] at h4
        | cons x xs =>
          simp only [toOfItem] at h4
          split at h4
          · rename_i hl; injection h4 with h4; injection h4 with h4; subst h4; exact hl
          · cases h4
      | list xs => cases xs <;> simp [toOfItem] at h4
    · cases h
  · cases h

/-- the two preimages have different encodings (they differ in the recipient byte 0x80 / 0xc0) -/
theorem encode_alt_ne (e : EthTx) (hto : e.to = none) : encode (itemOfTxAlt e) ≠ encode (itemOfTx e) := by
  intro h
  have hl : (encodeList [Item.str (toBE e.nonce), .str (toBE e.price), .str (toBE e.gas), .list [],
      .str (toBE e.value), .str e.data, .str (toBE e.v), .str (toBE e.r), .str (toBE e.s)]).length =
      (encodeList [Item.str (toBE e.nonce), .str (toBE e.price), .str (toBE e.gas), .str [],
      .str (toBE e.value), .str e.data, .str (toBE e.v), .str (toBE e.r), .str (toBE e.s)]).length := by
    simp [encodeList, encode, encListPayload, encString, encHead]
  simp only [itemOfTxAlt, itemOfTx, coreItems, hto, toItem, List.cons_append, List.nil_append, encode,
    encListPayload] at h
  rw [hl] at h
  have h2 := List.append_cancel_left h
  simp only [encodeList] at h2
  have h3 := List.append_cancel_left (List.append_cancel_left (List.append_cancel_left h2))
  simp [encode, encListPayload, encString, encHead, encodeList] at h3

end Rangers.Model.TxAuth
