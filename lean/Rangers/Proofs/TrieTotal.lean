import Rangers.Proofs.TrieDelete
/- The branches in which the Go code would panic are unreachable for minimal-form tries and terminated keys. -/
namespace Rangers.Trie
open Rangers

theorem getPanicsAt_eq (cs : List Node) (i : Nat) (rest : Key) (h : i < cs.length) :
    getPanicsAt cs i rest = getPanics (cs[i]?.getD .nil) rest := by
  induction cs generalizing i with
  | nil => simp at h
  | cons c cs ih => cases i with
    | zero => simp [getPanicsAt]
    | succ i => simp [getPanicsAt, ih i (by simpa using h)]

theorem insertPanicsAt_eq (cs : List Node) (i : Nat) (rest : Key) (v : Node) (h : i < cs.length) :
    insertPanicsAt cs i rest v = insertPanics (cs[i]?.getD .nil) rest v := by
  induction cs generalizing i with
  | nil => simp at h
  | cons c cs ih => cases i with
    | zero => simp [insertPanicsAt]
    | succ i => simp [insertPanicsAt, ih i (by simpa using h)]

theorem deletePanicsAt_eq (cs : List Node) (i : Nat) (rest : Key) (h : i < cs.length) :
    deletePanicsAt cs i rest = deletePanics (cs[i]?.getD .nil) rest := by
  induction cs generalizing i with
  | nil => simp at h
  | cons c cs ih => cases i with
    | zero => simp [deletePanicsAt]
    | succ i => simp [deletePanicsAt, ih i (by simpa using h)]

/-- the child reached in slot `i` by the rest of a terminated key: empty/value with the key
    exhausted (slot 16), or an empty/minimal-form subtree with a terminated rest -/
theorem slot_cases {cs : List Node} (hwf : WF (.full cs)) {i : Nat} {r : Key} (hk : ValidKey (i :: r)) :
    i < cs.length ∧
    ((r = [] ∧ (cs[i]?.getD .nil = .nil ∨ ∃ b, cs[i]?.getD .nil = .value b)) ∨
     (ValidKey r ∧ WFRoot (cs[i]?.getD .nil) ∧ (cs[i]?.getD .nil = .nil ∨ cs[i]?.getD .nil ∈ cs))) := by
  obtain ⟨hlen, hslots, _⟩ := (WF_full_iff cs).mp hwf
  have hi : i < 17 := by have := hk.le16 i (by simp); omega
  refine ⟨by omega, ?_⟩
  rcases (validKey_cons i r).mp hk with ⟨rfl, rfl⟩ | ⟨hj16, hr⟩
  · left
    refine ⟨rfl, ?_⟩
    rcases hslots 16 (by omega) with h | h
    · exact Or.inl h
    · simp only [if_true] at h
      obtain ⟨b, hb, _⟩ := h; exact Or.inr ⟨b, hb⟩
  · right
    refine ⟨hr, ?_, getD_mem_or_nil cs i⟩
    rcases hslots i hi with h | h
    · exact Or.inl h
    · have : ¬ i = 16 := by omega
      simp only [this, if_false] at h; exact Or.inr h

theorem no_panic_get (t : Node) : ∀ k, WFRoot t → ValidKey k → getPanics t k = false := by
  induction t using Node.induct with
  | hnil => intro k _ _; simp [getPanics]
  | hval b => intro k _ _; simp [getPanics]
  | hshort kk v ih =>
    intro k hwf hk
    have hwf : WF (.short kk v) := hwf.resolve_left (by simp)
    simp only [getPanics]
    split
    · rename_i hp
      have hpre : kk <+: k := List.prefix_iff_eq_take.mpr hp.2.symm
      rcases (WF_short_iff kk v).mp hwf with ⟨b, rfl, hkk, hb⟩ | ⟨cs, rfl, hne, hnib, hfull⟩
      · simp [getPanics]
      · exact ih _ (Or.inr hfull) (hk.drop_of_nibs hpre hnib)
    · rfl
  | hfull cs ih =>
    intro k hwf hk
    have hwf : WF (.full cs) := hwf.resolve_left (by simp)
    obtain ⟨i, r, rfl⟩ : ∃ x r, k = x :: r := by
      cases k with
      | nil => exact absurd rfl hk.ne_nil
      | cons x r => exact ⟨x, r, rfl⟩
    obtain ⟨hi, hc⟩ := slot_cases hwf hk
    simp only [getPanics, getPanicsAt_eq cs i r hi]
    rcases hc with ⟨rfl, h | ⟨b, h⟩⟩ | ⟨hr, hroot, h | hmem⟩
    · rw [h]; simp [getPanics]
    · rw [h]; simp [getPanics]
    · rw [h]; simp [getPanics]
    · exact ih _ hmem r hroot hr

theorem no_panic_insert (val : Bytes) (t : Node) :
    ∀ k, WFRoot t → ValidKey k → insertPanics t k (.value val) = false := by
  induction t using Node.induct with
  | hnil => intro k _ _; cases k <;> simp [insertPanics]
  | hval b => intro k h; rcases h with h | h <;> simp [WF] at h
  | hshort kk v ih =>
    intro k hwf hk
    have hwf : WF (.short kk v) := hwf.resolve_left (by simp)
    obtain ⟨x, r, rfl⟩ : ∃ x r, k = x :: r := by
      cases k with
      | nil => exact absurd rfl hk.ne_nil
      | cons x r => exact ⟨x, r, rfl⟩
    simp only [insertPanics]
    split
    · rename_i hm
      have hpre : kk <+: x :: r := (prefixLen_eq_right_iff _ _).mp hm
      rcases (WF_short_iff kk v).mp hwf with ⟨b, rfl, hkk, hb⟩ | ⟨cs, rfl, hne, hnib, hfull⟩
      · have heq : kk = x :: r := hk.eq_of_prefix hkk hpre
        have hd : (x :: r).drop (prefixLen (x :: r) kk) = [] := by rw [hm, heq]; simp
        rw [hd]; simp [insertPanics]
      · rw [hm]; exact ih _ (Or.inr hfull) (hk.drop_of_nibs hpre hnib)
    · rename_i hm
      have hlt : prefixLen (x :: r) kk < kk.length := Nat.lt_of_le_of_ne (prefixLen_le_right _ _) hm
      have hnp : ¬ ((x :: r) <+: kk) := by
        rcases (WF_short_iff kk v).mp hwf with ⟨b, rfl, hkk, hb⟩ | ⟨cs, rfl, hne, hnib, hfull⟩
        · intro h
          have := hkk.eq_of_prefix hk h
          rw [← this] at hm
          exact hm ((prefixLen_eq_right_iff _ _).mpr (List.prefix_refl _))
        · exact hk.not_prefix_nibs hnib
      have hlt2 : prefixLen (x :: r) kk < (x :: r).length :=
        Nat.lt_of_le_of_ne (prefixLen_le_left _ _) (fun h => hnp ((prefixLen_eq_left_iff _ _).mp h))
      have hle1 : ∀ y ∈ kk, y ≤ 16 := by
        rcases (WF_short_iff kk v).mp hwf with ⟨b, rfl, hkk, hb⟩ | ⟨cs, rfl, _, hnib, hfull⟩
        · exact hkk.le16
        · intro y hy; exact Nat.le_of_lt (hnib y hy)
      have ha : kk.getD (prefixLen (x :: r) kk) 0 ≤ 16 := by
        have := hle1 _ (List.getElem_mem hlt)
        simpa only [List.getD_eq_getElem?_getD, List.getElem?_eq_getElem hlt, Option.getD_some] using this
      have hb : (x :: r).getD (prefixLen (x :: r) kk) 0 ≤ 16 := by
        have := hk.le16 _ (List.getElem_mem hlt2)
        simpa only [List.getD_eq_getElem?_getD, List.getElem?_eq_getElem hlt2, Option.getD_some] using this
      simp only [Bool.or_eq_false_iff, decide_eq_false_iff_not]
      exact ⟨⟨by omega, by omega⟩, by omega⟩
  | hfull cs ih =>
    intro k hwf hk
    have hwf : WF (.full cs) := hwf.resolve_left (by simp)
    obtain ⟨i, r, rfl⟩ : ∃ x r, k = x :: r := by
      cases k with
      | nil => exact absurd rfl hk.ne_nil
      | cons x r => exact ⟨x, r, rfl⟩
    obtain ⟨hi, hc⟩ := slot_cases hwf hk
    simp only [insertPanics, insertPanicsAt_eq cs i r _ hi]
    rcases hc with ⟨rfl, h | ⟨b, h⟩⟩ | ⟨hr, hroot, h | hmem⟩
    · rw [h]; simp [insertPanics]
    · rw [h]; simp [insertPanics]
    · rw [h]; cases r <;> simp [insertPanics]
    · exact ih _ hmem r hroot hr

theorem no_panic_delete (t : Node) : ∀ k, WFRoot t → ValidKey k → deletePanics t k = false := by
  induction t using Node.induct with
  | hnil => intro k _ _; simp [deletePanics]
  | hval b => intro k _ _; simp [deletePanics]
  | hshort kk v ih =>
    intro k hwf hk
    have hwf : WF (.short kk v) := hwf.resolve_left (by simp)
    simp only [deletePanics]
    split
    · rfl
    · rename_i hge
      split
      · rfl
      · rename_i hnw
        have hm : prefixLen k kk = kk.length := by
          have := prefixLen_le_right k kk; omega
        have hpre : kk <+: k := (prefixLen_eq_right_iff _ _).mp hm
        rcases (WF_short_iff kk v).mp hwf with ⟨b, rfl, hkk, hb⟩ | ⟨cs, rfl, hne, hnib, hfull⟩
        · simp [deletePanics]
        · exact ih _ (Or.inr hfull) (hk.drop_of_nibs hpre hnib)
  | hfull cs ih =>
    intro k hwf hk
    have hwf : WF (.full cs) := hwf.resolve_left (by simp)
    obtain ⟨i, r, rfl⟩ : ∃ x r, k = x :: r := by
      cases k with
      | nil => exact absurd rfl hk.ne_nil
      | cons x r => exact ⟨x, r, rfl⟩
    obtain ⟨hi, hc⟩ := slot_cases hwf hk
    simp only [deletePanics, deletePanicsAt_eq cs i r hi]
    rcases hc with ⟨rfl, h | ⟨b, h⟩⟩ | ⟨hr, hroot, h | hmem⟩
    · rw [h]; simp [deletePanics]
    · rw [h]; simp [deletePanics]
    · rw [h]; simp [deletePanics]
    · exact ih _ hmem r hroot hr

end Rangers.Trie
