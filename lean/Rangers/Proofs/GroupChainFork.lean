import Rangers.Proofs.GroupChainSql
/-! Availability walk and the fork switch (`groupChainFork.triggerOnChain`). -/
namespace Rangers.Model.GroupChain
open Rangers

/-- The availability rule on a list (newest first): take groups while `dismiss > h`; at the first
    one that is not, put `gen` (what `GetGroupByHeight(0)` returns) and stop. -/
def availOf (gen : Option Group) (h : Nat) : List Group → List (Option Group)
  | [] => []
  | g :: t => if g.dismiss > h then some g :: availOf gen h t else [gen]

theorem availWalk_eq (d : Store) (h : Nat) : ∀ (fuel : Nat) (g : Group),
    availWalk d h fuel g = availOf (getGroupByHeight d 0) h (iterWalk d fuel g) := by
  intro fuel
  induction fuel with
  | zero => intro g; simp [availWalk, iterWalk, availOf]
  | succ f ih =>
    intro g
    unfold availWalk iterWalk
    by_cases hc : g.dismiss > h
    · cases hp : getGroupById d g.pre with
      | none => simp [hc, availOf]
      | some p => simp [hc, availOf, ih p]
    · cases hp : getGroupById d g.pre <;> simp [hc, availOf]

theorem availableAt_rep {l : List Group} {c : Chain} (r : Rep l c) (h : Nat) :
    availableAt c h = availOf l.head? h l.reverse := by
  unfold availableAt
  rw [availWalk_eq]
  have hi := iterList_rep r
  unfold iterList at hi
  rw [hi]
  congr 1
  cases l with
  | nil => exact absurd rfl r.ne
  | cons a t => simpa using r.byHeight_lt (i := 0) (g := a) (by simp)

/-- Every entry of the availability rule is a listed group or the genesis entry. -/
theorem availOf_mem (gen : Option Group) (h : Nat) (l : List Group) :
    ∀ og ∈ availOf gen h l, og = gen ∨ ∃ g, og = some g ∧ g ∈ l ∧ g.dismiss > h := by
  induction l with
  | nil => intro og hog; simp [availOf] at hog
  | cons a t ih =>
    intro og hog
    unfold availOf at hog
    by_cases hc : a.dismiss > h
    · simp only [hc, if_true, List.mem_cons] at hog
      rcases hog with rfl | hog
      · exact Or.inr ⟨a, rfl, by simp, hc⟩
      · rcases ih og hog with e | ⟨g, e1, e2, e3⟩
        · exact Or.inl e
        · exact Or.inr ⟨g, e1, by simp [e2], e3⟩
    · simp only [hc, if_false, List.mem_singleton] at hog
      exact Or.inl hog

/-- When every group is still working, the rule returns all of them and no genesis duplicate. -/
theorem availOf_all (gen : Option Group) (h : Nat) (l : List Group) (hall : ∀ g ∈ l, g.dismiss > h) :
    availOf gen h l = l.map some := by
  induction l with
  | nil => rfl
  | cons a t ih =>
    have ha := hall a (by simp)
    simp [availOf, ha, ih (fun g hg => hall g (by simp [hg]))]

/-! ### fork switch -/

/-- The list after `AddGroup` of each group in turn, stopping at the first refusal. -/
def specAddAll (dur : Nat) : List Group → List Group → Chain → List Group
  | [], l, _ => l
  | g :: t, l, c =>
    if addCheck c (prepare dur g) = .ok then
      specAddAll dur t (l ++ [stamped l.length (prepare dur g)]) (save c (prepare dur g))
    else l

theorem prepare_id (dur : Nat) (g : Group) : (prepare dur g).id = g.id := rfl

theorem rep_addAll (dur : Nat) : ∀ (gs : List Group) (l : List Group) (c : Chain), Rep l c →
    (∀ g ∈ gs, IdOK g.id) → l.length + gs.length < lenBound →
    Rep (specAddAll dur gs l c) (addAll dur gs c).1 := by
  intro gs
  induction gs with
  | nil => intro l c r _ _; simpa [specAddAll, addAll] using r
  | cons g t ih =>
    intro l c r hid hb
    simp only [List.length_cons] at hb
    by_cases hok : addCheck c (prepare dur g) = .ok
    · have ha := rep_add r (prepare dur g) (by omega) (by rw [prepare_id]; exact hid g (by simp)) hok
      have : addAll dur (g :: t) c = addAll dur t (save c (prepare dur g)) := by
        simp [addAll, addGroupD, ha.1]
      rw [this]
      simp only [specAddAll, hok, if_true]
      exact ih _ _ ha.2 (fun x hx => hid x (by simp [hx])) (by simp; omega)
    · have hr := addGroup_rejected hok
      have : (addAll dur (g :: t) c).1 = c := by
        simp only [addAll, addGroupD, hr]
      rw [this]
      simp only [specAddAll, hok, if_false]
      exact r

/-- `triggerOnChain` reports success only when every fork group was accepted: the list then grew
    by exactly the fork's groups. -/
theorem addAll_true_len (dur : Nat) : ∀ (gs : List Group) (l : List Group) (c : Chain),
    (addAll dur gs c).2 = true → (specAddAll dur gs l c).length = l.length + gs.length := by
  intro gs
  induction gs with
  | nil => intro l c _; simp [specAddAll]
  | cons g t ih =>
    intro l c h
    by_cases hok : addCheck c (prepare dur g) = .ok
    · have e : addGroup c (prepare dur g) = (.ok, save c (prepare dur g)) := by simp [addGroup, hok]
      have : addAll dur (g :: t) c = addAll dur t (save c (prepare dur g)) := by
        simp [addAll, addGroupD, e]
      rw [this] at h
      have := ih (l ++ [stamped l.length (prepare dur g)]) _ h
      simp only [specAddAll, hok, if_true]
      rw [this]; simp; omega
    · exfalso
      have hr := addGroup_rejected hok
      have : (addAll dur (g :: t) c).2 = false := by
        simp only [addAll, addGroupD, hr]
      rw [this] at h; cases h

/-- Whatever is accepted, the part of the list that was there stays a prefix. -/
theorem specAddAll_prefix (dur : Nat) : ∀ (gs : List Group) (l : List Group) (c : Chain),
    l <+: specAddAll dur gs l c := by
  intro gs
  induction gs with
  | nil => intro l c; simp [specAddAll]
  | cons g t ih =>
    intro l c
    simp only [specAddAll]
    split
    · exact (List.prefix_append l _).trans (ih _ _)
    · exact List.prefix_refl l


theorem addCheck_ok_of {c : Chain} {g : Group} (h1 : shas c.disk g.id = false)
    (h2 : shas c.disk g.parent = true) (h3 : c.last.id = g.pre) : addCheck c g = .ok := by
  unfold addCheck
  simp [h1, h2, h3]

theorem shas_save (c : Chain) (g : Group) (k : Bytes) (hk : IdOK k) :
    shas (save c g).disk k = (decide (k = g.id) || shas c.disk k) := by
  unfold shas
  simp only [save]
  rw [sget_save]
  by_cases e : k = g.id
  · subst e; simp [hk.ne_cntKey, hk.ne_hkey, hk.ne_curKey]
  · simp [hk.ne_cntKey, hk.ne_hkey, hk.ne_curKey, e]

/-- A well-formed fork — ids proper, pairwise distinct and not stored, parents stored, predecessor
    links starting at the current last group — is adopted completely. -/
theorem addAll_wellformed (dur : Nat) : ∀ (gs : List Group) (l : List Group) (c : Chain), Rep l c →
    (∀ g ∈ gs, IdOK g.id ∧ IdOK g.parent) → (gs.map (·.id)).Nodup →
    (∀ g ∈ gs, shas c.disk g.id = false) → (∀ g ∈ gs, shas c.disk g.parent = true) →
    Linked c.last.id gs → l.length + gs.length < lenBound →
    (addAll dur gs c).2 = true ∧
      specAddAll dur gs l c = l ++ stampFrom l.length (gs.map (prepare dur)) := by
  intro gs
  induction gs with
  | nil => intro l c _ _ _ _ _ _ _; simp [addAll, specAddAll, stampFrom]
  | cons g t ih =>
    intro l c r hid hnd hfr hpar hlk hb
    have hok : addCheck c (prepare dur g) = .ok :=
      addCheck_ok_of (hfr g (by simp)) (hpar g (by simp)) hlk.1.symm
    have e : addGroup c (prepare dur g) = (.ok, save c (prepare dur g)) := by simp [addGroup, hok]
    have hadd : addAll dur (g :: t) c = addAll dur t (save c (prepare dur g)) := by
      simp [addAll, addGroupD, e]
    have ha := rep_add r (prepare dur g) (by simp at hb; omega) (hid g (by simp)).1 hok
    have hnd' : g.id ∉ t.map (·.id) ∧ (t.map (·.id)).Nodup := by
      have := hnd; simp only [List.map_cons] at this; exact List.nodup_cons.mp this
    have := ih (l ++ [stamped l.length (prepare dur g)]) (save c (prepare dur g)) ha.2
      (fun x hx => hid x (by simp [hx])) hnd'.2
      (by
        intro x hx
        rw [shas_save _ _ _ (hid x (by simp [hx])).1]
        have hne : x.id ≠ g.id := fun e => hnd'.1 (by rw [← e]; exact List.mem_map.mpr ⟨x, hx, rfl⟩)
        simp [prepare, hne, hfr x (by simp [hx])])
      (by
        intro x hx
        rw [shas_save _ _ _ (hid x (by simp [hx])).2]
        simp [hpar x (by simp [hx])])
      (by exact hlk.2)
      (by simp at hb ⊢; omega)
    rw [hadd]
    refine ⟨this.1, ?_⟩
    simp only [specAddAll, hok, if_true]
    rw [this.2]
    simp [stampFrom, List.append_assoc]


def minerFold (m : Bytes) (L : List (Option Group)) : Option (List Group) :=
  L.foldr (fun og acc =>
    match og, acc with
    | some g, some l => some (if m ∈ g.members then g :: l else l)
    | _, _ => none) (some [])

theorem minerFold_some (m : Bytes) : ∀ (L : List (Option Group)), (∀ og ∈ L, ∃ g, og = some g) →
    ∃ r, minerFold m L = some r ∧ ∀ g ∈ r, some g ∈ L ∧ m ∈ g.members := by
  intro L
  induction L with
  | nil => intro _; exact ⟨[], rfl, by simp⟩
  | cons a t ih =>
    intro h
    obtain ⟨g, rfl⟩ := h a (by simp)
    obtain ⟨r, e, hr⟩ := ih (fun og hog => h og (by simp [hog]))
    unfold minerFold at e ⊢
    simp only [List.foldr_cons, e]
    by_cases hm : m ∈ g.members
    · refine ⟨g :: r, by simp [hm], ?_⟩
      intro x hx
      simp only [List.mem_cons] at hx
      rcases hx with rfl | hx
      · exact ⟨by simp, hm⟩
      · exact ⟨by simp [(hr x hx).1], (hr x hx).2⟩
    · refine ⟨r, by simp [hm], ?_⟩
      intro x hx
      exact ⟨by simp [(hr x hx).1], (hr x hx).2⟩

theorem availableByMiner_eq (c : Chain) (h : Nat) (m : Bytes) :
    availableByMiner c h m = minerFold m (availableAt c h) := rfl

end Rangers.Model.GroupChain
