import Rangers.Model.Bls14Verify
import Rangers.Proofs.Bls14Bytes
import Rangers.Proofs.Bls14Field
/-!
Helper lemmas for C14: literal-width unfoldings of the (un)marshal functions.
-/
namespace Rangers.Proofs.Bls14
open Rangers Rangers.Model.Bls14

theorem g1Unmarshal_def (recv : G1Val) (m : Bytes) :
    g1Unmarshal recv m =
      if m.length < 64 then (recv, .short)
      else
        if (beToNat (m.take 32) % P == 0 && beToNat ((m.drop 32).take 32) % P == 0) = true then
          (.pt .inf, .ok (m.drop 64))
        else if onCurveXY (beToNat (m.take 32) % P) (beToNat ((m.drop 32).take 32) % P) = true then
          (.pt (.aff (beToNat (m.take 32) % P) (beToNat ((m.drop 32).take 32) % P)), .ok (m.drop 64))
        else
          (.pt (.aff (beToNat (m.take 32) % P) (beToNat ((m.drop 32).take 32) % P)), .malformed) := rfl

theorem g1Marshal_aff (x y : Nat) : g1Marshal (.aff x y) = beFixed 32 x ++ beFixed 32 y := rfl
theorem g1Marshal_inf : g1Marshal .inf = List.replicate 64 0 := rfl

theorem g1_marshal_length (q : Pt) : (g1Marshal q).length = 64 := by
  cases q with
  | inf => simp [g1Marshal_inf]
  | aff x y => simp [g1Marshal_aff, beFixed_length]

/-- `Signature.IsValid` on a non-nil value is the on-curve test (the serialisation is never empty). -/
theorem sig_isValid_pt (s : Pt) : Sig.isValid (.pt s) = if s.onCurve then .yes else .no := by
  simp [Sig.isValid, Sig.serialize, g1_marshal_length, g1IsValid]

/-- Splitting `a ++ b ++ rest` with `|a| = |b| = 32`. -/
theorem split64 (a b rest : Bytes) (la : a.length = 32) (lb : b.length = 32) :
    (a ++ b ++ rest).take 32 = a ∧ ((a ++ b ++ rest).drop 32).take 32 = b ∧
    (a ++ b ++ rest).drop 64 = rest ∧ ¬ (a ++ b ++ rest).length < 64 := by
  refine ⟨?_, ?_, ?_, by simp [la, lb]; omega⟩
  · rw [List.append_assoc, List.take_append_of_le_length (by omega), List.take_of_length_le (by omega)]
  · rw [List.append_assoc, List.drop_append_of_le_length (by omega),
      List.drop_of_length_le (by omega), List.nil_append,
      List.take_append_of_le_length (by omega), List.take_of_length_le (by omega)]
  · rw [List.drop_append_of_le_length (by simp [la, lb]), List.drop_of_length_le (by simp [la, lb])]
    simp

/-- The three outcomes of `G1.Unmarshal` on a fresh receiver. -/
theorem g1Unmarshal_nil_cases (b : Bytes) :
    (g1Unmarshal .nil b = (.nil, .short) ∧ b.length < 64) ∨
    (∃ q, g1Unmarshal .nil b = (.pt q, .ok (b.drop 64)) ∧ q.onCurve = true ∧ q.reduced = true) ∨
    (∃ x y, g1Unmarshal .nil b = (.pt (.aff x y), .malformed) ∧ onCurveXY x y = false ∧ x < P ∧ y < P) := by
  rw [g1Unmarshal_def]
  by_cases hl : b.length < 64
  · left; simp [hl]
  · right
    rw [if_neg hl]
    by_cases hz : (beToNat (b.take 32) % P == 0 && beToNat ((b.drop 32).take 32) % P == 0) = true
    · left; rw [if_pos hz]; exact ⟨.inf, rfl, rfl, rfl⟩
    · rw [if_neg hz]
      by_cases hc : onCurveXY (beToNat (b.take 32) % P) (beToNat ((b.drop 32).take 32) % P) = true
      · left; rw [if_pos hc]
        exact ⟨_, rfl, hc, by simp [Pt.reduced, Nat.mod_lt _ P_pos]⟩
      · right; rw [if_neg hc]
        exact ⟨_, _, rfl, by simpa using hc, Nat.mod_lt _ P_pos, Nat.mod_lt _ P_pos⟩

/-! ### G2 slices -/

theorem slice_zero (a m : Bytes) (la : a.length = 32) : slice (a ++ m) 0 = a := by
  unfold slice
  simp only [Nat.zero_mul, List.drop_zero]
  show (a ++ m).take 32 = a
  rw [List.take_append_of_le_length (by omega), List.take_of_length_le (by omega)]

theorem slice_succ (a m : Bytes) (i : Nat) (la : a.length = 32) : slice (a ++ m) (i + 1) = slice m i := by
  unfold slice
  show ((a ++ m).drop ((i + 1) * 32)).take 32 = (m.drop (i * 32)).take 32
  have : (i + 1) * 32 = a.length + i * 32 := by omega
  rw [this, List.drop_append, List.drop_of_length_le (by omega)]
  simp

theorem g2Unmarshal_def (recv : G2Val) (m : Bytes) :
    g2Unmarshal recv m =
      if m.length < 128 then ((match recv with | .nil => G2Val.pt .inf | r => r), .short)
      else
        if ((⟨beToNat (slice m 0) % P, beToNat (slice m 1) % P⟩ : F2).isZero &&
            (⟨beToNat (slice m 2) % P, beToNat (slice m 3) % P⟩ : F2).isZero) = true then
          (.pt .inf, .ok (m.drop 128))
        else if onTwistXY ⟨beToNat (slice m 0) % P, beToNat (slice m 1) % P⟩
            ⟨beToNat (slice m 2) % P, beToNat (slice m 3) % P⟩ = true then
          (.pt (.aff ⟨beToNat (slice m 0) % P, beToNat (slice m 1) % P⟩
            ⟨beToNat (slice m 2) % P, beToNat (slice m 3) % P⟩), .ok (m.drop 128))
        else
          (.pt (.aff ⟨beToNat (slice m 0) % P, beToNat (slice m 1) % P⟩
            ⟨beToNat (slice m 2) % P, beToNat (slice m 3) % P⟩), .malformed) := rfl

theorem g2Marshal_aff (x y : F2) :
    g2Marshal (.aff x y) = beFixed 32 x.x ++ (beFixed 32 x.y ++ (beFixed 32 y.x ++ (beFixed 32 y.y ++ []))) := by
  simp [g2Marshal, NB, Generated.Bls14.numBytes]

/-! ### negation -/

theorem neg_sq (y : Nat) (hy : y < P) : (fneg y) * (fneg y) % P = y * y % P := by
  unfold fneg
  rw [Nat.mod_eq_of_lt hy]
  by_cases h0 : y = 0
  · subst h0; simp
  · have hz : P - y < P := by omega
    rw [Nat.mod_eq_of_lt hz]
    have e1 : (P - y) * (P - y) + y * (P - y) = (P - y) * P := by
      have : (P - y) + y = P := by omega
      calc (P - y) * (P - y) + y * (P - y) = (P - y) * ((P - y) + y) := by
            rw [Nat.mul_add, Nat.mul_comm y]
        _ = (P - y) * P := by rw [this]
    have e2 : y * y + y * (P - y) = y * P := by
      have : y + (P - y) = P := by omega
      rw [← Nat.mul_add, this]
    have m1 : (P - y) * (P - y) + y * (P - y) ≡ y * y + y * (P - y) [MOD P] := by
      rw [e1, e2]
      exact (Nat.modEq_zero_iff_dvd.mpr (Dvd.intro_left _ rfl)).trans
        (Nat.modEq_zero_iff_dvd.mpr (Dvd.intro_left _ rfl)).symm
    exact Nat.ModEq.add_right_cancel' _ m1

end Rangers.Proofs.Bls14
