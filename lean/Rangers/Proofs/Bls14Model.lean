import Rangers.Model.Bls14Verify
import Rangers.Proofs.Bls14Bytes
import Rangers.Proofs.Bls14Field
/-!
Helper lemmas for C14: literal-width unfoldings of the (un)marshal functions.
-/
namespace Rangers.Proofs.Bls14
open Rangers Rangers.Model.Bls14

theorem g1Unmarshal_def (recv : G1Val) (m : Bytes) :
    g1Unmarshal recv m =
      if m.length < 64 then (recv, .short)
      else
        if (beToNat (m.take 32) % P == 0 && beToNat ((m.drop 32).take 32) % P == 0) = true then
          (.pt .inf, .ok (m.drop 64))
        else if onCurveXY (beToNat (m.take 32) % P) (beToNat ((m.drop 32).take 32) % P) = true then
          (.pt (.aff (beToNat (m.take 32) % P) (beToNat ((m.drop 32).take 32) % P)), .ok (m.drop 64))
        else
          (.pt (.aff (beToNat (m.take 32) % P) (beToNat ((m.drop 32).take 32) % P)), .malformed) := rfl

theorem g1Marshal_aff (x y : Nat) : g1Marshal (.aff x y) = beFixed 32 x ++ beFixed 32 y := rfl
theorem g1Marshal_inf : g1Marshal .inf = List.replicate 64 0 := rfl

theorem g1_marshal_length (q : Pt) : (g1Marshal q).length = 64 := by
  cases q with
  | inf => simp [g1Marshal_inf]
  | aff x y => simp [g1Marshal_aff, beFixed_length]

/-- `Signature.IsValid` on a non-nil value is the on-curve test (the serialisation is never empty). -/
theorem sig_isValid_pt (s : Pt) : Sig.isValid (.pt s) = if s.onCurve then .yes else .no := by
  simp [Sig.isValid, Sig.serialize, g1_marshal_length, g1IsValid]

/-- Splitting `a ++ b ++ rest` with `|a| = |b| = 32`. -/
theorem split64 (a b rest : Bytes) (la : a.length = 32) (lb : b.length = 32) :
    (a ++ b ++ rest).take 32 = a ∧ ((a ++ b ++ rest).drop 32).take 32 = b ∧
    (a ++ b ++ rest).drop 64 = rest ∧ ¬ (a ++ b ++ rest).length < 64 := by
  refine ⟨?_, ?_, ?_, by simp [la, lb]; omega⟩
  · rw [List.append_assoc, List.take_append_of_le_length (by omega), List.take_of_length_le (by omega)]
  · rw [List.append_assoc, List.drop_append_of_le_length (by omega),
      List.drop_of_length_le (by omega), List.nil_append,
      List.take_append_of_le_length (by omega), List.take_of_length_le (by omega)]
  · rw [List.drop_append_of_le_length (by simp [la, lb]), List.drop_of_length_le (by simp [la, lb])]
    simp

end Rangers.Proofs.Bls14
