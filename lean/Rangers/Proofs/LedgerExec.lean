import Rangers.Proofs.Ledger
/-! Invariants of the EVM frame skeleton `exec` (C06). -/
namespace Rangers.Ledger

/-- conserved quantity of the frame interpreter: live balances plus value burned by self-destruct-to-self -/
def mass (s : St) : Nat := total s.bal + s.burned

theorem mass_revertTo (snap after : St) : mass (revertTo snap after) = mass snap := rfl

theorem mass_suicide (s : St) (self ben : Addr) : mass (suicide s self ben) = mass s := by
  unfold suicide mass
  simp only
  have h1 := total_put (addBal s.bal ben ((get s.bal self : Nat) : Int)) self 0
  have h2 := total_addBal s.bal ben (get s.bal self)
  by_cases hb : ben = self
  · subst hb
    have h3 := get_addBal_same s.bal ben (get s.bal ben)
    simp only [if_true]
    omega
  · have h3 := get_addBal_other s.bal ben self ((get s.bal self : Nat) : Int) (fun e => hb e.symm)
    simp only [hb, if_false]
    omega

/-- a guarded transfer of a `Nat` amount leaves the mass unchanged -/
theorem mass_transfer (s : St) (src dst : Addr) (v : Nat)
    (h : (v != 0 && !canTransfer s.bal src v) = false) :
    mass { s with bal := vmTransfer s.bal src dst (v : Int) } = mass s := by
  unfold mass
  simp only
  by_cases hv : v = 0
  · subst hv; rw [show ((0 : Nat) : Int) = 0 from rfl, vmTransfer_zero]
  · have hc : canTransfer s.bal src (v : Int) = true := by
      have : (v != 0) = true := by simp [hv]
      rw [this] at h
      simpa using h
    rw [total_vmTransfer _ _ _ _ ((canTransfer_nat _ _ _).1 hc)]

theorem mass_transfer' (s : St) (src dst : Addr) (v : Nat)
    (h : (!canTransfer s.bal src v) = false) :
    mass { s with bal := vmTransfer s.bal src dst (v : Int) } = mass s := by
  apply mass_transfer
  simp only [Bool.and_eq_false_iff]; right; exact h

theorem exec_mass (code : Code) (origin : Addr) :
    ∀ (f : Nat) (self : Addr) (ro : Bool) (sc : Script) (s : St),
      mass (exec code origin f self ro sc s).1 = mass s := by
  intro f
  induction f with
  | zero => intro self ro sc s; simp [exec]
  | succ f ih =>
    intro self ro sc s
    induction sc generalizing s with
    | nil => simp [exec]
    | cons a rest ihr =>
      cases a with
      | stop => simp [exec]
      | revert => simp [exec]
      | invalid => simp [exec]
      | suicide ben =>
        simp only [exec]
        split
        · rfl
        · exact mass_suicide s self ben
      | call to v =>
        simp only [exec]
        split
        · rfl
        · rw [ih]
          split
          · rfl
          · rename_i hg
            split
            · rw [ih]; exact mass_transfer s self to v (by simpa using hg)
            · rw [mass_revertTo]
      | callcode to v =>
        simp only [exec]
        rw [ih]
        split
        · rfl
        · split
          · rw [ih]
          · rw [mass_revertTo]
      | delegatecall to =>
        simp only [exec]
        rw [ih]
        split
        · rw [ih]
        · rw [mass_revertTo]
      | staticcall to =>
        simp only [exec]
        rw [ih]
        split
        · rw [ih]
          unfold mass; simp only
          have := total_addBal s.bal to 0
          simpa using this
        · rw [mass_revertTo]
      | create v init =>
        simp only [exec]
        split
        · rfl
        · rw [ih]
          split
          · rfl
          · rename_i hg
            split
            · rw [ih]
              exact mass_transfer' { s with fresh := s.fresh + 1 } self (freshAddr s.fresh) v (by simpa using hg)
            · rw [mass_revertTo]; rfl
      | authcall to v =>
        simp only [exec]
        rw [ih]
        split
        · rfl
        · rename_i hg
          split
          · rw [ih]; exact mass_transfer s origin to v (by simpa using hg)
          · rw [mass_revertTo]

/-- the ghost burn counter never decreases over a frame (a reverted child restores the value at its entry) -/
theorem exec_burned_mono (code : Code) (origin : Addr) :
    ∀ (f : Nat) (self : Addr) (ro : Bool) (sc : Script) (s : St),
      s.burned ≤ (exec code origin f self ro sc s).1.burned := by
  intro f
  induction f with
  | zero => intro self ro sc s; simp [exec]
  | succ f ih =>
    intro self ro sc s
    cases sc with
    | nil => simp [exec]
    | cons a rest =>
      cases a with
      | stop => simp [exec]
      | revert => simp [exec]
      | invalid => simp [exec]
      | suicide ben =>
        simp only [exec]
        split
        · exact Nat.le_refl _
        · unfold suicide; simp only; omega
      | call to v =>
        simp only [exec]
        split
        · exact Nat.le_refl _
        · refine Nat.le_trans ?_ (ih _ _ _ _)
          split
          · exact Nat.le_refl _
          · split
            · exact ih _ _ _ { s with bal := vmTransfer s.bal self to v }
            · exact Nat.le_refl _
      | callcode to v =>
        simp only [exec]
        refine Nat.le_trans ?_ (ih _ _ _ _)
        split
        · exact Nat.le_refl _
        · split
          · exact ih _ _ _ s
          · exact Nat.le_refl _
      | delegatecall to =>
        simp only [exec]
        refine Nat.le_trans ?_ (ih _ _ _ _)
        split
        · exact ih _ _ _ s
        · exact Nat.le_refl _
      | staticcall to =>
        simp only [exec]
        refine Nat.le_trans ?_ (ih _ _ _ _)
        split
        · exact ih _ _ _ { s with bal := addBal s.bal to 0 }
        · exact Nat.le_refl _
      | create v init =>
        simp only [exec]
        split
        · exact Nat.le_refl _
        · refine Nat.le_trans ?_ (ih _ _ _ _)
          split
          · exact Nat.le_refl _
          · split
            · exact ih _ _ _ { ({ s with fresh := s.fresh + 1 } : St) with
                bal := vmTransfer s.bal self (freshAddr s.fresh) v }
            · exact Nat.le_refl _
      | authcall to v =>
        simp only [exec]
        refine Nat.le_trans ?_ (ih _ _ _ _)
        split
        · exact Nat.le_refl _
        · split
          · exact ih _ _ _ { s with bal := vmTransfer s.bal origin to v }
          · exact Nat.le_refl _

end Rangers.Ledger
