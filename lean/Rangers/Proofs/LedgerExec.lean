import Rangers.Proofs.Ledger
set_option linter.unusedSimpArgs false
/-! Invariants of the EVM frame skeleton `exec` (C06). -/
namespace Rangers.Ledger

/-- conserved quantity: live balances + value burned by self-destruct-to-self + stake held by the registry
    + escrowed refunds/rewards, minus the ghost counter of what UNSTAKE escrowed beyond the stake it removed -/
def mass (s : St) : Int :=
  (total s.bal : Int) + (s.burned : Int) + (stakeSum s.reg : Int) + (escrowTotal s.escrow : Int) - (s.excess : Int)

theorem mass_revertTo (snap after : St) : mass (revertTo snap after) = mass snap := rfl

theorem revertToJ_true (snap after : St) : revertToJ true snap after = revertTo snap after := rfl

theorem mass_suicide (s : St) (self ben : Addr) : mass (suicide s self ben) = mass s := by
  unfold suicide mass
  simp only
  have h1 := total_put (addBal s.bal ben ((get s.bal self : Nat) : Int)) self 0
  have h2 := total_addBal s.bal ben (get s.bal self)
  by_cases hb : ben = self
  · subst hb
    have h3 := get_addBal_same s.bal ben (get s.bal ben)
    simp only [if_true]
    omega
  · have h3 := get_addBal_other s.bal ben self ((get s.bal self : Nat) : Int) (fun e => hb e.symm)
    simp only [hb, if_false]
    omega

/-- a guarded transfer of a `Nat` amount leaves the mass unchanged -/
theorem mass_transfer (s : St) (src dst : Addr) (v : Nat)
    (h : (v != 0 && !canTransfer s.bal src v) = false) :
    mass { s with bal := vmTransfer s.bal src dst (v : Int) } = mass s := by
  unfold mass
  simp only
  by_cases hv : v = 0
  · subst hv; rw [show ((0 : Nat) : Int) = 0 from rfl, vmTransfer_zero]
  · have hc : canTransfer s.bal src (v : Int) = true := by
      have : (v != 0) = true := by simp [hv]
      rw [this] at h
      simpa using h
    rw [total_vmTransfer _ _ _ _ ((canTransfer_nat _ _ _).1 hc)]

theorem mass_transfer' (s : St) (src dst : Addr) (v : Nat)
    (h : (!canTransfer s.bal src v) = false) :
    mass { s with bal := vmTransfer s.bal src dst (v : Int) } = mass s := by
  apply mass_transfer
  simp only [Bool.and_eq_false_iff]; right; exact h

theorem mass_stake_update (s : St) (self : Addr) (m' : MinerRec) (t : Nat)
    (hg : regGet s.reg m'.id = some m') (hle : toWei t ≤ get s.bal self) :
    mass { s with bal := (subBal s.bal self (toWei t)).1, reg := regSet s.reg { m' with stake := m'.stake + t } } = mass s := by
  unfold mass
  simp only
  have h1 := (subBal_ok_of_le s.bal self (toWei t) hle).2.1
  have h2 := stakeSum_regSet s.reg m' { m' with stake := m'.stake + t } hg
  simp only at h2
  have h3 := toWei_add m'.stake t
  omega

theorem mass_opStake (s : St) (self : Addr) (v : Nat) : mass (opStake s self v) = mass s := by
  unfold opStake
  generalize v / wei = t
  simp only
  split
  · rfl
  · cases hb : byAccount s.reg self with
    | none => rfl
    | some m =>
      simp only
      split
      · rfl
      · split
        · rfl
        · rename_i hlt
          cases hg : regGet s.reg m.id with
          | none => rfl
          | some m' =>
            have hid := regGet_id s.reg m.id m' hg
            exact mass_stake_update s self m' t (by rw [hid]; exact hg) (by omega)
theorem mass_opUnStake (code : Code) (origin : Addr) (s : St) (self : Addr) (v : Nat) :
    mass (opUnStake code origin s self v) = mass s := by
  unfold opUnStake
  cases hb : byAccount s.reg self with
  | none => rfl
  | some m =>
    simp only
    cases hg : getRefundStake s.reg (hasCodeIn code) m.id self (if v / wei > uint64Max then uint64Max else v / wei) with
    | none => rfl
    | some p =>
      obtain ⟨r', refund, acct⟩ := p
      simp only
      have h1 := getRefundStake_sum _ _ _ _ _ _ _ _ hg
      unfold mass
      simp only
      by_cases c : v < toWei refund
      · simp only [c, if_true]
        rw [escrowTotal_append, escrowTotal_append, escrowTotal_single, escrowTotal_single]
        omega
      · simp only [c, if_false]
        rw [escrowTotal_append, escrowTotal_single]
        omega

theorem mass_opUnStakeAll (code : Code) (s : St) (self : Addr) (s1 : St) (h : opUnStakeAll code s self = some s1) :
    mass s1 = mass s := by
  unfold opUnStakeAll at h
  cases hb : byAccount s.reg self with
  | none => simp [hb] at h
  | some m =>
    simp only [hb] at h
    cases hg : getRefundStake s.reg (hasCodeIn code) m.id self uint64Max with
    | none => simp [hg] at h
    | some p =>
      obtain ⟨r', refund, acct⟩ := p
      simp only [hg, Option.some.injEq] at h
      subst h
      have h1 := getRefundStake_sum _ _ _ _ _ _ _ _ hg
      unfold mass
      simp only
      rw [escrowTotal_append, escrowTotal_single]
      omega

theorem exec_mass (code : Code) (origin : Addr) :
    ∀ (f : Nat) (self : Addr) (ro : Bool) (sc : Script) (s : St),
      mass (exec code origin true f self ro sc s).1 = mass s := by
  intro f
  induction f with
  | zero => intro self ro sc s; simp [exec]
  | succ f ih =>
    intro self ro sc s
    induction sc generalizing s with
    | nil => simp [exec]
    | cons a rest ihr =>
      cases a with
      | stop => simp [exec]
      | revert => simp [exec]
      | invalid => simp [exec]
      | suicide ben =>
        simp only [exec, revertToJ_true]
        split
        · rfl
        · exact mass_suicide s self ben
      | call to v =>
        simp only [exec, revertToJ_true]
        split
        · rfl
        · rw [ih]
          split
          · rfl
          · rename_i hg
            split
            · rw [ih]; exact mass_transfer s self to v (by simpa using hg)
            · rw [mass_revertTo]
      | callcode to v =>
        simp only [exec, revertToJ_true]
        rw [ih]
        split
        · rfl
        · split
          · rw [ih]
          · rw [mass_revertTo]
      | delegatecall to =>
        simp only [exec, revertToJ_true]
        rw [ih]
        split
        · rw [ih]
        · rw [mass_revertTo]
      | staticcall to =>
        simp only [exec, revertToJ_true]
        rw [ih]
        split
        · rw [ih]
          unfold mass; simp only
          have := total_addBal s.bal to 0
          have e : ((0 : Nat) : Int) = 0 := rfl
          rw [e] at this
          rw [this]; simp
        · rw [mass_revertTo]
      | create v init =>
        simp only [exec, revertToJ_true]
        split
        · rfl
        · rw [ih]
          split
          · rfl
          · rename_i hg
            split
            · rw [ih]
              exact mass_transfer' { s with fresh := s.fresh + 1 } self (freshAddr s.fresh) v (by simpa using hg)
            · rw [mass_revertTo]; rfl
      | authcall to v =>
        simp only [exec, revertToJ_true]
        split
        · rfl
        · rw [ih]
          split
          · rfl
          · rename_i hg
            split
            · rw [ih]; exact mass_transfer s origin to v (by simpa using hg)
            · rw [mass_revertTo]
      | stake v =>
        simp only [exec, revertToJ_true]
        split
        · rfl
        · rw [ih]; exact mass_opStake s self v
      | unstake v =>
        simp only [exec, revertToJ_true]
        split
        · rfl
        · rw [ih]; exact mass_opUnStake code origin s self v
      | unstakeAll =>
        simp only [exec, revertToJ_true]
        split
        · rfl
        · cases hu : opUnStakeAll code s self with
          | none => rfl
          | some s1 => simp only; rw [ih]; exact mass_opUnStakeAll code s self s1 hu

theorem burned_opStake (s : St) (self : Addr) (v : Nat) : (opStake s self v).burned = s.burned := by
  unfold opStake
  simp only
  split
  · rfl
  · cases byAccount s.reg self with
    | none => rfl
    | some m =>
      simp only
      split
      · rfl
      · split
        · rfl
        · cases regGet s.reg m.id <;> rfl

theorem burned_opUnStake (code : Code) (origin : Addr) (s : St) (self : Addr) (v : Nat) :
    (opUnStake code origin s self v).burned = s.burned := by
  unfold opUnStake
  cases byAccount s.reg self with
  | none => rfl
  | some m =>
    simp only
    cases getRefundStake s.reg (hasCodeIn code) m.id self (if v / wei > uint64Max then uint64Max else v / wei) with
    | none => rfl
    | some p => obtain ⟨r', refund, acct⟩ := p; rfl

theorem burned_opUnStakeAll (code : Code) (s : St) (self : Addr) (s1 : St) (h : opUnStakeAll code s self = some s1) :
    s1.burned = s.burned := by
  unfold opUnStakeAll at h
  cases hb : byAccount s.reg self with
  | none => simp [hb] at h
  | some m =>
    simp only [hb] at h
    cases hg : getRefundStake s.reg (hasCodeIn code) m.id self uint64Max with
    | none => simp [hg] at h
    | some p =>
      obtain ⟨r', refund, acct⟩ := p
      simp only [hg, Option.some.injEq] at h
      subst h; rfl

/-- the ghost burn counter never decreases over a frame (a reverted child restores the value at its entry) -/
theorem exec_burned_mono (code : Code) (origin : Addr) :
    ∀ (f : Nat) (self : Addr) (ro : Bool) (sc : Script) (s : St),
      s.burned ≤ (exec code origin true f self ro sc s).1.burned := by
  intro f
  induction f with
  | zero => intro self ro sc s; simp [exec]
  | succ f ih =>
    intro self ro sc s
    cases sc with
    | nil => simp [exec]
    | cons a rest =>
      cases a with
      | stop => simp [exec]
      | revert => simp [exec]
      | invalid => simp [exec]
      | suicide ben =>
        simp only [exec, revertToJ_true]
        split
        · exact Nat.le_refl _
        · unfold suicide; simp only; omega
      | call to v =>
        simp only [exec, revertToJ_true]
        split
        · exact Nat.le_refl _
        · refine Nat.le_trans ?_ (ih _ _ _ _)
          split
          · exact Nat.le_refl _
          · split
            · exact ih _ _ _ { s with bal := vmTransfer s.bal self to v }
            · exact Nat.le_refl _
      | callcode to v =>
        simp only [exec, revertToJ_true]
        refine Nat.le_trans ?_ (ih _ _ _ _)
        split
        · exact Nat.le_refl _
        · split
          · exact ih _ _ _ s
          · exact Nat.le_refl _
      | delegatecall to =>
        simp only [exec, revertToJ_true]
        refine Nat.le_trans ?_ (ih _ _ _ _)
        split
        · exact ih _ _ _ s
        · exact Nat.le_refl _
      | staticcall to =>
        simp only [exec, revertToJ_true]
        refine Nat.le_trans ?_ (ih _ _ _ _)
        split
        · exact ih _ _ _ { s with bal := addBal s.bal to 0 }
        · exact Nat.le_refl _
      | create v init =>
        simp only [exec, revertToJ_true]
        split
        · exact Nat.le_refl _
        · refine Nat.le_trans ?_ (ih _ _ _ _)
          split
          · exact Nat.le_refl _
          · split
            · exact ih _ _ _ { ({ s with fresh := s.fresh + 1 } : St) with
                bal := vmTransfer s.bal self (freshAddr s.fresh) v }
            · exact Nat.le_refl _
      | authcall to v =>
        simp only [exec, revertToJ_true]
        split
        · exact Nat.le_refl _
        · refine Nat.le_trans ?_ (ih _ _ _ _)
          split
          · exact Nat.le_refl _
          · split
            · exact ih _ _ _ { s with bal := vmTransfer s.bal origin to v }
            · exact Nat.le_refl _
      | stake v =>
        simp only [exec, revertToJ_true]
        split
        · exact Nat.le_refl _
        · refine Nat.le_trans ?_ (ih _ _ _ _)
          rw [burned_opStake]; exact Nat.le_refl _
      | unstake v =>
        simp only [exec, revertToJ_true]
        split
        · exact Nat.le_refl _
        · refine Nat.le_trans ?_ (ih _ _ _ _)
          rw [burned_opUnStake]; exact Nat.le_refl _
      | unstakeAll =>
        simp only [exec, revertToJ_true]
        split
        · exact Nat.le_refl _
        · cases hu : opUnStakeAll code s self with
          | none => exact Nat.le_refl _
          | some s1 =>
            simp only
            refine Nat.le_trans ?_ (ih _ _ _ _)
            rw [burned_opUnStakeAll code s self s1 hu]; exact Nat.le_refl _

/-! ### the sum of balances never grows inside the EVM -/

theorem total_suicide_le (s : St) (self ben : Addr) : total (suicide s self ben).bal ≤ total s.bal := by
  have h := mass_suicide s self ben
  have hb : s.burned ≤ (suicide s self ben).burned := by unfold suicide; simp only; omega
  have e1 : (suicide s self ben).reg = s.reg := rfl
  have e2 : (suicide s self ben).escrow = s.escrow := rfl
  have e3 : (suicide s self ben).excess = s.excess := rfl
  unfold mass at h
  rw [e1, e2, e3] at h
  omega

theorem total_transfer_eq (s : St) (src dst : Addr) (v : Nat)
    (h : (v != 0 && !canTransfer s.bal src v) = false) :
    total (vmTransfer s.bal src dst (v : Int)) = total s.bal := by
  have hm := mass_transfer s src dst v h
  unfold mass at hm
  simp only at hm
  omega

theorem total_opStake_le (s : St) (self : Addr) (v : Nat) : total (opStake s self v).bal ≤ total s.bal := by
  unfold opStake
  generalize v / wei = t
  simp only
  split
  · exact Nat.le_refl _
  · cases byAccount s.reg self with
    | none => exact Nat.le_refl _
    | some m =>
      simp only
      split
      · exact Nat.le_refl _
      · split
        · exact Nat.le_refl _
        · cases regGet s.reg m.id with
          | none => exact Nat.le_refl _
          | some m' => simp only; exact total_subBal_le s.bal self (toWei t)

theorem bal_opUnStake (code : Code) (origin : Addr) (s : St) (self : Addr) (v : Nat) :
    (opUnStake code origin s self v).bal = s.bal := by
  unfold opUnStake
  cases byAccount s.reg self with
  | none => rfl
  | some m =>
    simp only
    cases getRefundStake s.reg (hasCodeIn code) m.id self (if v / wei > uint64Max then uint64Max else v / wei) with
    | none => rfl
    | some p => obtain ⟨r', refund, acct⟩ := p; rfl

theorem bal_opUnStakeAll (code : Code) (s : St) (self : Addr) (s1 : St) (h : opUnStakeAll code s self = some s1) :
    s1.bal = s.bal := by
  unfold opUnStakeAll at h
  cases hb : byAccount s.reg self with
  | none => simp [hb] at h
  | some m =>
    simp only [hb] at h
    cases hg : getRefundStake s.reg (hasCodeIn code) m.id self uint64Max with
    | none => simp [hg] at h
    | some p =>
      obtain ⟨r', refund, acct⟩ := p
      simp only [hg, Option.some.injEq] at h
      subst h; rfl

theorem exec_total_le (code : Code) (origin : Addr) :
    ∀ (f : Nat) (self : Addr) (ro : Bool) (sc : Script) (s : St),
      total (exec code origin true f self ro sc s).1.bal ≤ total s.bal := by
  intro f
  induction f with
  | zero => intro self ro sc s; simp [exec]
  | succ f ih =>
    intro self ro sc s
    cases sc with
    | nil => simp [exec]
    | cons a rest =>
      cases a with
      | stop => simp [exec]
      | revert => simp [exec]
      | invalid => simp [exec]
      | suicide ben =>
        simp only [exec, revertToJ_true]
        split
        · exact Nat.le_refl _
        · exact total_suicide_le s self ben
      | call to v =>
        simp only [exec, revertToJ_true]
        split
        · exact Nat.le_refl _
        · refine Nat.le_trans (ih _ _ _ _) ?_
          split
          · exact Nat.le_refl _
          · rename_i hg
            split
            · refine Nat.le_trans (ih _ _ _ _) ?_
              simp only
              rw [total_transfer_eq s self to v (by simpa using hg)]; exact Nat.le_refl _
            · exact Nat.le_refl _
      | callcode to v =>
        simp only [exec, revertToJ_true]
        refine Nat.le_trans (ih _ _ _ _) ?_
        split
        · exact Nat.le_refl _
        · split
          · exact ih _ _ _ s
          · exact Nat.le_refl _
      | delegatecall to =>
        simp only [exec, revertToJ_true]
        refine Nat.le_trans (ih _ _ _ _) ?_
        split
        · exact ih _ _ _ s
        · exact Nat.le_refl _
      | staticcall to =>
        simp only [exec, revertToJ_true]
        refine Nat.le_trans (ih _ _ _ _) ?_
        split
        · refine Nat.le_trans (ih _ _ _ _) ?_
          simp only
          have := total_addBal s.bal to 0
          have e : ((0 : Nat) : Int) = 0 := rfl
          rw [e] at this
          rw [this]; exact Nat.le_refl _
        · exact Nat.le_refl _
      | create v init =>
        simp only [exec, revertToJ_true]
        split
        · exact Nat.le_refl _
        · refine Nat.le_trans (ih _ _ _ _) ?_
          split
          · exact Nat.le_refl _
          · rename_i hg
            split
            · refine Nat.le_trans (ih _ _ _ _) ?_
              simp only
              have hc : (v != 0 && !canTransfer s.bal self v) = false := by
                simp only [Bool.and_eq_false_iff]; right; simpa using hg
              rw [total_transfer_eq s self (freshAddr s.fresh) v hc]; exact Nat.le_refl _
            · exact Nat.le_refl _
      | authcall to v =>
        simp only [exec, revertToJ_true]
        split
        · exact Nat.le_refl _
        · refine Nat.le_trans (ih _ _ _ _) ?_
          split
          · exact Nat.le_refl _
          · rename_i hg
            split
            · refine Nat.le_trans (ih _ _ _ _) ?_
              simp only
              rw [total_transfer_eq s origin to v (by simpa using hg)]; exact Nat.le_refl _
            · exact Nat.le_refl _
      | stake v =>
        simp only [exec, revertToJ_true]
        split
        · exact Nat.le_refl _
        · exact Nat.le_trans (ih _ _ _ _) (total_opStake_le s self v)
      | unstake v =>
        simp only [exec, revertToJ_true]
        split
        · exact Nat.le_refl _
        · refine Nat.le_trans (ih _ _ _ _) ?_
          rw [bal_opUnStake]; exact Nat.le_refl _
      | unstakeAll =>
        simp only [exec, revertToJ_true]
        split
        · exact Nat.le_refl _
        · cases hu : opUnStakeAll code s self with
          | none => exact Nat.le_refl _
          | some s1 =>
            simp only
            refine Nat.le_trans (ih _ _ _ _) ?_
            rw [bal_opUnStakeAll code s self s1 hu]; exact Nat.le_refl _

end Rangers.Ledger
