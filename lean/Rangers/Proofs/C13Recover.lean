import Mathlib.Algebra.Module.Basic
import Rangers.Proofs.C13Lagrange
/-! `recoverSignature` on shares of a polynomial of degree `< k` returns `f(0)•h`, for every
    `ZMod r`-module; the selection logic of `RecoverGroupSignature` only ever feeds it such shares. -/
namespace Rangers.Proofs.C13
open Polynomial Finset Rangers.Model.Shamir

variable {r : Nat} {G : Type} [AddCommGroup G] [Module (ZMod r) G]

/-- What is assumed of the point operations: they are the operations of a `ZMod r`-module
    (`bn256.G1` with `Add`/`ScalarMult`; sampled by the harness, not proved). -/
structure LawfulOps (r : Nat) {G : Type} [AddCommGroup G] [Module (ZMod r) G] (ops : Ops G) : Prop where
  add_eq : ∀ a b, ops.add a b = a + b
  mul_eq : ∀ (g : G) (k : Nat), ops.mul g k = (k : ZMod r) • g

theorem accumulate_some (ops : Ops G) (hops : LawfulOps r ops) :
    ∀ (ds : List Nat) (ss : List G) (a : G),
      accumulate ops (some a) ds ss = some (a + (List.zipWith (fun (d : Nat) (s : G) => (d : ZMod r) • s) ds ss).sum) := by
  intro ds
  induction ds with
  | nil => intro ss a; simp [accumulate]
  | cons d ds ih =>
    intro ss a
    cases ss with
    | nil => simp [accumulate]
    | cons s ss =>
      simp only [accumulate, List.zipWith_cons_cons, List.sum_cons]
      rw [ih, hops.add_eq, hops.mul_eq, add_assoc]

theorem accumulate_none (ops : Ops G) (hops : LawfulOps r ops) (d : Nat) (ds : List Nat) (s : G) (ss : List G) :
    accumulate ops none (d :: ds) (s :: ss) =
      some ((List.zipWith (fun (d : Nat) (s : G) => (d : ZMod r) • s) (d :: ds) (s :: ss)).sum) := by
  simp only [accumulate, List.zipWith_cons_cons, List.sum_cons]
  rw [accumulate_some ops hops, hops.mul_eq]

theorem sum_map_range {M : Type} [AddCommMonoid M] (g : Nat → M) (n : Nat) :
    ((List.range n).map g).sum = ∑ t ∈ range n, g t := by
  induction n with
  | zero => simp
  | succ n ih => rw [List.range_succ, List.map_append, List.sum_append, ih, sum_range_succ]; simp

theorem list_eq_map_range {α : Type} (l : List α) (d : α) :
    l = (List.range l.length).map (fun t => l.getD t d) := by
  apply List.ext_getElem
  · simp
  · intro i h1 h2
    simp [List.getD, List.getElem?_eq_getElem h1]

omit [AddCommGroup G] in
theorem zipWith_sum_range {M : Type} [AddCommMonoid M] (f : Nat → G → M) (ds : List Nat) (ss : List G)
    (hl : ds.length = ss.length) (d0 : G) :
    (List.zipWith f ds ss).sum = ∑ t ∈ range ss.length, f (ds.getD t 0) (ss.getD t d0) := by
  conv_lhs => rw [list_eq_map_range ds 0, list_eq_map_range ss d0, hl]
  rw [List.zipWith_map, List.zipWith_self, ← sum_map_range]

/-- Core of `recover_any_subset`: shares of a polynomial of degree `< k` at `k` ids that are
    pairwise distinct mod `r` recover `f(0)•h`. -/
theorem recoverWith_poly [Fact r.Prime] (ops : Ops G) (hops : LawfulOps r ops)
    (ids : List Nat) (hne : ids ≠ []) (hd : IdsDistinct r ids)
    (f : (ZMod r)[X]) (hdeg : f.degree < ids.length)
    (sh : List Nat) (hlen : sh.length = ids.length)
    (hsh : ∀ t < ids.length, ((sh.getD t 0 : Nat) : ZMod r) = f.eval (pt r ids t)) (h : G) :
    recoverWith ops r ids (sh.map (ops.mul h)) = .ok (some (f.eval 0 • h)) := by
  have hn : NeZero r := ⟨(Fact.out : r.Prime).ne_zero⟩
  unfold recoverWith
  simp only [List.length_map, hlen, Nat.lt_irrefl, if_false, List.take_length]
  congr 1
  have hcl := lagrangeCoeffs_length (r := r) ids
  -- non-empty lists on both sides
  obtain ⟨x, xs, rfl⟩ := List.exists_cons_of_ne_nil hne
  cases hco : lagrangeCoeffs r (x :: xs) with
  | nil => rw [hco] at hcl; simp at hcl
  | cons d ds =>
    cases sh with
    | nil => simp at hlen
    | cons s ss =>
      rw [List.map_cons, accumulate_none ops hops, ← List.map_cons, ← hco]
      congr 1
      rw [zipWith_sum_range _ _ _ (by rw [List.length_map, hcl, hlen]) 0]
      simp only [List.length_map, hlen]
      -- rewrite every term as (basis_t(0) * f(x_t)) • h
      have hterm : ∀ t ∈ range (x :: xs).length,
          (((lagrangeCoeffs r (x :: xs)).getD t 0 : Nat) : ZMod r) • (((s :: ss).map (ops.mul h)).getD t 0) =
            (((Lagrange.basis (range (x :: xs).length) (pt r (x :: xs)) t).eval 0) * f.eval (pt r (x :: xs) t)) • h := by
        intro t ht
        have ht' : t < (x :: xs).length := by simpa using ht
        rw [lagrangeCoeffs_eq_basis (x :: xs) hd t ht', mul_smul]
        congr 1
        have htl : t < (s :: ss).length := by rw [hlen]; exact ht'
        have : ((s :: ss).map (ops.mul h)).getD t 0 = ops.mul h ((s :: ss).getD t 0) := by
          rw [List.getD, List.getD, List.getElem?_map, List.getElem?_eq_getElem htl]
          simp
        rw [this, hops.mul_eq, hsh t ht']
      rw [sum_congr rfl hterm, ← sum_smul]
      congr 1
      -- Lagrange interpolation at 0
      have hinj := pt_injOn (x :: xs) hd
      have hcard : f.degree < ((range (x :: xs).length).card : WithBot Nat) := by simpa using hdeg
      have hf := Lagrange.eq_interpolate_of_eval_eq (s := range (x :: xs).length) (v := pt r (x :: xs))
        (fun t => f.eval (pt r (x :: xs) t)) hinj hcard (fun _ _ => rfl)
      conv_rhs => rw [hf]
      rw [Lagrange.interpolate_apply, eval_finsetSum]
      apply sum_congr rfl
      intro t _
      simp [mul_comm]

end Rangers.Proofs.C13
