import Mathlib.Tactic.LinearCombination
import Mathlib.Tactic.FieldSimp
import Mathlib.Tactic.Ring
import Mathlib.Algebra.Field.Basic
/-!
The twisted Edwards addition law (a = −1) over an arbitrary field, as field identities.
These are the algebraic facts behind the hypothesis `Lawful` of the C16 theorems.
-/
namespace Rangers.Proofs.C16Curve

variable {F : Type} [Field F]

/-- −x² + y² = 1 + d·x²·y² -/
def OnCurve (d x y : F) : Prop := -x ^ 2 + y ^ 2 = 1 + d * x ^ 2 * y ^ 2

/-- affine addition law, x coordinate -/
def addX (d x1 y1 x2 y2 : F) : F := (x1 * y2 + x2 * y1) / (1 + d * x1 * x2 * y1 * y2)
/-- affine addition law, y coordinate -/
def addY (d x1 y1 x2 y2 : F) : F := (y1 * y2 + x1 * x2) / (1 - d * x1 * x2 * y1 * y2)

theorem addX_comm (d x1 y1 x2 y2 : F) : addX d x1 y1 x2 y2 = addX d x2 y2 x1 y1 := by
  unfold addX; congr 1 <;> ring

theorem addY_comm (d x1 y1 x2 y2 : F) : addY d x1 y1 x2 y2 = addY d x2 y2 x1 y1 := by
  unfold addY; congr 1 <;> ring

theorem zero_onCurve (d : F) : OnCurve d 0 1 := by unfold OnCurve; ring

theorem add_zero_right (d x y : F) : addX d x y 0 1 = x ∧ addY d x y 0 1 = y := by
  unfold addX addY; constructor <;> simp

theorem neg_onCurve (d x y : F) (h : OnCurve d x y) : OnCurve d (-x) y := by
  unfold OnCurve at *; linear_combination h

/-- P + (−P) = (0, 1) -/
theorem add_neg_self (d x y : F) (h : OnCurve d x y) (hD : 1 + d * x ^ 2 * y ^ 2 ≠ 0) :
    addX d x y (-x) y = 0 ∧ addY d x y (-x) y = 1 := by
  unfold addX addY OnCurve at *
  constructor
  · have : x * y + -x * y = 0 := by ring
    rw [this, zero_div]
  · have hden : 1 - d * x * -x * y * y = 1 + d * x ^ 2 * y ^ 2 := by ring
    rw [hden, div_eq_one_iff_eq hD]
    linear_combination h

/-- closure, cleared of denominators -/
theorem add_closed_poly (d x1 y1 x2 y2 : F) (h1 : OnCurve d x1 y1) (h2 : OnCurve d x2 y2) :
    -(x1 * y2 + x2 * y1) ^ 2 * (1 - d * x1 * x2 * y1 * y2) ^ 2
      + (y1 * y2 + x1 * x2) ^ 2 * (1 + d * x1 * x2 * y1 * y2) ^ 2
      - (1 + d * x1 * x2 * y1 * y2) ^ 2 * (1 - d * x1 * x2 * y1 * y2) ^ 2
      - d * (x1 * y2 + x2 * y1) ^ 2 * (y1 * y2 + x1 * x2) ^ 2 = 0 := by
  unfold OnCurve at h1 h2
  linear_combination
    (d^3*x1^2*x2^4*y1^2*y2^4 - d^2*x1^2*x2^4*y2^4 + d^2*x2^4*y1^2*y2^4 - d^2*x2^4*y2^4 - d*x1^2*x2^4*y2^2
      + d*x1^2*x2^2*y2^4 + d*x2^4*y1^2*y2^2 - 2*d*x2^4*y2^4 - d*x2^2*y1^2*y2^4 - 2*d*x2^2*y2^2 - 2*x2^4*y2^2
      + x2^4 + 2*x2^2*y2^4 - 4*x2^2*y2^2 + y2^4) * h1
    + (d*x1^4*x2^2*y2^2 + 2*d*x1^2*x2^2*y2^2 + d*x2^2*y1^4*y2^2 - 2*d*x2^2*y1^2*y2^2 + d*x2^2*y2^2
      + 2*x1^2*x2^2*y2^2 - x1^2*x2^2 + x1^2*y2^2 - 2*x2^2*y1^2*y2^2 + x2^2*y1^2 + 2*x2^2*y2^2 - x2^2
      - y1^2*y2^2 + y2^2 + 1) * h2

theorem closed_aux (A B D1 D2 d : F) (h1 : D1 ≠ 0) (h2 : D2 ≠ 0)
    (hp : -A ^ 2 * D2 ^ 2 + B ^ 2 * D1 ^ 2 - D1 ^ 2 * D2 ^ 2 - d * A ^ 2 * B ^ 2 = 0) :
    -(A / D1) ^ 2 + (B / D2) ^ 2 = 1 + d * (A / D1) ^ 2 * (B / D2) ^ 2 := by
  field_simp
  linear_combination hp

/-- Closure: the sum of two curve points is on the curve (denominators non-zero). -/
theorem add_closed (d x1 y1 x2 y2 : F) (h1 : OnCurve d x1 y1) (h2 : OnCurve d x2 y2)
    (hD1 : 1 + d * x1 * x2 * y1 * y2 ≠ 0) (hD2 : 1 - d * x1 * x2 * y1 * y2 ≠ 0) :
    OnCurve d (addX d x1 y1 x2 y2) (addY d x1 y1 x2 y2) :=
  closed_aux _ _ _ _ d hD1 hD2 (add_closed_poly d x1 y1 x2 y2 h1 h2)

/-- The dedicated doubling formula (`ProjectiveGroupElement.Double`: 2xy/(y²−x²),
    (y²+x²)/(2−(y²−x²))) agrees with `P + P` on curve points. -/
theorem dbl_eq_add (d x y : F) (h : OnCurve d x y) :
    (2 * x * y) / (y ^ 2 - x ^ 2) = addX d x y x y ∧
    (y ^ 2 + x ^ 2) / (2 - (y ^ 2 - x ^ 2)) = addY d x y x y := by
  unfold OnCurve at h
  unfold addX addY
  constructor
  · congr 1
    · ring
    · linear_combination h
  · congr 1
    · ring
    · linear_combination -h


/-! ### associativity -/

/-- numerators / denominators of (P1 + P2) + P3 and P1 + (P2 + P3), cleared of inner denominators -/
def nLx (d x1 y1 x2 y2 x3 y3 : F) : F :=
  (x1*y2+x2*y1)*(1-d*x1*x2*y1*y2)*y3 + x3*(y1*y2+x1*x2)*(1+d*x1*x2*y1*y2)
def dLx (d x1 y1 x2 y2 x3 y3 : F) : F :=
  (1+d*x1*x2*y1*y2)*(1-d*x1*x2*y1*y2) + d*(x1*y2+x2*y1)*(y1*y2+x1*x2)*x3*y3
def nLy (d x1 y1 x2 y2 x3 y3 : F) : F :=
  (y1*y2+x1*x2)*(1+d*x1*x2*y1*y2)*y3 + (x1*y2+x2*y1)*(1-d*x1*x2*y1*y2)*x3
def dLy (d x1 y1 x2 y2 x3 y3 : F) : F :=
  (1+d*x1*x2*y1*y2)*(1-d*x1*x2*y1*y2) - d*(x1*y2+x2*y1)*(y1*y2+x1*x2)*x3*y3
def nRx (d x1 y1 x2 y2 x3 y3 : F) : F :=
  x1*(y2*y3+x2*x3)*(1+d*x2*x3*y2*y3) + (x2*y3+x3*y2)*(1-d*x2*x3*y2*y3)*y1
def dRx (d x1 y1 x2 y2 x3 y3 : F) : F :=
  (1+d*x2*x3*y2*y3)*(1-d*x2*x3*y2*y3) + d*x1*y1*(x2*y3+x3*y2)*(y2*y3+x2*x3)
def nRy (d x1 y1 x2 y2 x3 y3 : F) : F :=
  y1*(y2*y3+x2*x3)*(1+d*x2*x3*y2*y3) + x1*(x2*y3+x3*y2)*(1-d*x2*x3*y2*y3)
def dRy (d x1 y1 x2 y2 x3 y3 : F) : F :=
  (1+d*x2*x3*y2*y3)*(1-d*x2*x3*y2*y3) - d*x1*y1*(x2*y3+x3*y2)*(y2*y3+x2*x3)

/-- Associativity of the x coordinate, cross-multiplied (certificate found with sympy,
    checked here by `ring` through `linear_combination`). -/
theorem assoc_poly_x (d x1 y1 x2 y2 x3 y3 : F) (h1 : OnCurve d x1 y1) (h2 : OnCurve d x2 y2)
    (h3 : OnCurve d x3 y3) :
    nLx d x1 y1 x2 y2 x3 y3 * dRx d x1 y1 x2 y2 x3 y3 =
      nRx d x1 y1 x2 y2 x3 y3 * dLx d x1 y1 x2 y2 x3 y3 := by
  unfold OnCurve at h1 h2 h3
  unfold nLx dLx nRx dRx
  linear_combination
    (-d^2*x1*x2^4*x3^2*y2^3*y3 - d^2*x1*x2^3*x3*y2^4*y3^2 + d^2*x2^4*x3*y1*y2^3*y3^2 + d^2*x2^3*x3^2*y1*y2^4*y3
      - d*x1*x2^4*x3^2*y2*y3 - d*x1*x2^3*x3^3*y2^2 - d*x1*x2^3*x3*y2^2 + d*x1*x2^2*y2^3*y3^3 - d*x1*x2^2*y2^3*y3
      + d*x1*x2*x3*y2^4*y3^2 + d*x2^4*x3*y1*y2*y3^2 + d*x2^3*y1*y2^2*y3^3 - d*x2^3*y1*y2^2*y3 - d*x2^2*x3^3*y1*y2^3
      - d*x2^2*x3*y1*y2^3 - d*x2*x3^2*y1*y2^4*y3) * h1
    + (d^2*x1^2*x2^2*x3^3*y1*y2*y3^2 - d^2*x1^2*x2*x3^2*y1*y2^2*y3^3 - d^2*x1*x2^2*x3^2*y1^2*y2*y3^3 + d^2*x1*x2*x3^3*y1^2*y2^2*y3^2
      + d*x1^3*x2^2*x3^2*y2*y3 + d*x1^3*x2*x3^3*y3^2 + d*x1^3*x2*x3*y2^2*y3^2 + d*x1^3*x3^2*y2*y3^3 - d*x1^2*x2^2*x3*y1*y2*y3^2
      - d*x1^2*x2*x3^2*y1*y2^2*y3 + d*x1^2*x2*x3^2*y1*y3^3 + d*x1^2*x3^3*y1*y2*y3^2 - d*x1*x2^2*x3^2*y1^2*y2*y3
      + d*x1*x2^2*x3^2*y2*y3 - d*x1*x2*x3^3*y1^2*y3^2 + d*x1*x2*x3^3*y3^2 - d*x1*x2*x3*y1^2*y2^2*y3^2
      + d*x1*x2*x3*y2^2*y3^2 - d*x1*x3^2*y1^2*y2*y3^3 + d*x1*x3^2*y2*y3^3 + d*x2^2*x3*y1^3*y2*y3^2 - d*x2^2*x3*y1*y2*y3^2
      + d*x2*x3^2*y1^3*y2^2*y3 - d*x2*x3^2*y1^3*y3^3 - d*x2*x3^2*y1*y2^2*y3 + d*x2*x3^2*y1*y3^3 - d*x3^3*y1^3*y2*y3^2
      + d*x3^3*y1*y2*y3^2 + x1^3*x2*x3^3 - x1^3*x2*x3*y3^2 + x1^3*x2*x3 + x1^3*x3^2*y2*y3 - x1^3*y2*y3^3
      + x1^3*y2*y3 + x1^2*x2*x3^2*y1*y3 - x1^2*x2*y1*y3^3 + x1^2*x2*y1*y3 + x1^2*x3^3*y1*y2 - x1^2*x3*y1*y2*y3^2
      + x1^2*x3*y1*y2 - x1*x2*x3^3*y1^2 + x1*x2*x3^3 + x1*x2*x3*y1^2*y3^2 - x1*x2*x3*y1^2 - x1*x2*x3*y3^2
      + x1*x2*x3 - x1*x3^2*y1^2*y2*y3 + x1*x3^2*y2*y3 + x1*y1^2*y2*y3^3 - x1*y1^2*y2*y3 - x1*y2*y3^3 + x1*y2*y3
      - x2*x3^2*y1^3*y3 + x2*x3^2*y1*y3 + x2*y1^3*y3^3 - x2*y1^3*y3 - x2*y1*y3^3 + x2*y1*y3 - x3^3*y1^3*y2
      + x3^3*y1*y2 + x3*y1^3*y2*y3^2 - x3*y1^3*y2 - x3*y1*y2*y3^2 + x3*y1*y2) * h2
    + (-x1^3*x2^3*x3 - x1^3*x2^2*y2*y3 + x1^3*x2*x3*y2^2 - x1^3*x2*x3 + x1^3*y2^3*y3 - x1^3*y2*y3 - x1^2*x2^3*y1*y3
      + x1^2*x2^2*x3*y1*y2*(-d - 1) + x1^2*x2*y1*y2^2*y3*(d + 1) - x1^2*x2*y1*y3 + x1^2*x3*y1*y2^3 - x1^2*x3*y1*y2
      + x1*x2^3*x3*y1^2 - x1*x2^3*x3 + x1*x2^2*y1^2*y2*y3*(d + 1) - x1*x2^2*y2*y3 + x1*x2*x3*y1^2*y2^2*(-d
      - 1) + x1*x2*x3*y1^2 + x1*x2*x3*y2^2 - x1*x2*x3 - x1*y1^2*y2^3*y3 + x1*y1^2*y2*y3 + x1*y2^3*y3 - x1*y2*y3
      + x2^3*y1^3*y3 - x2^3*y1*y3 + x2^2*x3*y1^3*y2 - x2^2*x3*y1*y2 - x2*y1^3*y2^2*y3 + x2*y1^3*y3 + x2*y1*y2^2*y3
      - x2*y1*y3 - x3*y1^3*y2^3 + x3*y1^3*y2 + x3*y1*y2^3 - x3*y1*y2) * h3

/-- Associativity of the y coordinate, cross-multiplied (certificate found with sympy,
    checked here by `ring` through `linear_combination`). -/
theorem assoc_poly_y (d x1 y1 x2 y2 x3 y3 : F) (h1 : OnCurve d x1 y1) (h2 : OnCurve d x2 y2)
    (h3 : OnCurve d x3 y3) :
    nLy d x1 y1 x2 y2 x3 y3 * dRy d x1 y1 x2 y2 x3 y3 =
      nRy d x1 y1 x2 y2 x3 y3 * dLy d x1 y1 x2 y2 x3 y3 := by
  unfold OnCurve at h1 h2 h3
  unfold nLy dLy nRy dRy
  linear_combination
    (d^2*x1*x2^4*x3*y2^3*y3^2 + d^2*x1*x2^3*x3^2*y2^4*y3 - d^2*x2^4*x3^2*y1*y2^3*y3 - d^2*x2^3*x3*y1*y2^4*y3^2
      + d*x1*x2^4*x3*y2*y3^2 + d*x1*x2^3*y2^2*y3^3 - d*x1*x2^3*y2^2*y3 - d*x1*x2^2*x3^3*y2^3 - d*x1*x2^2*x3*y2^3
      - d*x1*x2*x3^2*y2^4*y3 - d*x2^4*x3^2*y1*y2*y3 - d*x2^3*x3^3*y1*y2^2 - d*x2^3*x3*y1*y2^2 + d*x2^2*y1*y2^3*y3^3
      - d*x2^2*y1*y2^3*y3 + d*x2*x3*y1*y2^4*y3^2) * h1
    + (d^2*x1^2*x2^2*x3^2*y1*y2*y3^3 - d^2*x1^2*x2*x3^3*y1*y2^2*y3^2 - d^2*x1*x2^2*x3^3*y1^2*y2*y3^2 + d^2*x1*x2*x3^2*y1^2*y2^2*y3^3
      - d*x1^3*x2^2*x3*y2*y3^2 - d*x1^3*x2*x3^2*y2^2*y3 + d*x1^3*x2*x3^2*y3^3 + d*x1^3*x3^3*y2*y3^2 + d*x1^2*x2^2*x3^2*y1*y2*y3
      + d*x1^2*x2*x3^3*y1*y3^2 + d*x1^2*x2*x3*y1*y2^2*y3^2 + d*x1^2*x3^2*y1*y2*y3^3 + d*x1*x2^2*x3*y1^2*y2*y3^2
      - d*x1*x2^2*x3*y2*y3^2 + d*x1*x2*x3^2*y1^2*y2^2*y3 - d*x1*x2*x3^2*y1^2*y3^3 - d*x1*x2*x3^2*y2^2*y3
      + d*x1*x2*x3^2*y3^3 - d*x1*x3^3*y1^2*y2*y3^2 + d*x1*x3^3*y2*y3^2 - d*x2^2*x3^2*y1^3*y2*y3 + d*x2^2*x3^2*y1*y2*y3
      - d*x2*x3^3*y1^3*y3^2 + d*x2*x3^3*y1*y3^2 - d*x2*x3*y1^3*y2^2*y3^2 + d*x2*x3*y1*y2^2*y3^2 - d*x3^2*y1^3*y2*y3^3
      + d*x3^2*y1*y2*y3^3 + x1^3*x2*x3^2*y3 - x1^3*x2*y3^3 + x1^3*x2*y3 + x1^3*x3^3*y2 - x1^3*x3*y2*y3^2
      + x1^3*x3*y2 + x1^2*x2*x3^3*y1 - x1^2*x2*x3*y1*y3^2 + x1^2*x2*x3*y1 + x1^2*x3^2*y1*y2*y3 - x1^2*y1*y2*y3^3
      + x1^2*y1*y2*y3 - x1*x2*x3^2*y1^2*y3 + x1*x2*x3^2*y3 + x1*x2*y1^2*y3^3 - x1*x2*y1^2*y3 - x1*x2*y3^3
      + x1*x2*y3 - x1*x3^3*y1^2*y2 + x1*x3^3*y2 + x1*x3*y1^2*y2*y3^2 - x1*x3*y1^2*y2 - x1*x3*y2*y3^2 + x1*x3*y2
      - x2*x3^3*y1^3 + x2*x3^3*y1 + x2*x3*y1^3*y3^2 - x2*x3*y1^3 - x2*x3*y1*y3^2 + x2*x3*y1 - x3^2*y1^3*y2*y3
      + x3^2*y1*y2*y3 + y1^3*y2*y3^3 - y1^3*y2*y3 - y1*y2*y3^3 + y1*y2*y3) * h2
    + (-x1^3*x2^3*y3 - x1^3*x2^2*x3*y2 + x1^3*x2*y2^2*y3 - x1^3*x2*y3 + x1^3*x3*y2^3 - x1^3*x3*y2 - x1^2*x2^3*x3*y1
      + x1^2*x2^2*y1*y2*y3*(-d - 1) + x1^2*x2*x3*y1*y2^2*(d + 1) - x1^2*x2*x3*y1 + x1^2*y1*y2^3*y3 - x1^2*y1*y2*y3
      + x1*x2^3*y1^2*y3 - x1*x2^3*y3 + x1*x2^2*x3*y1^2*y2*(d + 1) - x1*x2^2*x3*y2 + x1*x2*y1^2*y2^2*y3*(-d
      - 1) + x1*x2*y1^2*y3 + x1*x2*y2^2*y3 - x1*x2*y3 - x1*x3*y1^2*y2^3 + x1*x3*y1^2*y2 + x1*x3*y2^3 - x1*x3*y2
      + x2^3*x3*y1^3 - x2^3*x3*y1 + x2^2*y1^3*y2*y3 - x2^2*y1*y2*y3 - x2*x3*y1^3*y2^2 + x2*x3*y1^3 + x2*x3*y1*y2^2
      - x2*x3*y1 - y1^3*y2^3*y3 + y1^3*y2*y3 + y1*y2^3*y3 - y1*y2*y3) * h3


/-! ### completeness: denominators never vanish (d non-square, −1 a square) -/

/-- Bernstein–Lange completeness for a = −1 = i²: on curve points `d·x1·x2·y1·y2 ≠ ±1`. -/
theorem denom_sq_ne_one (d i x1 y1 x2 y2 : F) (hi : i ^ 2 = -1) (h2ne : (2 : F) ≠ 0)
    (hd : ¬ IsSquare d) (h1 : OnCurve d x1 y1) (h2 : OnCurve d x2 y2) :
    (d * x1 * x2 * y1 * y2) ^ 2 ≠ 1 := by
  intro hε
  unfold OnCurve at h1 h2
  have hne : d * x1 * x2 * y1 * y2 ≠ 0 := by
    intro h0; rw [h0] at hε; simp at hε
  have hx1 : x1 ≠ 0 := by rintro rfl; simp at hne
  have hy1 : y1 ≠ 0 := by rintro rfl; simp at hne
  have hy2 : y2 ≠ 0 := by rintro rfl; simp at hne
  have key1 : (i * x1 + (d * x1 * x2 * y1 * y2) * y1) ^ 2 = d * x1 ^ 2 * y1 ^ 2 * (i * x2 + y2) ^ 2 := by
    linear_combination (x1 ^ 2 - d * x1 ^ 2 * y1 ^ 2 * x2 ^ 2) * hi + (y1 ^ 2 - 1) * hε
      + (-(d * x1 ^ 2 * y1 ^ 2)) * h2 + h1
  have key2 : (i * x1 - (d * x1 * x2 * y1 * y2) * y1) ^ 2 = d * x1 ^ 2 * y1 ^ 2 * (i * x2 - y2) ^ 2 := by
    linear_combination (x1 ^ 2 - d * x1 ^ 2 * y1 ^ 2 * x2 ^ 2) * hi + (y1 ^ 2 - 1) * hε
      + (-(d * x1 ^ 2 * y1 ^ 2)) * h2 + h1
  have sq_of : ∀ u w : F, w ≠ 0 → u ^ 2 = d * x1 ^ 2 * y1 ^ 2 * w ^ 2 → IsSquare d := by
    intro u w hw hu
    refine ⟨u / (x1 * y1 * w), ?_⟩
    field_simp
    linear_combination -hu
  by_cases ha : i * x2 + y2 = 0
  · by_cases hb : i * x2 - y2 = 0
    · have : (2 : F) * y2 = 0 := by linear_combination ha - hb
      rcases mul_eq_zero.mp this with h | h
      · exact h2ne h
      · exact hy2 h
    · exact hd (sq_of _ _ hb key2)
  · exact hd (sq_of _ _ ha key1)

theorem denoms_ne_zero (d i x1 y1 x2 y2 : F) (hi : i ^ 2 = -1) (h2ne : (2 : F) ≠ 0)
    (hd : ¬ IsSquare d) (h1 : OnCurve d x1 y1) (h2 : OnCurve d x2 y2) :
    1 + d * x1 * x2 * y1 * y2 ≠ 0 ∧ 1 - d * x1 * x2 * y1 * y2 ≠ 0 := by
  have h := denom_sq_ne_one d i x1 y1 x2 y2 hi h2ne hd h1 h2
  constructor
  · intro h0
    apply h
    have : d * x1 * x2 * y1 * y2 = -1 := by linear_combination h0
    rw [this]; ring
  · intro h0
    apply h
    have : d * x1 * x2 * y1 * y2 = 1 := by linear_combination -h0
    rw [this]; ring

/-! ### fraction forms of the two bracketings -/

theorem left_x (d A B D1 D2 x3 y3 : F) (h1 : D1 ≠ 0) (h2 : D2 ≠ 0) :
    addX d (A / D1) (B / D2) x3 y3 = (A * D2 * y3 + x3 * B * D1) / (D1 * D2 + d * A * B * x3 * y3) := by
  unfold addX
  have e1 : A / D1 * y3 + x3 * (B / D2) = (A * D2 * y3 + x3 * B * D1) / (D1 * D2) := by field_simp
  have e2 : 1 + d * (A / D1) * x3 * (B / D2) * y3 = (D1 * D2 + d * A * B * x3 * y3) / (D1 * D2) := by
    field_simp
  rw [e1, e2, div_div_div_cancel_right₀ (mul_ne_zero h1 h2)]

theorem left_y (d A B D1 D2 x3 y3 : F) (h1 : D1 ≠ 0) (h2 : D2 ≠ 0) :
    addY d (A / D1) (B / D2) x3 y3 = (B * D1 * y3 + A * D2 * x3) / (D1 * D2 - d * A * B * x3 * y3) := by
  unfold addY
  have e1 : B / D2 * y3 + A / D1 * x3 = (B * D1 * y3 + A * D2 * x3) / (D1 * D2) := by field_simp
  have e2 : 1 - d * (A / D1) * x3 * (B / D2) * y3 = (D1 * D2 - d * A * B * x3 * y3) / (D1 * D2) := by
    field_simp
  rw [e1, e2, div_div_div_cancel_right₀ (mul_ne_zero h1 h2)]

theorem right_x (d x1 y1 A B D1 D2 : F) (h1 : D1 ≠ 0) (h2 : D2 ≠ 0) :
    addX d x1 y1 (A / D1) (B / D2) = (x1 * B * D1 + A * D2 * y1) / (D1 * D2 + d * x1 * y1 * A * B) := by
  unfold addX
  have e1 : x1 * (B / D2) + A / D1 * y1 = (x1 * B * D1 + A * D2 * y1) / (D1 * D2) := by field_simp
  have e2 : 1 + d * x1 * (A / D1) * y1 * (B / D2) = (D1 * D2 + d * x1 * y1 * A * B) / (D1 * D2) := by
    field_simp
  rw [e1, e2, div_div_div_cancel_right₀ (mul_ne_zero h1 h2)]

theorem right_y (d x1 y1 A B D1 D2 : F) (h1 : D1 ≠ 0) (h2 : D2 ≠ 0) :
    addY d x1 y1 (A / D1) (B / D2) = (y1 * B * D1 + x1 * A * D2) / (D1 * D2 - d * x1 * y1 * A * B) := by
  unfold addY
  have e1 : y1 * (B / D2) + x1 * (A / D1) = (y1 * B * D1 + x1 * A * D2) / (D1 * D2) := by field_simp
  have e2 : 1 - d * x1 * (A / D1) * y1 * (B / D2) = (D1 * D2 - d * x1 * y1 * A * B) / (D1 * D2) := by
    field_simp
  rw [e1, e2, div_div_div_cancel_right₀ (mul_ne_zero h1 h2)]


theorem lden_x (d A B D1 D2 x3 y3 : F) (h1 : D1 ≠ 0) (h2 : D2 ≠ 0) :
    1 + d * (A / D1) * x3 * (B / D2) * y3 = (D1 * D2 + d * A * B * x3 * y3) / (D1 * D2) := by
  field_simp
theorem lden_y (d A B D1 D2 x3 y3 : F) (h1 : D1 ≠ 0) (h2 : D2 ≠ 0) :
    1 - d * (A / D1) * x3 * (B / D2) * y3 = (D1 * D2 - d * A * B * x3 * y3) / (D1 * D2) := by
  field_simp
theorem rden_x (d x1 y1 A B D1 D2 : F) (h1 : D1 ≠ 0) (h2 : D2 ≠ 0) :
    1 + d * x1 * (A / D1) * y1 * (B / D2) = (D1 * D2 + d * x1 * y1 * A * B) / (D1 * D2) := by
  field_simp
theorem rden_y (d x1 y1 A B D1 D2 : F) (h1 : D1 ≠ 0) (h2 : D2 ≠ 0) :
    1 - d * x1 * (A / D1) * y1 * (B / D2) = (D1 * D2 - d * x1 * y1 * A * B) / (D1 * D2) := by
  field_simp


/-! ### the extended-coordinate formulas of the code compute the affine law -/

/-- `geAdd` ∘ `ToExtended` (ref10, as transcribed in `Model.VrfCurve.add`): for inputs with
    `T·Z = X·Y`, `Z ≠ 0`, the output represents the affine sum and again has `T·Z = X·Y`, `Z ≠ 0`. -/
theorem ext_add_affine (d X1 Y1 Z1 T1 X2 Y2 Z2 T2 : F) (h2 : (2 : F) ≠ 0)
    (hZ1 : Z1 ≠ 0) (hZ2 : Z2 ≠ 0) (hT1 : T1 * Z1 = X1 * Y1) (hT2 : T2 * Z2 = X2 * Y2)
    (hD1 : 1 + d * (X1 / Z1) * (X2 / Z2) * (Y1 / Z1) * (Y2 / Z2) ≠ 0)
    (hD2 : 1 - d * (X1 / Z1) * (X2 / Z2) * (Y1 / Z1) * (Y2 / Z2) ≠ 0) :
    let cX := (Y1 + X1) * (Y2 + X2) - (Y1 - X1) * (Y2 - X2)
    let cY := (Y1 + X1) * (Y2 + X2) + (Y1 - X1) * (Y2 - X2)
    let cZ := (Z1 * Z2 + Z1 * Z2) + T2 * (2 * d) * T1
    let cT := (Z1 * Z2 + Z1 * Z2) - T2 * (2 * d) * T1
    cZ * cT ≠ 0 ∧
    (cX * cT) / (cZ * cT) = addX d (X1 / Z1) (Y1 / Z1) (X2 / Z2) (Y2 / Z2) ∧
    (cY * cZ) / (cZ * cT) = addY d (X1 / Z1) (Y1 / Z1) (X2 / Z2) (Y2 / Z2) ∧
    (cX * cY) * (cZ * cT) = (cX * cT) * (cY * cZ) := by
  intro cX cY cZ cT
  have e1 : T1 = X1 * Y1 / Z1 := eq_div_of_mul_eq hZ1 hT1
  have e2 : T2 = X2 * Y2 / Z2 := eq_div_of_mul_eq hZ2 hT2
  have hcZ : cZ = 2 * Z1 * Z2 * (1 + d * (X1 / Z1) * (X2 / Z2) * (Y1 / Z1) * (Y2 / Z2)) := by
    simp only [cZ, e1, e2]; field_simp; ring
  have hcT : cT = 2 * Z1 * Z2 * (1 - d * (X1 / Z1) * (X2 / Z2) * (Y1 / Z1) * (Y2 / Z2)) := by
    simp only [cT, e1, e2]; field_simp; ring
  have hZne : cZ ≠ 0 := by rw [hcZ]; exact mul_ne_zero (mul_ne_zero (mul_ne_zero h2 hZ1) hZ2) hD1
  have hTne : cT ≠ 0 := by rw [hcT]; exact mul_ne_zero (mul_ne_zero (mul_ne_zero h2 hZ1) hZ2) hD2
  refine ⟨mul_ne_zero hZne hTne, ?_, ?_, by ring⟩
  · rw [mul_div_mul_right _ _ hTne, hcZ]
    unfold addX
    have : cX = 2 * Z1 * Z2 * (X1 / Z1 * (Y2 / Z2) + X2 / Z2 * (Y1 / Z1)) := by
      simp only [cX]; field_simp; ring
    rw [this, mul_div_mul_left _ _ (mul_ne_zero (mul_ne_zero h2 hZ1) hZ2)]
  · rw [mul_comm cZ cT, mul_div_mul_right _ _ hZne, hcT]
    unfold addY
    have : cY = 2 * Z1 * Z2 * (Y1 / Z1 * (Y2 / Z2) + X1 / Z1 * (X2 / Z2)) := by
      simp only [cY]; field_simp; ring
    rw [this, mul_div_mul_left _ _ (mul_ne_zero (mul_ne_zero h2 hZ1) hZ2)]

end Rangers.Proofs.C16Curve
