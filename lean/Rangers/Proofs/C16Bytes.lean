import Rangers.Basic.Hex
import Rangers.Model.Vrf
/-! Byte-level lemmas for C16: `natToBE`/`beToNat` (the model of `big.Int.SetBytes/Bytes`),
    `stripZeros`, `tryZeroPadding`, slicing. Core Lean only. -/
namespace Rangers.Proofs.C16Bytes
open Rangers Rangers.Model.Vrf

theorem go_acc (fuel n : Nat) (acc : Bytes) :
    natToBE.go fuel n acc = natToBE.go fuel n [] ++ acc := by
  induction fuel generalizing n acc with
  | zero => simp [natToBE.go]
  | succ f ih =>
    simp only [natToBE.go]
    split
    · simp
    · rw [ih (n / 256) (UInt8.ofNat (n % 256) :: acc), ih (n / 256) [UInt8.ofNat (n % 256)]]
      simp

theorem go_fuel (f1 f2 n : Nat) (h1 : n < f1) (h2 : n < f2) :
    natToBE.go f1 n [] = natToBE.go f2 n [] := by
  induction f1 generalizing f2 n with
  | zero => omega
  | succ f ih =>
    cases f2 with
    | zero => omega
    | succ g =>
      simp only [natToBE.go]
      split
      · rfl
      · rename_i hn
        have hlt : n / 256 < n := Nat.div_lt_self (Nat.pos_of_ne_zero hn) (by decide)
        rw [go_acc f, go_acc g, ih g (n / 256) (by omega) (by omega)]

theorem natToBE_zero : natToBE 0 = [] := by simp [natToBE, natToBE.go]

theorem natToBE_step (n : Nat) (hn : n ≠ 0) :
    natToBE n = natToBE (n / 256) ++ [UInt8.ofNat (n % 256)] := by
  have hlt : n / 256 < n := Nat.div_lt_self (Nat.pos_of_ne_zero hn) (by decide)
  have h1 : natToBE.go (n + 1) n [] = natToBE.go n (n / 256) [UInt8.ofNat (n % 256)] := by
    simp [natToBE.go, hn]
  show natToBE.go (n + 1) n [] = natToBE.go (n / 256 + 1) (n / 256) [] ++ _
  rw [h1, go_acc, go_fuel n (n / 256 + 1) (n / 256) hlt (by omega)]

theorem rev_ind {P : Bytes → Prop} (hnil : P []) (hsnoc : ∀ bs b, P bs → P (bs ++ [b])) :
    ∀ bs, P bs := by
  have h : ∀ l : Bytes, P l.reverse := by
    intro l
    induction l with
    | nil => simpa using hnil
    | cons a l ih => simpa using hsnoc _ a ih
  intro bs
  simpa using h bs.reverse

theorem beToNat_append_one (bs : Bytes) (b : UInt8) :
    beToNat (bs ++ [b]) = beToNat bs * 256 + b.toNat := by
  simp [beToNat, List.foldl_append]

theorem stripZeros_append_one (bs : Bytes) (b : UInt8) :
    stripZeros (bs ++ [b]) =
      if stripZeros bs = [] then (if b = 0 then [] else [b]) else stripZeros bs ++ [b] := by
  induction bs with
  | nil => simp [stripZeros]
  | cons a rest ih =>
    simp only [List.cons_append, stripZeros]
    split
    · exact ih
    · simp

theorem beToNat_eq_zero_iff (bs : Bytes) : beToNat bs = 0 ↔ stripZeros bs = [] := by
  induction bs using rev_ind with
  | hnil => simp [beToNat, stripZeros]
  | hsnoc bs b ih =>
    rw [beToNat_append_one, stripZeros_append_one]
    constructor
    · intro h
      have h1 : beToNat bs = 0 := by omega
      have h2 : b.toNat = 0 := by omega
      have hb : b = 0 := by
        apply UInt8.toNat_inj.mp
        simpa using h2
      simp [ih.mp h1, hb]
    · intro h
      split at h
      · rename_i hs
        split at h
        · rename_i hb
          simp [ih.mpr hs, hb]
        · simp at h
      · simp at h

/-- `big.Int.SetBytes(bs).Bytes()` strips exactly the leading zero bytes. -/
theorem natToBE_beToNat (bs : Bytes) : natToBE (beToNat bs) = stripZeros bs := by
  induction bs using rev_ind with
  | hnil => simp [beToNat, stripZeros, natToBE_zero]
  | hsnoc bs b ih =>
    rw [beToNat_append_one, stripZeros_append_one]
    have hb : b.toNat < 256 := UInt8.toNat_lt b
    by_cases hz : beToNat bs * 256 + b.toNat = 0
    · have h1 : beToNat bs = 0 := by omega
      have h2 : b.toNat = 0 := by omega
      have hb0 : b = 0 := by
        apply UInt8.toNat_inj.mp
        simpa using h2
      rw [hz, natToBE_zero, (beToNat_eq_zero_iff bs).mp h1, hb0]
      simp
    · rw [natToBE_step _ hz]
      have hd : (beToNat bs * 256 + b.toNat) / 256 = beToNat bs := by omega
      have hm : (beToNat bs * 256 + b.toNat) % 256 = b.toNat := by omega
      rw [hd, hm, ih]
      have hbb : UInt8.ofNat b.toNat = b := by simp
      rw [hbb]
      by_cases hs : stripZeros bs = []
      · have h1 : beToNat bs = 0 := (beToNat_eq_zero_iff bs).mpr hs
        have hbne : b ≠ 0 := by
          intro hb0
          apply hz
          rw [h1, hb0]
          rfl
        simp [hs, hbne]
      · simp [hs]

/-- `stripZeros` removes a block of zero bytes from the front. -/
theorem stripZeros_spec (bs : Bytes) :
    ∃ k, bs = List.replicate k 0 ++ stripZeros bs ∧ k + (stripZeros bs).length = bs.length := by
  induction bs with
  | nil => exact ⟨0, by simp [stripZeros]⟩
  | cons a rest ih =>
    simp only [stripZeros]
    split
    · rename_i ha
      obtain ⟨k, hk, hl⟩ := ih
      refine ⟨k + 1, ?_, ?_⟩
      · rw [List.replicate_succ, List.cons_append, ← hk, ha]
      · simp; omega
    · exact ⟨0, by simp⟩

theorem pad_of_len_ge (pi : Bytes) (h : proveSize ≤ pi.length) : tryZeroPadding pi = pi := by
  simp [tryZeroPadding, h]

theorem pad_length_ge (pi : Bytes) : proveSize ≤ (tryZeroPadding pi).length := by
  unfold tryZeroPadding
  split
  · assumption
  · simp; omega

/-- Header transport is lossless for a full-size proof. -/
theorem pad_strip (pi : Bytes) (h : pi.length = proveSize) : tryZeroPadding (stripZeros pi) = pi := by
  obtain ⟨k, hk, hl⟩ := stripZeros_spec pi
  unfold tryZeroPadding
  split
  · rename_i hge
    have : k = 0 := by omega
    subst this
    simpa using hk.symm
  · rename_i hlt
    have : proveSize - (stripZeros pi).length = k := by omega
    rw [this]
    exact hk.symm

end Rangers.Proofs.C16Bytes
