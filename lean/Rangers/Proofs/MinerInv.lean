import Rangers.Proofs.MinerLookup
/-! C20: the `RecKeyed` invariant is preserved by every transaction and by the block end. -/
namespace Rangers.Miner

/-- Decoding an encoded record gives back its id (assumed of `encoding/json`). -/
def CodecId (cfg : Cfg) : Prop := ∀ i j, i.typ < 256 → cfg.dec (cfg.enc i) = some j → j.id = i.id ∧ j.typ = i.typ
/-- The raw slot values (8-byte stake, 1-byte status) are not records. -/
def RawOK (cfg : Cfg) : Prop := (∀ n, cfg.dec (u64be n) = none) ∧ (∀ b : UInt8, cfg.dec [b] = none)

/-- The account byte strings a transaction introduces are not themselves record encodings. -/
def TxOK (cfg : Cfg) : Tx → Prop
  | .apply src _ _ _ acct _ _ => cfg.dec src = none ∧ cfg.dec acct = none
  | .chacc _ _ na => cfg.dec na = none
  | _ => True

theorem recKeyed_of_live (cfg : Cfg) (st st' : State) (h : st'.live = st.live) (hr : RecKeyed cfg st) : RecKeyed cfg st' := by
  intro d k info; rw [h]; exact hr d k info

theorem recKeyed_write (cfg : Cfg) (st : State) (d : DbId) (k v : Bytes) (hr : RecKeyed cfg st)
    (hv : ∀ info, v ≠ [] → cfg.dec v = some info → info.id = k ∧ k ≠ [] ∧ dbOfType info.typ = d) : RecKeyed cfg (st.write d k v) := by
  intro d' q info hne hdec
  rw [write_get] at hne hdec
  by_cases hc : d' = d ∧ q = k
  · simp only [hc, and_self, if_true] at hne hdec
    rw [hc.2, hc.1]; exact hv info hne hdec
  · simp only [hc, if_false] at hne hdec
    exact hr d' q info hne hdec

theorem recKeyed_updateMiner_none (cfg : Cfg) (st : State) (m : Miner) (hraw : RawOK cfg) (hr : RecKeyed cfg st)
    (hacc : ∀ info, m.account ≠ [] → cfg.dec m.account = some info →
      info.id = slotAcct cfg m.id ∧ slotAcct cfg m.id ≠ [] ∧ dbOfType info.typ = dbOfType m.typ) :
    RecKeyed cfg (updateMiner cfg st m none) := by
  unfold updateMiner
  apply recKeyed_write
  · apply recKeyed_write
    · apply recKeyed_write
      · exact hr
      · intro info _ h; rw [hraw.1] at h; cases h
    · exact hacc
  · intro info _ h; rw [hraw.2] at h; cases h

theorem recKeyed_removeMiner (cfg : Cfg) (st : State) (id acc : Bytes) (t l : Nat) (hraw : RawOK cfg) (hr : RecKeyed cfg st) :
    RecKeyed cfg (removeMiner cfg st id acc t l) := by
  unfold removeMiner
  split
  · repeat' apply recKeyed_write
    all_goals first | exact hr | (intro info h; exact absurd rfl h)
  · apply recKeyed_write
    · apply recKeyed_write
      · exact hr
      · intro info _ h; rw [hraw.1] at h; cases h
    · intro info _ h; rw [hraw.2] at h; cases h

theorem isEmptySlice_nil : isEmptySlice [] = true := rfl

theorem recKeyed_addMinerApply (cfg : Cfg) (st : State) (p : Bytes) (info : Info) (s : Nat) (a : Bytes)
    (hc : CodecId cfg) (hraw : RawOK cfg) (hr : RecKeyed cfg st) (hid : info.id ≠ []) (ht : info.typ < 256) (ha : cfg.dec a = none) :
    RecKeyed cfg (addMinerApply cfg st p info s a) := by
  unfold addMinerApply updateMiner
  apply recKeyed_write
  · apply recKeyed_write
    · apply recKeyed_write
      · apply recKeyed_write
        · exact recKeyed_of_live cfg st _ rfl hr
        · intro j _ h
          obtain ⟨h1, h2⟩ := hc info j ht h
          exact ⟨h1, hid, by rw [h2]⟩
      · intro info _ h; rw [hraw.1] at h; cases h
    · intro j _ h; rw [ha] at h; cases h
  · intro info _ h; rw [hraw.2] at h; cases h

/-- What `GetMiner` returns in a `RecKeyed` state: the record named `id`, its account read from `id`'s slot. -/
theorem getMiner_some (cfg : Cfg) (st : State) (id : Bytes) (m : Miner) (hr : RecKeyed cfg st) (h : getMiner cfg st id = some m) :
    ∃ d, (d = .prop ∨ d = .val) ∧ getMinerById cfg st d id = some m ∧ m.id = id ∧ id ≠ [] ∧
      m.account = (st.live d).get (slotAcct cfg id) ∧ m.stake = u64 ((st.live d).get (slotStake cfg id)) ∧
      dbOfType m.typ = d := by
  unfold getMiner at h
  have key : ∀ d, getMinerById cfg st d id = some m → m.id = id ∧ id ≠ [] ∧
      m.account = (st.live d).get (slotAcct cfg id) ∧ m.stake = u64 ((st.live d).get (slotStake cfg id)) ∧
      dbOfType m.typ = d := by
    intro d hd
    obtain ⟨hv, info, hdec, rfl⟩ := (getMinerById_some cfg st d id m).mp hd
    obtain ⟨h1, h2, h3⟩ := hr d id info hv hdec
    exact ⟨by simp [readMiner, h1], h2, by simp [readMiner], by simp [readMiner], by simpa [readMiner] using h3⟩
  cases hp : getMinerById cfg st .prop id with
  | some m' =>
    rw [hp] at h
    have : m' = m := by simpa using h
    subst this
    exact ⟨.prop, Or.inl rfl, hp, key _ hp⟩
  | none =>
    rw [hp] at h
    exact ⟨.val, Or.inr rfl, h, key _ h⟩

theorem acct_cond (cfg : Cfg) (st : State) (id : Bytes) (m : Miner) (hr : RecKeyed cfg st) (h : getMiner cfg st id = some m) :
    ∀ info, m.account ≠ [] → cfg.dec m.account = some info →
      info.id = slotAcct cfg m.id ∧ slotAcct cfg m.id ≠ [] ∧ dbOfType info.typ = dbOfType m.typ := by
  obtain ⟨d, _, _, hid, _, hacc, _, hdb⟩ := getMiner_some cfg st id m hr h
  intro info hne hdec
  rw [hid, hdb]
  rw [hacc] at hne hdec
  exact hr d _ info hne hdec

theorem recKeyed_execute (cfg : Cfg) (st : State) (tx : Tx) (hc : CodecId cfg) (hraw : RawOK cfg) (hok : TxOK cfg tx)
    (hr : RecKeyed cfg st) : RecKeyed cfg (execute cfg st tx).2 := by
  cases tx with
  | apply src id t s ac pk vrf =>
    simp only [execute, execApply]
    split
    · exact hr
    · split
      · exact hr
      · rename_i hne
        unfold addMiner
        split
        · exact hr
        · repeat' split
          all_goals first
            | exact hr
            | (apply recKeyed_addMinerApply _ _ _ _ _ _ hc hraw hr
               · intro h; apply hne; have h' : id = [] := h; subst h'; rfl
               · show t < 256; omega
               · first | exact hok.1 | exact hok.2)
  | add src id dl =>
    simp only [execute, execAdd]
    split
    · exact hr
    · split
      · exact hr
      · unfold addStake
        repeat' split
        all_goals first | exact hr | skip
        rename_i m hm
        unfold addStakeApply
        apply recKeyed_updateMiner_none _ _ _ hraw (recKeyed_of_live cfg st _ rfl hr)
        exact acct_cond cfg st id m hr hm
  | refund src id am =>
    simp only [execute, execRefund]
    repeat' split
    all_goals first | exact hr | skip
    rename_i m hm _ _
    apply recKeyed_of_live cfg (refundCore cfg st id src m (refundMoney m am)) _ rfl
    unfold refundCore
    split
    · exact recKeyed_removeMiner _ _ _ _ _ _ hraw hr
    · apply recKeyed_updateMiner_none _ _ _ hraw hr
      exact acct_cond cfg st id m hr hm
  | chacc src id na =>
    simp only [execute, execChacc]
    repeat' split
    all_goals first | exact hr | skip
    apply recKeyed_updateMiner_none _ _ _ hraw hr
    intro info _ h
    have : cfg.dec na = none := hok
    rw [this] at h; cases h
  | bad k src => cases k <;> exact hr

theorem processFee_live (st st1 : State) (src : Bytes) (h : processFee st src = some st1) :
    st1.live = st.live ∧ st1.trie = st.trie ∧ st1.pending = st.pending ∧ st1.escrow = st.escrow ∧
      st1.code = st.code ∧ st1.height = st.height := by
  simp only [processFee] at h
  split at h
  · cases h
  · cases h; exact ⟨rfl, rfl, rfl, rfl, rfl, rfl⟩

theorem recKeyed_runTx (cfg : Cfg) (st : State) (tx : Tx) (hc : CodecId cfg) (hraw : RawOK cfg) (hok : TxOK cfg tx)
    (hr : RecKeyed cfg st) : RecKeyed cfg (runTx cfg st tx).2 := by
  unfold runTx
  cases hf : processFee st tx.src with
  | none => exact hr
  | some st1 =>
    have hr1 : RecKeyed cfg st1 := recKeyed_of_live cfg st st1 (processFee_live st st1 _ hf).1 hr
    simp only
    split
    · exact recKeyed_execute cfg st1 tx hc hraw hok hr1
    · exact recKeyed_of_live cfg st1 _ rfl hr1

theorem escrowAddList_live (st : State) (h : Nat) (l : List (Bytes × Nat)) : (escrowAddList st h l).live = st.live := by
  induction l generalizing st with
  | nil => rfl
  | cons e l ih => obtain ⟨a, v⟩ := e; simp only [escrowAddList]; rw [ih]; rfl

theorem escrowAddAll_live (st : State) (p : List (Nat × List (Bytes × Nat))) : (escrowAddAll st p).live = st.live := by
  induction p generalizing st with
  | nil => rfl
  | cons e p ih => obtain ⟨h, l⟩ := e; simp only [escrowAddAll]; rw [ih, escrowAddList_live]

theorem foldl_live {α : Type} (f : State → α → State) (hf : ∀ s a, (f s a).live = s.live) (l : List α) (st : State) :
    (l.foldl f st).live = st.live := by
  induction l generalizing st with
  | nil => rfl
  | cons a l ih => simp only [List.foldl_cons]; rw [ih, hf]

theorem checkAndMove_live (st : State) (h : Nat) : (checkAndMove st h).live = st.live := by
  simp only [checkAndMove]
  exact foldl_live (fun (st : State) (e : Bytes × Nat) => (st.addBal (toAddr e.fst) e.snd).setEsc h (toAddr e.fst) 0) (fun s a => rfl) _ _

theorem endBlock_live (st : State) (n : Nat) : (endBlock st n).live = st.live := by
  unfold endBlock
  simp only
  rw [checkAndMove_live, escrowAddAll_live]

theorem endBlock_flushed (st : State) (n : Nat) : Flushed (endBlock st n) := by
  unfold Flushed endBlock
  rfl

theorem recKeyed_endBlock (cfg : Cfg) (st : State) (n : Nat) (hr : RecKeyed cfg st) : RecKeyed cfg (endBlock st n) :=
  recKeyed_of_live cfg st _ (endBlock_live st n) hr

/-- The key cache write touches nothing but the key cache. -/
theorem pkAfter_fields (tx : Tx) (r : String × State) :
    (pkAfter tx r).1 = r.1 ∧ (pkAfter tx r).2.live = r.2.live ∧ (pkAfter tx r).2.trie = r.2.trie ∧
    (pkAfter tx r).2.bal = r.2.bal ∧ (pkAfter tx r).2.pending = r.2.pending ∧ (pkAfter tx r).2.escrow = r.2.escrow ∧
    (pkAfter tx r).2.code = r.2.code ∧ (pkAfter tx r).2.height = r.2.height := by
  cases tx with
  | apply src id typ stake acct pk vrf =>
    simp only [pkAfter]
    by_cases h : r.1 = "ok"
    · rw [if_pos h]; exact ⟨rfl, rfl, rfl, rfl, rfl, rfl, rfl, rfl⟩
    · rw [if_neg h]; exact ⟨rfl, rfl, rfl, rfl, rfl, rfl, rfl, rfl⟩
  | add => exact ⟨rfl, rfl, rfl, rfl, rfl, rfl, rfl, rfl⟩
  | refund => exact ⟨rfl, rfl, rfl, rfl, rfl, rfl, rfl, rfl⟩
  | chacc => exact ⟨rfl, rfl, rfl, rfl, rfl, rfl, rfl, rfl⟩
  | bad => exact ⟨rfl, rfl, rfl, rfl, rfl, rfl, rfl, rfl⟩

def OpOK (cfg : Cfg) : Op → Prop
  | .tx t => TxOK cfg t
  | .endBlock _ => True

theorem recKeyed_run (cfg : Cfg) (st : State) (ops : List Op) (hc : CodecId cfg) (hraw : RawOK cfg)
    (hok : ∀ o ∈ ops, OpOK cfg o) (hr : RecKeyed cfg st) : RecKeyed cfg (run cfg st ops) := by
  induction ops generalizing st with
  | nil => exact hr
  | cons o ops ih =>
    simp only [run, List.foldl_cons]
    apply ih
    · intro o' ho'; exact hok o' (List.mem_cons_of_mem _ ho')
    · cases o with
      | tx t =>
        exact recKeyed_of_live cfg _ _ (pkAfter_fields t _).2.1 (recKeyed_runTx cfg st t hc hraw (hok _ (List.mem_cons_self ..)) hr)
      | endBlock n => exact recKeyed_endBlock cfg st n hr

theorem recKeyed_empty (cfg : Cfg) (st : State) (h : ∀ d, st.live d = []) : RecKeyed cfg st := by
  intro d k info hne; rw [h d] at hne; simp [Store.get] at hne

end Rangers.Miner
