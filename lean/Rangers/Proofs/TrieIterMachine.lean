import Rangers.Model.TrieIter
import Rangers.Proofs.TrieIterBytes
import Rangers.Proofs.TrieCompact
/- The NodeIterator stack machine drains a minimal-form trie in the order `iter` lists it (full iteration). -/
namespace Rangers.Trie
open Rangers

/-! ### single steps of the iterator machine -/

theorem next_child {it : NodeIt} {F : Frame} {S : List Frame} (hs : it.stack = F :: S) (he : it.atEnd = false)
    {st F' : Frame} {p' : Key} (hc : nextChild it.path F = some (st, p', F')) :
    it.next = ({ it with stack := st :: { F' with next := F'.next + 1 } :: S, path := p' }, true) := by
  simp only [NodeIt.next, he, Bool.false_eq_true, if_false, NodeIt.peek, hs, if_true, List.length_cons, peekLoop, hc,
    Option.map_some, NodeIt.push]

theorem next_exhausted {it : NodeIt} {F G : Frame} {S : List Frame} (hs : it.stack = F :: G :: S) (he : it.atEnd = false)
    (hc : nextChild it.path F = none) :
    it.next.2 = it.pop.next.2 ∧ (it.next.2 = true → it.next.1 = it.pop.next.1) := by
  have hp : it.pop.stack = G :: S := by simp [NodeIt.pop, hs]
  have hpe : it.pop.atEnd = false := by simp [NodeIt.pop, hs, he]
  simp only [NodeIt.next, he, hpe, Bool.false_eq_true, if_false, NodeIt.peek, hs, hp, if_true, List.length_cons]
  rw [show S.length + 1 + 1 + 1 = (S.length + 1 + 1) + 1 from rfl, peekLoop]
  simp only [hs, hc]
  cases hpl : peekLoop (S.length + 1 + 1) it.pop with
  | none => simp
  | some r => simp

theorem iterLoop_exhausted {it : NodeIt} {F G : Frame} {S : List Frame} (hs : it.stack = F :: G :: S)
    (he : it.atEnd = false) (hc : nextChild it.path F = none) (f : Nat) : iterLoop f it = iterLoop f it.pop := by
  cases f with
  | zero => rfl
  | succ f =>
    obtain ⟨h1, h2⟩ := next_exhausted hs he hc
    simp only [iterLoop]
    cases hb : it.next.2 with
    | false => rw [← h1, hb]; simp
    | true => rw [← h1, hb, ← h2 hb]

theorem next_last {it : NodeIt} {F : Frame} (hs : it.stack = [F]) (he : it.atEnd = false)
    (hc : nextChild it.path F = none) : it.next = ({ it with atEnd := true }, false) := by
  simp [NodeIt.next, he, NodeIt.peek, hs, peekLoop, hc, NodeIt.pop]



/-! ### `firstChild` and `iterL` -/

theorem firstChild_some {cs : List Node} {frm i : Nat} {c : Node} (h : firstChild cs frm = some (i, c)) :
    frm ≤ i ∧ i < cs.length ∧ c = cs.getD i .nil ∧ c ≠ .nil ∧ ∀ j, frm ≤ j → j < i → cs.getD j .nil = .nil := by
  unfold firstChild at h
  cases hf : (List.range cs.length).filter (fun i => frm ≤ i && !isNil (cs.getD i .nil)) with
  | nil => rw [hf] at h; simp at h
  | cons x xs =>
    rw [hf] at h
    simp only [List.head?_cons, Option.map_some, Option.some.injEq, Prod.mk.injEq] at h
    obtain ⟨rfl, rfl⟩ := h
    have hx : x ∈ (List.range cs.length).filter (fun i => frm ≤ i && !isNil (cs.getD i .nil)) := by rw [hf]; simp
    simp only [List.mem_filter, List.mem_range, Bool.and_eq_true, decide_eq_true_eq, Bool.not_eq_true'] at hx
    refine ⟨hx.2.1, hx.1, rfl, (isNil_false_iff _).mp hx.2.2, fun j hj1 hj2 => ?_⟩
    by_cases hne : cs.getD j .nil = .nil
    · exact hne
    exfalso
    have hjm : j ∈ (List.range cs.length).filter (fun i => frm ≤ i && !isNil (cs.getD i .nil)) := by
      simp only [List.mem_filter, List.mem_range, Bool.and_eq_true, decide_eq_true_eq, Bool.not_eq_true']
      exact ⟨by omega, hj1, (isNil_false_iff _).mpr hne⟩
    have hsorted : ((List.range cs.length).filter (fun i => frm ≤ i && !isNil (cs.getD i .nil))).Pairwise (· < ·) :=
      List.Pairwise.filter _ (List.pairwise_lt_range)
    rw [hf] at hsorted hjm
    have := (List.pairwise_cons.mp hsorted).1
    cases hjm with
    | head => omega
    | tail _ h' => have := this j h'; omega

theorem firstChild_none {cs : List Node} {frm : Nat} (h : firstChild cs frm = none) :
    ∀ j, frm ≤ j → j < cs.length → cs.getD j .nil = .nil := by
  intro j hj1 hj2
  unfold firstChild at h
  cases hf : (List.range cs.length).filter (fun i => frm ≤ i && !isNil (cs.getD i .nil)) with
  | cons x xs => rw [hf] at h; simp at h
  | nil =>
    by_cases hne : cs.getD j .nil = .nil
    · exact hne
    exfalso
    have hjm : j ∈ (List.range cs.length).filter (fun i => frm ≤ i && !isNil (cs.getD i .nil)) := by
      simp only [List.mem_filter, List.mem_range, Bool.and_eq_true, decide_eq_true_eq, Bool.not_eq_true']
      exact ⟨hj2, hj1, (isNil_false_iff _).mpr hne⟩
    rw [hf] at hjm; simp at hjm

theorem drop_eq_cons (cs : List Node) (n : Nat) (h : n < cs.length) : cs.drop n = cs.getD n .nil :: cs.drop (n + 1) := by
  rw [List.drop_eq_getElem_cons h]
  simp [List.getD_eq_getElem?_getD, List.getElem?_eq_getElem h]

theorem iterL_drop_skip (cs : List Node) (d frm : Nat) (hd : frm + d ≤ cs.length)
    (hnil : ∀ j, frm ≤ j → j < frm + d → cs.getD j .nil = .nil) :
    iterL (cs.drop frm) frm = iterL (cs.drop (frm + d)) (frm + d) := by
  induction d generalizing frm with
  | zero => rfl
  | succ d ih =>
    rw [drop_eq_cons cs frm (by omega), hnil frm (by omega) (by omega)]
    simp only [iterL, iter, prepend, List.map_nil, List.nil_append]
    have := ih (frm + 1) (by omega) (fun j h1 h2 => hnil j (by omega) (by omega))
    have e : frm + 1 + d = frm + (d + 1) := by omega
    rw [e] at this
    exact this

theorem iterL_drop_nil (cs : List Node) (frm : Nat) (hf : frm ≤ cs.length)
    (hnil : ∀ j, frm ≤ j → j < cs.length → cs.getD j .nil = .nil) : iterL (cs.drop frm) frm = [] := by
  have := iterL_drop_skip cs (cs.length - frm) frm (by omega) (fun j h1 h2 => hnil j h1 (by omega))
  rw [this, show frm + (cs.length - frm) = cs.length by omega, List.drop_length]; rfl

theorem iterL_drop_first (cs : List Node) (frm i : Nat) (h1 : frm ≤ i) (h2 : i < cs.length)
    (hnil : ∀ j, frm ≤ j → j < i → cs.getD j .nil = .nil) :
    iterL (cs.drop frm) frm = prepend [i] (iter (cs.getD i .nil)) ++ iterL (cs.drop (i + 1)) (i + 1) := by
  have := iterL_drop_skip cs (i - frm) frm (by omega) (fun j a b => hnil j a (by omega))
  rw [this, show frm + (i - frm) = i by omega, drop_eq_cons cs i h2]
  rfl



/-! ### draining a subtree -/

def toKV (e : Key × Bytes) : Bytes × Bytes := (hexToKeybytes e.1, e.2)

/-- what `Iterator.Next` reports when the node iterator has just moved to `it` -/
def emitOf (it : NodeIt) : List (Bytes × Bytes) :=
  if hasTerm it.path then
    match it.stack with
    | top :: _ =>
      match top.node with
      | .value b => [(hexToKeybytes it.path, b)]
      | _ => []
    | [] => []
  else []

theorem iterLoop_succ (f : Nat) (it : NodeIt) :
    iterLoop (f + 1) it = if it.next.2 then emitOf it.next.1 ++ iterLoop f it.next.1 else [] := by
  simp only [iterLoop, emitOf]
  split
  · split
    · split
      · split <;> simp_all
      · simp_all
    · simp
  · rfl

theorem prepend_prepend (p q : Key) (L : List (Key × Bytes)) : prepend p (prepend q L) = prepend (p ++ q) L := by
  simp [prepend, List.map_map, Function.comp_def, List.append_assoc]

theorem prepend_append (p : Key) (A B : List (Key × Bytes)) : prepend p (A ++ B) = prepend p A ++ prepend p B := by
  simp [prepend]

theorem hasTerm_append_singleton (p : Key) (i : Nat) : hasTerm (p ++ [i]) = (i == 16) := by
  simp [hasTerm]

theorem hasTerm_append_of_ne_nil (p k : Key) (hk : k ≠ []) : hasTerm (p ++ k) = hasTerm k := by
  unfold hasTerm
  cases k with
  | nil => exact absurd rfl hk
  | cons x xs =>
    rw [List.getLast?_append]
    have : (x :: xs).getLast? = some ((x :: xs).getLast (by simp)) := List.getLast?_eq_getLast (by simp)
    rw [this]; rfl

/-- what happens between pushing the frame of `n` and exhausting it -/
def Drains (n : Node) : Prop :=
  ∀ (it : NodeIt) (pl : Nat) (R : List Frame), it.stack = ⟨n, 0, pl⟩ :: R → it.atEnd = false →
    ∃ c k it', c + 1 ≤ nodeCount n ∧ it'.stack = ⟨n, k, pl⟩ :: R ∧ nextChild it.path ⟨n, k, pl⟩ = none ∧
      it'.path = it.path ∧ it'.atEnd = false ∧ it'.root = it.root ∧
      ∀ f, iterLoop (f + c) it = (prepend it.path (iter n)).map toKV ++ iterLoop f it'

/-- after pushing a child frame: emit it if it is a value, drain it, pop it -/
theorem drain_child {ch : Node} (hslot : (∃ b, ch = .value b) ∨ (WF ch ∧ Drains ch))
    (it1 : NodeIt) (G : Frame) (R : List Frame) (p : Key)
    (hq : hasTerm it1.path = true ↔ ∃ b, ch = .value b)
    (hs : it1.stack = ⟨ch, 0, p.length⟩ :: G :: R) (hp : p <+: it1.path) (he : it1.atEnd = false) :
    ∃ c it2, c + 1 ≤ nodeCount ch ∧ it2.stack = G :: R ∧ it2.path = p ∧ it2.atEnd = false ∧ it2.root = it1.root ∧
      ∀ f, emitOf it1 ++ iterLoop (f + c) it1 = (prepend it1.path (iter ch)).map toKV ++ iterLoop f it2 := by
  have htake : it1.path.take p.length = p := (List.prefix_iff_eq_take.mp hp).symm
  rcases hslot with ⟨b, rfl⟩ | ⟨hwf, hd⟩
  · -- a value: emitted on arrival, nothing below
    have hterm : hasTerm it1.path = true := hq.mpr ⟨b, rfl⟩
    have hex : nextChild it1.path ⟨.value b, 0, p.length⟩ = none := rfl
    refine ⟨0, it1.pop, by simp [nodeCount], by simp [NodeIt.pop, hs], by simp [NodeIt.pop, hs, htake],
      by simp [NodeIt.pop, hs, he], by simp [NodeIt.pop, hs], fun f => ?_⟩
    rw [Nat.add_zero, iterLoop_exhausted hs he hex f]
    simp [emitOf, hterm, hs, iter, prepend, toKV]
  · have hnv : ¬ ∃ b, ch = .value b := by
      rintro ⟨b, rfl⟩; exact not_WF_value b hwf
    have hterm : hasTerm it1.path = false := by
      cases h : hasTerm it1.path with
      | false => rfl
      | true => exact absurd (hq.mp h) hnv
    obtain ⟨c, k, it1', hc, hs', hex, hp', he', hr', hrun⟩ := hd it1 p.length (G :: R) hs he
    refine ⟨c, it1'.pop, hc, by simp [NodeIt.pop, hs'], by simp [NodeIt.pop, hs', hp', htake],
      by simp [NodeIt.pop, hs', he'], by simp [NodeIt.pop, hs', hr'], fun f => ?_⟩
    rw [hrun f, iterLoop_exhausted hs' he' (hp' ▸ hex) f]
    simp [emitOf, hterm]



theorem nodeCountL_drop_ge (cs : List Node) (frm i : Nat) (h1 : frm ≤ i) (h2 : i < cs.length) :
    nodeCount (cs.getD i .nil) + nodeCount.nodeCountL (cs.drop (i + 1)) ≤ nodeCount.nodeCountL (cs.drop frm) := by
  induction hd : i - frm generalizing frm with
  | zero =>
    have : frm = i := by omega
    subst this
    rw [drop_eq_cons cs frm h2]; simp [nodeCount.nodeCountL]
  | succ d ih =>
    rw [drop_eq_cons cs frm (by omega)]
    simp only [nodeCount.nodeCountL]
    have := ih (frm + 1) (by omega) (by omega)
    omega

theorem drains (n : Node) : WF n → Drains n := by
  induction n using Node.induct with
  | hnil => intro h; exact absurd h not_WF_nil
  | hval b => intro h; exact absurd h (not_WF_value b)
  | hshort kk v ih =>
    intro hwf it pl R hs he
    have hkk : kk ≠ [] := by
      rcases (WF_short_iff kk v).mp hwf with ⟨b, rfl, hk, _⟩ | ⟨cs, rfl, hne, _, _⟩
      · exact hk.ne_nil
      · exact hne
    have hnc : nextChild it.path ⟨.short kk v, 0, pl⟩
        = some (⟨v, 0, it.path.length⟩, it.path ++ kk, ⟨.short kk v, 0, pl⟩) := by simp [nextChild]
    have hnext := next_child hs he hnc
    have hslot : (∃ b, v = .value b) ∨ (WF v ∧ Drains v) := by
      rcases (WF_short_iff kk v).mp hwf with ⟨b, rfl, _, _⟩ | ⟨cs, rfl, _, _, hfull⟩
      · exact Or.inl ⟨b, rfl⟩
      · exact Or.inr ⟨hfull, ih hfull⟩
    have hq : hasTerm (it.path ++ kk) = true ↔ ∃ b, v = .value b := by
      rw [hasTerm_append_of_ne_nil _ _ hkk]
      rcases (WF_short_iff kk v).mp hwf with ⟨b, rfl, hk, _⟩ | ⟨cs, rfl, _, hnib, _⟩
      · obtain ⟨m, rfl, _⟩ := (validKey_iff kk).mp hk
        simp [hasTerm_append_16]
      · simp [hasTerm_nibs kk hnib]
    obtain ⟨c, it2, hc, hs2, hp2, he2, hr2, hrun⟩ :=
      drain_child hslot { it with stack := ⟨v, 0, it.path.length⟩ :: ⟨.short kk v, 0 + 1, pl⟩ :: R, path := it.path ++ kk }
        ⟨.short kk v, 0 + 1, pl⟩ R it.path hq rfl (List.prefix_append _ _) he
    refine ⟨c + 1, 1, it2, by simp only [nodeCount]; omega, hs2, by simp [nextChild], hp2, he2, hr2, fun f => ?_⟩
    rw [show f + (c + 1) = (f + c) + 1 from rfl, iterLoop_succ, hnext]
    simp only [if_true]
    rw [hrun f]
    simp only [iter, prepend_prepend]
  | hfull cs ih =>
    intro hwf it pl R hs he
    obtain ⟨hlen17, hslots, _⟩ := (WF_full_iff cs).mp hwf
    -- the slots from `next` on
    have hS : ∀ (d next : Nat) (it : NodeIt), cs.length - next ≤ d → next ≤ cs.length →
        it.stack = ⟨.full cs, next, pl⟩ :: R → it.atEnd = false →
        ∃ c k it', c ≤ nodeCount.nodeCountL (cs.drop next) ∧ it'.stack = ⟨.full cs, k, pl⟩ :: R ∧
          nextChild it.path ⟨.full cs, k, pl⟩ = none ∧ it'.path = it.path ∧ it'.atEnd = false ∧ it'.root = it.root ∧
          ∀ f, iterLoop (f + c) it = (prepend it.path (iterL (cs.drop next) next)).map toKV ++ iterLoop f it' := by
      intro d
      induction d with
      | zero =>
        intro next it hd hle hs he
        have : next = cs.length := by omega
        subst this
        refine ⟨0, cs.length, it, by simp, hs, ?_, rfl, he, rfl, fun f => by simp [iterL, prepend]⟩
        have : firstChild cs cs.length = none := by
          cases hfc : firstChild cs cs.length with
          | none => rfl
          | some r => obtain ⟨a, b, _⟩ := firstChild_some (i := r.1) (c := r.2) (by rw [hfc]); omega
        simp [nextChild, this]
      | succ d ihd =>
        intro next it hd hle hs he
        cases hfc : firstChild cs next with
        | none =>
          refine ⟨0, next, it, by simp, hs, by simp [nextChild, hfc], rfl, he, rfl, fun f => ?_⟩
          rw [iterL_drop_nil cs next hle (firstChild_none hfc)]; simp [prepend]
        | some r =>
          obtain ⟨i, ch⟩ := r
          obtain ⟨h1, h2, rfl, hne, hnil⟩ := firstChild_some hfc
          have hnc : nextChild it.path ⟨.full cs, next, pl⟩
              = some (⟨cs.getD i .nil, 0, it.path.length⟩, it.path ++ [i], ⟨.full cs, i, pl⟩) := by
            simp [nextChild, hfc]
          have hnext := next_child hs he hnc
          have hsl := hslots i (by omega)
          rw [← List.getD_eq_getElem?_getD] at hsl
          have hslot : (∃ b, cs.getD i .nil = .value b) ∨ (WF (cs.getD i .nil) ∧ Drains (cs.getD i .nil)) := by
            rcases hsl with h | h
            · exact absurd h hne
            · by_cases h16 : i = 16
              · simp only [h16, if_true] at h
                obtain ⟨b, hb, _⟩ := h
                exact Or.inl ⟨b, by rw [h16]; exact hb⟩
              · simp only [h16, if_false] at h
                have hmem : cs.getD i .nil ∈ cs := by
                  rw [List.getD_eq_getElem?_getD, List.getElem?_eq_getElem h2]; exact List.getElem_mem h2
                exact Or.inr ⟨h, ih _ hmem h⟩
          have hq : hasTerm (it.path ++ [i]) = true ↔ ∃ b, cs.getD i .nil = .value b := by
            rw [hasTerm_append_singleton]
            constructor
            · intro h16
              have h16' : i = 16 := by simpa using h16
              rcases hsl with h | h
              · exact absurd h hne
              · simp only [h16', if_true] at h
                obtain ⟨b, hb, _⟩ := h
                exact ⟨b, by rw [h16']; exact hb⟩
            · rintro ⟨b, hb⟩
              rcases hsl with h | h
              · exact absurd h hne
              · by_cases h16 : i = 16
                · simp [h16]
                · simp only [h16, if_false, hb] at h
                  exact absurd h (not_WF_value b)
          obtain ⟨c1, it2, hc1, hs2, hp2, he2, hr2, hrun⟩ :=
            drain_child hslot { it with stack := ⟨cs.getD i .nil, 0, it.path.length⟩ :: ⟨.full cs, i + 1, pl⟩ :: R,
                                        path := it.path ++ [i] }
              ⟨.full cs, i + 1, pl⟩ R it.path hq rfl (List.prefix_append _ _) he
          obtain ⟨c2, k, it', hc2, hs', hex, hp', he', hr', hrun2⟩ := ihd (i + 1) it2 (by omega) (by omega) hs2 he2
          refine ⟨c1 + 1 + c2, k, it', ?_, hs', by rw [← hp2]; exact hex, by rw [hp', hp2], he', by rw [hr', hr2], fun f => ?_⟩
          · have := nodeCountL_drop_ge cs next i h1 h2
            omega
          · rw [show f + (c1 + 1 + c2) = ((f + c2) + c1) + 1 by omega, iterLoop_succ, hnext]
            simp only [if_true]
            rw [hrun (f + c2), hrun2 f, iterL_drop_first cs next i h1 h2 hnil, hp2]
            simp only [prepend_append, prepend_prepend, List.map_append, List.append_assoc]
    obtain ⟨c, k, it', hc, hs', hex, hp', he', hr', hrun⟩ := hS cs.length 0 it (by omega) (by omega) hs he
    refine ⟨c, k, it', by simp only [nodeCount]; simp only [List.drop_zero] at hc; omega, hs', hex, hp', he', hr', fun f => ?_⟩
    rw [hrun f]; simp [iter]



/-! ### full iteration -/

theorem new_nil_start (root : Node) : NodeIt.new root [] = { root := root, stack := [], path := [], atEnd := false } := by
  simp [NodeIt.new, hexOfBytes, seekLoop, NodeIt.peek, keyGE, keyLE]

/-- **the iterator stack machine returns what `iter` lists**: full iteration (no start key) of a
    minimal-form trie yields exactly `iterFrom t []`, in the same order -/
theorem iterMachine_full (t : Node) (ht : WFRoot t) : iterMachine t [] = iterFrom t [] := by
  rw [iterFrom_nil]
  unfold iterMachine
  rw [new_nil_start]
  -- the first `Next` pushes the root frame
  have hn0 : (NodeIt.next { root := t, stack := [], path := [], atEnd := false })
      = ({ root := t, stack := [⟨t, 0, 0⟩], path := [], atEnd := false }, true) := by
    simp [NodeIt.next, NodeIt.peek, NodeIt.push]
  rw [show nodeCount t + 2 = (nodeCount t + 1) + 1 from rfl, iterLoop_succ, hn0]
  simp only [if_true]
  have hemit : emitOf { root := t, stack := [⟨t, 0, 0⟩], path := [], atEnd := false } = [] := by
    simp [emitOf, hasTerm]
  rw [hemit, List.nil_append]
  rcases ht with rfl | hwf
  · -- empty trie: the root frame has no child
    have := next_last (it := { root := Node.nil, stack := [⟨.nil, 0, 0⟩], path := [], atEnd := false }) rfl rfl rfl
    rw [show nodeCount Node.nil + 1 = 1 + 1 from rfl, iterLoop_succ, this]
    simp [iter]
  · obtain ⟨c, k, it', hc, hs', hex, hp', he', _, hrun⟩ :=
      drains t hwf { root := t, stack := [⟨t, 0, 0⟩], path := [], atEnd := false } 0 [] rfl rfl
    obtain ⟨d, hd⟩ : ∃ d, nodeCount t + 1 = (d + 1) + c := ⟨nodeCount t - c, by omega⟩
    rw [hd, hrun (d + 1)]
    have hlast := next_last hs' he' (by rw [hp']; exact hex)
    rw [iterLoop_succ, hlast]
    simp [prepend, toKV]

end Rangers.Trie
