import Mathlib.Algebra.Polynomial.Eval.Defs
import Mathlib.Algebra.Polynomial.Degree.Lemmas
import Mathlib.Algebra.Polynomial.BigOperators
import Mathlib.Data.ZMod.Basic
import Rangers.Model.Shamir
import Rangers.Proofs.C13ModArith
/-! Sharing side: `ShareSeckey` is polynomial evaluation in `ZMod r`, `AggregateSeckeys` is the sum. -/
namespace Rangers.Proofs.C13
open Polynomial Rangers.Model.Shamir

variable {F : Type} [CommRing F]

/-- The polynomial `c₀ + c₁X + …` of a coefficient list. -/
noncomputable def polyOf : List F → F[X]
  | [] => 0
  | c :: cs => C c + X * polyOf cs

@[simp] theorem polyOf_nil : polyOf ([] : List F) = 0 := rfl
@[simp] theorem polyOf_cons (c : F) (cs : List F) : polyOf (c :: cs) = C c + X * polyOf cs := rfl

theorem eval_polyOf_cons (x c : F) (cs : List F) :
    (polyOf (c :: cs)).eval x = c + x * (polyOf cs).eval x := by simp

theorem coeff_polyOf (cs : List F) (n : Nat) : (polyOf cs).coeff n = cs.getD n 0 := by
  induction cs generalizing n with
  | nil => simp
  | cons c cs ih =>
    cases n with
    | zero => simp
    | succ n => simp [coeff_C_succ, ih]

theorem degree_polyOf_lt (cs : List F) : (polyOf cs).degree < cs.length := by
  rw [degree_lt_iff_coeff_zero]
  intro m hm
  rw [coeff_polyOf]
  have : cs.length ≤ m := by exact_mod_cast hm
  simp [List.getD, List.getElem?_eq_none this]

theorem eval_zero_polyOf (cs : List F) : (polyOf cs).eval 0 = cs.headD 0 := by
  cases cs <;> simp

theorem eval_polyOf_append (x : F) (l l' : List F) :
    (polyOf (l ++ l')).eval x = (polyOf l).eval x + x ^ l.length * (polyOf l').eval x := by
  induction l with
  | nil => simp
  | cons c cs ih => simp [ih, pow_succ]; ring

/-- Coefficient list of naturals read in `ZMod r`. -/
def castList (r : Nat) (cs : List Nat) : List (ZMod r) := List.map (Nat.cast : Nat → ZMod r) cs

theorem horner_foldl (r : Nat) (x : Nat) (rest : List Nat) (acc : Nat) :
    ((rest.foldl (fun acc c => (acc * x + c) % r) acc : Nat) : ZMod r) =
      (polyOf (castList r rest.reverse)).eval (x : ZMod r) + (x : ZMod r) ^ rest.length * (acc : ZMod r) := by
  induction rest generalizing acc with
  | nil => simp [castList]
  | cons c rest ih =>
    simp only [List.foldl_cons, List.reverse_cons, List.length_cons]
    rw [ih]
    simp only [castList, List.map_append, List.map_cons, List.map_nil]
    rw [eval_polyOf_append]
    simp [ZMod.natCast_mod, pow_succ]
    ring

/-- `share_is_eval`: whatever `ShareSeckey` returns is `f(id)` in `ZMod r`, reduced below `r`. -/
theorem shareSeckey_eval (r : Nat) (cs : List Nat) (x v : Nat) (h : shareSeckey r cs x = some v) :
    (v : ZMod r) = (polyOf (castList r cs)).eval (x : ZMod r) := by
  unfold shareSeckey at h
  split at h
  · simp at h
  · rename_i top rest hrev
    have hcs : cs = rest.reverse ++ [top] := by
      have := congrArg List.reverse hrev
      simpa using this
    injection h with h
    subst h
    rw [ZMod.natCast_mod, horner_foldl, hcs]
    simp only [castList, List.map_append, List.map_cons, List.map_nil]
    rw [eval_polyOf_append]
    simp

theorem shareSeckey_isSome (r : Nat) (cs : List Nat) (x : Nat) (h : cs ≠ []) :
    ∃ v, shareSeckey r cs x = some v := by
  unfold shareSeckey
  split
  · rename_i hrev; simp at hrev; exact absurd hrev h
  · exact ⟨_, rfl⟩

theorem shareSeckey_lt (r : Nat) (hr : 0 < r) (cs : List Nat) (x v : Nat) (h : shareSeckey r cs x = some v) :
    v < r := by
  unfold shareSeckey at h
  split at h
  · simp at h
  · injection h with h; subst h; exact Nat.mod_lt _ hr

theorem foldl_add_cast (r : Nat) (l : List Nat) (s : Nat) :
    ((l.foldl (fun acc x => acc + x) s : Nat) : ZMod r) = (s : ZMod r) + (List.map (Nat.cast : Nat → ZMod r) l).sum := by
  induction l generalizing s with
  | nil => simp
  | cons a l ih => simp [ih]; ring

/-- `AggregateSeckeys` is the sum in `ZMod r`. -/
theorem aggregateSeckeys_sum (r : Nat) (secs : List Nat) (v : Nat) (h : aggregateSeckeys r secs = some v) :
    (v : ZMod r) = (castList r secs).sum := by
  unfold aggregateSeckeys at h
  cases secs with
  | nil => simp at h
  | cons s rest =>
    simp only [Option.some.injEq] at h
    subst h
    rw [ZMod.natCast_mod, foldl_add_cast]
    simp [castList]

theorem aggregateSeckeys_isSome (r : Nat) (secs : List Nat) (h : secs ≠ []) :
    ∃ v, aggregateSeckeys r secs = some v := by
  cases secs with
  | nil => exact absurd rfl h
  | cons s rest => exact ⟨_, rfl⟩

end Rangers.Proofs.C13
