import Rangers.Proofs.TrieBasic
/- Lemmas about hex keys: `ValidKey`, `Nibs`, `prefixLen`. -/
namespace Rangers.Trie
open Rangers

theorem ValidKey.ne_nil {k : Key} (h : ValidKey k) : k ≠ [] := by
  intro h0; subst h0; exact h

theorem validKey_cons (x : Nat) (r : Key) :
    ValidKey (x :: r) ↔ (x = 16 ∧ r = []) ∨ (x < 16 ∧ ValidKey r) := by
  cases r with
  | nil => simp [ValidKey]
  | cons y r => simp [ValidKey]

theorem validKey_iff (k : Key) : ValidKey k ↔ ∃ n, k = n ++ [16] ∧ Nibs n := by
  induction k with
  | nil => simp [ValidKey]
  | cons x r ih =>
    rw [validKey_cons, ih]
    constructor
    · rintro (⟨rfl, rfl⟩ | ⟨hx, n, rfl, hn⟩)
      · exact ⟨[], by simp, by simp [Nibs]⟩
      · refine ⟨x :: n, by simp, ?_⟩
        intro y hy
        cases hy with
        | head => exact hx
        | tail _ h => exact hn y h
    · rintro ⟨n, hn, hN⟩
      cases n with
      | nil => left; simp at hn; exact hn
      | cons y n =>
        right
        simp at hn
        obtain ⟨rfl, rfl⟩ := hn
        exact ⟨hN x (by simp), n, rfl, fun z hz => hN z (by simp [hz])⟩

theorem Nibs.nil : Nibs [] := by simp [Nibs]
theorem nibs_cons (x : Nat) (r : Key) : Nibs (x :: r) ↔ x < 16 ∧ Nibs r := by simp [Nibs]
theorem nibs_append (a b : Key) : Nibs (a ++ b) ↔ Nibs a ∧ Nibs b := by
  simp only [Nibs, List.mem_append]
  constructor
  · intro h; exact ⟨fun x hx => h x (Or.inl hx), fun x hx => h x (Or.inr hx)⟩
  · rintro ⟨h1, h2⟩ x (hx | hx)
    · exact h1 x hx
    · exact h2 x hx
theorem Nibs.take {k : Key} (h : Nibs k) (n : Nat) : Nibs (k.take n) :=
  fun x hx => h x (List.mem_of_mem_take hx)
theorem Nibs.drop {k : Key} (h : Nibs k) (n : Nat) : Nibs (k.drop n) :=
  fun x hx => h x (List.mem_of_mem_drop hx)

/-- a nibble path followed by a valid key is a valid key, and conversely -/
theorem validKey_append (a b : Key) (hb : b ≠ []) : ValidKey (a ++ b) ↔ Nibs a ∧ ValidKey b := by
  induction a with
  | nil => simp [Nibs]
  | cons x a ih =>
    rw [List.cons_append, validKey_cons, nibs_cons, ih]
    constructor
    · rintro (⟨_, h⟩ | ⟨hx, ha, hb'⟩)
      · simp [hb] at h
      · exact ⟨⟨hx, ha⟩, hb'⟩
    · rintro ⟨⟨hx, ha⟩, hb'⟩
      exact Or.inr ⟨hx, ha, hb'⟩

/-- splitting a valid key after a nibble prefix -/
theorem ValidKey.drop_of_nibs {k kk : Key} (hk : ValidKey k) (hp : kk <+: k) (hn : Nibs kk) :
    ValidKey (k.drop kk.length) := by
  obtain ⟨s, rfl⟩ := hp
  simp only [List.drop_left]
  by_cases hs : s = []
  · subst hs
    simp only [List.append_nil] at hk
    obtain ⟨n, rfl, _⟩ := (validKey_iff _).mp hk
    have := hn 16 (by simp)
    omega
  · exact ((validKey_append kk s hs).mp hk).2

/-- a valid key is never a proper prefix of, nor properly extended by, another valid key -/
theorem ValidKey.eq_of_prefix {k kk : Key} (hk : ValidKey k) (hkk : ValidKey kk) (hp : kk <+: k) : kk = k := by
  obtain ⟨s, rfl⟩ := hp
  by_cases hs : s = []
  · simp [hs]
  · obtain ⟨n, rfl, _⟩ := (validKey_iff _).mp hkk
    have := ((validKey_append _ s hs).mp hk).1
    have := this 16 (by simp)
    omega

theorem ValidKey.not_prefix_nibs {k kk : Key} (hk : ValidKey k) (hn : Nibs kk) : ¬ (k <+: kk) := by
  rintro ⟨s, rfl⟩
  obtain ⟨n, rfl, _⟩ := (validKey_iff _).mp hk
  have := hn 16 (by simp)
  omega

theorem ValidKey.le16 {k : Key} (hk : ValidKey k) : ∀ x ∈ k, x ≤ 16 := by
  obtain ⟨n, rfl, hn⟩ := (validKey_iff _).mp hk
  intro x hx
  simp only [List.mem_append, List.mem_singleton] at hx
  rcases hx with hx | rfl
  · exact Nat.le_of_lt (hn x hx)
  · exact Nat.le_refl _

/-! ### prefixLen -/

theorem prefixLen_le_left (a b : Key) : prefixLen a b ≤ a.length := by
  induction a generalizing b with
  | nil => simp [prefixLen]
  | cons x a ih =>
    cases b with
    | nil => simp [prefixLen]
    | cons y b =>
      simp only [prefixLen]
      split
      · simp; exact ih b
      · simp

theorem prefixLen_le_right (a b : Key) : prefixLen a b ≤ b.length := by
  induction a generalizing b with
  | nil => simp [prefixLen]
  | cons x a ih =>
    cases b with
    | nil => simp [prefixLen]
    | cons y b =>
      simp only [prefixLen]
      split
      · simp; exact ih b
      · simp

theorem prefixLen_take (a b : Key) : a.take (prefixLen a b) = b.take (prefixLen a b) := by
  induction a generalizing b with
  | nil => simp [prefixLen]
  | cons x a ih =>
    cases b with
    | nil => simp [prefixLen]
    | cons y b =>
      simp only [prefixLen]
      split
      · rename_i h; subst h; simp [ih b]
      · simp

theorem prefixLen_eq_right_iff (a b : Key) : prefixLen a b = b.length ↔ b <+: a := by
  induction a generalizing b with
  | nil =>
    cases b <;> simp [prefixLen]
  | cons x a ih =>
    cases b with
    | nil => simp [prefixLen]
    | cons y b =>
      simp only [prefixLen]
      split
      · rename_i h; subst h
        simp [ih b, List.cons_prefix_cons]
      · rename_i h
        simp only [List.cons_prefix_cons]
        constructor
        · intro h0; simp at h0
        · rintro ⟨h1, _⟩; exact absurd h1.symm h

theorem prefixLen_eq_left_iff (a b : Key) : prefixLen a b = a.length ↔ a <+: b := by
  induction a generalizing b with
  | nil => simp [prefixLen]
  | cons x a ih =>
    cases b with
    | nil => simp [prefixLen]
    | cons y b =>
      simp only [prefixLen]
      split
      · rename_i h; subst h
        simp [ih b, List.cons_prefix_cons]
      · rename_i h
        simp [List.cons_prefix_cons, h]

/-- at the first mismatch the two keys differ -/
theorem prefixLen_getD_ne (a b : Key) (ha : prefixLen a b < a.length) (hb : prefixLen a b < b.length) :
    a.getD (prefixLen a b) 0 ≠ b.getD (prefixLen a b) 0 := by
  induction a generalizing b with
  | nil => simp at ha
  | cons x a ih =>
    cases b with
    | nil => simp at hb
    | cons y b =>
      simp only [prefixLen] at ha hb ⊢
      split
      · rename_i h
        simp only [h, if_true, List.length_cons, Nat.add_lt_add_iff_right] at ha hb
        simpa using ih b ha hb
      · rename_i h; simpa using h

/-- decomposition of a key at position `m < length` -/
theorem key_split (k : Key) (m : Nat) (h : m < k.length) :
    k = k.take m ++ k.getD m 0 :: k.drop (m + 1) := by
  induction k generalizing m with
  | nil => simp at h
  | cons x k ih =>
    cases m with
    | zero => simp
    | succ m =>
      simp only [List.take_succ_cons, List.cons_append, List.drop_succ_cons, List.getD_cons_succ]
      congr 1
      exact ih m (by simpa using h)

end Rangers.Trie
