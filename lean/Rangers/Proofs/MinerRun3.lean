import Rangers.Proofs.MinerRun2
/-! C20: `runTx`, `endBlock` and `run` preserve the invariant and the conserved quantity. -/
namespace Rangers.Miner

theorem runTx_preserves (cfg : Cfg) (U : List Bytes) (st : State) (tx : Tx) (hc : CodecId cfg) (hraw : RawOK cfg)
    (hsome : CodecSome cfg) (hs : SepU cfg U) (hn : U.Nodup) (hinv : Inv cfg U st) (hok : TxOK cfg tx)
    (hside : TxSide cfg U st tx) :
    Inv cfg U (runTx cfg st tx).2 ∧ wealth cfg U (runTx cfg st tx).2 = wealth cfg U st := by
  by_cases hres : (runTx cfg st tx).1 = "ok"
  · obtain ⟨st1, hfee, hex, hst⟩ := runTx_ok cfg st tx hres
    obtain ⟨hinv1, hw1⟩ := inv_fee cfg U st st1 _ hinv hfee
    have hl := processFee_live st st1 _ hfee
    have hrk' := recKeyed_execute cfg st1 tx hc hraw hok hinv1.rk
    rw [hst, ← hw1]
    cases tx with
    | apply src id typ stake acct pk vrf =>
      simp only [execute] at hex hrk' ⊢
      obtain ⟨h0, _, heq⟩ := execApply_ok cfg st1 src id typ stake acct pk vrf hex
      rw [heq] at hex hrk' ⊢
      obtain ⟨hap, hle, hnomin, _⟩ := addMiner_ok cfg st1 _ _ _ _ hex
      have htyp := addMiner_ok_typ cfg st1 _ _ _ _ hex
      rw [hap] at hrk' ⊢
      have hnone := getMiner_none cfg st1 id hnomin
      have ht : typ < 256 := by have := (not_or.mp h0).1; omega
      apply addMinerCore_preserves cfg U st1 (toAddr src) _ stake
        { id := id, typ := typ, stake := stake, status := statusNormal, applyHeight := st1.height + heightAfterStake,
          account := if isEmptySlice acct then src else acct } hsome hs hn hinv1 hside.1 ht hside.2 hle rfl
      · rcases htyp with h | h
        · simp only at h ⊢; rw [h]; exact hnone.2
        · simp only at h ⊢; rw [h]; exact hnone.1
      · exact hrk'
    | add src id delta =>
      simp only [execute] at hex hrk' ⊢
      obtain ⟨_, heq⟩ := execAdd_ok cfg st1 src id delta hex
      rw [heq] at hex hrk' ⊢
      by_cases hd : delta = 0
      · subst hd
        have : addStake cfg st1 (toAddr src) id 0 = ("ok", st1) := by simp [addStake]
        rw [this]; exact ⟨hinv1, rfl⟩
      · obtain ⟨m, hm, hap, hle⟩ := addStake_ok cfg st1 _ id delta hd hex
        rw [hap] at hrk' ⊢
        obtain ⟨_, _, _, hmid, _⟩ := getMiner_some cfg st1 id m hinv1.rk hm
        subst hmid
        exact addStakeCore_preserves cfg U st1 (toAddr src) m _ delta hs hn hinv1 hside.1 hm hside.2.1
          (fun d => by rw [stakeAt_of_live cfg st st1 hl.1]; exact hside.2.2 d) hle rfl rfl rfl hrk'
    | refund src id amount =>
      simp only [execute] at hex hrk' ⊢
      obtain ⟨m, hm, hsrc, hle, hap⟩ := execRefund_ok cfg st1 src id amount hex
      rw [hap] at hrk' ⊢
      exact refundApply_preserves cfg U st1 id src m _ hs hn hinv1 hside.1 hm hle hsrc.symm hside.2.1
        (by rw [hl.2.2.1, hl.2.2.2.2.2]; exact noClash_spec st src hside.2.2) hrk'
    | chacc src id na =>
      simp only [execute] at hex hrk' ⊢
      obtain ⟨m, hm, _, _, _, hap⟩ := execChacc_ok cfg st1 src id na hex
      rw [hap] at hrk' ⊢
      exact chacc_preserves cfg U st1 id na m hs hn hinv1 hside hm hrk'
    | bad k src => cases k <;> simp [execute] at hex
  · rcases runTx_fail_state cfg st tx hres with h | h
    · rw [h]; exact ⟨hinv, rfl⟩
    · exact inv_fee cfg U st _ _ hinv h

theorem endBlock_preserves (cfg : Cfg) (U : List Bytes) (st : State) (n : Nat) (hinv : Inv cfg U st) :
    Inv cfg U (endBlock st n) ∧ wealth cfg U (endBlock st n) = wealth cfg U st := by
  have hA := escrowAddAll_spec st st.pending
  have hAk := escrowAddAll_keys st st.pending hinv.a20.1 hinv.a20.2
  have hAl := escrowAddAll_live st st.pending
  have hC := checkAndMove_total (escrowAddAll st st.pending) (escrowAddAll st st.pending).height hAk
  have hCf := cam_fold_fields (escrowAddAll st st.pending).height ((escrowKeys (escrowAddAll st st.pending) (escrowAddAll st st.pending).height).map
    (fun a => (a, (escrowAddAll st st.pending).escOf (escrowAddAll st st.pending).height a))) (escrowAddAll st st.pending)
  have hCk := cam_fold_keys (escrowAddAll st st.pending).height ((escrowKeys (escrowAddAll st st.pending) (escrowAddAll st st.pending).height).map
    (fun a => (a, (escrowAddAll st st.pending).escOf (escrowAddAll st st.pending).height a))) (escrowAddAll st st.pending) hAk
    (by intro e he; obtain ⟨a, ha, rfl⟩ := List.mem_map.mp he; exact escrowKeys_20 _ _ hAk a ha)
  rw [← checkAndMove_eq] at hCf hCk
  have hlive : (endBlock st n).live = st.live := endBlock_live st n
  have hbal : (endBlock st n).bal = (checkAndMove (escrowAddAll st st.pending) (escrowAddAll st st.pending).height).bal := rfl
  have hesc : (endBlock st n).escrow = (checkAndMove (escrowAddAll st st.pending) (escrowAddAll st st.pending).height).escrow := rfl
  have hpend : (endBlock st n).pending = [] := rfl
  refine ⟨⟨recKeyed_of_live cfg st _ hlive hinv.rk, clean_of_live cfg U st _ hlive hinv.clean, by rw [hpend]; simp, ?_⟩, ?_⟩
  · unfold A20
    rw [hpend, hesc]
    exact ⟨hCk, by intro p hp; cases hp⟩
  · unfold wealth
    rw [balTotal_of_bal _ _ hbal, escTotal_of_escrow _ _ hesc, hpend, stakeTotal_of_live cfg U st _ hlive]
    have hb0 : balTotal (escrowAddAll st st.pending) = balTotal st := balTotal_of_bal _ _ hA.2.1
    have : pendingSum ([] : List (Nat × List (Bytes × Nat))) = 0 := rfl
    rw [this]
    omega

theorem inv_wealth_congr (cfg : Cfg) (U : List Bytes) (st st' : State) (hl : st'.live = st.live) (hb : st'.bal = st.bal)
    (hp : st'.pending = st.pending) (he : st'.escrow = st.escrow) (hinv : Inv cfg U st) :
    Inv cfg U st' ∧ wealth cfg U st' = wealth cfg U st := by
  refine ⟨⟨recKeyed_of_live cfg st st' hl hinv.rk, clean_of_live cfg U st st' hl hinv.clean, by rw [hp]; exact hinv.pn,
    by unfold A20; rw [he, hp]; exact hinv.a20⟩, ?_⟩
  unfold wealth
  rw [balTotal_of_bal st st' hb, stakeTotal_of_live cfg U st st' hl, hp, escTotal_of_escrow st st' he]

/-- Side conditions of a whole history, checked step by step along the run. -/
def RunSide (cfg : Cfg) (U : List Bytes) : State → List Op → Prop
  | _, [] => True
  | st, .tx t :: ops => TxOK cfg t ∧ TxSide cfg U st t ∧ RunSide cfg U (pkAfter t (runTx cfg st t)).2 ops
  | st, .endBlock n :: ops => RunSide cfg U (endBlock st n) ops

theorem run_preserves (cfg : Cfg) (U : List Bytes) (st : State) (ops : List Op) (hc : CodecId cfg) (hraw : RawOK cfg)
    (hsome : CodecSome cfg) (hs : SepU cfg U) (hn : U.Nodup) (hinv : Inv cfg U st) (hside : RunSide cfg U st ops) :
    Inv cfg U (run cfg st ops) ∧ wealth cfg U (run cfg st ops) = wealth cfg U st := by
  induction ops generalizing st with
  | nil => exact ⟨hinv, rfl⟩
  | cons o ops ih =>
    cases o with
    | tx t =>
      obtain ⟨hok, hts, hrest⟩ := hside
      obtain ⟨hi0, hw0⟩ := runTx_preserves cfg U st t hc hraw hsome hs hn hinv hok hts
      have hf := pkAfter_fields t (runTx cfg st t)
      obtain ⟨hi, hw1⟩ := inv_wealth_congr cfg U _ (pkAfter t (runTx cfg st t)).2 hf.2.1 hf.2.2.2.1 hf.2.2.2.2.1 hf.2.2.2.2.2.1 hi0
      obtain ⟨hi2, hw2⟩ := ih (pkAfter t (runTx cfg st t)).2 hi hrest
      exact ⟨hi2, hw2.trans (hw1.trans hw0)⟩
    | endBlock n =>
      obtain ⟨hi, hw⟩ := endBlock_preserves cfg U st n hinv
      obtain ⟨hi2, hw2⟩ := ih (endBlock st n) hi hside
      exact ⟨hi2, hw2.trans hw⟩

theorem inv_genesis (cfg : Cfg) (U : List Bytes) (h : Nat) (bal : List (Bytes × Nat)) :
    Inv cfg U { State.empty h with bal := bal } := by
  refine ⟨recKeyed_empty cfg _ (fun _ => rfl), ?_, ?_, ?_⟩
  · intro d j _ _
    simp [stakeAt, State.empty, Store.get, u64]
  · simp [State.empty]
  · unfold A20
    simp [State.empty]

end Rangers.Miner
