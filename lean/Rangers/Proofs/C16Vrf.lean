import Mathlib.Tactic.Abel
import Mathlib.Algebra.Group.Basic
import Rangers.Model.Vrf
import Rangers.Proofs.C16Bytes
/-! Lemmas about `proveWith`/`verifyWith` for any interface that satisfies the group laws. -/
namespace Rangers.Proofs.C16Vrf
open Rangers Rangers.Model Rangers.Model.Vrf Rangers.Proofs.C16Bytes

/-- What the theorems assume of the interface: the operations are those of a
    commutative group written additively, `B := smulBase 1` and every
    hash-to-curve output are killed by `L`, and the point codec round-trips.
    For `ed25519Ops` this is the group law of edwards25519 (trusted base). -/
structure Lawful {P : Type} [AddCommGroup P] (o : Ops P) : Prop where
  sub_eq : ∀ a b, o.sub a b = a - b
  smul_eq : ∀ (k : Nat) a, o.smul k a = k • a
  smulBase_eq : ∀ k : Nat, o.smulBase k = k • o.smulBase 1
  L_pos : 0 < o.L
  L_le : o.L ≤ 2 ^ 256
  base_torsion : o.L • o.smulBase 1 = 0
  h2c_torsion : ∀ m pk, o.L • o.decodeLax (o.hashToCurve m pk) = 0
  encode_len : ∀ a, (o.encode a).length = 32
  hash_len : ∀ a b c d, (o.hashPoints a b c d).length = 16
  decode_encode : ∀ a, o.decodeStrict (o.encode a) = some a
  decodeLax_encode : ∀ a, o.decodeLax (o.encode a) = a

/-- The decision `ECVRFVerify` takes once the three slices are cut out. -/
def verifyParts {P : Type} (o : Ops P) (pk m gb cb sb : Bytes) : Except Err Bool :=
  match o.decodeStrict gb with
  | none => .error .decode
  | some gamma =>
    let c := leNat cb
    let s := leNat sb % o.L
    let hP := o.decodeLax (o.hashToCurve m pk)
    let y := o.decodeLax (VrfCurve.fit 32 pk)
    let u := o.sub (o.smulBase s) (o.smul c y)
    let v := o.sub (o.smul s hP) (o.smul c gamma)
    .ok (o.hashPoints hP gamma u v == cb)

theorem slices_of_len {pi : Bytes} (h : proveSize ≤ pi.length) :
    slices pi = some (pi.take 32, (pi.drop 32).take 16, (pi.drop 48).take 32) := by
  have : ¬ pi.length < proveSize := by omega
  simp [slices, this]

theorem verifyWith_eq_parts {P : Type} (o : Ops P) (pk pi m : Bytes) :
    verifyWith o pk pi m =
      verifyParts o pk m ((tryZeroPadding pi).take 32) (((tryZeroPadding pi).drop 32).take 16)
        (((tryZeroPadding pi).drop 48).take 32) := by
  unfold verifyWith verifyParts
  simp only [slices_of_len (pad_length_ge pi)]
  rfl

theorem verifyWith_append {P : Type} (o : Ops P) (pk m gb cb sb junk : Bytes)
    (hg : gb.length = 32) (hc : cb.length = 16) (hs : sb.length = 32) :
    verifyWith o pk (gb ++ cb ++ sb ++ junk) m = verifyParts o pk m gb cb sb := by
  rw [verifyWith_eq_parts]
  have hl : proveSize ≤ (gb ++ cb ++ sb ++ junk).length := by
    simp [proveSize, hg, hc, hs]; omega
  rw [pad_of_len_ge _ hl]
  have e1 : (gb ++ cb ++ sb ++ junk).take 32 = gb := by
    rw [List.append_assoc, List.append_assoc]
    exact List.take_left' hg
  have e2 : ((gb ++ cb ++ sb ++ junk).drop 32).take 16 = cb := by
    rw [List.append_assoc, List.append_assoc, List.drop_left' hg]
    exact List.take_left' hc
  have e3 : ((gb ++ cb ++ sb ++ junk).drop 48).take 32 = sb := by
    have : (gb ++ cb).length = 48 := by simp [hg, hc]
    rw [List.append_assoc (gb ++ cb), List.drop_left' this]
    exact List.take_left' hs
  rw [e1, e2, e3]

theorem leToNat_natToLE (n v : Nat) (h : v < 256 ^ n) :
    VrfCurve.leToNat (VrfCurve.natToLE n v) = v := by
  induction n generalizing v with
  | zero => simp [VrfCurve.natToLE, VrfCurve.leToNat] at *; omega
  | succ n ih =>
    have hv : v / 256 < 256 ^ n := by
      rw [Nat.pow_succ] at h
      exact Nat.div_lt_of_lt_mul (by rw [Nat.mul_comm]; exact h)
    have := ih (v / 256) hv
    simp only [VrfCurve.natToLE, VrfCurve.leToNat, List.foldr_cons] at *
    rw [this]
    have : (UInt8.ofNat (v % 256)).toNat = v % 256 := by
      simp [UInt8.toNat_ofNat']
    rw [this]
    omega

theorem natToLE_length (n v : Nat) : (VrfCurve.natToLE n v).length = n := by
  induction n generalizing v with
  | zero => simp [VrfCurve.natToLE]
  | succ n ih => simp [VrfCurve.natToLE, ih]

theorem fit_of_len (n : Nat) (bs : Bytes) (h : bs.length = n) : VrfCurve.fit n bs = bs := by
  subst h
  simp [VrfCurve.fit]

section Algebra
variable {P : Type} [AddCommGroup P]

/-- `((c·x + k) mod L)·A − c·(x·A) = k·A` when `L·A = 0`: the verifier recomputes the prover's commitment. -/
theorem commit_recovered (L c x k : Nat) (A : P) (hA : L • A = 0) :
    ((c * x + k) % L) • A - c • (x • A) = k • A := by
  have h1 : (c * x + k) • A = ((c * x + k) % L) • A := by
    conv_lhs => rw [← Nat.div_add_mod (c * x + k) L]
    rw [add_nsmul, mul_nsmul, hA, nsmul_zero, zero_add]
  rw [← h1, add_nsmul, mul_nsmul']
  abel

/-- scalars are only used modulo `L` on `L`-torsion points -/
theorem smul_mod (L s : Nat) (A : P) (hA : L • A = 0) : (s % L) • A = s • A := by
  conv_rhs => rw [← Nat.div_add_mod s L]
  rw [add_nsmul, mul_nsmul, hA, nsmul_zero, zero_add]

end Algebra

end Rangers.Proofs.C16Vrf

namespace Rangers.Proofs.C16Vrf
open Rangers Rangers.Model Rangers.Model.Vrf Rangers.Proofs.C16Bytes

/-- the point `H = hash_to_curve(m, pk)` both sides compute -/
def hPt {P : Type} (o : Ops P) (m pk : Bytes) : P := o.decodeLax (o.hashToCurve m pk)

/-- challenge for a commitment made with nonce `k` and a claimed `gamma` -/
def chal {P : Type} (o : Ops P) (m pk : Bytes) (gamma : P) (k : Nat) : Bytes :=
  o.hashPoints (hPt o m pk) gamma (o.smulBase k) (o.smul k (hPt o m pk))

/-- response `s = c·x + k mod L`, 32 bytes little endian -/
def respond {P : Type} (o : Ops P) (cb : Bytes) (x k : Nat) : Bytes :=
  natLE 32 ((leNat cb * x + k) % o.L)

theorem leNat_respond {P : Type} [AddCommGroup P] (o : Ops P) (law : Lawful o) (cb : Bytes) (x k : Nat) :
    leNat (respond o cb x k) % o.L = (leNat cb * x + k) % o.L := by
  have hlt : (leNat cb * x + k) % o.L < 256 ^ 32 := by
    have h1 : (leNat cb * x + k) % o.L < o.L := Nat.mod_lt _ law.L_pos
    have h2 : o.L ≤ 2 ^ 256 := law.L_le
    have h3 : (256 : Nat) ^ 32 = 2 ^ 256 := by decide
    omega
  unfold leNat at hlt
  unfold respond leNat natLE
  rw [leToNat_natToLE 32 _ hlt, Nat.mod_mod]

/-- A prover who knows `x` may add to `x·H` any point `T` that the challenge
    annihilates: the proof still verifies. `T = 0` is the honest prover. -/
theorem verifyParts_shifted {P : Type} [AddCommGroup P] (o : Ops P) (law : Lawful o)
    (pk m : Bytes) (x k : Nat) (T : P)
    (hlen : pk.length = 32) (hpk : pk = o.encode (o.smulBase x))
    (hT : leNat (chal o m pk (o.smul x (hPt o m pk) + T) k) • T = 0) :
    verifyParts o pk m (o.encode (o.smul x (hPt o m pk) + T))
      (chal o m pk (o.smul x (hPt o m pk) + T) k)
      (respond o (chal o m pk (o.smul x (hPt o m pk) + T) k) x k) = .ok true := by
  unfold verifyParts
  rw [law.decode_encode]
  simp only []
  rw [leNat_respond o law, fit_of_len 32 pk hlen]
  have hy : o.decodeLax pk = o.smulBase x := by rw [hpk, law.decodeLax_encode]
  rw [hy]
  generalize hc : chal o m pk (o.smul x (hPt o m pk) + T) k = cb at hT ⊢
  have hU : o.sub (o.smulBase ((leNat cb * x + k) % o.L)) (o.smul (leNat cb) (o.smulBase x)) = o.smulBase k := by
    rw [law.sub_eq, law.smul_eq, law.smulBase_eq ((leNat cb * x + k) % o.L), law.smulBase_eq x, law.smulBase_eq k]
    exact commit_recovered o.L (leNat cb) x k _ law.base_torsion
  have hV : o.sub (o.smul ((leNat cb * x + k) % o.L) (o.decodeLax (o.hashToCurve m pk)))
      (o.smul (leNat cb) (o.smul x (hPt o m pk) + T)) = o.smul k (hPt o m pk) := by
    rw [law.sub_eq, law.smul_eq, law.smul_eq (leNat cb), law.smul_eq x, law.smul_eq k, nsmul_add, hT, add_zero]
    exact commit_recovered o.L (leNat cb) x k _ (law.h2c_torsion m pk)
  rw [hU, hV]
  have : o.hashPoints (o.decodeLax (o.hashToCurve m pk)) (o.smul x (hPt o m pk) + T) (o.smulBase k)
      (o.smul k (hPt o m pk)) = cb := hc
  rw [this]
  simp

theorem outputOf_append {P : Type} (gb cb sb : Bytes) (hg : gb.length = 32) (hc : cb.length = 16)
    (hs : sb.length = 32) (_o : Ops P) : outputOf (gb ++ cb ++ sb) = gb := by
  unfold outputOf
  rw [pad_of_len_ge _ (by simp [proveSize, hg, hc, hs]), List.append_assoc]
  exact List.take_left' hg


end Rangers.Proofs.C16Vrf
