import Rangers.Model.TrieDecode
/- RLP: big-endian lengths round-trip; splitting an encoded item gives back its payload. -/
namespace Rangers.Trie
open Rangers

/-! ### big-endian naturals -/

theorem beToNat_foldl (bs : Bytes) (a : Nat) :
    bs.foldl (fun acc b => acc * 256 + b.toNat) a = a * 256 ^ bs.length + beToNat bs := by
  induction bs generalizing a with
  | nil => simp [beToNat]
  | cons b bs ih =>
    simp only [List.foldl_cons, beToNat, List.length_cons]
    rw [ih, ih (0 * 256 + b.toNat)]
    simp only [Nat.zero_mul, Nat.zero_add, Nat.pow_succ]
    rw [Nat.add_mul, Nat.mul_assoc, Nat.mul_comm 256, Nat.add_assoc]

theorem beToNat_cons (b : UInt8) (bs : Bytes) : beToNat (b :: bs) = b.toNat * 256 ^ bs.length + beToNat bs := by
  simp only [beToNat, List.foldl_cons, Nat.zero_mul, Nat.zero_add]
  exact beToNat_foldl bs b.toNat

theorem natToBE_go_spec (fuel n : Nat) (acc : Bytes) (h : n < fuel) :
    beToNat (natToBE.go fuel n acc) = n * 256 ^ acc.length + beToNat acc ∧
    (∀ k, n < 256 ^ k → (natToBE.go fuel n acc).length ≤ acc.length + k) ∧
    (0 < n → (natToBE.go fuel n acc).headD 0 ≠ 0) ∧
    (n = 0 → natToBE.go fuel n acc = acc) := by
  induction fuel generalizing n acc with
  | zero => omega
  | succ fuel ih =>
    simp only [natToBE.go]
    by_cases hn : n = 0
    · subst hn; simp
    · simp only [hn, if_false]
      have hlt : n / 256 < fuel := by
        have : n / 256 < n := Nat.div_lt_self (by omega) (by omega)
        omega
      obtain ⟨i1, i2, i3, i4⟩ := ih (n / 256) (UInt8.ofNat (n % 256) :: acc) hlt
      have hto : (UInt8.ofNat (n % 256)).toNat = n % 256 := by
        simp [UInt8.toNat_ofNat]
      refine ⟨?_, ?_, ?_, fun h0 => by simp [hn] at h0⟩
      · rw [i1, beToNat_cons, hto]
        simp only [List.length_cons, Nat.pow_succ]
        have h256 := Nat.div_add_mod n 256
        generalize 256 ^ acc.length = P
        have : n / 256 * (P * 256) + n % 256 * P = (256 * (n / 256) + n % 256) * P := by
          rw [Nat.add_mul, Nat.mul_comm P 256, ← Nat.mul_assoc, Nat.mul_comm (n / 256) 256]
        rw [← Nat.add_assoc, this, h256]
      · intro k hk
        cases k with
        | zero => simp at hk; omega
        | succ k =>
          have : n / 256 < 256 ^ k := by
            rw [Nat.pow_succ] at hk
            exact Nat.div_lt_of_lt_mul (by rw [Nat.mul_comm]; exact hk)
          have := i2 k this
          simp only [List.length_cons] at this
          omega
      · intro _
        by_cases hq : n / 256 = 0
        · rw [i4 hq]
          simp only [List.headD_cons]
          intro h0
          have : (UInt8.ofNat (n % 256)).toNat = 0 := by rw [h0]; rfl
          rw [hto] at this
          have := Nat.div_add_mod n 256
          omega
        · exact i3 (by omega)

theorem beToNat_natToBE (n : Nat) : beToNat (natToBE n) = n := by
  have := (natToBE_go_spec (n + 1) n [] (by omega)).1
  simpa [natToBE, beToNat] using this

theorem natToBE_length_le (n k : Nat) (h : n < 256 ^ k) : (natToBE n).length ≤ k := by
  have := (natToBE_go_spec (n + 1) n [] (by omega)).2.1 k h
  simpa [natToBE] using this

theorem natToBE_head_ne_zero (n : Nat) (h : 0 < n) : (natToBE n).headD 0 ≠ 0 :=
  (natToBE_go_spec (n + 1) n [] (by omega)).2.2.1 h

theorem natToBE_length_pos (n : Nat) (h : 0 < n) : 0 < (natToBE n).length := by
  have := natToBE_head_ne_zero n h
  cases hl : natToBE n with
  | nil => rw [hl] at this; simp at this
  | cons _ _ => simp



/-! ### splitting what the encoder wrote -/

set_option maxRecDepth 8000

theorem ofNat_toNat_lt (n : Nat) (h : n < 256) : (UInt8.ofNat n).toNat = n := by
  simp [UInt8.toNat_ofNat, Nat.mod_eq_of_lt h]

/-- `readKind` on `rlpHead off len ++ payload ++ rest` for the long form (`len ≥ 56`) -/
theorem readSize_natToBE (len : Nat) (tail : Bytes) (h56 : 56 ≤ len) :
    readSize (natToBE len ++ tail) (natToBE len).length = some len := by
  unfold readSize
  have hpos := natToBE_length_pos len (by omega)
  have hhead := natToBE_head_ne_zero len (by omega)
  simp only [List.length_append, List.take_left']
  have h1 : ¬ ((natToBE len).length + tail.length < (natToBE len).length) := by omega
  have h2 : (natToBE len ++ tail).headD 0 = (natToBE len).headD 0 := by
    cases hl : natToBE len with
    | nil => rw [hl] at hpos; simp at hpos
    | cons _ _ => rfl
  have h3 : ¬ (len < 56 ∨ (natToBE len).headD 0 = 0) := by
    intro h; rcases h with h | h
    · omega
    · exact hhead h
  simp only [h1, if_false, List.take_left, beToNat_natToBE, h2, h3]

/-- reading back one encoded item (string or list) followed by anything -/
theorem readKind_item (isList : Bool) (payload rest : Bytes) (hlen : payload.length < 256 ^ 8) :
    ∃ k ts, readKind ((if isList then rlpList payload else rlpString payload) ++ rest) = some (k, ts, payload.length) ∧
      (k = RKind.list ↔ isList = true) ∧
      (if isList then rlpList payload else rlpString payload).length = ts + payload.length ∧
      ((if isList then rlpList payload else rlpString payload) ++ rest).drop ts = payload ++ rest := by
  -- the generic header `rlpHead off len ++ payload`
  have hgen : ∀ (off : Nat) (kind : RKind), (off = 0x80 ∧ kind = .string ∧ payload.length ≠ 1) ∨ (off = 0xc0 ∧ kind = .list) →
      ∃ ts, readKind ((rlpHead off payload.length ++ payload) ++ rest) = some (kind, ts, payload.length) ∧
        (rlpHead off payload.length ++ payload).length = ts + payload.length ∧
        ((rlpHead off payload.length ++ payload) ++ rest).drop ts = payload ++ rest := by
    intro off kind hoff
    unfold rlpHead
    by_cases h56 : payload.length < 56
    · simp only [h56, if_true]
      refine ⟨1, ?_, by simp; omega, by simp⟩
      rcases hoff with ⟨rfl, rfl, hne1⟩ | ⟨rfl, rfl⟩
      · have hto := ofNat_toNat_lt (0x80 + payload.length) (by omega)
        simp only [readKind, List.cons_append, List.nil_append, hto]
        have c1 : ¬ (0x80 + payload.length < 0x80) := by omega
        have c2 : 0x80 + payload.length < 0xB8 := by omega
        have c3 : ¬ (0x80 + payload.length - 0x80 = 1 ∧ 0 < (payload ++ rest).length ∧ ((payload ++ rest).headD 0).toNat < 128) := by
          intro h; omega
        simp only [c1, c2, c3, if_false, if_true, Option.bind_some, List.length_cons, List.length_append]
        simp only [Nat.add_sub_cancel_left]
        rw [if_neg (fun h => hne1 h.1)]
        simp only [Option.bind_some]
        rw [if_neg (by omega)]
      · have hto := ofNat_toNat_lt (0xc0 + payload.length) (by omega)
        simp only [readKind, List.cons_append, List.nil_append, hto]
        have c1 : ¬ (0xc0 + payload.length < 0x80) := by omega
        have c2 : ¬ (0xc0 + payload.length < 0xB8) := by omega
        have c3 : ¬ (0xc0 + payload.length < 0xC0) := by omega
        have c4 : 0xc0 + payload.length < 0xF8 := by omega
        simp only [c1, c2, c3, c4, if_false, if_true, Option.bind_some, List.length_cons, List.length_append]
        simp only [Nat.add_sub_cancel_left]
        rw [if_neg (by omega)]
    · simp only [h56, if_false]
      have hl8 := natToBE_length_le payload.length 8 hlen
      have hlpos := natToBE_length_pos payload.length (by omega)
      refine ⟨1 + (natToBE payload.length).length, ?_, by simp; omega, ?_⟩
      · have hrs := readSize_natToBE payload.length (payload ++ rest) (by omega)
        rcases hoff with ⟨rfl, rfl, _⟩ | ⟨rfl, rfl⟩
        · have hto := ofNat_toNat_lt (0x80 + 55 + (natToBE payload.length).length) (by omega)
          simp only [readKind, List.cons_append, List.append_assoc, hto]
          have c1 : ¬ (0x80 + 55 + (natToBE payload.length).length < 0x80) := by omega
          have c2 : ¬ (0x80 + 55 + (natToBE payload.length).length < 0xB8) := by omega
          have c3 : 0x80 + 55 + (natToBE payload.length).length < 0xC0 := by omega
          have e1 : 0x80 + 55 + (natToBE payload.length).length - 0xB7 = (natToBE payload.length).length := by omega
          simp only [c1, c2, c3, if_false, if_true, e1, hrs, Option.map_some, Option.bind_some,
            List.length_cons, List.length_append]
          have c5 : ¬ ((natToBE payload.length).length + (payload.length + rest.length) + 1 - ((natToBE payload.length).length + 1) < payload.length) := by omega
          simp only [c5, if_false]
          congr 3; omega
        · have hto := ofNat_toNat_lt (0xc0 + 55 + (natToBE payload.length).length) (by omega)
          simp only [readKind, List.cons_append, List.append_assoc, hto]
          have c1 : ¬ (0xc0 + 55 + (natToBE payload.length).length < 0x80) := by omega
          have c2 : ¬ (0xc0 + 55 + (natToBE payload.length).length < 0xB8) := by omega
          have c3 : ¬ (0xc0 + 55 + (natToBE payload.length).length < 0xC0) := by omega
          have c4 : ¬ (0xc0 + 55 + (natToBE payload.length).length < 0xF8) := by omega
          have e1 : 0xc0 + 55 + (natToBE payload.length).length - 0xF7 = (natToBE payload.length).length := by omega
          simp only [c1, c2, c3, c4, if_false, e1, hrs, Option.map_some, Option.bind_some,
            List.length_cons, List.length_append]
          have c5 : ¬ ((natToBE payload.length).length + (payload.length + rest.length) + 1 - ((natToBE payload.length).length + 1) < payload.length) := by omega
          simp only [c5, if_false]
          congr 3; omega
      · simp only [List.cons_append, List.append_assoc]
        rw [Nat.add_comm 1, List.drop_succ_cons, List.drop_left]
  cases isList with
  | true =>
    obtain ⟨ts, h1, h2, h3⟩ := hgen 0xc0 .list (Or.inr ⟨rfl, rfl⟩)
    exact ⟨.list, ts, by simpa [rlpList] using h1, by simp, by simpa [rlpList] using h2, by simpa [rlpList] using h3⟩
  | false =>
    simp only [Bool.false_eq_true, if_false]
    -- single bytes are special
    by_cases h1 : payload.length = 1
    · obtain ⟨x, rfl⟩ : ∃ x, payload = [x] := by
        cases payload with
        | nil => simp at h1
        | cons x t => cases t with
          | nil => exact ⟨x, rfl⟩
          | cons _ _ => simp at h1
      by_cases hx : x < 0x80
      · have hxn : x.toNat < 0x80 := by simpa [UInt8.lt_iff_toNat_lt] using hx
        refine ⟨.byte, 0, ?_, by simp, by simp [rlpString, hx], by simp [rlpString, hx]⟩
        simp [rlpString, hx, readKind, hxn]
      · have hxn : ¬ x.toNat < 0x80 := by simpa [UInt8.lt_iff_toNat_lt] using hx
        refine ⟨.string, 1, ?_, by simp, by simp [rlpString, hx, rlpHead], by simp [rlpString, hx, rlpHead]⟩
        have hto : (UInt8.ofNat (128 + 1)).toNat = 129 := by decide
        simp only [rlpString, hx, if_false, rlpHead, List.length_singleton, Nat.lt_irrefl, Nat.reduceLT, if_true,
          List.cons_append, List.nil_append, readKind, hto]
        rw [if_neg (by intro h; have := h.2.2; simp at this; omega)]
        simp only [Option.bind_some, List.length_cons]
        rw [if_neg (by omega)]
    · obtain ⟨ts, h2, h3, h4⟩ := hgen 0x80 .string (Or.inl ⟨rfl, rfl, h1⟩)
      have hrs : rlpString payload = rlpHead 0x80 payload.length ++ payload := by
        unfold rlpString
        split
        · rename_i x; simp at h1
        · rfl
      rw [hrs]
      exact ⟨.string, ts, h2, by simp, h3, h4⟩

theorem rlpSplit_item (isList : Bool) (payload rest : Bytes) (hlen : payload.length < 256 ^ 8) :
    ∃ k, rlpSplit ((if isList then rlpList payload else rlpString payload) ++ rest) = some (k, payload, rest) ∧
      (k = RKind.list ↔ isList = true) := by
  obtain ⟨k, ts, h1, h2, h3, h4⟩ := readKind_item isList payload rest hlen
  refine ⟨k, ?_, h2⟩
  have e1 : ((if isList = true then rlpList payload else rlpString payload) ++ rest).drop (ts + payload.length) = rest := by
    rw [← List.drop_drop, h4, List.drop_left]
  simp only [rlpSplit, h1, Option.map_some, h4, List.take_left, e1]

end Rangers.Trie
