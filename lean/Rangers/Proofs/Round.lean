import Rangers.Model.Round
/-! Helper lemmas about the signing-round model (generators and `update`). -/
namespace Rangers.Proofs.Round
open Rangers.Model.Round

variable {G : Type}

/-! ### groupSignGenerator -/

theorem has_eq_true_iff (g : Gen G) (id : Id) : g.has id = true ↔ id ∈ g.witness.map (·.1) := by
  simp [Gen.has, List.any_eq_true, List.mem_map]

theorem genGroupSign_witness (c : Crypto G) (g : Gen G) :
    (g.genGroupSign c).1.witness = g.witness ∧ (g.genGroupSign c).1.threshold = g.threshold := by
  unfold Gen.genGroupSign
  split <;> simp

theorem genGroupSign_snd (c : Crypto G) (g : Gen G) : (g.genGroupSign c).2 = true := by
  unfold Gen.genGroupSign
  split <;> simp

theorem addWitnessForce_cases (c : Crypto G) (g : Gen G) (id : Id) (s : G) :
    ((g.addWitnessForce c id s).2.1 = false ∧ (g.addWitnessForce c id s).1 = g) ∨
    ((g.addWitnessForce c id s).2.1 = true ∧ (g.addWitnessForce c id s).1.witness = g.witness ++ [(id, s)] ∧
      (g.addWitnessForce c id s).1.threshold = g.threshold ∧ g.has id = false) := by
  unfold Gen.addWitnessForce
  by_cases hh : g.has id = true
  · left; rw [if_pos hh]; exact ⟨rfl, rfl⟩
  · right
    have hh' : g.has id = false := by simpa using hh
    rw [if_neg hh]
    simp only []
    split
    · have := genGroupSign_witness c { g with witness := g.witness ++ [(id, s)] }
      exact ⟨rfl, this.1, this.2, hh'⟩
    · exact ⟨rfl, rfl, rfl, hh'⟩

/-- What `AddWitnessSign` can do: nothing (`add = false`), or append exactly the offered entry. -/
theorem addWitnessSign_cases (c : Crypto G) (g : Gen G) (id : Id) (s : G) :
    ((g.addWitnessSign c id s).2.1 = false ∧ (g.addWitnessSign c id s).1 = g) ∨
    ((g.addWitnessSign c id s).2.1 = true ∧ (g.addWitnessSign c id s).1.witness = g.witness ++ [(id, s)] ∧
      (g.addWitnessSign c id s).1.threshold = g.threshold ∧ g.has id = false ∧ g.recovered c = false) := by
  unfold Gen.addWitnessSign
  by_cases hr : g.recovered c = true
  · left; rw [if_pos hr]; exact ⟨rfl, rfl⟩
  · have hr' : g.recovered c = false := by simpa using hr
    rw [if_neg hr]
    rcases addWitnessForce_cases c g id s with h | h
    · left; exact h
    · right; exact ⟨h.1, h.2.1, h.2.2.1, h.2.2.2, hr'⟩

/-! ### the share-set invariant (no cryptographic assumption) -/

/-- Every collected entry is a registered sender's share that verifies for the
given data, and no sender appears twice. -/
structure GenOk (c : Crypto G) (env : Env) (d : Data) (g : Gen G) : Prop where
  valid : ∀ e ∈ g.witness, e.1 ∈ env.pkKnown ∧ c.verify e.1 d e.2 = true
  nodup : (g.witness.map (·.1)).Nodup

structure Inv (c : Crypto G) (env : Env) (st : RState G) : Prop where
  g : GenOk c env env.hash st.gSign
  r : GenOk c env env.prevRandom st.rSign

theorem GenOk.new (c : Crypto G) (env : Env) (d : Data) (k : Nat) : GenOk c env d (Gen.new k : Gen G) :=
  ⟨by simp [Gen.new], by simp [Gen.new]⟩

/-- Adding through `AddWitnessSign` keeps a generator good when the offered entry is good. -/
theorem GenOk.add (c : Crypto G) (env : Env) (d : Data) (g : Gen G) (id : Id) (s : G)
    (h : GenOk c env d g) (hid : id ∈ env.pkKnown) (hv : c.verify id d s = true) :
    GenOk c env d (g.addWitnessSign c id s).1 := by
  rcases addWitnessSign_cases c g id s with h1 | h1
  · rw [h1.2]; exact h
  · obtain ⟨_, hw, _, hhas, _⟩ := h1
    constructor
    · intro e he
      rw [hw] at he
      rcases List.mem_append.mp he with he | he
      · exact h.valid e he
      · simp at he; subst he; exact ⟨hid, hv⟩
    · rw [hw, List.map_append, List.nodup_append]
      refine ⟨h.nodup, by simp, ?_⟩
      intro a ha b hb
      simp at hb
      subst hb
      intro hab
      subst hab
      have : g.has a = true := (has_eq_true_iff g a).mpr ha
      rw [hhas] at this
      exact Bool.noConfusion this

theorem contains_iff_mem (l : List Id) (a : Id) : l.contains a = true ↔ a ∈ l := by simp

/-- `round1.Update` keeps the invariant, *provided it binds the signed hash to the block* . -/
theorem update_inv (c : Crypto G) (env : Env) (hb : env.bindsHash = true) (st : RState G) (m : VMsg G)
    (h : Inv c env st) : Inv c env (update c env st m).st := by
  unfold update
  split; · exact h
  split; · exact h
  split; · exact h
  split; · exact h
  split; · exact h
  split; · exact h
  split; · exact h
  rename_i h1 h2 h3 h4 h5 h6 h7
  have hpk : m.signer ∈ env.pkKnown := by simpa using h3
  have hdh : m.dataHash = env.hash := by
    rw [hb] at h4; simpa using h4
  have hvs : c.verify m.signer env.hash m.sig = true := by
    have : (m.signerNonZero && c.verify m.signer m.dataHash m.sig) = true := by simpa using h5
    rw [hdh] at this
    exact (Bool.and_eq_true _ _ ▸ this).2
  have hvr : c.verify m.signer env.prevRandom m.rand = true := by simpa using h7
  have hg := GenOk.add c env env.hash st.gSign m.signer m.sig h.g hpk hvs
  have hr := GenOk.add c env env.prevRandom st.rSign m.signer m.rand h.r hpk hvr
  simp only []
  split; · exact h
  split
  · exact ⟨hg, hr⟩
  · exact ⟨hg, hr⟩

theorem Inv.withChain {c : Crypto G} {env : Env} {st : RState G} (b : Bool) :
    Inv c (env.withChain b) st ↔ Inv c env st :=
  ⟨fun h => ⟨⟨h.g.valid, h.g.nodup⟩, ⟨h.r.valid, h.r.nodup⟩⟩,
   fun h => ⟨⟨h.g.valid, h.g.nodup⟩, ⟨h.r.valid, h.r.nodup⟩⟩⟩

theorem startLoop_inv (c : Crypto G) (env : Env) (hb : env.bindsHash = true) (ms : List (VMsg G)) :
    ∀ st : RState G, Inv c env st → Inv c env (startLoop c env st ms).1 := by
  induction ms with
  | nil => intro st h; exact h
  | cons m rest ih =>
    intro st h
    unfold startLoop
    have hu := update_inv c env hb st m h
    simp only []
    split
    · split
      · exact ih _ hu
      · exact hu
    split; · exact hu
    exact ih _ hu

theorem start1_inv (c : Crypto G) (env : Env) (hb : env.bindsHash = true) (st : RState G)
    (h : Inv c env st) : Inv c env (start1 c env st).1 := by
  unfold start1
  split; · exact h
  simp only []
  have h0 : Inv c env { st with gSign := Gen.new (groupK env.groupSize), rSign := Gen.new (groupK env.groupSize) } :=
    ⟨GenOk.new c env _ _, GenOk.new c env _ _⟩
  split; · exact h0
  have hl := startLoop_inv c env hb st.future _ h0
  split
  · exact hl
  · exact ⟨hl.g, hl.r⟩

theorem start2_inv (c : Crypto G) (env : Env) (st : RState G) (h : Inv c env st) :
    Inv c env (start2 c env st).1 := by
  have key : (start2 c env st).1.gSign = st.gSign ∧ (start2 c env st).1.rSign = st.rSign := by
    unfold start2
    split; · exact ⟨rfl, rfl⟩
    simp only []
    split; · exact ⟨rfl, rfl⟩
    split; · exact ⟨rfl, rfl⟩
    split <;> exact ⟨rfl, rfl⟩
  exact ⟨by rw [key.1]; exact h.g, by rw [key.2]; exact h.r⟩

theorem advance_inv (c : Crypto G) (env : Env) (p : Party G) (h : Inv c env p.rs) :
    Inv c env (advance c env p).rs := by
  unfold advance
  split
  · exact h
  · split; · exact h
    simp only []
    have h2 := start2_inv c env { p.rs with canProcessed := true, number := 2 } ⟨h.g, h.r⟩
    split <;> exact h2
  · split <;> exact h

theorem partyUpdate_inv (c : Crypto G) (env : Env) (hb : env.bindsHash = true) (p : Party G) (m : VMsg G)
    (h : Inv c env p.rs) : Inv c env (partyUpdate c env p m).1.rs := by
  unfold partyUpdate
  split
  · exact h
  · exact advance_inv c env p h
  · split; · exact advance_inv c env p h
    simp only []
    have hu := update_inv c env hb p.rs m h
    split; · exact h
    split; · exact hu
    exact advance_inv c env _ hu

theorem enter_inv (c : Crypto G) (env : Env) (hb : env.bindsHash = true) (processed : List MsgId)
    (future : List (VMsg G)) : Inv c env (enter c env processed future).rs := by
  unfold enter
  simp only []
  have h0 : Inv c env (RState.init processed future : RState G) :=
    ⟨GenOk.new c env _ _, GenOk.new c env _ _⟩
  have h1 := start1_inv c env hb _ h0
  split; · exact h1
  split; · exact h1
  exact advance_inv c env _ h1

theorem settle_rs (pr : Proc G) : (settle pr).party.rs = pr.party.rs := by
  unfold settle
  split; · rfl
  split <;> rfl

theorem onVerify_inv (c : Crypto G) (env : Env) (hb : env.bindsHash = true) (pr : Proc G) (m : VMsg G)
    (h : Inv c env pr.party.rs) : Inv c env (pr.onVerify c env m).1.party.rs := by
  unfold Proc.onVerify
  split
  · split
    · simp only []
      rw [settle_rs]
      exact partyUpdate_inv c env hb pr.party m h
    · split <;> exact h
  · exact h

theorem deliver_inv (c : Crypto G) (env : Env) (hb : env.bindsHash = true) (pr : Proc G) (w : Wire G)
    (h : Inv c env pr.party.rs) : Inv c env (pr.deliver c env w).1.party.rs := by
  unfold Proc.deliver
  split
  · exact h
  · exact onVerify_inv c env hb pr _ h

theorem init_inv (c : Crypto G) (env : Env) (hb : env.bindsHash = true) (future : List (VMsg G)) :
    Inv c env (Proc.init c env future).party.rs := by
  unfold Proc.init
  rw [settle_rs]
  exact enter_inv c env hb [] future

theorem runX_inv (c : Crypto G) (env : Env) (hb : env.bindsHash = true) (ws : List (Bool × Wire G)) :
    ∀ pr : Proc G, Inv c env pr.party.rs → Inv c env (Proc.runX c env pr ws).party.rs := by
  induction ws with
  | nil => intro pr h; exact h
  | cons bw rest ih =>
    intro pr h
    obtain ⟨b, w⟩ := bw
    unfold Proc.runX
    apply ih
    apply (Inv.withChain b).mp
    exact deliver_inv c (env.withChain b) hb pr w ((Inv.withChain b).mpr h)

end Rangers.Proofs.Round
