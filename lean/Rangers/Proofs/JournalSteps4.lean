import Rangers.Proofs.JournalSteps3
/-! `RevAt` for SetStorage, GetAllRefund, AddERC20Binding. -/
namespace Rangers.Proofs.Journal
open Rangers Rangers.Model.Journal

section
variable (c : Cfg)

/-- `SetData` on a cached live object keeps it cached and live -/
theorem setDataJ_keeps {s : ADB} {a : Addr} {o : Obj} (k : Key) (v : Val)
    (hs : s.crashed = false) (hm : mget s.objs a = some o) (hd : o.deleted = false) :
    ∃ o', mget (setDataJ s a k v).objs a = some o' ∧ o'.deleted = false ∧ (setDataJ s a k v).crashed = false := by
  obtain ⟨h1, h2, _⟩ := readAt_sim k hm hd
  have hc1 : (readAt s a k).1.crashed = false := by rw [h1]; exact hs
  have hd' : (o.read k).1.deleted = false := by rw [Obj.read_fst_other]; exact hd
  have hm1 : mget (readAt s a k).1.objs a = some (o.read k).1 := by rw [h1]; simp [putObj]
  simp only [setDataJ]
  rw [show readAt s a k = ((readAt s a k).1, (readAt s a k).2) from rfl]
  simp only [hc1, Bool.false_eq_true, if_false]
  by_cases hv : v = (readAt s a k).2
  · simp only [hv, if_true]; exact ⟨_, hm1, hd', hc1⟩
  · simp only [hv, if_false, setDataRaw, hm1]
    refine ⟨{ ({ (o.read k).1 with cached := mset (o.read k).1.cached k v, dirty := mset (o.read k).1.dirty k v } : Obj) with armed := false }, ?_, hd', ?_⟩
    · rw [markDirty_objs]; exact mget_mset_self _ _ _
    · rw [markDirty_crashed]

theorem revAt_foldData (a : Addr) (kvs : List (Key × Val)) :
    ∀ (s : ADB) (o : Obj), s.crashed = false → mget s.objs a = some o → o.deleted = false →
      RevAt c (fun x => kvs.foldl (fun acc p => setDataJ acc a p.1 p.2) x) s := by
  induction kvs with
  | nil => intro s _ _ _ _; exact RevAt.id c s
  | cons p rest ih =>
    intro s o hs hm hd
    obtain ⟨o', hm', hd', hc'⟩ := setDataJ_keeps p.1 p.2 hs hm hd
    have h1 := revAt_setDataJ c p.1 p.2 hs hm hd
    have h2 := ih (setDataJ s a p.1 p.2) o' hc' hm' hd'
    exact RevAt.congr_at (f' := fun x => rest.foldl (fun acc p => setDataJ acc a p.1 p.2) (setDataJ x a p.1 p.2)) rfl
      (RevAt.comp h1 h2)

theorem revAt_setStorage (s : ADB) (a : Addr) (kvs : List (Key × Val)) : RevAt c (fun x => setStorage x a kvs) s :=
  revAt_viaResolveNew c s a _ (fun s1 _ => kvs.foldl (fun acc p => setDataJ acc a p.1 p.2) s1) (!kvs.isEmpty)
    (fun h => by simp [setStorage, h])
    (fun h => by
      simp only [setStorage, h, Bool.false_eq_true, if_false]
      rcases resolveNew s a with ⟨s1, _ | _⟩
      · cases kvs.isEmpty <;> simp
      · rfl)
    (fun s1 o h1 hm hd => revAt_foldData c a kvs s1 o h1 hm hd)

/-! ### GetAllRefund -/

theorem mget_cacheFold (l : List (Key × Val)) (cd : List (Key × Val)) (k : Key) :
    mget (l.foldl (fun c p => if (mget c p.1).isSome then c else mset c p.1 p.2) cd) k =
      (match mget cd k with | some v => some v | none => mget l k) := by
  induction l generalizing cd with
  | nil => simp only [List.foldl]; cases h : mget cd k <;> simp [mget]
  | cons p t ih =>
    obtain ⟨k1, v1⟩ := p
    simp only [List.foldl]
    rw [ih]
    by_cases hs : (mget cd k1).isSome = true
    · simp only [hs, if_true]
      cases hck : mget cd k with
      | some v => rfl
      | none =>
        simp only [mget]
        by_cases hk : k1 = k
        · subst hk; rw [hck] at hs; cases hs
        · simp [hk]
    · simp only [hs, Bool.false_eq_true, if_false, mget_mset, mget]
      by_cases hk : k1 = k
      · subst hk
        have : mget cd k1 = none := by cases h : mget cd k1 with | none => rfl | some _ => simp [h] at hs
        simp [this]
      · simp only [hk, if_false]

theorem cacheAll_get (o : Obj) (k : Key) : o.cacheAll.get k = o.get k := by
  simp only [Obj.cacheAll, Obj.get, mget_cacheFold]
  cases mget o.cached k with
  | some v => rfl
  | none => cases mget o.strie k <;> rfl

theorem revAt_getAllRefund (s : ADB) (a : Addr) : RevAt c (fun x => (getAllRefund x a).1) s :=
  revAt_viaResolveNew c s a _ (fun s1 o => putObj s1 a o.cacheAll) true
    (fun h => by simp [getAllRefund, h])
    (fun h => by simp only [getAllRefund, h, Bool.false_eq_true, if_false]; rcases resolveNew s a with ⟨s1, _ | _⟩ <;> rfl)
    (fun s1 o _ hm hd => by
      have hres : res s1 a = .live o := by rw [res_def, hm]; simp [hd]
      refine RevAt.of_sim (fun h => h) rfl rfl rfl (fun _ => ?_)
      exact sim_of_res_upd (a := a) (o := o) rfl (putObj_Frame _ _ _) hres
        (fun b => res_putObj s1 a b _ (by exact hd)) ⟨rfl, rfl, rfl, fun k => cacheAll_get o k, rfl⟩)

/-! ### AddERC20Binding -/

theorem revAt_addBinding (s : ADB) (bind contract : Addr) (pos dec : Nat) :
    RevAt c (fun x => (addERC20Binding x bind contract pos dec).1) s := by
  by_cases hs : s.crashed = true
  · exact RevAt.of_crashed_fix hs (by simp [addERC20Binding, hs])
  have hs : s.crashed = false := by simpa using hs
  have h0 := revAt_qExist c s bind
  cases he : exist s bind with
  | mk s1 b =>
    have e1 : (exist s bind).1 = s1 := by rw [he]
    cases b with
    | true => exact RevAt.congr_at (f' := fun x => (exist x bind).1) (by simp [addERC20Binding, hs, he]) h0
    | false =>
      have h1 := revAt_setData c (exist s bind).1 bind [0x63] contract
      have h2 := revAt_setData c (setData (exist s bind).1 bind [0x63] contract) bind [0x70] (u64BE pos)
      have h3 := revAt_setData c (setData (setData (exist s bind).1 bind [0x63] contract) bind [0x70] (u64BE pos)) bind [0x64] (u64BE dec)
      refine RevAt.congr_at (f' := fun x => setData (setData (setData (exist x bind).1 bind [0x63] contract) bind [0x70] (u64BE pos)) bind [0x64] (u64BE dec))
        (by simp [addERC20Binding, hs, he]) (RevAt.comp (RevAt.comp (RevAt.comp h0 h1) h2) h3)

end
end Rangers.Proofs.Journal
