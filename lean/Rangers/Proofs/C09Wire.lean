import Rangers.Model.WireConv
/-! Helper lemmas for C09: varints, raw fields, getters. Core Lean only. -/
namespace Rangers.Wire
open Rangers

theorem u8_ofNat_toNat (n : Nat) (h : n < 256) : (UInt8.ofNat n).toNat = n := by
  simp [Nat.mod_eq_of_lt h]

theorem readVarint_put (f : Nat) : ∀ (n : Nat) (rest : Bytes), n < 2 ^ (7 * f + 1) →
    readVarint (f + 1) (putVarint f n ++ rest) = some (n, rest) := by
  induction f with
  | zero =>
    intro n rest h
    have hn : n < 2 := by simpa using h
    have : (UInt8.ofNat n).toNat = n := u8_ofNat_toNat n (by omega)
    simp [putVarint, readVarint, this]
    omega
  | succ f ih =>
    intro n rest h
    unfold putVarint
    by_cases hlt : n < 128
    · have h256 : n < 256 := by omega
      have hb : (UInt8.ofNat n).toNat = n := u8_ofNat_toNat n h256
      simp [hlt, readVarint, hb]
    · have hb : (UInt8.ofNat (n % 128 + 128)).toNat = n % 128 + 128 := u8_ofNat_toNat _ (by omega)
      have hrec := ih (n / 128) rest (by
        have : 2 ^ (7 * (f + 1) + 1) = 128 * 2 ^ (7 * f + 1) := by
          rw [show 7 * (f + 1) + 1 = 7 + (7 * f + 1) by omega, Nat.pow_add]
        omega)
      simp only [hlt, if_false, List.cons_append]
      rw [readVarint]
      simp only [hb]
      have h1 : ¬ (n % 128 + 128 < 128) := by omega
      simp only [h1, if_false, Nat.succ_ne_zero, hrec]
      congr 2
      omega

theorem getVarint_enc (n : Nat) (rest : Bytes) (h : n < 2 ^ 64) :
    getVarint (encVarint n ++ rest) = some (n, rest) := by
  unfold getVarint encVarint
  exact readVarint_put 9 n rest (by simpa using h)

end Rangers.Wire

namespace Rangers.Wire
open Rangers

/-! ### raw fields -/

/-- A raw field the encoder can emit: a legal tag (1 … 2^61-1) and a 64-bit payload / length. -/
def RawWF : Raw → Prop
  | .vint num v => 1 ≤ num ∧ num < 2 ^ 61 ∧ v < 2 ^ 64
  | .len num b => 1 ≤ num ∧ num < 2 ^ 61 ∧ b.length < 2 ^ 64
  | .other _ _ => False

def RawsWF (rs : List Raw) : Prop := ∀ r ∈ rs, RawWF r

theorem rawStep_enc (r : Raw) (rest : Bytes) (h : RawWF r) :
    rawStep (encRaw r ++ rest) = some (r, rest) := by
  cases r with
  | vint num v =>
    obtain ⟨h1, h2, h3⟩ := h
    have e1 := getVarint_enc (num * 8) (encVarint v ++ rest) (by omega)
    have e2 := getVarint_enc v rest h3
    have hd : num * 8 / 8 = num := by omega
    have hm : num * 8 % 8 = 0 := by omega
    have hz : ¬ (num = 0) := by omega
    simp only [encRaw, List.append_assoc, rawStep, e1, hd, hm, hz, if_false, e2]
  | len num b =>
    obtain ⟨h1, h2, h3⟩ := h
    have e1 := getVarint_enc (num * 8 + 2) (encVarint b.length ++ (b ++ rest)) (by omega)
    have e2 := getVarint_enc b.length (b ++ rest) h3
    have hd : (num * 8 + 2) / 8 = num := by omega
    have hm : (num * 8 + 2) % 8 = 2 := by omega
    have hz : ¬ (num = 0) := by omega
    have hl : ¬ ((b ++ rest).length < b.length) := by simp
    simp only [encRaw, List.append_assoc, rawStep, e1, hd, hm, hz, if_false, e2, hl,
      List.take_left', List.drop_left']
  | other _ _ => exact absurd h (by simp [RawWF])

theorem encVarint_ne_nil (n : Nat) : encVarint n ≠ [] := by
  unfold encVarint putVarint
  split <;> simp

theorem encRaw_ne_nil (r : Raw) (h : RawWF r) : encRaw r ++ rest ≠ [] := by
  cases r with
  | vint num v =>
    simp only [encRaw, List.append_assoc]
    intro hc
    exact encVarint_ne_nil _ (List.append_eq_nil_iff.mp hc).1
  | len num b =>
    simp only [encRaw, List.append_assoc]
    intro hc
    exact encVarint_ne_nil _ (List.append_eq_nil_iff.mp hc).1
  | other _ _ => exact absurd h (by simp [RawWF])

theorem rawFields_enc (rs : List Raw) : ∀ (f : Nat), rs.length < f → RawsWF rs →
    rawFields f (encRaws rs) = some rs := by
  induction rs with
  | nil =>
    intro f hf _
    cases f with
    | zero => omega
    | succ f => simp [encRaws, rawFields]
  | cons r rs ih =>
    intro f hf hwf
    cases f with
    | zero => omega
    | succ f =>
      have hr : RawWF r := hwf r (by simp)
      have hrs : RawsWF rs := fun x hx => hwf x (by simp [hx])
      have hstep := rawStep_enc r (encRaws rs) hr
      have hrec := ih f (by simpa using hf) hrs
      simp only [encRaws]
      cases hb : encRaw r ++ encRaws rs with
      | nil => exact absurd hb (encRaw_ne_nil r hr)
      | cons b bs =>
        rw [rawFields, ← hb, hstep]
        simp only [hrec]

theorem encRaws_length (rs : List Raw) (h : RawsWF rs) : rs.length ≤ (encRaws rs).length := by
  induction rs with
  | nil => simp
  | cons r rs ih =>
    have hr : RawWF r := h r (by simp)
    have hrs : RawsWF rs := fun x hx => h x (by simp [hx])
    have := ih hrs
    have hne : (encRaw r).length ≥ 1 := by
      have := @encRaw_ne_nil [] r hr
      simp only [List.append_nil] at this
      exact List.length_pos_iff.mpr this
    simp only [encRaws, List.length_append, List.length_cons]
    omega

/-- `wire_roundtrip`, generic layer: what `proto.Marshal` framed, `proto.Unmarshal` reads back. -/
theorem parseRaw_encRaws (rs : List Raw) (h : RawsWF rs) : parseRaw (encRaws rs) = some rs := by
  unfold parseRaw
  exact rawFields_enc rs _ (by have := encRaws_length rs h; omega) h

/-! ### getters over encoder output -/

theorem lastLen_append (n : Nat) (l1 l2 : List Raw) :
    lastLen n (l1 ++ l2) = (lastLen n l2).or (lastLen n l1) := by
  induction l1 with
  | nil => cases h : lastLen n l2 <;> simp [lastLen, h]
  | cons r l1 ih =>
    cases r with
    | vint m v => simp only [List.cons_append, lastLen, ih]
    | other m w => simp only [List.cons_append, lastLen, ih]
    | len m b =>
      simp only [List.cons_append, lastLen, ih]
      cases lastLen n l2 <;> simp

theorem lastVint_append (n : Nat) (l1 l2 : List Raw) :
    lastVint n (l1 ++ l2) = (lastVint n l2).or (lastVint n l1) := by
  induction l1 with
  | nil => cases h : lastVint n l2 <;> simp [lastVint, h]
  | cons r l1 ih =>
    cases r with
    | len m v => simp only [List.cons_append, lastVint, ih]
    | other m w => simp only [List.cons_append, lastVint, ih]
    | vint m b =>
      simp only [List.cons_append, lastVint, ih]
      cases lastVint n l2 <;> simp

theorem allLen_append (n : Nat) (l1 l2 : List Raw) : allLen n (l1 ++ l2) = allLen n l1 ++ allLen n l2 := by
  induction l1 with
  | nil => simp [allLen]
  | cons r l1 ih =>
    cases r with
    | len m b => simp only [List.cons_append, allLen, ih]; split <;> simp
    | vint m v => simp only [List.cons_append, allLen, ih]
    | other m w => simp only [List.cons_append, allLen, ih]

@[simp] theorem lastLen_optLenR (n m : Nat) (o : Option Bytes) :
    lastLen n (optLenR m o) = if m = n then o else none := by
  cases o <;> simp [optLenR, lastLen]

@[simp] theorem lastLen_optVintR (n m : Nat) (o : Option Nat) : lastLen n (optVintR m o) = none := by
  cases o <;> simp [optVintR, lastLen]

@[simp] theorem lastVint_optVintR (n m : Nat) (o : Option Nat) :
    lastVint n (optVintR m o) = if m = n then o else none := by
  cases o <;> simp [optVintR, lastVint]

@[simp] theorem lastVint_optLenR (n m : Nat) (o : Option Bytes) : lastVint n (optLenR m o) = none := by
  cases o <;> simp [optLenR, lastVint]

@[simp] theorem lastVint_repLenR (n m : Nat) (l : List Bytes) : lastVint n (repLenR m l) = none := by
  induction l with
  | nil => simp [repLenR, lastVint]
  | cons b l ih => simp [repLenR, lastVint, ih]

theorem lastLen_repLenR_ne (n m : Nat) (l : List Bytes) (h : m ≠ n) : lastLen n (repLenR m l) = none := by
  induction l with
  | nil => simp [repLenR, lastLen]
  | cons b l ih => simp [repLenR, lastLen, ih, h]

@[simp] theorem allLen_optVintR (n m : Nat) (o : Option Nat) : allLen n (optVintR m o) = [] := by
  cases o <;> simp [optVintR, allLen]

@[simp] theorem allLen_optLenR (n m : Nat) (o : Option Bytes) :
    allLen n (optLenR m o) = if m = n then o.toList else [] := by
  cases o <;> simp [optLenR, allLen]

@[simp] theorem allLen_repLenR (n m : Nat) (l : List Bytes) :
    allLen n (repLenR m l) = if m = n then l else [] := by
  induction l with
  | nil => simp [repLenR, allLen]
  | cons b l ih =>
    simp only [repLenR, allLen, ih]
    split <;> simp

theorem trunc_sext (v : Nat) (h : v < 2 ^ 32) : trunc32 (sext32 v) = v := by
  unfold trunc32 sext32
  split <;> omega

theorem sext_lt (v : Nat) (h : v < 2 ^ 32) : sext32 v < 2 ^ 64 := by
  unfold sext32
  split <;> omega

end Rangers.Wire
