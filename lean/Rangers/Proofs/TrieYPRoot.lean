import Rangers.Proofs.TrieYP
import Rangers.Proofs.TrieIterBytes
/- Root of a minimal-form trie = Yellow Paper TRIE(J) of its content; fuel bound; enumerations. -/
namespace Rangers.Trie
open Rangers

theorem le_foldl_max (J : List (Key × Bytes)) (m : Nat) :
    m ≤ J.foldl (fun m e => max m e.1.length) m ∧ ∀ e ∈ J, e.1.length ≤ J.foldl (fun m e => max m e.1.length) m := by
  induction J generalizing m with
  | nil => simp
  | cons x J ih =>
    simp only [List.foldl_cons]
    have := ih (max m x.1.length)
    refine ⟨Nat.le_trans (Nat.le_max_left _ _) this.1, fun e he => ?_⟩
    cases he with
    | head => exact Nat.le_trans (Nat.le_max_right _ _) this.1
    | tail _ h => exact this.2 e h

theorem le_maxKeyLen (J : List (Key × Bytes)) : ∀ e ∈ J, e.1.length ≤ maxKeyLen J := (le_foldl_max J 0).2

theorem heightL_attained (cs : List Node) : height.heightL cs = 0 ∨ ∃ idx, idx < cs.length ∧ height (cs[idx]?.getD .nil) = height.heightL cs := by
  induction cs with
  | nil => left; rfl
  | cons c cs ih =>
    simp only [height.heightL]
    by_cases h : height.heightL cs ≤ height c
    · right; exact ⟨0, by simp, by simp [Nat.max_eq_left h]⟩
    · have h' : height c ≤ height.heightL cs := by omega
      rcases ih with h0 | ⟨idx, hidx, hh⟩
      · omega
      · right; exact ⟨idx + 1, by simpa using hidx, by simp [Nat.max_eq_right h', hh]⟩

/-- some path below a minimal-form node is at least as long as the node is high -/
theorem height_le_some_path (t : Node) : WF t → ∃ e ∈ iter t, height t ≤ e.1.length + 1 := by
  induction t using Node.induct with
  | hnil => intro h; exact absurd h not_WF_nil
  | hval b => intro h; exact absurd h (not_WF_value b)
  | hshort kk v ih =>
    intro hwf
    rcases (WF_short_iff kk v).mp hwf with ⟨b, rfl, hkk, hb⟩ | ⟨cs, rfl, hne, hnib, hfull⟩
    · refine ⟨(kk ++ [], b), by simp [iter, prepend], ?_⟩
      have : kk.length ≠ 0 := by simpa using hkk.ne_nil
      simp only [height, List.append_nil]; omega
    · obtain ⟨e', he', hh⟩ := ih hfull
      refine ⟨(kk ++ e'.1, e'.2), by simp only [iter, prepend, List.mem_map]; exact ⟨e', by simpa [iter] using he', rfl⟩, ?_⟩
      have : kk.length ≠ 0 := by simpa using hne
      simp only [height, List.length_append] at hh ⊢; omega
  | hfull cs ih =>
    intro hwf
    obtain ⟨hlen, hslots, hcnt⟩ := (WF_full_iff cs).mp hwf
    rcases heightL_attained cs with h0 | ⟨idx, hidx, hh⟩
    · have hne := iter_ne_nil _ hwf
      cases hi : iter (.full cs) with
      | nil => exact absurd hi hne
      | cons e _ => exact ⟨e, by simp, by simp only [height, h0]; omega⟩
    · rcases hslots idx (by omega) with h | h
      · rw [h] at hh
        simp only [height] at hh
        have hne := iter_ne_nil _ hwf
        cases hi : iter (.full cs) with
        | nil => exact absurd hi hne
        | cons e _ => exact ⟨e, by simp, by simp only [height, ← hh]; omega⟩
      · by_cases h16 : idx = 16
        · subst h16
          simp only [if_true] at h
          obtain ⟨b, hb, _⟩ := h
          rw [hb] at hh
          refine ⟨((0 + 16) :: [], b), ?_, by simp only [height, ← hh]; simp⟩
          simp only [iter]
          exact mem_iterL.mpr ⟨16, by omega, ([], b), by rw [hb]; simp [iter], rfl⟩
        · simp only [h16, if_false] at h
          have hmem : cs[idx]?.getD .nil ∈ cs := by
            rcases getD_mem_or_nil cs idx with h0 | h0
            · rw [h0] at h; exact absurd h not_WF_nil
            · exact h0
          obtain ⟨e', he', hle⟩ := ih _ hmem h
          refine ⟨((0 + idx) :: e'.1, e'.2), ?_, ?_⟩
          · simp only [iter]; exact mem_iterL.mpr ⟨idx, hidx, e', he', rfl⟩
          · simp only [height, ← hh, List.length_cons]; omega

theorem rootHash_of_ne_nil (H : Bytes → Bytes) (t : Node) (h : t ≠ .nil) : rootHash H t = H (enc H t) := by
  cases t <;> first | exact absurd rfl h | rfl

/-- the root of a minimal-form trie is the Yellow Paper root of what it iterates to -/
theorem rootHash_eq_ypRoot (H : Bytes → Bytes) (hH : H [0x80] = emptyRoot) (t : Node) (ht : WFRoot t) :
    rootHash H t = ypRoot H (absK [] (iter t)) := by
  rcases ht with rfl | ht
  · simp [rootHash, ypRoot, iter, absK, hH]
  · have hne := iter_ne_nil t ht
    have hnotempty : (absK [] (iter t)).isEmpty = false := by
      simp only [absK, List.isEmpty_map]
      cases hi : iter t with
      | nil => exact absurd hi hne
      | cons _ _ => rfl
    rw [rootHash_of_ne_nil H t ht.ne_nil, ypRoot, hnotempty]
    simp only [Bool.false_eq_true, if_false]
    obtain ⟨e, he, hle⟩ := height_le_some_path t ht
    have hmem : (([] : Key) ++ e.1.dropLast, e.2) ∈ absK [] (iter t) := by
      simp only [absK, List.mem_map]; exact ⟨e, he, rfl⟩
    have := le_maxKeyLen _ _ hmem
    simp only [List.nil_append, List.length_dropLast] at this
    have hfuel : height t ≤ maxKeyLen (absK [] (iter t)) + 2 := by omega
    have := ypC_enc H t ht [] _ hfuel
    simp only [List.length_nil] at this
    rw [this]

theorem option_ext_some {α : Type} {a b : Option α} (h : ∀ v, a = some v ↔ b = some v) : a = b := by
  cases a with
  | none =>
    cases b with
    | none => rfl
    | some y => exact absurd ((h y).mpr rfl) (by simp)
  | some x => exact ((h x).mp rfl).symm

/-- a sorted enumeration of the map a history defines is what the trie iterates to -/
theorem enumeration_eq_iter {t : Node} {m : Bytes → Option Bytes} (hr : Represents t m)
    (J : List (Bytes × Bytes))
    (hsorted : J.Pairwise (fun a b => keybytesToHex a.1 < keybytesToHex b.1))
    (hmem : ∀ k v, (k, v) ∈ J ↔ m k = some v) :
    J.map (fun e => (keybytesToHex e.1, e.2)) = iter t := by
  have hs' : SortedKeys (J.map (fun e => (keybytesToHex e.1, e.2))) := by
    unfold SortedKeys; rw [List.pairwise_map]; exact hsorted
  apply sorted_ext _ _ hs' (sortedKeys_iter t)
  intro κ
  apply option_ext_some
  intro v
  show _ ↔ content t κ = some v
  constructor
  · intro h
    have := lookup_some_mem h
    simp only [List.mem_map, Prod.mk.injEq] at this
    obtain ⟨e, he, rfl, rfl⟩ := this
    rw [hr.agree]; exact (hmem e.1 e.2).mp he
  · intro h
    by_cases hk : ∃ k, κ = keybytesToHex k
    · obtain ⟨k, rfl⟩ := hk
      rw [hr.agree] at h
      apply lookup_of_mem_sorted hs'
      exact List.mem_map.mpr ⟨(k, v), (hmem k v).mpr h, rfl⟩
    · rw [hr.only κ (fun k hk' => hk ⟨k, hk'⟩)] at h; cases h

end Rangers.Trie
