import Rangers.Proofs.RLPTypedSound
/-! Lossless direction for the typed coders: definitions (`WFV`, `norm`, fuel) and leaf lemmas. -/
namespace Rangers.RLP
open Rangers

/-- element types a nil (non-`rlp:"nil"`) pointer can point to such that its encoding decodes again -/
def nilDecodable : Ty → Bool
  | .uint _ => true
  | .big => true
  | .bool => true
  | .str => true
  | .bytes => true
  | .slice _ => true
  | .any => true
  | _ => false

/-- the Go zero value of those element types -/
def zeroVal : Ty → Val
  | .uint _ => .num 0
  | .big => .num 0
  | .bool => .bool false
  | .str => .bytes []
  | .bytes => .bytes []
  | .slice _ => .list []
  | .any => .list []
  | _ => .nil

def goWidth (bits : Nat) : Prop := bits = 8 ∨ bits = 16 ∨ bits = 32 ∨ bits = 64

mutual
  /-- Values of type `ty` the encoder is specified for: integers in range, arrays of the right
      length, payloads < 2^64, raw values that are one RLP item, nil pointers only where Go-RLP can
      decode them back, `rlp:"nil"` pointers only to values with a non-empty encoding. -/
  def WFV : Ty → Val → Prop
    | .uint bits, .num n => goWidth bits ∧ n < 2 ^ bits
    | .big, .num n => (toBE n).length < 2 ^ 64
    | .big, .nil => True
    | .bool, .bool _ => True
    | .str, .bytes b => b.length < 2 ^ 64
    | .bytes, .bytes b => b.length < 2 ^ 64
    | .barr n, .bytes b => b.length = n ∧ n < 2 ^ 64
    | .raw, .bytes b => ∃ k ts cs, readHead b = .ok (k, ts, cs) ∧ ts + cs = b.length
    | .any, .bytes b => b.length < 2 ^ 64
    | .any, .list vs => WFVs .any vs ∧ (∀ p, encElems .any vs = .ok p → p.length < 2 ^ 64)
    | .any, .nil => True
    | .slice e, .list vs => WFVs e vs ∧ (∀ p, encElems e vs = .ok p → p.length < 2 ^ 64)
    | .arr n e, .list vs => vs.length = n ∧ WFVs e vs ∧ (∀ p, encElems e vs = .ok p → p.length < 2 ^ 64)
    | .ptr e, .nil => nilDecodable e = true ∧ (∀ bits, e = .uint bits → goWidth bits)
    | .ptr e, .some v => WFV e v
    | .struct fs, .list vs => WFF fs vs ∧ (∀ p, encFields fs vs = .ok p → p.length < 2 ^ 64)
    | _, _ => False
  def WFVs : Ty → List Val → Prop
    | _, [] => True
    | e, v :: vs => WFV e v ∧ WFVs e vs
  def WFF : List (Tag × Ty) → List Val → Prop
    | [], [] => True
    | (.tail, .slice e) :: [], [.list vs] => WFVs e vs
    | (.none, ty) :: fs, v :: vs => WFV ty v ∧ WFF fs vs
    | (.nilOK, .ptr e) :: fs, .nil :: vs => (nilEnc e = [0x80] ∨ nilEnc e = [0xc0]) ∧ WFF fs vs
    | (.nilOK, .ptr e) :: fs, (.some v) :: vs =>
      WFV e v ∧ (∀ enc, encT e v = .ok enc → enc ≠ [0x80] ∧ enc ≠ [0xc0]) ∧ WFF fs vs
    | _, _ => False
end

mutual
  /-- What decoding the encoding returns: nil pointers / nil `*big.Int` / nil `interface{}` come back
      as the zero value (documented Go-RLP behaviour), everything else unchanged. -/
  def norm : Ty → Val → Val
    | .big, .nil => .num 0
    | .any, .nil => .list []
    | .any, .list vs => .list (normL .any vs)
    | .slice e, .list vs => .list (normL e vs)
    | .arr _ e, .list vs => .list (normL e vs)
    | .ptr e, .nil => .some (zeroVal e)
    | .ptr e, .some v => .some (norm e v)
    | .struct fs, .list vs => .list (normF fs vs)
    | _, v => v
  def normL : Ty → List Val → List Val
    | _, [] => []
    | e, v :: vs => norm e v :: normL e vs
  def normF : List (Tag × Ty) → List Val → List Val
    | (.tail, .slice e) :: [], [.list vs] => [.list (normL e vs)]
    | (.nilOK, .ptr _) :: fs, .nil :: vs => .nil :: normF fs vs
    | (.nilOK, .ptr e) :: fs, (.some v) :: vs => .some (norm e v) :: normF fs vs
    | (.none, ty) :: fs, v :: vs => norm ty v :: normF fs vs
    | _, vs => vs
end

/-- `interface{}` costs one extra level (`decodeInterface` dispatches to the slice / bytes decoder) -/
def axtra : Ty → Nat
  | .any => 1
  | _ => 0

mutual
  /-- fuel that certainly suffices to decode the encoding of `v` -/
  def vfuel : Val → Nat
    | .list vs => 4 + efuel vs
    | .some v => 2 + vfuel v
    | .nil => 12
    | _ => 8
  def efuel : List Val → Nat
    | [] => 1
    | v :: vs => 2 + vfuel v + efuel vs
end

/-! ### headers, forward direction -/

theorem readLong_toBE (n : Nat) (tail : Bytes) (h56 : 56 ≤ n) :
    readLong (toBE n ++ tail) (toBE n).length = .ok n := by
  have hpos : 0 < (toBE n).length := toBE_length_pos (by omega)
  unfold readLong
  have h1 : ¬ (toBE n).length > (toBE n ++ tail).length := by simp
  rw [if_neg h1]
  cases hb : toBE n with
  | nil => rw [hb] at hpos; simp at hpos
  | cons b0 rest =>
    have hm := toBE_head_ne_zero n b0 rest hb
    have hbe : beNat (b0 :: rest) = n := by rw [← hb]; exact beNat_toBE n
    by_cases hl : (b0 :: rest).length = 1
    · rw [if_pos hl]
      have hr : rest = [] := by simpa using hl
      subst hr
      have hx : b0.toNat = n := by simpa [beNat] using hbe
      simp only [List.cons_append]
      have : ¬ b0.toNat < 56 := by omega
      rw [if_neg this, hx]
    · rw [if_neg hl]
      simp only [List.cons_append]
      rw [if_neg hm]
      have ht : List.take (b0 :: rest).length (b0 :: (rest ++ tail)) = b0 :: rest := by
        have := @List.take_left' _ (b0 :: rest) tail _ rfl
        simpa using this
      rw [ht, hbe]
      have : ¬ n < 56 := by omega
      rw [if_neg this]

theorem readHead_str (n : Nat) (tail : Bytes) (hn : n < 2 ^ 64) (hlen : n ≤ tail.length) :
    readHead (encHead 0x80 0xb7 n ++ tail) = .ok (.string, (encHead 0x80 0xb7 n).length, n) := by
  by_cases h56 : n < 56
  · rw [encHead_small _ _ h56]
    have ht : (UInt8.ofNat (0x80 + n)).toNat = 0x80 + n := toNat_ofNat_lt (by omega)
    simp only [List.cons_append, List.nil_append, readHead, ht, List.length_cons, List.length_nil]
    have a1 : ¬ (0x80 + n < 0x80) := by omega
    have a2 : 0x80 + n < 0xb8 := by omega
    have a3 : 0x80 + n - 0x80 = n := by omega
    rw [if_neg a1, if_pos a2, a3]
    simp only
    have a4 : ¬ n > tail.length + 1 - 1 := by omega
    rw [if_neg a4]
  · have h56' : 56 ≤ n := by omega
    have hL := toBE_len_64 hn
    have hpos : 0 < (toBE n).length := toBE_length_pos (by omega)
    rw [encHead_large _ _ h56']
    have ht : (UInt8.ofNat (0xb7 + (toBE n).length)).toNat = 0xb7 + (toBE n).length := toNat_ofNat_lt (by omega)
    simp only [List.cons_append, readHead, ht, List.length_cons, List.length_append]
    have a1 : ¬ (0xb7 + (toBE n).length < 0x80) := by omega
    have a2 : ¬ (0xb7 + (toBE n).length < 0xb8) := by omega
    have a3 : 0xb7 + (toBE n).length < 0xc0 := by omega
    have a4 : 0xb7 + (toBE n).length - 0xb7 = (toBE n).length := by omega
    rw [if_neg a1, if_neg a2, if_pos a3, a4, readLong_toBE n tail h56']
    simp only
    have a5 : ¬ n > (toBE n).length + tail.length + 1 - ((toBE n).length + 1) := by omega
    rw [if_neg a5]

theorem readHead_list (n : Nat) (tail : Bytes) (hn : n < 2 ^ 64) (hlen : n ≤ tail.length) :
    readHead (encHead 0xc0 0xf7 n ++ tail) = .ok (.list, (encHead 0xc0 0xf7 n).length, n) := by
  by_cases h56 : n < 56
  · rw [encHead_small _ _ h56]
    have ht : (UInt8.ofNat (0xc0 + n)).toNat = 0xc0 + n := toNat_ofNat_lt (by omega)
    simp only [List.cons_append, List.nil_append, readHead, ht, List.length_cons, List.length_nil]
    have a1 : ¬ (0xc0 + n < 0x80) := by omega
    have a2 : ¬ (0xc0 + n < 0xb8) := by omega
    have a2' : ¬ (0xc0 + n < 0xc0) := by omega
    have a2'' : 0xc0 + n < 0xf8 := by omega
    have a3 : 0xc0 + n - 0xc0 = n := by omega
    rw [if_neg a1, if_neg a2, if_neg a2', if_pos a2'', a3]
    simp only
    have a4 : ¬ n > tail.length + 1 - 1 := by omega
    rw [if_neg a4]
  · have h56' : 56 ≤ n := by omega
    have hL := toBE_len_64 hn
    have hpos : 0 < (toBE n).length := toBE_length_pos (by omega)
    rw [encHead_large _ _ h56']
    have ht : (UInt8.ofNat (0xf7 + (toBE n).length)).toNat = 0xf7 + (toBE n).length := toNat_ofNat_lt (by omega)
    simp only [List.cons_append, readHead, ht, List.length_cons, List.length_append]
    have a1 : ¬ (0xf7 + (toBE n).length < 0x80) := by omega
    have a2 : ¬ (0xf7 + (toBE n).length < 0xb8) := by omega
    have a3 : ¬ 0xf7 + (toBE n).length < 0xc0 := by omega
    have a3' : ¬ 0xf7 + (toBE n).length < 0xf8 := by omega
    have a4 : 0xf7 + (toBE n).length - 0xf7 = (toBE n).length := by omega
    rw [if_neg a1, if_neg a2, if_neg a3, if_neg a3', a4, readLong_toBE n tail h56']
    simp only
    have a5 : ¬ n > (toBE n).length + tail.length + 1 - ((toBE n).length + 1) := by omega
    rw [if_neg a5]

theorem readHead_byte (x : UInt8) (tail : Bytes) (hx : x.toNat < 0x80) :
    readHead (x :: tail) = .ok (.byte, 0, 1) := by
  simp only [readHead, if_pos hx, List.length_cons]
  have : ¬ 1 > tail.length + 1 - 0 := by omega
  rw [if_neg this]

/-- `Stream.Bytes()` reads back what `encodeString` wrote. -/
theorem bytesOf_complete (b rest : Bytes) (hb : b.length < 2 ^ 64) :
    bytesOf (encString b ++ rest) = .ok (b, rest) := by
  unfold bytesOf
  by_cases h1 : b.length = 1 ∧ headLt128 b = true
  · obtain ⟨h1, h2⟩ := h1
    cases b with
    | nil => simp at h1
    | cons x xs =>
      cases xs with
      | cons _ _ => simp at h1
      | nil =>
        have hx : x.toNat < 0x80 := by simpa [headLt128] using h2
        rw [encString_byte x hx]
        simp only [List.cons_append, List.nil_append]
        rw [readHead_byte x rest hx]
        simp
  · rw [encString_nonbyte b h1, List.append_assoc, readHead_str b.length (b ++ rest) hb (by simp)]
    simp only
    obtain ⟨t1, t2⟩ := take_drop_head (encHead 0x80 0xb7 b.length) b b.length rest rfl
    rw [t1, t2]
    rw [if_neg h1]

theorem pow256_eq (bits : Nat) (h : goWidth bits) : 256 ^ (bits / 8) = 2 ^ bits := by
  rcases h with h | h | h | h <;> subst h <;> decide

/-- `Stream.uint(bits)` reads back what `writeUint` wrote. -/
theorem uintOf_complete (bits n : Nat) (rest : Bytes) (hw : goWidth bits) (hn : n < 2 ^ bits) :
    uintOf bits (encUint n ++ rest) = .ok (n, rest) := by
  have hb8 : 1 ≤ bits / 8 ∧ bits / 8 ≤ 8 := by rcases hw with h | h | h | h <;> subst h <;> omega
  have h64 : n < 2 ^ 64 := by
    have : 2 ^ bits ≤ 2 ^ 64 := Nat.pow_le_pow_right (by omega) (by rcases hw with h | h | h | h <;> omega)
    omega
  unfold uintOf encUint
  by_cases h0 : n = 0
  · subst h0
    simp only [if_true, List.cons_append, List.nil_append]
    have : readHead (0x80 :: rest) = .ok (.string, 1, 0) := by
      have := readHead_str 0 rest (by omega) (by omega)
      simpa [encHead] using this
    rw [this]
    simp
  · rw [if_neg h0]
    by_cases h128 : n < 128
    · rw [if_pos h128]
      have ht : (UInt8.ofNat n).toNat = n := toNat_ofNat_lt (by omega)
      simp only [List.cons_append, List.nil_append]
      rw [readHead_byte _ rest (by omega)]
      simp [ht, h0]
    · rw [if_neg h128, putint_eq h0]
      have hL := toBE_len_64 h64
      have hpos : 0 < (toBE n).length := toBE_length_pos h0
      have hLb : (toBE n).length ≤ bits / 8 := toBE_length_le _ n (by rw [pow256_eq bits hw]; exact hn)
      have hh : UInt8.ofNat (0x80 + (toBE n).length) :: toBE n ++ rest
          = encHead 0x80 0xb7 (toBE n).length ++ (toBE n ++ rest) := by
        rw [encHead_small _ _ (by omega)]; simp
      rw [hh, readHead_str _ _ (by omega) (by simp)]
      simp only
      obtain ⟨t1, t2⟩ := take_drop_head (encHead 0x80 0xb7 (toBE n).length) (toBE n) _ rest rfl
      rw [t1, t2]
      have c1 : ¬ (toBE n).length > bits / 8 := by omega
      have c2 : ¬ (toBE n).length = 0 := by omega
      rw [if_neg c1, if_neg c2]
      cases hb : toBE n with
      | nil => rw [hb] at hpos; simp at hpos
      | cons b0 tl =>
        have hm := toBE_head_ne_zero n b0 tl hb
        have hbe : beNat (b0 :: tl) = n := by rw [← hb]; exact beNat_toBE n
        by_cases hl1 : (b0 :: tl).length = 1
        · rw [if_pos hl1]
          have hr : tl = [] := by simpa using hl1
          subst hr
          have hx : b0.toNat = n := by simpa [beNat] using hbe
          have : ¬ b0.toNat < 128 := by omega
          simp [headLt128, this, hbe]
        · rw [if_neg hl1]
          simp only
          rw [if_neg hm, hbe]

end Rangers.RLP

namespace Rangers.RLP
open Rangers

/-- closes `∃ k ts cs, readHead buf = ok (k,ts,cs) ∧ rest = buf.drop (ts+cs)` from `h : (decoder body) = ok (v, rest)`
    where the body starts with `match readHead buf` and every success returns `buf.drop (ts + cs)` -/
macro "leaf_rest" h:ident : tactic => `(tactic| (
  cases hk : readHead _ with
  | error e => rw [hk] at $h:ident; cases $h:ident
  | ok r =>
    obtain ⟨k, ts, cs⟩ := r
    rw [hk] at $h:ident
    refine ⟨k, ts, cs, rfl, ?_⟩
    (try simp only at $h:ident)
    cases k <;> (try simp only at $h:ident) <;> (repeat' (split at $h:ident)) <;>
      first
        | (cases $h:ident; done)
        | (simp only [Except.ok.injEq, Prod.mk.injEq] at $h:ident; exact ($h).2.symm)
        | (simp at $h:ident; done)))

theorem uintOf_rest {bits : Nat} {buf rest : Bytes} {n : Nat} (h : uintOf bits buf = .ok (n, rest)) :
    ∃ k ts cs, readHead buf = .ok (k, ts, cs) ∧ rest = buf.drop (ts + cs) := by
  unfold uintOf at h
  leaf_rest h

theorem bytesOf_rest {buf c rest : Bytes} (h : bytesOf buf = .ok (c, rest)) :
    ∃ k ts cs, readHead buf = .ok (k, ts, cs) ∧ rest = buf.drop (ts + cs) := by
  unfold bytesOf at h
  leaf_rest h

/-- a successful typed decode consumed exactly the first item of the slice -/
theorem decT_consumes : ∀ f ty buf v rest, decT f ty buf = .ok (v, rest) →
    ∃ k ts cs, readHead buf = .ok (k, ts, cs) ∧ rest = buf.drop (ts + cs) := by
  intro f
  induction f with
  | zero => intro ty buf v rest h; simp [decT] at h
  | succ f ih =>
    intro ty buf v rest h
    cases ty with
    | ptr e =>
      simp only [decT] at h
      cases hd : decT f e buf with
      | error er => rw [hd] at h; cases h
      | ok r =>
        obtain ⟨v', rest'⟩ := r
        rw [hd] at h
        simp only at h
        injection h with h; injection h with _ h2
        subst h2
        exact ih e buf v' rest' hd
    | any =>
      simp only [decT] at h
      cases hk : readHead buf with
      | error e => rw [hk] at h; cases h
      | ok r =>
        obtain ⟨k, ts, cs⟩ := r
        rw [hk] at h
        simp only at h
        cases k with
        | list => simp only at h; obtain ⟨k', ts', cs', h1, h2⟩ := ih _ buf v rest h; rw [hk] at h1; exact ⟨_, _, _, rfl, by injection h1 with h1; injection h1 with _ h1; injection h1 with a b; subst a b; exact h2⟩
        | byte => simp only at h; obtain ⟨k', ts', cs', h1, h2⟩ := ih _ buf v rest h; rw [hk] at h1; exact ⟨_, _, _, rfl, by injection h1 with h1; injection h1 with _ h1; injection h1 with a b; subst a b; exact h2⟩
        | string => simp only at h; obtain ⟨k', ts', cs', h1, h2⟩ := ih _ buf v rest h; rw [hk] at h1; exact ⟨_, _, _, rfl, by injection h1 with h1; injection h1 with _ h1; injection h1 with a b; subst a b; exact h2⟩
    | raw => simp only [decT] at h; leaf_rest h
    | uint bits =>
      simp only [decT] at h
      cases hu : uintOf bits buf with
      | error e => rw [hu] at h; cases h
      | ok r =>
        obtain ⟨n, rest'⟩ := r
        rw [hu] at h; simp only [Except.ok.injEq, Prod.mk.injEq] at h
        rw [← h.2]; exact uintOf_rest hu
    | bool =>
      simp only [decT] at h
      cases hu : uintOf 8 buf with
      | error e => rw [hu] at h; cases h
      | ok r =>
        obtain ⟨n, rest'⟩ := r
        rw [hu] at h
        simp only at h
        have hr : rest' = rest := by
          split at h
          · simp only [Except.ok.injEq, Prod.mk.injEq] at h; exact h.2
          · split at h
            · simp only [Except.ok.injEq, Prod.mk.injEq] at h; exact h.2
            · cases h
        rw [← hr]; exact uintOf_rest hu
    | big =>
      simp only [decT] at h
      cases hu : bytesOf buf with
      | error e => rw [hu] at h; cases h
      | ok r =>
        obtain ⟨c, rest'⟩ := r
        rw [hu] at h
        simp only at h
        have hr : rest' = rest := by
          split at h
          · cases h
          · simp only [Except.ok.injEq, Prod.mk.injEq] at h; exact h.2
        rw [← hr]; exact bytesOf_rest hu
    | str =>
      simp only [decT] at h
      cases hu : bytesOf buf with
      | error e => rw [hu] at h; cases h
      | ok r =>
        obtain ⟨c, rest'⟩ := r
        rw [hu] at h; simp only [Except.ok.injEq, Prod.mk.injEq] at h
        rw [← h.2]; exact bytesOf_rest hu
    | bytes =>
      simp only [decT] at h
      cases hu : bytesOf buf with
      | error e => rw [hu] at h; cases h
      | ok r =>
        obtain ⟨c, rest'⟩ := r
        rw [hu] at h; simp only [Except.ok.injEq, Prod.mk.injEq] at h
        rw [← h.2]; exact bytesOf_rest hu
    | barr n => simp only [decT] at h; leaf_rest h
    | slice e => simp only [decT] at h; leaf_rest h
    | arr n e => simp only [decT] at h; leaf_rest h
    | struct fs => simp only [decT] at h; leaf_rest h

theorem readHead_pos {buf : Bytes} {k : Kind} {ts cs : Nat} (h : readHead buf = .ok (k, ts, cs)) :
    1 ≤ ts + cs ∧ ts + cs ≤ buf.length := by
  obtain ⟨hl, _, hc⟩ := readHead_inv h
  rcases hc with ⟨_, _, hcs, _⟩ | ⟨_, _, hts⟩ | ⟨_, _, hts⟩ <;> omega

/-- every successful typed decode makes progress -/
theorem decT_shorter {f : Nat} {ty : Ty} {buf rest : Bytes} {v : Val}
    (h : decT f ty buf = .ok (v, rest)) : rest.length < buf.length := by
  obtain ⟨k, ts, cs, h1, h2⟩ := decT_consumes f ty buf v rest h
  obtain ⟨p1, p2⟩ := readHead_pos h1
  rw [h2, List.length_drop]; omega

end Rangers.RLP
