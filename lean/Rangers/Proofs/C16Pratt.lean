import Mathlib.NumberTheory.LucasPrimality
import Mathlib.Data.ZMod.Basic
import Mathlib.Data.Nat.ModEq
import Mathlib.Tactic.Ring
import Mathlib.Algebra.BigOperators.Group.List.Basic
/-!
Pratt certificates: a kernel-evaluable modular exponentiation with its correctness proof, and the
Lucas step `p − 1 = ∏ qᵢ`, all `qᵢ` prime, `a^(p−1) = 1`, `a^((p−1)/qᵢ) ≠ 1` ⇒ `p` prime.
-/
namespace Rangers.Proofs.C16Pratt

/-- square-and-multiply modulo `m`, structural in the fuel -/
def powModAux (m : ℕ) : ℕ → ℕ → ℕ → ℕ → ℕ
  | 0, _, _, acc => acc
  | fuel + 1, b, e, acc =>
    if e = 0 then acc
    else powModAux m fuel (b * b % m) (e / 2) (if e % 2 = 1 then acc * b % m else acc)

/-- `a ^ e mod m` for exponents below 2^256 -/
def powMod (a e m : ℕ) : ℕ := powModAux m 256 (a % m) e (1 % m)

theorem powModAux_spec (m : ℕ) (fuel b e acc : ℕ) (he : e < 2 ^ fuel) :
    powModAux m fuel b e acc % m = acc * b ^ e % m := by
  induction fuel generalizing b e acc with
  | zero =>
    have : e = 0 := by simpa using he
    subst this; simp [powModAux]
  | succ fuel ih =>
    unfold powModAux
    split
    · rename_i h0; subst h0; simp
    · have he2 : e / 2 < 2 ^ fuel := by
        rw [Nat.pow_succ] at he; omega
      rw [ih _ _ _ he2]
      have hsplit : b ^ e = (b * b) ^ (e / 2) * b ^ (e % 2) := by
        rw [← pow_two, ← pow_mul, ← pow_add, Nat.div_add_mod]
      rw [hsplit]
      have hm : (b * b % m) ^ (e / 2) ≡ (b * b) ^ (e / 2) [MOD m] := (Nat.mod_modEq _ _).pow _
      rcases Nat.mod_two_eq_zero_or_one e with h | h
      · rw [h]
        simp only [Nat.zero_ne_one, ↓reduceIte, pow_zero, mul_one]
        exact (Nat.ModEq.refl acc).mul hm
      · rw [h]
        simp only [↓reduceIte, pow_one]
        have : acc * b % m * (b * b % m) ^ (e / 2) ≡ acc * b * (b * b) ^ (e / 2) [MOD m] :=
          (Nat.mod_modEq _ _).mul hm
        refine this.trans ?_
        rw [show acc * b * (b * b) ^ (e / 2) = acc * ((b * b) ^ (e / 2) * b) by ring]

theorem powMod_spec (a e m : ℕ) (he : e < 2 ^ 256) (hm : 1 < m) : powMod a e m = a ^ e % m := by
  have h := powModAux_spec m 256 (a % m) e (1 % m) he
  have hlt : powModAux m 256 (a % m) e (1 % m) < m := by
    -- every branch returns a value already reduced mod m
    have : ∀ fuel b e acc, acc < m → powModAux m fuel b e acc < m := by
      intro fuel
      induction fuel with
      | zero => intro b e acc h; simpa [powModAux] using h
      | succ fuel ih =>
        intro b e acc h
        unfold powModAux
        split
        · exact h
        · apply ih
          split
          · exact Nat.mod_lt _ (by omega)
          · exact h
    exact this _ _ _ _ (Nat.mod_lt _ (by omega))
  unfold powMod
  rw [← Nat.mod_eq_of_lt hlt, h]
  have : 1 % m * (a % m) ^ e ≡ 1 * a ^ e [MOD m] := (Nat.mod_modEq _ _).mul ((Nat.mod_modEq _ _).pow _)
  rw [one_mul] at this
  exact this

theorem zmod_pow_eq_one_iff (p a n : ℕ) (hp : 1 < p) :
    ((a : ZMod p) ^ n = 1) ↔ a ^ n % p = 1 := by
  have : ((a : ZMod p) ^ n = 1) ↔ (((a ^ n : ℕ) : ZMod p) = ((1 : ℕ) : ZMod p)) := by push_cast; rfl
  rw [this, ZMod.natCast_eq_natCast_iff', Nat.mod_eq_of_lt hp]

/-- One Lucas/Pratt step with everything decidable by kernel evaluation. -/
theorem pratt_step (p a : ℕ) (l : List ℕ) (hp : 1 < p) (hpb : p < 2 ^ 256)
    (hl : ∀ x ∈ l, Nat.Prime x) (hprod : l.prod = p - 1)
    (h1 : powMod a (p - 1) p = 1)
    (hq : l.all (fun x => powMod a ((p - 1) / x) p != 1) = true) : Nat.Prime p := by
  apply lucas_primality p (a : ZMod p)
  · rw [zmod_pow_eq_one_iff p a _ hp, ← powMod_spec a (p - 1) p (by omega) hp]; exact h1
  · intro q hqp hqd
    rw [← hprod] at hqd
    obtain ⟨x, hx, hdx⟩ := (Prime.dvd_prod_iff (Nat.Prime.prime hqp)).mp hqd
    have hqx : q = x := (Nat.prime_dvd_prime_iff_eq hqp (hl x hx)).mp hdx
    subst hqx
    rw [Ne, zmod_pow_eq_one_iff p a _ hp,
      ← powMod_spec a ((p - 1) / q) p (lt_of_le_of_lt (Nat.div_le_self _ _) (by omega)) hp]
    have := List.all_eq_true.mp hq q hx
    simpa using this

end Rangers.Proofs.C16Pratt
