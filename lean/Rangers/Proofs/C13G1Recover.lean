import Mathlib.Algebra.Module.ZMod
import Rangers.Proofs.C13G1Law
import Rangers.Proofs.C13Sim
import Rangers.Proofs.C13Dkg
import Rangers.Proofs.C13SignGen
import Rangers.Proofs.C13Pratt
/-! Recovery at the point level: the executable `Model.G1` operations the driver runs, at the
    parameters of the code. Hypotheses left: `p` prime, and every curve point is killed by `r`. -/
namespace Rangers.Proofs.C13G1
open Polynomial Rangers Rangers.Model Rangers.Model.Shamir Rangers.Model.Bls14 Rangers.Proofs.Bls14
open Rangers.Proofs.C13 Rangers.Generated

/-- The point operations of the driver (`Drive.C13.ops`). -/
def g1ops : Ops G1.Point := ⟨G1.add bnCurve, G1.mul bnCurve⟩

instance orderPrimeFact : Fact (Nat.Prime Bn256.order) :=
  ⟨Rangers.Proofs.C13Pratt.prime_65000549695646603732796438742359905742570406053903786389881062969044166799969⟩

variable [hp : Fact (Nat.Prime P)]

/-- "G1 has order r": the group of the curve `y² = x³ + 3` over `F_p` is killed by `r = bn256.Order`
    (equivalently `#E(F_p) = r`, `r` being prime). Not proved (point counting); sampled by the
    searcher (`r·P = O` on random points). -/
def CurveKilledByOrder : Prop := ∀ a : W.Point, Bn256.order • a = 0

/-- The executable G1 on valid points is a faithful copy of the `ZMod r`-module of curve points. -/
theorem g1_sim (hexp : CurveKilledByOrder) :
    @OpsSim Bn256.order G1.Point W.Point _ (AddCommGroup.zmodModule hexp) g1ops Valid1 μ := by
  letI := AddCommGroup.zmodModule hexp
  refine ⟨fun a b ha hb => g1_add_law a b ha hb, fun a k ha => ?_, μ_inj⟩
  obtain ⟨hv, hm⟩ := g1_mul_law a ha k
  exact ⟨hv, by rw [show g1ops.mul a k = G1.mul bnCurve a k from rfl, hm, Nat.cast_smul_eq_nsmul]⟩

/-- Point-level `recover_any_subset` for shares of a polynomial. -/
theorem g1_recoverWith_poly (hexp : CurveKilledByOrder)
    (ids : List Nat) (hne : ids ≠ []) (hd : IdsDistinct Bn256.order ids)
    (f : (ZMod Bn256.order)[X]) (hdeg : f.degree < ids.length)
    (s : Nat → Nat) (hs : ∀ x, ((s x : Nat) : ZMod Bn256.order) = f.eval (x : ZMod Bn256.order))
    (h : G1.Point) (hh : Valid1 h) (g0 : Nat) (hg0 : (g0 : ZMod Bn256.order) = f.eval 0) :
    recoverWith g1ops Bn256.order ids (ids.map (fun x => G1.mul bnCurve h (s x))) =
      .ok (some (G1.mul bnCurve h g0)) := by
  letI := AddCommGroup.zmodModule hexp
  have := recoverWith_sim_poly (r := Bn256.order) g1ops Valid1 μ (g1_sim hexp) ids hne hd f hdeg
    (ids.map s) (by simp) (by
      intro t ht
      rw [List.getD, List.getElem?_map, List.getElem?_eq_getElem ht]
      simp only [Option.map_some, Option.getD_some]
      rw [hs]
      unfold pt
      simp [List.getD, List.getElem?_eq_getElem ht]) h hh g0 hg0
  rw [List.map_map] at this
  exact this

end Rangers.Proofs.C13G1
