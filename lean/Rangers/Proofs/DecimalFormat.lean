import Rangers.Proofs.DecimalScan
/-!
Shape of the strings `bigIntToStr` produces: `[-] first [ "." last ]` with
`|last| = precision` and `first ++ last` spelling `|n|` (possibly with leading zeros).
-/
namespace Rangers.Decimal

theorem bigIntToStr_shape (n : Int) (p : Nat) :
    ∃ first last, bigIntToStr n (p : Int) =
        signStr (if n < 0 then some true else none) ++ plainBody first last (p != 0) ∧
      allDig first ∧ allDig last ∧ last.length = p ∧ first ≠ [] ∧
      ((p != 0) = false → last = []) ∧
      Nat.ofDigitChars 10 (first ++ last) 0 = n.natAbs := by
  have hnn : ¬ ((p : Int) < 0) := by omega
  have hdig := allDig_toDigits n.natAbs
  have hlenpos : 0 < (Nat.toDigits 10 n.natAbs).length := Nat.length_toDigits_pos
  have hsign : (if n < 0 then ['-'] else ([] : Str)) = signStr (if n < 0 then some true else none) := by
    split <;> rfl
  by_cases hl : (Nat.toDigits 10 n.natAbs).length ≤ p
  · refine ⟨['0'], List.replicate (p - (Nat.toDigits 10 n.natAbs).length) '0' ++ Nat.toDigits 10 n.natAbs,
      ?_, ?_, ?_, ?_, by simp, ?_, ?_⟩
    · have hp0 : p ≠ 0 := by omega
      unfold bigIntToStr plainBody
      simp only [hnn, if_false, Int.toNat_natCast, hl, if_true, hp0, hsign]
      simp [hp0]
    · intro c hc; simp at hc; subst hc; decide
    · exact allDig_append.mpr ⟨allDig_replicate_zero _, hdig⟩
    · simp; omega
    · intro h; have : p = 0 := by simpa using h
      omega
    · rw [List.cons_append, List.nil_append, Nat.ofDigitChars_cons, Nat.ofDigitChars_append,
        Nat.ofDigitChars_replicate_zero]
      simp
  · refine ⟨(Nat.toDigits 10 n.natAbs).take ((Nat.toDigits 10 n.natAbs).length - p),
      (Nat.toDigits 10 n.natAbs).drop ((Nat.toDigits 10 n.natAbs).length - p), ?_, ?_, ?_, ?_, ?_, ?_, ?_⟩
    · unfold bigIntToStr plainBody
      simp only [hnn, if_false, Int.toNat_natCast, hl, hsign]
      by_cases hp0 : p = 0
      · subst hp0; simp
      · simp [hp0]
    · intro c hc; exact hdig c (List.mem_of_mem_take hc)
    · intro c hc; exact hdig c (List.mem_of_mem_drop hc)
    · rw [List.length_drop]; omega
    · intro h
      have := congrArg List.length h
      rw [List.length_take] at this
      simp at this
      omega
    · intro h; have : p = 0 := by simpa using h
      subst this; simp
    · rw [List.take_append_drop]; exact Nat.ofDigitChars_ten_toDigits

/-- digits value is below `10^length` -/
theorem ofDigitChars_lt (ds : Str) (h : allDig ds) : Nat.ofDigitChars 10 ds 0 < 10 ^ ds.length := by
  induction ds using List.reverseRecOn with
  | nil => simp
  | append_singleton ds c ih =>
    obtain ⟨h1, h2⟩ := allDig_append.mp h
    have hc : isDig c = true := h2 c (by simp)
    have hv : c.toNat - '0'.toNat ≤ 9 := by
      unfold isDig Char.isDigit at hc
      simp at hc
      have h2 : c.val.toNat ≤ (57 : UInt32).toNat := UInt32.le_iff_toNat_le.mp hc.2
      have h3 : c.toNat = c.val.toNat := rfl
      have h0 : '0'.toNat = 48 := rfl
      have h57 : (57 : UInt32).toNat = 57 := rfl
      omega
    rw [Nat.ofDigitChars_append, Nat.ofDigitChars_cons, Nat.ofDigitChars_nil, List.length_append,
      List.length_singleton, Nat.pow_succ]
    have := ih h1
    omega

/-- auxiliary: sign bookkeeping of the formatter. -/
theorem signed_natAbs (n : Int) :
    (if signNeg (if n < 0 then some true else none) then -((n.natAbs : ℕ) : Int) else ((n.natAbs : ℕ) : Int)) = n := by
  by_cases h : n < 0
  · rw [if_pos h]
    show (if true = true then -((n.natAbs : ℕ) : Int) else ((n.natAbs : ℕ) : Int)) = n
    rw [if_pos rfl]; omega
  · rw [if_neg h]
    show (if false = true then -((n.natAbs : ℕ) : Int) else ((n.natAbs : ℕ) : Int)) = n
    rw [if_neg (by decide)]; omega

theorem signed_natAbs' (n : Int) :
    (if n < 0 then -((n.natAbs : ℕ) : Int) else ((n.natAbs : ℕ) : Int)) = n := by
  split <;> omega

end Rangers.Decimal
