import Rangers.Proofs.PoolWalk
/-! State lemmas of the pool model: what each operation does to the pending and executed hash sets,
and the invariant. Core Lean only. -/
namespace Rangers.Pool

/-- only gate-nonce puts wait in the shared batch -/
def GateOnly (b : List BOp) : Prop := ∀ o ∈ b, ∃ n, o = BOp.putGate n

/-- The pool invariant: pending hashes are unique, nothing pending is executed, and between
operations the shared batch holds no executed record. -/
structure Inv (s : Pool) : Prop where
  nodup : s.hashes.Nodup
  disjoint : ∀ h ∈ s.hashes, h ∉ s.execHashes
  batch : GateOnly s.batch

/-- every receipt belongs to a transaction of the block (what `VMExecutor.Execute` returns) -/
def Covered (receipts : List Nat) (txs : List Tx) : Prop := ∀ h ∈ receipts, ∃ t ∈ txs, t.hash = h

theorem contains_iff {s : Pool} {h : Nat} : s.contains h = true ↔ h ∈ s.hashes := by
  simp [Pool.contains]

theorem isExecuted_iff {s : Pool} {h : Nat} : s.isExecuted h = true ↔ h ∈ s.execHashes := by
  simp [Pool.isExecuted]

theorem existed_iff {s : Pool} {h : Nat} : s.existed h = true ↔ h ∈ s.hashes ∨ h ∈ s.execHashes := by
  simp [Pool.existed, contains_iff, isExecuted_iff]

theorem inv_empty (limit : Nat) : Inv (Pool.empty limit) :=
  ⟨by simp [Pool.empty, Pool.hashes], by simp [Pool.empty, Pool.hashes], by simp [Pool.empty, GateOnly]⟩

/-! ### push / add -/

theorem hashes_push (s : Pool) (t : Tx) :
    (s.push t).hashes = if s.pending.length < s.limit then s.hashes ++ [t.hash] else s.hashes := by
  unfold Pool.push Pool.hashes; split <;> simp

theorem exec_push (s : Pool) (t : Tx) : (s.push t).executed = s.executed := by
  unfold Pool.push; split <;> rfl

theorem batch_push (s : Pool) (t : Tx) : (s.push t).batch = s.batch := by
  unfold Pool.push; split <;> rfl

theorem limit_push (s : Pool) (t : Tx) : (s.push t).limit = s.limit := by
  unfold Pool.push; split <;> rfl

theorem execHashes_push (s : Pool) (t : Tx) : (s.push t).execHashes = s.execHashes := by
  simp [Pool.execHashes, exec_push]

theorem add_exist {s : Pool} {t : Tx} (h : s.existed t.hash = true) : s.add t = (s, .exist) := by
  simp [Pool.add, h]

theorem add_fresh {s : Pool} {t : Tx} (h : s.existed t.hash = false) : s.add t = (s.push t, .ok) := by
  simp [Pool.add, h]

theorem inv_push {s : Pool} {t : Tx} (hi : Inv s) (h : s.existed t.hash = false) : Inv (s.push t) := by
  have hne : ¬ (t.hash ∈ s.hashes ∨ t.hash ∈ s.execHashes) := by
    intro hh; have := existed_iff.mpr hh; simp [h] at this
  refine ⟨?_, ?_, ?_⟩
  · rw [hashes_push]; split
    · rw [List.nodup_append]
      refine ⟨hi.nodup, by simp, ?_⟩
      intro a ha b hb; simp at hb; subst hb
      intro e; subst e; exact hne (Or.inl ha)
    · exact hi.nodup
  · rw [hashes_push, execHashes_push]; split
    · intro x hx; rcases List.mem_append.mp hx with hx | hx
      · exact hi.disjoint x hx
      · simp at hx; subst hx; exact fun e => hne (Or.inr e)
    · exact hi.disjoint
  · rw [batch_push]; exact hi.batch

theorem inv_add {s : Pool} (t : Tx) (hi : Inv s) : Inv (s.add t).1 := by
  cases h : s.existed t.hash
  · rw [add_fresh h]; exact inv_push hi h
  · rw [add_exist h]; exact hi

theorem gateOnly_append_gate {b : List BOp} (h : GateOnly b) (n : Nat) : GateOnly (b ++ [.putGate n]) := by
  intro o ho; rcases List.mem_append.mp ho with ho | ho
  · exact h o ho
  · simp at ho; exact ⟨n, ho⟩

theorem inv_refreshGate {s : Pool} (t : Tx) (hi : Inv s) : Inv (s.refreshGate t) := by
  unfold Pool.refreshGate; split
  · exact ⟨hi.nodup, hi.disjoint, gateOnly_append_gate hi.batch _⟩
  · exact hi

theorem inv_addTransaction {s : Pool} (t : Tx) (hi : Inv s) : Inv (s.addTransaction t).1 := by
  unfold Pool.addTransaction
  have := inv_add t hi
  split
  · rename_i s' heq; rw [heq] at this; exact inv_refreshGate t this
  · rename_i s' heq; rw [heq] at this; exact this

theorem addTransaction_exist {s : Pool} {t : Tx} (h : s.existed t.hash = true) : s.addTransaction t = (s, .exist) := by
  simp [Pool.addTransaction, add_exist h]

/-! ### removeHashes -/

theorem hashes_removeHashes (s : Pool) (hs : List Nat) :
    (s.removeHashes hs).hashes = s.hashes.filter (fun h => !hs.contains h) := by
  simp [Pool.removeHashes, Pool.hashes, List.filter_map, Function.comp_def]

theorem mem_hashes_removeHashes {s : Pool} {hs : List Nat} {h : Nat} :
    h ∈ (s.removeHashes hs).hashes ↔ h ∈ s.hashes ∧ h ∉ hs := by
  simp [hashes_removeHashes]

/-! ### executed records -/

theorem mem_execPut {ex : List (Nat × Option Tx)} {h k : Nat} {v : Option Tx} :
    k ∈ (execPut ex h v).map (·.1) ↔ k = h ∨ k ∈ ex.map (·.1) := by
  simp only [execPut, List.map_cons, List.mem_cons, List.mem_map, List.mem_filter]
  constructor
  · rintro (rfl | ⟨p, ⟨hp, _⟩, rfl⟩)
    · exact Or.inl rfl
    · exact Or.inr ⟨p, hp, rfl⟩
  · rintro (rfl | ⟨p, hp, rfl⟩)
    · exact Or.inl rfl
    · by_cases e : p.1 = h
      · exact Or.inl e
      · exact Or.inr ⟨p, ⟨hp, by simp [e]⟩, rfl⟩

theorem mem_execDel {ex : List (Nat × Option Tx)} {h k : Nat} :
    k ∈ (execDel ex h).map (·.1) ↔ k ≠ h ∧ k ∈ ex.map (·.1) := by
  simp only [execDel, List.mem_map, List.mem_filter]
  constructor
  · rintro ⟨p, ⟨hp, hne⟩, rfl⟩
    exact ⟨by simpa using hne, p, hp, rfl⟩
  · rintro ⟨hne, p, hp, rfl⟩
    exact ⟨p, ⟨hp, by simpa using hne⟩, rfl⟩

/-- hashes of the executed records a batch will write -/
def putHashes : List BOp → List Nat
  | [] => []
  | .putTx h _ :: r => h :: putHashes r
  | .putGate _ :: r => putHashes r

theorem putHashes_append (a b : List BOp) : putHashes (a ++ b) = putHashes a ++ putHashes b := by
  induction a with
  | nil => rfl
  | cons o r ih => cases o <;> simp [putHashes, ih]

theorem putHashes_gateOnly {b : List BOp} (h : GateOnly b) : putHashes b = [] := by
  induction b with
  | nil => rfl
  | cons o r ih =>
    obtain ⟨n, rfl⟩ := h o (by simp)
    simp [putHashes]; exact ih (fun o ho => h o (by simp [ho]))

theorem foldl_applyBOp_pending (b : List BOp) (s : Pool) :
    (b.foldl applyBOp s).pending = s.pending ∧ (b.foldl applyBOp s).limit = s.limit := by
  induction b generalizing s with
  | nil => simp
  | cons o r ih =>
    simp only [List.foldl_cons]
    have := ih (applyBOp s o)
    cases o <;> simpa [applyBOp] using this

theorem mem_exec_foldl (b : List BOp) (s : Pool) (k : Nat) :
    k ∈ (b.foldl applyBOp s).execHashes ↔ k ∈ s.execHashes ∨ k ∈ putHashes b := by
  induction b generalizing s with
  | nil => simp [putHashes]
  | cons o r ih =>
    simp only [List.foldl_cons]
    rw [ih]
    cases o with
    | putTx h v =>
      simp only [applyBOp, Pool.execHashes, putHashes, List.mem_cons]
      rw [mem_execPut]
      constructor
      · rintro ((rfl | h1) | h2)
        · exact Or.inr (Or.inl rfl)
        · exact Or.inl h1
        · exact Or.inr (Or.inr h2)
      · rintro (h1 | rfl | h2)
        · exact Or.inl (Or.inr h1)
        · exact Or.inl (Or.inl rfl)
        · exact Or.inr h2
    | putGate n => simp [applyBOp, Pool.execHashes, putHashes]

theorem hashes_flush (s : Pool) : s.flush.hashes = s.hashes := by
  simp [Pool.flush, Pool.hashes, (foldl_applyBOp_pending s.batch s).1]

theorem mem_exec_flush (s : Pool) (k : Nat) : k ∈ s.flush.execHashes ↔ k ∈ s.execHashes ∨ k ∈ putHashes s.batch := by
  have := mem_exec_foldl s.batch s k
  simpa [Pool.flush, Pool.execHashes] using this

/-! ### MarkExecuted -/

theorem findTx_isSome {txs : List Tx} {h : Nat} (hc : ∃ t ∈ txs, t.hash = h) (i : Nat) : ∃ t, findTx txs h i = some t := by
  have hf : ∃ t, txs.find? (fun t => t.hash == h) = some t := by
    obtain ⟨t, ht, e⟩ := hc
    cases hfind : txs.find? (fun t => t.hash == h) with
    | some u => exact ⟨u, rfl⟩
    | none =>
      have := List.find?_eq_none.mp hfind t ht
      simp [e] at this
  unfold findTx
  split
  · split
    · exact ⟨_, rfl⟩
    · exact hf
  · exact hf

theorem findTx_none {txs : List Tx} {h : Nat} (hc : ¬ ∃ t ∈ txs, t.hash = h) (i : Nat) : findTx txs h i = none := by
  have hf : txs.find? (fun t => t.hash == h) = none := by
    apply List.find?_eq_none.mpr
    intro t ht; simp; exact fun e => hc ⟨t, ht, e⟩
  unfold findTx
  split
  · rename_i t hi
    split
    · rename_i e; exact absurd ⟨t, List.mem_of_getElem? hi, e⟩ hc
    · exact hf
  · exact hf

theorem markReceipts_covered {txs : List Tx} :
    ∀ (rs : List Nat) (i : Nat) (b : List BOp), Covered rs txs →
      ∃ b', markReceipts txs rs i b = (b', false) ∧ putHashes b' = putHashes b ++ rs
  | [], i, b, _ => ⟨b, rfl, by simp⟩
  | h :: hs, i, b, hc => by
    obtain ⟨t, ht⟩ := findTx_isSome (hc h (by simp)) i
    unfold markReceipts
    simp only [ht]
    have hc' : Covered hs txs := fun x hx => hc x (by simp [hx])
    split
    · obtain ⟨b', h1, h2⟩ := markReceipts_covered hs (i + 1) ((b ++ [.putTx h (some t)]) ++ [.putGate t.gate]) hc'
      exact ⟨b', h1, by rw [h2]; simp [putHashes_append, putHashes]⟩
    · obtain ⟨b', h1, h2⟩ := markReceipts_covered hs (i + 1) (b ++ [.putTx h (some t)]) hc'
      exact ⟨b', h1, by rw [h2]; simp [putHashes_append, putHashes]⟩

/-- A receipt without transaction makes `MarkExecuted` panic (the modelled error branch is reachable exactly then). -/
theorem markReceipts_uncovered {txs : List Tx} :
    ∀ (rs : List Nat) (i : Nat) (b : List BOp), ¬ Covered rs txs → (markReceipts txs rs i b).2 = true
  | [], i, b, hc => absurd (fun _ h => by simp at h) hc
  | h :: hs, i, b, hc => by
    unfold markReceipts
    by_cases hh : ∃ t ∈ txs, t.hash = h
    · obtain ⟨t, ht⟩ := findTx_isSome hh i
      simp only [ht]
      have : ¬ Covered hs txs := by
        intro c; apply hc; intro x hx
        rcases List.mem_cons.mp hx with rfl | hx
        · exact hh
        · exact c x hx
      split <;> exact markReceipts_uncovered hs _ _ this
    · simp [findTx_none hh i]

/-- What a well-formed `MarkExecuted` does, as sets. -/
theorem markExecuted_ok {s : Pool} {receipts : List Nat} {txs : List Tx} {evicted : List Nat}
    (hb : GateOnly s.batch) (hc : Covered receipts txs) :
    ∃ s', s.markExecuted receipts txs evicted = (s', false) ∧
      s'.hashes = s.hashes.filter (fun h => !(receipts ++ evicted).contains h) ∧
      (∀ k, k ∈ s'.execHashes ↔ k ∈ s.execHashes ∨ k ∈ receipts) ∧
      GateOnly s'.batch ∧ s'.limit = s.limit := by
  unfold Pool.markExecuted
  by_cases hr : receipts = []
  · subst hr
    refine ⟨s.removeHashes evicted, by simp, ?_, ?_, hb, rfl⟩
    · simp [hashes_removeHashes]
    · intro k; simp [Pool.removeHashes, Pool.execHashes]
  · obtain ⟨b', h1, h2⟩ := markReceipts_covered receipts 0 s.batch hc
    simp only [hr, if_false, h1]
    refine ⟨_, rfl, ?_, ?_, ?_, ?_⟩
    · rw [hashes_removeHashes, hashes_flush]; rfl
    · intro k
      have := mem_exec_flush ({ s with batch := b' } : Pool) k
      simp only [Pool.removeHashes, Pool.execHashes] at this ⊢
      rw [this, h2, putHashes_gateOnly hb]; simp
    · intro o ho; simp [Pool.removeHashes, Pool.flush] at ho
    · simp [Pool.removeHashes, Pool.flush, (foldl_applyBOp_pending b' _).2]

theorem inv_markExecuted {s : Pool} {receipts : List Nat} {txs : List Tx} {evicted : List Nat}
    (hi : Inv s) (hc : Covered receipts txs) : Inv (s.markExecuted receipts txs evicted).1 := by
  obtain ⟨s', he, hh, hx, hb, _⟩ := markExecuted_ok (evicted := evicted) hi.batch hc
  rw [he]
  refine ⟨?_, ?_, hb⟩
  · rw [hh]; exact hi.nodup.sublist List.filter_sublist
  · intro h hm
    rw [hh, List.mem_filter] at hm
    rw [hx]
    rintro (h1 | h1)
    · exact hi.disjoint h hm.1 h1
    · have := hm.2; simp at this; exact this.1 h1

/-! ### UnMarkExecuted -/

theorem hashes_delExec (s : Pool) (h : Nat) : (s.delExec h).hashes = s.hashes := rfl

theorem mem_exec_delExec {s : Pool} {h k : Nat} : k ∈ (s.delExec h).execHashes ↔ k ≠ h ∧ k ∈ s.execHashes := by
  simp only [Pool.delExec, Pool.execHashes]; exact mem_execDel

theorem inv_delExec {s : Pool} (h : Nat) (hi : Inv s) : Inv (s.delExec h) :=
  ⟨hi.nodup, fun x hx he => hi.disjoint x hx (mem_exec_delExec.mp he).2, hi.batch⟩

theorem inv_unmark {s : Pool} (txs : List Tx) (hi : Inv s) : Inv (s.unmark txs) := by
  unfold Pool.unmark
  induction txs generalizing s with
  | nil => exact hi
  | cons t ts ih => simp only [List.foldl_cons]; exact ih (inv_add t (inv_delExec t.hash hi))

theorem mem_exec_add {s : Pool} (t : Tx) (k : Nat) : k ∈ (s.add t).1.execHashes ↔ k ∈ s.execHashes := by
  unfold Pool.add; split
  · rfl
  · simp [execHashes_push]

/-- executed records after removing a block: exactly the old ones minus the block's transactions -/
theorem mem_exec_unmark {s : Pool} (txs : List Tx) (k : Nat) :
    k ∈ (s.unmark txs).execHashes ↔ k ∈ s.execHashes ∧ k ∉ txs.map (·.hash) := by
  unfold Pool.unmark
  induction txs generalizing s with
  | nil => simp
  | cons t ts ih =>
    simp only [List.foldl_cons]
    rw [ih, mem_exec_add, mem_exec_delExec]
    simp only [List.map_cons, List.mem_cons, not_or]
    constructor
    · rintro ⟨⟨h1, h2⟩, h3⟩; exact ⟨h2, h1, h3⟩
    · rintro ⟨h2, h1, h3⟩; exact ⟨⟨h1, h2⟩, h3⟩

theorem mem_hashes_add_mono {s : Pool} (t : Tx) {k : Nat} (h : k ∈ s.hashes) : k ∈ (s.add t).1.hashes := by
  unfold Pool.add; split
  · exact h
  · simp only; rw [hashes_push]; split
    · exact List.mem_append_left _ h
    · exact h

theorem length_add_le (s : Pool) (t : Tx) : (s.add t).1.pending.length ≤ s.pending.length + 1 := by
  unfold Pool.add Pool.push; split
  · simp
  · simp only; split <;> simp

theorem limit_add (s : Pool) (t : Tx) : (s.add t).1.limit = s.limit := by
  unfold Pool.add; split
  · rfl
  · exact limit_push s t

/-- with room in the container `add` leaves the hash pending unless it is executed -/
theorem mem_hashes_add_self {s : Pool} (t : Tx) (hroom : s.pending.length < s.limit) (hne : t.hash ∉ s.execHashes) :
    t.hash ∈ (s.add t).1.hashes := by
  unfold Pool.add
  split
  · rename_i he
    rcases existed_iff.mp he with h | h
    · exact h
    · exact absurd h hne
  · simp only; rw [hashes_push]; simp [hroom]

/-- Removing a block makes its transactions pending again when the container has room for them. -/
theorem mem_hashes_unmark {s : Pool} (txs : List Tx) (hroom : s.pending.length + txs.length ≤ s.limit) :
    ∀ t ∈ txs, t.hash ∈ (s.unmark txs).hashes := by
  unfold Pool.unmark
  induction txs generalizing s with
  | nil => intro t ht; simp at ht
  | cons u us ih =>
    intro t ht
    simp only [List.foldl_cons]
    simp only [List.length_cons] at hroom
    have hlen : ((s.delExec u.hash).add u).1.pending.length + us.length ≤ ((s.delExec u.hash).add u).1.limit := by
      have := length_add_le (s.delExec u.hash) u
      rw [limit_add]
      simp only [Pool.delExec] at this ⊢
      omega
    have hu : u.hash ∈ ((s.delExec u.hash).add u).1.hashes := by
      apply mem_hashes_add_self
      · simp only [Pool.delExec]; omega
      · intro h; exact (mem_exec_delExec.mp h).1 rfl
    rcases List.mem_cons.mp ht with rfl | ht'
    · -- stays pending through the remaining adds
      have mono : ∀ (l : List Tx) (s0 : Pool), t.hash ∈ s0.hashes →
          t.hash ∈ (l.foldl (fun s t => ((s.delExec t.hash).add t).1) s0).hashes := by
        intro l
        induction l with
        | nil => intro s0 h; exact h
        | cons v vs ihv =>
          intro s0 h
          simp only [List.foldl_cons]
          exact ihv _ (mem_hashes_add_mono v (by rw [hashes_delExec]; exact h))
      exact mono us _ hu
    · exact ih hlen t ht'

/-! ### expiry -/

theorem hashes_expire_sublist (s : Pool) : s.expire.hashes.Sublist s.hashes := by
  unfold Pool.expire Pool.hashes
  simp only
  have h1 : (List.filter (fun e => decide (e.ring < expiredRing))
      (s.pending.map (fun e => ({ e with ring := e.ring + 1 } : Entry)))).Sublist
      (s.pending.map (fun e => ({ e with ring := e.ring + 1 } : Entry))) := List.filter_sublist
  have h2 := h1.map (fun e => e.tx.hash)
  simpa [List.map_map, Function.comp_def] using h2

theorem inv_expire {s : Pool} (hi : Inv s) : Inv s.expire :=
  ⟨hi.nodup.sublist (hashes_expire_sublist s),
   fun h hm => hi.disjoint h ((hashes_expire_sublist s).subset hm),
   hi.batch⟩

end Rangers.Pool
