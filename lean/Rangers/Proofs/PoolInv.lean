import Rangers.Proofs.PoolWalk
/-! State lemmas of the pool model: what each operation does to the pending and executed hash sets,
and the invariant. Core Lean only. -/
namespace Rangers.Pool

/-- only gate-nonce puts wait in the shared batch -/
def GateOnly (b : List BOp) : Prop := ∀ o ∈ b, ∃ n, o = BOp.putGate n

/-- The pool invariant: pending hashes are unique, nothing pending is executed, and between
operations the shared batch holds no executed record. -/
structure Inv (s : Pool) : Prop where
  nodup : s.hashes.Nodup
  disjoint : ∀ h ∈ s.hashes, h ∉ s.execHashes
  batch : GateOnly s.batch
  attached : s.detached = false

/-- every receipt belongs to a transaction of the block (what `VMExecutor.Execute` returns) -/
def Covered (receipts : List Nat) (txs : List Tx) : Prop := ∀ h ∈ receipts, ∃ t ∈ txs, t.hash = h

theorem contains_iff {s : Pool} {h : Nat} : s.contains h = true ↔ h ∈ s.hashes := by
  simp [Pool.contains]

theorem isExecuted_iff {s : Pool} {h : Nat} : s.isExecuted h = true ↔ h ∈ s.execHashes := by
  simp [Pool.isExecuted]

theorem existed_iff {s : Pool} {h : Nat} : s.existed h = true ↔ h ∈ s.hashes ∨ h ∈ s.execHashes := by
  simp [Pool.existed, contains_iff, isExecuted_iff]

theorem inv_empty (limit : Nat) : Inv (Pool.empty limit) :=
  ⟨by simp [Pool.empty, Pool.hashes], by simp [Pool.empty, Pool.hashes], by simp [Pool.empty, GateOnly], rfl⟩

/-! ### push / add -/

theorem hashes_push (s : Pool) (t : Tx) :
    (s.push t).hashes = if s.pending.length < s.limit then s.hashes ++ [t.hash] else s.hashes := by
  unfold Pool.push Pool.hashes; split <;> simp

theorem exec_push (s : Pool) (t : Tx) : (s.push t).executed = s.executed := by
  unfold Pool.push; split <;> rfl

theorem batch_push (s : Pool) (t : Tx) : (s.push t).batch = s.batch := by
  unfold Pool.push; split <;> rfl

theorem limit_push (s : Pool) (t : Tx) : (s.push t).limit = s.limit := by
  unfold Pool.push; split <;> rfl

theorem detached_push (s : Pool) (t : Tx) : (s.push t).detached = s.detached := by
  unfold Pool.push; split <;> rfl

theorem execHashes_push (s : Pool) (t : Tx) : (s.push t).execHashes = s.execHashes := by
  simp [Pool.execHashes, exec_push]

theorem add_exist {s : Pool} {t : Tx} (h : s.existed t.hash = true) : s.add t = (s, .exist) := by
  simp [Pool.add, h]

theorem add_fresh {s : Pool} {t : Tx} (h : s.existed t.hash = false) : s.add t = (s.push t, .ok) := by
  simp [Pool.add, h]

theorem inv_push {s : Pool} {t : Tx} (hi : Inv s) (h : s.existed t.hash = false) : Inv (s.push t) := by
  have hne : ¬ (t.hash ∈ s.hashes ∨ t.hash ∈ s.execHashes) := by
    intro hh; have := existed_iff.mpr hh; simp [h] at this
  refine ⟨?_, ?_, ?_, by rw [detached_push]; exact hi.attached⟩
  · rw [hashes_push]; split
    · rw [List.nodup_append]
      refine ⟨hi.nodup, by simp, ?_⟩
      intro a ha b hb; simp at hb; subst hb
      intro e; subst e; exact hne (Or.inl ha)
    · exact hi.nodup
  · rw [hashes_push, execHashes_push]; split
    · intro x hx; rcases List.mem_append.mp hx with hx | hx
      · exact hi.disjoint x hx
      · simp at hx; subst hx; exact fun e => hne (Or.inr e)
    · exact hi.disjoint
  · rw [batch_push]; exact hi.batch

theorem inv_add {s : Pool} (t : Tx) (hi : Inv s) : Inv (s.add t).1 := by
  cases h : s.existed t.hash
  · rw [add_fresh h]; exact inv_push hi h
  · rw [add_exist h]; exact hi

theorem gateOnly_append_gate {b : List BOp} (h : GateOnly b) (n : Nat) : GateOnly (b ++ [.putGate n]) := by
  intro o ho; rcases List.mem_append.mp ho with ho | ho
  · exact h o ho
  · simp at ho; exact ⟨n, ho⟩

theorem inv_refreshGate {s : Pool} (t : Tx) (hi : Inv s) : Inv (s.refreshGate t) := by
  unfold Pool.refreshGate; split
  · exact ⟨hi.nodup, hi.disjoint, gateOnly_append_gate hi.batch _, hi.attached⟩
  · exact hi

theorem inv_addTransaction {s : Pool} (t : Tx) (hi : Inv s) : Inv (s.addTransaction t).1 := by
  unfold Pool.addTransaction
  have := inv_add t hi
  split
  · rename_i s' heq; rw [heq] at this; exact inv_refreshGate t this
  · rename_i s' heq; rw [heq] at this; exact this

theorem addTransaction_exist {s : Pool} {t : Tx} (h : s.existed t.hash = true) : s.addTransaction t = (s, .exist) := by
  simp [Pool.addTransaction, add_exist h]

/-! ### removeHashes -/

theorem hashes_removeHashes (s : Pool) (hs : List Nat) :
    (s.removeHashes hs).hashes = s.hashes.filter (fun h => !hs.contains h) := by
  simp [Pool.removeHashes, Pool.hashes, List.filter_map, Function.comp_def]

theorem mem_hashes_removeHashes {s : Pool} {hs : List Nat} {h : Nat} :
    h ∈ (s.removeHashes hs).hashes ↔ h ∈ s.hashes ∧ h ∉ hs := by
  simp [hashes_removeHashes]

/-! ### executed records -/

theorem mem_execPut {ex : List (Nat × Option Tx)} {h k : Nat} {v : Option Tx} :
    k ∈ (execPut ex h v).map (·.1) ↔ k = h ∨ k ∈ ex.map (·.1) := by
  simp only [execPut, List.map_cons, List.mem_cons, List.mem_map, List.mem_filter]
  constructor
  · rintro (rfl | ⟨p, ⟨hp, _⟩, rfl⟩)
    · exact Or.inl rfl
    · exact Or.inr ⟨p, hp, rfl⟩
  · rintro (rfl | ⟨p, hp, rfl⟩)
    · exact Or.inl rfl
    · by_cases e : p.1 = h
      · exact Or.inl e
      · exact Or.inr ⟨p, ⟨hp, by simp [e]⟩, rfl⟩

theorem mem_execDel {ex : List (Nat × Option Tx)} {h k : Nat} :
    k ∈ (execDel ex h).map (·.1) ↔ k ≠ h ∧ k ∈ ex.map (·.1) := by
  simp only [execDel, List.mem_map, List.mem_filter]
  constructor
  · rintro ⟨p, ⟨hp, hne⟩, rfl⟩
    exact ⟨by simpa using hne, p, hp, rfl⟩
  · rintro ⟨hne, p, hp, rfl⟩
    exact ⟨p, ⟨hp, by simpa using hne⟩, rfl⟩

/-- hashes of the executed records a batch will write -/
def putHashes : List BOp → List Nat
  | [] => []
  | .putTx h _ _ :: r => h :: putHashes r
  | .putGate _ :: r => putHashes r

theorem putHashes_append (a b : List BOp) : putHashes (a ++ b) = putHashes a ++ putHashes b := by
  induction a with
  | nil => rfl
  | cons o r ih => cases o <;> simp [putHashes, ih]

theorem putHashes_gateOnly {b : List BOp} (h : GateOnly b) : putHashes b = [] := by
  induction b with
  | nil => rfl
  | cons o r ih =>
    obtain ⟨n, rfl⟩ := h o (by simp)
    simp [putHashes]; exact ih (fun o ho => h o (by simp [ho]))

/-- every executed record waiting in the batch has a positive byte size (a JSON record is never empty) -/
def PosSizes (b : List BOp) : Prop := ∀ h v z, BOp.putTx h v z ∈ b → 0 < z

theorem posSizes_gateOnly {b : List BOp} (h : GateOnly b) : PosSizes b := by
  intro x v z hm; obtain ⟨n, e⟩ := h _ hm; cases e

theorem posSizes_append {a b : List BOp} (ha : PosSizes a) (hb : PosSizes b) : PosSizes (a ++ b) := by
  intro h v z hm; rcases List.mem_append.mp hm with hm | hm
  · exact ha h v z hm
  · exact hb h v z hm

theorem bsize_zero_nil : ∀ {b : List BOp}, PosSizes b → bsize b = 0 → b = []
  | [], _, _ => rfl
  | .putTx h v z :: r, hp, hz => by
    have := hp h v z (by simp); simp [bsize] at hz; omega
  | .putGate n :: r, _, hz => by simp [bsize] at hz

theorem applyBOp_frame (s : Pool) (o : BOp) :
    (applyBOp s o).pending = s.pending ∧ (applyBOp s o).limit = s.limit ∧ (applyBOp s o).detached = s.detached ∧
    (applyBOp s o).evicted = s.evicted ∧ (applyBOp s o).batch = s.batch := by
  cases o <;> simp [applyBOp] <;> split <;> simp

theorem foldl_applyBOp_frame (b : List BOp) (s : Pool) :
    (b.foldl applyBOp s).pending = s.pending ∧ (b.foldl applyBOp s).limit = s.limit ∧
    (b.foldl applyBOp s).detached = s.detached ∧ (b.foldl applyBOp s).evicted = s.evicted := by
  induction b generalizing s with
  | nil => simp
  | cons o r ih =>
    simp only [List.foldl_cons]
    have h1 := ih (applyBOp s o)
    have h2 := applyBOp_frame s o
    exact ⟨h1.1.trans h2.1, h1.2.1.trans h2.2.1, h1.2.2.1.trans h2.2.2.1, h1.2.2.2.trans h2.2.2.2.1⟩

theorem mem_exec_foldl (b : List BOp) (s : Pool) (hd : s.detached = false) (k : Nat) :
    k ∈ (b.foldl applyBOp s).execHashes ↔ k ∈ s.execHashes ∨ k ∈ putHashes b := by
  induction b generalizing s with
  | nil => simp [putHashes]
  | cons o r ih =>
    simp only [List.foldl_cons]
    rw [ih _ (by rw [(applyBOp_frame s o).2.2.1]; exact hd)]
    cases o with
    | putTx h v z =>
      simp only [applyBOp, hd, Pool.execHashes, putHashes, List.mem_cons]
      simp only [Bool.false_eq_true, if_false]
      rw [mem_execPut]
      constructor
      · rintro ((rfl | h1) | h2)
        · exact Or.inr (Or.inl rfl)
        · exact Or.inl h1
        · exact Or.inr (Or.inr h2)
      · rintro (h1 | rfl | h2)
        · exact Or.inl (Or.inr h1)
        · exact Or.inl (Or.inl rfl)
        · exact Or.inr h2
    | putGate n => simp [applyBOp, hd, Pool.execHashes, putHashes]

theorem hashes_flush (s : Pool) : s.flush.hashes = s.hashes := by
  simp [Pool.flush, Pool.hashes, (foldl_applyBOp_frame s.batch s).1]

theorem flush_frame (s : Pool) : s.flush.pending = s.pending ∧ s.flush.limit = s.limit ∧
    s.flush.detached = s.detached ∧ s.flush.evicted = s.evicted ∧ s.flush.batch = [] := by
  have := foldl_applyBOp_frame s.batch s
  simp [Pool.flush, this]

theorem mem_exec_flush (s : Pool) (hd : s.detached = false) (k : Nat) :
    k ∈ s.flush.execHashes ↔ k ∈ s.execHashes ∨ k ∈ putHashes s.batch := by
  have := mem_exec_foldl s.batch s hd k
  simpa [Pool.flush, Pool.execHashes] using this

theorem refreshGate_frame (s : Pool) (t : Tx) : (s.refreshGate t).pending = s.pending ∧ (s.refreshGate t).limit = s.limit ∧
    (s.refreshGate t).detached = s.detached ∧ (s.refreshGate t).evicted = s.evicted ∧
    (s.refreshGate t).executed = s.executed ∧ putHashes (s.refreshGate t).batch = putHashes s.batch ∧
    (PosSizes s.batch → PosSizes (s.refreshGate t).batch) := by
  unfold Pool.refreshGate; split
  · refine ⟨rfl, rfl, rfl, rfl, rfl, by simp [putHashes_append, putHashes], ?_⟩
    intro hp; exact posSizes_append hp (by intro h v z hm; simp at hm)
  · exact ⟨rfl, rfl, rfl, rfl, rfl, rfl, id⟩

/-! ### MarkExecuted -/

theorem findTx_isSome {txs : List Tx} {h : Nat} (hc : ∃ t ∈ txs, t.hash = h) (i : Nat) : ∃ t, findTx txs h i = some t := by
  have hf : ∃ t, txs.find? (fun t => t.hash == h) = some t := by
    obtain ⟨t, ht, e⟩ := hc
    cases hfind : txs.find? (fun t => t.hash == h) with
    | some u => exact ⟨u, rfl⟩
    | none =>
      have := List.find?_eq_none.mp hfind t ht
      simp [e] at this
  unfold findTx
  split
  · split
    · exact ⟨_, rfl⟩
    · exact hf
  · exact hf

theorem findTx_none {txs : List Tx} {h : Nat} (hc : ¬ ∃ t ∈ txs, t.hash = h) (i : Nat) : findTx txs h i = none := by
  have hf : txs.find? (fun t => t.hash == h) = none := by
    apply List.find?_eq_none.mpr
    intro t ht; simp; exact fun e => hc ⟨t, ht, e⟩
  unfold findTx
  split
  · rename_i t hi
    split
    · rename_i e; exact absurd ⟨t, List.mem_of_getElem? hi, e⟩ hc
    · exact hf
  · exact hf

/-- What the receipt loop guarantees for every crash point: it ends `ok` or `crash`, never touches the
pending container, keeps every old record, and whatever is recorded or waiting in the batch afterwards
was recorded or waiting before or is a receipt of this block; when it ends `ok`, all receipts are. -/
theorem markLoop_spec {txs : List Tx} (crashAt : Option Nat) :
    ∀ (rs : List (Nat × Nat)) (i : Nat) (ws : List Nat) (s : Pool),
      Covered (rs.map (·.1)) txs → s.detached = false → PosSizes s.batch → (∀ p ∈ rs, 0 < p.2) →
      ∃ s' ws' r, markLoop txs crashAt rs i ws s = (s', ws', r) ∧ (r = .ok ∨ r = .crash) ∧ (crashAt = none → r = .ok) ∧
        s'.pending = s.pending ∧ s'.limit = s.limit ∧ s'.detached = false ∧ s'.evicted = s.evicted ∧
        PosSizes s'.batch ∧ (∀ k, k ∈ s.execHashes → k ∈ s'.execHashes) ∧
        (∀ k, (k ∈ s'.execHashes ∨ k ∈ putHashes s'.batch) → (k ∈ s.execHashes ∨ k ∈ putHashes s.batch ∨ k ∈ rs.map (·.1))) ∧
        (r = .ok → ∀ k, (k ∈ s.execHashes ∨ k ∈ putHashes s.batch ∨ k ∈ rs.map (·.1)) → (k ∈ s'.execHashes ∨ k ∈ putHashes s'.batch))
  | [], i, ws, s, _, hd, hp, _ =>
    ⟨s, ws, .ok, rfl, Or.inl rfl, fun _ => rfl, rfl, rfl, hd, rfl, hp, fun _ h => h,
      by intro k h; rcases h with h | h; exact Or.inl h; exact Or.inr (Or.inl h),
      by intro _ k h; rcases h with h | h | h; exact Or.inl h; exact Or.inr h; simp at h⟩
  | (h, z) :: rs, i, ws, s, hc, hd, hp, hz => by
    obtain ⟨t, ht⟩ := findTx_isSome (hc h (by simp)) i
    have hc' : Covered (rs.map (·.1)) txs := fun x hx => hc x (by simp [hx])
    have hz' : ∀ p ∈ rs, 0 < p.2 := fun p hp => hz p (by simp [hp])
    have hzz : 0 < z := hz (h, z) (by simp)
    unfold markLoop
    simp only [ht]
    -- the state after the put
    have hp1 : PosSizes (s.batch ++ [BOp.putTx h (some t) z]) :=
      posSizes_append hp (by intro a v y hm; simp at hm; omega)
    split
    · split
      · -- crash right before the mid-loop write
        rename_i hcr
        have hnn : crashAt = none → MarkRes.crash = MarkRes.ok := by intro e; rw [e] at hcr; cases hcr
        refine ⟨_, _, .crash, rfl, Or.inr rfl, hnn, rfl, rfl, hd, rfl, hp1, fun _ hk => hk, ?_, by intro e; cases e⟩
        intro k hk
        simp only [putHashes_append, putHashes, List.mem_append, List.map_cons, List.mem_cons, List.not_mem_nil, or_false] at hk ⊢
        rcases hk with hk | hk | hk
        · exact Or.inl hk
        · exact Or.inr (Or.inl hk)
        · exact Or.inr (Or.inr (Or.inl hk))
      · -- written, batch reset, gate refreshed
        let s1 : Pool := { s with batch := s.batch ++ [BOp.putTx h (some t) z] }
        have hd1 : s1.detached = false := hd
        have ff := flush_frame s1
        have rf := refreshGate_frame s1.flush t
        have hd2 : (s1.flush.refreshGate t).detached = false := by rw [rf.2.2.1, ff.2.2.1]; exact hd1
        have hp2 : PosSizes (s1.flush.refreshGate t).batch := rf.2.2.2.2.2.2 (by rw [ff.2.2.2.2]; intro a v y hm; simp at hm)
        obtain ⟨s', ws', r, he, hr, hn, h1, h2, h3, h4, h5, h6, h7, h8⟩ :=
          markLoop_spec crashAt rs (i + 1) (s1.batch.length :: ws) (s1.flush.refreshGate t) hc' hd2 hp2 hz'
        have hex : ∀ k, k ∈ (s1.flush.refreshGate t).execHashes ↔ k ∈ s.execHashes ∨ k ∈ putHashes s.batch ∨ k = h := by
          intro k
          have := mem_exec_flush s1 hd1 k
          simp only [Pool.execHashes] at this ⊢
          rw [rf.2.2.2.2.1, this]
          simp [s1, putHashes_append, putHashes, or_assoc]
        have hb2 : putHashes (s1.flush.refreshGate t).batch = [] := by rw [rf.2.2.2.2.2.1, ff.2.2.2.2]; rfl
        refine ⟨s', ws', r, he, hr, hn, by rw [h1, rf.1, ff.1], by rw [h2, rf.2.1, ff.2.1], h3, by rw [h4, rf.2.2.2.1, ff.2.2.2.1], h5,
          fun k hk => h6 k ((hex k).mpr (Or.inl hk)), ?_, ?_⟩
        · intro k hk
          rcases h7 k hk with hk | hk | hk
          · rcases (hex k).mp hk with hk | hk | hk
            · exact Or.inl hk
            · exact Or.inr (Or.inl hk)
            · exact Or.inr (Or.inr (by simp [hk]))
          · rw [hb2] at hk; simp at hk
          · exact Or.inr (Or.inr (by simp only [List.map_cons, List.mem_cons]; exact Or.inr hk))
        · intro hrok k hk
          apply h8 hrok
          rcases hk with hk | hk | hk
          · exact Or.inl ((hex k).mpr (Or.inl hk))
          · exact Or.inl ((hex k).mpr (Or.inr (Or.inl hk)))
          · simp only [List.map_cons, List.mem_cons] at hk
            rcases hk with hk | hk
            · exact Or.inl ((hex k).mpr (Or.inr (Or.inr hk)))
            · exact Or.inr (Or.inr hk)
    · -- below the threshold: nothing written
      let s1 : Pool := { s with batch := s.batch ++ [BOp.putTx h (some t) z] }
      have hd1 : s1.detached = false := hd
      have rf := refreshGate_frame s1 t
      have hd2 : (s1.refreshGate t).detached = false := by rw [rf.2.2.1]; exact hd1
      have hp2 : PosSizes (s1.refreshGate t).batch := rf.2.2.2.2.2.2 hp1
      obtain ⟨s', ws', r, he, hr, hn, h1, h2, h3, h4, h5, h6, h7, h8⟩ :=
        markLoop_spec crashAt rs (i + 1) ws (s1.refreshGate t) hc' hd2 hp2 hz'
      have hb2 : putHashes (s1.refreshGate t).batch = putHashes s.batch ++ [h] := by
        rw [rf.2.2.2.2.2.1]; simp [s1, putHashes_append, putHashes]
      have hx2 : (s1.refreshGate t).execHashes = s.execHashes := by simp only [Pool.execHashes]; rw [rf.2.2.2.2.1]
      refine ⟨s', ws', r, he, hr, hn, by rw [h1, rf.1], by rw [h2, rf.2.1], h3, by rw [h4, rf.2.2.2.1], h5,
        fun k hk => h6 k (by rw [hx2]; exact hk), ?_, ?_⟩
      · intro k hk
        rcases h7 k hk with hk | hk | hk
        · rw [hx2] at hk; exact Or.inl hk
        · rw [hb2] at hk; simp only [List.mem_append, List.mem_singleton] at hk
          rcases hk with hk | hk
          · exact Or.inr (Or.inl hk)
          · exact Or.inr (Or.inr (by simp [hk]))
        · exact Or.inr (Or.inr (by simp only [List.map_cons, List.mem_cons]; exact Or.inr hk))
      · intro hrok k hk
        apply h8 hrok
        rcases hk with hk | hk | hk
        · exact Or.inl (by rw [hx2]; exact hk)
        · exact Or.inr (Or.inl (by rw [hb2]; exact List.mem_append_left _ hk))
        · simp only [List.map_cons, List.mem_cons] at hk
          rcases hk with hk | hk
          · exact Or.inr (Or.inl (by rw [hb2]; simp [hk]))
          · exact Or.inr (Or.inr hk)

/-- A receipt without transaction makes the loop panic (the modelled error branch is reachable exactly then). -/
theorem markLoop_uncovered {txs : List Tx} (crashAt : Option Nat) :
    ∀ (rs : List (Nat × Nat)) (i : Nat) (ws : List Nat) (s : Pool), crashAt = none → ¬ Covered (rs.map (·.1)) txs →
      (markLoop txs crashAt rs i ws s).2.2 = .panic
  | [], i, ws, s, _, hc => absurd (fun _ h => by simp at h) hc
  | (h, z) :: rs, i, ws, s, hn, hc => by
    unfold markLoop
    by_cases hh : ∃ t ∈ txs, t.hash = h
    · obtain ⟨t, ht⟩ := findTx_isSome hh i
      simp only [ht]
      have : ¬ Covered (rs.map (·.1)) txs := by
        intro c; apply hc; intro x hx
        simp only [List.map_cons, List.mem_cons] at hx
        rcases hx with rfl | hx
        · exact hh
        · exact c x hx
      subst hn
      split
      · simp only [reduceCtorEq, if_false]; exact markLoop_uncovered none rs _ _ _ rfl this
      · exact markLoop_uncovered none rs _ _ _ rfl this
    · simp [findTx_none hh i]

/-- Without a crash point and with every receipt covered the loop ends `ok`, in every state. -/
theorem markLoop_res_covered {txs : List Tx} :
    ∀ (rs : List (Nat × Nat)) (i : Nat) (ws : List Nat) (s : Pool), Covered (rs.map (·.1)) txs →
      (markLoop txs none rs i ws s).2.2 = .ok
  | [], _, _, _, _ => rfl
  | (h, z) :: rs, i, ws, s, hc => by
    obtain ⟨t, ht⟩ := findTx_isSome (hc h (by simp)) i
    have hc' : Covered (rs.map (·.1)) txs := fun x hx => hc x (by simp [hx])
    unfold markLoop
    simp only [ht]
    split
    · simp only [reduceCtorEq, if_false]; exact markLoop_res_covered rs _ _ _ hc'
    · exact markLoop_res_covered rs _ _ _ hc'

theorem markExecutedZ_res {s : Pool} {rs : List (Nat × Nat)} {txs : List Tx} {evicted : List Nat} :
    (s.markExecutedZ rs txs evicted none).2.2 = .ok ↔ Covered (rs.map (·.1)) txs := by
  unfold Pool.markExecutedZ
  by_cases hr : rs = []
  · subst hr; simp [Covered]
  · simp only [hr, if_false]
    by_cases hc : Covered (rs.map (·.1)) txs
    · have := markLoop_res_covered (txs := txs) rs 0 [] s hc
      cases hm : markLoop txs none rs 0 [] s with
      | mk s1 p => cases p with
        | mk ws r =>
          rw [hm] at this; simp at this; subst this
          simp only [reduceCtorEq, if_false]
          split <;> simp [hc]
    · have := markLoop_uncovered (txs := txs) none rs 0 [] s rfl hc
      cases hm : markLoop txs none rs 0 [] s with
      | mk s1 p => cases p with
        | mk ws r =>
          rw [hm] at this; simp at this; subst this
          simp [hc]

theorem evictAll_frame (s : Pool) (hs : List Nat) : (s.evictAll hs).pending = s.pending ∧ (s.evictAll hs).executed = s.executed ∧
    (s.evictAll hs).batch = s.batch ∧ (s.evictAll hs).limit = s.limit ∧ (s.evictAll hs).detached = s.detached :=
  ⟨rfl, rfl, rfl, rfl, rfl⟩

/-- What a well-formed `MarkExecuted` does, as sets — for every choice of record sizes, i.e. wherever inside
the call the batch is written. -/
theorem markExecutedZ_ok {s : Pool} {rs : List (Nat × Nat)} {txs : List Tx} {evicted : List Nat}
    (hb : GateOnly s.batch) (hd : s.detached = false) (hc : Covered (rs.map (·.1)) txs) (hz : ∀ p ∈ rs, 0 < p.2) :
    ∃ s' ws, s.markExecutedZ rs txs evicted none = (s', ws, .ok) ∧
      s'.hashes = s.hashes.filter (fun h => !(rs.map (·.1) ++ evicted).contains h) ∧
      (∀ k, k ∈ s'.execHashes ↔ k ∈ s.execHashes ∨ k ∈ rs.map (·.1)) ∧
      GateOnly s'.batch ∧ s'.limit = s.limit ∧ s'.detached = false := by
  unfold Pool.markExecutedZ
  by_cases hr : rs = []
  · subst hr
    refine ⟨(s.evictAll evicted).removeHashes evicted, [], by simp, ?_, ?_, hb, rfl, hd⟩
    · rw [hashes_removeHashes]; simp [Pool.hashes, Pool.evictAll]
    · intro k; simp [Pool.removeHashes, Pool.execHashes, Pool.evictAll]
  · obtain ⟨s1, ws, r, he, _, hn, h1, h2, h3, _, h5, h6, h7, h8⟩ := markLoop_spec none rs 0 [] s hc hd (posSizes_gateOnly hb) hz
    have hrok : r = .ok := hn rfl
    subst hrok
    simp only [hr, if_false, he]
    have hP : putHashes s.batch = [] := putHashes_gateOnly hb
    by_cases hbz : bsize s1.batch > 0
    · simp only [hbz, if_true, reduceCtorEq, if_false]
      have ff := flush_frame s1
      refine ⟨_, _, rfl, ?_, ?_, ?_, ?_, ?_⟩
      · rw [hashes_removeHashes]; simp only [Pool.hashes, Pool.evictAll, ff.1, h1]
      · intro k
        have := mem_exec_flush s1 h3 k
        simp only [Pool.removeHashes, Pool.execHashes, Pool.evictAll] at this ⊢
        rw [this]
        constructor
        · intro hk
          rcases h7 k (by simpa [Pool.execHashes] using hk) with hk | hk | hk
          · exact Or.inl hk
          · rw [hP] at hk; simp at hk
          · exact Or.inr hk
        · intro hk
          have := h8 rfl k (by rcases hk with hk | hk; exact Or.inl hk; exact Or.inr (Or.inr hk))
          simpa [Pool.execHashes] using this
      · intro o ho; simp [Pool.removeHashes, Pool.evictAll, ff.2.2.2.2] at ho
      · simp [Pool.removeHashes, Pool.evictAll, ff.2.1, h2]
      · simp [Pool.removeHashes, Pool.evictAll, ff.2.2.1, h3]
    · simp only [hbz, if_false]
      have hnil : s1.batch = [] := bsize_zero_nil h5 (by omega)
      refine ⟨_, _, rfl, ?_, ?_, ?_, ?_, ?_⟩
      · rw [hashes_removeHashes]; simp only [Pool.hashes, Pool.evictAll, h1]
      · intro k
        simp only [Pool.removeHashes, Pool.execHashes, Pool.evictAll]
        constructor
        · intro hk
          rcases h7 k (Or.inl (by simpa [Pool.execHashes] using hk)) with hk | hk | hk
          · exact Or.inl hk
          · rw [hP] at hk; simp at hk
          · exact Or.inr hk
        · intro hk
          have := h8 rfl k (by rcases hk with hk | hk; exact Or.inl hk; exact Or.inr (Or.inr hk))
          rw [hnil] at this
          simpa [Pool.execHashes, putHashes] using this
      · intro o ho; simp [Pool.removeHashes, Pool.evictAll, hnil] at ho
      · simp [Pool.removeHashes, Pool.evictAll, h2]
      · simp [Pool.removeHashes, Pool.evictAll, h3]

/-- A crash before any physical write of `MarkExecuted` (process death between two batch writes): the
pending container is untouched, no old record is lost, and every record present afterwards is an old one
or belongs to a receipt of this block. -/
theorem markExecutedZ_crash {s : Pool} {rs : List (Nat × Nat)} {txs : List Tx} {evicted : List Nat} {k : Nat}
    (hb : GateOnly s.batch) (hd : s.detached = false) (hc : Covered (rs.map (·.1)) txs) (hz : ∀ p ∈ rs, 0 < p.2)
    {s' : Pool} {ws : List Nat} (h : s.markExecutedZ rs txs evicted (some k) = (s', ws, .crash)) :
    s'.pending = s.pending ∧ s'.evicted = s.evicted ∧ (∀ x, x ∈ s.execHashes → x ∈ s'.execHashes) ∧
      (∀ x, x ∈ s'.execHashes → x ∈ s.execHashes ∨ x ∈ rs.map (·.1)) := by
  unfold Pool.markExecutedZ at h
  by_cases hr : rs = []
  · simp [hr] at h
  · obtain ⟨s1, ws1, r, he, hro, _, h1, _, _, h4, _, h6, h7, _⟩ :=
      markLoop_spec (some k) rs 0 [] s hc hd (posSizes_gateOnly hb) hz
    have hP : putHashes s.batch = [] := putHashes_gateOnly hb
    simp only [hr, if_false, he] at h
    have key : s1.pending = s.pending ∧ s1.evicted = s.evicted ∧ (∀ x, x ∈ s.execHashes → x ∈ s1.execHashes) ∧
        (∀ x, x ∈ s1.execHashes → x ∈ s.execHashes ∨ x ∈ rs.map (·.1)) := by
      refine ⟨h1, h4, h6, ?_⟩
      intro x hx
      rcases h7 x (Or.inl hx) with hx | hx | hx
      · exact Or.inl hx
      · rw [hP] at hx; simp at hx
      · exact Or.inr hx
    rcases hro with rfl | rfl
    · simp only at h
      split at h
      · split at h
        · simp at h; obtain ⟨rfl, _⟩ := h; exact key
        · simp at h
      · simp at h
    · simp at h; obtain ⟨rfl, _⟩ := h; exact key

theorem markExecuted_ok {s : Pool} {receipts : List Nat} {txs : List Tx} {evicted : List Nat}
    (hb : GateOnly s.batch) (hd : s.detached = false) (hc : Covered receipts txs) :
    ∃ s', s.markExecuted receipts txs evicted = (s', false) ∧
      s'.hashes = s.hashes.filter (fun h => !(receipts ++ evicted).contains h) ∧
      (∀ k, k ∈ s'.execHashes ↔ k ∈ s.execHashes ∨ k ∈ receipts) ∧
      GateOnly s'.batch ∧ s'.limit = s.limit ∧ s'.detached = false := by
  have hm : (receipts.map (fun h => (h, 1))).map (·.1) = receipts := by simp [List.map_map, Function.comp_def]
  obtain ⟨s', ws, he, h1, h2, h3, h4, h5⟩ := markExecutedZ_ok (s := s) (rs := receipts.map (fun h => (h, 1))) (txs := txs)
    (evicted := evicted) hb hd (by rw [hm]; exact hc) (by intro p hp; simp at hp; obtain ⟨_, _, rfl⟩ := hp; simp)
  rw [hm] at h1 h2
  exact ⟨s', by simp [Pool.markExecuted, he], h1, h2, h3, h4, h5⟩

theorem inv_markExecuted {s : Pool} {receipts : List Nat} {txs : List Tx} {evicted : List Nat}
    (hi : Inv s) (hc : Covered receipts txs) : Inv (s.markExecuted receipts txs evicted).1 := by
  obtain ⟨s', he, hh, hx, hb, _, hd⟩ := markExecuted_ok (evicted := evicted) hi.batch hi.attached hc
  rw [he]
  refine ⟨?_, ?_, hb, hd⟩
  · rw [hh]; exact hi.nodup.sublist List.filter_sublist
  · intro h hm
    rw [hh, List.mem_filter] at hm
    rw [hx]
    rintro (h1 | h1)
    · exact hi.disjoint h hm.1 h1
    · have := hm.2; simp at this; exact this.1 h1

/-! ### UnMarkExecuted -/

theorem hashes_delExec (s : Pool) (h : Nat) : (s.delExec h).hashes = s.hashes := rfl

theorem mem_exec_delExec {s : Pool} {h k : Nat} : k ∈ (s.delExec h).execHashes ↔ k ≠ h ∧ k ∈ s.execHashes := by
  simp only [Pool.delExec, Pool.execHashes]; exact mem_execDel

theorem inv_delExec {s : Pool} (h : Nat) (hi : Inv s) : Inv (s.delExec h) :=
  ⟨hi.nodup, fun x hx he => hi.disjoint x hx (mem_exec_delExec.mp he).2, hi.batch, hi.attached⟩

theorem inv_unmark {s : Pool} (txs : List Tx) (hi : Inv s) : Inv (s.unmark txs) := by
  unfold Pool.unmark
  induction txs generalizing s with
  | nil => exact hi
  | cons t ts ih => simp only [List.foldl_cons]; exact ih (inv_add t (inv_delExec t.hash hi))

theorem mem_exec_add {s : Pool} (t : Tx) (k : Nat) : k ∈ (s.add t).1.execHashes ↔ k ∈ s.execHashes := by
  unfold Pool.add; split
  · rfl
  · simp [execHashes_push]

/-- executed records after removing a block: exactly the old ones minus the block's transactions -/
theorem mem_exec_unmark {s : Pool} (txs : List Tx) (k : Nat) :
    k ∈ (s.unmark txs).execHashes ↔ k ∈ s.execHashes ∧ k ∉ txs.map (·.hash) := by
  unfold Pool.unmark
  induction txs generalizing s with
  | nil => simp
  | cons t ts ih =>
    simp only [List.foldl_cons]
    rw [ih, mem_exec_add, mem_exec_delExec]
    simp only [List.map_cons, List.mem_cons, not_or]
    constructor
    · rintro ⟨⟨h1, h2⟩, h3⟩; exact ⟨h2, h1, h3⟩
    · rintro ⟨h2, h1, h3⟩; exact ⟨⟨h1, h2⟩, h3⟩

theorem mem_hashes_add_mono {s : Pool} (t : Tx) {k : Nat} (h : k ∈ s.hashes) : k ∈ (s.add t).1.hashes := by
  unfold Pool.add; split
  · exact h
  · simp only; rw [hashes_push]; split
    · exact List.mem_append_left _ h
    · exact h

theorem length_add_le (s : Pool) (t : Tx) : (s.add t).1.pending.length ≤ s.pending.length + 1 := by
  unfold Pool.add Pool.push; split
  · simp
  · simp only; split <;> simp

theorem limit_add (s : Pool) (t : Tx) : (s.add t).1.limit = s.limit := by
  unfold Pool.add; split
  · rfl
  · exact limit_push s t

/-- with room in the container `add` leaves the hash pending unless it is executed -/
theorem mem_hashes_add_self {s : Pool} (t : Tx) (hroom : s.pending.length < s.limit) (hne : t.hash ∉ s.execHashes) :
    t.hash ∈ (s.add t).1.hashes := by
  unfold Pool.add
  split
  · rename_i he
    rcases existed_iff.mp he with h | h
    · exact h
    · exact absurd h hne
  · simp only; rw [hashes_push]; simp [hroom]

/-- Removing a block makes its transactions pending again when the container has room for them. -/
theorem mem_hashes_unmark {s : Pool} (txs : List Tx) (hroom : s.pending.length + txs.length ≤ s.limit) :
    ∀ t ∈ txs, t.hash ∈ (s.unmark txs).hashes := by
  unfold Pool.unmark
  induction txs generalizing s with
  | nil => intro t ht; simp at ht
  | cons u us ih =>
    intro t ht
    simp only [List.foldl_cons]
    simp only [List.length_cons] at hroom
    have hlen : ((s.delExec u.hash).add u).1.pending.length + us.length ≤ ((s.delExec u.hash).add u).1.limit := by
      have := length_add_le (s.delExec u.hash) u
      rw [limit_add]
      simp only [Pool.delExec] at this ⊢
      omega
    have hu : u.hash ∈ ((s.delExec u.hash).add u).1.hashes := by
      apply mem_hashes_add_self
      · simp only [Pool.delExec]; omega
      · intro h; exact (mem_exec_delExec.mp h).1 rfl
    rcases List.mem_cons.mp ht with rfl | ht'
    · -- stays pending through the remaining adds
      have mono : ∀ (l : List Tx) (s0 : Pool), t.hash ∈ s0.hashes →
          t.hash ∈ (l.foldl (fun s t => ((s.delExec t.hash).add t).1) s0).hashes := by
        intro l
        induction l with
        | nil => intro s0 h; exact h
        | cons v vs ihv =>
          intro s0 h
          simp only [List.foldl_cons]
          exact ihv _ (mem_hashes_add_mono v (by rw [hashes_delExec]; exact h))
      exact mono us _ hu
    · exact ih hlen t ht'

/-! ### UnMarkExecuted in full (`unmarkE`): the evicted cache is the only difference to `unmark` -/

theorem add_evicted_comm (s : Pool) (t : Tx) (e : List Nat) :
    (({ s with evicted := e } : Pool).add t).1 = { (s.add t).1 with evicted := e } := by
  unfold Pool.add
  have h1 : ({ s with evicted := e } : Pool).existed t.hash = s.existed t.hash := rfl
  rw [h1]
  split
  · rfl
  · simp only [Pool.push]; split <;> rfl

theorem unmark_evicted_comm (txs : List Tx) : ∀ (s : Pool) (e : List Nat),
    ({ s with evicted := e } : Pool).unmark txs = { (s.unmark txs) with evicted := e } := by
  unfold Pool.unmark
  induction txs with
  | nil => intro s e; rfl
  | cons t ts ih =>
    intro s e
    simp only [List.foldl_cons]
    have : ((({ s with evicted := e } : Pool).delExec t.hash).add t).1 = { ((s.delExec t.hash).add t).1 with evicted := e } :=
      add_evicted_comm (s.delExec t.hash) t e
    rw [this]
    exact ih _ e

theorem unmarkE_spec (s : Pool) (txs : List Tx) (ev : List Nat) :
    s.unmarkE txs ev = { (s.unmark txs) with evicted := if txs = [] then s.evicted else ev.foldl lruRemove s.evicted } := by
  unfold Pool.unmarkE
  split
  · rename_i h; subst h; simp [Pool.unmark]
  · rename_i h
    simp only [h, if_false]
    exact unmark_evicted_comm txs s _

theorem hashes_unmarkE (s : Pool) (txs : List Tx) (ev : List Nat) : (s.unmarkE txs ev).hashes = (s.unmark txs).hashes := by
  rw [unmarkE_spec]; rfl

theorem execHashes_unmarkE (s : Pool) (txs : List Tx) (ev : List Nat) : (s.unmarkE txs ev).execHashes = (s.unmark txs).execHashes := by
  rw [unmarkE_spec]; rfl

theorem inv_unmarkE {s : Pool} (txs : List Tx) (ev : List Nat) (hi : Inv s) : Inv (s.unmarkE txs ev) := by
  have h := inv_unmark txs hi
  rw [unmarkE_spec]
  exact ⟨h.nodup, h.disjoint, h.batch, h.attached⟩

/-! ### expiry -/

theorem hashes_expire_sublist (s : Pool) : s.expire.hashes.Sublist s.hashes := by
  unfold Pool.expire Pool.hashes
  simp only
  have h1 : (List.filter (fun e => decide (e.ring < expiredRing))
      (s.pending.map (fun e => ({ e with ring := e.ring + 1 } : Entry)))).Sublist
      (s.pending.map (fun e => ({ e with ring := e.ring + 1 } : Entry))) := List.filter_sublist
  have h2 := h1.map (fun e => e.tx.hash)
  simpa [List.map_map, Function.comp_def] using h2

theorem inv_expire {s : Pool} (hi : Inv s) : Inv s.expire :=
  ⟨hi.nodup.sublist (hashes_expire_sublist s),
   fun h hm => hi.disjoint h ((hashes_expire_sublist s).subset hm),
   hi.batch, hi.attached⟩

end Rangers.Pool
