import Rangers.Model.Pool
/-! Lemmas about `Transactions.Less` and the insertion sort of the pool model. Core Lean only. -/
namespace Rangers.Pool

theorem lessRes_panic_hash {c : Cfg} {a b : Tx} (h : lessRes c a b = .panic) : a.hash = b.hash := by
  unfold lessRes at h
  simp only [Cmp.ofBool] at h
  repeat' split at h
  all_goals first | contradiction | assumption | (simp at h)

theorem less_eq_true_iff {c : Cfg} {a b : Tx} : less c a b = true ↔ lessRes c a b = .lt := by
  unfold less; cases lessRes c a b <;> decide

/-! ### permutation -/

theorem insRev_perm {c : Cfg} {x : Tx} : ∀ {l r : List Tx}, insRev c x l = some r → r.Perm (x :: l)
  | [], r, h => by simp [insRev] at h; subst h; exact List.Perm.refl _
  | y :: ys, r, h => by
    unfold insRev at h
    split at h
    · cases hr : insRev c x ys with
      | none => simp [hr] at h
      | some r' =>
        simp [hr] at h; subst h
        exact ((insRev_perm hr).cons y).trans (List.Perm.swap x y ys)
    · simp at h; subst h; exact List.Perm.refl _
    · contradiction

theorem sortRev_perm {c : Cfg} : ∀ {l acc r : List Tx}, sortRev c l acc = some r → r.Perm (l ++ acc)
  | [], acc, r, h => by simp [sortRev] at h; subst h; exact List.Perm.refl _
  | x :: xs, acc, r, h => by
    unfold sortRev at h
    split at h
    · rename_i acc' ha
      have h1 := sortRev_perm h
      have h2 := insRev_perm ha
      refine h1.trans ?_
      refine (List.Perm.append_left xs h2).trans ?_
      simp
    · contradiction

theorem goSort_perm {c : Cfg} {l r : List Tx} (h : goSort c l = some r) : r.Perm l := by
  unfold goSort at h
  cases hs : sortRev c l [] with
  | none => simp [hs] at h
  | some r' =>
    simp [hs] at h; subst h
    have := sortRev_perm hs
    simp at this
    exact (List.reverse_perm r').trans this

/-! ### no panic on hash-distinct input -/

theorem insRev_isSome {c : Cfg} {x : Tx} : ∀ {l : List Tx}, (∀ y ∈ l, y.hash ≠ x.hash) → ∃ r, insRev c x l = some r
  | [], _ => ⟨[x], rfl⟩
  | y :: ys, h => by
    have hy : y.hash ≠ x.hash := h y (by simp)
    obtain ⟨r', hr'⟩ := insRev_isSome (c := c) (x := x) (l := ys) (fun z hz => h z (by simp [hz]))
    unfold insRev
    cases hl : lessRes c x y with
    | lt => exact ⟨y :: r', by simp [hr']⟩
    | ge => exact ⟨x :: y :: ys, rfl⟩
    | panic => exact absurd (lessRes_panic_hash hl).symm hy

theorem sortRev_isSome {c : Cfg} : ∀ {l acc : List Tx}, ((l ++ acc).map (·.hash)).Nodup → ∃ r, sortRev c l acc = some r
  | [], acc, _ => ⟨acc, rfl⟩
  | x :: xs, acc, h => by
    have hx : ∀ y ∈ acc, y.hash ≠ x.hash := by
      intro y hy e
      simp only [List.cons_append, List.map_cons, List.nodup_cons, List.map_append, List.mem_append, List.mem_map] at h
      exact h.1 (Or.inr ⟨y, hy, e⟩)
    obtain ⟨acc', ha⟩ := insRev_isSome (c := c) hx
    have hp := insRev_perm ha
    have : ((xs ++ acc').map (·.hash)).Nodup := by
      have hperm : (xs ++ acc').Perm (x :: xs ++ acc) := by
        refine (List.Perm.append_left xs hp).trans ?_
        simp
      exact (hperm.map _).nodup_iff.mpr h
    obtain ⟨r, hr⟩ := sortRev_isSome (c := c) this
    exact ⟨r, by unfold sortRev; simp [ha, hr]⟩

theorem goSort_isSome {c : Cfg} {l : List Tx} (h : (l.map (·.hash)).Nodup) : ∃ r, goSort c l = some r := by
  obtain ⟨r, hr⟩ := sortRev_isSome (c := c) (l := l) (acc := []) (by simpa using h)
  exact ⟨r.reverse, by simp [goSort, hr]⟩

/-! ### sortedness, for an order that is asymmetric and negatively transitive on the elements -/

/-- `l` is sorted for `Less`: no later element is less than an earlier one. -/
def SortedBy (c : Cfg) (l : List Tx) : Prop := l.Pairwise (fun a b => less c b a = false)

/-- What a comparison sort needs of `Less` on a set of elements (a strict weak order). -/
structure WeakOrderOn (c : Cfg) (S : Tx → Prop) : Prop where
  asymm : ∀ a b, S a → S b → less c a b = true → less c b a = false
  negtrans : ∀ a b d, S a → S b → S d → less c a b = false → less c b d = false → less c a d = false

theorem insRev_sorted {c : Cfg} {S : Tx → Prop} (W : WeakOrderOn c S) {x : Tx} (hx : S x) :
    ∀ {l r : List Tx}, (∀ y ∈ l, S y) → l.Pairwise (fun p q => less c p q = false) → insRev c x l = some r →
      r.Pairwise (fun p q => less c p q = false)
  | [], r, _, _, h => by simp [insRev] at h; subst h; simp
  | y :: ys, r, hS, hp, h => by
    have hy : S y := hS y (by simp)
    have hSys : ∀ z ∈ ys, S z := fun z hz => hS z (by simp [hz])
    rw [List.pairwise_cons] at hp
    unfold insRev at h
    split at h
    · rename_i hlt
      cases hr : insRev c x ys with
      | none => simp [hr] at h
      | some r' =>
        simp [hr] at h; subst h
        have ih := insRev_sorted W hx hSys hp.2 hr
        have hperm := insRev_perm hr
        rw [List.pairwise_cons]
        refine ⟨?_, ih⟩
        intro q hq
        have : q ∈ x :: ys := hperm.mem_iff.mp hq
        rcases List.mem_cons.mp this with rfl | hq'
        · exact W.asymm _ _ hx hy (less_eq_true_iff.mpr hlt)
        · exact hp.1 q hq'
    · rename_i hge
      simp at h; subst h
      have hxy : less c x y = false := by simp [less, hge]
      rw [List.pairwise_cons]
      refine ⟨?_, List.pairwise_cons.mpr hp⟩
      intro q hq
      rcases List.mem_cons.mp hq with rfl | hq'
      · exact hxy
      · exact W.negtrans _ _ _ hx hy (hSys q hq') hxy (hp.1 q hq')
    · contradiction

theorem sortRev_sorted {c : Cfg} {S : Tx → Prop} (W : WeakOrderOn c S) :
    ∀ {l acc r : List Tx}, (∀ y ∈ l, S y) → (∀ y ∈ acc, S y) → acc.Pairwise (fun p q => less c p q = false) →
      sortRev c l acc = some r → r.Pairwise (fun p q => less c p q = false)
  | [], acc, r, _, _, hp, h => by simp [sortRev] at h; subst h; exact hp
  | x :: xs, acc, r, hl, ha, hp, h => by
    unfold sortRev at h
    split at h
    · rename_i acc' hins
      have hx : S x := hl x (by simp)
      have hs := insRev_sorted W hx ha hp hins
      have hperm := insRev_perm hins
      have ha' : ∀ y ∈ acc', S y := by
        intro y hy
        rcases List.mem_cons.mp (hperm.mem_iff.mp hy) with rfl | h'
        · exact hx
        · exact ha y h'
      exact sortRev_sorted W (fun y hy => hl y (by simp [hy])) ha' hs h
    · contradiction

theorem goSort_sorted {c : Cfg} {l r : List Tx} (W : WeakOrderOn c (· ∈ l)) (h : goSort c l = some r) : SortedBy c r := by
  unfold goSort at h
  cases hs : sortRev c l [] with
  | none => simp [hs] at h
  | some r' =>
    simp [hs] at h; subst h
    have := sortRev_sorted W (l := l) (acc := []) (fun y hy => hy) (by simp) (by simp) hs
    unfold SortedBy
    rw [List.pairwise_reverse]
    exact this

end Rangers.Pool
