import Rangers.Proofs.JournalMaps
/-! The simulation relation `Sim` of the C04 proofs: two states that answer every query of the
property alike.  It ignores what `RevertToSnapshot` does not restore (cache residency,
`cachedStorage`/`dirtyStorage` split, `onDirty`, `touched`, the dirty set, the journal itself). -/
namespace Rangers.Proofs.Journal
open Rangers Rangers.Model.Journal

/-- code of an object as `nftSetDefinition` answers it, given the blob store -/
def codeOf (cs : List (Hash × Bytes)) (o : Obj) : Option Bytes :=
  match o.code with
  | some c => some c
  | none => if o.codeHash = emptyCodeHash then none else mget cs o.codeHash

theorem codeLookup_eq (s : ADB) (o : Obj) : codeLookup s o = codeOf s.codes o := rfl

def ObjSim (cs : List (Hash × Bytes)) (o o' : Obj) : Prop :=
  o.nonce = o'.nonce ∧ o.codeHash = o'.codeHash ∧ o.suicided = o'.suicided ∧
  (∀ k, o.get k = o'.get k) ∧ codeOf cs o = codeOf cs o'

theorem ObjSim.refl (cs) (o : Obj) : ObjSim cs o o := ⟨rfl, rfl, rfl, fun _ => rfl, rfl⟩
theorem ObjSim.symm {cs} {o o' : Obj} (h : ObjSim cs o o') : ObjSim cs o' o :=
  ⟨h.1.symm, h.2.1.symm, h.2.2.1.symm, fun k => (h.2.2.2.1 k).symm, h.2.2.2.2.symm⟩
theorem ObjSim.trans {cs} {o o' o'' : Obj} (h : ObjSim cs o o') (h' : ObjSim cs o' o'') : ObjSim cs o o'' :=
  ⟨h.1.trans h'.1, h.2.1.trans h'.2.1, h.2.2.1.trans h'.2.2.1, fun k => (h.2.2.2.1 k).trans (h'.2.2.2.1 k),
   h.2.2.2.2.trans h'.2.2.2.2⟩

inductive ResRel (cs : List (Hash × Bytes)) : Res → Res → Prop
  | absent : ResRel cs .absent .absent
  | deleted : ResRel cs .deleted .deleted
  | live {o o' : Obj} : ObjSim cs o o' → ResRel cs (.live o) (.live o')

theorem ResRel.refl (cs) (r : Res) : ResRel cs r r := by
  cases r with
  | absent => exact .absent
  | deleted => exact .deleted
  | live o => exact .live (ObjSim.refl cs o)
theorem ResRel.symm {cs} {r r' : Res} (h : ResRel cs r r') : ResRel cs r' r := by
  cases h with
  | absent => exact .absent
  | deleted => exact .deleted
  | live h => exact .live h.symm
theorem ResRel.trans {cs} {r r' r'' : Res} (h : ResRel cs r r') (h' : ResRel cs r' r'') : ResRel cs r r'' := by
  cases h with
  | absent => exact h'
  | deleted => exact h'
  | live h => cases h' with | live h' => exact .live (h.trans h')

theorem ResRel.of_deleted {cs} {r : Res} (h : ResRel cs .deleted r) : r = .deleted := by cases h; rfl
theorem ResRel.of_absent {cs} {r : Res} (h : ResRel cs .absent r) : r = .absent := by cases h; rfl
theorem ResRel.of_live {cs} {o : Obj} {r : Res} (h : ResRel cs (.live o) r) : ∃ o', r = .live o' ∧ ObjSim cs o o' := by
  cases h with | live h => exact ⟨_, rfl, h⟩

/-- equality of everything a query can see outside the account objects -/
structure Frame (s t : ADB) : Prop where
  trie : s.trie = t.trie
  codes : s.codes = t.codes
  refund : s.refund = t.refund
  logs : s.logs = t.logs
  logSize : s.logSize = t.logSize
  al : s.al = t.al
  transient : ∀ a k, tget s.transient a k = tget t.transient a k
  thash : s.thash = t.thash
  bhash : s.bhash = t.bhash
  txIndex : s.txIndex = t.txIndex

theorem Frame.refl (s : ADB) : Frame s s := ⟨rfl, rfl, rfl, rfl, rfl, rfl, fun _ _ => rfl, rfl, rfl, rfl⟩
theorem Frame.symm {s t : ADB} (h : Frame s t) : Frame t s :=
  ⟨h.trie.symm, h.codes.symm, h.refund.symm, h.logs.symm, h.logSize.symm, h.al.symm,
   fun a k => (h.transient a k).symm, h.thash.symm, h.bhash.symm, h.txIndex.symm⟩
theorem Frame.trans {s t u : ADB} (h : Frame s t) (h' : Frame t u) : Frame s u :=
  ⟨h.trie.trans h'.trie, h.codes.trans h'.codes, h.refund.trans h'.refund, h.logs.trans h'.logs,
   h.logSize.trans h'.logSize, h.al.trans h'.al, fun a k => (h.transient a k).trans (h'.transient a k),
   h.thash.trans h'.thash, h.bhash.trans h'.bhash, h.txIndex.trans h'.txIndex⟩

/-- `s` and `t` answer every query of the property alike -/
structure Sim (s t : ADB) : Prop where
  crashed : s.crashed = t.crashed
  frame : s.crashed = false → Frame s t
  objs : s.crashed = false → ∀ a, ResRel s.codes (res s a) (res t a)

theorem Sim.refl (s : ADB) : Sim s s := ⟨rfl, fun _ => Frame.refl s, fun _ a => ResRel.refl _ _⟩
theorem Sim.symm {s t : ADB} (h : Sim s t) : Sim t s :=
  ⟨h.crashed.symm, fun hc => (h.frame (h.crashed ▸ hc)).symm,
   fun hc a => by
     have hs : s.crashed = false := h.crashed ▸ hc
     have := (h.objs hs a).symm
     rwa [(h.frame hs).codes] at this⟩
theorem Sim.trans {s t u : ADB} (h : Sim s t) (h' : Sim t u) : Sim s u :=
  ⟨h.crashed.trans h'.crashed,
   fun hc => (h.frame hc).trans (h'.frame (h.crashed ▸ hc)),
   fun hc a => by
     have ht : t.crashed = false := h.crashed ▸ hc
     have h2 := h'.objs ht a
     rw [← (h.frame hc).codes] at h2
     exact (h.objs hc a).trans h2⟩

/-- both crashed: nothing left to compare -/
theorem Sim.of_crashed {s t : ADB} (hs : s.crashed = true) (ht : t.crashed = true) : Sim s t :=
  ⟨hs.trans ht.symm, fun h => by simp [hs] at h, fun h => by simp [hs] at h⟩

/-! ### how `res` reacts to the object cache -/

theorem res_def (s : ADB) (a : Addr) :
    res s a = (match mget s.objs a with
      | some o => if o.deleted then Res.deleted else Res.live o
      | none => match mget s.trie a with
        | some l => Res.live (Obj.ofLeaf l)
        | none => Res.absent) := rfl

/-- states with the same object cache and trie resolve addresses alike -/
theorem res_congr {s t : ADB} (ho : s.objs = t.objs) (ht : s.trie = t.trie) (a : Addr) : res s a = res t a := by
  simp [res_def, ho, ht]

theorem res_set (s : ADB) (objs : List (Addr × Obj)) (a b : Addr) (o : Obj) (hd : o.deleted = false)
    (h : objs = mset s.objs a o) (t : ADB) (ht : t.objs = objs) (htr : t.trie = s.trie) :
    res t b = if a = b then Res.live o else res s b := by
  subst h
  simp only [res_def, ht, htr, mget_mset]
  by_cases hab : a = b
  · simp [hab, hd]
  · simp [hab]

theorem res_of_mset {s r : ADB} {a : Addr} {o : Obj} (ho : r.objs = mset s.objs a o) (ht : r.trie = s.trie)
    (hd : o.deleted = false) (b : Addr) : res r b = if a = b then Res.live o else res s b :=
  res_set s _ a b o hd rfl r ho ht

theorem Obj.ofLeaf_deleted (l : Leaf) : (Obj.ofLeaf l).deleted = false := rfl

/-- `getAccountObject(a,false)` when `a` resolves to a live object -/
theorem resolve_live {s : ADB} {a : Addr} {o : Obj} (h : res s a = .live o) :
    ∃ s1, resolve s a = (s1, some o) ∧ mget s1.objs a = some o ∧ o.deleted = false ∧
      s1 = { s with objs := s1.objs } ∧ (∀ b, res s1 b = res s b) := by
  rw [res_def] at h
  unfold resolve
  cases hm : mget s.objs a with
  | some o1 =>
    simp only [hm] at h ⊢
    by_cases hd : o1.deleted = true
    · simp [hd] at h
    · simp only [hd] at h ⊢
      simp only [Bool.false_eq_true, if_false, Res.live.injEq] at h
      subst h
      exact ⟨s, by simp, hm, by simpa using hd, rfl, fun _ => rfl⟩
  | none =>
    simp only [hm] at h ⊢
    cases ht : mget s.trie a with
    | none => simp [ht] at h
    | some l =>
      simp only [ht, Res.live.injEq] at h ⊢
      subst h
      refine ⟨putObj s a (Obj.ofLeaf l), rfl, by simp [putObj], rfl, rfl, fun b => ?_⟩
      rw [res_set s _ a b (Obj.ofLeaf l) rfl rfl (putObj s a (Obj.ofLeaf l)) rfl rfl]
      by_cases hab : a = b
      · subst hab; simp [res_def, hm, ht]
      · simp [hab]

theorem resolve_absent {s : ADB} {a : Addr} (h : res s a = .absent) :
    resolve s a = (s, none) ∧ mget s.objs a = none ∧ mget s.trie a = none := by
  rw [res_def] at h
  unfold resolve
  cases hm : mget s.objs a with
  | some o1 => simp only [hm] at h; split at h <;> cases h
  | none =>
    simp only [hm] at h ⊢
    cases ht : mget s.trie a with
    | none => simp
    | some l => simp [ht] at h

theorem resolve_deleted {s : ADB} {a : Addr} (h : res s a = .deleted) : resolve s a = (s, none) := by
  rw [res_def] at h
  unfold resolve
  cases hm : mget s.objs a with
  | some o1 =>
    simp only [hm] at h ⊢
    by_cases hd : o1.deleted = true
    · simp [hd]
    · simp [hd] at h
  | none =>
    simp only [hm] at h
    split at h <;> cases h

/-- `markDirty` always stores the disarmed object -/
theorem markDirty_objs (s : ADB) (a : Addr) (o : Obj) :
    (markDirty s a o).objs = mset s.objs a { o with armed := false } := by
  unfold markDirty
  by_cases h : o.armed = true
  · simp [h]
  · have : o.armed = false := by simpa using h
    simp only [this, Bool.false_eq_true, if_false]
    congr 1
    cases o; simp_all

theorem markDirty_frame (s : ADB) (a : Addr) (o : Obj) :
    markDirty s a o = { s with objs := (markDirty s a o).objs, dirtySet := (markDirty s a o).dirtySet } := by
  unfold markDirty; split <;> rfl

theorem res_markDirty (s : ADB) (a b : Addr) (o : Obj) (hd : o.deleted = false) :
    res (markDirty s a o) b = if a = b then Res.live { o with armed := false } else res s b := by
  have htr : (markDirty s a o).trie = s.trie := by rw [markDirty_frame]
  exact res_set s _ a b { o with armed := false } hd rfl (markDirty s a o) (markDirty_objs s a o) htr

end Rangers.Proofs.Journal
