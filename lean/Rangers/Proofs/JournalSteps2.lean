import Rangers.Proofs.JournalSteps
/-! `RevAt` for the remaining object ops: touch / FT ops, SetCode. -/
namespace Rangers.Proofs.Journal
open Rangers Rangers.Model.Journal

/-- `u` is `s` with the object at a live address replaced by a similar one -/
theorem sim_of_res_upd {s u : ADB} {a : Addr} {o x : Obj} (hc : u.crashed = s.crashed) (hf : Frame u s)
    (hs : res s a = .live o) (hu : ∀ b, res u b = if a = b then Res.live x else res s b)
    (hx : ObjSim s.codes x o) : Sim u s := by
  refine ⟨hc, fun _ => hf, fun _ b => ?_⟩
  rw [hu b, hf.codes]
  by_cases hab : a = b
  · subst hab; simp only [if_true, hs]; exact .live hx
  · simp only [hab, if_false]; exact ResRel.refl _ _

theorem frame_dirtySet (u : ADB) (ds : List Addr) : Frame { u with dirtySet := ds } u :=
  ⟨rfl, rfl, rfl, rfl, rfl, rfl, fun _ _ => rfl, rfl, rfl, rfl⟩

section
variable (c : Cfg)

theorem revAt_touch {s : ADB} {a : Addr} {o : Obj} (hs : s.crashed = false) (hm : mget s.objs a = some o)
    (hd : o.deleted = false) : RevAt c (fun x => touch x a) s := by
  have hres : res s a = .live o := by rw [res_def, hm]; simp [hd]
  have hf : touch s a = markDirty { s with journal := s.journal ++ [Entry.touch a o.touched (!o.armed)] } a { o with touched := true } := by
    simp [touch, hm]
  refine ⟨fun h => (by rw [hs] at h; cases h), (by rw [hf, markDirty_frame]), (by rw [hf, markDirty_frame]),
    ⟨[Entry.touch a o.touched (!o.armed)], by rw [hf, markDirty_journal], fun _ => ?_⟩⟩
  rw [undoAll_singleton, hf]
  generalize hr : markDirty { s with journal := s.journal ++ [Entry.touch a o.touched (!o.armed)] } a { o with touched := true } = r
  have hrc : r.crashed = false := by rw [← hr, markDirty_crashed]; exact hs
  have hrf : Frame r s := by rw [← hr]; exact (markDirty_Frame _ _ _).trans (frame_rfl_journal s _)
  have hrr : ∀ b, res r b = if a = b then Res.live { ({ o with touched := true } : Obj) with armed := false } else res s b := by
    intro b
    rw [← hr, res_markDirty _ _ _ _ (by exact hd)]
    by_cases hab : a = b
    · simp [hab]
    · simp only [hab, if_false]; exact res_congr rfl rfl b
  simp only [undo, hrc, Bool.false_eq_true, if_false]
  split
  · have hra : res r a = .live { ({ o with touched := true } : Obj) with armed := false } := by rw [hrr a]; simp
    obtain ⟨r1, e1, m1, hd1, hf1, rr1⟩ := resolve_live hra
    rw [e1]
    simp only
    have hfr1 : Frame r1 r := by rw [hf1]; exact ⟨rfl, rfl, rfl, rfl, rfl, rfl, fun _ _ => rfl, rfl, rfl, rfl⟩
    have hcr1 : r1.crashed = r.crashed := by rw [hf1]
    split
    · refine sim_of_res_upd (a := a) (o := o) (x := { ({ ({ o with touched := true } : Obj) with armed := false } : Obj) with touched := o.touched })
        (hcr1.trans (hrc.trans hs.symm))
        ((frame_dirtySet _ _).trans ((putObj_Frame _ _ _).trans (hfr1.trans hrf))) hres (fun b => ?_)
        ⟨rfl, rfl, rfl, fun _ => rfl, rfl⟩
      refine (res_congr (t := putObj r1 a _) rfl rfl b).trans ?_
      rw [res_putObj r1 a b _ (by exact hd)]
      by_cases hab : a = b
      · simp [hab]
      · simp [hab, rr1 b, hrr b]
    · refine sim_of_res_upd (a := a) (o := o) (x := { ({ ({ o with touched := true } : Obj) with armed := false } : Obj) with touched := o.touched })
        (hcr1.trans (hrc.trans hs.symm)) ((putObj_Frame _ _ _).trans (hfr1.trans hrf)) hres (fun b => ?_)
        ⟨rfl, rfl, rfl, fun _ => rfl, rfl⟩
      rw [res_putObj r1 a b _ (by exact hd)]
      by_cases hab : a = b
      · simp [hab]
      · simp [hab, rr1 b, hrr b]
  · exact sim_of_res_upd (a := a) (o := o) (hrc.trans hs.symm) hrf hres hrr ⟨rfl, rfl, rfl, fun _ => rfl, rfl⟩


/-- `readAt` then a journaled write of a value computed from what was read -/
theorem revAt_read_then_set {s : ADB} {a : Addr} {o : Obj} (k : Key) (val : Val → Val)
    (hs : s.crashed = false) (hm : mget s.objs a = some o) (hd : o.deleted = false) :
    RevAt c (fun x => setDataJ (readAt x a k).1 a k (val (readAt s a k).2)) s := by
  obtain ⟨h1, _, _⟩ := readAt_sim k hm hd
  have hrd := revAt_readAt c k hm hd
  have hc1 : (readAt s a k).1.crashed = false := by rw [h1]; exact hs
  have hm1 : mget (readAt s a k).1.objs a = some (o.read k).1 := by rw [h1]; simp [putObj]
  have hd' : (o.read k).1.deleted = false := by rw [Obj.read_fst_other]; exact hd
  exact RevAt.comp hrd (revAt_setDataJ c k _ hc1 hm1 hd')

theorem readAt_crashed {s : ADB} {a : Addr} {o : Obj} (k : Key) (hm : mget s.objs a = some o) :
    (readAt s a k).1.crashed = s.crashed := by simp [readAt, hm, putObj]

theorem revAt_addFT (s : ADB) (a : Addr) (k : Key) (n : Nat) : RevAt c (fun x => addFT x a k n) s :=
  revAt_viaResolveNew c s a _
    (fun s1 o => if n = 0 then (if o.isEmpty then touch s1 a else s1)
      else (if (readAt s1 a k).1.crashed then (readAt s1 a k).1
            else setDataJ (readAt s1 a k).1 a k (natToBE (beToNat (readAt s1 a k).2 + n)))) true
    (fun h => by simp [addFT, h])
    (fun h => by simp only [addFT, h, Bool.false_eq_true, if_false]; rcases resolveNew s a with ⟨s1, _ | _⟩ <;> rfl)
    (fun s1 o h1 hm hd => by
      by_cases hn : n = 0
      · by_cases he : o.isEmpty = true
        · exact RevAt.congr_at (f' := fun x => touch x a) (by simp [hn, he]) (revAt_touch c h1 hm hd)
        · exact RevAt.congr_at (f' := fun x => x) (by simp [hn, he]) (RevAt.id c s1)
      · have hc : (readAt s1 a k).1.crashed = false := (readAt_crashed k hm).trans h1
        exact RevAt.congr_at (f' := fun x => setDataJ (readAt x a k).1 a k (natToBE (beToNat (readAt s1 a k).2 + n)))
          (by simp [hn, hc]) (revAt_read_then_set c k (fun v => natToBE (beToNat v + n)) h1 hm hd))

theorem revAt_subFT (s : ADB) (a : Addr) (k : Key) (n : Nat) : RevAt c (fun x => (subFT x a k n).1) s :=
  revAt_viaResolveNew c s a _
    (fun s1 _ => if (readAt s1 a k).1.crashed then (readAt s1 a k).1
      else if n = 0 then (readAt s1 a k).1
      else if (readAt s1 a k).2 = [] ∨ beToNat (readAt s1 a k).2 < n then (readAt s1 a k).1
      else setDataJ (readAt s1 a k).1 a k (natToBE (beToNat (readAt s1 a k).2 - n))) true
    (fun h => by simp [subFT, h])
    (fun h => by
      simp only [subFT, h, Bool.false_eq_true, if_false]
      rcases resolveNew s a with ⟨s1, _ | _⟩
      · rfl
      · simp only; split <;> (try split) <;> (try split) <;> rfl)
    (fun s1 o h1 hm hd => by
      have hc : (readAt s1 a k).1.crashed = false := (readAt_crashed k hm).trans h1
      by_cases hn : n = 0
      · exact RevAt.congr_at (f' := fun x => (readAt x a k).1) (by simp [hn, hc]) (revAt_readAt c k hm hd)
      by_cases hlt : (readAt s1 a k).2 = [] ∨ beToNat (readAt s1 a k).2 < n
      · exact RevAt.congr_at (f' := fun x => (readAt x a k).1) (by simp [hn, hc, hlt]) (revAt_readAt c k hm hd)
      · exact RevAt.congr_at (f' := fun x => setDataJ (readAt x a k).1 a k (natToBE (beToNat (readAt s1 a k).2 - n)))
          (by simp [hn, hc, hlt]) (revAt_read_then_set c k (fun v => natToBE (beToNat v - n)) h1 hm hd))

theorem revAt_setFT (s : ADB) (a : Addr) (k : Key) (n : Nat) : RevAt c (fun x => setFT x a k n) s :=
  revAt_viaResolveNew c s a _ (fun s1 _ => setDataJ s1 a k (natToBE n)) true
    (fun h => by simp [setFT, h])
    (fun h => by simp only [setFT, h, Bool.false_eq_true, if_false]; rcases resolveNew s a with ⟨s1, _ | _⟩ <;> rfl)
    (fun s1 o h1 hm hd => revAt_setDataJ c _ _ h1 hm hd)

theorem revAt_getFT (s : ADB) (a : Addr) (k : Key) : RevAt c (fun x => (getFT x a k).1) s :=
  revAt_viaResolveNew c s a _ (fun s1 _ => (readAt s1 a k).1) true
    (fun h => by simp [getFT, h])
    (fun h => by simp only [getFT, h, Bool.false_eq_true, if_false]; rcases resolveNew s a with ⟨s1, _ | _⟩ <;> rfl)
    (fun s1 o _ hm hd => revAt_readAt c k hm hd)


theorem codeOf_cache (cs : List (Hash × Bytes)) (o : Obj) : codeOf cs { o with code := codeOf cs o } = codeOf cs o := by
  unfold codeOf
  cases h : o.code with
  | some cd => simp [h]
  | none => simp only [h]; split <;> simp_all

/-- `nftSetDefinition(db)`: fills the code cache only -/
theorem revAt_loadCode {s : ADB} {a : Addr} {o : Obj} (hm : mget s.objs a = some o) (hd : o.deleted = false) :
    (loadCode s a).1 = putObj s a { o with code := codeOf s.codes o } ∧ (loadCode s a).2 = codeOf s.codes o ∧
    RevAt c (fun x => (loadCode x a).1) s := by
  have h1 : (loadCode s a).1 = putObj s a { o with code := codeOf s.codes o } := by simp [loadCode, hm, codeLookup_eq]
  have hres : res s a = .live o := by rw [res_def, hm]; simp [hd]
  refine ⟨h1, by simp [loadCode, hm, codeLookup_eq], ?_⟩
  refine RevAt.of_sim (fun h => by rw [h1]; exact h) (by rw [h1]; rfl) (by rw [h1]; rfl) (by rw [h1]; rfl) (fun _ => ?_)
  rw [h1]
  exact sim_of_res_upd (a := a) (o := o) rfl (putObj_Frame _ _ _) hres (fun b => res_putObj s a b _ (by exact hd))
    ⟨rfl, rfl, rfl, fun _ => rfl, codeOf_cache _ _⟩

/-- `SetCode`; the recorded previous hash goes through `BytesToHash`, so it must be a 32-byte hash -/
theorem revAt_setCode (s : ADB) (a : Addr) (code : Bytes) (h : Hash)
    (hlen : ∀ s1 o, resolveNew s a = (s1, some o) → o.codeHash.length = 32) :
    RevAt c (fun x => setCode x a code h) s := by
  by_cases hs : s.crashed = true
  · exact RevAt.of_crashed_fix hs (by simp [setCode, hs])
  have hs : s.crashed = false := by simpa using hs
  have h1 := revAt_resolveNew c s a
  cases hrn : resolveNew s a with
  | mk s1 r =>
    have e1 : (resolveNew s a).1 = s1 := by rw [hrn]
    cases r with
    | none => exact RevAt.congr_at (f' := fun x => (resolveNew x a).1) (by simp [setCode, hs, hrn]) h1
    | some o =>
      obtain ⟨hm, hd, _⟩ := resolveNew_some hrn
      have hl := hlen s1 o hrn
      have hs1 : s1.crashed = false := by rw [← e1, resolveNew_crashed]; exact hs
      obtain ⟨l1, l2, l3⟩ := revAt_loadCode c hm hd
      have hm2 : mget (loadCode s1 a).1.objs a = some { o with code := codeOf s1.codes o } := by rw [l1]; simp [putObj]
      have hc2 : (loadCode s1 a).1.crashed = false := by rw [l1]; exact hs1
      have step3 := revAt_modify c (s := (loadCode s1 a).1) (a := a) (o := { o with code := codeOf s1.codes o })
        (Entry.code a (codeOf s1.codes o) o.codeHash)
        (fun x => { x with code := some code, codeHash := h, dirtyCode := true })
        (fun x => { x with code := codeOf s1.codes o, codeHash := toHash o.codeHash, dirtyCode := true })
        (fun x => setCodeRaw { x with journal := x.journal ++ [Entry.code a (codeOf s1.codes o) o.codeHash] } a h (some code))
        hc2 hm2 (by exact hd) (by simp [setCodeRaw, hm2]) (fun _ => rfl) (fun _ => rfl)
        (fun u _ => setCodeRaw u a (toHash o.codeHash) (codeOf s1.codes o))
        (fun r hr => by simp only [undo, hr, Bool.false_eq_true, if_false]; rcases resolve r a with ⟨r1, _ | _⟩ <;> rfl)
        (fun u o' hu => by simp [setCodeRaw, hu])
        ⟨rfl, toHash_of_length hl, rfl, fun _ => rfl, by simp only [toHash_of_length hl]; rfl⟩
      have h23 : RevAt c (fun x => setCodeRaw { (loadCode x a).1 with journal := (loadCode x a).1.journal ++ [Entry.code a (codeOf s1.codes o) o.codeHash] } a h (some code)) (resolveNew s a).1 := by
        rw [e1]; exact RevAt.comp l3 step3
      refine RevAt.congr_at ?_ (RevAt.comp h1 h23)
      simp only [setCode, hs, Bool.false_eq_true, if_false, hrn]
      rw [show loadCode s1 a = ((loadCode s1 a).1, (loadCode s1 a).2) from rfl]
      simp only [hm2, l2]

end
end Rangers.Proofs.Journal
