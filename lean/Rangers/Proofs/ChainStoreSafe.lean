import Rangers.Proofs.ChainStoreMain
/-!
Without a write budget nothing dies: `crashed` stays false through every operation.
Also: operations that are rejected leave the disk untouched (`head_change_guarded`).
-/
namespace Rangers.Proofs.ChainStore
open Rangers.Model.ChainStore

theorem Out.of_alive {P : Disk → Mem → Prop} {R : Disk → Prop} {s : St} (h : Out P R s) (ha : s.crashed = false) :
    P s.disk s.mem := by
  rcases h with ⟨_, p⟩ | ⟨d, _⟩
  · exact p
  · rw [ha] at d; cases d

/-- alive and not scheduled to die -/
def Safe (s : St) : Prop := s.crashed = false ∧ s.budget = none

def KeepSafe (f : St → St) : Prop := ∀ s, Safe s → Safe (f s)

theorem safe_write (w : Write) : KeepSafe (fun s => s.write w) := by
  intro s h
  have := write_nobudget s w h.1 h.2
  exact ⟨this.1, this.2.1⟩

theorem safe_setMem (g : St → Mem) : KeepSafe (fun s => s.setMem (g s)) := fun _ h => h

theorem KeepSafe.comp {f g : St → St} (hf : KeepSafe f) (hg : KeepSafe g) : KeepSafe (fun s => g (f s)) :=
  fun s h => hg _ (hf s h)

theorem safe_writes (ws : List Write) : KeepSafe (fun s => s.writes ws) := by
  induction ws with
  | nil => exact fun _ h => h
  | cons w ws ih => exact fun s h => ih _ (safe_write w s h)

theorem safe_removeA (x : Block) : KeepSafe (fun s => removeA s x) :=
  fun s h => safe_writes [.putRemoveMark x, .delBlock x.hash, .delHeight x.height, .delVerify x.height] s h

theorem safe_unmark (x : Block) : KeepSafe (fun s => unmark s x) := by
  intro s h
  unfold unmark
  split
  · exact h
  · exact safe_writes (x.txs.map .delExecuted) s h

theorem safe_removeB (x p : Block) : KeepSafe (fun s => removeB s x p) := by
  intro s h
  exact ((((safe_setMem (fun s => { s.mem with latest := p })).comp (safe_write (.putCurrent p))).comp
    (safe_unmark x)).comp (safe_write .delRemoveMark)) s h

theorem safe_remove (x : Block) : KeepSafe (fun s => (remove s x).1) := by
  intro s h
  have a := safe_removeA x s h
  show Safe (remove s x).1
  unfold remove
  simp only
  split
  · exact a
  · rename_i p _
    exact safe_removeB x p _ a

theorem safe_removeLoop (base : Nat) : ∀ n, KeepSafe (fun s => removeLoop base n s) := by
  intro n
  induction n with
  | zero => exact fun _ h => h
  | succ n ih =>
    intro s h
    show Safe (removeLoop base (n + 1) s)
    unfold removeLoop
    simp only
    split
    · exact ih s h
    · split
      · exact ih s h
      · rename_i blk _
        exact ih _ (safe_remove blk s h)

theorem safe_removeFrom (anc : Block) : KeepSafe (fun s => removeFromCommonAncestor s anc) :=
  fun s h => safe_removeLoop anc.height _ s h

theorem safe_verify (b : Block) : KeepSafe (fun s => (verify s b).1) := by
  intro s h
  show Safe (verify s b).1
  unfold verify
  repeat' split
  all_goals exact h

theorem safe_markTxs (b : Block) : KeepSafe (fun s => markTxs s b) := by
  intro s h
  unfold markTxs
  split
  · exact h
  · exact safe_write _ s h

theorem safe_insertB (b : Block) : KeepSafe (fun s => insertB s b) := by
  intro s h
  exact ((((((safe_writes [.commitState b.hash, .putVerify b.height]).comp (safe_markTxs b)).comp
    (safe_setMem (fun s => poolMem s.mem b))).comp (safe_write (.putCurrent b))).comp
    (safe_setMem (fun s => { s.mem with latest := b }))).comp (safe_write .delAddMark)) s h

theorem safe_insertBlock (cont : St → Block → St) (hc : ∀ f, KeepSafe (fun s => cont s f)) (b : Block) :
    KeepSafe (fun s => (insertBlock cont s b).1) := by
  intro s h
  have a : Safe (insertA s b) := safe_writes _ s h
  show Safe (insertBlock cont s b).1
  unfold insertBlock
  simp only
  split
  · exact a
  · rename_i v _
    have a' : Safe ((insertA s b).setMem { (insertA s b).mem with verified := v }) := a
    have b1 := safe_insertB b _ a'
    split
    · rename_i f _
      exact hc f _ b1
    · exact b1

theorem safe_addCore : ∀ fuel b, KeepSafe (fun s => (addCore fuel s b).1) := by
  intro fuel
  induction fuel with
  | zero => intro b s h; exact h
  | succ fuel ih =>
    intro b s h
    show Safe (addCore (fuel + 1) s b).1
    unfold addCore
    simp only
    split
    · exact h
    · have hv : Safe (verify s b).1 := safe_verify b s h
      split
      · rename_i s1 heq
        have : (verify s b).1 = s1 := by rw [heq]
        rw [← this]; exact hv
      · rename_i s1 heq
        have e : (verify s b).1 = s1 := by rw [heq]
        rw [e] at hv
        split
        · exact safe_insertBlock (fun s f => (addCore fuel s f).1) (fun f => ih f) b s1 hv
        · split
          · exact hv
          · split
            · exact hv
            · rename_i anc _
              have r := safe_removeFrom anc s1 hv
              split
              · exact ih b _ r
              · split
                · exact hv
                · split
                  · exact hv
                  · exact ih b _ r

theorem safe_addBlock (fuel : Nat) (b : Block) : KeepSafe (fun s => (addBlock fuel s b).1) := by
  intro s h
  show Safe (addBlock fuel s b).1
  unfold addBlock
  split
  · exact h
  · split
    · exact h
    · exact safe_addCore fuel b s h

theorem safe_repairAdd : KeepSafe repairAdd := by
  intro s h
  unfold repairAdd
  split
  · rename_i b _
    exact safe_write .delAddMark _ (safe_remove b s h)
  · exact h

theorem safe_repairRemove : KeepSafe repairRemove := by
  intro s h
  unfold repairRemove
  split
  · rename_i b _
    exact safe_write .delRemoveMark _ (safe_remove b s h)
  · exact h

theorem safe_restart : KeepSafe (fun s => (restart s).1) := by
  intro s h
  show Safe (restart s).1
  unfold restart
  split
  · exact h
  · rename_i cur _
    simp only
    have a := safe_repairRemove _ (safe_repairAdd
      (s.setMem { latest := cur, top := fun _ => none, verified := [], future := fun _ => none, pending := [] }) h)
    split
    · exact a
    · exact a

/-- arming an op: same disk and memory, chosen budget, alive -/
theorem arm_disk (s : St) (b : Option Nat) : (s.arm b).disk = s.disk := rfl
theorem arm_mem (s : St) (b : Option Nat) : (s.arm b).mem = s.mem := rfl
theorem arm_alive (s : St) (b : Option Nat) : (s.arm b).crashed = false := rfl
theorem arm_safe (s : St) : Safe (s.arm none) := ⟨rfl, rfl⟩

/-! ### a rejected block leaves the disk untouched -/

/-- the condition under which `addBlockOnChain` touches the store -/
def Guard (s : St) (b : Block) : Prop :=
  b.pre = s.mem.latest.hash ∨
  (∃ anc, s.disk.blocks b.pre = some anc ∧
    (b.totalQN > s.mem.latest.totalQN ∨
     (b.totalQN = s.mem.latest.totalQN ∧ ∃ ln, s.lookupHeight (anc.height + 1) = some ln ∧ pvGreater ln b = false)))

theorem verify_lookup (s : St) (b : Block) (h : Nat) : (verify s b).1.lookupHeight h = s.lookupHeight h := by
  unfold verify
  repeat' split
  all_goals rfl

theorem verify_disk (s : St) (b : Block) : (verify s b).1.disk = s.disk := by
  unfold verify
  repeat' split
  all_goals rfl

theorem addCore_guarded (fuel : Nat) (s : St) (b : Block) (hg : ¬ Guard s b) :
    (addCore fuel s b).1.disk = s.disk := by
  cases fuel with
  | zero => rfl
  | succ fuel =>
    unfold addCore
    simp only
    split
    · rfl
    · have hd := verify_disk s b
      have hl := verify_lookup s b
      split
      · rename_i s1 heq
        have e : (verify s b).1 = s1 := by rw [heq]
        rw [← e]; exact hd
      · rename_i s1 heq
        have e : (verify s b).1 = s1 := by rw [heq]
        rw [e] at hd hl
        split
        · rename_i hpre
          exact absurd (Or.inl hpre) hg
        · split
          · exact hd
          · rename_i hnl
            split
            · exact hd
            · rename_i anc hanc
              rw [hd] at hanc
              split
              · rename_i hgt
                exact absurd (Or.inr ⟨anc, hanc, Or.inl hgt⟩) hg
              · rename_i hngt
                split
                · exact hd
                · rename_i ln hln
                  rw [hl] at hln
                  split
                  · exact hd
                  · rename_i hpv
                    refine absurd (Or.inr ⟨anc, hanc, Or.inr ⟨by omega, ln, hln, ?_⟩⟩) hg
                    simpa using hpv


/-! ### the sync fork switch -/

theorem frozen_addBlock (fuel : Nat) (b : Block) : Frozen (fun s => (addBlock fuel s b).1) := by
  intro s h
  show (addBlock fuel s b).1.crashed = true ∧ (addBlock fuel s b).1.disk = s.disk
  unfold addBlock
  split
  · exact ⟨h, rfl⟩
  · split
    · exact ⟨h, rfl⟩
    · exact frozen_addCore fuel b s h

theorem frozen_forkAdd (fuel : Nat) : ∀ bs, Frozen (fun s => forkAdd fuel s bs) := by
  intro bs
  induction bs with
  | nil => intro s h; exact ⟨h, rfl⟩
  | cons b bs ih =>
    intro s h
    have a : (addBlock fuel s b).1.crashed = true ∧ (addBlock fuel s b).1.disk = s.disk := frozen_addBlock fuel b s h
    show (forkAdd fuel s (b :: bs)).crashed = true ∧ (forkAdd fuel s (b :: bs)).disk = s.disk
    unfold forkAdd
    split
    · rename_i s' heq
      have e : (addBlock fuel s b).1 = s' := by rw [heq]
      rw [e] at a
      have c := ih s' a.1
      exact ⟨c.1, c.2.trans a.2⟩
    · rename_i s' r _ heq
      have e : (addBlock fuel s b).1 = s' := by rw [heq]
      rw [e] at a
      exact a

theorem safe_forkAdd (fuel : Nat) : ∀ bs, KeepSafe (fun s => forkAdd fuel s bs) := by
  intro bs
  induction bs with
  | nil => exact fun _ h => h
  | cons b bs ih =>
    intro s h
    have a : Safe (addBlock fuel s b).1 := safe_addBlock fuel b s h
    show Safe (forkAdd fuel s (b :: bs))
    unfold forkAdd
    split
    · rename_i s' heq
      have e : (addBlock fuel s b).1 = s' := by rw [heq]
      rw [e] at a
      exact ih s' a
    · rename_i s' r _ heq
      have e : (addBlock fuel s b).1 = s' := by rw [heq]
      rw [e] at a
      exact a

theorem forkAdd_post {T : Nat → Option Block} (vt : ValidTree T) (fuel : Nat) :
    ∀ (bs : List Block) (s : St) (c : List Block), s.crashed = false → Inv T s.disk s.mem c →
      (∀ b ∈ bs, T b.hash = some b) → Post T (forkAdd fuel s bs) := by
  intro bs
  induction bs with
  | nil => intro s c ha inv _; exact Out.alive ha ⟨c, inv⟩
  | cons b bs ih =>
    intro s c ha inv hT
    have hp := addBlock_post vt fuel s b c ha inv (hT b (List.mem_cons_self ..))
    unfold forkAdd
    split
    · rename_i s' heq
      have e : (addBlock fuel s b).1 = s' := by rw [heq]
      rw [e] at hp
      refine Out.bind hp (frozen_forkAdd fuel bs) ?_ (fun _ r => r)
      intro ha' p
      obtain ⟨c', inv'⟩ := p
      exact ih s' c' ha' inv' (fun b' hb' => hT b' (List.mem_cons_of_mem _ hb'))
    · rename_i s' r _ heq
      have e : (addBlock fuel s b).1 = s' := by rw [heq]
      rw [e] at hp
      exact hp

theorem forkSwitch_post {T : Nat → Option Block} (vt : ValidTree T) (fuel : Nat) (s : St) (anc : Block)
    (bs : List Block) (c : List Block) (ha : s.crashed = false) (inv : Inv T s.disk s.mem c)
    (hT : ∀ b ∈ bs, T b.hash = some b) : Post T (forkSwitch fuel s anc bs) := by
  unfold forkSwitch
  refine Out.bind (removeFrom_spec anc ha inv) (frozen_forkAdd fuel bs) ?_ (fun _ r => r)
  intro ha' p
  obtain ⟨c', inv'⟩ := p
  exact forkAdd_post vt fuel bs _ c' ha' inv' hT

end Rangers.Proofs.ChainStore
