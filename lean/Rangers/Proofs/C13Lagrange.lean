import Mathlib.LinearAlgebra.Lagrange
import Rangers.Proofs.C13Poly
/-! The `delta`s of `recoverSignature` are the Lagrange basis polynomials evaluated at 0. -/
namespace Rangers.Proofs.C13
open Polynomial Finset Rangers.Model.Shamir Rangers.Model.ModArith

/-- Member ids are pairwise distinct modulo the group order (decidable). -/
def IdsDistinct (r : Nat) (ids : List Nat) : Prop := (ids.map (· % r)).Nodup

instance (r : Nat) (ids : List Nat) : Decidable (IdsDistinct r ids) := by
  unfold IdsDistinct; infer_instance

variable {r : Nat}

/-- The evaluation point of position `i`. -/
def pt (r : Nat) (ids : List Nat) (i : Nat) : ZMod r := ((ids.getD i 0 : Nat) : ZMod r)

theorem pt_injOn [NeZero r] (ids : List Nat) (hd : IdsDistinct r ids) :
    Set.InjOn (pt r ids) (↑(range ids.length) : Set Nat) := by
  intro i hi j hj hij
  simp only [coe_range, Set.mem_Iio] at hi hj
  unfold pt at hij
  rw [ZMod.natCast_eq_natCast_iff'] at hij
  unfold IdsDistinct at hd
  have hi' : i < (ids.map (· % r)).length := by simpa using hi
  have hj' : j < (ids.map (· % r)).length := by simpa using hj
  have := (List.Nodup.getElem_inj_iff hd (hi := hi') (hj := hj')).1 (by
    simp only [List.getElem_map]
    simpa [List.getD, List.getElem?_eq_getElem hi, List.getElem?_eq_getElem hj] using hij)
  exact this

theorem numDenAux_cast [NeZero r] (i xi : Nat) :
    ∀ (rest : List Nat) (j : Nat) (nd : Nat × Nat),
      (((numDenAux r i xi j rest nd).1 : Nat) : ZMod r) =
          (nd.1 : ZMod r) * ∏ t ∈ range rest.length, (if j + t = i then 1 else ((rest.getD t 0 : Nat) : ZMod r)) ∧
      (((numDenAux r i xi j rest nd).2 : Nat) : ZMod r) =
          (nd.2 : ZMod r) * ∏ t ∈ range rest.length,
            (if j + t = i then 1 else (((rest.getD t 0 : Nat) : ZMod r) - (xi : ZMod r))) := by
  intro rest
  induction rest with
  | nil => intro j nd; simp [numDenAux]
  | cons x rest ih =>
    intro j nd
    simp only [numDenAux, List.length_cons]
    obtain ⟨h1, h2⟩ := ih (j + 1) (if j = i then nd else ((nd.1 * x) % r, emod ((nd.2 : Int) * ((x : Int) - (xi : Int))) r))
    rw [h1, h2, prod_range_succ', prod_range_succ']
    have hidx : ∀ t, j + 1 + t = j + (t + 1) := by intro t; omega
    simp only [hidx, List.getD_cons_succ, List.getD_cons_zero, Nat.add_zero]
    by_cases hji : j = i
    · simp [hji]
    · simp only [hji, if_false, ZMod.natCast_mod, emod_cast]
      push_cast
      constructor <;> ring

theorem prod_ite_erase {α : Type} [DecidableEq α] (s : Finset α) (i : α) (f : α → ZMod r) :
    (∏ t ∈ s, if t = i then 1 else f t) = ∏ t ∈ s.erase i, f t := by
  rw [← prod_erase s (a := i) (f := fun t => if t = i then 1 else f t) (by simp)]
  apply prod_congr rfl
  intro t ht
  simp [(mem_erase.1 ht).1]

theorem numDen_cast [NeZero r] (xs : List Nat) (i xi : Nat) :
    (((numDen r xs i xi).1 : Nat) : ZMod r) = ∏ t ∈ (range xs.length).erase i, pt r xs t ∧
    (((numDen r xs i xi).2 : Nat) : ZMod r) = ∏ t ∈ (range xs.length).erase i, (pt r xs t - (xi : ZMod r)) := by
  obtain ⟨h1, h2⟩ := numDenAux_cast (r := r) i xi xs 0 (1, 1)
  unfold numDen
  rw [h1, h2]
  simp only [Nat.cast_one, one_mul, Nat.zero_add]
  exact ⟨prod_ite_erase _ _ _, prod_ite_erase _ _ _⟩

/-- `lagrange_matches` (pointwise): the executable `delta` is `(Lagrange.basis s x i).eval 0`. -/
theorem lagrangeDelta_eq_basis [Fact r.Prime] (xs : List Nat) (hd : IdsDistinct r xs) (i : Nat)
    (hi : i < xs.length) :
    ((lagrangeDelta r xs i (xs.getD i 0) : Nat) : ZMod r) =
      (Lagrange.basis (range xs.length) (pt r xs) i).eval 0 := by
  have : NeZero r := ⟨(Fact.out : r.Prime).ne_zero⟩
  obtain ⟨hn, hden⟩ := numDen_cast (r := r) xs i (xs.getD i 0)
  have hinj := pt_injOn xs hd
  have hne : ∀ t ∈ (range xs.length).erase i, pt r xs t - pt r xs i ≠ 0 := by
    intro t ht
    obtain ⟨hti, htr⟩ := mem_erase.1 ht
    intro h0
    apply hti
    exact hinj (by simpa using htr) (by simpa using hi) (sub_eq_zero.1 h0)
  have hden0 : (((numDen r xs i (xs.getD i 0)).2 : Nat) : ZMod r) ≠ 0 := by
    rw [hden]; exact prod_ne_zero_iff.2 hne
  obtain ⟨w, hw, hwinv, _⟩ := modInverse_some (p := r) _ hden0
  unfold lagrangeDelta invOrKeep
  simp only [hw]
  rw [ZMod.natCast_mod, Nat.cast_mul, hwinv, hn, hden, Lagrange.basis, eval_prod, ← prod_inv_distrib, ← prod_mul_distrib]
  apply prod_congr rfl
  intro t ht
  have hpt : ((xs.getD i 0 : Nat) : ZMod r) = pt r xs i := rfl
  rw [hpt]
  simp only [Lagrange.basisDivisor, eval_mul, eval_C, eval_sub, eval_X]
  have : (pt r xs i - pt r xs t)⁻¹ = -(pt r xs t - pt r xs i)⁻¹ := by
    rw [← neg_sub, inv_neg]
  rw [this]; ring

theorem lagrangeAux_length (xs : List Nat) : ∀ (rest : List Nat) (j : Nat),
    (lagrangeAux r xs j rest).length = rest.length := by
  intro rest; induction rest with
  | nil => intro j; rfl
  | cons x rest ih => intro j; simp [lagrangeAux, ih]

theorem lagrangeAux_getD (xs : List Nat) : ∀ (rest : List Nat) (j t : Nat), t < rest.length →
    (lagrangeAux r xs j rest).getD t 0 = lagrangeDelta r xs (j + t) (rest.getD t 0) := by
  intro rest; induction rest with
  | nil => intro j t ht; simp at ht
  | cons x rest ih =>
    intro j t ht
    cases t with
    | zero => simp [lagrangeAux]
    | succ t =>
      simp only [lagrangeAux, List.getD_cons_succ]
      rw [ih (j + 1) t (by simpa using ht)]
      congr 1; omega

theorem lagrangeCoeffs_length (xs : List Nat) : (lagrangeCoeffs r xs).length = xs.length :=
  lagrangeAux_length xs xs 0

/-- `lagrange_matches`: every executable coefficient is the Lagrange basis value at 0. -/
theorem lagrangeCoeffs_eq_basis [Fact r.Prime] (xs : List Nat) (hd : IdsDistinct r xs) (i : Nat)
    (hi : i < xs.length) :
    (((lagrangeCoeffs r xs).getD i 0 : Nat) : ZMod r) =
      (Lagrange.basis (range xs.length) (pt r xs) i).eval 0 := by
  unfold lagrangeCoeffs
  rw [lagrangeAux_getD xs xs 0 i hi, Nat.zero_add]
  exact lagrangeDelta_eq_basis xs hd i hi

end Rangers.Proofs.C13
