import Rangers.Model.TrieSpec
/-
Basic lemmas about the trie model: an induction principle for the nested
`Node` type, unfolding lemmas that replace the list companions
(`getAt`/`insertAt`/`deleteAt`/`iterL`) by `getD`/`set`, and the equations of
the abstract content.
-/
namespace Rangers.Trie
open Rangers

/-! ### induction principle -/

theorem Node.induct {P : Node → Prop}
    (hnil : P .nil) (hval : ∀ b, P (.value b))
    (hshort : ∀ k v, P v → P (.short k v))
    (hfull : ∀ cs, (∀ c ∈ cs, P c) → P (.full cs)) : ∀ t, P t := by
  intro t
  exact Node.rec (motive_1 := P) (motive_2 := fun cs => ∀ c ∈ cs, P c)
    hnil hval (fun k v ih => hshort k v ih) (fun cs ih => hfull cs ih)
    (by intro c hc; cases hc)
    (fun c cs ihc ihcs => by
      intro x hx
      cases hx with
      | head => exact ihc
      | tail _ h => exact ihcs x h) t

theorem getD_mem_or_nil (cs : List Node) (i : Nat) : cs[i]?.getD .nil = .nil ∨ cs[i]?.getD .nil ∈ cs := by
  by_cases h : i < cs.length
  · right; simp [h]
  · left; simp [Nat.not_lt.mp h]

/-! ### get -/

theorem getAt_eq (cs : List Node) (i : Nat) (rest : Key) :
    getAt cs i rest = get (cs[i]?.getD .nil) rest := by
  induction cs generalizing i with
  | nil => simp [getAt, get]
  | cons c cs ih => cases i <;> simp [getAt, ih]

@[simp] theorem get_nil (k : Key) : get .nil k = none := by simp [get]
@[simp] theorem get_value (b : Bytes) (k : Key) : get (.value b) k = some b := by simp [get]
theorem get_short (kk : Key) (v : Node) (k : Key) :
    get (.short kk v) k = if kk <+: k then get v (k.drop kk.length) else none := by
  simp only [get]
  by_cases h : kk <+: k
  · have := List.prefix_iff_eq_take.mp h
    simp [h, h.length_le, ← this]
  · simp only [h, if_false]
    split
    · rename_i h2
      exact absurd (List.prefix_iff_eq_take.mpr h2.2.symm) h
    · rfl
theorem get_full_cons (cs : List Node) (i : Nat) (r : Key) :
    get (.full cs) (i :: r) = get (cs[i]?.getD .nil) r := by
  simp [get, getAt_eq]
@[simp] theorem get_full_nil (cs : List Node) : get (.full cs) [] = none := by simp [get]

/-! ### insert -/

theorem insertAt_eq (cs : List Node) (i : Nat) (rest : Key) (v : Node) (h : i < cs.length) :
    insertAt cs i rest v = ((insert (cs[i]?.getD .nil) rest v).1, cs.set i (insert (cs[i]?.getD .nil) rest v).2) := by
  induction cs generalizing i with
  | nil => simp at h
  | cons c cs ih =>
    cases i with
    | zero => simp [insertAt]
    | succ i => simp [insertAt, ih i (by simpa using h)]

theorem insertAt_oob (cs : List Node) (i : Nat) (rest : Key) (v : Node) (h : cs.length ≤ i) :
    insertAt cs i rest v = (false, cs) := by
  induction cs generalizing i with
  | nil => simp [insertAt]
  | cons c cs ih =>
    cases i with
    | zero => simp at h
    | succ i => simp [insertAt, ih i (by simpa using h)]

/-! ### delete -/

theorem deleteAt_eq (cs : List Node) (i : Nat) (rest : Key) (h : i < cs.length) :
    deleteAt cs i rest = ((delete (cs[i]?.getD .nil) rest).1, cs.set i (delete (cs[i]?.getD .nil) rest).2) := by
  induction cs generalizing i with
  | nil => simp at h
  | cons c cs ih =>
    cases i with
    | zero => simp [deleteAt]
    | succ i => simp [deleteAt, ih i (by simpa using h)]

theorem deleteAt_oob (cs : List Node) (i : Nat) (rest : Key) (h : cs.length ≤ i) :
    deleteAt cs i rest = (false, cs) := by
  induction cs generalizing i with
  | nil => simp [deleteAt]
  | cons c cs ih =>
    cases i with
    | zero => simp at h
    | succ i => simp [deleteAt, ih i (by simpa using h)]

/-! ### iteration and abstract content -/

theorem lookup_prepend (p k : Key) (L : List (Key × Bytes)) :
    (prepend p L).lookup k = if p <+: k then L.lookup (k.drop p.length) else none := by
  induction L with
  | nil => simp [prepend]
  | cons e L ih =>
    obtain ⟨a, b⟩ := e
    simp only [prepend, List.map_cons, List.lookup_cons] at ih ⊢
    by_cases hp : p <+: k
    · obtain ⟨s, rfl⟩ := hp
      simp only [List.prefix_append, if_true, List.drop_left] at ih ⊢
      by_cases hs : s = a
      · subst hs; simp
      · have : (p ++ s == p ++ a) = false := by simpa using hs
        have h2 : (s == a) = false := by simpa using hs
        simp only [this, h2]
        exact ih
    · have : (k == p ++ a) = false := by
        apply beq_false_of_ne
        intro h; apply hp; rw [h]; exact List.prefix_append p a
      simp only [this, hp, if_false] at ih ⊢
      exact ih

@[simp] theorem content_nil (k : Key) : content .nil k = none := by simp [content, iter]
theorem content_value (b : Bytes) (k : Key) : content (.value b) k = if k = [] then some b else none := by
  simp only [content, iter, List.lookup_cons, List.lookup_nil]
  by_cases h : k = []
  · simp [h]
  · have : (k == []) = false := by simpa using h
    simp [this, h]
theorem content_short (kk : Key) (v : Node) (k : Key) :
    content (.short kk v) k = if kk <+: k then content v (k.drop kk.length) else none := by
  simp [content, iter, lookup_prepend]

theorem lookup_iterL (cs : List Node) (s i : Nat) (r : Key) :
    (iterL cs s).lookup (i :: r) = if s ≤ i then content (cs[i - s]?.getD .nil) r else none := by
  induction cs generalizing s with
  | nil => simp [iterL]
  | cons c cs ih =>
    simp only [iterL, List.lookup_append, lookup_prepend, ih]
    by_cases h1 : s = i
    · subst h1
      have : ¬ (s + 1 ≤ s) := by omega
      simp [this, content]
    · have hp : ¬ ([s] <+: i :: r) := by
        intro h
        have := List.prefix_iff_eq_take.mp h
        simp at this
        exact h1 this
      simp only [hp, if_false, Option.none_or]
      by_cases h2 : s ≤ i
      · have h3 : s + 1 ≤ i := by omega
        have : i - s = (i - (s + 1)) + 1 := by omega
        simp [h2, h3, this]
      · have h3 : ¬ (s + 1 ≤ i) := by omega
        simp [h2, h3]

theorem content_full_cons (cs : List Node) (i : Nat) (r : Key) :
    content (.full cs) (i :: r) = content (cs[i]?.getD .nil) r := by
  simp [content, iter, lookup_iterL]

theorem iterL_keys_ne_nil (cs : List Node) (s : Nat) : ∀ e ∈ iterL cs s, e.1 ≠ [] := by
  induction cs generalizing s with
  | nil => simp [iterL]
  | cons c cs ih =>
    intro e he
    simp only [iterL, List.mem_append, prepend, List.mem_map] at he
    rcases he with ⟨a, _, rfl⟩ | he
    · simp
    · exact ih _ e he

theorem lookup_some_mem {L : List (Key × Bytes)} {k : Key} {b : Bytes} (h : L.lookup k = some b) : (k, b) ∈ L := by
  induction L with
  | nil => simp at h
  | cons e L ih =>
    obtain ⟨a, c⟩ := e
    simp only [List.lookup_cons] at h
    by_cases hk : k = a
    · subst hk; simp at h; subst h; simp
    · have : (k == a) = false := by simpa using hk
      simp only [this] at h
      exact List.mem_cons_of_mem _ (ih h)

theorem lookup_none_of_not_mem {L : List (Key × Bytes)} {k : Key} (h : ∀ e ∈ L, e.1 ≠ k) : L.lookup k = none := by
  cases hl : L.lookup k with
  | none => rfl
  | some b => exact absurd rfl (h _ (lookup_some_mem hl))

theorem content_full_nil (cs : List Node) : content (.full cs) [] = none := by
  simp only [content, iter]
  exact lookup_none_of_not_mem (iterL_keys_ne_nil cs 0)

end Rangers.Trie
