import Rangers.Proofs.PoolOrder
/-! Lemmas about the nonce walk (`checkNonce`). Core Lean only. -/
namespace Rangers.Pool

theorem nmGet_nmSet_same (m : NonceMap) (s : Bytes) (v : Nat) : nmGet (nmSet m s v) s = some v := by
  induction m with
  | nil => simp [nmSet, nmGet]
  | cons p r ih =>
    obtain ⟨k, w⟩ := p
    by_cases hk : k = s
    · simp [nmSet, nmGet, hk]
    · simp [nmSet, nmGet, hk, ih]

theorem nmGet_nmSet_other (m : NonceMap) {s s' : Bytes} (v : Nat) (h : s' ≠ s) : nmGet (nmSet m s v) s' = nmGet m s' := by
  induction m with
  | nil => simp [nmSet, nmGet, Ne.symm h]
  | cons p r ih =>
    obtain ⟨k, w⟩ := p
    by_cases hk : k = s
    · subst hk; simp [nmSet, nmGet, Ne.symm h]
    · by_cases hk' : k = s'
      · subst hk'; simp [nmSet, nmGet, h]
      · simp [nmSet, nmGet, hk, hk', ih]

theorem expectedOf_set_same (σ : Nat → Nat) (m : NonceMap) (s : Bytes) (v : Nat) :
    expectedOf σ (nmSet m s v) s = v := by simp [expectedOf, nmGet_nmSet_same]

theorem expectedOf_set_other (σ : Nat → Nat) (m : NonceMap) {s s' : Bytes} (v : Nat) (h : s' ≠ s) :
    expectedOf σ (nmSet m s v) s' = expectedOf σ m s' := by simp [expectedOf, nmGet_nmSet_other m v h]

/-- recording the current expectation changes no expectation -/
theorem expectedOf_set_self (σ : Nat → Nat) (m : NonceMap) (s s' : Bytes) :
    expectedOf σ (nmSet m s (expectedOf σ m s)) s' = expectedOf σ m s' := by
  by_cases h : s' = s
  · subst h; rw [expectedOf_set_same]
  · rw [expectedOf_set_other σ m _ h]

theorem walk_sublist (σ : Nat → Nat) : ∀ (l : List Tx) (k : Nat) (m : NonceMap), (walk σ k m l).Sublist l
  | [], k, m => by simp [walk]
  | t :: ts, 0, m => by simp [walk]
  | t :: ts, k + 1, m => by
    unfold walk
    split
    · simp only
      split
      · exact (walk_sublist σ ts _ _).cons _
      · split
        · exact (walk_sublist σ ts _ _).cons_cons _
        · exact (walk_sublist σ ts _ _).cons_cons _
    · exact (walk_sublist σ ts _ _).cons_cons _

theorem walk_length_le (σ : Nat → Nat) : ∀ (l : List Tx) (k : Nat) (m : NonceMap), (walk σ k m l).length ≤ k
  | [], k, m => by simp [walk]
  | t :: ts, 0, m => by simp [walk]
  | t :: ts, k + 1, m => by
    unfold walk
    split
    · simp only
      split
      · exact walk_length_le σ ts _ _
      · split
        · simp; exact walk_length_le σ ts _ _
        · simp; exact walk_length_le σ ts _ _
    · simp; exact walk_length_le σ ts _ _

/-- The next nonce expected of sender `s` after the already placed transactions `pre`, starting from `e`:
each nonce-checked transaction of `s` whose nonce equals the current expectation advances it (uint64). -/
def expAfter (s : Bytes) : Nat → List Tx → Nat
  | e, [] => e
  | e, t :: ts =>
    if t.req = 0 ∧ t.src = s then
      if t.nonce = e then expAfter s ((e + 1) % u64) ts else expAfter s e ts
    else expAfter s e ts

/-- number of in-sequence transactions of `s` among `pre` -/
def inSeqCount (s : Bytes) : Nat → List Tx → Nat
  | _, [] => 0
  | e, t :: ts =>
    if t.req = 0 ∧ t.src = s then
      if t.nonce = e then 1 + inSeqCount s ((e + 1) % u64) ts else inSeqCount s e ts
    else inSeqCount s e ts

theorem expAfter_le (s : Bytes) : ∀ (pre : List Tx) (e : Nat), expAfter s e pre ≤ e + inSeqCount s e pre
  | [], e => by simp [expAfter, inSeqCount]
  | t :: ts, e => by
    unfold expAfter inSeqCount
    split
    · split
      · have := expAfter_le s ts ((e + 1) % u64)
        have h2 : (e + 1) % u64 ≤ e + 1 := Nat.mod_le _ _
        omega
      · exact expAfter_le s ts e
    · exact expAfter_le s ts e

/-- Every nonce-checked transaction the walk places has a nonce not ahead of what is expected of its
sender at that point. -/
theorem walk_not_ahead (σ : Nat → Nat) :
    ∀ (l : List Tx) (k : Nat) (m : NonceMap) (pre post : List Tx) (t : Tx),
      walk σ k m l = pre ++ t :: post → t.req = 0 → t.nonce ≤ expAfter t.src (expectedOf σ m t.src) pre
  | [], k, m, pre, post, t, h, _ => by simp [walk] at h
  | t0 :: ts, 0, m, pre, post, t, h, _ => by simp [walk] at h
  | t0 :: ts, k + 1, m, pre, post, t, h, ht => by
    unfold walk at h
    split at h
    · rename_i h0
      simp only at h
      split at h
      · -- nonce too high: skipped
        have := walk_not_ahead σ ts _ _ pre post t h ht
        rwa [expectedOf_set_self] at this
      · rename_i hnot
        split at h
        · rename_i heq
          -- in sequence
          cases pre with
          | nil =>
            simp at h
            obtain ⟨rfl, _⟩ := h
            simp [expAfter]; omega
          | cons p pre' =>
            simp at h
            obtain ⟨rfl, h'⟩ := h
            have ih := walk_not_ahead σ ts _ _ pre' post t h' ht
            unfold expAfter
            by_cases hs : t0.src = t.src
            · simp only [h0, hs, and_self, if_true]
              rw [← hs] at ih ⊢
              rw [expectedOf_set_same] at ih
              simp [← heq, ih]
            · simp only [h0, hs, and_false, if_false]
              rw [expectedOf_set_other _ _ _ (Ne.symm hs), expectedOf_set_self] at ih
              exact ih
        · rename_i hne
          cases pre with
          | nil =>
            simp at h
            obtain ⟨rfl, _⟩ := h
            simp [expAfter]; omega
          | cons p pre' =>
            simp at h
            obtain ⟨rfl, h'⟩ := h
            have ih := walk_not_ahead σ ts _ _ pre' post t h' ht
            rw [expectedOf_set_self] at ih
            unfold expAfter
            by_cases hs : t0.src = t.src
            · simp only [h0, hs, and_self, if_true]
              rw [← hs] at ih ⊢
              have : ¬ t0.nonce = expectedOf σ m t0.src := fun e => hne e.symm
              simp [this, ih]
            · simp only [h0, hs, and_false, if_false]
              exact ih
    · rename_i h0
      cases pre with
      | nil =>
        simp at h
        obtain ⟨rfl, _⟩ := h
        exact absurd ht h0
      | cons p pre' =>
        simp at h
        obtain ⟨rfl, h'⟩ := h
        have ih := walk_not_ahead σ ts _ _ pre' post t h' ht
        unfold expAfter
        simp only [h0, false_and, if_false]
        exact ih

end Rangers.Pool
