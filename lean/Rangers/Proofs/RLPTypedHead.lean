import Rangers.Model.RLPTyped
import Rangers.Proofs.RLPItem
/-! Header and leaf lemmas for the typed slice decoder (`readHead`, `bytesOf`, `uintOf`). -/
namespace Rangers.RLP
open Rangers

theorem readLong_inv {b : Bytes} {n s : Nat} (h : readLong b n = .ok s) (h1 : 1 ≤ n) :
    n ≤ b.length ∧ toBE s = b.take n ∧ 56 ≤ s := by
  unfold readLong at h
  by_cases hl : n > b.length
  · rw [if_pos hl] at h; cases h
  · rw [if_neg hl] at h
    by_cases hn1 : n = 1
    · rw [if_pos hn1] at h
      cases b with
      | nil => cases h
      | cons b0 tl =>
        simp only at h
        split at h
        · cases h
        · rename_i h56
          injection h with h
          subst h hn1
          refine ⟨by simp, ?_, by omega⟩
          have hm : Minimal [b0] := by simp only [Minimal]; omega
          have := toBE_beNat [b0] hm
          simpa [beNat] using this
    · rw [if_neg hn1] at h
      cases b with
      | nil => cases h
      | cons b0 tl =>
        simp only at h
        split at h
        · cases h
        · rename_i hb0
          split at h
          · cases h
          · rename_i h56
            injection h with h
            subst h
            refine ⟨by omega, ?_, by omega⟩
            apply toBE_beNat
            cases n with
            | zero => omega
            | succ k => simp only [List.take_succ_cons, Minimal]; exact hb0

/-- An accepted `Stream` header on a slice is the header `puthead` writes for the content size. -/
theorem readHead_inv {buf : Bytes} {k : Kind} {ts cs : Nat} (h : readHead buf = .ok (k, ts, cs)) :
    ts + cs ≤ buf.length ∧ cs < 2 ^ 64 ∧
    ((k = .byte ∧ ts = 0 ∧ cs = 1 ∧ ∃ x tl, buf = x :: tl ∧ x.toNat < 0x80) ∨
     (k = .string ∧ buf.take ts = encHead 0x80 0xb7 cs ∧ 1 ≤ ts) ∨
     (k = .list ∧ buf.take ts = encHead 0xc0 0xf7 cs ∧ 1 ≤ ts)) := by
  cases buf with
  | nil => simp [readHead] at h
  | cons b tl =>
    have hb := b.toNat_lt
    simp only [readHead] at h
    have hsz : ∀ s n, toBE s = List.take n tl → n ≤ 8 → s < 2 ^ 64 := by
      intro s n hbe hn
      have := beNat_lt (toBE s)
      rw [beNat_toBE] at this
      have h8 : (toBE s).length ≤ 8 := by rw [hbe]; simp; omega
      calc s < 256 ^ (toBE s).length := this
        _ ≤ 256 ^ 8 := Nat.pow_le_pow_right (by omega) h8
        _ = 2 ^ 64 := by decide
    by_cases c1 : b.toNat < 0x80
    · rw [if_pos c1] at h
      simp only [List.length_cons] at h
      split at h
      · cases h
      · injection h with h; injection h with h1 h; injection h with h2 h3
        subst h1 h2 h3
        refine ⟨by simp, by omega, Or.inl ⟨rfl, rfl, rfl, b, tl, rfl, c1⟩⟩
    · rw [if_neg c1] at h
      by_cases c2 : b.toNat < 0xb8
      · rw [if_pos c2] at h
        simp only [List.length_cons] at h
        split at h
        · cases h
        · rename_i hle
          injection h with h; injection h with h1 h; injection h with h2 h3
          subst h1 h2 h3
          refine ⟨by simp only [List.length_cons]; omega, by omega, Or.inr (Or.inl ⟨rfl, ?_, by omega⟩)⟩
          rw [encHead_small _ _ (by omega)]
          have : 0x80 + (b.toNat - 0x80) = b.toNat := by omega
          simp [this]
      · rw [if_neg c2] at h
        by_cases c3 : b.toNat < 0xc0
        · rw [if_pos c3] at h
          cases hr : readLong tl (b.toNat - 0xb7) with
          | error e => rw [hr] at h; cases h
          | ok s =>
            rw [hr] at h
            simp only [List.length_cons] at h
            obtain ⟨hl, hbe, h56⟩ := readLong_inv hr (by omega)
            split at h
            · cases h
            · rename_i hle
              injection h with h; injection h with h1 h; injection h with h2 h3
              subst h1 h2 h3
              have hlen : (toBE s).length = b.toNat - 0xb7 := by rw [hbe]; simp; omega
              refine ⟨by simp only [List.length_cons]; omega, hsz s _ hbe (by omega), Or.inr (Or.inl ⟨rfl, ?_, by omega⟩)⟩
              rw [encHead_large _ _ h56, hlen]
              have : 0xb7 + (b.toNat - 0xb7) = b.toNat := by omega
              rw [this, hbe]
              simp
        · rw [if_neg c3] at h
          by_cases c4 : b.toNat < 0xf8
          · rw [if_pos c4] at h
            simp only [List.length_cons] at h
            split at h
            · cases h
            · rename_i hle
              injection h with h; injection h with h1 h; injection h with h2 h3
              subst h1 h2 h3
              refine ⟨by simp only [List.length_cons]; omega, by omega, Or.inr (Or.inr ⟨rfl, ?_, by omega⟩)⟩
              rw [encHead_small _ _ (by omega)]
              have : 0xc0 + (b.toNat - 0xc0) = b.toNat := by omega
              simp [this]
          · rw [if_neg c4] at h
            cases hr : readLong tl (b.toNat - 0xf7) with
            | error e => rw [hr] at h; cases h
            | ok s =>
              rw [hr] at h
              simp only [List.length_cons] at h
              obtain ⟨hl, hbe, h56⟩ := readLong_inv hr (by omega)
              split at h
              · cases h
              · rename_i hle
                injection h with h; injection h with h1 h; injection h with h2 h3
                subst h1 h2 h3
                have hlen : (toBE s).length = b.toNat - 0xf7 := by rw [hbe]; simp; omega
                refine ⟨by simp only [List.length_cons]; omega, hsz s _ hbe (by omega), Or.inr (Or.inr ⟨rfl, ?_, by omega⟩)⟩
                rw [encHead_large _ _ h56, hlen]
                have : 0xf7 + (b.toNat - 0xf7) = b.toNat := by omega
                rw [this, hbe]
                simp

theorem content_length {buf : Bytes} {ts cs : Nat} (h : ts + cs ≤ buf.length) :
    ((buf.drop ts).take cs).length = cs := by
  simp only [List.length_take, List.length_drop]; omega

theorem headLt128_take {l : Bytes} {n : Nat} (hn : 1 ≤ n) : headLt128 (l.take n) = headLt128 l := by
  cases l with
  | nil => simp
  | cons x xs =>
    cases n with
    | zero => omega
    | succ k => simp [headLt128]

/-- `Stream.Bytes()` on a slice accepts exactly `encodeString(content)`. -/
theorem bytesOf_sound {buf c rest : Bytes} (h : bytesOf buf = .ok (c, rest)) : buf = encString c ++ rest := by
  unfold bytesOf at h
  cases hk : readHead buf with
  | error e => rw [hk] at h; cases h
  | ok r =>
    obtain ⟨k, ts, cs⟩ := r
    rw [hk] at h
    simp only at h
    obtain ⟨hlen, _, hc⟩ := readHead_inv hk
    have hsp := split3 buf ts cs
    have hcl := content_length hlen
    rcases hc with ⟨hk1, hts, hcs, x, tl, hbuf, hx⟩ | ⟨hk1, hhead, _⟩ | ⟨hk1, _, _⟩
    · subst hk1 hts hcs hbuf
      simp only at h
      injection h with h; injection h with h1 h2
      subst h1 h2
      simp [encString_byte x hx]
    · subst hk1
      simp only at h
      split at h
      · cases h
      · rename_i hcanon
        injection h with h; injection h with h1 h2
        subst h1 h2
        have hc' : ¬ (((buf.drop ts).take cs).length = 1 ∧ headLt128 ((buf.drop ts).take cs) = true) := by
          rw [hcl]; exact hcanon
        rw [encString_nonbyte _ hc', hcl, ← hhead, List.append_assoc]
        exact hsp
    · subst hk1
      simp only at h
      cases h

end Rangers.RLP
