import Mathlib.Algebra.Group.Basic
import Mathlib.Algebra.Module.Basic
import Mathlib.Tactic.Abel
import Mathlib.Tactic.Ring
import Rangers.Model.VrfCurve
/-!
The sliding-window loop of `GeDoubleScalarMultVartime` and double-and-add, evaluated in an
arbitrary commutative group: both compute (value of the digits) • A.
-/
namespace Rangers.Proofs.C16Window
open Rangers.Model.VrfCurve

variable {G : Type} [AddCommGroup G]

/-- value of a digit string, most significant first (Horner) -/
def horner (ds : List Int) (v : Int) : Int := ds.foldl (fun v d => 2 * v + d) v

/-- value of the digits as `slide` returns them (least significant first) -/
def valueLSB (ds : List Int) : Int := horner ds.reverse 0

/-- digit shape produced by `slide`: zero or odd -/
def OddOrZero (ds : List Int) : Prop := ∀ d ∈ ds, d = 0 ∨ d % 2 = 1

theorem oddTable_group (A : G) (j : Nat) :
    oddTable (fun x : G => x + x) (· + ·) A j = ((2 * j + 1 : ℕ) : ℤ) • A := by
  induction j with
  | zero => simp [oddTable]
  | succ j ih =>
    simp only [oddTable, ih]
    have : ((2 * (j + 1) + 1 : ℕ) : ℤ) = 2 + ((2 * j + 1 : ℕ) : ℤ) := by push_cast; ring
    rw [this, add_zsmul, two_zsmul]

theorem windowLoop_group (A : G) (tbl : Nat → G) (htbl : ∀ j, tbl j = ((2 * j + 1 : ℕ) : ℤ) • A)
    (ds : List Int) (hodd : OddOrZero ds) (v : Int) :
    windowLoop (fun x : G => x + x) (· + ·) (· - ·) tbl ds (v • A) = horner ds v • A := by
  induction ds generalizing v with
  | nil => simp [windowLoop, horner]
  | cons d ds ih =>
    have hd := hodd d (by simp)
    have hrest : OddOrZero ds := fun e he => hodd e (by simp [he])
    simp only [windowLoop, horner, List.foldl_cons]
    have step : (if d > 0 then (v • A + v • A) + tbl (d.toNat / 2)
        else if d < 0 then (v • A + v • A) - tbl ((-d).toNat / 2) else v • A + v • A)
        = (2 * v + d) • A := by
      have h2 : v • A + v • A = (2 * v) • A := by rw [mul_zsmul, two_zsmul]
      split
      · rename_i hpos
        have : ((2 * (d.toNat / 2) + 1 : ℕ) : ℤ) = d := by omega
        rw [htbl, this, h2, ← add_zsmul]
      · split
        · rename_i hneg
          have : ((2 * ((-d).toNat / 2) + 1 : ℕ) : ℤ) = -d := by omega
          rw [htbl, this, h2, neg_zsmul, sub_neg_eq_add, ← add_zsmul]
        · have : d = 0 := by omega
          rw [this, add_zero, h2]
    rw [step]
    exact ih hrest (2 * v + d)

theorem horner_dropZeros (ds : List Int) :
    horner (ds.dropWhile (fun d => d == 0)) 0 = horner ds 0 := by
  induction ds with
  | nil => rfl
  | cons d ds ih =>
    by_cases hd : d = 0
    · subst hd
      simp only [List.dropWhile, beq_self_eq_true]
      rw [ih]; simp [horner]
    · have : (d == 0) = false := by simpa using hd
      simp [List.dropWhile, this]

/-- The sliding-window multiplication computes (value of the digits) • A in any commutative group. -/
theorem windowMul_group (A : G) (ds : List Int) (hodd : OddOrZero ds) :
    windowMulWith (0 : G) (fun x => x + x) (· + ·) (· - ·) ds A = valueLSB ds • A := by
  unfold windowMulWith valueLSB
  have hodd' : OddOrZero (ds.reverse.dropWhile (fun d => d == 0)) := by
    intro d hd
    exact hodd d (by simpa using (List.dropWhile_sublist _).subset hd)
  have := windowLoop_group A (oddTable (fun x : G => x + x) (· + ·) A) (oddTable_group A) _ hodd' 0
  rw [zero_zsmul] at this
  rw [this, horner_dropZeros]

/-- Double-and-add over n bits computes (k mod 2^n) • A. -/
theorem da_group (A : G) (n k : Nat) :
    daWith (0 : G) (fun x => x + x) (· + ·) A n k = ((k % 2 ^ n : ℕ) : ℤ) • A := by
  induction n generalizing k with
  | zero => simp [daWith, Nat.mod_one]
  | succ n ih =>
    simp only [daWith, ih]
    have hk : ((k % 2 ^ (n + 1) : ℕ) : ℤ) = 2 * ((k / 2 % 2 ^ n : ℕ) : ℤ) + ((k % 2 : ℕ) : ℤ) := by
      have : k % 2 ^ (n + 1) = 2 * (k / 2 % 2 ^ n) + k % 2 := by
        rw [Nat.pow_succ, Nat.mul_comm, Nat.mod_mul]; omega
      rw [this]; push_cast; ring
    have h2 : ∀ v : ℤ, v • A + v • A = (2 * v) • A := fun v => by rw [mul_zsmul, two_zsmul]
    split
    · rename_i h1
      rw [hk, h1, h2, add_zsmul]; simp
    · rename_i h0
      have : k % 2 = 0 := by omega
      rw [hk, this, h2]; simp

/-- Sliding window = double-and-add, in any commutative group, whenever the recoding is sound
    for the scalar (`valueLSB (slide k) = k`, odd-or-zero digits). -/
theorem window_eq_doubleAndAdd (A : G) (k : Nat) (hk : k < 2 ^ 256)
    (hodd : OddOrZero (slide k)) (hval : valueLSB (slide k) = k) :
    windowMulWith (0 : G) (fun x => x + x) (· + ·) (· - ·) (slide k) A
      = daWith (0 : G) (fun x => x + x) (· + ·) A 256 k := by
  rw [windowMul_group A _ hodd, da_group, hval, Nat.mod_eq_of_lt hk]

end Rangers.Proofs.C16Window
