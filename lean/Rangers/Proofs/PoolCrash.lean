import Rangers.Proofs.PoolInv
/-! Which executed records exist when `MarkExecuted` is cut short between two batch writes: a prefix of the
block's receipts. Core Lean only. -/
namespace Rangers.Pool

/-- the records of `s'` are those of `s`, the puts `P` that were waiting, and the first `n` receipts -/
def PrefixRel (s s' : Pool) (P : List Nat) (rs : List (Nat × Nat)) (n : Nat) : Prop :=
  ∀ x, x ∈ s'.execHashes ↔ x ∈ s.execHashes ∨ x ∈ P ∨ x ∈ (rs.take n).map (·.1)

def SameRecords (s s' : Pool) : Prop := ∀ x, x ∈ s'.execHashes ↔ x ∈ s.execHashes

theorem markLoop_prefix {txs : List Tx} (crashAt : Option Nat) :
    ∀ (rs : List (Nat × Nat)) (i : Nat) (ws : List Nat) (s : Pool),
      Covered (rs.map (·.1)) txs → s.detached = false →
      ∃ s' ws' r, markLoop txs crashAt rs i ws s = (s', ws', r) ∧ s'.detached = false ∧
        (r = .ok → (SameRecords s s' ∧ putHashes s'.batch = putHashes s.batch ++ rs.map (·.1)) ∨
          (∃ n, n ≤ rs.length ∧ PrefixRel s s' (putHashes s.batch) rs n ∧ putHashes s'.batch = (rs.drop n).map (·.1))) ∧
        (r = .crash → SameRecords s s' ∨ (∃ n, n ≤ rs.length ∧ PrefixRel s s' (putHashes s.batch) rs n)) ∧
        (r = .ok ∨ r = .crash)
  | [], i, ws, s, _, hd =>
    ⟨s, ws, .ok, rfl, hd, fun _ => Or.inl ⟨fun _ => Iff.rfl, by simp⟩, (fun e => by cases e), Or.inl rfl⟩
  | (h, z) :: rs, i, ws, s, hc, hd => by
    obtain ⟨t, ht⟩ := findTx_isSome (hc h (by simp)) i
    have hc' : Covered (rs.map (·.1)) txs := fun x hx => hc x (by simp [hx])
    unfold markLoop
    simp only [ht]
    split
    · split
      · exact ⟨_, _, .crash, rfl, hd, (fun e => by cases e), fun _ => Or.inl (fun _ => Iff.rfl), Or.inr rfl⟩
      · let s1 : Pool := { s with batch := s.batch ++ [BOp.putTx h (some t) z] }
        have hd1 : s1.detached = false := hd
        have ff := flush_frame s1
        have rf := refreshGate_frame s1.flush t
        have hd2 : (s1.flush.refreshGate t).detached = false := by rw [rf.2.2.1, ff.2.2.1]; exact hd1
        have hex : ∀ x, x ∈ (s1.flush.refreshGate t).execHashes ↔ x ∈ s.execHashes ∨ x ∈ putHashes s.batch ∨ x = h := by
          intro x
          have := mem_exec_flush s1 hd1 x
          simp only [Pool.execHashes] at this ⊢
          rw [rf.2.2.2.2.1, this]
          simp [s1, putHashes_append, putHashes]
        have hb2 : putHashes (s1.flush.refreshGate t).batch = [] := by rw [rf.2.2.2.2.2.1, ff.2.2.2.2]; rfl
        obtain ⟨s', ws', r, he, hd', hok, hcr, hr⟩ :=
          markLoop_prefix crashAt rs (i + 1) (s1.batch.length :: ws) (s1.flush.refreshGate t) hc' hd2
        -- from a relation to the flushed state to a prefix relation to `s`
        have lift0 : SameRecords (s1.flush.refreshGate t) s' → PrefixRel s s' (putHashes s.batch) ((h, z) :: rs) 1 := by
          intro hs x; rw [hs x, hex x]; simp
        have liftn : ∀ n, PrefixRel (s1.flush.refreshGate t) s' (putHashes (s1.flush.refreshGate t).batch) rs n →
            PrefixRel s s' (putHashes s.batch) ((h, z) :: rs) (n + 1) := by
          intro n hp x
          rw [hp x, hb2, hex x]
          simp only [List.take_succ_cons, List.map_cons, List.mem_cons, List.not_mem_nil, false_or]
          constructor
          · rintro ((a | a | a) | a)
            · exact Or.inl a
            · exact Or.inr (Or.inl a)
            · exact Or.inr (Or.inr (Or.inl a))
            · exact Or.inr (Or.inr (Or.inr a))
          · rintro (a | a | a | a)
            · exact Or.inl (Or.inl a)
            · exact Or.inl (Or.inr (Or.inl a))
            · exact Or.inl (Or.inr (Or.inr a))
            · exact Or.inr a
        refine ⟨s', ws', r, he, hd', ?_, ?_, hr⟩
        · intro hrok
          rcases hok hrok with ⟨hs, hb⟩ | ⟨n, hn, hp, hb⟩
          · exact Or.inr ⟨1, by simp, lift0 hs, by rw [hb, hb2]; simp⟩
          · exact Or.inr ⟨n + 1, by simp; omega, liftn n hp, by rw [hb]; simp⟩
        · intro hrc
          rcases hcr hrc with hs | ⟨n, hn, hp⟩
          · exact Or.inr ⟨1, by simp, lift0 hs⟩
          · exact Or.inr ⟨n + 1, by simp; omega, liftn n hp⟩
    · let s1 : Pool := { s with batch := s.batch ++ [BOp.putTx h (some t) z] }
      have hd1 : s1.detached = false := hd
      have rf := refreshGate_frame s1 t
      have hd2 : (s1.refreshGate t).detached = false := by rw [rf.2.2.1]; exact hd1
      have hb2 : putHashes (s1.refreshGate t).batch = putHashes s.batch ++ [h] := by
        rw [rf.2.2.2.2.2.1]; simp [s1, putHashes_append, putHashes]
      have hx2 : (s1.refreshGate t).execHashes = s.execHashes := by simp only [Pool.execHashes]; rw [rf.2.2.2.2.1]
      obtain ⟨s', ws', r, he, hd', hok, hcr, hr⟩ := markLoop_prefix crashAt rs (i + 1) ws (s1.refreshGate t) hc' hd2
      have lift0 : SameRecords (s1.refreshGate t) s' → SameRecords s s' := by
        intro hs x; rw [hs x, hx2]
      have liftn : ∀ n, PrefixRel (s1.refreshGate t) s' (putHashes (s1.refreshGate t).batch) rs n →
          PrefixRel s s' (putHashes s.batch) ((h, z) :: rs) (n + 1) := by
        intro n hp x
        rw [hp x, hb2, hx2]
        simp only [List.take_succ_cons, List.map_cons, List.mem_cons, List.mem_append, List.not_mem_nil, or_false]
        constructor
        · rintro (a | (a | a) | a)
          · exact Or.inl a
          · exact Or.inr (Or.inl a)
          · exact Or.inr (Or.inr (Or.inl a))
          · exact Or.inr (Or.inr (Or.inr a))
        · rintro (a | a | a | a)
          · exact Or.inl a
          · exact Or.inr (Or.inl (Or.inl a))
          · exact Or.inr (Or.inl (Or.inr a))
          · exact Or.inr (Or.inr a)
      refine ⟨s', ws', r, he, hd', ?_, ?_, hr⟩
      · intro hrok
        rcases hok hrok with ⟨hs, hb⟩ | ⟨n, hn, hp, hb⟩
        · exact Or.inl ⟨lift0 hs, by rw [hb, hb2]; simp⟩
        · exact Or.inr ⟨n + 1, by simp; omega, liftn n hp, by rw [hb]; simp⟩
      · intro hrc
        rcases hcr hrc with hs | ⟨n, hn, hp⟩
        · exact Or.inl (lift0 hs)
        · exact Or.inr ⟨n + 1, by simp; omega, liftn n hp⟩

/-- **Crash between two batch writes.** The records present are the old ones plus those of a *prefix* of the
block's receipts (in receipt order). -/
theorem markExecutedZ_crash_prefix {s : Pool} {rs : List (Nat × Nat)} {txs : List Tx} {evicted : List Nat} {k : Nat}
    (hb : GateOnly s.batch) (hd : s.detached = false) (hc : Covered (rs.map (·.1)) txs)
    {s' : Pool} {ws : List Nat} (h : s.markExecutedZ rs txs evicted (some k) = (s', ws, .crash)) :
    ∃ n, n ≤ rs.length ∧ ∀ x, x ∈ s'.execHashes ↔ x ∈ s.execHashes ∨ x ∈ (rs.take n).map (·.1) := by
  unfold Pool.markExecutedZ at h
  by_cases hr : rs = []
  · simp [hr] at h
  · obtain ⟨s1, ws1, r, he, _, hok, hcr, hro⟩ := markLoop_prefix (txs := txs) (some k) rs 0 [] s hc hd
    have hP : putHashes s.batch = [] := putHashes_gateOnly hb
    simp only [hr, if_false, he] at h
    have fromSame : SameRecords s s1 → ∃ n, n ≤ rs.length ∧ ∀ x, x ∈ s1.execHashes ↔ x ∈ s.execHashes ∨ x ∈ (rs.take n).map (·.1) :=
      fun hs => ⟨0, by omega, by intro x; rw [hs x]; simp⟩
    have fromPrefix : ∀ n, n ≤ rs.length → PrefixRel s s1 (putHashes s.batch) rs n →
        ∃ n, n ≤ rs.length ∧ ∀ x, x ∈ s1.execHashes ↔ x ∈ s.execHashes ∨ x ∈ (rs.take n).map (·.1) :=
      fun n hn hp => ⟨n, hn, by intro x; rw [hp x, hP]; simp⟩
    rcases hro with rfl | rfl
    · simp only at h
      split at h
      · split at h
        · simp at h; obtain ⟨rfl, _⟩ := h
          rcases hok rfl with ⟨hs, _⟩ | ⟨n, hn, hp, _⟩
          · exact fromSame hs
          · exact fromPrefix n hn hp
        · simp at h
      · simp at h
    · simp at h; obtain ⟨rfl, _⟩ := h
      rcases hcr rfl with hs | ⟨n, hn, hp⟩
      · exact fromSame hs
      · exact fromPrefix n hn hp

end Rangers.Pool
