import Rangers.Model.Decimal
import Mathlib.Tactic.Ring
import Mathlib.Tactic.Linarith
import Mathlib.Tactic.NormNum
import Mathlib.Tactic.Positivity
import Mathlib.Tactic.FieldSimp
import Mathlib.Algebra.Order.Field.Power
import Mathlib.Data.Rat.Defs
/-!
Arithmetic of the value-level `big.Float` model (`Rangers.Model.Decimal`):
what one away-from-zero rounding, one rounded division and one rounded
multiplication do to the value, as inequalities over ℚ.
-/
namespace Rangers.Decimal

/-! ### bit length -/

theorem bitLen_zero : bitLen 0 = 0 := by simp [bitLen]

theorem bitLen_pos {m : Nat} (h : 0 < m) : 0 < bitLen m := by
  unfold bitLen; split <;> omega

theorem lt_two_pow_bitLen (m : Nat) : m < 2 ^ bitLen m := by
  unfold bitLen
  split
  · subst_vars; simp
  · exact Nat.lt_log2_self

theorem two_pow_bitLen_le {m : Nat} (h : 0 < m) : 2 ^ (bitLen m - 1) ≤ m := by
  unfold bitLen
  rw [if_neg (by omega)]
  simpa using Nat.log2_self_le (by omega : m ≠ 0)

theorem bitLen_le_of_lt {m k : Nat} (h : m < 2 ^ k) : bitLen m ≤ k := by
  unfold bitLen
  split
  · omega
  · rename_i hm
    have := (Nat.log2_lt hm).mpr h
    omega

theorem bitLen_mono {a b : Nat} (h : a ≤ b) : bitLen a ≤ bitLen b :=
  bitLen_le_of_lt (Nat.lt_of_le_of_lt h (lt_two_pow_bitLen b))

theorem bitLen_mul_two_pow_le (m k : Nat) : bitLen (m * 2 ^ k) ≤ bitLen m + k := by
  apply bitLen_le_of_lt
  rw [Nat.pow_add]
  exact Nat.mul_lt_mul_of_lt_of_le (lt_two_pow_bitLen m) (Nat.le_refl _) (Nat.two_pow_pos k)

theorem bitLen_mul_le (a b : Nat) : bitLen (a * b) ≤ bitLen a + bitLen b := by
  apply bitLen_le_of_lt
  rw [Nat.pow_add]
  exact Nat.mul_lt_mul_of_lt_of_le (lt_two_pow_bitLen a) (Nat.le_of_lt (lt_two_pow_bitLen b))
    (Nat.two_pow_pos _)

theorem bitLen_pow_le (b k n : Nat) (hb : b ≤ 2 ^ k) : bitLen (b ^ n) ≤ k * n + 1 := by
  apply bitLen_le_of_lt
  calc b ^ n ≤ (2 ^ k) ^ n := Nat.pow_le_pow_left hb n
    _ = 2 ^ (k * n) := by rw [Nat.pow_mul]
    _ < 2 ^ (k * n + 1) := Nat.pow_lt_pow_right (by norm_num) (by omega)

/-! ### value of a finite float -/

/-- magnitude `m·2^e` of a finite float. -/
def mag (m : Nat) (e : Int) : ℚ := (m : ℚ) * (2 : ℚ) ^ e

theorem mag_pos {m : Nat} (h : 0 < m) (e : Int) : 0 < mag m e := by
  unfold mag; positivity

theorem mag_add (m : Nat) (e : Int) (s : Nat) : mag m (e + (s : Int)) = (m : ℚ) * 2 ^ s * 2 ^ e := by
  unfold mag
  rw [zpow_add₀ (by norm_num : (2 : ℚ) ≠ 0), zpow_natCast]; ring

/-! ### one rounding -/

theorem roundMant_fits (mode : Mode) {p m : Nat} (st : Bool) (h : bitLen m ≤ p) :
    roundMant mode p m st = (m, 0) := by
  unfold roundMant; simp [h]

theorem roundMant_fst_le (mode : Mode) (p m : Nat) (st : Bool) (hp : 1 ≤ p) :
    (roundMant mode p m st).1 ≤ m := by
  unfold roundMant
  by_cases h : bitLen m ≤ p
  · simp [h]
  · simp only [h, if_false]
    have hm : 0 < m := by
      rcases Nat.eq_zero_or_pos m with h0 | h0
      · subst h0; simp [bitLen_zero] at h
      · exact h0
    have h2 : 2 ^ (bitLen m - 1) ≤ m := two_pow_bitLen_le hm
    have h3 : 2 ≤ 2 ^ (bitLen m - 1) := by
      calc 2 = 2 ^ 1 := rfl
        _ ≤ 2 ^ (bitLen m - 1) := Nat.pow_le_pow_right (by norm_num) (by omega)
    have hq : m / 2 ^ (bitLen m - p) ≤ m / 2 := by
      apply Nat.div_le_div_left _ (by norm_num)
      calc 2 = 2 ^ 1 := rfl
        _ ≤ 2 ^ (bitLen m - p) := Nat.pow_le_pow_right (by norm_num) (by omega)
    cases mode <;> dsimp only <;> split <;> omega

theorem roundMant_snd_le (mode : Mode) (p m : Nat) (st : Bool) :
    (roundMant mode p m st).2 ≤ bitLen m := by
  unfold roundMant
  by_cases h : bitLen m ≤ p
  · simp [h]
  · simp only [h, if_false]; omega

/-- One away-from-zero rounding of an exact value `v ∈ [m, m+1)` (integer part `m`,
    `st` = "a non-zero fractional part was cut off") to `p` bits: the result is not
    below `v` and exceeds it by a relative error below `2^(1-p)`. -/
theorem roundMant_away_spec (p m : Nat) (st : Bool) (v : ℚ) (hp : 1 ≤ p) (hm : 0 < m)
    (hv1 : (m : ℚ) ≤ v) (hv2 : v < m + 1) (hst : st = true ↔ v ≠ m)
    (hb : st = true → p < bitLen m) :
    v ≤ ((roundMant .away p m st).1 : ℚ) * 2 ^ (roundMant .away p m st).2 ∧
    ((roundMant .away p m st).1 : ℚ) * 2 ^ (roundMant .away p m st).2 < v * (1 + 1 / 2 ^ (p - 1)) := by
  have hvpos : 0 < v := lt_of_lt_of_le (by exact_mod_cast hm) hv1
  have hpp : (0 : ℚ) < 1 / 2 ^ (p - 1) := by positivity
  by_cases h : bitLen m ≤ p
  · have hst' : st = false := by
      cases st
      · rfl
      · exact absurd (hb rfl) (by omega)
    have hv : v = m := by
      by_contra hne
      have := hst.mpr hne
      simp [hst'] at this
    rw [roundMant_fits _ _ h]
    simp only [pow_zero, mul_one]
    constructor
    · exact le_of_eq hv
    · rw [← hv]; nlinarith
  · have hs : 1 ≤ bitLen m - p := by omega
    have hlow : 2 ^ (bitLen m - 1) ≤ m := two_pow_bitLen_le hm
    have hdm := Nat.div_add_mod m (2 ^ (bitLen m - p))
    have hr : m % 2 ^ (bitLen m - p) < 2 ^ (bitLen m - p) := Nat.mod_lt _ (Nat.two_pow_pos _)
    have hsplit : bitLen m - 1 = (bitLen m - p) + (p - 1) := by omega
    -- casts
    have hlowQ : (2 : ℚ) ^ (bitLen m - p) * 2 ^ (p - 1) ≤ m := by
      rw [← pow_add, ← hsplit]; exact_mod_cast hlow
    have hdmQ : ((2 : ℚ) ^ (bitLen m - p)) * ((m / 2 ^ (bitLen m - p) : ℕ) : ℚ)
        + ((m % 2 ^ (bitLen m - p) : ℕ) : ℚ) = m := by exact_mod_cast hdm
    have hrQ : ((m % 2 ^ (bitLen m - p) : ℕ) : ℚ) + 1 ≤ (2 : ℚ) ^ (bitLen m - p) := by
      exact_mod_cast hr
    have hS : (0 : ℚ) < 2 ^ (bitLen m - p) := by positivity
    have hP : (0 : ℚ) < 2 ^ (p - 1) := by positivity
    -- S ≤ v / 2^(p-1)
    have hSv : (2 : ℚ) ^ (bitLen m - p) ≤ v * (1 / 2 ^ (p - 1)) := by
      rw [mul_one_div, le_div_iff₀ hP]; linarith
    unfold roundMant
    simp only [h, if_false]
    by_cases hinc : (m % 2 ^ (bitLen m - p) != 0 || st) = true
    · simp only [hinc, if_true]
      push_cast
      constructor
      · nlinarith
      · have hlt : ((m / 2 ^ (bitLen m - p) : ℕ) : ℚ) * 2 ^ (bitLen m - p) < v := by
          rcases Bool.or_eq_true _ _ |>.mp hinc with h1 | h1
          · have : m % 2 ^ (bitLen m - p) ≠ 0 := by simpa using h1
            have : (1 : ℚ) ≤ ((m % 2 ^ (bitLen m - p) : ℕ) : ℚ) := by
              exact_mod_cast Nat.one_le_iff_ne_zero.mpr this
            nlinarith
          · have hne : v ≠ m := hst.mp h1
            have : (m : ℚ) < v := lt_of_le_of_ne hv1 (Ne.symm hne)
            have : (0 : ℚ) ≤ ((m % 2 ^ (bitLen m - p) : ℕ) : ℚ) := by positivity
            nlinarith
        nlinarith
    · have hinc' : (m % 2 ^ (bitLen m - p) != 0 || st) = false := by simpa using hinc
      simp only [hinc', Bool.false_eq_true, if_false]
      rw [Bool.or_eq_false_iff] at hinc'
      obtain ⟨h1, h2⟩ := hinc'
      have hr0 : m % 2 ^ (bitLen m - p) = 0 := by simpa using h1
      have hv : v = m := by
        by_contra hne
        have := hst.mpr hne
        simp [h2] at this
      rw [hr0] at hdmQ
      constructor
      · rw [hv]; push_cast at hdmQ ⊢; nlinarith
      · have : ((m / 2 ^ (bitLen m - p) : ℕ) : ℚ) * 2 ^ (bitLen m - p) = v := by
          rw [hv]; push_cast at hdmQ ⊢; nlinarith
        rw [this]; nlinarith

/-! ### setExpAndRound, Quo, Mul, Int -/

theorem finish_fin (neg : Bool) (mode : Mode) (p m : Nat) (e : Int) (st : Bool) (hm : m ≠ 0)
    (hlo : minExp ≤ (bitLen m : Int) + e)
    (hhi : (bitLen (roundMant mode p m st).1 : Int) + (e + ((roundMant mode p m st).2 : Int)) ≤ maxExp) :
    finish neg mode p m e st = .fin neg (roundMant mode p m st).1 (e + ((roundMant mode p m st).2 : Int)) := by
  unfold finish
  rcases hrm : roundMant mode p m st with ⟨m', s⟩
  rw [hrm] at hhi
  simp only [hm, if_false, not_lt.mpr hlo]
  simp only [not_lt.mpr hhi, if_false]

/-- Sufficient size condition for `finish` not to leave the exponent range. -/
theorem finish_fin_of_small (neg : Bool) (mode : Mode) (p m : Nat) (e : Int) (st : Bool) (hp : 1 ≤ p)
    (hm : m ≠ 0) (he1 : -2000000000 ≤ e) (he2 : e ≤ 1000000000) (hb : bitLen m ≤ 500000000) :
    finish neg mode p m e st = .fin neg (roundMant mode p m st).1 (e + ((roundMant mode p m st).2 : Int)) := by
  apply finish_fin _ _ _ _ _ _ hm
  · unfold minExp; omega
  · have h1 := bitLen_mono (roundMant_fst_le mode p m st hp)
    have h2 := roundMant_snd_le mode p m st
    unfold maxExp; omega

/-- `Float.Quo` (away from zero, `p` bits) by a positive exact divisor `my·2^0`:
    the result is finite, not below the exact quotient and above it by a relative
    error below `2^(1-p)`. -/
theorem quo_away_spec (p : Nat) (n : Bool) (mx my : Nat) (ex : Int) (hp : 1 ≤ p) (hp2 : p ≤ 100000)
    (hmx : 0 < mx) (hmy : 0 < my)
    (hex1 : -1000000 ≤ ex) (hex2 : ex ≤ 1000000) (hbx : bitLen mx ≤ 1000000) (hby : bitLen my ≤ 1000000) :
    ∃ m' e', quo .away p (.fin n mx ex) (.fin false my 0) = .fin n m' e' ∧ 0 < m' ∧
      mag mx ex / my ≤ mag m' e' ∧ mag m' e' < mag mx ex / my * (1 + 1 / 2 ^ (p - 1)) ∧
      bitLen m' ≤ bitLen mx + p + 2 + bitLen my ∧ ex - (p + 2 + bitLen my : Nat) ≤ e' ∧
      e' ≤ ex + bitLen mx := by
  unfold quo
  simp only [Bool.bne_false, sub_zero]
  set k := p + 2 + bitLen my with hk
  set a := mx * 2 ^ k with ha
  have hmyQ : (0 : ℚ) < my := by exact_mod_cast hmy
  -- the quotient is long enough
  have hqbig : 2 ^ (p + 2) ≤ a / my := by
    rw [Nat.le_div_iff_mul_le hmy]
    calc 2 ^ (p + 2) * my ≤ 2 ^ (p + 2) * 2 ^ bitLen my :=
          Nat.mul_le_mul_left _ (Nat.le_of_lt (lt_two_pow_bitLen my))
      _ = 2 ^ k := by rw [← Nat.pow_add]
      _ ≤ mx * 2 ^ k := Nat.le_mul_of_pos_left _ hmx
  have hqpos : 0 < a / my := lt_of_lt_of_le (Nat.two_pow_pos _) hqbig
  have hqbits : p < bitLen (a / my) := by
    by_contra hcon
    have h1 : a / my < 2 ^ bitLen (a / my) := lt_two_pow_bitLen _
    have h2 : 2 ^ bitLen (a / my) ≤ 2 ^ p := Nat.pow_le_pow_right (by norm_num) (by omega)
    have h3 : 2 ^ p < 2 ^ (p + 2) := Nat.pow_lt_pow_right (by norm_num) (by omega)
    omega
  have habits : bitLen a ≤ bitLen mx + k := bitLen_mul_two_pow_le mx k
  have hqa : bitLen (a / my) ≤ bitLen a := bitLen_mono (Nat.div_le_self _ _)
  rw [finish_fin_of_small n .away p (a / my) (ex - (k : Int)) (a % my != 0) hp (by omega)
    (by omega) (by omega) (by omega)]
  -- exact quotient v = a / my
  have hdm := Nat.div_add_mod a my
  have hr : a % my < my := Nat.mod_lt _ hmy
  have hdmQ : (my : ℚ) * ((a / my : ℕ) : ℚ) + ((a % my : ℕ) : ℚ) = a := by exact_mod_cast hdm
  have hrQ : ((a % my : ℕ) : ℚ) < my := by exact_mod_cast hr
  have hr0 : (0 : ℚ) ≤ ((a % my : ℕ) : ℚ) := by positivity
  have hv1 : ((a / my : ℕ) : ℚ) ≤ (a : ℚ) / my := by
    rw [le_div_iff₀ hmyQ]; nlinarith
  have hv2 : (a : ℚ) / my < ((a / my : ℕ) : ℚ) + 1 := by
    rw [div_lt_iff₀ hmyQ]; nlinarith
  have hst : (a % my != 0) = true ↔ (a : ℚ) / my ≠ ((a / my : ℕ) : ℚ) := by
    constructor
    · intro h hEq
      have hne : a % my ≠ 0 := by simpa using h
      have : (1 : ℚ) ≤ ((a % my : ℕ) : ℚ) := by exact_mod_cast Nat.one_le_iff_ne_zero.mpr hne
      rw [div_eq_iff (ne_of_gt hmyQ)] at hEq
      nlinarith
    · intro h
      by_contra hcon
      have h0 : a % my = 0 := by simpa using hcon
      apply h
      rw [div_eq_iff (ne_of_gt hmyQ)]
      rw [h0] at hdmQ
      push_cast at hdmQ
      nlinarith
  obtain ⟨s1, s2⟩ := roundMant_away_spec p (a / my) (a % my != 0) ((a : ℚ) / my) hp hqpos hv1 hv2 hst
    (fun _ => hqbits)
  have hb1 := bitLen_mono (roundMant_fst_le .away p (a / my) (a % my != 0) hp)
  have hb2 := roundMant_snd_le .away p (a / my) (a % my != 0)
  refine ⟨_, _, rfl, ?_, ?_, ?_, by omega, by omega, by omega⟩
  · -- positivity of the mantissa
    by_contra hcon
    have h0 : (roundMant .away p (a / my) (a % my != 0)).1 = 0 := by omega
    rw [h0] at s1
    have : (0 : ℚ) < (a : ℚ) / my := lt_of_lt_of_le (by exact_mod_cast hqpos) hv1
    simp at s1
    linarith
  · rw [mag_add]
    have hE : mag mx ex / my = (a : ℚ) / my * 2 ^ (ex - (k : Int)) := by
      unfold mag
      rw [ha]; push_cast
      rw [zpow_sub₀ (by norm_num : (2 : ℚ) ≠ 0), zpow_natCast]
      field_simp
    rw [hE]
    exact mul_le_mul_of_nonneg_right s1 (by positivity)
  · rw [mag_add]
    have hE : mag mx ex / my = (a : ℚ) / my * 2 ^ (ex - (k : Int)) := by
      unfold mag
      rw [ha]; push_cast
      rw [zpow_sub₀ (by norm_num : (2 : ℚ) ≠ 0), zpow_natCast]
      field_simp
    rw [hE]
    have h2pos : (0 : ℚ) < 2 ^ (ex - (k : Int)) := by positivity
    calc _ < (a : ℚ) / my * (1 + 1 / 2 ^ (p - 1)) * 2 ^ (ex - (k : Int)) :=
          mul_lt_mul_of_pos_right s2 h2pos
      _ = _ := by ring

/-- `Float.Mul` (away from zero, `p` bits) by a positive exact factor `b·2^0`. -/
theorem mul_away_spec (p : Nat) (n : Bool) (mx b : Nat) (ex : Int) (hp : 1 ≤ p)
    (hmx : 0 < mx) (hb : 0 < b)
    (hex1 : -1000000 ≤ ex) (hex2 : ex ≤ 1000000) (hbx : bitLen mx ≤ 1000000) (hbb : bitLen b ≤ 1000000) :
    ∃ m' e', mul .away p (.fin n mx ex) (.fin false b 0) = .fin n m' e' ∧ 0 < m' ∧
      mag mx ex * b ≤ mag m' e' ∧ mag m' e' < mag mx ex * b * (1 + 1 / 2 ^ (p - 1)) := by
  unfold mul
  simp only [Bool.bne_false, add_zero]
  have hpos : 0 < mx * b := Nat.mul_pos hmx hb
  have hbits := bitLen_mul_le mx b
  rw [finish_fin_of_small n .away p (mx * b) ex false hp (by omega) (by omega) (by omega) (by omega)]
  obtain ⟨s1, s2⟩ := roundMant_away_spec p (mx * b) false ((mx * b : ℕ) : ℚ) hp hpos (le_refl _)
    (by linarith) (by simp) (by simp)
  have hvpos : (0 : ℚ) < ((mx * b : ℕ) : ℚ) := by exact_mod_cast hpos
  refine ⟨_, _, rfl, ?_, ?_, ?_⟩
  · by_contra hcon
    have h0 : (roundMant .away p (mx * b) false).1 = 0 := by omega
    rw [h0] at s1
    simp at s1
    push_cast at hvpos
    linarith
  · rw [mag_add]
    have hE : mag mx ex * b = ((mx * b : ℕ) : ℚ) * 2 ^ ex := by unfold mag; push_cast; ring
    rw [hE]
    exact mul_le_mul_of_nonneg_right s1 (by positivity)
  · rw [mag_add]
    have hE : mag mx ex * b = ((mx * b : ℕ) : ℚ) * 2 ^ ex := by unfold mag; push_cast; ring
    rw [hE]
    have h2pos : (0 : ℚ) < 2 ^ ex := by positivity
    calc _ < ((mx * b : ℕ) : ℚ) * (1 + 1 / 2 ^ (p - 1)) * 2 ^ ex := mul_lt_mul_of_pos_right s2 h2pos
      _ = _ := by ring

/-- `Float.Int`: if the magnitude lies in `[T, T+1)` the truncation is `±T`. -/
theorem toInt_fin_of_bounds (neg : Bool) (m : Nat) (e : Int) (T : Nat) (hm : 0 < m)
    (h1 : (T : ℚ) ≤ mag m e) (h2 : mag m e < T + 1) :
    toInt (.fin neg m e) = if neg then -(T : Int) else (T : Int) := by
  unfold toInt
  have hmQ : (0 : ℚ) < m := by exact_mod_cast hm
  by_cases hsc : (bitLen m : Int) + e ≤ 0
  · simp only [hsc, if_true]
    -- magnitude below 1, so T = 0
    have hlt : mag m e < 1 := by
      unfold mag
      have h3 : (m : ℚ) < 2 ^ (bitLen m : Int) := by
        rw [zpow_natCast]; exact_mod_cast lt_two_pow_bitLen m
      have h4 : (2 : ℚ) ^ (bitLen m : Int) * 2 ^ e ≤ 1 := by
        rw [← zpow_add₀ (by norm_num : (2 : ℚ) ≠ 0)]
        exact zpow_le_one_of_nonpos₀ (by norm_num) hsc
      have h5 : (0 : ℚ) < 2 ^ e := by positivity
      nlinarith
    have hT : T = 0 := by
      have : (T : ℚ) < 1 := lt_of_le_of_lt h1 hlt
      have : T < 1 := by exact_mod_cast this
      omega
    subst hT; simp
  · simp only [hsc, if_false]
    have key : (if e ≥ 0 then m * 2 ^ e.toNat else m / 2 ^ (-e).toNat) = T := by
      by_cases he : e ≥ 0
      · simp only [he, if_true]
        obtain ⟨k, rfl⟩ := Int.eq_ofNat_of_zero_le he
        simp only [Int.toNat_natCast]
        unfold mag at h1 h2
        rw [zpow_natCast] at h1 h2
        have a1 : T ≤ m * 2 ^ k := by exact_mod_cast h1
        have a2 : m * 2 ^ k < T + 1 := by exact_mod_cast h2
        omega
      · simp only [he, if_false]
        have hneg : e < 0 := by omega
        obtain ⟨k, hk⟩ := Int.eq_ofNat_of_zero_le (by omega : 0 ≤ -e)
        have hek : e = -(k : Int) := by omega
        subst hek
        simp only [neg_neg, Int.toNat_natCast]
        unfold mag at h1 h2
        rw [zpow_neg, zpow_natCast] at h1 h2
        have hK : (0 : ℚ) < 2 ^ k := by positivity
        have a1 : (T : ℚ) * 2 ^ k ≤ m := by
          have := mul_le_mul_of_nonneg_right h1 (le_of_lt hK)
          rwa [mul_assoc, inv_mul_cancel₀ (ne_of_gt hK), mul_one] at this
        have a2 : (m : ℚ) < (T + 1) * 2 ^ k := by
          have := mul_lt_mul_of_pos_right h2 hK
          rwa [mul_assoc, inv_mul_cancel₀ (ne_of_gt hK), mul_one] at this
        have b1 : T * 2 ^ k ≤ m := by exact_mod_cast a1
        have b2 : m < (T + 1) * 2 ^ k := by exact_mod_cast a2
        exact Nat.div_eq_of_lt_le b1 b2
    rw [key]

/-! ### two roundings followed by truncation -/

/-- If `x` lies between the exact quotient `A/F` and that quotient inflated by two
    relative errors `1/(2P)`, and `A ≤ P - 1`, then truncating `x` gives `⌊A/F⌋`. -/
theorem trunc_stable_gen (A F : Nat) (x P : ℚ) (hF : 0 < F) (hA : (A : ℚ) ≤ P - 1)
    (h1 : (A : ℚ) / F ≤ x) (h2 : x < (A : ℚ) / F * (1 + 1 / (2 * P)) * (1 + 1 / (2 * P))) :
    ((A / F : ℕ) : ℚ) ≤ x ∧ x < ((A / F : ℕ) : ℚ) + 1 := by
  have hFQ : (0 : ℚ) < F := by exact_mod_cast hF
  have hdm := Nat.div_add_mod A F
  have hr : A % F < F := Nat.mod_lt _ hF
  have hdmQ : (F : ℚ) * ((A / F : ℕ) : ℚ) + ((A % F : ℕ) : ℚ) = A := by exact_mod_cast hdm
  have hrQ : ((A % F : ℕ) : ℚ) + 1 ≤ F := by exact_mod_cast hr
  have hr0 : (0 : ℚ) ≤ ((A % F : ℕ) : ℚ) := by positivity
  constructor
  · refine le_trans ?_ h1
    rw [le_div_iff₀ hFQ]; nlinarith
  · have hA0 : (0 : ℚ) ≤ A := by positivity
    have hPpos : (0 : ℚ) < P := by linarith
    have e1 : (A : ℚ) * ((1 + 1 / (2 * P)) * (1 + 1 / (2 * P)) - 1) < 1 := by
      have : (A : ℚ) * ((1 + 1 / (2 * P)) * (1 + 1 / (2 * P)) - 1) = (A : ℚ) * (4 * P + 1) / (4 * P ^ 2) := by
        field_simp; ring
      rw [this, div_lt_one (by positivity)]
      nlinarith
    have e2 : (A : ℚ) / F * (1 + 1 / (2 * P)) * (1 + 1 / (2 * P))
        = (A : ℚ) / F + (A : ℚ) * ((1 + 1 / (2 * P)) * (1 + 1 / (2 * P)) - 1) / F := by ring
    rw [e2] at h2
    have e3 : (A : ℚ) * ((1 + 1 / (2 * P)) * (1 + 1 / (2 * P)) - 1) / F < 1 / F :=
      div_lt_div_of_pos_right e1 hFQ
    have e4 : (A : ℚ) / F + 1 / F ≤ ((A / F : ℕ) : ℚ) + 1 := by
      rw [← add_div, div_le_iff₀ hFQ]; nlinarith
    linarith

/-- Reduce `M·10^d / 10^f` to lowest powers of ten: numerator `M·10^(d-f)`,
    denominator `10^(f-d)` (truncated subtraction). -/
theorem scale_reduce (M d f : Nat) :
    (M * 10 ^ d) / 10 ^ f = (M * 10 ^ (d - f)) / 10 ^ (f - d) ∧
    (M : ℚ) / 10 ^ f * ((10 ^ d : ℕ) : ℚ) = ((M * 10 ^ (d - f) : ℕ) : ℚ) / ((10 ^ (f - d) : ℕ) : ℚ) := by
  rcases Nat.le_total d f with h | h
  · obtain ⟨k, rfl⟩ := Nat.exists_eq_add_of_le h
    have h1 : d - (d + k) = 0 := by omega
    have h2 : d + k - d = k := by omega
    rw [h1, h2]
    constructor
    · rw [Nat.pow_add, pow_zero, mul_one, Nat.mul_comm (10 ^ d) (10 ^ k),
        Nat.mul_div_mul_right _ _ (by positivity)]
    · push_cast
      rw [pow_add]
      field_simp
  · obtain ⟨k, rfl⟩ := Nat.exists_eq_add_of_le h
    have h1 : f - (f + k) = 0 := by omega
    have h2 : f + k - f = k := by omega
    rw [h1, h2]
    constructor
    · rw [Nat.pow_add, pow_zero, Nat.div_one, ← mul_assoc, mul_comm M, mul_assoc,
        Nat.mul_div_cancel_left _ (by positivity)]
    · push_cast
      rw [pow_add]
      field_simp

theorem lt_mul_one_add {x E : ℚ} (hx : 0 < x) (hE : 0 < E) : x < x * (1 + E) := by nlinarith

/-- `pow5` is exact as long as `5^n` fits the 576-bit helper float, i.e. for `n ≤ 248`
    (`5^248 < 2^576 < 5^249`): the table for `n ≤ 27`, beyond it the square-and-multiply
    loop never has to round. A finite table of 249 entries, evaluated by the kernel. -/
theorem pow5_exact : ∀ n < 249, pow5 n = BF.fin false (5 ^ n) 0 := by decide +kernel

/-- What `Float.scan` builds for a non-zero decimal mantissa `M` with `f` fractional
    digits and no exponent part. -/
def plainFloat (neg : Bool) (M f : Nat) : BF :=
  if f = 0 then finish neg .away prec M 0 false
  else quo .away prec (.fin neg M (-(f : Int))) (pow5 f)

/-- Core arithmetic fact behind C18: parse (one rounded division by `5^f`),
    multiply by `10^d` (rounded again), truncate — the result is exactly
    `⌊M·10^d / 10^f⌋` whenever `M·10^(d-f) < 2^510`. -/
theorem plain_scaled (neg : Bool) (M f d : Nat) (hM : 0 < M) (hf : f ≤ 248)
    (hbound : M * 10 ^ (d - f) < 2 ^ 510) :
    ∃ m e, mul .away prec (plainFloat neg M f) (baseFloat (d : Int)) = .fin neg m e ∧
      toInt (.fin neg m e) =
        if neg then -((M * 10 ^ d / 10 ^ f : ℕ) : Int) else ((M * 10 ^ d / 10 ^ f : ℕ) : Int) := by
  -- sizes
  have hpowpos : 0 < 10 ^ (d - f) := by positivity
  have hMlt : M < 2 ^ 510 := lt_of_le_of_lt (Nat.le_mul_of_pos_right _ hpowpos) hbound
  have hMbits : bitLen M ≤ 510 := bitLen_le_of_lt hMlt
  have hdf : d - f < 510 := by
    have h1 : 10 ^ (d - f) < 2 ^ 510 :=
      lt_of_le_of_lt (Nat.le_mul_of_pos_left _ hM) hbound
    have h2 : 2 ^ (d - f) ≤ 10 ^ (d - f) := Nat.pow_le_pow_left (by norm_num) _
    exact (Nat.pow_lt_pow_iff_right (by norm_num : 1 < 2)).mp (lt_of_le_of_lt h2 h1)
  have hd : d < 800 := by omega
  have hbase : baseFloat (d : Int) = .fin false (10 ^ d) 0 := by
    unfold baseFloat; rw [Int.toNat_natCast]
  have hbbits : bitLen (10 ^ d) ≤ 4 * d + 1 := bitLen_pow_le 10 4 d (by norm_num)
  have hp1 : 1 ≤ prec := by norm_num [prec]
  -- step 1: the parsed float z ∈ [M/10^f, M/10^f·(1+E))
  have hz : ∃ mz ez, plainFloat neg M f = .fin neg mz ez ∧ 0 < mz ∧
      (M : ℚ) / 10 ^ f ≤ mag mz ez ∧ mag mz ez < (M : ℚ) / 10 ^ f * (1 + 1 / 2 ^ (prec - 1)) ∧
      bitLen mz ≤ 2000 ∧ -2000 ≤ ez ∧ ez ≤ 2000 := by
    unfold plainFloat
    by_cases hf0 : f = 0
    · subst hf0
      rw [if_pos rfl, finish_fin_of_small neg .away prec M 0 false hp1 (by omega) (by omega) (by omega)
        (by omega), roundMant_fits .away false (by unfold prec; omega)]
      have hmag : mag M (0 + ((0 : ℕ) : Int)) = M := by unfold mag; simp
      have hMQ : (0 : ℚ) < M := by exact_mod_cast hM
      have hE : (0 : ℚ) < 1 / 2 ^ (prec - 1) := by positivity
      refine ⟨M, _, rfl, hM, ?_, ?_, by omega, by simp, by simp⟩
      · rw [hmag]; simp
      · rw [hmag]; simp only [pow_zero, div_one]
        exact lt_mul_one_add hMQ hE
    · rw [if_neg hf0]
      have hp5 : pow5 f = .fin false (5 ^ f) 0 := pow5_exact f (by omega)
      rw [hp5]
      have h5bits : bitLen (5 ^ f) ≤ 3 * f + 1 := bitLen_pow_le 5 3 f (by norm_num)
      obtain ⟨m', e', h, hpos, s1, s2, b1, b2, b3⟩ := quo_away_spec prec neg M (5 ^ f) (-(f : Int)) hp1
        (by norm_num [prec]) hM (by positivity) (by omega) (by omega) (by omega) (by omega)
      have hval : mag M (-(f : Int)) / ((5 ^ f : ℕ) : ℚ) = (M : ℚ) / 10 ^ f := by
        unfold mag
        have h10 : (10 : ℚ) ^ f = 2 ^ f * 5 ^ f := by rw [← mul_pow]; norm_num
        rw [zpow_neg, zpow_natCast, h10]
        push_cast
        field_simp
      rw [hval] at s1 s2
      have hprec : prec = 512 := rfl
      refine ⟨m', e', h, hpos, s1, s2, by omega, by omega, by omega⟩
  obtain ⟨mz, ez, hzeq, hmz, z1, z2, zb, ze1, ze2⟩ := hz
  -- step 2: multiply by 10^d
  rw [hzeq, hbase]
  obtain ⟨mw, ew, hw, hmw, w1, w2⟩ := mul_away_spec prec neg mz (10 ^ d) ez hp1 hmz (by positivity)
    (by omega) (by omega) (by omega) (by omega)
  refine ⟨mw, ew, hw, ?_⟩
  -- step 3: truncation is stable
  obtain ⟨r1, r2⟩ := scale_reduce M d f
  have hPE : (2 : ℚ) ^ (prec - 1) = 2 * 2 ^ 510 := by
    show (2 : ℚ) ^ 511 = 2 * 2 ^ 510
    rw [pow_succ, mul_comm]
  rw [hPE] at z2 w2
  have hA : ((M * 10 ^ (d - f) : ℕ) : ℚ) ≤ 2 ^ 510 - 1 := by
    have h1 : M * 10 ^ (d - f) + 1 ≤ 2 ^ 510 := hbound
    have h2 : ((M * 10 ^ (d - f) + 1 : ℕ) : ℚ) ≤ ((2 ^ 510 : ℕ) : ℚ) := Nat.cast_le.mpr h1
    rw [Nat.cast_add, Nat.cast_one, Nat.cast_pow, Nat.cast_ofNat] at h2
    linarith
  have h10pos : (0 : ℚ) < ((10 ^ d : ℕ) : ℚ) := by positivity
  have hEpos : (0 : ℚ) < 1 + 1 / (2 * 2 ^ 510) := by positivity
  have x1 : ((M * 10 ^ (d - f) : ℕ) : ℚ) / ((10 ^ (f - d) : ℕ) : ℚ) ≤ mag mw ew := by
    rw [← r2]
    exact le_trans (mul_le_mul_of_nonneg_right z1 (le_of_lt h10pos)) w1
  have x2 : mag mw ew < ((M * 10 ^ (d - f) : ℕ) : ℚ) / ((10 ^ (f - d) : ℕ) : ℚ)
      * (1 + 1 / (2 * 2 ^ 510)) * (1 + 1 / (2 * 2 ^ 510)) := by
    rw [← r2]
    calc mag mw ew < mag mz ez * ((10 ^ d : ℕ) : ℚ) * (1 + 1 / (2 * 2 ^ 510)) := w2
      _ ≤ (M : ℚ) / 10 ^ f * (1 + 1 / (2 * 2 ^ 510)) * ((10 ^ d : ℕ) : ℚ) * (1 + 1 / (2 * 2 ^ 510)) := by
          apply mul_le_mul_of_nonneg_right _ (le_of_lt hEpos)
          exact mul_le_mul_of_nonneg_right (le_of_lt z2) (le_of_lt h10pos)
      _ = _ := by ring
  obtain ⟨t1, t2⟩ := trunc_stable_gen (M * 10 ^ (d - f)) (10 ^ (f - d)) (mag mw ew) (2 ^ 510)
    (by positivity) hA x1 x2
  rw [r1]
  exact toInt_fin_of_bounds neg mw ew _ hmw t1 t2

end Rangers.Decimal

