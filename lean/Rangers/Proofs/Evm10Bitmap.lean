import Rangers.Model.Evm10Ops
/-!
C10 — `codeBitmap` (analysis.go) marks exactly the PUSH-data positions.

Specification side: `Boundary code p` — p is an instruction start when the code is decoded
from position 0 skipping PUSH data (Yellow Paper 9.4.3, the function N); `InPushData code i` —
i lies in the data bytes of the PUSH instruction at some instruction start.
-/
namespace Rangers.Proofs.Evm10
open Rangers Rangers.Model.Evm10 Rangers.Model.Evm10.Bitvec

/-- number of PUSH-data bytes that follow opcode byte `b` (0 if `b` is not PUSH1..PUSH32) -/
def pushLen (b : UInt8) : Nat := if isPush b then b.toNat - 0x5f else 0

/-- instruction starts reached by decoding the code from 0 -/
inductive Boundary (code : Bytes) : Nat → Prop
  | zero : Boundary code 0
  | step {p : Nat} : Boundary code p → p < code.length →
      Boundary code (p + 1 + pushLen (code.getD p 0))

/-- position `i` lies inside the data bytes of some PUSH instruction -/
def InPushData (code : Bytes) (i : Nat) : Prop :=
  ∃ p, Boundary code p ∧ p < code.length ∧ p < i ∧ i ≤ p + pushLen (code.getD p 0)

/-- the bit of position `pos` (set = PUSH data) -/
def bitAt (bits : Bytes) (pos : Nat) : Bool := !(codeSegment bits pos)

/-! ### byte-level facts -/

theorem u8_and_or_distrib (a m n : UInt8) : (a ||| m) &&& n = (a &&& n) ||| (m &&& n) := by
  apply UInt8.toBitVec_inj.1
  simp only [UInt8.toBitVec_and, UInt8.toBitVec_or]
  exact BitVec.and_or_distrib_right

theorem u8_or_and_eq_zero (a m n : UInt8) :
    (((a ||| m) &&& n) == 0) = (((a &&& n) == 0) && ((m &&& n) == 0)) := by
  rw [u8_and_or_distrib]
  rw [Bool.eq_iff_iff]
  simp only [beq_iff_eq, Bool.and_eq_true, UInt8.or_eq_zero_iff]

theorem sh80_sh80 : ∀ k j : Fin 8, ((sh 0x80 k.val &&& sh 0x80 j.val) == 0) = !(decide (k = j)) := by
  decide
theorem shFF_sh80 : ∀ k j : Fin 8, ((sh 0xFF k.val &&& sh 0x80 j.val) == 0) = !(decide (k ≤ j)) := by
  decide
theorem nshFF_sh80 : ∀ k j : Fin 8, ((~~~ (sh 0xFF k.val) &&& sh 0x80 j.val) == 0) = !(decide (j < k)) := by
  decide

theorem sh_mod (x : UInt8) (pos : Nat) : sh x pos = sh x (pos % 8) := by
  simp [sh]

theorem sh80_sh80' (p j : Nat) : ((sh 0x80 p &&& sh 0x80 j) == 0) = !(decide (p % 8 = j % 8)) := by
  rw [sh_mod _ p, sh_mod _ j]
  have := sh80_sh80 ⟨p % 8, Nat.mod_lt _ (by omega)⟩ ⟨j % 8, Nat.mod_lt _ (by omega)⟩
  simpa [Fin.ext_iff] using this
theorem shFF_sh80' (p j : Nat) : ((sh 0xFF p &&& sh 0x80 j) == 0) = !(decide (p % 8 ≤ j % 8)) := by
  rw [sh_mod _ p, sh_mod _ j]
  have := shFF_sh80 ⟨p % 8, Nat.mod_lt _ (by omega)⟩ ⟨j % 8, Nat.mod_lt _ (by omega)⟩
  simpa [Fin.le_def] using this
theorem nshFF_sh80' (p j : Nat) : ((~~~ (sh 0xFF p) &&& sh 0x80 j) == 0) = !(decide (j % 8 < p % 8)) := by
  rw [sh_mod _ p, sh_mod _ j]
  have := nshFF_sh80 ⟨p % 8, Nat.mod_lt _ (by omega)⟩ ⟨j % 8, Nat.mod_lt _ (by omega)⟩
  simpa [Fin.lt_def] using this

/-! ### modifyAt -/

theorem modifyAt_length (l : Bytes) (i : Nat) (f : UInt8 → UInt8) : (modifyAt l i f).length = l.length := by
  induction l generalizing i with
  | nil => simp [modifyAt]
  | cons b bs ih => cases i <;> simp [modifyAt, ih]

theorem modifyAt_getD (l : Bytes) (i j : Nat) (f : UInt8 → UInt8) (hi : i < l.length) :
    (modifyAt l i f).getD j 0 = if j = i then f (l.getD i 0) else l.getD j 0 := by
  induction l generalizing i j with
  | nil => simp at hi
  | cons b bs ih =>
    cases i with
    | zero => cases j <;> simp [modifyAt]
    | succ i =>
      cases j with
      | zero => simp [modifyAt]
      | succ j =>
        simp only [modifyAt, List.getD_cons_succ]
        have := ih i j (by simpa using hi)
        simpa using this

/-! ### set / set8 at bit level -/

theorem set_length (bits : Bytes) (pos : Nat) : (Bitvec.set bits pos).length = bits.length := by
  simp [Bitvec.set, modifyAt_length]

theorem set8_length (bits : Bytes) (pos : Nat) : (set8 bits pos).length = bits.length := by
  simp [set8, modifyAt_length]

theorem bitAt_set (bits : Bytes) (pos j : Nat) (h : pos / 8 < bits.length) :
    bitAt (Bitvec.set bits pos) j = (bitAt bits j || decide (j = pos)) := by
  unfold bitAt codeSegment Bitvec.set
  rw [modifyAt_getD _ _ _ _ h]
  by_cases hb : j / 8 = pos / 8
  · simp only [hb, if_true]
    rw [u8_or_and_eq_zero, sh80_sh80']
    have : (pos % 8 = j % 8) ↔ j = pos := by omega
    by_cases hj : j = pos <;> simp [hj, this] <;> simp_all
  · have hj : j ≠ pos := by intro e; apply hb; rw [e]
    simp [hb, hj]

theorem bitAt_set8 (bits : Bytes) (pos j : Nat) (h : pos / 8 + 1 < bits.length) :
    bitAt (set8 bits pos) j = (bitAt bits j || decide (pos ≤ j ∧ j < pos + 8)) := by
  unfold bitAt codeSegment set8
  have h0 : pos / 8 < bits.length := by omega
  rw [modifyAt_getD _ _ _ _ (by rw [modifyAt_length]; exact h)]
  rw [modifyAt_getD _ _ _ _ h0, modifyAt_getD _ _ _ _ h0]
  by_cases hb1 : j / 8 = pos / 8 + 1
  · have hne : ¬ (pos / 8 + 1 = pos / 8) := by omega
    simp only [hb1, if_true, hne, if_false]
    rw [u8_or_and_eq_zero, nshFF_sh80']
    have : (j % 8 < pos % 8) ↔ (pos ≤ j ∧ j < pos + 8) := by omega
    by_cases hr : pos ≤ j ∧ j < pos + 8 <;> simp [hr, this] <;> simp_all
  · simp only [hb1, if_false]
    by_cases hb : j / 8 = pos / 8
    · simp only [hb, if_true]
      rw [u8_or_and_eq_zero, shFF_sh80']
      have : (pos % 8 ≤ j % 8) ↔ (pos ≤ j ∧ j < pos + 8) := by omega
      by_cases hr : pos ≤ j ∧ j < pos + 8 <;> simp [hr, this] <;> simp_all
    · have hr : ¬ (pos ≤ j ∧ j < pos + 8) := by omega
      simp [hb, hr]

/-! ### the two inner loops -/

theorem mark1_spec (r : Nat) : ∀ (bits : Bytes) (pc : Nat), (pc + r) / 8 < bits.length →
    (mark1 r bits pc).2 = pc + r ∧ (mark1 r bits pc).1.length = bits.length ∧
    ∀ j, bitAt (mark1 r bits pc).1 j = (bitAt bits j || decide (pc ≤ j ∧ j < pc + r)) := by
  induction r with
  | zero =>
    intro bits pc _
    refine ⟨rfl, rfl, ?_⟩
    intro j
    simp only [mark1]
    have : decide (pc ≤ j ∧ j < pc + 0) = false := by
      simp only [decide_eq_false_iff_not]; omega
    rw [this, Bool.or_false]
  | succ r ih =>
    intro bits pc h
    have hs : pc / 8 < bits.length := by
      have : pc / 8 ≤ (pc + (r + 1)) / 8 := Nat.div_le_div_right (by omega)
      omega
    have h' : (pc + 1 + r) / 8 < (Bitvec.set bits pc).length := by
      rw [set_length]; have : pc + 1 + r = pc + (r + 1) := by omega
      rw [this]; exact h
    obtain ⟨e1, e2, e3⟩ := ih (Bitvec.set bits pc) (pc + 1) h'
    refine ⟨?_, ?_, ?_⟩
    · simp only [mark1]; rw [e1]; omega
    · simp only [mark1]; rw [e2, set_length]
    · intro j
      simp only [mark1]
      rw [e3 j, bitAt_set _ _ _ hs]
      by_cases a : j = pc
      · subst a
        have : (j ≤ j ∧ j < j + (r + 1)) := by omega
        simp [this]
      · have : (pc + 1 ≤ j ∧ j < pc + 1 + r) ↔ (pc ≤ j ∧ j < pc + (r + 1)) := by omega
        simp [a, this]

theorem mark8_spec (q : Nat) : ∀ (bits : Bytes) (pc : Nat), (pc + 8 * q) / 8 < bits.length →
    (mark8 q bits pc).2 = pc + 8 * q ∧ (mark8 q bits pc).1.length = bits.length ∧
    ∀ j, bitAt (mark8 q bits pc).1 j = (bitAt bits j || decide (pc ≤ j ∧ j < pc + 8 * q)) := by
  induction q with
  | zero =>
    intro bits pc _
    refine ⟨rfl, rfl, ?_⟩
    intro j
    simp only [mark8]
    have : decide (pc ≤ j ∧ j < pc + 8 * 0) = false := by
      simp only [decide_eq_false_iff_not]; omega
    rw [this, Bool.or_false]
  | succ q ih =>
    intro bits pc h
    have hs : pc / 8 + 1 < bits.length := by
      have : pc / 8 + 1 ≤ (pc + 8 * (q + 1)) / 8 := by omega
      omega
    have h' : (pc + 8 + 8 * q) / 8 < (set8 bits pc).length := by
      rw [set8_length]; have : pc + 8 + 8 * q = pc + 8 * (q + 1) := by omega
      rw [this]; exact h
    obtain ⟨e1, e2, e3⟩ := ih (set8 bits pc) (pc + 8) h'
    refine ⟨?_, ?_, ?_⟩
    · simp only [mark8]; rw [e1]; omega
    · simp only [mark8]; rw [e2, set8_length]
    · intro j
      simp only [mark8]
      rw [e3 j, bitAt_set8 _ _ _ hs]
      by_cases a : pc ≤ j ∧ j < pc + 8
      · have : (pc ≤ j ∧ j < pc + 8 * (q + 1)) := by omega
        simp [a, this]
      · have : (pc + 8 ≤ j ∧ j < pc + 8 + 8 * q) ↔ (pc ≤ j ∧ j < pc + 8 * (q + 1)) := by omega
        simp [a, this]


/-! ### the outer loop -/

/-- `j` lies in the PUSH data of an instruction that starts below `P` -/
def Covered (code : Bytes) (P j : Nat) : Prop :=
  ∃ p, Boundary code p ∧ p < P ∧ p < code.length ∧ p < j ∧ j ≤ p + pushLen (code.getD p 0)

/-- no instruction starting below `pc` extends beyond `pc` -/
def NoStraddle (code : Bytes) (pc : Nat) : Prop :=
  ∀ q, Boundary code q → q < pc → q < code.length → q + 1 + pushLen (code.getD q 0) ≤ pc

theorem boundary_dichotomy (code : Bytes) (pc : Nat) (hb : Boundary code pc) (hpc : pc < code.length)
    (hn : NoStraddle code pc) :
    ∀ q, Boundary code q → q ≤ pc ∨ pc + 1 + pushLen (code.getD pc 0) ≤ q := by
  intro q hq
  induction hq with
  | zero => left; omega
  | @step r hr hrl ih =>
    rcases ih with h | h
    · by_cases e : r = pc
      · subst e; right; omega
      · left; exact hn r hr (by omega) hrl
    · right; omega

theorem noStraddle_next (code : Bytes) (pc : Nat) (hb : Boundary code pc) (hpc : pc < code.length)
    (hn : NoStraddle code pc) : NoStraddle code (pc + 1 + pushLen (code.getD pc 0)) := by
  intro q hq hlt hql
  rcases boundary_dichotomy code pc hb hpc hn q hq with h | h
  · by_cases e : q = pc
    · subst e; omega
    · have := hn q hq (by omega) hql; omega
  · omega

theorem covered_next (code : Bytes) (pc : Nat) (hb : Boundary code pc) (hpc : pc < code.length)
    (hn : NoStraddle code pc) (j : Nat) :
    Covered code (pc + 1 + pushLen (code.getD pc 0)) j ↔
      (Covered code pc j ∨ (pc < j ∧ j ≤ pc + pushLen (code.getD pc 0))) := by
  constructor
  · rintro ⟨p, hp, hlt, hpl, h1, h2⟩
    rcases boundary_dichotomy code pc hb hpc hn p hp with h | h
    · by_cases e : p = pc
      · subst e; right; exact ⟨h1, h2⟩
      · left; exact ⟨p, hp, by omega, hpl, h1, h2⟩
    · omega
  · rintro (⟨p, hp, hlt, hpl, h1, h2⟩ | ⟨h1, h2⟩)
    · exact ⟨p, hp, by omega, hpl, h1, h2⟩
    · exact ⟨pc, hb, by omega, hpc, h1, h2⟩

theorem bitAt_replicate (n j : Nat) : bitAt (List.replicate n (0 : UInt8)) j = false := by
  unfold bitAt codeSegment
  have : (List.replicate n (0 : UInt8)).getD (j / 8) 0 = 0 := by
    simp only [List.getD_eq_getElem?_getD, List.getElem?_replicate]
    split <;> rfl
  rw [this]
  simp

theorem isPush_toNat (b : UInt8) (h : isPush b = true) : 0x60 ≤ b.toNat ∧ b.toNat ≤ 0x7f := by
  simpa [isPush] using h

theorem loop_spec (code : Bytes) (L : Nat) (hL : L = code.length / 8 + 1 + 4) :
    ∀ (fuel pc : Nat) (bits : Bytes), bits.length = L → Boundary code pc → NoStraddle code pc →
      pc ≤ code.length + 32 → code.length ≤ fuel + pc →
      (∀ j, bitAt bits j = true ↔ Covered code pc j) →
      ∀ j, bitAt (loop fuel code pc bits) j = true ↔ InPushData code j := by
  intro fuel
  induction fuel with
  | zero =>
    intro pc bits _ _ _ _ hf hinv j
    simp only [loop]
    rw [hinv j]
    constructor
    · rintro ⟨p, hp, _, hpl, h1, h2⟩; exact ⟨p, hp, hpl, h1, h2⟩
    · rintro ⟨p, hp, hpl, h1, h2⟩; exact ⟨p, hp, by omega, hpl, h1, h2⟩
  | succ fuel ih =>
    intro pc bits hbl hb hn hle hf hinv j
    unfold loop
    by_cases hpc : pc < code.length
    · simp only [hpc, if_true]
      by_cases hp : isPush (code.getD pc 0) = true
      · simp only [hp, if_true]
        obtain ⟨hlo, hhi⟩ := isPush_toNat _ hp
        have hnb : (code.getD pc 0).toNat - 0x60 + 1 = pushLen (code.getD pc 0) := by
          simp only [pushLen, hp, if_true]; omega
        rw [hnb]
        generalize hnbv : pushLen (code.getD pc 0) = nb at *
        have hnb32 : nb ≤ 32 := by omega
        have hm8 := mark8_spec (nb / 8) bits (pc + 1) (by rw [hbl, hL]; omega)
        obtain ⟨a1, a2, a3⟩ := hm8
        have hm1 := mark1_spec (nb % 8) (mark8 (nb / 8) bits (pc + 1)).1 (mark8 (nb / 8) bits (pc + 1)).2
          (by rw [a1, a2, hbl, hL]; omega)
        obtain ⟨b1, b2, b3⟩ := hm1
        have hnext : (mark1 (nb % 8) (mark8 (nb / 8) bits (pc + 1)).1 (mark8 (nb / 8) bits (pc + 1)).2).2
            = pc + 1 + nb := by rw [b1, a1]; omega
        have hB : Boundary code (pc + 1 + nb) := by
          have := Boundary.step hb hpc; rwa [hnbv] at this
        have hN : NoStraddle code (pc + 1 + nb) := by
          have := noStraddle_next code pc hb hpc hn; rwa [hnbv] at this
        have hcov := covered_next code pc hb hpc hn
        rw [hnbv] at hcov
        show bitAt (loop fuel code
            (mark1 (nb % 8) (mark8 (nb / 8) bits (pc + 1)).1 (mark8 (nb / 8) bits (pc + 1)).2).2
            (mark1 (nb % 8) (mark8 (nb / 8) bits (pc + 1)).1 (mark8 (nb / 8) bits (pc + 1)).2).1) j = true ↔ _
        rw [hnext]
        apply ih (pc + 1 + nb) _ (by rw [b2, a2, hbl]) hB hN (by omega) (by omega)
        intro k
        rw [b3 k, a3 k, hcov k, a1]
        simp only [Bool.or_eq_true, decide_eq_true_eq]
        rw [hinv k]
        constructor
        · rintro ((h | h) | h)
          · exact Or.inl h
          · right; omega
          · right; omega
        · rintro (h | h)
          · exact Or.inl (Or.inl h)
          · by_cases hk : k < pc + 1 + 8 * (nb / 8)
            · left; right; omega
            · right; omega
      · have hp' : isPush (code.getD pc 0) = false := by
          cases h : isPush (code.getD pc 0)
          · rfl
          · exact absurd h hp
        simp only [hp', Bool.false_eq_true, if_false]
        have hpl : pushLen (code.getD pc 0) = 0 := by
          simp only [pushLen, hp', Bool.false_eq_true, if_false]
        have hB : Boundary code (pc + 1) := by
          have := Boundary.step hb hpc; rwa [hpl] at this
        have hN : NoStraddle code (pc + 1) := by
          have := noStraddle_next code pc hb hpc hn; rwa [hpl] at this
        have hcov := covered_next code pc hb hpc hn
        rw [hpl] at hcov
        apply ih (pc + 1) bits hbl hB hN (by omega) (by omega)
        intro k
        rw [hcov k, hinv k]
        constructor
        · intro h; exact Or.inl h
        · rintro (h | h)
          · exact h
          · omega
    · simp only [hpc, if_false]
      rw [hinv j]
      constructor
      · rintro ⟨p, hp, _, hpl, h1, h2⟩; exact ⟨p, hp, hpl, h1, h2⟩
      · rintro ⟨p, hp, hpl, h1, h2⟩; exact ⟨p, hp, by omega, hpl, h1, h2⟩

/-- `codeBitmap` marks exactly the PUSH-data positions. -/
theorem bitAt_codeBitmap (code : Bytes) (j : Nat) :
    bitAt (codeBitmap code) j = true ↔ InPushData code j := by
  unfold codeBitmap
  apply loop_spec code (code.length / 8 + 1 + 4) rfl code.length 0 _ (by simp) Boundary.zero
  · intro q _ h; omega
  · omega
  · omega
  · intro k
    rw [bitAt_replicate]
    constructor
    · intro h; exact absurd h (by simp)
    · rintro ⟨p, _, h, _⟩; omega

theorem codeSegment_codeBitmap (code : Bytes) (i : Nat) :
    codeSegment (codeBitmap code) i = true ↔ ¬ InPushData code i := by
  rw [← bitAt_codeBitmap]
  unfold bitAt
  cases codeSegment (codeBitmap code) i <;> simp

end Rangers.Proofs.Evm10
