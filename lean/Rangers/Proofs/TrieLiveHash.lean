import Rangers.Proofs.TrieLiveDelete
/- `hasher.hash` / `store` on live tries: the reference equals the loaded model's, flags stay truthful, the store stays sound (no-collision hypothesis). -/
namespace Rangers.Trie
open Rangers

/-! ### the RLP of the collapsed node is the node encoding of the loaded model -/

theorem encCL_map (f : Node → CNode) (xs : List Node) :
    encC.encCL (xs.map f) = xs.flatMap (fun x => encC (f x)) := by
  induction xs with
  | nil => rfl
  | cons x xs ih => simp [encC.encCL, ih]

theorem encC_collapse (H : Bytes → Bytes) (t : Node) :
    WF t → encC (collapse H t) = enc H t ∧ encC (refOf H t) = embedOrHash H (enc H t) := by
  induction t using Node.induct with
  | hnil => intro h; exact absurd h not_WF_nil
  | hval b => intro h; exact absurd h (not_WF_value b)
  | hshort kk v ih =>
    intro hwf
    have hA : encC (collapse H (.short kk v)) = enc H (.short kk v) := by
      rcases (WF_short_iff kk v).mp hwf with ⟨b, rfl, hkk, hb⟩ | ⟨cs, rfl, hne, hnib, hfull⟩
      · rw [collapse_leaf, enc_leaf]; simp [encC]
      · rw [collapse_ext, enc_ext]; simp [encC, (ih hfull).2]
    refine ⟨hA, ?_⟩
    rw [refOf_of_ne_nil H _ (by simp)]
    unfold embedOrHash
    split
    · exact hA
    · simp [encC]
  | hfull cs ih =>
    intro hwf
    obtain ⟨hlen, hslots, hcnt⟩ := (WF_full_iff cs).mp hwf
    have hA : encC (collapse H (.full cs)) = enc H (.full cs) := by
      rw [collapse_full H cs hlen, enc_full H cs hlen]
      simp only [encC, encCL_map]
      congr 1
      congr 1
      · -- the sixteen hashed slots
        have hx : ∀ x ∈ cs.take 16, x = .nil ∨ (x ∈ cs ∧ WF x) := by
          intro x hx
          obtain ⟨i, hi, hxi⟩ := List.getElem_of_mem hx
          have hi16 : i < 16 := by simp at hi; omega
          have hxi' : cs[i]?.getD .nil = x := by
            rw [List.getElem_take] at hxi
            simp [List.getElem?_eq_getElem (show i < cs.length by omega), hxi]
          rcases hslots i (by omega) with h | h
          · left; rw [← hxi']; exact h
          · right
            have : ¬ i = 16 := by omega
            simp only [this, if_false, hxi'] at h
            exact ⟨List.mem_of_mem_take hx, h⟩
        have h1 : (cs.take 16).flatMap (fun x => encC (refOf H x)) = (cs.take 16).flatMap (fun x => slotEnc H 0 x) := by
          apply flatMap_congr'
          intro x hxm
          rcases hx x hxm with rfl | ⟨hm, hw⟩
          · simp [refOf, encC, slotEnc]
          · rw [(ih x hm hw).2]
            have : x ≠ .nil := hw.ne_nil
            cases x with
            | nil => exact absurd rfl this
            | _ => simp [slotEnc]
        rw [h1]
        have h2 : cs.take 16 = (List.range 16).map (fun i => cs[i]?.getD .nil) := by
          apply List.ext_getElem
          · simp [hlen]
          · intro i hi1 hi2
            simp only [List.getElem_take, List.getElem_map, List.getElem_range]
            have : i < cs.length := by simp at hi1; omega
            simp [List.getElem?_eq_getElem this]
        rw [h2, List.flatMap_map]
        apply flatMap_congr'
        intro i hi
        have hi16 : i < 16 := by simpa using hi
        unfold slotEnc
        split <;> simp [hi16]
      · rcases hslots 16 (by omega) with h | h
        · rw [h]; simp [slotEnc, valueBytes]
        · simp only [if_true] at h
          obtain ⟨b, hb, hbne⟩ := h
          rw [hb]
          have : b.isEmpty = false := by cases b <;> simp_all
          simp [slotEnc, enc, this, valueBytes, hbne]
    refine ⟨hA, ?_⟩
    rw [refOf_of_ne_nil H _ (by simp)]
    unfold embedOrHash
    split
    · exact hA
    · simp [encC]

/-! ### the node database under the no-collision hypothesis -/

/-- **no collision among the nodes of the universe `U`** (the nodes that occur in the history under
    consideration — a finite set; a global version would be unsatisfiable for a 32-byte hash):
    two minimal-form nodes of `U` whose encodings hash alike collapse alike -/
def NoColl (H : Bytes → Bytes) (U : Node → Prop) : Prop :=
  ∀ a b, U a → U b → WF a → WF b → H (enc H a) = H (enc H b) → collapse H a = collapse H b

/-- whatever the store holds under the hash of a node of `U` is that node's collapsed form -/
def StoreSound (H : Bytes → Bytes) (U : Node → Prop) (st : Store) : Prop :=
  ∀ h c, st.lookup h = some c → ∀ t, U t → WF t → h = H (enc H t) → c = collapse H t

/-- the universe contains the children of its members -/
def ClosedU (U : Node → Prop) : Prop :=
  (∀ k v, U (.short k v) → U v) ∧ (∀ cs, U (.full cs) → ∀ c ∈ cs, U c)

variable {U : Node → Prop}

theorem lookup_append_of_none {st : Store} {h : Bytes} (hn : st.lookup h = none) (x : Bytes) (c : CNode) :
    (st ++ [(h, c)]).lookup x = if x = h then some c else st.lookup x := by
  rw [List.lookup_append]
  by_cases hx : x = h
  · subst hx; simp [hn]
  · have : (x == h) = false := beq_false_of_ne hx
    cases hl : st.lookup x <;> simp [List.lookup_cons, this, hx]

theorem dbInsert_extends (st : Store) (h : Bytes) (c : CNode) : Extends st (dbInsert st h c) := by
  intro x y hxy
  unfold dbInsert
  split
  · exact hxy
  · rename_i hn
    have hn' : st.lookup h = none := by
      cases hl : st.lookup h with
      | none => rfl
      | some c => simp [hl] at hn
    rw [lookup_append_of_none hn']
    by_cases hx : x = h
    · subst hx; rw [hn'] at hxy; cases hxy
    · simp [hx, hxy]

theorem dbInsert_lookup {H : Bytes → Bytes} {st : Store} (hs : StoreSound H U st) {t : Node} (hU : U t) (hwf : WF t) :
    (dbInsert st (H (enc H t)) (collapse H t)).lookup (H (enc H t)) = some (collapse H t) := by
  unfold dbInsert
  split
  · rename_i hsome
    cases hl : st.lookup (H (enc H t)) with
    | none => simp [hl] at hsome
    | some c => rw [hs _ _ hl t hU hwf rfl]
  · rename_i hn
    have hn' : st.lookup (H (enc H t)) = none := by
      cases hl : st.lookup (H (enc H t)) with
      | none => rfl
      | some c => simp [hl] at hn
    rw [lookup_append_of_none hn']; simp

theorem dbInsert_sound {H : Bytes → Bytes} (hnc : NoColl H U) {st : Store} (hs : StoreSound H U st) {t : Node} (hU : U t) (hwf : WF t) :
    StoreSound H U (dbInsert st (H (enc H t)) (collapse H t)) := by
  intro h c hl t' hU' hwf' hh
  unfold dbInsert at hl
  split at hl
  · exact hs h c hl t' hU' hwf' hh
  · rename_i hn
    have hn' : st.lookup (H (enc H t)) = none := by
      cases hl : st.lookup (H (enc H t)) with
      | none => rfl
      | some c => simp [hl] at hn
    rw [lookup_append_of_none hn'] at hl
    by_cases hx : h = H (enc H t)
    · simp only [hx, if_true, Option.some.injEq] at hl
      rw [← hl]
      exact hnc t t' hU hU' hwf hwf' (hx ▸ hh)
    · simp only [hx, if_false] at hl
      exact hs h c hl t' hU' hwf' hh



/-! ### `hasher.store` -/

/-- the entries below (not at) a node -/
def kidsStore (H : Bytes → Bytes) : Node → List (Bytes × CNode)
  | .short _ v => storeOf H false v
  | .full cs => storeOfL H cs
  | _ => []

theorem stored_iff (H : Bytes → Bytes) (st : Store) (t : Node) (hwf : WF t) :
    Stored H st t ↔ (32 ≤ (enc H t).length → st.lookup (H (enc H t)) = some (collapse H t)) ∧
      ∀ e ∈ kidsStore H t, st.lookup e.1 = some e.2 := by
  cases t with
  | nil => exact absurd hwf not_WF_nil
  | value b => exact absurd hwf (not_WF_value b)
  | short k v =>
    simp only [Stored, storeOf, kidsStore, List.mem_append, Bool.false_or]
    constructor
    · intro h
      refine ⟨fun hbig => h (H (enc H (.short k v)), collapse H (.short k v)) (Or.inl (by simp [hbig])), fun e he => h e (Or.inr he)⟩
    · rintro ⟨h1, h2⟩ e (he | he)
      · split at he
        · rename_i hb; simp at hb; simp at he; subst he; exact h1 hb
        · simp at he
      · exact h2 e he
  | full cs =>
    simp only [Stored, storeOf, kidsStore, List.mem_append, Bool.false_or]
    constructor
    · intro h
      refine ⟨fun hbig => h (H (enc H (.full cs)), collapse H (.full cs)) (Or.inl (by simp [hbig])), fun e he => h e (Or.inr he)⟩
    · rintro ⟨h1, h2⟩ e (he | he)
      · split at he
        · rename_i hb; simp at hb; simp at he; subst he; exact h1 hb
        · simp at he
      · exact h2 e he

theorem store_step {H : Bytes → Bytes} (hnc : NoColl H U) {t : Node} (hU : U t) (hwf : WF t) (child withDb : Bool) (fl : Flag)
    {st0 st1 : Store} (hext : Extends st0 st1) (hfl : FlagOK H st0 child fl t) (hs : StoreSound H U st1)
    (hnodb : withDb = false → fl.hash = none)
    (hk : withDb = true → ∀ e ∈ kidsStore H t, st1.lookup e.1 = some e.2) :
    let s := storeL H withDb (!child) fl.hash (collapse H t) st1
    s.1 = (if child then refOf H t else .hashRef (H (enc H t))) ∧
    Extends st1 s.2.2 ∧ StoreSound H U s.2.2 ∧ (withDb = false → s.2.2 = st1) ∧
    FlagOK H s.2.2 child (hashedFlag withDb fl s.2.1) t ∧
    (withDb = true → Stored H s.2.2 t ∧ (child = false → s.2.2.lookup (H (enc H t)) = some (collapse H t))) := by
  have henc := (encC_collapse H t hwf).1
  have hne : t ≠ .nil := hwf.ne_nil
  simp only [storeL, henc, Bool.not_not]
  by_cases hsmall : ((enc H t).length < 32 ∧ child = true)
  · obtain ⟨hsm, hch⟩ := hsmall
    subst hch
    have hcond : (decide ((enc H t).length < 32) && true) = true := by simp [hsm]
    simp only [hcond, if_true]
    refine ⟨by rw [refOf_of_ne_nil H t hne]; simp [hsm], Extends.refl _, hs, by simp, ?_, ?_⟩
    · refine ⟨fun x hx => by simp [hashedFlag] at hx, fun hd => ?_⟩
      simp only [hashedFlag] at hd ⊢
      cases hw : withDb with
      | true =>
        exact ⟨(stored_iff H st1 t hwf).mpr ⟨fun hb => by omega, hk hw⟩, trivial, hsm⟩
      | false =>
        rw [hw] at hd
        simp only [Bool.false_eq_true, if_false] at hd
        have := hfl.2 hd
        exact ⟨this.1.mono hext, trivial, hsm⟩
    · intro hw
      exact ⟨(stored_iff H st1 t hwf).mpr ⟨fun hb => by omega, hk hw⟩, fun h => by cases h⟩
  · have hcond : (decide ((enc H t).length < 32) && child) = false := by
      cases child <;> simp_all
    simp only [hcond, Bool.false_eq_true, if_false]
    have hbig : child = true → 32 ≤ (enc H t).length := by
      intro hc; subst hc
      simp only [and_true, Nat.not_lt] at hsmall; exact hsmall
    have hh : fl.hash.getD (H (enc H t)) = H (enc H t) := by
      cases hf : fl.hash with
      | none => rfl
      | some h0 => exact (hfl.1 h0 hf).1
    rw [hh]
    have hC1 : CNode.hashRef (H (enc H t)) = (if child = true then refOf H t else .hashRef (H (enc H t))) := by
      cases hc : child with
      | false => simp
      | true =>
        have := hbig hc
        rw [refOf_of_ne_nil H t hne]
        have : ¬ (enc H t).length < 32 := by omega
        simp [this]
    cases hw : withDb with
    | false =>
      simp only [Bool.false_eq_true, if_false]
      refine ⟨hC1, Extends.refl _, hs, (by simp), ?_, (by simp)⟩
      refine ⟨fun x hx => ?_, fun hd => ?_⟩
      · simp only [hashedFlag, Option.some.injEq] at hx
        subst hx; exact ⟨rfl, hbig⟩
      · simp only [hashedFlag, Bool.false_eq_true, if_false] at hd
        have h0 := hnodb hw
        have := (hfl.2 hd).2
        rw [h0] at this
        exact absurd this.2 (by have := hbig this.1; omega)
    | true =>
      simp only [if_true]
      have hext2 := dbInsert_extends st1 (H (enc H t)) (collapse H t)
      have hlk := dbInsert_lookup hs hU hwf
      have hst : Stored H (dbInsert st1 (H (enc H t)) (collapse H t)) t :=
        (stored_iff H _ t hwf).mpr ⟨fun _ => hlk, fun e he => hext2 _ _ (hk hw e he)⟩
      refine ⟨hC1, hext2, dbInsert_sound hnc hs hU hwf, (by simp), ?_, fun _ => ⟨hst, fun _ => hlk⟩⟩
      refine ⟨fun x hx => ?_, fun _ => ⟨hst, ?_⟩⟩
      · simp only [hashedFlag, Option.some.injEq] at hx
        subst hx; exact ⟨rfl, hbig⟩
      · simp only [hashedFlag]; exact hlk



/-! ### `hasher.hash` on a live trie -/

/-- what one call of `hasher.hash` on the live node for `t` must deliver -/
def HashSpec (H : Bytes → Bytes) (U : Node → Prop) (st : Store) (withDb child : Bool) (t : Node) (r : CNode × LNode × Store) : Prop :=
  r.1 = (if child then refOf H t else .hashRef (H (enc H t))) ∧
  AbsR H r.2.2 child t r.2.1 ∧ Extends st r.2.2 ∧ StoreSound H U r.2.2 ∧
  (withDb = true → Stored H r.2.2 t ∧ (child = false → r.2.2.lookup (H (enc H t)) = some (collapse H t))) ∧
  (withDb = false → r.2.2 = st)

theorem refOf_big {H : Bytes → Bytes} {t : Node} (hwf : WF t) (hbig : 32 ≤ (enc H t).length) :
    refOf H t = .hashRef (H (enc H t)) := by
  rw [refOf_of_ne_nil H t hwf.ne_nil]
  have : ¬ (enc H t).length < 32 := by omega
  simp [this]

theorem cacheHit_spec {H : Bytes → Bytes} {st : Store} {child : Bool} {t : Node} {l : LNode} {fl : Flag}
    (gen limit : Nat) (withDb : Bool) (hwf : WF t) (hs : StoreSound H U st)
    (hl : AbsL H st child t l) (hfl : FlagOK H st child fl t) :
    (∀ r, cacheHit gen limit withDb fl l st = some r → HashSpec H U st withDb child t r) ∧
    (cacheHit gen limit withDb fl l st = none → withDb = false → fl.hash = none) := by
  unfold cacheHit
  cases hh : fl.hash with
  | none => simp
  | some h =>
    obtain ⟨hheq, hbig⟩ := hfl.1 h hh
    have hC1 : CNode.hashRef h = (if child = true then refOf H t else .hashRef (H (enc H t))) := by
      cases hc : child with
      | false => simp [hheq]
      | true => simp [refOf_big hwf (hbig hc), hheq]
    cases hw : withDb with
    | false =>
      simp only [Bool.not_false, if_true, Option.some.injEq]
      refine ⟨fun r hr => ?_, fun h0 => by cases h0⟩
      subst hr
      exact ⟨hC1, Or.inl hl, Extends.refl _, hs, (fun h0 => by cases h0), fun _ => rfl⟩
    | true =>
      simp only [Bool.not_true, Bool.false_eq_true, if_false]
      refine ⟨fun r hr => ?_, fun _ h0 => by cases h0⟩
      have hclean : fl.dirty = false → Stored H st t ∧ st.lookup h = some (collapse H t) := by
        intro hd
        have := hfl.2 hd
        rw [hh] at this
        exact this
      split at hr
      · rename_i hun
        have hd : fl.dirty = false := by
          unfold canUnload at hun
          cases hdd : fl.dirty <;> simp_all
        simp only [Option.some.injEq] at hr
        subst hr
        obtain ⟨hst, hlk⟩ := hclean hd
        refine ⟨hC1, Or.inr ⟨by rw [hheq], hwf, hbig, hst, hheq ▸ hlk⟩, Extends.refl _, hs,
          fun _ => ⟨hst, fun _ => hheq ▸ hlk⟩, fun h0 => by cases h0⟩
      · split at hr
        · rename_i hnd
          have hd : fl.dirty = false := by simpa using hnd
          simp only [Option.some.injEq] at hr
          subst hr
          obtain ⟨hst, hlk⟩ := hclean hd
          exact ⟨hC1, Or.inl hl, Extends.refl _, hs, fun _ => ⟨hst, fun _ => hheq ▸ hlk⟩, fun h0 => by cases h0⟩
        · cases hr

theorem mem_storeOfL_iff (H : Bytes → Bytes) (cs : List Node) (e : Bytes × CNode) :
    e ∈ storeOfL H cs ↔ ∃ c ∈ cs, e ∈ storeOf H false c := by
  induction cs with
  | nil => simp [storeOfL]
  | cons x cs ih =>
    simp only [storeOfL, List.mem_append, ih, List.mem_cons]
    constructor
    · rintro (h | ⟨c, hc, he⟩)
      · exact ⟨x, Or.inl rfl, h⟩
      · exact ⟨c, Or.inr hc, he⟩
    · rintro ⟨c, rfl | hc, he⟩
      · exact Or.inl he
      · exact Or.inr ⟨c, hc, he⟩

theorem stored_nil (H : Bytes → Bytes) (st : Store) : Stored H st .nil := by
  intro e he; simp [storeOf] at he
theorem stored_value (H : Bytes → Bytes) (st : Store) (b : Bytes) : Stored H st (.value b) := by
  intro e he; simp [storeOf] at he

/-- the children of a full node, hashed left to right with the store threaded through -/
theorem hashLs_spec (H : Bytes → Bytes) (gen limit : Nat) (withDb : Bool) (cs : List Node) (hUcs : ∀ c ∈ cs, U c)
    (ih : ∀ c ∈ cs, WF c → U c → ∀ l st, StoreSound H U st → AbsR H st true c l →
      HashSpec H U st withDb true c (hashL H gen limit withDb l false st)) :
    ∀ (lcs : List LNode) (s : Nat) (st : Store), s + cs.length = 17 → cs.length = lcs.length →
      (∀ j, j < cs.length → AbsR H st true (cs[j]?.getD .nil) (lcs[j]?.getD .nil)) →
      (∀ j, j < cs.length → SlotOK (s + j) (cs[j]?.getD .nil)) → StoreSound H U st →
      let r := hashLs H gen limit withDb lcs s st
      r.1 = (cs.take (16 - s)).map (refOf H) ∧ cs.length = r.2.1.length ∧
      (∀ j, j < cs.length → AbsR H r.2.2 true (cs[j]?.getD .nil) (r.2.1[j]?.getD .nil)) ∧
      Extends st r.2.2 ∧ StoreSound H U r.2.2 ∧
      (withDb = true → ∀ j, j < cs.length → Stored H r.2.2 (cs[j]?.getD .nil)) ∧
      (withDb = false → r.2.2 = st) := by
  induction cs with
  | nil =>
    intro lcs s st _ hlen _ _ hs
    cases lcs with
    | nil => simp [hashLs, Extends.refl, hs]
    | cons _ _ => simp at hlen
  | cons c cs ihl =>
    intro lcs s st hs17 hlen hpt hslots hs
    cases lcs with
    | nil => simp at hlen
    | cons l ls =>
      have hlen' : cs.length = ls.length := by simpa using hlen
      have h0 : AbsR H st true c l := by simpa using hpt 0 (by simp)
      have hsl0 : SlotOK s c := by simpa using hslots 0 (by simp)
      have hptr : ∀ st', Extends st st' → ∀ j, j < cs.length → AbsR H st' true (cs[j]?.getD .nil) (ls[j]?.getD .nil) := by
        intro st' he j hj
        have := hpt (j + 1) (by simpa using hj)
        exact AbsR.mono H he (by simpa using this)
      have hslr : ∀ j, j < cs.length → SlotOK (s + 1 + j) (cs[j]?.getD .nil) := by
        intro j hj
        have := hslots (j + 1) (by simpa using hj)
        simpa [Nat.add_assoc, Nat.add_comm 1 j] using this
      have ihl' := ihl (fun c' hc' => hUcs c' (by simp [hc'])) (fun c' hc' => ih c' (by simp [hc']))
      simp only [List.length_cons] at hs17
      by_cases hs16 : s < 16
      · -- a hashed slot
        have hne16 : ¬ s = 16 := by omega
        have hspec : HashSpec H U st withDb true c (hashL H gen limit withDb l false st) := by
          rcases hsl0 with hnil | hw
          · subst hnil
            rw [AbsR_nil.mp h0]
            exact ⟨by simp [hashL, refOf], AbsR_nil.mpr rfl, Extends.refl _, hs, fun _ => ⟨stored_nil H _, fun h => by cases h⟩, fun _ => rfl⟩
          · simp only [hne16, if_false] at hw
            exact ih c (by simp) hw (hUcs c (by simp)) l st hs h0
        obtain ⟨hr1, hr2, hr3, hr4, hr5, hr6⟩ := hspec
        have hrec := ihl' ls (s + 1) (hashL H gen limit withDb l false st).2.2 (by omega) hlen'
          (hptr _ hr3) hslr hr4
        simp only [] at hrec
        obtain ⟨q1, q2, q3, q4, q5, q6, q7⟩ := hrec
        simp only [hashLs, hs16, if_true]
        have h16 : 16 - s = (16 - (s + 1)) + 1 := by omega
        refine ⟨by rw [h16, List.take_succ_cons, List.map_cons, q1, hr1]; simp, by simp [q2], ?_, hr3.trans q4, q5, ?_, ?_⟩
        · intro j hj
          cases j with
          | zero => simpa using AbsR.mono H q4 hr2
          | succ j => simpa using q3 j (by simpa using hj)
        · intro hw j hj
          cases j with
          | zero => simpa using (hr5 hw).1.mono q4
          | succ j => simpa using q6 hw j (by simpa using hj)
        · intro hw; rw [q7 hw, hr6 hw]
      · -- the value slot: copied
        have hs16' : s = 16 := by omega
        have hcs : cs = [] := by
          cases cs with
          | nil => rfl
          | cons _ _ => simp at hs17; omega
        subst hcs
        have hls : ls = [] := by cases ls <;> simp_all
        subst hls
        simp only [hashLs, hs16, if_false]
        have : 16 - s = 0 := by omega
        refine ⟨by simp [this], by simp, ?_, Extends.refl _, hs, ?_, by simp⟩
        · intro j hj
          have : j = 0 := by simpa using hj
          subst this; simpa using h0
        · intro _ j hj
          have : j = 0 := by simpa using hj
          subst this
          rcases hsl0 with hnil | hw
          · simp [hnil, stored_nil]
          · simp only [hs16', if_true] at hw
            obtain ⟨b, hb, _⟩ := hw
            simp [hb, stored_value]



theorem hashL_spec {H : Bytes → Bytes} (hnc : NoColl H U) (hcl : ClosedU U) (gen limit : Nat) (withDb : Bool) (t : Node) :
    WF t → U t → ∀ child l st, StoreSound H U st → AbsR H st child t l →
      HashSpec H U st withDb child t (hashL H gen limit withDb l (!child) st) := by
  induction t using Node.induct with
  | hnil => intro h; exact absurd h not_WF_nil
  | hval b => intro h; exact absurd h (not_WF_value b)
  | hshort kk v ih =>
    intro hwf hU child l st hs habs
    rcases habs with hl | hh
    · obtain ⟨lv, fl, rfl, hv, hfl⟩ := AbsL_short.mp hl
      obtain ⟨hhit, hmiss⟩ := cacheHit_spec gen limit withDb hwf hs hl hfl
      simp only [hashL]
      cases hc : cacheHit gen limit withDb fl (.short kk lv fl) st with
      | some r => exact hhit r hc
      | none =>
        simp only []
        have hnodb := hmiss hc
        -- hashChildren
        have hkid : ∃ c : CNode × LNode × Store,
            shortKid (hexToCompact kk) lv (hashL H gen limit withDb lv false st) = c ∧
            c.1 = collapse H (.short kk v) ∧ AbsR H c.2.2 true v c.2.1 ∧ Extends st c.2.2 ∧ StoreSound H U c.2.2 ∧
            (withDb = true → Stored H c.2.2 v) ∧ (withDb = false → c.2.2 = st) := by
          rcases (WF_short_iff kk v).mp hwf with ⟨b, rfl, hkk, hb⟩ | ⟨cs, rfl, hne, hnib, hfull⟩
          · obtain rfl := AbsR_value.mp hv
            exact ⟨_, rfl, by simp [shortKid, collapse_leaf], by simp [shortKid]; exact AbsR_value.mpr rfl,
              by simp [shortKid, hashL]; exact Extends.refl _, by simp [shortKid, hashL]; exact hs,
              fun _ => stored_value H _ b, fun _ => by simp [shortKid, hashL]⟩
          · have q : HashSpec H U st withDb true (.full cs) (hashL H gen limit withDb lv false st) :=
              ih hfull (hcl.1 _ _ hU) true lv st hs hv
            obtain ⟨q1, q2, q3, q4, q5, q6⟩ := q
            have hsk : shortKid (hexToCompact kk) lv (hashL H gen limit withDb lv false st)
                = (.ext (hexToCompact kk) (hashL H gen limit withDb lv false st).1,
                   (hashL H gen limit withDb lv false st).2.1, (hashL H gen limit withDb lv false st).2.2) := by
              cases lv with
              | value b =>
                rcases hv with h | h
                · simp [AbsL] at h
                · cases h.1
              | _ => rfl
            refine ⟨_, hsk, ?_, q2, q3, q4, fun hw => (q5 hw).1, q6⟩
            simp only [q1, if_true, collapse_ext]
        obtain ⟨c, hceq, hc1, hc2, hc3, hc4, hc5, hc6⟩ := hkid
        rw [hceq, hc1]
        have hstep := store_step hnc hU hwf child withDb fl hc3 hfl hc4 hnodb
          (fun hw e he => (hc5 hw) e (by simpa [kidsStore] using he))
        simp only [] at hstep
        obtain ⟨s1, s2, s3, s4, s5, s6⟩ := hstep
        refine ⟨s1, Or.inl (AbsL_short.mpr ⟨c.2.1, _, rfl, AbsR.mono H s2 hc2, s5⟩), hc3.trans s2, s3, s6, ?_⟩
        intro hw; rw [s4 hw, hc6 hw]
    · -- an unloaded node is returned as is
      obtain ⟨rfl, _, hbig, hst, hlk⟩ := hh
      have hC1 : CNode.hashRef (H (enc H (.short kk v))) =
          (if child = true then refOf H (.short kk v) else .hashRef (H (enc H (.short kk v)))) := by
        cases hc : child with
        | false => simp
        | true => simp [refOf_big hwf (hbig hc)]
      simp only [hashL]
      exact ⟨hC1, Or.inr ⟨rfl, hwf, hbig, hst, hlk⟩, Extends.refl _, hs, fun _ => ⟨hst, fun _ => hlk⟩, fun _ => rfl⟩
  | hfull cs ih =>
    intro hwf hU child l st hs habs
    obtain ⟨hlen17, hslots, hcnt⟩ := (WF_full_iff cs).mp hwf
    rcases habs with hl | hh
    · obtain ⟨lcs, fl, rfl, hlen, hpt, hfl⟩ := AbsL_full.mp hl
      obtain ⟨hhit, hmiss⟩ := cacheHit_spec gen limit withDb hwf hs hl hfl
      simp only [hashL]
      cases hc : cacheHit gen limit withDb fl (.full lcs fl) st with
      | some r => exact hhit r hc
      | none =>
        simp only []
        have hnodb := hmiss hc
        have hkids := hashLs_spec H gen limit withDb cs (hcl.2 cs hU)
          (fun c hc hw hu l st hs ha => by
            have := ih c hc hw hu true l st hs ha
            simpa using this)
          lcs 0 st (by omega) hlen hpt (fun j hj => by simpa using hslots j (by omega)) hs
        simp only [] at hkids
        obtain ⟨k1, k2, k3, k4, k5, k6, k7⟩ := hkids
        -- the value slot
        have hv : valueBytesL (lcs.getD 16 .nil) = valueBytes (cs[16]?.getD .nil) := by
          have h16 := hpt 16 (by omega)
          rcases hslots 16 (by omega) with h | h
          · rw [h] at h16 ⊢
            simp only [List.getD_eq_getElem?_getD, AbsR_nil.mp h16]; rfl
          · simp only [if_true] at h
            obtain ⟨b, hb, _⟩ := h
            rw [hb] at h16 ⊢
            simp only [List.getD_eq_getElem?_getD, AbsR_value.mp h16]; rfl
        have hcol : CNode.branch (hashLs H gen limit withDb lcs 0 st).1 (valueBytesL (lcs.getD 16 .nil))
            = collapse H (.full cs) := by
          simp only [Nat.sub_zero] at k1
          rw [collapse_full H cs hlen17, k1, hv]
        rw [hcol]
        have hstep := store_step hnc hU hwf child withDb fl k4 hfl k5 hnodb
          (fun hw e he => by
            simp only [kidsStore] at he
            obtain ⟨c, hcm, hec⟩ := (mem_storeOfL_iff H cs e).mp he
            obtain ⟨j, hj, hcj⟩ := List.getElem_of_mem hcm
            have := k6 hw j hj
            rw [List.getElem?_eq_getElem hj] at this
            simp only [Option.getD_some, hcj] at this
            exact this e hec)
        simp only [] at hstep
        obtain ⟨s1, s2, s3, s4, s5, s6⟩ := hstep
        refine ⟨s1, Or.inl (AbsL_full.mpr ⟨_, _, rfl, k2, fun j hj => AbsR.mono H s2 (k3 j hj), s5⟩),
          k4.trans s2, s3, s6, ?_⟩
        intro hw; rw [s4 hw, k7 hw]
    · obtain ⟨rfl, _, hbig, hst, hlk⟩ := hh
      have hC1 : CNode.hashRef (H (enc H (.full cs))) =
          (if child = true then refOf H (.full cs) else .hashRef (H (enc H (.full cs)))) := by
        cases hc : child with
        | false => simp
        | true => simp [refOf_big hwf (hbig hc)]
      simp only [hashL]
      exact ⟨hC1, Or.inr ⟨rfl, hwf, hbig, hst, hlk⟩, Extends.refl _, hs, fun _ => ⟨hst, fun _ => hlk⟩, fun _ => rfl⟩

end Rangers.Trie
