import Rangers.Model.BlockExec
/-! Helper lemmas for Props/C01: commutation of the loop bodies of the map-range sites. -/
namespace Rangers.Proofs.BlockExec
open Rangers Rangers.Model.BlockExec

theorem St.ext' {a b : St} (h1 : a.bal = b.bal) (h2 : a.nonce = b.nonce) (h3 : a.escrow = b.escrow)
    (h4 : a.miners = b.miners := by rfl) (h5 : a.diff = b.diff := by rfl) (h6 : a.working = b.working := by rfl) : a = b := by
  cases a; cases b; simp_all

/-- escrow additions commute (any heights, any ids) -/
theorem addEscrow_comm (s : St) (h1 h2 : Nat) (a b : Addr) (x y : Nat) :
    addEscrow (addEscrow s h1 a x) h2 b y = addEscrow (addEscrow s h2 b y) h1 a x := by
  apply St.ext' (by rfl) (by rfl)
  funext h k
  simp only [addEscrow]
  grind

theorem refundAddList_addEscrow_comm (h h' : Nat) (l : List (Addr × Nat)) (s : St) (a : Addr) (x : Nat) :
    refundAddList h (addEscrow s h' a x) l = addEscrow (refundAddList h s l) h' a x := by
  induction l generalizing s with
  | nil => rfl
  | cons e l ih =>
    simp only [refundAddList, List.foldl_cons] at *
    rw [addEscrow_comm, ih]

theorem refundAddList_comm (h1 h2 : Nat) (l1 l2 : List (Addr × Nat)) (s : St) :
    refundAddList h2 (refundAddList h1 s l1) l2 = refundAddList h1 (refundAddList h2 s l2) l1 := by
  induction l1 generalizing s with
  | nil => rfl
  | cons e l ih =>
    have := refundAddList_addEscrow_comm h2 h1 l2 s e.1 e.2
    simp only [refundAddList, List.foldl_cons] at *
    rw [ih, this]

/-- `CheckAndMove` loop bodies commute: the amounts were read before the loop -/
theorem cmStep_comm (h : Nat) (s : St) (e1 e2 : Addr × Nat) :
    cmStep h (cmStep h s e1) e2 = cmStep h (cmStep h s e2) e1 := by
  apply St.ext'
  · funext k
    simp only [cmStep, clearEscrow, addBal, upd]
    grind
  · rfl
  · funext h' k
    simp only [cmStep, clearEscrow, addBal]
    grind
  · rfl
  · rfl
  · rfl

theorem transfer2_comm (s : St) (src a b : Addr) (v w : Nat) :
    subBal (addBal (subBal (addBal s a v) src v) b w) src w
      = subBal (addBal (subBal (addBal s b w) src w) a v) src v := by
  apply St.ext' ?_ (by rfl) (by rfl)
  funext k
  simp only [subBal, addBal, upd]
  grind

theorem transfer_bal_src (s : St) (src a : Addr) (v : Nat) (h : a ≠ src) :
    (subBal (addBal s a v) src v).bal src = s.bal src - v := by
  simp only [subBal, addBal, upd]
  grind

/-- two transfers to targets other than the source commute (including the failure cases and
    the reported left-over balance) -/
theorem caStep_comm (src : Addr) (z : CA) (x y : Target) (hx : x.addr ≠ src) (hy : y.addr ≠ src) :
    caStep src (caStep src z x) y = caStep src (caStep src z y) x := by
  cases z with
  | none => rfl
  | some p =>
    obtain ⟨s, l⟩ := p
    cases hxa : x.amt with
    | bad =>
      cases hya : y.amt with
      | bad => simp [caStep, transferBalance, hxa, hya]
      | val w =>
        by_cases c : s.bal src < w <;> simp [caStep, transferBalance, hxa, hya, c]
    | val v =>
      cases hya : y.amt with
      | bad =>
        by_cases c : s.bal src < v <;> simp [caStep, transferBalance, hxa, hya, c]
      | val w =>
        have hsx := transfer_bal_src s src x.addr v hx
        have hsy := transfer_bal_src s src y.addr w hy
        have hst := transfer2_comm s src x.addr y.addr v w
        by_cases c1 : s.bal src < v
        · by_cases c2 : s.bal src < w
          · simp [caStep, transferBalance, hxa, hya, c1, c2]
          · have : s.bal src - w < v := by omega
            simp [caStep, transferBalance, hxa, hya, c1, c2, hsy, this]
        · by_cases c2 : s.bal src < w
          · have : s.bal src - v < w := by omega
            simp [caStep, transferBalance, hxa, hya, c1, c2, hsx, this]
          · by_cases c3 : s.bal src - v < w
            · have : s.bal src - w < v := by omega
              simp [caStep, transferBalance, hxa, hya, c1, c2, hsx, hsy, c3, this]
            · have c4 : ¬ s.bal src - w < v := by omega
              simp only [caStep, transferBalance, hxa, hya, c1, c2, hsx, hsy, c3, c4, if_false]
              rw [hst]

end Rangers.Proofs.BlockExec
