import Rangers.Model.Round
import Rangers.Generated.C15Facts
/-! What every behavioural C15 theorem takes from the translator: the `bindsHash` fact. -/
namespace Rangers.Props.C15
open Rangers.Model.Round
open Rangers.Generated

/-- An environment whose `bindsHash` flag is what the source says. -/
def FromSource (env : Env) : Prop := env.bindsHash = C15Facts.bindsHash

theorem fromSource_binds {env : Env} (h : FromSource env) : env.bindsHash = true := by
  rw [h]; decide

/-- The witness replayed on the implementation (corpus/C15/lead-declared-other.script):
group of 3 (k = 2), member 0 sends its valid share over another hash (tag 2) and says so in `dataHash`. -/
def leadEnv : Env :=
  { hash := 0, prevRandom := 1, groupSize := 3, pkKnown := [0, 1, 2], blockExists := false, bindsHash := false }

def leadMsg : VMsg Sym :=
  { mid := 0, blockHash := 0, signer := 0, idShape := .ok, signerNonZero := true, dataHash := 2,
    sig := .share 0 2, rand := .share 0 1 }

end Rangers.Props.C15
