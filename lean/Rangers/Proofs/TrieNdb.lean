import Rangers.Model.TrieNdb
import Rangers.Proofs.TrieDecode
/- NodeDatabase.Commit: the walk writes every node of a freshly cached trie to disk; uncache only removes; resolution is unchanged. -/
namespace Rangers.Trie
open Rangers

/-! ### the disk as a map -/

theorem lookup_filter_ne (d : List (Bytes × Bytes)) (k x : Bytes) :
    (d.filter (fun e => e.1 != k)).lookup x = if x = k then none else d.lookup x := by
  induction d with
  | nil => simp
  | cons e d ih =>
    obtain ⟨a, b⟩ := e
    by_cases hak : a = k
    · subst hak
      simp only [List.filter_cons, bne_self_eq_false, Bool.false_eq_true, if_false, ih, List.lookup_cons]
      by_cases hx : x = a
      · simp [hx]
      · have : (x == a) = false := beq_false_of_ne hx
        simp [hx, this]
    · have hne : (a != k) = true := by simpa using hak
      simp only [List.filter_cons, hne, if_true, List.lookup_cons, ih]
      by_cases hx : x = k
      · subst hx
        have : (x == a) = false := beq_false_of_ne (fun h => hak h.symm)
        simp [this]
      · simp [hx]

theorem diskPut_lookup (d : List (Bytes × Bytes)) (k v x : Bytes) :
    (diskPut d k v).lookup x = if x = k then some v else d.lookup x := by
  unfold diskPut
  rw [List.lookup_append, lookup_filter_ne]
  by_cases hx : x = k
  · subst hx; simp
  · have : (x == k) = false := beq_false_of_ne hx
    simp [hx, List.lookup_cons, this]

/-- a key whose memory-cache entry encodes to `v`: once on disk with `v`, it stays so through any
    further walk of `commit` (a later `Put` under that key writes the same blob) -/
def Stable (mem : List (Bytes × NEntry)) (k v : Bytes) : Prop :=
  ∀ ne, mem.lookup k = some ne → ne.rlp = v

theorem commit_preserves (mem : List (Bytes × NEntry)) (k v : Bytes) (hs : Stable mem k v) (f : Nat) :
    (∀ disk h, disk.lookup k = some v → (commitRec mem f disk h).lookup k = some v) ∧
    (∀ disk l, disk.lookup k = some v → (commitList mem f disk l).lookup k = some v) := by
  induction f with
  | zero =>
    have h1 : ∀ disk h, disk.lookup k = some v → (commitRec mem 0 disk h).lookup k = some v := by
      intro disk h hd; simpa [commitRec] using hd
    refine ⟨h1, fun disk l => ?_⟩
    induction l generalizing disk with
    | nil => intro hd; simpa [commitList] using hd
    | cons c cs ih => intro hd; simp only [commitList]; exact ih _ (h1 disk c hd)
  | succ f ih =>
    have h1 : ∀ disk h, disk.lookup k = some v → (commitRec mem (f + 1) disk h).lookup k = some v := by
      intro disk h hd
      simp only [commitRec]
      cases hm : mem.lookup h with
      | none => simpa using hd
      | some e =>
        simp only []
        rw [diskPut_lookup]
        by_cases hkh : k = h
        · subst hkh; simp [hs e hm]
        · simp only [hkh, if_false]; exact ih.2 _ _ hd
    refine ⟨h1, fun disk l => ?_⟩
    induction l generalizing disk with
    | nil => intro hd; simpa [commitList] using hd
    | cons c cs ihl => intro hd; simp only [commitList]; exact ihl _ (h1 disk c hd)

theorem commitList_append (mem : List (Bytes × NEntry)) (f : Nat) (disk : List (Bytes × Bytes)) (a b : List Bytes) :
    commitList mem f disk (a ++ b) = commitList mem f (commitList mem f disk a) b := by
  induction a generalizing disk with
  | nil => simp [commitList]
  | cons x a ih => simp only [List.cons_append, commitList]; exact ih _



/-! ### `gatherChildren` on collapsed nodes -/

theorem gatherCL_eq (l : List CNode) (i : Nat) (h : i + l.length ≤ 16) : gatherC.gatherCL l i = l.flatMap gatherC := by
  induction l generalizing i with
  | nil => rfl
  | cons c l ih =>
    simp only [List.length_cons] at h
    have hi : i < 16 := by omega
    simp only [gatherC.gatherCL, hi, if_true, List.flatMap_cons, ih (i + 1) (by omega)]

theorem gatherC_refOf_nil (H : Bytes → Bytes) : gatherC (refOf H .nil) = [] := rfl

theorem gatherC_collapse_leaf (H : Bytes → Bytes) (k : Key) (b : Bytes) : gatherC (collapse H (.short k (.value b))) = [] := by
  rw [collapse_leaf]; rfl

theorem gatherC_collapse_ext (H : Bytes → Bytes) (k : Key) (cs : List Node) :
    gatherC (collapse H (.short k (.full cs))) = gatherC (refOf H (.full cs)) := by
  rw [collapse_ext]; rfl

theorem gatherC_collapse_full (H : Bytes → Bytes) (cs : List Node) (hlen : cs.length = 17) :
    gatherC (collapse H (.full cs)) = (cs.take 16).flatMap (fun x => gatherC (refOf H x)) := by
  rw [collapse_full H cs hlen]
  simp only [gatherC]
  rw [gatherCL_eq _ 0 (by simp [hlen]), List.flatMap_map]

/-! ### committing a freshly cached trie puts every one of its nodes on disk -/

def InMem (mem : List (Bytes × NEntry)) (e : Bytes × CNode) : Prop :=
  ∃ ne, mem.lookup e.1 = some ne ∧ ne.val = .cn e.2

def OnDisk (disk : List (Bytes × Bytes)) (e : Bytes × CNode) : Prop := disk.lookup e.1 = some (encC e.2)

theorem InMem.stable {mem : List (Bytes × NEntry)} {e : Bytes × CNode} (h : InMem mem e) : Stable mem e.1 (encC e.2) := by
  obtain ⟨ne, h1, h2⟩ := h
  intro ne' h'
  rw [h1] at h'
  cases h'
  simp [NEntry.rlp, h2]

theorem mem_storeOf_false (H : Bytes → Bytes) (c : Node) (hwf : WF c) (e : Bytes × CNode) :
    e ∈ storeOf H false c ↔ (32 ≤ (enc H c).length ∧ e = (H (enc H c), collapse H c)) ∨ e ∈ kidsStore H c := by
  cases c with
  | nil => exact absurd hwf not_WF_nil
  | value b => exact absurd hwf (not_WF_value b)
  | short k v =>
    simp only [storeOf, kidsStore, List.mem_append, Bool.false_or]
    constructor
    · rintro (h | h)
      · split at h
        · rename_i hb; simp at hb; simp at h; exact Or.inl ⟨hb, h⟩
        · simp at h
      · exact Or.inr h
    · rintro (⟨hb, rfl⟩ | h)
      · left; simp [hb]
      · exact Or.inr h
  | full cs =>
    simp only [storeOf, kidsStore, List.mem_append, Bool.false_or]
    constructor
    · rintro (h | h)
      · split at h
        · rename_i hb; simp at hb; simp at h; exact Or.inl ⟨hb, h⟩
        · simp at h
      · exact Or.inr h
    · rintro (⟨hb, rfl⟩ | h)
      · left; simp [hb]
      · exact Or.inr h

theorem commit_walk (H : Bytes → Bytes) (mem : List (Bytes × NEntry)) (c : Node) :
    WF c →
      ((∀ e ∈ kidsStore H c, InMem mem e) → ∀ f disk, height c ≤ f →
        ∀ e ∈ kidsStore H c, OnDisk (commitList mem f disk (gatherC (collapse H c))) e) ∧
      ((∀ e ∈ storeOf H false c, InMem mem e) → ∀ f disk, height c + 1 ≤ f →
        ∀ e ∈ storeOf H false c, OnDisk (commitList mem f disk (gatherC (refOf H c))) e) := by
  induction c using Node.induct with
  | hnil => intro h; exact absurd h not_WF_nil
  | hval b => intro h; exact absurd h (not_WF_value b)
  | hshort kk v ih =>
    intro hwf
    have hK : (∀ e ∈ kidsStore H (.short kk v), InMem mem e) → ∀ f disk, height (.short kk v) ≤ f →
        ∀ e ∈ kidsStore H (.short kk v), OnDisk (commitList mem f disk (gatherC (collapse H (.short kk v)))) e := by
      intro hin f disk hf e he
      rcases (WF_short_iff kk v).mp hwf with ⟨b, rfl, _, _⟩ | ⟨cs, rfl, _, _, hfull⟩
      · simp [kidsStore, storeOf] at he
      · rw [gatherC_collapse_ext]
        simp only [height] at hf
        exact (ih hfull).2 hin f disk hf e he
    refine ⟨hK, fun hin f disk hf e he => ?_⟩
    rw [refOf_of_ne_nil H _ (by simp)]
    rcases (mem_storeOf_false H _ hwf e).mp he with ⟨hbig, rfl⟩ | hk
    · have hns : ¬ (enc H (.short kk v)).length < 32 := by omega
      simp only [hns, if_false, gatherC, commitList]
      obtain ⟨f', rfl⟩ : ∃ f', f = f' + 1 := ⟨f - 1, by omega⟩
      obtain ⟨ne, hl, hv⟩ := hin _ he
      simp only [commitRec, hl, OnDisk, diskPut_lookup, if_true, NEntry.rlp, hv]
    · by_cases hsm : (enc H (.short kk v)).length < 32
      · simp only [hsm, if_true]
        exact hK (fun e' he' => hin e' ((mem_storeOf_false H _ hwf e').mpr (Or.inr he'))) f disk (by omega) e hk
      · simp only [hsm, if_false, gatherC, commitList]
        obtain ⟨f', rfl⟩ : ∃ f', f = f' + 1 := ⟨f - 1, by omega⟩
        have hown : (H (enc H (.short kk v)), collapse H (.short kk v)) ∈ storeOf H false (.short kk v) :=
          (mem_storeOf_false H _ hwf _).mpr (Or.inl ⟨by omega, rfl⟩)
        obtain ⟨ne, hl, hv⟩ := hin _ hown
        simp only [commitRec, hl, OnDisk, diskPut_lookup, NEntry.childs, hv, commitList_append]
        have hkid := hK (fun e' he' => hin e' ((mem_storeOf_false H _ hwf e').mpr (Or.inr he'))) f'
          (commitList mem f' disk ne.children) (by omega) e hk
        by_cases hkey : e.1 = H (enc H (.short kk v))
        · simp only [hkey, if_true, NEntry.rlp, hv]
          obtain ⟨ne2, hl2, hv2⟩ := hin e he
          rw [hkey, hl] at hl2
          cases hl2
          rw [hv] at hv2
          rw [← NVal.cn.inj hv2]
        · simp only [hkey, if_false]; exact hkid
  | hfull cs ih =>
    intro hwf
    obtain ⟨hlen, hslots, _⟩ := (WF_full_iff cs).mp hwf
    have hK : (∀ e ∈ kidsStore H (.full cs), InMem mem e) → ∀ f disk, height (.full cs) ≤ f →
        ∀ e ∈ kidsStore H (.full cs), OnDisk (commitList mem f disk (gatherC (collapse H (.full cs)))) e := by
      intro hin f disk hf e he
      rw [gatherC_collapse_full H cs hlen]
      simp only [height] at hf
      -- walk the slots one after the other
      have hwalk : ∀ (xs : List Node), (∀ x ∈ xs, x = .nil ∨ (x ∈ cs ∧ WF x)) → ∀ disk,
          ∀ x ∈ xs, ∀ e ∈ storeOf H false x,
            OnDisk (commitList mem f disk (xs.flatMap (fun x => gatherC (refOf H x)))) e := by
        intro xs
        induction xs with
        | nil => intro _ _ x hx; simp at hx
        | cons y ys ihy =>
          intro hys disk x hx e' he'
          simp only [List.flatMap_cons, commitList_append]
          have hinx : ∀ z, z ∈ cs → ∀ e'' ∈ storeOf H false z, InMem mem e'' := fun z hz e'' he'' =>
            hin e'' (by simp only [kidsStore]; exact (mem_storeOfL_iff H cs e'').mpr ⟨z, hz, he''⟩)
          rcases List.mem_cons.mp hx with rfl | hx'
          · rcases hys x (by simp) with rfl | ⟨hm, hw⟩
            · simp [storeOf] at he'
            · have h1 := (ih x hm hw).2 (hinx x hm) f disk
                (by have := height_le_heightL cs x hm; omega) e' he'
              exact (commit_preserves mem e'.1 (encC e'.2) (hinx x hm e' he').stable f).2 _ _ h1
          · exact ihy (fun z hz => hys z (by simp [hz])) _ x hx' e' he'
      have htake : ∀ x ∈ cs.take 16, x = .nil ∨ (x ∈ cs ∧ WF x) := by
        intro x hx
        obtain ⟨i, hi, hxi⟩ := List.getElem_of_mem hx
        have hi16 : i < 16 := by simp at hi; omega
        have hxi' : cs[i]?.getD .nil = x := by
          rw [List.getElem_take] at hxi
          simp [List.getElem?_eq_getElem (show i < cs.length by omega), hxi]
        rcases hslots i (by omega) with h | h
        · left; rw [← hxi']; exact h
        · right
          have : ¬ i = 16 := by omega
          simp only [this, if_false, hxi'] at h
          exact ⟨List.mem_of_mem_take hx, h⟩
      simp only [kidsStore] at he
      obtain ⟨z, hz, hez⟩ := (mem_storeOfL_iff H cs e).mp he
      -- the entry belongs to one of the sixteen child slots (the value slot stores nothing)
      obtain ⟨j, hj, hzj⟩ := List.getElem_of_mem hz
      by_cases hj16 : j < 16
      · have hzt : z ∈ cs.take 16 := by
          rw [← hzj]
          exact List.mem_iff_getElem.mpr ⟨j, by simp [hlen]; omega, by rw [List.getElem_take]⟩
        exact hwalk (cs.take 16) htake disk z hzt e hez
      · have : j = 16 := by omega
        subst this
        rcases hslots 16 (by omega) with h | h
        · rw [List.getElem?_eq_getElem hj] at h; simp only [Option.getD_some] at h
          rw [hzj] at h; subst h; simp [storeOf] at hez
        · simp only [if_true] at h
          obtain ⟨b, hb, _⟩ := h
          rw [List.getElem?_eq_getElem hj] at hb; simp only [Option.getD_some] at hb
          rw [hzj] at hb; subst hb; simp [storeOf] at hez
    refine ⟨hK, fun hin f disk hf e he => ?_⟩
    rw [refOf_of_ne_nil H _ (by simp)]
    rcases (mem_storeOf_false H _ hwf e).mp he with ⟨hbig, rfl⟩ | hk
    · have hns : ¬ (enc H (.full cs)).length < 32 := by omega
      simp only [hns, if_false, gatherC, commitList]
      obtain ⟨f', rfl⟩ : ∃ f', f = f' + 1 := ⟨f - 1, by omega⟩
      obtain ⟨ne, hl, hv⟩ := hin _ he
      simp only [commitRec, hl, OnDisk, diskPut_lookup, if_true, NEntry.rlp, hv]
    · by_cases hsm : (enc H (.full cs)).length < 32
      · simp only [hsm, if_true]
        exact hK (fun e' he' => hin e' ((mem_storeOf_false H _ hwf e').mpr (Or.inr he'))) f disk (by omega) e hk
      · simp only [hsm, if_false, gatherC, commitList]
        obtain ⟨f', rfl⟩ : ∃ f', f = f' + 1 := ⟨f - 1, by omega⟩
        have hown : (H (enc H (.full cs)), collapse H (.full cs)) ∈ storeOf H false (.full cs) :=
          (mem_storeOf_false H _ hwf _).mpr (Or.inl ⟨by omega, rfl⟩)
        obtain ⟨ne, hl, hv⟩ := hin _ hown
        simp only [commitRec, hl, OnDisk, diskPut_lookup, NEntry.childs, hv, commitList_append]
        have hkid := hK (fun e' he' => hin e' ((mem_storeOf_false H _ hwf e').mpr (Or.inr he'))) f'
          (commitList mem f' disk ne.children) (by omega) e hk
        by_cases hkey : e.1 = H (enc H (.full cs))
        · simp only [hkey, if_true, NEntry.rlp, hv]
          obtain ⟨ne2, hl2, hv2⟩ := hin e he
          rw [hkey, hl] at hl2
          cases hl2
          rw [hv] at hv2
          rw [← NVal.cn.inj hv2]
        · simp only [hkey, if_false]; exact hkid



theorem mem_storeOf_true (H : Bytes → Bytes) (c : Node) (hwf : WF c) (e : Bytes × CNode) :
    e ∈ storeOf H true c ↔ e = (H (enc H c), collapse H c) ∨ e ∈ kidsStore H c := by
  cases c with
  | nil => exact absurd hwf not_WF_nil
  | value b => exact absurd hwf (not_WF_value b)
  | short k v => simp [storeOf, kidsStore]
  | full cs => simp [storeOf, kidsStore]

/-- every entry a commit writes is the hash and the collapsed form of a minimal-form node -/
theorem storeOf_entries (H : Bytes → Bytes) (t : Node) : WF t → ∀ b e, e ∈ storeOf H b t →
    ∃ c, WF c ∧ e = (H (enc H c), collapse H c) := by
  induction t using Node.induct with
  | hnil => intro h; exact absurd h not_WF_nil
  | hval b => intro h; exact absurd h (not_WF_value b)
  | hshort kk v ih =>
    intro hwf b e he
    have hor : e = (H (enc H (.short kk v)), collapse H (.short kk v)) ∨ e ∈ kidsStore H (.short kk v) := by
      cases b
      · rcases (mem_storeOf_false H _ hwf e).mp he with ⟨_, h⟩ | h
        · exact Or.inl h
        · exact Or.inr h
      · exact (mem_storeOf_true H _ hwf e).mp he
    rcases hor with rfl | hk
    · exact ⟨_, hwf, rfl⟩
    · rcases (WF_short_iff kk v).mp hwf with ⟨b', rfl, _, _⟩ | ⟨cs, rfl, _, _, hfull⟩
      · simp [kidsStore, storeOf] at hk
      · exact ih hfull false e hk
  | hfull cs ih =>
    intro hwf b e he
    obtain ⟨hlen, hslots, _⟩ := (WF_full_iff cs).mp hwf
    have hor : e = (H (enc H (.full cs)), collapse H (.full cs)) ∨ e ∈ kidsStore H (.full cs) := by
      cases b
      · rcases (mem_storeOf_false H _ hwf e).mp he with ⟨_, h⟩ | h
        · exact Or.inl h
        · exact Or.inr h
      · exact (mem_storeOf_true H _ hwf e).mp he
    rcases hor with rfl | hk
    · exact ⟨_, hwf, rfl⟩
    · simp only [kidsStore] at hk
      obtain ⟨z, hz, hez⟩ := (mem_storeOfL_iff H cs e).mp hk
      obtain ⟨j, hj, hzj⟩ := List.getElem_of_mem hz
      have hs := hslots j (by omega)
      rw [List.getElem?_eq_getElem hj] at hs; simp only [Option.getD_some, hzj] at hs
      rcases hs with h | h
      · subst h; simp [storeOf] at hez
      · by_cases h16 : j = 16
        · simp only [h16, if_true] at h
          obtain ⟨b', hb, _⟩ := h
          subst hb; simp [storeOf] at hez
        · simp only [h16, if_false] at h
          exact ih z hz h false e hez

/-- **`NodeDatabase.Commit` writes the whole trie**: if the memory cache holds every node of the
    minimal-form trie `t` (as after `Trie.Commit`), then after `Commit(root)` every one of them is on
    disk under its hash with its RLP encoding — no collision hypothesis needed, since the cache is
    keyed by hash.  (`gatherChildren` dropping a slot, or `commit` not descending, falsifies this.) -/
theorem ndb_commit_disk_complete (H : Bytes → Bytes) (db : NDb) (t : Node) (hwf : WF t)
    (hin : ∀ e ∈ storeOf H true t, InMem db.mem e) (F : Nat) (hF : height t + 1 ≤ F) :
    ∀ e ∈ storeOf H true t, OnDisk (db.commit F (H (enc H t))).disk e := by
  intro e he
  obtain ⟨F', rfl⟩ : ∃ F', F = F' + 1 := ⟨F - 1, by omega⟩
  have hown : (H (enc H t), collapse H t) ∈ storeOf H true t := (mem_storeOf_true H t hwf _).mpr (Or.inl rfl)
  obtain ⟨ne, hl, hv⟩ := hin _ hown
  simp only [NDb.commit, commitRec, hl, OnDisk, diskPut_lookup, NEntry.childs, hv, commitList_append]
  have hkids : ∀ e' ∈ kidsStore H t, InMem db.mem e' := fun e' he' => hin e' ((mem_storeOf_true H t hwf e').mpr (Or.inr he'))
  by_cases hkey : e.1 = H (enc H t)
  · simp only [hkey, if_true, NEntry.rlp, hv]
    obtain ⟨ne2, hl2, hv2⟩ := hin e he
    rw [hkey, hl] at hl2
    cases hl2
    rw [hv] at hv2
    rw [← NVal.cn.inj hv2]
  · simp only [hkey, if_false]
    rcases (mem_storeOf_true H t hwf e).mp he with rfl | hk
    · exact absurd rfl hkey
    · exact (commit_walk H db.mem t hwf).1 hkids F' _ (by omega) e hk

/-! ### `uncache` only removes -/

theorem lookup_filter_key {β : Type} (d : List (Bytes × β)) (k x : Bytes) :
    (d.filter (fun e => e.1 != k)).lookup x = if x = k then none else d.lookup x := by
  induction d with
  | nil => simp
  | cons e d ih =>
    obtain ⟨a, b⟩ := e
    by_cases hak : a = k
    · subst hak
      simp only [List.filter_cons, bne_self_eq_false, Bool.false_eq_true, if_false, ih, List.lookup_cons]
      by_cases hx : x = a
      · simp [hx]
      · have : (x == a) = false := beq_false_of_ne hx
        simp [hx, this]
    · have hne : (a != k) = true := by simpa using hak
      simp only [List.filter_cons, hne, if_true, List.lookup_cons, ih]
      by_cases hx : x = k
      · subst hx
        have : (x == a) = false := beq_false_of_ne (fun h => hak h.symm)
        simp [this]
      · simp [hx]

theorem uncache_only_removes (f : Nat) :
    (∀ mem h x, (uncacheRec f mem h).lookup x = none ∨ (uncacheRec f mem h).lookup x = mem.lookup x) ∧
    (∀ mem l x, (uncacheList f mem l).lookup x = none ∨ (uncacheList f mem l).lookup x = mem.lookup x) := by
  induction f with
  | zero =>
    have h1 : ∀ mem h x, (uncacheRec 0 mem h).lookup x = none ∨ (uncacheRec 0 mem h).lookup x = mem.lookup x :=
      fun mem h x => Or.inr (by simp [uncacheRec])
    refine ⟨h1, fun mem l => ?_⟩
    induction l generalizing mem with
    | nil => intro x; exact Or.inr (by simp [uncacheList])
    | cons c cs ih =>
      intro x
      simp only [uncacheList]
      rcases ih (uncacheRec 0 mem c) x with h | h
      · exact Or.inl h
      · rcases h1 mem c x with h2 | h2
        · left; rw [h, h2]
        · right; rw [h, h2]
  | succ f ih =>
    have h1 : ∀ mem h x, (uncacheRec (f + 1) mem h).lookup x = none ∨ (uncacheRec (f + 1) mem h).lookup x = mem.lookup x := by
      intro mem h x
      simp only [uncacheRec]
      cases hm : mem.lookup h with
      | none => exact Or.inr rfl
      | some e =>
        simp only [lookup_filter_key]
        by_cases hx : x = h
        · left; simp [hx]
        · simp only [hx, if_false]; exact ih.2 mem e.childs x
    refine ⟨h1, fun mem l => ?_⟩
    induction l generalizing mem with
    | nil => intro x; exact Or.inr (by simp [uncacheList])
    | cons c cs ihl =>
      intro x
      simp only [uncacheList]
      rcases ihl (uncacheRec (f + 1) mem c) x with h | h
      · exact Or.inl h
      · rcases h1 mem c x with h2 | h2
        · left; rw [h, h2]
        · right; rw [h, h2]

/-- **`NodeDatabase.Commit` is a no-op on resolution**: after it, every node of the trie still
    resolves (`NodeDatabase.node`: memory cache first, then `decodeNode` of the disk blob) to exactly
    the live node it resolved to before, whichever entries `uncache` dropped. -/
theorem ndb_commit_resolution (H : Bytes → Bytes) (h32 : ∀ x, (H x).length = 32) (db : NDb) (t : Node) (hwf : WF t)
    (hin : ∀ e ∈ storeOf H true t, InMem db.mem e)
    (hsz : ∀ e ∈ storeOf H true t, (encC e.2).length < 256 ^ 8)
    (F : Nat) (hF : height t + 1 ≤ F) (gen : Nat) :
    ∀ e ∈ storeOf H true t,
      (db.commit F (H (enc H t))).node gen e.1 = db.node gen e.1 ∧ db.node gen e.1 = expandNode gen (some e.1) e.2 := by
  intro e he
  obtain ⟨ne, hl, hv⟩ := hin e he
  have hbefore : db.node gen e.1 = expandNode gen (some e.1) e.2 := by simp [NDb.node, hl, hv]
  refine ⟨?_, hbefore⟩
  rw [hbefore]
  have hdisk := ndb_commit_disk_complete H db t hwf hin F hF e he
  rcases (uncache_only_removes F).1 db.mem (H (enc H t)) e.1 with hnone | hsame
  · -- dropped from the cache: decoded from the disk blob
    obtain ⟨c, hwc, rfl⟩ := storeOf_entries H t hwf true e he
    have hlen := hsz _ he
    have henc := (encC_collapse H c hwc).1
    simp only [] at hlen hdisk hnone ⊢
    rw [henc] at hlen
    have hdec := decodeNode_collapse H h32 gen c hwc hlen (some (H (enc H c)))
      (20 * (encC (collapse H c)).length + 20) [] (by rw [henc]; exact Nat.le_refl _)
    rw [List.append_nil] at hdec
    have hd : (db.commit F (H (enc H t))).disk.lookup (H (enc H c)) = some (encC (collapse H c)) := hdisk
    have hm : (db.commit F (H (enc H t))).mem.lookup (H (enc H c)) = none := hnone
    unfold NDb.node
    rw [hm, hd]
    exact hdec
  · have hm : (db.commit F (H (enc H t))).mem.lookup e.1 = some ne := by rw [← hl]; exact hsame
    simp [NDb.node, hm, hv]

end Rangers.Trie
