import Rangers.Proofs.Bls14BridgeC13
import Rangers.Proofs.C13G1Law
/-! The two affine G1 models (`Model.G1` of C13, `Model.Bls14.Pt` of C14) are the same functions on
    valid points: `neg/double/add/isOnCurve` by the C14 builder's bridge, `mul` and `marshal` here. -/
namespace Rangers.Proofs.C13G1
open Rangers Rangers.Model Rangers.Model.Bls14 Rangers.Proofs.Bls14 Rangers.Generated

theorem natToBE_go_acc : ∀ (fuel n : Nat) (acc : Bytes), n < fuel →
    natToBE.go fuel n acc = natToBE.go (n + 1) n [] ++ acc := by
  intro fuel
  induction fuel using Nat.strong_induction_on with
  | _ fuel ih =>
    intro n acc h
    cases fuel with
    | zero => omega
    | succ fuel =>
      by_cases h0 : n = 0
      · subst h0; simp [natToBE.go]
      · have hd : n / 256 < n := Nat.div_lt_self (Nat.pos_of_ne_zero h0) (by omega)
        rw [natToBE.go, if_neg h0, natToBE.go, if_neg h0]
        rw [ih fuel (by omega) (n / 256) _ (by omega), ih n (by omega) (n / 256) [UInt8.ofNat (n % 256)] hd]
        simp

theorem natToBE_step (n : Nat) (h0 : n ≠ 0) :
    natToBE n = natToBE (n / 256) ++ [UInt8.ofNat (n % 256)] := by
  have hd : n / 256 < n := Nat.div_lt_self (Nat.pos_of_ne_zero h0) (by omega)
  unfold natToBE
  rw [natToBE.go, if_neg h0, natToBE_go_acc n (n / 256) _ hd]

theorem natToBE_zero : natToBE 0 = [] := by simp [natToBE, natToBE.go]

theorem natToBE_length_le : ∀ (w n : Nat), n < 256 ^ w → (natToBE n).length ≤ w := by
  intro w
  induction w with
  | zero => intro n h; have : n = 0 := by simpa using h
            subst this; simp [natToBE_zero]
  | succ w ih =>
    intro n h
    by_cases h0 : n = 0
    · subst h0; simp [natToBE_zero]
    · rw [natToBE_step n h0, List.length_append, List.length_singleton]
      have : n / 256 < 256 ^ w := by
        rw [Nat.div_lt_iff_lt_mul (by omega)]; rw [pow_succ] at h; exact h
      have := ih _ this
      omega

/-- Fixed-width encodings of the two models agree (`gfP.Marshal`). -/
theorem padLeft_natToBE_eq_beFixed : ∀ (w n : Nat), n < 256 ^ w → padLeft w (natToBE n) = beFixed w n := by
  intro w
  induction w with
  | zero => intro n h; have : n = 0 := by simpa using h
            subst this; simp [natToBE_zero, padLeft, beFixed]
  | succ w ih =>
    intro n h
    have hq : n / 256 < 256 ^ w := by
      rw [Nat.div_lt_iff_lt_mul (by omega)]; rw [pow_succ] at h; exact h
    by_cases h0 : n = 0
    · subst h0
      have := ih 0 (by positivity)
      simp only [natToBE_zero, padLeft, List.length_nil, Nat.sub_zero, List.append_nil, beFixed,
        Nat.zero_div, Nat.zero_mod] at this ⊢
      rw [← this, List.replicate_succ']
      rfl
    · have hl := natToBE_length_le w (n / 256) hq
      rw [natToBE_step n h0, beFixed, ← ih _ hq]
      simp only [padLeft, List.length_append, List.length_singleton]
      rw [show w + 1 - ((natToBE (n / 256)).length + 1) = w - (natToBE (n / 256)).length by omega]
      simp

variable [hp : Fact (Nat.Prime P)]

/-- `conv` (C14 → C13) and `φ` (C13 → C14) are inverse renamings. -/
theorem φ_conv (p : Pt) : φ (conv p) = p := by cases p <;> rfl
theorem conv_φ (q : G1.Point) : conv (φ q) = q := by cases q <;> rfl
theorem c13_eq_bnCurve : c13 = bnCurve := rfl

/-- Scalar multiplication of the two models agrees on valid points (the C14 loop is stated for
    scalars `< 2^512`; the C13 loop has no bound). -/
theorem mul_models_agree (p : Pt) (hv : Valid p) (k : Nat) (hk : k < 2 ^ 512) :
    G1.mul bnCurve (conv p) k = conv (Pt.mul p k) := by
  have hv1 : Valid1 (conv p) := by unfold Valid1; rwa [φ_conv]
  obtain ⟨hva, hma⟩ := g1_mul_law (conv p) hv1 k
  obtain ⟨hvb, hmb⟩ := ι_mul p hv k hk
  have : φ (G1.mul bnCurve (conv p) k) = Pt.mul p k := by
    apply ι_inj _ _ hva hvb
    have : μ (G1.mul bnCurve (conv p) k) = k • ι p := by rw [hma]; unfold μ; rw [φ_conv]
    exact this.trans hmb.symm
  rw [← this, conv_φ]

omit hp in
theorem marshal_models_agree (p : Pt) (hr : p.reduced = true) : G1.marshal (conv p) = g1Marshal p := by
  cases p with
  | inf => rfl
  | aff x y =>
    simp only [Pt.reduced, Bool.and_eq_true, decide_eq_true_eq] at hr
    have hx : x < 256 ^ 32 := lt_trans hr.1 P_lt
    have hy : y < 256 ^ 32 := lt_trans hr.2 P_lt
    show padLeft 32 (natToBE x) ++ padLeft 32 (natToBE y) = beFixed NB x ++ beFixed NB y
    rw [padLeft_natToBE_eq_beFixed 32 x hx, padLeft_natToBE_eq_beFixed 32 y hy]
    rfl

end Rangers.Proofs.C13G1
