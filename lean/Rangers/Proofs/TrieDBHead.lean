import Rangers.Model.TrieDBHead
import Rangers.Proofs.TrieDBInv
/-! Invariant of the head record over the node database. Core Lean only. -/
namespace Rangers.Model.TrieDB

def ChainOpOk (eD eC : Hash) (cs : ChainSt) : ChainOp → Prop
  | .node op => OpOk eD eC cs.st op
  /- `state.Commit` stored the account-trie root (the hasher forces the root into the
     database), or the root is on disk already (a block that changes nothing) -/
  | .insertBlock root _ _ => (liveLookup cs.st root).isSome = true
  | .remove _ => True

structure ChainInv (cs : ChainSt) : Prop where
  inv : Inv cs.st
  headsRes : ∀ r ∈ cs.heads, Resolvable cs.st.disk r
  headIn : ∀ r, cs.head = some r → r ∈ cs.heads

theorem commit_ok_root_resolvable {s : St} {root : Hash} {failAt : Option Nat} {fuel : Nat} {out : CommitOut}
    (hi : Inv s) (hc : commit s root failAt fuel = some out) (hok : out.ok = true)
    (hroot : (liveLookup s root).isSome = true) : Resolvable out.st.disk root := by
  have hinv' := commit_inv hi hc
  obtain ⟨ws, p, hw, hp, hd, hcache⟩ := commit_cases hc
  have g := walk_good s.cache s.disk hi.cacheInv fuel root ws hw
  -- ok = true means every Put reached the disk
  have hfull : out.st.disk = applyWrites s.cache s.disk ws := by
    unfold commit at hc
    simp only [hw] at hc
    have hflat : (splitBatches s.cache ws [] 0).flatten = ws := by rw [splitBatches_flatten]; simp
    cases failAt with
    | none => simp at hc; subst hc; simp only; rw [applyBatches_eq, hflat]
    | some k =>
      simp only at hc
      split at hc
      · simp at hc; subst hc; simp at hok
      · simp at hc; subst hc; simp only; rw [applyBatches_eq, hflat]
  apply hinv'.allRes
  rw [hfull]
  unfold liveLookup at hroot
  cases hcr : s.cache.lookup root with
  | some n =>
    exact has_of_lookup (writes_lookup hcr ws s.disk (Or.inl (g.top (has_of_lookup hcr))))
  | none =>
    simp only [hcr] at hroot
    exact extends_has (writes_extends ws s.disk hi.consistent).1 hroot

theorem chainStep_inv {eD eC : Hash} {cs cs' : ChainSt} {op : ChainOp} (hi : ChainInv cs)
    (hok : ChainOpOk eD eC cs op) (hs : chainStep eD eC cs op = some cs') : ChainInv cs' := by
  cases op with
  | node op =>
    simp only [chainStep, Option.map_eq_some_iff] at hs
    obtain ⟨s', hs', rfl⟩ := hs
    have he := step_extends hi.inv hs'
    exact ⟨step_inv hi.inv hok hs', fun r hr => resolvable_extends he (hi.headsRes r hr), hi.headIn⟩
  | insertBlock root failAt hwok =>
    simp only [chainStep] at hs
    cases hc : commit cs.st root failAt (cs.st.cache.length + 1) with
    | none => simp [hc] at hs
    | some out =>
      simp only [hc] at hs
      have he := commit_extends hi.inv.consistent hc
      have hinv' := commit_inv hi.inv hc
      split at hs
      · rename_i hcond
        simp only [Bool.and_eq_true] at hcond
        simp only [Option.some.injEq] at hs
        subst hs
        refine ⟨hinv', ?_, ?_⟩
        · intro r hr
          rcases List.mem_cons.mp hr with h | h
          · subst h; exact commit_ok_root_resolvable hi.inv hc hcond.1 hok
          · exact resolvable_extends he (hi.headsRes r h)
        · intro r hr
          simp only [Option.some.injEq] at hr
          subst hr; exact List.mem_cons_self
      · simp only [Option.some.injEq] at hs
        subst hs
        exact ⟨hinv', fun r hr => resolvable_extends he (hi.headsRes r hr), hi.headIn⟩
  | remove prev =>
    simp only [chainStep] at hs
    split at hs
    · rename_i hcont
      simp only [Option.some.injEq] at hs
      subst hs
      refine ⟨hi.inv, hi.headsRes, ?_⟩
      intro r hr
      simp only [Option.some.injEq] at hr
      subst hr
      simpa using hcont
    · simp at hs

inductive ChainReach (eD eC : Hash) : ChainSt → Prop where
  | init : ChainReach eD eC ChainSt.empty
  | step {cs cs' : ChainSt} (op : ChainOp) : ChainReach eD eC cs → ChainOpOk eD eC cs op →
      chainStep eD eC cs op = some cs' → ChainReach eD eC cs'

theorem chainReach_inv {eD eC : Hash} {cs : ChainSt} (h : ChainReach eD eC cs) : ChainInv cs := by
  induction h with
  | init => exact ⟨inv_empty, by intro r hr; simp [ChainSt.empty] at hr, by intro r hr; simp [ChainSt.empty] at hr⟩
  | step op _ hok hs ih => exact chainStep_inv ih hok hs

end Rangers.Model.TrieDB
