import Rangers.Proofs.GroupChainInv
/-!
Consequences of `Rep` for the iterator and the sync reader, first boot from the
genesis groups, and preservation along arbitrary operation sequences.
-/
namespace Rangers.Model.GroupChain
open Rangers

/-! ### iterator: walking predecessor links from `last` yields the list, ending at genesis -/

theorem take_succ_of_getElem? {α} (l : List α) (i : Nat) (g : α) (h : l[i]? = some g) :
    l.take (i + 1) = l.take i ++ [g] := by
  rw [List.take_add_one, h]; rfl

theorem iterWalk_rep {l : List Group} {c : Chain} (r : Rep l c) :
    ∀ (i : Nat) (g : Group), l[i]? = some g → ∀ fuel, i < fuel →
      iterWalk c.disk fuel g = (l.take (i + 1)).reverse := by
  intro i
  induction i with
  | zero =>
    intro g hg fuel hf
    obtain ⟨f, rfl⟩ : ∃ f, fuel = f + 1 := ⟨fuel - 1, by omega⟩
    have hpre : g.pre = [] := Linked_head [] l g r.linked hg
    have : getGroupById c.disk g.pre = none := by simp [getGroupById, hpre, r.empty]
    rw [take_succ_of_getElem? l 0 g hg]
    simp [iterWalk, this]
  | succ i ih =>
    intro g hg fuel hf
    obtain ⟨f, rfl⟩ : ∃ f, fuel = f + 1 := ⟨fuel - 1, by omega⟩
    have hil : i + 1 < l.length := (List.getElem?_eq_some_iff.mp hg).1
    have ha : l[i]? = some l[i] := List.getElem?_eq_getElem (by omega)
    have hpre : g.pre = l[i].id := Linked_succ [] l i l[i] g r.linked ha hg
    have hget : getGroupById c.disk g.pre = some l[i] := by
      rw [hpre]; exact r.byId (List.getElem_mem _)
    rw [take_succ_of_getElem? l (i + 1) g hg]
    simp [iterWalk, hget, ih l[i] ha f (by omega)]

theorem Rep.length_le_disk {l c} (r : Rep l c) : l.length ≤ c.disk.length := by
  have := present_keys_le (l.map (·.id)) c.disk r.nodup (by
    intro k hk
    obtain ⟨x, hx, rfl⟩ := List.mem_map.mp hk
    simp [r.stored x hx])
  simpa using this

theorem iterList_rep {l : List Group} {c : Chain} (r : Rep l c) : iterList c = l.reverse := by
  unfold iterList
  have hp := r.pos
  have := iterWalk_rep r (l.length - 1) c.last r.last_idx (c.disk.length + 1)
    (by have := r.length_le_disk; omega)
  rw [this]
  congr 1
  exact List.take_of_length_le (by omega)

/-! ### sync reader: exactly the listed groups, no nil entries -/

theorem syncFrom_rep {l : List Group} {c : Chain} (r : Rep l c) :
    ∀ (n h : Nat), h + n < lenBound → syncFrom c.disk h n = ((l.drop h).take n).map some := by
  intro n
  induction n with
  | zero => intro h _; simp [syncFrom]
  | succ n ih =>
    intro h hb
    by_cases hl : h < l.length
    · have hg : l[h]? = some l[h] := List.getElem?_eq_getElem hl
      have hd : l.drop h = l[h] :: l.drop (h + 1) := List.drop_eq_getElem_cons hl
      have e1 := r.slot h l[h] hg
      have e2 := r.byId (List.getElem_mem hl)
      have e3 := ih (h + 1) (by omega)
      rw [hd]
      simp only [syncFrom, e1, e2, e3, List.take_succ_cons, List.map_cons]
    · have hn : sget c.disk (hkey h) = none :=
        r.above h (by omega) (by unfold lenBound at hb; unfold u64; omega)
          (by unfold lenBound at hb; unfold curHeight; omega)
      have hd : l.drop h = [] := List.drop_of_length_le (by omega)
      rw [hd]
      simp only [syncFrom, hn, List.take_nil, List.map_nil]

/-! ### first boot: the genesis groups -/

/-- `gs` as `save` stores them, starting at height `n`. -/
def stampFrom : Nat → List Group → List Group
  | _, [] => []
  | n, g :: t => stamped n g :: stampFrom (n + 1) t

theorem stampFrom_length (n : Nat) (gs : List Group) : (stampFrom n gs).length = gs.length := by
  induction gs generalizing n with
  | nil => rfl
  | cons g t ih => simp [stampFrom, ih]

/-- What start-up needs of `GenerateGenesisInfo()`: non-empty, predecessor-linked from the
    empty id, distinct proper ids. (The built-in mainnet/dev/robin configurations have one
    genesis group with `PreGroup = null`.) -/
structure GenesisOK (gs : List Group) : Prop where
  ne : gs ≠ []
  linked : Linked [] gs
  nodup : (gs.map (·.id)).Nodup
  idok : ∀ g ∈ gs, IdOK g.id
  bound : gs.length < lenBound

theorem rep_save_first' (d : Store) (m : List Bytes) (dummy g : Group) (hid : IdOK g.id) (hpre : g.pre = [])
    (hd : ∀ k, k ≠ g.id → sget d k = none) :
    Rep [stamped 0 g] (save { disk := d, count := 0, last := dummy, mirror := m } g) := by
  have hdisk : (save { disk := d, count := 0, last := dummy, mirror := m } g).disk =
      applyWrites d (saveWrites 0 g) := rfl
  have hsid : (stamped 0 g).id = g.id := rfl
  constructor
  · simp
  · simp [save, u64]
  · simp [lenBound]
  · intro i x hx
    have hi : i = 0 := by
      have := (List.getElem?_eq_some_iff.mp hx).1; simp at this; exact this
    subst hi; simp at hx; subst hx
    rw [hdisk, sget_save]; simp [hkey_ne_cntKey, hsid]
  · intro x hx
    simp at hx; subst hx
    rw [hdisk, sget_save]; simp [hsid, hid.ne_cntKey, hid.ne_hkey, hid.ne_curKey]
  · intro i x hx
    have hi : i = 0 := by
      have := (List.getElem?_eq_some_iff.mp hx).1; simp at this; exact this
    subst hi; simp at hx; subst hx; rfl
  · intro x hx; simp at hx; subst hx; exact hid
  · intro i h1 h2 h3
    simp at h1
    rw [hdisk, sget_save]
    have e2 : hkey i ≠ hkey 0 := fun e => by
      have := hkey_inj h2 (by unfold u64; omega) e; omega
    have e3 : hkey i ≠ curKey := fun e => h3 (hkey_eq_curKey h2 e)
    have e4 : hkey i ≠ g.id := fun e => hid.ne_hkey i e.symm
    simp [hkey_ne_cntKey, e2, e3, e4, hd _ e4]
  · simp [Linked, stamped, hpre]
  · simp
  · simp [save]
  · rw [hdisk, sget_save]; simp [curKey_ne_cntKey, save, stamped]
  · rw [hdisk, sget_save]; simp [u64]
  · rw [hdisk, sget_save]
    have h1 : ([] : Bytes) ≠ cntKey := by decide
    have h2 : ([] : Bytes) ≠ hkey 0 := fun e => hkey_ne_nil _ e.symm
    have h3 : ([] : Bytes) ≠ curKey := by decide
    have h4 : ([] : Bytes) ≠ g.id := fun e => hid.1 e.symm
    simp [h1, h2, h3, h4, hd _ h4]

theorem rep_save_first (m : List Bytes) (dummy g : Group) (hid : IdOK g.id) (hpre : g.pre = []) :
    Rep [stamped 0 g] (save { disk := [], count := 0, last := dummy, mirror := m } g) :=
  rep_save_first' [] m dummy g hid hpre (fun _ _ => rfl)

theorem rep_foldl_save : ∀ (gs : List Group) (l : List Group) (c : Chain), Rep l c →
    Linked c.last.id gs → (∀ g ∈ gs, IdOK g.id) → (l.map (·.id) ++ gs.map (·.id)).Nodup →
    l.length + gs.length < lenBound →
    Rep (l ++ stampFrom l.length gs) (gs.foldl save c) := by
  intro gs
  induction gs with
  | nil => intro l c r _ _ _ _; simpa [stampFrom] using r
  | cons g t ih =>
    intro l c r hlk hid hnd hb
    have hfresh : ∀ x ∈ l, x.id ≠ g.id := by
      intro x hx e
      rw [List.nodup_append] at hnd
      exact hnd.2.2 x.id (List.mem_map.mpr ⟨x, hx, rfl⟩) g.id (by simp) e
    have r1 := rep_save r g (by simp at hb; omega) (hid g (by simp)) hfresh hlk.1
    have hlast : (save c g).last.id = g.id := rfl
    have := ih (l ++ [stamped l.length g]) (save c g) r1 (by rw [hlast]; exact hlk.2)
      (fun x hx => hid x (by simp [hx]))
      (by simpa [stamped, List.append_assoc] using hnd)
      (by simp at hb ⊢; omega)
    simpa [stampFrom, List.append_assoc] using this

/-- First start-up (empty store): the chain represents the stamped genesis groups. -/
theorem rep_init {gs : List Group} (ok : GenesisOK gs) (m : List Bytes) :
    ∃ c, restart [] m gs = some (.alive c) ∧ Rep (stampFrom 0 gs) c := by
  cases gs with
  | nil => exact absurd rfl ok.ne
  | cons g0 rest =>
    refine ⟨(g0 :: rest).foldl save { disk := [], count := 0, last := g0, mirror := m }, by simp [restart, sget], ?_⟩
    have r0 := rep_save_first m g0 g0 (ok.idok g0 (by simp)) ok.linked.1
    have hb := ok.bound
    have := rep_foldl_save rest [stamped 0 g0] _ r0 ok.linked.2
      (fun x hx => ok.idok x (by simp [hx]))
      (by simpa [stamped] using ok.nodup)
      (by simp at hb ⊢; omega)
    simpa [stampFrom] using this

/-! ### operation sequences -/

inductive Op where
  | add (g : Group)
  | rmlast
  | rmto (h : Nat)
  | restart

/-- One operation on a live chain; `none` only if start-up does not come back alive. -/
def stepOp (gen : List Group) (c : Chain) : Op → Option Chain
  | .add g => some (addGroup c g).2
  | .rmlast => some (remove c c.last).2
  | .rmto h => some (rmTo c h)
  | .restart =>
    match restart c.disk c.mirror gen with
    | some (.alive c') => some c'
    | _ => none

def runOps (gen : List Group) : Chain → List Op → Option Chain
  | c, [] => some c
  | c, op :: ops =>
    match stepOp gen c op with
    | some c' => runOps gen c' ops
    | none => none

/-- The abstract list after one operation (what the operation is *supposed* to do). -/
def specStep (l : List Group) (c : Chain) : Op → List Group
  | .add g => if addCheck c g = .ok then l ++ [stamped l.length g] else l
  | .rmlast => if 2 ≤ l.length then l.dropLast else l
  | .rmto h => l.take (h + 1)
  | .restart => l

def OpOK : Op → Prop
  | .add g => IdOK g.id
  | _ => True

theorem rep_step {l : List Group} {c : Chain} (r : Rep l c) (gen : List Group) (op : Op)
    (hok : OpOK op) (hb : l.length + 1 < lenBound) :
    ∃ c', stepOp gen c op = some c' ∧ Rep (specStep l c op) c' := by
  cases op with
  | add g =>
    by_cases h : addCheck c g = .ok
    · refine ⟨(addGroup c g).2, rfl, ?_⟩
      have := rep_add r g hb hok h
      simp only [specStep, h, if_true]
      rw [this.1]; exact this.2
    · refine ⟨(addGroup c g).2, rfl, ?_⟩
      simp only [specStep, h, if_false]
      rw [addGroup_rejected h]; exact r
  | rmlast =>
    refine ⟨(remove c c.last).2, rfl, ?_⟩
    by_cases h2 : 2 ≤ l.length
    · simp only [specStep, h2, if_true]
      have hsplit : l.dropLast ++ [c.last] = l := dropLast_append_getLast? r.last
      have hne : l.dropLast ≠ [] := by
        intro e; have := congrArg List.length e; simp at this; omega
      have r' : Rep (l.dropLast ++ [c.last]) c := by rw [hsplit]; exact r
      exact (rep_remove r' hne).2
    · simp only [specStep, h2, if_false]
      have h1 : l.length = 1 := by have := r.pos; omega
      obtain ⟨g, rfl⟩ : ∃ g, l = [g] := List.length_eq_one_iff.mp h1
      rw [remove_single r]; exact r
  | rmto h => exact ⟨rmTo c h, rfl, rep_rmTo r h⟩
  | restart =>
    obtain ⟨c', h1, _, _, _, h5⟩ := rep_restart r c.mirror gen
    exact ⟨c', by simp [stepOp, h1], h5⟩

theorem specStep_length (l : List Group) (c : Chain) (op : Op) : (specStep l c op).length ≤ l.length + 1 := by
  cases op with
  | add g => simp only [specStep]; split <;> simp
  | rmlast => simp only [specStep]; split <;> simp; omega
  | rmto h => simp [specStep]; omega
  | restart => simp [specStep]

theorem specStep_head (l : List Group) (c : Chain) (op : Op) (hne : l ≠ []) :
    (specStep l c op).head? = l.head? := by
  cases l with
  | nil => exact absurd rfl hne
  | cons a t =>
    cases op with
    | add g => simp only [specStep]; split <;> simp
    | rmlast =>
      simp only [specStep]; split
      · cases t with
        | nil => simp at *
        | cons b t' => simp [List.dropLast]
      · rfl
    | rmto h => simp [specStep]
    | restart => rfl

/-- Along every operation sequence the chain keeps representing some list that still
    starts with the same genesis group. -/
theorem rep_run (gen : List Group) : ∀ (ops : List Op) (l : List Group) (c : Chain), Rep l c →
    (∀ op ∈ ops, OpOK op) → l.length + ops.length < lenBound →
    ∃ c' l', runOps gen c ops = some c' ∧ Rep l' c' ∧ l'.head? = l.head? := by
  intro ops
  induction ops with
  | nil => intro l c r _ _; exact ⟨c, l, rfl, r, rfl⟩
  | cons op ops ih =>
    intro l c r hok hb
    simp only [List.length_cons] at hb
    obtain ⟨c1, h1, r1⟩ := rep_step r gen op (hok op (by simp)) (by omega)
    have hl := specStep_length l c op
    obtain ⟨c', l', h2, r2, hh⟩ := ih (specStep l c op) c1 r1 (fun o ho => hok o (by simp [ho])) (by omega)
    refine ⟨c', l', ?_, r2, ?_⟩
    · simp [runOps, h1, h2]
    · rw [hh, specStep_head l c op r.ne]

/-! ### further read paths -/

theorem firstBelowWalk_eq_find (d : Store) (x : Nat) : ∀ (fuel : Nat) (g : Group),
    firstBelowWalk d x fuel g = (iterWalk d fuel g).find? (fun g => decide (g.create ≤ x)) := by
  intro fuel
  induction fuel with
  | zero => intro g; simp [firstBelowWalk, iterWalk]
  | succ f ih =>
    intro g
    unfold firstBelowWalk iterWalk
    by_cases hc : g.create ≤ x
    · cases hp : getGroupById d g.pre <;> simp [hc]
    · cases hp : getGroupById d g.pre with
      | none => simp [hc]
      | some p => simp [hc, ih p]

/-- `getFirstGroupBelowHeight(x)` = the newest listed group created at or below `x`. -/
theorem firstBelow_rep {l : List Group} {c : Chain} (r : Rep l c) (x : Nat) :
    firstBelow c x = l.reverse.find? (fun g => decide (g.create ≤ x)) := by
  unfold firstBelow
  rw [firstBelowWalk_eq_find]
  have := iterList_rep r
  unfold iterList at this
  rw [this]

/-- `GetSyncGroupsById(id)` for the listed group at index `i`: the (at most five) groups after it. -/
theorem syncById_rep {l : List Group} {c : Chain} (r : Rep l c) (i : Nat) (g : Group) (hg : l[i]? = some g)
    (hb6 : l.length + 6 < lenBound) :
    syncById c.disk g.id = ((l.drop (i + 1)).take 5).map some := by
  have hm : g ∈ l := List.mem_of_getElem? hg
  have hh : g.height = i := r.height i g hg
  have hil : i < l.length := (List.getElem?_eq_some_iff.mp hg).1
  have hb := r.bound
  have hmod : (g.height + 1) % u64 = i + 1 := by
    rw [hh]; unfold lenBound at hb; unfold u64; omega
  unfold syncById
  rw [r.byId hm]
  show syncFrom c.disk ((g.height + 1) % u64) 5 = _
  rw [hmod]
  exact syncFrom_rep r 5 (i + 1) (by omega)

theorem topHeight_rep {l : List Group} {c : Chain} (r : Rep l c) : topHeight c = l.length - 1 := by
  unfold topHeight
  have := r.pos
  rw [r.count]
  split <;> omega

end Rangers.Model.GroupChain
