import Rangers.Proofs.MinerInv
/-! A small concrete `Cfg` (prefix "hash", tagged record encoding) used for non-vacuity examples and
    counterexample witnesses; it satisfies the codec hypotheses the theorems assume. -/
namespace Rangers.Miner

def toyDec (b : Bytes) : Option Info :=
  if b.length < 11 then none
  else match b with
    | 0x7b :: t :: rest => some { id := rest.take (rest.length - 9), pk := [1], vrf := [1], applyHeight := 0, typ := t.toNat }
    | _ => none

def toyCfg : Cfg :=
  { H := fun b => 0xff :: b,
    enc := fun i => [0x7b, UInt8.ofNat i.typ] ++ i.id ++ List.replicate 9 0,
    dec := toyDec }

theorem toy_codecId : CodecId toyCfg := by
  intro i j ht h
  simp only [toyCfg, toyDec] at h
  split at h
  · cases h
  · simp at h
    rw [← h]
    simp
    omega

theorem toy_rawOK : RawOK toyCfg := by
  constructor
  · intro n; simp [toyCfg, toyDec, u64be]
  · intro b; simp [toyCfg, toyDec]

def addr1 : Bytes := List.replicate 20 0xa1
def addr2 : Bytes := List.replicate 20 0xa2

/-- An empty registry at height 100 in which `addr1` and `addr2` hold 100000 tokens each. -/
def funded : State := { State.empty 100 with bal := [(addr1, 100000 * wei), (addr2, 100000 * wei)] }

end Rangers.Miner
