import Rangers.Model.TxAuth
import Rangers.Model.Decimal
import Rangers.Model.Json
/-!
The decimal and JSON renderings `ConvertTx` uses, tied to the models of C18
(`Model/Decimal.lean`, strings as `List Char`, `Nat.toDigits`) and C09 (`Model/Json.lean`).
C07 works on bytes (Go strings are byte sequences); `charByte` is the ASCII embedding.
-/
namespace Rangers.Model.TxAuth
open Rangers

def charByte (c : Char) : UInt8 := UInt8.ofNat c.toNat

theorem decRev_fuel (f g n : Nat) (h : n < f) (h' : n < g) : decRev f n = decRev g n := by
  induction f generalizing g n with
  | zero => omega
  | succ f ih =>
    cases g with
    | zero => omega
    | succ g =>
      unfold decRev
      by_cases h10 : n < 10
      · simp [h10]
      · simp only [h10, ↓reduceIte]
        rw [ih g (n / 10) (by omega) (by omega)]

/-- recursion equation of `strconv.FormatUint(n, 10)` -/
theorem decimal_eq_if (n : Nat) :
    decimal n = if n < 10 then [digitByte n] else decimal (n / 10) ++ [digitByte (n % 10)] := by
  unfold decimal
  rw [decRev]
  by_cases h10 : n < 10
  · simp [h10]
  · simp only [h10, ↓reduceIte, List.reverse_cons]
    rw [decRev_fuel n (n / 10 + 1) (n / 10) (by omega) (by omega)]

theorem charByte_digitChar : ∀ k, k < 10 → charByte (Nat.digitChar k) = digitByte k := by decide

/-- `strconv.FormatUint` / `big.Int.String` of C07 is `Nat.toDigits 10` (what C18 and Lean's
    `Nat.repr` use), byte for character. -/
theorem decimal_eq_toDigits (n : Nat) : decimal n = (Nat.toDigits 10 n).map charByte := by
  induction n using Nat.strongRecOn with
  | _ n ih =>
    rw [decimal_eq_if, Nat.toDigits_eq_if (by omega)]
    by_cases h10 : n < 10
    · simp [h10, charByte_digitChar n h10]
    · simp only [h10, ↓reduceIte, List.map_append, List.map_cons, List.map_nil]
      rw [ih (n / 10) (by omega), charByte_digitChar _ (Nat.mod_lt n (by omega))]

/-- `utility.BigIntToStr` of C07 is C18's `Decimal.BigIntToStr`, byte for character. -/
theorem bigIntToStr_eq_c18 (n : Nat) :
    bigIntToStr n = (Decimal.BigIntToStr (n : Int)).map charByte := by
  unfold bigIntToStr Decimal.BigIntToStr Decimal.bigIntToStr
  by_cases h0 : n = 0
  · subst h0; simp; rfl
  · have hz : ¬ ((n : Int) = 0) := by omega
    have hneg : ¬ ((n : Int) < 0) := by omega
    have hp : ¬ ((18 : Int) < 0) := by omega
    have hna : (n : Int).natAbs = n := Int.natAbs_natCast n
    simp only [h0, ↓reduceIte, hz, hp, hneg, hna, List.nil_append,
      decimal_eq_toDigits, List.length_map]
    have h18 : ¬ ((18 : Nat) = 0) := by omega
    simp only [show (Int.toNat 18) = 18 from rfl, h18, ↓reduceIte]
    by_cases hl : (Nat.toDigits 10 n).length ≤ 18
    · simp only [hl, ↓reduceIte, List.map_cons, List.map_append, List.map_replicate, List.cons_append,
        List.nil_append]
      rfl
    · simp only [hl, ↓reduceIte, List.map_append, List.map_cons, List.map_take, List.map_drop]
      rfl

end Rangers.Model.TxAuth
