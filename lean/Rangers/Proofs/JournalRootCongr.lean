import Rangers.Proofs.JournalRootRel
/-! Every `undo` respects `SimR`. -/
namespace Rangers.Proofs.JournalG
open Rangers Rangers.Model.Journal Rangers.Proofs.Journal

theorem resolve_dirtySet (s : ADB) (a : Addr) : (resolve s a).1.dirtySet = s.dirtySet := by rw [resolve_fields]

/-- `modify_live` plus the dirty set -/
theorem modify_liveX {s : ADB} {a : Addr} {o : Obj} (h : res s a = .live o) (f : Obj → Obj)
    (hf : (f o).deleted = false) :
    ∃ s1, resolve s a = (s1, some o) ∧ mget s1.objs a = some o ∧
      (markDirty s1 a (f o)).crashed = s.crashed ∧
      (∀ b, res (markDirty s1 a (f o)) b = if a = b then Res.live { f o with armed := false } else res s b) ∧
      (∀ b, b ∈ (markDirty s1 a (f o)).dirtySet ↔ ((f o).armed = true ∧ b = a) ∨ b ∈ s.dirtySet) := by
  obtain ⟨s1, e1, m1, _, c1, r1⟩ := modify_live h f hf
  refine ⟨s1, e1, m1, c1, r1, fun b => ?_⟩
  rw [markDirty_dirtySet]
  have : s1.dirtySet = s.dirtySet := by have := resolve_dirtySet s a; rw [e1] at this; exact this
  rw [this]

/-- the `Extra` half of `SimR` for "resolve `a`, store `f` of it through `markDirty`" on both sides -/
theorem modify_congrX {s t : ADB} (h : SimR s t) (hs : s.crashed = false) (a : Addr) (f : Obj → Obj)
    (hfd : ∀ o, (f o).deleted = o.deleted) (hfa : ∀ o, (f o).armed = o.armed)
    (hf : ∀ o o', XObj o o' → XObj { f o with armed := false } { f o' with armed := false })
    (F : ADB → Obj → ADB) (hF : ∀ (u : ADB) (o : Obj), mget u.objs a = some o → F u o = markDirty u a (f o)) :
    let rs := (match resolve s a with | (s1, none) => crash s1 | (s1, some o) => F s1 o)
    let rt := (match resolve t a with | (t1, none) => crash t1 | (t1, some o) => F t1 o)
    rs.crashed = false → (∀ b, b ∈ rs.dirtySet ↔ b ∈ rt.dirtySet) ∧ ∀ b, XRes (res rs b) (res rt b) := by
  intro rs rt hrc
  have R := h.x hs a
  cases hrs : res s a with
  | deleted => simp only [rs, resolve_deleted hrs, crash] at hrc; cases hrc
  | absent => simp only [rs, (resolve_absent hrs).1, crash] at hrc; cases hrc
  | live o =>
    rw [hrs] at R
    obtain ⟨o', hrt, ho⟩ := R.of_live
    have hd : o.deleted = false := by obtain ⟨_, _, _, hd, _⟩ := resolve_live hrs; exact hd
    have hd' : o'.deleted = false := by obtain ⟨_, _, _, hd, _⟩ := resolve_live hrt; exact hd
    obtain ⟨s1, e1, m1, _, r1, d1⟩ := modify_liveX hrs f ((hfd o).trans hd)
    obtain ⟨t1, e2, m2, _, r2, d2⟩ := modify_liveX hrt f ((hfd o').trans hd')
    simp only [rs, rt, e1, e2, hF s1 o m1, hF t1 o' m2]
    refine extra_upd (δ := o.armed) h hs r1 r2 (fun b => ?_) (fun b => ?_) (hf o o' ho)
    · rw [d1 b, hfa]
    · rw [d2 b, hfa, ← ho.armed]

theorem Fx_setSlot (o : Obj) (k k' : Key) (v : Val) :
    Fx { o with cached := mset o.cached k v, dirty := mset o.dirty k v } k' =
      if k = k' then (if v = [] then none else some v) else Fx o k' := by
  simp only [Fx, mget_mset]
  by_cases h : k = k' <;> simp [h]

theorem isEmpty_mset {α : Type} (m : List (Bytes × α)) (k : Bytes) (v : α) : (mset m k v).isEmpty = false := by
  cases m with
  | nil => rfl
  | cons p t => obtain ⟨pk, pv⟩ := p; simp only [mset]; split <;> rfl

theorem XObj_setSlot {o o' : Obj} (ho : XObj o o') (k : Key) (v : Val) :
    XObj { ({ o with cached := mset o.cached k v, dirty := mset o.dirty k v } : Obj) with armed := false }
         { ({ o' with cached := mset o'.cached k v, dirty := mset o'.dirty k v } : Obj) with armed := false } :=
  ⟨ho.nonce, ho.codeHash, ho.suicided, rfl, fun k' => by
      have h1 := Fx_setSlot o k k' v
      have h2 := Fx_setSlot o' k k' v
      simp only [Fx] at h1 h2 ⊢
      rw [h1, h2]
      by_cases hk : k = k'
      · simp [hk]
      · simp only [hk, if_false]; exact ho.fx k',
    by simp [isEmpty_mset], by simp [isEmpty_mset]⟩

/-- the un-journaled balance write respects `SimR` -/
theorem setBalanceRaw_congrR (c : Cfg) {s t : ADB} (h : SimR s t) (hs : s.crashed = false) (a : Addr) (n : Nat) :
    SimR (setBalanceRaw c s a n) (setBalanceRaw c t a n) := by
  have hsim := setBalanceRaw_congr c h.sim a n
  have ht : t.crashed = false := h.sim.crashed ▸ hs
  suffices key : (setBalanceRaw c s a n).crashed = false →
      (∀ b, b ∈ (setBalanceRaw c s a n).dirtySet ↔ b ∈ (setBalanceRaw c t a n).dirtySet) ∧
      ∀ b, XRes (res (setBalanceRaw c s a n) b) (res (setBalanceRaw c t a n) b) from
    ⟨hsim, fun hc => (key hc).1, fun hc => (key hc).2⟩
  have R := h.x hs c.tok
  unfold setBalanceRaw
  cases hrs : res s c.tok with
  | deleted => rw [resolveNew_deleted hrs]; intro hc; simp [crash] at hc
  | absent =>
    rw [hrs] at R
    have hrt := R.of_absent
    rw [resolveNew_absent hrs, resolveNew_absent hrt]
    simp only
    unfold setDataRaw
    simp only [mget_mset_self]
    intro _
    refine extra_upd (a := c.tok) (δ := true) (os := freshSet (c.balKey a) (natToBE n)) (ot := freshSet (c.balKey a) (natToBE n))
      h hs (fun b => ?_) (fun b => ?_) (fun b => ?_) (fun b => ?_) (XObj.refl _)
    · rw [res_markDirty _ _ _ _ rfl]
      by_cases hab : c.tok = b
      · simp [hab, freshSet]
      · simp only [hab, if_false]
        rw [res_of_mset (s := s) (r := { s with objs := mset s.objs c.tok Obj.fresh, dirtySet := sadd s.dirtySet c.tok, journal := s.journal ++ [Entry.create c.tok] }) (a := c.tok) (o := Obj.fresh) rfl rfl rfl b]; simp [hab]
    · rw [res_markDirty _ _ _ _ rfl]
      by_cases hab : c.tok = b
      · simp [hab, freshSet]
      · simp only [hab, if_false]
        rw [res_of_mset (s := t) (r := { t with objs := mset t.objs c.tok Obj.fresh, dirtySet := sadd t.dirtySet c.tok, journal := t.journal ++ [Entry.create c.tok] }) (a := c.tok) (o := Obj.fresh) rfl rfl rfl b]; simp [hab]
    · rw [markDirty_dirtySet]; simp [mem_sadd, Obj.fresh]
    · rw [markDirty_dirtySet]; simp [mem_sadd, Obj.fresh]
  | live o =>
    rw [hrs] at R
    obtain ⟨o', hrt, ho⟩ := R.of_live
    have hd : o.deleted = false := by obtain ⟨_, _, _, hd, _⟩ := resolve_live hrs; exact hd
    have hd' : o'.deleted = false := by obtain ⟨_, _, _, hd, _⟩ := resolve_live hrt; exact hd
    obtain ⟨s1, e1, m1, _, r1, d1⟩ := modify_liveX hrs
      (fun o => { o with cached := mset o.cached (c.balKey a) (natToBE n), dirty := mset o.dirty (c.balKey a) (natToBE n) }) (by exact hd)
    obtain ⟨t1, e2, m2, _, r2, d2⟩ := modify_liveX hrt
      (fun o => { o with cached := mset o.cached (c.balKey a) (natToBE n), dirty := mset o.dirty (c.balKey a) (natToBE n) }) (by exact hd')
    rw [resolveNew_live hrs, resolveNew_live hrt, e1, e2]
    simp only
    unfold setDataRaw
    simp only [m1, m2]
    intro _
    refine extra_upd (δ := o.armed) h hs r1 r2 (fun b => d1 b) (fun b => ?_) (XObj_setSlot ho _ _)
    rw [d2 b, ← ho.armed]

theorem undo_crashed_iff (c : Cfg) {s : ADB} (h : s.crashed = true) (e : Entry) : (undo c s e).crashed = true := by
  rw [undo_crashed c h]; exact h

theorem undo_congrR (c : Cfg) {s t : ADB} (h : SimR s t) (e : Entry) : SimR (undo c s e) (undo c t e) := by
  have hsim := undo_congr c h.sim e
  by_cases hs : s.crashed = true
  · exact SimR.of_crashed (undo_crashed_iff c hs e) (undo_crashed_iff c (h.sim.crashed ▸ hs) e)
  have hs : s.crashed = false := by simpa using hs
  have ht : t.crashed = false := h.sim.crashed ▸ hs
  suffices key : (undo c s e).crashed = false →
      (∀ b, b ∈ (undo c s e).dirtySet ↔ b ∈ (undo c t e).dirtySet) ∧ ∀ b, XRes (res (undo c s e) b) (res (undo c t e) b) from
    ⟨hsim, fun hc => (key hc).1, fun hc => (key hc).2⟩
  have F := h.sim.frame hs
  cases e with
  | create a =>
    simp only [undo, hs, ht, Bool.false_eq_true, if_false]
    intro _
    refine ⟨fun b => by simp only [mem_sdel, h.dirty hs b], fun b => ?_⟩
    simp only [res_def, mget_mdel]
    by_cases hab : a = b
    · simp only [hab, if_true, F.trie]; exact XRes.refl _
    · simp only [hab, if_false]; exact h.x hs b
  | nonce a prev =>
    simp only [undo, hs, ht, Bool.false_eq_true, if_false]
    exact modify_congrX h hs a (fun o => { o with nonce := prev }) (fun _ => rfl) (fun _ => rfl)
      (fun o o' ho => ⟨rfl, ho.codeHash, ho.suicided, rfl, ho.fx, ho.cemp, ho.demp⟩)
      (fun u _ => setNonceRaw u a prev) (fun u o hm => by simp [setNonceRaw, hm])
  | storage a k prev =>
    simp only [undo, hs, ht, Bool.false_eq_true, if_false]
    exact modify_congrX h hs a (fun o => { o with cached := mset o.cached k prev, dirty := mset o.dirty k prev }) (fun _ => rfl) (fun _ => rfl)
      (fun o o' ho => ⟨ho.nonce, ho.codeHash, ho.suicided, rfl, fun k' => by
          have h1 := Fx_setSlot o k k' prev
          have h2 := Fx_setSlot o' k k' prev
          simp only [Fx] at h1 h2 ⊢
          rw [h1, h2]
          by_cases hk : k = k'
          · simp [hk]
          · simp only [hk, if_false]; exact ho.fx k',
        by simp [isEmpty_mset], by simp [isEmpty_mset]⟩)
      (fun u _ => setDataRaw u a k prev) (fun u o hm => by simp [setDataRaw, hm])
  | code a prevCode prevHash =>
    simp only [undo, hs, ht, Bool.false_eq_true, if_false]
    exact modify_congrX h hs a (fun o => { o with code := prevCode, codeHash := toHash prevHash, dirtyCode := true }) (fun _ => rfl) (fun _ => rfl)
      (fun o o' ho => ⟨ho.nonce, rfl, ho.suicided, rfl, ho.fx, ho.cemp, ho.demp⟩)
      (fun u _ => setCodeRaw u a (toHash prevHash) prevCode) (fun u o hm => by simp [setCodeRaw, hm])
  | refund prev =>
    simp only [undo, hs, ht, Bool.false_eq_true, if_false]
    exact fun _ => ⟨h.dirty hs, h.x hs⟩
  | addLog th =>
    simp only [undo, hs, ht, Bool.false_eq_true, if_false, ← F.logs, ← F.logSize]
    split
    · intro hc; simp [crash] at hc
    · exact fun _ => ⟨h.dirty hs, h.x hs⟩
    · exact fun _ => ⟨h.dirty hs, h.x hs⟩
  | alAddr a =>
    simp only [undo, hs, ht, Bool.false_eq_true, if_false]
    exact fun _ => ⟨h.dirty hs, h.x hs⟩
  | alSlot a slot =>
    simp only [undo, hs, ht, Bool.false_eq_true, if_false, ← F.al]
    split
    · intro hc; simp [crash] at hc
    · exact fun _ => ⟨h.dirty hs, h.x hs⟩
  | transient a k prev =>
    simp only [undo, hs, ht, Bool.false_eq_true, if_false]
    exact fun _ => ⟨h.dirty hs, h.x hs⟩
  | touch a prev prevDirty =>
    simp only [undo, hs, ht, Bool.false_eq_true, if_false]
    split
    · have R := h.x hs a
      cases hrs : res s a with
      | deleted => rw [resolve_deleted hrs]; intro hc; simp [crash] at hc
      | absent => rw [(resolve_absent hrs).1]; intro hc; simp [crash] at hc
      | live o =>
        rw [hrs] at R
        obtain ⟨o', hrt, ho⟩ := R.of_live
        obtain ⟨s1, e1, m1, hd, hf1, r1⟩ := resolve_live hrs
        obtain ⟨t1, e2, m2, hd', hf2, r2⟩ := resolve_live hrt
        have ds1 : s1.dirtySet = s.dirtySet := by rw [hf1]
        have dt1 : t1.dirtySet = t.dirtySet := by rw [hf2]
        rw [e1, e2]
        simp only
        intro _
        have hx : XObj { o with touched := prev } { o' with touched := prev } :=
          ⟨ho.nonce, ho.codeHash, ho.suicided, ho.armed, ho.fx, ho.cemp, ho.demp⟩
        have rs : ∀ (u : ADB) (ds : List Addr) (x : Obj), x.deleted = false → ∀ b,
            res { putObj u a x with dirtySet := ds } b = if a = b then Res.live x else res u b := by
          intro u ds x hx b
          rw [← res_putObj u a b x hx]; exact res_congr rfl rfl b
        split
        · refine ⟨fun b => ?_, fun b => ?_⟩
          · simp only [mem_sdel, putObj, ds1, dt1, h.dirty hs b]
          · rw [rs s1 _ _ (by exact hd) b, rs t1 _ _ (by exact hd') b]
            by_cases hab : a = b
            · simp only [hab, if_true]; exact .live hx
            · simp only [hab, if_false, r1 b, r2 b]; exact h.x hs b
        · refine ⟨fun b => ?_, fun b => ?_⟩
          · simp only [putObj, ds1, dt1, h.dirty hs b]
          · rw [res_putObj s1 a b _ (by exact hd), res_putObj t1 a b _ (by exact hd')]
            by_cases hab : a = b
            · simp only [hab, if_true]; exact .live hx
            · simp only [hab, if_false, r1 b, r2 b]; exact h.x hs b
    · exact fun _ => ⟨h.dirty hs, h.x hs⟩
  | suicide a prev prevBal =>
    simp only [undo, hs, ht, Bool.false_eq_true, if_false]
    have R := h.x hs a
    cases hrs : res s a with
    | deleted =>
      rw [hrs] at R
      rw [resolve_deleted hrs, resolve_deleted R.of_deleted]; exact fun _ => ⟨h.dirty hs, h.x hs⟩
    | absent =>
      rw [hrs] at R
      rw [(resolve_absent hrs).1, (resolve_absent R.of_absent).1]; exact fun _ => ⟨h.dirty hs, h.x hs⟩
    | live o =>
      rw [hrs] at R
      obtain ⟨o', hrt, ho⟩ := R.of_live
      have RS := (h.sim.objs hs a)
      rw [hrs, hrt] at RS
      obtain ⟨_, e', hos⟩ := RS.of_live
      cases e'
      obtain ⟨s1, e1, m1, hd, hf1, r1⟩ := resolve_live hrs
      obtain ⟨t1, e2, m2, hd', hf2, r2⟩ := resolve_live hrt
      rw [e1, e2]
      simp only
      have fs1 : Frame s1 s := by rw [hf1]; exact ⟨rfl, rfl, rfl, rfl, rfl, rfl, fun _ _ => rfl, rfl, rfl, rfl⟩
      have ft1 : Frame t1 t := by rw [hf2]; exact ⟨rfl, rfl, rfl, rfl, rfl, rfl, fun _ _ => rfl, rfl, rfl, rfl⟩
      have cs1 : s1.crashed = s.crashed := by rw [hf1]
      have ct1 : t1.crashed = t.crashed := by rw [hf2]
      have ds1 : s1.dirtySet = s.dirtySet := by rw [hf1]
      have dt1 : t1.dirtySet = t.dirtySet := by rw [hf2]
      have hrsa : ∀ b, res (putObj s1 a { o with suicided := prev }) b = if a = b then Res.live { o with suicided := prev } else res s b := by
        intro b; rw [res_putObj s1 a b _ (by exact hd)]; by_cases hab : a = b <;> simp [hab, r1 b]
      have hrta : ∀ b, res (putObj t1 a { o' with suicided := prev }) b = if a = b then Res.live { o' with suicided := prev } else res t b := by
        intro b; rw [res_putObj t1 a b _ (by exact hd')]; by_cases hab : a = b <;> simp [hab, r2 b]
      have mid : SimR (putObj s1 a { o with suicided := prev }) (putObj t1 a { o' with suicided := prev }) := by
        have hsim' : Sim (putObj s1 a { o with suicided := prev }) (putObj t1 a { o' with suicided := prev }) :=
          sim_upd (a := a) h.sim hs ((putObj_Frame _ _ _).trans fs1) ((putObj_Frame _ _ _).trans ft1) (cs1.trans hs) (ct1.trans ht)
            hrsa hrta ⟨hos.1, hos.2.1, rfl, hos.2.2.2.1, hos.2.2.2.2⟩
        have ex := extra_upd (δ := false) (a := a) h hs hrsa hrta
          (fun b => by simp [putObj, ds1]) (fun b => by simp [putObj, dt1])
          (⟨ho.nonce, ho.codeHash, rfl, ho.armed, ho.fx, ho.cemp, ho.demp⟩ : XObj { o with suicided := prev } { o' with suicided := prev })
        exact ⟨hsim', fun _ => ex.1, fun _ => ex.2⟩
      have fin := setBalanceRaw_congrR c mid (cs1.trans hs) a prevBal
      exact fun hc => ⟨fin.dirty hc, fin.x hc⟩

end Rangers.Proofs.JournalG
