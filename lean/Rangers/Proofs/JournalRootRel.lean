import Rangers.Proofs.JournalRevertG
import Rangers.Proofs.JournalSuicide
/-! The finer relation `SimR` behind the positive root theorem: besides answering all queries alike
(`Sim`), two states agree on what `Finalise` will do — same dirty set (as a set), and per resolved
account object: same `onDirty` state, same flushed storage, same cache emptiness. -/
namespace Rangers.Proofs.JournalG
open Rangers Rangers.Model.Journal Rangers.Proofs.Journal

/-- value `updateTrie` leaves in the storage trie at `k` -/
def Fx (o : Obj) (k : Key) : Option Val :=
  match mget o.dirty k with
  | some v => if v = [] then none else some v
  | none => mget o.strie k

theorem mget_flush (strie dirty : List (Key × Val)) (k : Key) :
    mget (flush strie dirty) k = (match mget dirty k with
      | some v => if v = [] then none else some v
      | none => mget strie k) := by
  induction dirty with
  | nil => simp [flush]
  | cons p rest ih =>
    obtain ⟨k1, v1⟩ := p
    have hstep : flush strie ((k1, v1) :: rest) = (if v1 = [] then mdel (flush strie rest) k1 else mset (flush strie rest) k1 v1) := rfl
    rw [hstep]
    by_cases hv : v1 = []
    · simp only [hv, if_true, mget_mdel, mget]
      by_cases hk : k1 = k
      · simp [hk]
      · simp [hk, ih]
    · simp only [hv, if_false, mget_mset, mget]
      by_cases hk : k1 = k
      · simp [hk, hv]
      · simp [hk, ih]

theorem Fx_flushed (o : Obj) (k : Key) : mget o.flushed.strie k = Fx o k := mget_flush _ _ _

structure XObj (o o' : Obj) : Prop where
  nonce : o.nonce = o'.nonce
  codeHash : o.codeHash = o'.codeHash
  suicided : o.suicided = o'.suicided
  armed : o.armed = o'.armed
  fx : ∀ k, Fx o k = Fx o' k
  cemp : o.cached.isEmpty = o'.cached.isEmpty
  demp : o.dirty.isEmpty = o'.dirty.isEmpty

theorem XObj.refl (o : Obj) : XObj o o := ⟨rfl, rfl, rfl, rfl, fun _ => rfl, rfl, rfl⟩
theorem XObj.trans {o o' o'' : Obj} (h : XObj o o') (h' : XObj o' o'') : XObj o o'' :=
  ⟨h.nonce.trans h'.nonce, h.codeHash.trans h'.codeHash, h.suicided.trans h'.suicided, h.armed.trans h'.armed,
   fun k => (h.fx k).trans (h'.fx k), h.cemp.trans h'.cemp, h.demp.trans h'.demp⟩

inductive XRes : Res → Res → Prop
  | absent : XRes .absent .absent
  | deleted : XRes .deleted .deleted
  | live {o o' : Obj} : XObj o o' → XRes (.live o) (.live o')

theorem XRes.refl (r : Res) : XRes r r := by
  cases r with
  | absent => exact .absent
  | deleted => exact .deleted
  | live o => exact .live (XObj.refl o)
theorem XRes.trans {r r' r'' : Res} (h : XRes r r') (h' : XRes r' r'') : XRes r r'' := by
  cases h with
  | absent => exact h'
  | deleted => exact h'
  | live h => cases h' with | live h' => exact .live (h.trans h')
theorem XRes.of_live {o : Obj} {r : Res} (h : XRes (.live o) r) : ∃ o', r = .live o' ∧ XObj o o' := by
  cases h with | live h => exact ⟨_, rfl, h⟩
theorem XRes.of_absent {r : Res} (h : XRes .absent r) : r = .absent := by cases h; rfl
theorem XRes.of_deleted {r : Res} (h : XRes .deleted r) : r = .deleted := by cases h; rfl

structure SimR (s t : ADB) : Prop where
  sim : Sim s t
  dirty : s.crashed = false → ∀ a, a ∈ s.dirtySet ↔ a ∈ t.dirtySet
  x : s.crashed = false → ∀ a, XRes (res s a) (res t a)

theorem SimR.refl (s : ADB) : SimR s s := ⟨Sim.refl s, fun _ _ => Iff.rfl, fun _ _ => XRes.refl _⟩
theorem SimR.trans {s t u : ADB} (h : SimR s t) (h' : SimR t u) : SimR s u :=
  ⟨h.sim.trans h'.sim,
   fun hc a => (h.dirty hc a).trans (h'.dirty (h.sim.crashed ▸ hc) a),
   fun hc a => (h.x hc a).trans (h'.x (h.sim.crashed ▸ hc) a)⟩

theorem SimR.of_crashed {s t : ADB} (hs : s.crashed = true) (ht : t.crashed = true) : SimR s t :=
  ⟨Sim.of_crashed hs ht, fun h => by simp [hs] at h, fun h => by simp [hs] at h⟩

theorem mem_sadd (m : List Bytes) (k b : Bytes) : b ∈ sadd m k ↔ b = k ∨ b ∈ m := by
  unfold sadd
  by_cases h : k ∈ m
  · simp only [h, if_true]; constructor
    · exact Or.inr
    · rintro (rfl | h') <;> assumption
  · simp only [h, if_false, List.mem_append, List.mem_singleton]; exact Or.comm

theorem mem_sdel (m : List Bytes) (k b : Bytes) : b ∈ sdel m k ↔ b ≠ k ∧ b ∈ m := by
  unfold sdel; simp [List.mem_filter, and_comm]

theorem markDirty_dirtySet (s : ADB) (a b : Addr) (o : Obj) :
    b ∈ (markDirty s a o).dirtySet ↔ (o.armed = true ∧ b = a) ∨ b ∈ s.dirtySet := by
  unfold markDirty
  by_cases h : o.armed = true
  · simp only [h, if_true, mem_sadd, true_and]
  · simp [h]

/-- states that agree on objects, dirty set, trie and everything `Sim` sees -/
theorem simR_of_same_view {s t : ADB} (hc : s.crashed = t.crashed) (ho : s.objs = t.objs) (hd : s.dirtySet = t.dirtySet)
    (F : Frame s t) : SimR s t :=
  ⟨sim_of_same_view hc ho F, fun _ a => by rw [hd], fun _ a => by rw [res_congr ho F.trie a]; exact XRes.refl _⟩

/-- both sides store similar objects at `a` and add `a` to the dirty set alike -/
theorem extra_upd {s t rs rt : ADB} {a : Addr} {os ot : Obj} {δ : Bool} (h : SimR s t) (hs : s.crashed = false)
    (hrs : ∀ b, res rs b = if a = b then Res.live os else res s b)
    (hrt : ∀ b, res rt b = if a = b then Res.live ot else res t b)
    (hds : ∀ b, b ∈ rs.dirtySet ↔ (δ = true ∧ b = a) ∨ b ∈ s.dirtySet)
    (hdt : ∀ b, b ∈ rt.dirtySet ↔ (δ = true ∧ b = a) ∨ b ∈ t.dirtySet)
    (ho : XObj os ot) : (∀ b, b ∈ rs.dirtySet ↔ b ∈ rt.dirtySet) ∧ ∀ b, XRes (res rs b) (res rt b) := by
  refine ⟨fun b => ?_, fun b => ?_⟩
  · rw [hds b, hdt b, h.dirty hs b]
  · rw [hrs b, hrt b]
    by_cases hab : a = b
    · simp only [hab, if_true]; exact .live ho
    · simp only [hab, if_false]; exact h.x hs b

end Rangers.Proofs.JournalG
