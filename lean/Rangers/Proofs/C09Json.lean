import Rangers.Proofs.C09Conv
/-! `decReqIds (encReqIds r) = r` for every canonical RequestIds map (C09). Core Lean only. -/
namespace Rangers.Json
open Rangers

theorem digit_toNat (k : Nat) (h : k < 10) : (UInt8.ofNat (48 + k)).toNat = 48 + k :=
  Wire.u8_ofNat_toNat _ (by omega)

theorem parseDigits_digit (k : Nat) (h : k < 10) (rest : Bytes) (acc : Nat) :
    parseDigits (UInt8.ofNat (48 + k) :: rest) acc = parseDigits rest (acc * 10 + k) := by
  have hb := digit_toNat k h
  simp only [parseDigits, hb]
  have : 48 ≤ 48 + k ∧ 48 + k ≤ 57 := by omega
  simp only [this, and_self, if_true]
  congr 1
  omega

/-- Reading back the digits `decNatF` wrote. -/
theorem parseDigits_decNatF (f : Nat) : ∀ (n acc : Nat) (rest : Bytes), n < 10 ^ f →
    parseDigits (decNatF f n ++ rest) acc = parseDigits rest (acc * 10 ^ (decNatF f n).length + n) := by
  induction f with
  | zero => intro n acc rest h; simp at h; subst h; simp [decNatF]
  | succ f ih =>
    intro n acc rest h
    unfold decNatF
    by_cases hn : n < 10
    · simp only [hn, if_true, List.cons_append, List.nil_append, List.length_cons, List.length_nil]
      rw [parseDigits_digit n hn]
    · simp only [hn, if_false, List.append_assoc, List.cons_append, List.nil_append, List.length_append,
        List.length_cons, List.length_nil]
      have hq : n / 10 < 10 ^ f := by
        rw [Nat.pow_succ] at h
        exact Nat.div_lt_of_lt_mul (by rw [Nat.mul_comm]; exact h)
      rw [ih (n / 10) acc _ hq, parseDigits_digit (n % 10) (Nat.mod_lt _ (by decide))]
      congr 1
      rw [Nat.pow_succ, ← Nat.mul_assoc]
      generalize acc * 10 ^ (decNatF f (n / 10)).length = X
      omega

theorem lt_ten_pow (n : Nat) : n < 10 ^ (n + 1) := by
  have h1 : n < 2 ^ n := Nat.lt_two_pow_self
  have h2 : 2 ^ n ≤ 10 ^ (n + 1) := by
    calc 2 ^ n ≤ 10 ^ n := Nat.pow_le_pow_left (by decide) n
      _ ≤ 10 ^ (n + 1) := Nat.pow_le_pow_right (by decide) (by omega)
  omega

theorem decNatF_head (f : Nat) : ∀ n, 1 ≤ n → n < 10 ^ f →
    ∃ b tl, decNatF f n = b :: tl ∧ 49 ≤ b.toNat ∧ b.toNat ≤ 57 := by
  induction f with
  | zero => intro n h1 h2; simp at h2; omega
  | succ f ih =>
    intro n h1 h2
    unfold decNatF
    by_cases hn : n < 10
    · refine ⟨_, [], by rw [if_pos hn], ?_⟩
      rw [digit_toNat n hn]; omega
    · have hq : n / 10 < 10 ^ f := by
        rw [Nat.pow_succ] at h2
        exact Nat.div_lt_of_lt_mul (by rw [Nat.mul_comm]; exact h2)
      obtain ⟨b, tl, e, hb⟩ := ih (n / 10) (by omega) hq
      exact ⟨b, tl ++ [UInt8.ofNat (48 + n % 10)], by simp only [hn, if_false, e, List.cons_append], hb⟩

def NonDigitHead : Bytes → Prop
  | [] => True
  | c :: _ => ¬ (48 ≤ c.toNat ∧ c.toNat ≤ 57)

theorem parseDigits_stop (rest : Bytes) (acc : Nat) (h : NonDigitHead rest) : parseDigits rest acc = (acc, rest) := by
  cases rest with
  | nil => rfl
  | cons c r => simp only [NonDigitHead] at h; simp only [parseDigits, h, if_false]

/-- `parseNum` reads back the literal `decNat` wrote (any uint64), stopping at `,` or `}`. -/
theorem parseNum_decNat (v : Nat) (rest : Bytes) (hv : v < 2 ^ 64) (hr : NonDigitHead rest) :
    parseNum (decNat v ++ rest) = some (v, rest) := by
  by_cases h0 : v = 0
  · subst h0
    have : decNat 0 = [48] := by decide
    rw [this]
    cases rest with
    | nil => simp [parseNum]
    | cons c r =>
      simp only [NonDigitHead] at hr
      simp [parseNum, hr]
  · obtain ⟨b, tl, e, hb1, hb2⟩ := decNatF_head (v + 1) v (by omega) (lt_ten_pow v)
    have hall := parseDigits_decNatF (v + 1) v 0 rest (lt_ten_pow v)
    rw [parseDigits_stop rest _ hr] at hall
    unfold decNat
    rw [e] at hall ⊢
    simp only [List.cons_append] at hall ⊢
    have hne : ¬ (b = 48) := by intro h; rw [h] at hb1; revert hb1; decide
    simp only [parseNum, hne, if_false, hb1, hb2, and_self, if_true, hall]
    simp only [Nat.zero_mul, Nat.zero_add]
    have : v < 18446744073709551616 := by simpa using hv
    simp [this]

theorem parseKey_quote (k rest : Bytes) (h : ∀ b ∈ k, safeKeyByte b = true) :
    parseKey (k ++ [34] ++ rest) = some (k, rest) := by
  induction k with
  | nil => simp [parseKey]
  | cons b k ih =>
    have hb := h b (by simp)
    have hne : ¬ (b = 34) := by
      intro e; rw [e] at hb; revert hb; decide
    simp only [List.cons_append, parseKey, hne, if_false, hb, if_true]
    have := ih (fun x hx => h x (by simp [hx]))
    simp only [List.append_assoc] at this ⊢
    simp only [List.cons_append, List.nil_append] at this ⊢
    rw [this]

/-- key bytes JSON writes verbatim, values that are uint64. -/
def EntryOK (kv : Bytes × Nat) : Prop := (∀ b ∈ kv.1, safeKeyByte b = true) ∧ kv.2 < 2 ^ 64

theorem nonDigit_125 (r : Bytes) : NonDigitHead (125 :: r) := by simp [NonDigitHead]
theorem nonDigit_44 (r : Bytes) : NonDigitHead (44 :: r) := by simp [NonDigitHead]

theorem entry_last (k : Bytes) (v f : Nat) (acc : List (Bytes × Nat)) (hk : EntryOK (k, v)) :
    parseEntries (f + 1) (quote k ++ [58] ++ decNat v ++ [125]) acc = some (insertKV k v acc) := by
  simp only [quote, List.append_assoc, List.cons_append, List.nil_append, parseEntries]
  have hkey := parseKey_quote k ([58] ++ (decNat v ++ [125])) hk.1
  simp only [List.append_assoc, List.cons_append, List.nil_append] at hkey
  rw [hkey]
  simp only [parseNum_decNat v [125] hk.2 (nonDigit_125 _)]

theorem entry_more (k : Bytes) (v f : Nat) (acc : List (Bytes × Nat)) (T : Bytes) (hk : EntryOK (k, v)) :
    parseEntries (f + 1) (quote k ++ [58] ++ decNat v ++ [44] ++ T) acc = parseEntries f T (insertKV k v acc) := by
  simp only [quote, List.append_assoc, List.cons_append, List.nil_append, parseEntries]
  have hkey := parseKey_quote k ([58] ++ (decNat v ++ ([44] ++ T))) hk.1
  simp only [List.append_assoc, List.cons_append, List.nil_append] at hkey
  rw [hkey]
  have hnum := parseNum_decNat v (44 :: T) hk.2 (nonDigit_44 _)
  simp only [hnum]

theorem parseEntries_enc : ∀ (kvs : List (Bytes × Nat)) (kv : Bytes × Nat) (f : Nat) (acc : List (Bytes × Nat)),
    kvs.length < f → EntryOK kv → (∀ e ∈ kvs, EntryOK e) →
    parseEntries f (commaSep (encKVs (kv :: kvs)) ++ [125]) acc =
      some ((kv :: kvs).foldl (fun a e => insertKV e.1 e.2 a) acc) := by
  intro kvs
  induction kvs with
  | nil =>
    intro kv f acc hf hk _
    cases f with
    | zero => omega
    | succ f =>
      obtain ⟨k, v⟩ := kv
      simp only [encKVs, commaSep, List.foldl_cons, List.foldl_nil]
      exact entry_last k v f acc hk
  | cons kv2 kvs ih =>
    intro kv f acc hf hk hall
    cases f with
    | zero => omega
    | succ f =>
      obtain ⟨k, v⟩ := kv
      have hrest := ih kv2 f (insertKV k v acc) (by simp only [List.length_cons] at hf; omega)
        (hall kv2 (by simp)) (fun e he => hall e (by simp [he]))
      have hsplit : commaSep (encKVs ((k, v) :: kv2 :: kvs)) ++ [125] =
          quote k ++ [58] ++ decNat v ++ [44] ++ (commaSep (encKVs (kv2 :: kvs)) ++ [125]) := by
        obtain ⟨k2, v2⟩ := kv2
        simp only [encKVs, commaSep, List.append_assoc]
      rw [hsplit, entry_more k v f acc _ hk, hrest]
      rfl

/-! ### inserting keys in increasing order appends -/

theorem bytesLt_irrefl (a : Bytes) : bytesLt a a = false := by
  induction a with
  | nil => rfl
  | cons x a ih => simp [bytesLt, ih]

theorem bytesLt_asymm : ∀ (a b : Bytes), bytesLt a b = true → bytesLt b a = false := by
  intro a
  induction a with
  | nil => intro b h; cases b <;> simp [bytesLt] at h ⊢
  | cons x a ih =>
    intro b h
    cases b with
    | nil => simp [bytesLt] at h
    | cons y b =>
      simp only [bytesLt] at h ⊢
      by_cases h1 : x.toNat < y.toNat
      · have : ¬ (y.toNat < x.toNat) := by omega
        simp [this, h1]
      · by_cases h2 : y.toNat < x.toNat
        · simp [h1, h2] at h
        · simp only [h1, h2, if_false] at h ⊢
          exact ih b h

theorem insertKV_append (k : Bytes) (v : Nat) (acc : List (Bytes × Nat))
    (h : ∀ e ∈ acc, bytesLt e.1 k = true) : insertKV k v acc = acc ++ [(k, v)] := by
  induction acc with
  | nil => rfl
  | cons e acc ih =>
    obtain ⟨k', v'⟩ := e
    have hlt : bytesLt k' k = true := h (k', v') (by simp)
    have h1 : bytesLt k k' = false := bytesLt_asymm k' k hlt
    have h2 : ¬ (k = k') := by
      intro e; subst e; rw [bytesLt_irrefl] at hlt; cases hlt
    simp only [insertKV, h1, h2, if_false, List.cons_append, Bool.false_eq_true]
    rw [ih (fun e he => h e (by simp [he]))]

/-- strictly increasing keys (byte-wise), the order `json.Marshal` writes and a Go map cannot violate. -/
def SortedKeys : List (Bytes × Nat) → Prop
  | [] => True
  | e :: rest => (∀ x ∈ rest, bytesLt e.1 x.1 = true) ∧ SortedKeys rest

theorem foldl_insert_sorted : ∀ (kvs acc : List (Bytes × Nat)),
    (∀ a ∈ acc, ∀ x ∈ kvs, bytesLt a.1 x.1 = true) → SortedKeys kvs →
    kvs.foldl (fun a e => insertKV e.1 e.2 a) acc = acc ++ kvs := by
  intro kvs
  induction kvs with
  | nil => intro acc _ _; simp
  | cons e kvs ih =>
    intro acc hacc hs
    simp only [List.foldl_cons]
    rw [insertKV_append e.1 e.2 acc (fun a ha => hacc a ha e (by simp))]
    rw [ih (acc ++ [(e.1, e.2)]) ?_ hs.2]
    · simp
    · intro a ha x hx
      rcases List.mem_append.mp ha with ha | ha
      · exact hacc a ha x (by simp [hx])
      · simp only [List.mem_singleton] at ha
        subst ha
        exact hs.1 x hx

/-- The RequestIds values the model treats exactly: nil, or a map with strictly increasing
    verbatim keys and uint64 values. -/
def ReqIdsCanon : ReqIds → Prop
  | .nil => True
  | .map kvs => SortedKeys kvs ∧ ∀ e ∈ kvs, EntryOK e
  | .mapEsc _ => False
  | .opaque _ => False

theorem commaSep_enc_head (kv : Bytes × Nat) (kvs : List (Bytes × Nat)) :
    ∃ C, commaSep (encKVs (kv :: kvs)) = 34 :: C := by
  obtain ⟨k, v⟩ := kv
  cases kvs with
  | nil => exact ⟨_, by simp only [encKVs, commaSep, quote, List.append_assoc, List.cons_append, List.nil_append]; rfl⟩
  | cons kv2 kvs =>
    obtain ⟨k2, v2⟩ := kv2
    exact ⟨_, by simp only [encKVs, commaSep, quote, List.append_assoc, List.cons_append, List.nil_append]; rfl⟩

theorem commaSep_enc_length : ∀ (kvs : List (Bytes × Nat)), kvs.length ≤ (commaSep (encKVs kvs)).length := by
  intro kvs
  induction kvs with
  | nil => simp [encKVs, commaSep]
  | cons kv kvs ih =>
    obtain ⟨k, v⟩ := kv
    cases kvs with
    | nil => simp [encKVs, commaSep, quote]
    | cons kv2 kvs =>
      obtain ⟨k2, v2⟩ := kv2
      simp only [encKVs, commaSep, List.length_append, List.length_cons] at ih ⊢
      omega

/-- `json.Unmarshal (json.Marshal m) = m` for every canonical RequestIds map. -/
theorem decReqIds_encReqIds (r : ReqIds) (h : ReqIdsCanon r) : decReqIds (encReqIds r) = r := by
  rcases r with _ | kvs | kvs' | raw
  · decide
  · obtain ⟨hs, hok⟩ := h
    cases kvs with
    | nil => decide
    | cons kv kvs =>
      have hlen := commaSep_enc_length (kv :: kvs)
      have hp := parseEntries_enc kvs kv ((commaSep (encKVs (kv :: kvs)) ++ [125]).length + 1) []
        (by simp only [List.length_append, List.length_cons, List.length_nil] at hlen ⊢; omega)
        (hok kv (by simp)) (fun e he => hok e (by simp [he]))
      have hf := foldl_insert_sorted (kv :: kvs) [] (by intro a ha; cases ha) hs
      rw [hf] at hp
      simp only [List.nil_append] at hp
      obtain ⟨C, hC⟩ := commaSep_enc_head kv kvs
      have hraw : encReqIds (.map (kv :: kvs)) = 123 :: (commaSep (encKVs (kv :: kvs)) ++ [125]) := by
        simp only [encReqIds, List.cons_append, List.nil_append]
      rw [hraw]
      unfold decReqIds
      have n1 : ¬ (123 :: (commaSep (encKVs (kv :: kvs)) ++ [125]) = [] ∨
          123 :: (commaSep (encKVs (kv :: kvs)) ++ [125]) = jsonNull) := by
        intro hc
        rcases hc with hc | hc
        · cases hc
        · have : (123 : UInt8) = 110 := by
            have := congrArg List.head? hc
            simp [jsonNull, ascii] at this
          revert this; decide
      have n2 : ¬ (123 :: (commaSep (encKVs (kv :: kvs)) ++ [125]) = [123, 125]) := by
        rw [hC]
        intro hc
        simp only [List.cons_append, List.cons.injEq, true_and] at hc
        exact absurd hc.1 (by decide)
      simp only [n1, n2, if_false, hp]
  · exact absurd h (by simp [ReqIdsCanon])
  · exact absurd h (by simp [ReqIdsCanon])

/-! ### what the decoder returns is canonical (or opaque) -/

theorem bytesLt_trans : ∀ (a b c : Bytes), bytesLt a b = true → bytesLt b c = true → bytesLt a c = true := by
  intro a
  induction a with
  | nil =>
    intro b c h1 h2
    cases b with
    | nil => simp [bytesLt] at h1
    | cons y b => cases c <;> simp [bytesLt] at h2 ⊢
  | cons x a ih =>
    intro b c h1 h2
    cases b with
    | nil => simp [bytesLt] at h1
    | cons y b =>
      cases c with
      | nil => simp [bytesLt] at h2
      | cons z c =>
        simp only [bytesLt] at h1 h2 ⊢
        by_cases xy : x.toNat < y.toNat
        · by_cases yz : y.toNat < z.toNat
          · have : x.toNat < z.toNat := by omega
            simp [this]
          · by_cases zy : z.toNat < y.toNat
            · simp [yz, zy] at h2
            · have : x.toNat < z.toNat := by omega
              simp [this]
        · by_cases yx : y.toNat < x.toNat
          · simp [xy, yx] at h1
          · simp only [xy, yx, if_false] at h1
            by_cases yz : y.toNat < z.toNat
            · have : x.toNat < z.toNat := by omega
              simp [this]
            · by_cases zy : z.toNat < y.toNat
              · simp [yz, zy] at h2
              · simp only [yz, zy, if_false] at h2
                have e1 : ¬ (x.toNat < z.toNat) := by omega
                have e2 : ¬ (z.toNat < x.toNat) := by omega
                simp only [e1, e2, if_false]
                exact ih b c h1 h2

theorem bytesLt_total : ∀ (a b : Bytes), bytesLt a b = false → a ≠ b → bytesLt b a = true := by
  intro a
  induction a with
  | nil => intro b h hne; cases b <;> simp [bytesLt] at h hne ⊢
  | cons x a ih =>
    intro b h hne
    cases b with
    | nil => simp [bytesLt]
    | cons y b =>
      simp only [bytesLt] at h ⊢
      by_cases xy : x.toNat < y.toNat
      · simp [xy] at h
      · by_cases yx : y.toNat < x.toNat
        · simp [yx]
        · simp only [xy, yx, if_false] at h ⊢
          have hxy : x = y := by
            have : x.toNat = y.toNat := by omega
            exact UInt8.toNat_inj.mp this
          subst hxy
          exact ih b h (fun e => hne (by rw [e]))

theorem mem_insertKV (k : Bytes) (v : Nat) : ∀ (l : List (Bytes × Nat)) (e : Bytes × Nat),
    e ∈ insertKV k v l → e = (k, v) ∨ e ∈ l := by
  intro l
  induction l with
  | nil => intro e h; simp [insertKV] at h; exact Or.inl h
  | cons hd l ih =>
    intro e h
    obtain ⟨k', v'⟩ := hd
    simp only [insertKV] at h
    split at h
    · simp only [List.mem_cons] at h ⊢
      rcases h with h | h | h
      · exact Or.inl h
      · exact Or.inr (Or.inl h)
      · exact Or.inr (Or.inr h)
    · split at h
      · simp only [List.mem_cons] at h ⊢
        rcases h with h | h
        · exact Or.inl h
        · exact Or.inr (Or.inr h)
      · simp only [List.mem_cons] at h ⊢
        rcases h with h | h
        · exact Or.inr (Or.inl h)
        · rcases ih e h with h | h
          · exact Or.inl h
          · exact Or.inr (Or.inr h)

theorem insertKV_sorted (k : Bytes) (v : Nat) : ∀ (l : List (Bytes × Nat)), SortedKeys l → SortedKeys (insertKV k v l) := by
  intro l
  induction l with
  | nil => intro _; simp [insertKV, SortedKeys]
  | cons hd l ih =>
    intro hs
    obtain ⟨k', v'⟩ := hd
    obtain ⟨h1, h2⟩ := hs
    simp only [insertKV]
    by_cases c1 : bytesLt k k' = true
    · simp only [c1, if_true]
      refine ⟨fun x hx => ?_, h1, h2⟩
      simp only [List.mem_cons] at hx
      rcases hx with rfl | hx
      · exact c1
      · exact bytesLt_trans k k' x.1 c1 (h1 x hx)
    · have c1' : bytesLt k k' = false := by simpa using c1
      simp only [c1', Bool.false_eq_true, if_false]
      by_cases c2 : k = k'
      · subst c2
        simp only [if_true]
        exact ⟨h1, h2⟩
      · simp only [c2, if_false]
        refine ⟨fun x hx => ?_, ih h2⟩
        rcases mem_insertKV k v l x hx with rfl | hx
        · exact bytesLt_total k k' c1' c2
        · exact h1 x hx

theorem parseKey_safe : ∀ (bs k r : Bytes), parseKey bs = some (k, r) → ∀ b ∈ k, safeKeyByte b = true := by
  intro bs
  induction bs with
  | nil => intro k r h; simp [parseKey] at h
  | cons x bs ih =>
    intro k r h
    simp only [parseKey] at h
    split at h
    · simp only [Option.some.injEq, Prod.mk.injEq] at h
      obtain ⟨rfl, _⟩ := h
      intro b hb; cases hb
    · split at h
      · rename_i hsafe
        cases hp : parseKey bs with
        | none => simp [hp] at h
        | some p =>
          obtain ⟨k', r'⟩ := p
          simp only [hp, Option.some.injEq, Prod.mk.injEq] at h
          obtain ⟨rfl, _⟩ := h
          intro b hb
          simp only [List.mem_cons] at hb
          rcases hb with rfl | hb
          · exact hsafe
          · exact ih k' r' hp b hb
      · cases h

theorem parseNum_lt (bs : Bytes) (v : Nat) (r : Bytes) (h : parseNum bs = some (v, r)) : v < 2 ^ 64 := by
  cases bs with
  | nil => simp [parseNum] at h
  | cons b rest =>
    simp only [parseNum] at h
    split at h
    · cases rest with
      | nil => simp at h; omega
      | cons c cs =>
        simp only at h
        split at h
        · cases h
        · simp at h; omega
    · split at h
      · cases hd : parseDigits (b :: rest) 0 with
        | mk n r' =>
          simp only [hd] at h
          split at h
          · simp only [Option.some.injEq, Prod.mk.injEq] at h
            omega
          · cases h
      · cases h

theorem parseEntries_canon : ∀ (f : Nat) (bs : Bytes) (acc res : List (Bytes × Nat)),
    SortedKeys acc → (∀ e ∈ acc, EntryOK e) → parseEntries f bs acc = some res →
    SortedKeys res ∧ ∀ e ∈ res, EntryOK e := by
  intro f
  induction f with
  | zero => intro bs acc res _ _ h; simp [parseEntries] at h
  | succ f ih =>
    intro bs acc res hs hok h
    simp only [parseEntries] at h
    split at h
    · rename_i r
      cases hk : parseKey r with
      | none => simp [hk] at h
      | some p =>
        obtain ⟨k, r1⟩ := p
        simp only [hk] at h
        split at h
        · rename_i r2
          cases hn : parseNum r2 with
          | none => simp [hn] at h
          | some q =>
            obtain ⟨v, r3⟩ := q
            simp only [hn] at h
            have hent : EntryOK (k, v) := ⟨parseKey_safe r k _ hk, parseNum_lt r2 v r3 hn⟩
            have hs' := insertKV_sorted k v acc hs
            have hok' : ∀ e ∈ insertKV k v acc, EntryOK e := fun e he => by
              rcases mem_insertKV k v acc e he with rfl | he
              · exact hent
              · exact hok e he
            split at h
            · simp only [Option.some.injEq] at h
              subst h
              exact ⟨hs', hok'⟩
            · exact ih _ _ _ hs' hok' h
            · cases h
        · cases h
    · cases h

/-- Whatever `decReqIds` returns is canonical unless it is `opaque` (bytes outside the modelled class)
    or `mapEsc` (keys written with escapes / non-ASCII: executed and compared, not covered by the theorem). -/
theorem decReqIds_canon (raw : Bytes) :
    (∃ r, decReqIds raw = .opaque r) ∨ (∃ kvs, decReqIds raw = .mapEsc kvs) ∨ ReqIdsCanon (decReqIds raw) := by
  unfold decReqIds
  by_cases c1 : raw = [] ∨ raw = jsonNull
  · simp only [c1, if_true]; exact Or.inr (Or.inr trivial)
  · simp only [c1, if_false]
    by_cases c2 : raw = [123, 125]
    · simp only [c2, if_true]; exact Or.inr (Or.inr ⟨trivial, fun e he => by cases he⟩)
    · simp only [c2, if_false]
      cases raw with
      | nil => exact Or.inl ⟨_, rfl⟩
      | cons b rest =>
        by_cases hb : b = 123
        · subst hb
          cases hp : parseEntries (rest.length + 1) rest [] with
          | none =>
            simp only [hp]
            cases parseEntriesEsc (rest.length + 1) rest [] with
            | none => exact Or.inl ⟨_, rfl⟩
            | some kvs => exact Or.inr (Or.inl ⟨_, rfl⟩)
          | some kvs =>
            simp only [hp]
            exact Or.inr (Or.inr (parseEntries_canon _ rest [] kvs trivial (fun e he => by cases he) hp))
        · refine Or.inl ⟨b :: rest, ?_⟩
          split
          · rename_i heq
            simp only [List.cons.injEq] at heq
            exact absurd heq.1 hb
          · rfl

end Rangers.Json
