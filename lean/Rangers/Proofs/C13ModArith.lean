import Mathlib.Data.ZMod.Basic
import Mathlib.FieldTheory.Finite.Basic
import Rangers.Model.ModArith
/-! Correctness of the executable extended Euclid / `modInverse` in `ZMod`. -/
namespace Rangers.Proofs.C13
open Rangers.Model.ModArith

theorem emod_cast (n : Nat) [NeZero n] (z : Int) : ((emod z n : Nat) : ZMod n) = (z : ZMod n) := by
  unfold emod
  have hn : (n : Int) ≠ 0 := by exact_mod_cast NeZero.ne n
  have h0 : 0 ≤ z % (n : Int) := Int.emod_nonneg z hn
  have : ((Int.toNat (z % (n : Int)) : Nat) : Int) = z % (n : Int) := Int.toNat_of_nonneg h0
  have h2 : (((Int.toNat (z % (n : Int)) : Nat) : Int) : ZMod n) = ((z % (n : Int) : Int) : ZMod n) := by rw [this]
  rw [Int.cast_natCast] at h2
  rw [h2, ZMod.intCast_mod]

theorem emod_lt (n : Nat) (hn : 0 < n) (z : Int) : emod z n < n := by
  unfold emod
  have hn' : (n : Int) ≠ 0 := by omega
  have h0 : 0 ≤ z % (n : Int) := Int.emod_nonneg z hn'
  have h1 : z % (n : Int) < n := Int.emod_lt_of_pos z (by omega)
  omega

/-- Invariant of the Euclid loop: the gcd is preserved and both remainders stay
    multiples of `a` in `ZMod n` with the tracked cofactors. -/
theorem xgcdAux_spec (n : Nat) (a : ZMod n) :
    ∀ (fuel r0 r1 : Nat) (s0 s1 : Int), r1 < fuel →
      (r0 : ZMod n) = (s0 : ZMod n) * a → (r1 : ZMod n) = (s1 : ZMod n) * a →
      ((xgcdAux fuel r0 r1 s0 s1).1 = Nat.gcd r0 r1 ∧
       (((xgcdAux fuel r0 r1 s0 s1).1 : Nat) : ZMod n) = (((xgcdAux fuel r0 r1 s0 s1).2 : Int) : ZMod n) * a) := by
  intro fuel
  induction fuel with
  | zero => intro r0 r1 s0 s1 h; omega
  | succ fuel ih =>
    intro r0 r1 s0 s1 hf h0 h1
    unfold xgcdAux
    by_cases hz : r1 = 0
    · subst hz; simp [h0]
    · simp only [hz, if_false]
      have hlt : r0 % r1 < fuel := by
        have := Nat.mod_lt r0 (Nat.pos_of_ne_zero hz); omega
      have hinv : ((r0 % r1 : Nat) : ZMod n) = ((s0 - ((r0 / r1 : Nat) : Int) * s1 : Int) : ZMod n) * a := by
        have hdm : r0 % r1 + r1 * (r0 / r1) = r0 := Nat.mod_add_div r0 r1
        have : ((r0 % r1 : Nat) : ZMod n) = (r0 : ZMod n) - (r1 : ZMod n) * ((r0 / r1 : Nat) : ZMod n) := by
          have h := congrArg (fun x : Nat => (x : ZMod n)) hdm
          simp only [Nat.cast_add, Nat.cast_mul] at h
          rw [← h]; ring
        rw [this, h0, h1]
        have hc : (((r0 / r1 : Nat) : Int) : ZMod n) = ((r0 / r1 : Nat) : ZMod n) := Int.cast_natCast _
        rw [Int.cast_sub, Int.cast_mul, hc]; ring
      obtain ⟨hg, hs⟩ := ih r1 (r0 % r1) s1 (s0 - ((r0 / r1 : Nat) : Int) * s1) hlt h1 hinv
      refine ⟨?_, hs⟩
      rw [hg, Nat.gcd_comm r0 r1, Nat.gcd_rec r1 r0, Nat.gcd_comm]

theorem xgcd_spec (a n : Nat) :
    (xgcd a n).1 = Nat.gcd n a ∧ (((xgcd a n).1 : Nat) : ZMod n) = (((xgcd a n).2 : Int) : ZMod n) * (a : ZMod n) := by
  unfold xgcd
  exact xgcdAux_spec n (a : ZMod n) (a + 1) n a 0 1 (by omega) (by simp) (by simp)

/-- `ModInverse` succeeds exactly on residues prime to the modulus, and then returns the inverse. -/
theorem modInverse_some {p : Nat} [Fact p.Prime] (a : Nat) (ha : (a : ZMod p) ≠ 0) :
    ∃ v, modInverse a p = some v ∧ (v : ZMod p) = (a : ZMod p)⁻¹ ∧ v < p := by
  have hp : p.Prime := Fact.out
  obtain ⟨hg, hs⟩ := xgcd_spec a p
  have hcop : Nat.gcd p a = 1 := by
    have : ¬ p ∣ a := by
      intro hd; exact ha ((ZMod.natCast_eq_zero_iff a p).2 hd)
    exact (Nat.Prime.coprime_iff_not_dvd hp).2 this
  refine ⟨emod (xgcd a p).2 p, ?_, ?_, emod_lt p hp.pos _⟩
  · unfold modInverse; simp [hg, hcop]
  · rw [emod_cast]
    rw [hg, hcop] at hs
    have h1 : ((xgcd a p).2 : ZMod p) * (a : ZMod p) = 1 := by rw [← hs]; simp
    exact eq_inv_of_mul_eq_one_left h1

theorem modInverse_none {p : Nat} [Fact p.Prime] (a : Nat) (ha : (a : ZMod p) = 0) :
    modInverse a p = none := by
  have hp : p.Prime := Fact.out
  obtain ⟨hg, _⟩ := xgcd_spec a p
  have hd : p ∣ a := (ZMod.natCast_eq_zero_iff a p).1 ha
  have : Nat.gcd p a = p := Nat.gcd_eq_left hd
  unfold modInverse
  simp [hg, this, hp.ne_one]

end Rangers.Proofs.C13
