import Rangers.Proofs.C13RecoverMap
/-! Transfer of `recoverSignature` along a meaning map `μ : M → G` from executable points `M` to a
    `ZMod r`-module `G`: if the executable `add`/`mul` are the module operations on valid points and
    `μ` is injective there, the executable recovery returns the executable `f(0)·h`. -/
namespace Rangers.Proofs.C13
open Polynomial Rangers.Model.Shamir

variable {r : Nat} {M G : Type} [AddCommGroup G] [Module (ZMod r) G]

/-- The module operations as an `Ops`. -/
def modOps (r : Nat) (G : Type) [AddCommGroup G] [Module (ZMod r) G] : Ops G :=
  ⟨(· + ·), fun g k => (k : ZMod r) • g⟩

theorem modOps_lawful : LawfulOps r (modOps r G) := ⟨fun _ _ => rfl, fun _ _ => rfl⟩

/-- `opsM` on the valid elements of `M` is a faithful copy of the module `G`. -/
structure OpsSim (r : Nat) {M G : Type} [AddCommGroup G] [Module (ZMod r) G]
    (opsM : Ops M) (valid : M → Prop) (μ : M → G) : Prop where
  add : ∀ a b, valid a → valid b → valid (opsM.add a b) ∧ μ (opsM.add a b) = μ a + μ b
  mul : ∀ a k, valid a → valid (opsM.mul a k) ∧ μ (opsM.mul a k) = (k : ZMod r) • μ a
  inj : ∀ a b, valid a → valid b → μ a = μ b → a = b

theorem accumulate_sim (opsM : Ops M) (valid : M → Prop) (μ : M → G) (hsim : OpsSim r opsM valid μ) :
    ∀ (ds : List Nat) (ss : List M) (acc : Option M), (∀ s ∈ ss, valid s) → (∀ a, acc = some a → valid a) →
      (∀ x, accumulate opsM acc ds ss = some x → valid x) ∧
      (accumulate opsM acc ds ss).map μ = accumulate (modOps r G) (acc.map μ) ds (ss.map μ) := by
  intro ds
  induction ds with
  | nil => intro ss acc _ hacc; exact ⟨fun x hx => hacc x (by simpa [accumulate] using hx), by simp [accumulate]⟩
  | cons d ds ih =>
    intro ss acc hss hacc
    cases ss with
    | nil => exact ⟨fun x hx => hacc x (by simpa [accumulate] using hx), by simp [accumulate]⟩
    | cons s ss =>
      have hs := hss s (by simp)
      obtain ⟨hv, hm⟩ := hsim.mul s d hs
      cases acc with
      | none =>
        have := ih ss (some (opsM.mul s d)) (fun x hx => hss x (by simp [hx]))
          (fun a ha => by injection ha with ha; subst ha; exact hv)
        rw [Option.map_some, hm] at this
        exact this
      | some a =>
        have hav := hacc a rfl
        obtain ⟨hv2, hm2⟩ := hsim.add a (opsM.mul s d) hav hv
        have := ih ss (some (opsM.add a (opsM.mul s d))) (fun x hx => hss x (by simp [hx]))
          (fun b hb => by injection hb with hb; subst hb; exact hv2)
        rw [Option.map_some, hm2, hm] at this
        exact this

/-- Executable recovery on executable shares `sh[i]·h` of a polynomial of degree `< k`. -/
theorem recoverWith_sim_poly [Fact r.Prime] (opsM : Ops M) (valid : M → Prop) (μ : M → G)
    (hsim : OpsSim r opsM valid μ)
    (ids : List Nat) (hne : ids ≠ []) (hd : IdsDistinct r ids)
    (f : (ZMod r)[X]) (hdeg : f.degree < ids.length)
    (sh : List Nat) (hlen : sh.length = ids.length)
    (hsh : ∀ t < ids.length, ((sh.getD t 0 : Nat) : ZMod r) = f.eval (pt r ids t))
    (h : M) (hh : valid h) (g0 : Nat) (hg0 : (g0 : ZMod r) = f.eval 0) :
    recoverWith opsM r ids (sh.map (opsM.mul h)) = .ok (some (opsM.mul h g0)) := by
  have hG := recoverWith_poly (modOps r G) modOps_lawful ids hne hd f hdeg sh hlen hsh (μ h)
  unfold recoverWith at hG ⊢
  simp only [List.length_map, hlen, Nat.lt_irrefl, if_false, List.take_length] at hG ⊢
  have hvalid : ∀ s ∈ sh.map (opsM.mul h), valid s := by
    intro s hs
    obtain ⟨k, _, rfl⟩ := List.mem_map.1 hs
    exact (hsim.mul h k hh).1
  obtain ⟨hv, hm⟩ := accumulate_sim opsM valid μ hsim (lagrangeCoeffs r ids) (sh.map (opsM.mul h)) none hvalid
    (fun a ha => by cases ha)
  have hmap : (sh.map (opsM.mul h)).map μ = sh.map ((modOps r G).mul (μ h)) := by
    rw [List.map_map]
    apply List.map_congr_left
    intro k _
    exact (hsim.mul h k hh).2
  rw [hmap] at hm
  injection hG with hG
  simp only [Option.map_none] at hm
  rw [hG] at hm
  cases hacc : accumulate opsM none (lagrangeCoeffs r ids) (sh.map (opsM.mul h)) with
  | none => rw [hacc] at hm; simp at hm
  | some x =>
    rw [hacc] at hm
    simp only [Option.map_some, Option.some.injEq] at hm
    congr 2
    obtain ⟨hv0, hm0⟩ := hsim.mul h g0 hh
    exact hsim.inj x _ (hv x hacc) hv0 (by rw [hm, hm0, hg0])

end Rangers.Proofs.C13
