import Rangers.Proofs.TrieDBInv
import Mathlib.Data.List.Perm.Subperm
/-!
The fuel the driver hands to the model (`cache.length + 1` for the commit walk,
`disk.length + 1` for `resolve`) is sufficient on every acyclic store: the
explicit out-of-fuel answers (`none` / `.fuel`) arise only on a reference cycle,
where the Go recursion would not terminate either.
-/
namespace Rangers.Model.TrieDB

/-- acyclicity of the cache along the edges the commit walk follows -/
def RankedCache (c : Cache) : Prop :=
  ∃ rank : Hash → Nat, ∀ h n, c.lookup h = some n → ∀ x ∈ n.childs, Has c x → rank x < rank h

theorem mem_keys_of_has {β : Type} {l : List (Hash × β)} {h : Hash} (hh : Has l h) : h ∈ l.map Prod.fst := by
  induction l with
  | nil => simp [Has] at hh
  | cons kn rest ih =>
    obtain ⟨k, v⟩ := kn
    unfold Has at hh
    rw [lookup_cons_eq] at hh
    by_cases hk : h = k
    · simp [hk]
    · simp only [hk, if_false] at hh
      simp only [List.map_cons, List.mem_cons]
      exact Or.inr (ih hh)

/-- pigeonhole: distinct stored keys are at most as many as entries -/
theorem nodup_keys_le {β : Type} {l : List (Hash × β)} {p : List Hash} (hd : p.Nodup) (hp : ∀ a ∈ p, Has l a) :
    p.length ≤ l.length := by
  have hsub : p ⊆ l.map Prod.fst := fun a ha => mem_keys_of_has (hp a ha)
  have := (hd.subperm hsub).length_le
  simpa using this

theorem allSome_isSome {α β : Type} (g : α → Option β) :
    ∀ (l : List α), (∀ x ∈ l, (g x).isSome = true) → (allSome (l.map g)).isSome = true
  | [], _ => rfl
  | x :: xs, h => by
    have hx := h x List.mem_cons_self
    have hr := allSome_isSome g xs (fun y hy => h y (List.mem_cons_of_mem _ hy))
    simp only [List.map_cons]
    cases hgx : g x with
    | none => simp [hgx] at hx
    | some a =>
      cases har : allSome (xs.map g) with
      | none => simp [har] at hr
      | some as => simp [allSome, har]

theorem walk_enough_fuel {c : Cache} {rank : Hash → Nat}
    (hr : ∀ h n, c.lookup h = some n → ∀ x ∈ n.childs, Has c x → rank x < rank h) :
    ∀ (f : Nat) (path : List Hash) (h : Hash), path.Nodup → (∀ a ∈ path, Has c a) → (∀ a ∈ path, rank h < rank a) →
      c.length + 1 ≤ path.length + f → (walk c f h).isSome = true := by
  intro f
  induction f with
  | zero =>
    intro path h hd hp _ hlen
    have := nodup_keys_le hd hp
    omega
  | succ f ih =>
    intro path h hd hp hrk hlen
    rw [walk_succ]
    cases hl : c.lookup h with
    | none => rfl
    | some n =>
      have hh : Has c h := has_of_lookup hl
      have hnot : h ∉ path := fun hm => Nat.lt_irrefl _ (hrk h hm)
      have hd' : (h :: path).Nodup := List.nodup_cons.mpr ⟨hnot, hd⟩
      have hp' : ∀ a ∈ h :: path, Has c a := by
        intro a ha
        rcases List.mem_cons.mp ha with e | e
        · exact e ▸ hh
        · exact hp a e
      have hf : 1 ≤ f := by
        have := nodup_keys_le hd' hp'
        simp only [List.length_cons] at this
        omega
      have hkids : ∀ x ∈ n.childs, (walk c f x).isSome = true := by
        intro x hx
        cases hcx : c.lookup x with
        | none =>
          obtain ⟨f', rfl⟩ : ∃ f', f = f' + 1 := ⟨f - 1, by omega⟩
          rw [walk_succ, hcx]; rfl
        | some m =>
          have hxc : Has c x := has_of_lookup hcx
          have hlt := hr h n hl x hx hxc
          refine ih (h :: path) x hd' hp' ?_ (by simp only [List.length_cons]; omega)
          intro a ha
          rcases List.mem_cons.mp ha with e | e
          · exact e ▸ hlt
          · exact Nat.lt_trans hlt (hrk a e)
      have := allSome_isSome (walk c f) n.childs hkids
      cases ha : allSome (n.childs.map (walk c f)) with
      | none => simp [ha] at this
      | some ts => simp only [ha]; rfl

/-- the driver's fuel for the commit walk suffices on every acyclic cache -/
theorem walk_driver_fuel {c : Cache} (hr : RankedCache c) (h : Hash) : (walk c (c.length + 1) h).isSome = true := by
  obtain ⟨rank, hrank⟩ := hr
  exact walk_enough_fuel hrank (c.length + 1) [] h List.nodup_nil (by simp) (by simp) (by simp)

theorem res_all_ne_fuel : ∀ (l : List Res), (∀ x ∈ l, x ≠ .fuel) → Res.all l ≠ .fuel
  | [], _ => by simp [Res.all]
  | r :: rs, h => by
    have h1 := h r List.mem_cons_self
    have h2 := res_all_ne_fuel rs (fun y hy => h y (List.mem_cons_of_mem _ hy))
    simp only [Res.all]
    cases r <;> cases hrs : Res.all rs <;> simp_all [Res.and]

theorem resolve_enough_fuel {d : Disk} {rank : Hash → Nat}
    (hr : ∀ h n, d.lookup h = some n → ∀ r ∈ n.need, rank r < rank h) :
    ∀ (f : Nat) (path : List Hash) (h : Hash), path.Nodup → (∀ a ∈ path, Has d a) → (∀ a ∈ path, rank h < rank a) →
      d.length + 1 ≤ path.length + f → resolve (diskGet d) f h ≠ .fuel := by
  intro f
  induction f with
  | zero =>
    intro path h hd hp _ hlen
    have := nodup_keys_le hd hp
    omega
  | succ f ih =>
    intro path h hd hp hrk hlen
    rw [resolve_succ]
    cases hl : diskGet d h with
    | none => simp
    | some n =>
      have hl' : d.lookup h = some n := hl
      have hh : Has d h := has_of_lookup hl'
      have hnot : h ∉ path := fun hm => Nat.lt_irrefl _ (hrk h hm)
      have hd' : (h :: path).Nodup := List.nodup_cons.mpr ⟨hnot, hd⟩
      have hp' : ∀ a ∈ h :: path, Has d a := by
        intro a ha
        rcases List.mem_cons.mp ha with e | e
        · exact e ▸ hh
        · exact hp a e
      simp only
      apply res_all_ne_fuel
      intro x hx
      obtain ⟨r, hrm, rfl⟩ := List.mem_map.mp hx
      have hlt := hr h n hl' r hrm
      refine ih (h :: path) r hd' hp' ?_ (by simp only [List.length_cons]; omega)
      intro a ha
      rcases List.mem_cons.mp ha with e | e
      · exact e ▸ hlt
      · exact Nat.lt_trans hlt (hrk a e)

/-- the driver's fuel for `resolve` suffices on every acyclic disk: the flag `F` is never printed for one -/
theorem resolve_driver_fuel {d : Disk} (hr : Ranked d) (h : Hash) : resolve (diskGet d) (d.length + 1) h ≠ .fuel := by
  obtain ⟨rank, hrank⟩ := hr
  exact resolve_enough_fuel hrank (d.length + 1) [] h List.nodup_nil (by simp) (by simp) (by simp)

end Rangers.Model.TrieDB
