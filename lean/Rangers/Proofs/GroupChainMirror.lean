import Rangers.Proofs.GroupChainRun
/-!
The sqlite `groupIndex` mirror (`middleware/mysql/group_index.go`: `InsertGroup` in `save`,
`DeleteGroup` in `remove`, `CountGroups`/`refreshCache` at start-up) holds exactly the ids of
the listed groups — as long as no operation is cut by a crash.
-/
namespace Rangers.Model.GroupChain
open Rangers

/-- The mirror is a permutation of the listed ids. -/
def MirrorRep (l : List Group) (c : Chain) : Prop := c.mirror.Perm (l.map (·.id))

theorem MirrorRep.length {l c} (h : MirrorRep l c) : c.mirror.length = l.length := by
  have := h.length_eq; simpa using this

theorem mirror_save {l : List Group} {c : Chain} (h : MirrorRep l c) (g : Group)
    (hfresh : ∀ x ∈ l, x.id ≠ g.id) : MirrorRep (l ++ [stamped l.length g]) (save c g) := by
  unfold MirrorRep at *
  have hnm : g.id ∉ c.mirror := by
    intro hm
    have := h.mem_iff.mp hm
    obtain ⟨x, hx, e⟩ := List.mem_map.mp this
    exact hfresh x hx e
  have : (save c g).mirror = g.id :: c.mirror := by simp [save, mirrorInsert, hnm]
  rw [this, List.map_append]
  have h1 : (g.id :: c.mirror).Perm (g.id :: l.map (·.id)) := List.Perm.cons _ h
  have h2 : (g.id :: l.map (·.id)).Perm (l.map (·.id) ++ [g.id]) := by
    have := List.perm_append_comm (l₁ := [g.id]) (l₂ := l.map (·.id))
    simpa using this
  simpa [stamped] using h1.trans h2

theorem mirror_remove {l : List Group} {g : Group} {c : Chain} (r : Rep (l ++ [g]) c)
    (h : MirrorRep (l ++ [g]) c) (hl : l ≠ []) : MirrorRep l (remove c c.last).2 := by
  unfold MirrorRep at *
  have hlast : c.last = g := by have := r.last; simp at this; exact this.symm
  obtain ⟨p, hp⟩ := exists_getLast? hl
  have hpm : p ∈ l := List.mem_of_getLast? hp
  have hlk := (Linked_snoc [] l g).mp r.linked
  have hgpre : g.pre = p.id := by rw [hlk.2, lastId_of_getLast? [] l p hp]
  have hpget : getGroupById c.disk g.pre = some p := by
    rw [hgpre]; exact r.byId (List.mem_append_left _ hpm)
  have hm : (remove c c.last).2.mirror = c.mirror.filter (fun x => decide (x ≠ g.id)) := by
    simp [remove, hlast, hpget, mirrorDelete]
  rw [hm]
  have hnd := r.nodup
  rw [List.map_append, List.nodup_append] at hnd
  have hf : ((l ++ [g]).map (·.id)).filter (fun x => decide (x ≠ g.id)) = l.map (·.id) := by
    rw [List.map_append, List.filter_append]
    have h1 : (l.map (·.id)).filter (fun x => decide (x ≠ g.id)) = l.map (·.id) := by
      apply List.filter_eq_self.mpr
      intro a ha
      have := hnd.2.2 a ha g.id (by simp)
      simpa using this
    rw [h1]; simp
  rw [← hf]
  exact h.filter _

theorem mirror_restart {l : List Group} {c : Chain} (r : Rep l c) (h : MirrorRep l c) (gen : List Group) :
    ∃ c', restart c.disk c.mirror gen = some (.alive c') ∧ Rep l c' ∧ MirrorRep l c' ∧ c'.mirror = c.mirror := by
  have h1 := r.cur
  have h2 : getGroupById c.disk c.last.id = some c.last := r.byId r.last_mem
  have h3 : readCount c.disk = some l.length := by simp [readCount, r.cnt]
  have hlen := h.length
  refine ⟨{ disk := c.disk, count := l.length, last := c.last, mirror := c.mirror }, ?_,
    r.congr rfl r.count.symm rfl, h, rfl⟩
  simp [restart, h1, h2, h3, refreshCache, hlen]

/-- Both invariants together. -/
def Rep2 (l : List Group) (c : Chain) : Prop := Rep l c ∧ MirrorRep l c

theorem rep2_rmLoop (h : Nat) : ∀ (t : Nat) (l : List Group) (c : Chain), Rep2 l c → l.length = t + 1 →
    Rep2 (l.take (h + 1)) (rmLoop h t c) := by
  intro t
  induction t with
  | zero =>
    intro l c r hl
    have : l.take (h + 1) = l := List.take_of_length_le (by omega)
    simpa [rmLoop, this] using r
  | succ t ih =>
    intro l c r hl
    unfold rmLoop
    by_cases hh : t + 1 > h
    · simp only [hh, if_true]
      have hidx : l[t + 1]? = some c.last := by
        have := r.1.last_idx; rw [hl] at this; simpa using this
      rw [r.1.byHeight_lt hidx]
      simp only
      have hsplit : l.dropLast ++ [c.last] = l := dropLast_append_getLast? r.1.last
      have hdl : l.dropLast.length = t + 1 := by simp [hl]
      have hne : l.dropLast ≠ [] := by intro e; simp [e] at hdl
      have r' : Rep (l.dropLast ++ [c.last]) c := by rw [hsplit]; exact r.1
      have m' : MirrorRep (l.dropLast ++ [c.last]) c := by rw [hsplit]; exact r.2
      have hr : Rep2 l.dropLast (remove c c.last).2 := ⟨(rep_remove r' hne).2, mirror_remove r' m' hne⟩
      have := ih l.dropLast (remove c c.last).2 hr hdl
      have htake : l.dropLast.take (h + 1) = l.take (h + 1) := by
        rw [List.dropLast_eq_take, List.take_take]
        congr 1
        omega
      rw [htake] at this
      exact this
    · simp only [hh, if_false]
      have : l.take (h + 1) = l := List.take_of_length_le (by omega)
      rw [this]; exact r

theorem rep2_step {l : List Group} {c : Chain} (r : Rep2 l c) (gen : List Group) (op : Op)
    (hok : OpOK op) (hb : l.length + 1 < lenBound) :
    ∃ c', stepOp gen c op = some c' ∧ Rep2 (specStep l c op) c' := by
  cases op with
  | add g =>
    by_cases h : addCheck c g = .ok
    · refine ⟨(addGroup c g).2, rfl, ?_⟩
      have ha := rep_add r.1 g hb hok h
      have hfresh : ∀ x ∈ l, x.id ≠ g.id := by
        intro x hx e
        have h1 := (addCheck_ok h).1
        have := r.1.stored x hx
        rw [e] at this
        simp [shas, this] at h1
      simp only [specStep, h, if_true]
      rw [ha.1]; exact ⟨ha.2, mirror_save r.2 g hfresh⟩
    · refine ⟨(addGroup c g).2, rfl, ?_⟩
      simp only [specStep, h, if_false]
      rw [addGroup_rejected h]; exact r
  | rmlast =>
    refine ⟨(remove c c.last).2, rfl, ?_⟩
    by_cases h2 : 2 ≤ l.length
    · simp only [specStep, h2, if_true]
      have hsplit : l.dropLast ++ [c.last] = l := dropLast_append_getLast? r.1.last
      have hne : l.dropLast ≠ [] := by
        intro e; have := congrArg List.length e; simp at this; omega
      have r' : Rep (l.dropLast ++ [c.last]) c := by rw [hsplit]; exact r.1
      have m' : MirrorRep (l.dropLast ++ [c.last]) c := by rw [hsplit]; exact r.2
      exact ⟨(rep_remove r' hne).2, mirror_remove r' m' hne⟩
    · simp only [specStep, h2, if_false]
      have h1 : l.length = 1 := by have := r.1.pos; omega
      obtain ⟨g, rfl⟩ : ∃ g, l = [g] := List.length_eq_one_iff.mp h1
      rw [remove_single r.1]; exact r
  | rmto h =>
    refine ⟨rmTo c h, rfl, ?_⟩
    unfold rmTo topHeight
    have hp := r.1.pos
    by_cases h1 : c.count > 1
    · simp only [h1, if_true]
      exact rep2_rmLoop h (c.count - 1) l c r (by rw [r.1.count] at h1 ⊢; omega)
    · simp only [h1, if_false]
      have hl : l.length = 1 := by rw [r.1.count] at h1; omega
      exact rep2_rmLoop h 0 l c r (by omega)
  | restart =>
    obtain ⟨c', h1, h2, h3, _⟩ := mirror_restart r.1 r.2 gen
    exact ⟨c', by simp [stepOp, h1], h2, h3⟩

theorem rep2_run (gen : List Group) : ∀ (ops : List Op) (l : List Group) (c : Chain), Rep2 l c →
    (∀ op ∈ ops, OpOK op) → l.length + ops.length < lenBound →
    ∃ c' l', runOps gen c ops = some c' ∧ Rep2 l' c' := by
  intro ops
  induction ops with
  | nil => intro l c r _ _; exact ⟨c, l, rfl, r⟩
  | cons op ops ih =>
    intro l c r hok hb
    simp only [List.length_cons] at hb
    obtain ⟨c1, h1, r1⟩ := rep2_step r gen op (hok op (by simp)) (by omega)
    have hl := specStep_length l c op
    obtain ⟨c', l', h2, r2⟩ := ih (specStep l c op) c1 r1 (fun o ho => hok o (by simp [ho])) (by omega)
    exact ⟨c', l', by simp [runOps, h1, h2], r2⟩

/-- First start-up with an empty mirror: the mirror holds the genesis ids. -/
theorem mirror_foldl_save : ∀ (gs : List Group) (l : List Group) (c : Chain), MirrorRep l c →
    (l.map (·.id) ++ gs.map (·.id)).Nodup →
    MirrorRep (l ++ stampFrom l.length gs) (gs.foldl save c) := by
  intro gs
  induction gs with
  | nil => intro l c h _; simpa [stampFrom] using h
  | cons g t ih =>
    intro l c h hnd
    have hfresh : ∀ x ∈ l, x.id ≠ g.id := by
      intro x hx e
      rw [List.nodup_append] at hnd
      exact hnd.2.2 x.id (List.mem_map.mpr ⟨x, hx, rfl⟩) g.id (by simp) e
    have h1 := mirror_save h g hfresh
    have := ih (l ++ [stamped l.length g]) (save c g) h1 (by simpa [stamped, List.append_assoc] using hnd)
    simpa [stampFrom, List.append_assoc] using this

theorem rep2_init {gs : List Group} (ok : GenesisOK gs) :
    ∃ c, restart [] [] gs = some (.alive c) ∧ Rep2 (stampFrom 0 gs) c := by
  obtain ⟨c, h, r⟩ := rep_init ok []
  refine ⟨c, h, r, ?_⟩
  cases gs with
  | nil => exact absurd rfl ok.ne
  | cons g0 rest =>
    have hc : c = (g0 :: rest).foldl save { disk := [], count := 0, last := g0, mirror := [] } := by
      simp [restart, sget] at h; exact h.symm
    subst hc
    have h0 : MirrorRep [] ({ disk := [], count := 0, last := g0, mirror := [] } : Chain) := by
      simp [MirrorRep]
    have := mirror_foldl_save (g0 :: rest) [] _ h0 (by simpa using ok.nodup)
    simpa using this

end Rangers.Model.GroupChain
