import Rangers.Proofs.JournalSteps2
/-! `RevAt` for `Suicide`, under the side condition that the balance slot holds canonical
(minimal big-endian) bytes — without it `suicideChange.undo` rewrites the slot (known finding). -/
namespace Rangers.Proofs.Journal
open Rangers Rangers.Model.Journal

/-- `accountObject.setData(k, v)` on a copy -/
def setSlot (o : Obj) (k : Key) (v : Val) : Obj :=
  { o with cached := mset o.cached k v, dirty := mset o.dirty k v }

def disarm (o : Obj) : Obj := { o with armed := false }
def setSui (o : Obj) (b : Bool) : Obj := { o with suicided := b }

theorem resolve_inmap {x : ADB} {a : Addr} {o : Obj} (h : mget x.objs a = some o) (hd : o.deleted = false) :
    resolve x a = (x, some o) := by simp [resolve, h, hd]

theorem resolveNew_inmap {x : ADB} {a : Addr} {o : Obj} (h : mget x.objs a = some o) (hd : o.deleted = false) :
    resolveNew x a = (x, some o) := by simp [resolveNew, h, hd]

theorem setBalanceRaw_inmap (c : Cfg) {x : ADB} (a : Addr) {o : Obj} (n : Nat) (h : mget x.objs c.tok = some o)
    (hd : o.deleted = false) :
    setBalanceRaw c x a n = markDirty x c.tok (setSlot o (c.balKey a) (natToBE n)) := by
  simp [setBalanceRaw, resolveNew_inmap h hd, setDataRaw, h, setSlot]

theorem mget_markDirty (x : ADB) (a b : Addr) (o : Obj) :
    mget (markDirty x a o).objs b = if a = b then some (disarm o) else mget x.objs b := by
  rw [markDirty_objs, mget_mset]; rfl

theorem mget_putObj (x : ADB) (a b : Addr) (o : Obj) :
    mget (putObj x a o).objs b = if a = b then some o else mget x.objs b := by
  simp [putObj, mget_mset]

/-- states whose object caches agree up to `ObjSim` entry by entry (same keys present) -/
theorem sim_of_objs {s u : ADB} (hc : u.crashed = s.crashed) (hf : Frame u s)
    (h : ∀ b, (mget u.objs b = mget s.objs b) ∨
      (∃ x o, mget u.objs b = some x ∧ mget s.objs b = some o ∧ x.deleted = false ∧ o.deleted = false ∧ ObjSim s.codes x o)) :
    Sim u s := by
  refine ⟨hc, fun _ => hf, fun _ b => ?_⟩
  rw [hf.codes]
  rcases h b with h | ⟨x, o, hx, ho, hdx, hdo, hs⟩
  · rw [res_def, res_def, h, hf.trie]; exact ResRel.refl _ _
  · rw [res_def, res_def, hx, ho]; simp only [hdx, hdo, Bool.false_eq_true, if_false]; exact .live hs

theorem get_setSlot (o : Obj) (k k' : Key) (v : Val) : (setSlot o k v).get k' = if k = k' then v else o.get k' := by
  simp only [setSlot, Obj.get, mget_mset]; by_cases h : k = k' <;> simp [h]

@[simp] theorem disarm_nonce (o : Obj) : (disarm o).nonce = o.nonce := rfl
@[simp] theorem disarm_codeHash (o : Obj) : (disarm o).codeHash = o.codeHash := rfl
@[simp] theorem disarm_suicided (o : Obj) : (disarm o).suicided = o.suicided := rfl
@[simp] theorem disarm_deleted (o : Obj) : (disarm o).deleted = o.deleted := rfl
@[simp] theorem disarm_get (o : Obj) (k : Key) : (disarm o).get k = o.get k := rfl
@[simp] theorem disarm_codeOf (cs) (o : Obj) : codeOf cs (disarm o) = codeOf cs o := rfl
@[simp] theorem setSui_nonce (o : Obj) (b : Bool) : (setSui o b).nonce = o.nonce := rfl
@[simp] theorem setSui_codeHash (o : Obj) (b : Bool) : (setSui o b).codeHash = o.codeHash := rfl
@[simp] theorem setSui_suicided (o : Obj) (b : Bool) : (setSui o b).suicided = b := rfl
@[simp] theorem setSui_deleted (o : Obj) (b : Bool) : (setSui o b).deleted = o.deleted := rfl
@[simp] theorem setSui_get (o : Obj) (b : Bool) (k : Key) : (setSui o b).get k = o.get k := rfl
@[simp] theorem setSui_codeOf (cs) (o : Obj) (b : Bool) : codeOf cs (setSui o b) = codeOf cs o := rfl
@[simp] theorem setSlot_nonce (o : Obj) (k : Key) (v : Val) : (setSlot o k v).nonce = o.nonce := rfl
@[simp] theorem setSlot_codeHash (o : Obj) (k : Key) (v : Val) : (setSlot o k v).codeHash = o.codeHash := rfl
@[simp] theorem setSlot_suicided (o : Obj) (k : Key) (v : Val) : (setSlot o k v).suicided = o.suicided := rfl
@[simp] theorem setSlot_deleted (o : Obj) (k : Key) (v : Val) : (setSlot o k v).deleted = o.deleted := rfl
@[simp] theorem setSlot_codeOf (cs) (o : Obj) (k : Key) (v : Val) : codeOf cs (setSlot o k v) = codeOf cs o := rfl

section
variable (c : Cfg)

/-- the part of `Suicide` after `GetBalance`: journal entry, flag, zero the balance slot -/
def suicideCore (a : Addr) (ps : Bool) (bal : Nat) (y : ADB) : ADB :=
  match mget y.objs a with
  | none => crash { y with journal := y.journal ++ [Entry.suicide a ps bal] }
  | some o' => setBalanceRaw c (markDirty { y with journal := y.journal ++ [Entry.suicide a ps bal] } a (setSui o' true)) a 0

theorem revAt_suicideCore {x : ADB} {a : Addr} {o3 ot : Obj} {bal : Nat}
    (hx : x.crashed = false) (hma : mget x.objs a = some o3) (hda : o3.deleted = false)
    (hmt : mget x.objs c.tok = some ot) (hdt : ot.deleted = false)
    (hcanon : ot.get (c.balKey a) = natToBE bal) :
    RevAt c (suicideCore c a o3.suicided bal) x := by
  generalize hx' : ({ x with journal := x.journal ++ [Entry.suicide a o3.suicided bal] } : ADB) = x'
  have hx'o : x'.objs = x.objs := by rw [← hx']
  have hx'c : x'.crashed = false := by rw [← hx']; exact hx
  have hx'f : Frame x' x := by rw [← hx']; exact frame_rfl_journal x _
  have hx'j : x'.journal = x.journal ++ [Entry.suicide a o3.suicided bal] := by rw [← hx']
  have hx'r : x'.revisions = x.revisions ∧ x'.nextRev = x.nextRev := by rw [← hx']; exact ⟨rfl, rfl⟩
  -- token object after the flag was set
  obtain ⟨t1, hm1, hd1, ht1⟩ : ∃ t1, mget (markDirty x' a (setSui o3 true)).objs c.tok = some t1 ∧ t1.deleted = false ∧
      t1 = (if a = c.tok then disarm (setSui o3 true) else ot) := by
    refine ⟨_, ?_, ?_, rfl⟩
    · rw [mget_markDirty, hx'o]; by_cases h : a = c.tok <;> simp [h, hmt]
    · by_cases h : a = c.tok <;> simp [h, hdt, disarm, setSui, hda]
  have hfwd : suicideCore c a o3.suicided bal x =
      markDirty (markDirty x' a (setSui o3 true)) c.tok (setSlot t1 (c.balKey a) (natToBE 0)) := by
    simp only [suicideCore, hma, hx']
    exact setBalanceRaw_inmap c a 0 hm1 hd1
  generalize hr : markDirty (markDirty x' a (setSui o3 true)) c.tok (setSlot t1 (c.balKey a) (natToBE 0)) = r at hfwd
  have hrc : r.crashed = false := by rw [← hr, markDirty_crashed, markDirty_crashed]; exact hx'c
  have hrf : Frame r x := by rw [← hr]; exact (markDirty_Frame _ _ _).trans ((markDirty_Frame _ _ _).trans hx'f)
  have hrj : r.journal = x.journal ++ [Entry.suicide a o3.suicided bal] := by
    rw [← hr, markDirty_journal, markDirty_journal]; exact hx'j
  have hrrev : r.revisions = x.revisions ∧ r.nextRev = x.nextRev := by
    rw [← hr]; constructor
    · rw [markDirty_frame]; show (markDirty x' a _).revisions = _; rw [markDirty_frame]; exact hx'r.1
    · rw [markDirty_frame]; show (markDirty x' a _).nextRev = _; rw [markDirty_frame]; exact hx'r.2
  have hro : ∀ b, mget r.objs b = if c.tok = b then some (disarm (setSlot t1 (c.balKey a) (natToBE 0)))
      else if a = b then some (disarm (setSui o3 true)) else mget x.objs b := by
    intro b; rw [← hr, mget_markDirty, mget_markDirty, hx'o]
  refine ⟨fun h => (by rw [hx] at h; cases h), by rw [hfwd]; exact hrrev.1, by rw [hfwd]; exact hrrev.2,
    ⟨[Entry.suicide a o3.suicided bal], by rw [hfwd]; exact hrj, fun _ => ?_⟩⟩
  rw [undoAll_singleton, hfwd]
  -- the object at `a` in r
  obtain ⟨a2, hma2, hda2, ha2⟩ : ∃ a2, mget r.objs a = some a2 ∧ a2.deleted = false ∧
      a2 = (if c.tok = a then disarm (setSlot t1 (c.balKey a) (natToBE 0)) else disarm (setSui o3 true)) := by
    refine ⟨_, ?_, ?_, rfl⟩
    · rw [hro a]; by_cases h : c.tok = a <;> simp [h]
    · by_cases h : c.tok = a <;> simp [h, disarm, setSlot, setSui, hd1, hda]
  simp only [undo, hrc, Bool.false_eq_true, if_false, resolve_inmap hma2 hda2]
  obtain ⟨t3, hm3, hd3, ht3⟩ : ∃ t3, mget (putObj r a { a2 with suicided := o3.suicided }).objs c.tok = some t3 ∧ t3.deleted = false ∧
      t3 = (if a = c.tok then setSui a2 o3.suicided else disarm (setSlot t1 (c.balKey a) (natToBE 0))) := by
    refine ⟨_, ?_, ?_, rfl⟩
    · rw [mget_putObj, hro c.tok]; by_cases h : a = c.tok <;> simp [h, setSui]
    · by_cases h : a = c.tok <;> simp [h, disarm, setSlot, setSui, hd1, hda2]
  rw [setBalanceRaw_inmap c a bal hm3 hd3]
  refine sim_of_objs (by rw [markDirty_crashed]; exact hrc.trans hx.symm)
    ((markDirty_Frame _ _ _).trans ((putObj_Frame _ _ _).trans hrf)) (fun b => ?_)
  rw [mget_markDirty, mget_putObj, hro b]
  by_cases hat : a = c.tok
  · -- one object plays both roles
    subst hat
    have hoo : o3 = ot := by rw [hma] at hmt; exact Option.some.inj hmt
    subst hoo
    rw [if_pos rfl] at ht1 ha2 ht3
    by_cases hb : c.tok = b
    · subst hb
      right
      refine ⟨disarm (setSlot t3 (c.balKey c.tok) (natToBE bal)), o3, by simp, hma, ?_, hda, ?_⟩
      · simp [hd3]
      · refine ⟨?_, ?_, ?_, fun k' => ?_, ?_⟩
        · simp [ht3, ha2, ht1]
        · simp [ht3, ha2, ht1]
        · simp [ht3, ha2, ht1]
        · simp only [ht3, ha2, ht1, disarm_get, setSui_get, get_setSlot]
          by_cases hk : c.balKey c.tok = k'
          · subst hk; simp [hcanon]
          · simp [hk]
        · simp [ht3, ha2, ht1]
    · left; simp [hb]
  · rw [if_neg hat] at ht1 ht3
    rw [if_neg (fun h => hat h.symm)] at ha2
    by_cases hb : c.tok = b
    · subst hb
      right
      refine ⟨disarm (setSlot t3 (c.balKey a) (natToBE bal)), ot, by simp, hmt, ?_, hdt, ?_⟩
      · simp [hd3]
      · refine ⟨?_, ?_, ?_, fun k' => ?_, ?_⟩
        · simp [ht3, ht1]
        · simp [ht3, ht1]
        · simp [ht3, ht1]
        · simp only [ht3, ht1, disarm_get, get_setSlot]
          by_cases hk : c.balKey a = k'
          · subst hk; simp [hcanon]
          · simp [hk]
        · simp [ht3, ht1]
    · by_cases hab : a = b
      · subst hab
        right
        refine ⟨setSui a2 o3.suicided, o3, by simp [hb, setSui], hma, ?_, hda, ?_⟩
        · simp [ha2, hda]
        · refine ⟨?_, ?_, ?_, fun k' => ?_, ?_⟩ <;> simp [ha2]
      · left; simp [hb, hab]


/-- what a successful `GetBalance` leaves in the object cache -/
theorem getBalance_objs {s1 : ADB} (a : Addr) (hs1 : s1.crashed = false) (hnc : (getBalance c s1 a).1.crashed = false) :
    (∃ ot, mget (getBalance c s1 a).1.objs c.tok = some ot ∧ ot.deleted = false ∧
        (getBalance c s1 a).2 = beToNat (ot.get (c.balKey a))) ∧
    (∀ a' o, mget s1.objs a' = some o → o.deleted = false →
        ∃ o3, mget (getBalance c s1 a).1.objs a' = some o3 ∧ o3.deleted = false ∧ o3.suicided = o.suicided) := by
  unfold getBalance at hnc ⊢
  simp only [hs1, Bool.false_eq_true, if_false] at hnc ⊢
  cases hrn : resolveNew s1 c.tok with
  | mk s1' r =>
    cases r with
    | none => simp [hrn, crash] at hnc
    | some otk =>
      obtain ⟨hm, hd, _⟩ := resolveNew_some hrn
      obtain ⟨h1, h2, _⟩ := readAt_sim (c.balKey a) hm hd
      have hdr : (otk.read (c.balKey a)).1.deleted = false := by rw [Obj.read_fst_other]; exact hd
      simp only
      refine ⟨⟨(otk.read (c.balKey a)).1, ?_, hdr, ?_⟩, fun a' o hm' hd' => ?_⟩
      · show mget (readAt s1' c.tok (c.balKey a)).1.objs c.tok = _
        rw [h1, mget_putObj]; simp
      · show beToNat (readAt s1' c.tok (c.balKey a)).2 = _
        rw [h2, Obj.read_fst_get]
      · show ∃ o3, mget (readAt s1' c.tok (c.balKey a)).1.objs a' = some o3 ∧ _
        rw [h1, mget_putObj]
        by_cases hta : c.tok = a'
        · subst hta
          -- the token contract itself: it was already cached, so resolveNew returned it unchanged
          have : resolveNew s1 c.tok = (s1, some o) := resolveNew_inmap hm' hd'
          rw [this] at hrn
          simp only [Prod.mk.injEq, Option.some.injEq] at hrn
          obtain ⟨_, rfl⟩ := hrn
          exact ⟨_, by simp, hdr, by rw [Obj.read_fst_other]⟩
        · simp only [hta, if_false]
          -- other addresses are untouched by resolveNew on the token contract
          have hkeep : mget s1'.objs a' = mget s1.objs a' := by
            cases hr : res s1 c.tok with
            | deleted => rw [resolveNew_deleted hr] at hrn; cases hrn
            | absent =>
              rw [resolveNew_absent hr] at hrn
              simp only [Prod.mk.injEq] at hrn
              rw [← hrn.1]; simp [mget_mset, hta]
            | live o' =>
              rw [resolveNew_live hr] at hrn
              unfold resolve at hrn
              cases hmm : mget s1.objs c.tok with
              | some o'' =>
                simp only [hmm] at hrn
                split at hrn
                · cases hrn
                · simp only [Prod.mk.injEq] at hrn; rw [← hrn.1]
              | none =>
                simp only [hmm] at hrn
                split at hrn
                · simp only [Prod.mk.injEq] at hrn; rw [← hrn.1]; simp [putObj, mget_mset, hta]
                · cases hrn
          exact ⟨o, by rw [hkeep]; exact hm', hd', rfl⟩

/-- the balance slot of `a` holds minimal big-endian bytes when `Suicide(a)` reads it -/
def SuicideOk (s : ADB) (a : Addr) : Prop :=
  match mget (getBalance c (resolve s a).1 a).1.objs c.tok with
  | some ot => ot.get (c.balKey a) = natToBE (beToNat (ot.get (c.balKey a)))
  | none => True

instance (s : ADB) (a : Addr) : Decidable (SuicideOk c s a) := by
  unfold SuicideOk; split <;> infer_instance

theorem revAt_suicide (s : ADB) (a : Addr) (hok : SuicideOk c s a) : RevAt c (fun x => (suicide c x a).1) s := by
  by_cases hs : s.crashed = true
  · exact RevAt.of_crashed_fix hs (by simp [suicide, hs])
  have hs : s.crashed = false := by simpa using hs
  have h1 := revAt_resolve c s a
  cases hrn : resolve s a with
  | mk s1 r =>
    have e1 : (resolve s a).1 = s1 := by rw [hrn]
    cases r with
    | none => exact RevAt.congr_at (f' := fun x => (resolve x a).1) (by simp [suicide, hs, hrn]) h1
    | some o =>
      obtain ⟨hm, hd⟩ := resolve_some hrn
      have hs1 : s1.crashed = false := by rw [← e1, resolve_crashed]; exact hs
      have h2 : RevAt c (fun x => (getBalance c x a).1) (resolve s a).1 := revAt_getBalance c _ a
      have h12 := RevAt.comp h1 h2
      by_cases hc2 : (getBalance c s1 a).1.crashed = true
      · refine RevAt.congr_at (f' := fun x => (getBalance c (resolve x a).1 a).1) ?_ h12
        simp only [suicide, hs, Bool.false_eq_true, if_false, hrn]
        rw [show getBalance c s1 a = ((getBalance c s1 a).1, (getBalance c s1 a).2) from rfl]
        simp [hc2]
      · have hc2 : (getBalance c s1 a).1.crashed = false := by simpa using hc2
        obtain ⟨⟨ot, hmt, hdt, hbal⟩, hkeep⟩ := getBalance_objs c a hs1 hc2
        obtain ⟨o3, hm3, hd3, hsu⟩ := hkeep a o hm hd
        have hcanon : ot.get (c.balKey a) = natToBE (getBalance c s1 a).2 := by
          have := hok
          unfold SuicideOk at this
          rw [e1, hmt] at this
          rw [hbal]; exact this
        have h3 := revAt_suicideCore c hc2 hm3 hd3 hmt hdt hcanon
        have h3' : RevAt c (suicideCore c a o.suicided (getBalance c s1 a).2) (getBalance c (resolve s a).1 a).1 := by
          rw [e1, ← hsu]; exact h3
        refine RevAt.congr_at (f' := fun x => suicideCore c a o.suicided (getBalance c s1 a).2 (getBalance c (resolve x a).1 a).1) ?_
          (RevAt.comp h12 h3')
        simp only [suicide, hs, Bool.false_eq_true, if_false, hrn]
        rw [show getBalance c s1 a = ((getBalance c s1 a).1, (getBalance c s1 a).2) from rfl]
        simp only [hc2, Bool.false_eq_true, if_false, suicideCore, hm3, setSui]

end
end Rangers.Proofs.Journal
