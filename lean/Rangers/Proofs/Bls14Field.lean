import Rangers.Model.Bls14Verify
import Mathlib.Data.Nat.ModEq
/-!
Helper lemmas for C14: modular exponentiation, the square-root step of hash-to-G1,
reducedness of field operations.
-/
namespace Rangers.Proofs.Bls14
open Rangers Rangers.Model.Bls14

theorem P_pos : 0 < P := by decide
theorem P_odd : P % 2 = 1 := by decide
theorem P_mod4 : P % 4 = 3 := by decide
theorem P_lt : P < 256 ^ 32 := by decide
theorem three_lt_P : 3 < P := by decide

theorem fadd_lt (a b : Nat) : fadd a b < P := Nat.mod_lt _ P_pos
theorem fmul_lt (a b : Nat) : fmul a b < P := Nat.mod_lt _ P_pos
theorem fsub_lt (a b : Nat) : fsub a b < P := Nat.mod_lt _ P_pos
theorem fneg_lt (a : Nat) : fneg a < P := Nat.mod_lt _ P_pos

/-- `powModAux` computes `acc · b^e` modulo `m` when the fuel covers the bits of `e`. -/
theorem powModAux_spec (m fuel b e acc : Nat) (h : e < 2 ^ fuel) :
    powModAux m fuel b e acc ≡ acc * b ^ e [MOD m] := by
  induction fuel generalizing b e acc with
  | zero =>
    have : e = 0 := by simpa using h
    subst this; simp [powModAux]; exact Nat.ModEq.refl _
  | succ fuel ih =>
    rw [powModAux]
    split
    · next h0 => subst h0; simp; exact Nat.ModEq.refl _
    · next h0 =>
      have he : e / 2 < 2 ^ fuel := by
        rw [Nat.pow_succ] at h; omega
      refine (ih _ _ _ he).trans ?_
      have hsq : (b * b % m) ^ (e / 2) ≡ b ^ (2 * (e / 2)) [MOD m] := by
        rw [Nat.pow_mul]
        have : b * b % m ≡ b ^ 2 [MOD m] := by rw [Nat.pow_two]; exact Nat.mod_modEq _ _
        exact this.pow _
      split
      · next h1 =>
        have hd : e = 2 * (e / 2) + 1 := by omega
        have : acc * b ^ e = acc * b * b ^ (2 * (e / 2)) := by
          conv_lhs => rw [hd, Nat.pow_succ]
          rw [Nat.mul_assoc, Nat.mul_comm (b ^ _) b]
        rw [this]
        exact (Nat.mod_modEq _ _).mul hsq
      · next h1 =>
        have hd : e = 2 * (e / 2) := by omega
        conv_rhs => rw [hd]
        exact (Nat.ModEq.refl acc).mul hsq

theorem powMod_spec (b e m : Nat) (he : e < 2 ^ 256) : powMod b e m = b ^ e % m := by
  by_cases hm : m = 0
  · subst hm
    -- modulus 0: everything is exact
    have := powModAux_spec 0 256 (b % 0) e (1 % 0) he
    simp only [Nat.ModEq, Nat.mod_zero] at this
    simp [powMod, this]
  · have hm' : 0 < m := Nat.pos_of_ne_zero hm
    have h := powModAux_spec m 256 (b % m) e (1 % m) he
    have hlt : powMod b e m < m := by
      unfold powMod
      -- every accumulator value is reduced
      have aux : ∀ fuel b e acc, acc < m → powModAux m fuel b e acc < m := by
        intro fuel
        induction fuel with
        | zero => intro b e acc h; simpa [powModAux] using h
        | succ fuel ih =>
          intro b e acc h
          rw [powModAux]
          split
          · exact h
          · apply ih; split
            · exact Nat.mod_lt _ hm'
            · exact h
      exact aux _ _ _ _ (Nat.mod_lt _ hm')
    have h2 : powMod b e m ≡ b ^ e [MOD m] := by
      unfold powMod
      refine h.trans ?_
      have : (1 % m) * (b % m) ^ e ≡ 1 * b ^ e [MOD m] :=
        (Nat.mod_modEq 1 m).mul ((Nat.mod_modEq b m).pow e)
      simpa using this
    have := h2
    unfold Nat.ModEq at this
    rw [Nat.mod_eq_of_lt hlt] at this
    exact this

theorem powMod_lt (b e : Nat) : powMod b e P < P := by
  unfold powMod
  have aux : ∀ fuel b e acc, acc < P → powModAux P fuel b e acc < P := by
    intro fuel
    induction fuel with
    | zero => intro b e acc h; simpa [powModAux] using h
    | succ fuel ih =>
      intro b e acc h
      rw [powModAux]
      split
      · exact h
      · apply ih; split
        · exact Nat.mod_lt _ P_pos
        · exact h
  exact aux _ _ _ _ (Nat.mod_lt _ P_pos)

/-- The square-root step: if Euler's criterion holds for `t` then `t^((p+1)/4)` squares to `t`.
    Pure modular arithmetic — no primality of `p` is needed. -/
theorem modSqrt_sq (t y : Nat) (h : modSqrt t = some y) : y * y % P = t % P ∧ y < P := by
  unfold modSqrt at h
  simp only at h
  split at h
  · next h0 =>
    have : t % P = 0 := by simpa using h0
    have hy : y = 0 := by simpa using h.symm
    subst hy; simp [this, P_pos]
  · split at h
    · next h0 h1 =>
      have hy : y = powMod (t % P) ((P + 1) / 4) P := by simpa using h.symm
      have e1 : powMod (t % P) ((P - 1) / 2) P = 1 := by simpa using h1
      rw [powMod_spec _ _ _ (by decide)] at e1
      refine ⟨?_, by rw [hy]; exact powMod_lt _ _⟩
      rw [hy, powMod_spec _ _ _ (by decide)]
      -- (u^k % P)^2 = u^(2k) = u * u^((P-1)/2)
      have hk : (P + 1) / 4 + (P + 1) / 4 = 1 + (P - 1) / 2 := by decide
      have : (t % P) ^ ((P + 1) / 4) % P * ((t % P) ^ ((P + 1) / 4) % P) % P
          = (t % P) ^ ((P + 1) / 4 + (P + 1) / 4) % P := by
        rw [Nat.pow_add, ← Nat.mul_mod]
      rw [this, hk, Nat.pow_add, Nat.pow_one, Nat.mul_mod, e1]
      simp
    · simp at h

end Rangers.Proofs.Bls14
