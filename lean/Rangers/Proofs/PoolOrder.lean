import Rangers.Proofs.PoolSort
/-! `Transactions.Less` is a strict weak order on canonical sources (proposals 021 / 023). Core Lean only. -/
namespace Rangers.Pool

/-- Sources present are canonical: distinct `Source` strings have distinct numeric value
(`VerifyTransaction` admits only `Source = pk.GetAddress().GetHexString()`). -/
def Canonical (S : Tx → Prop) : Prop := ∀ a b, S a → S b → srcVal a.src = srcVal b.src → a.src = b.src

/-- lexicographic `<` on 4-tuples -/
def klt (x y : Int × Int × Int × Int) : Prop :=
  x.1 < y.1 ∨ (x.1 = y.1 ∧ (x.2.1 < y.2.1 ∨ (x.2.1 = y.2.1 ∧ (x.2.2.1 < y.2.2.1 ∨ (x.2.2.1 = y.2.2.1 ∧ x.2.2.2 < y.2.2.2)))))

theorem klt_negtrans {x y z : Int × Int × Int × Int} (h1 : ¬ klt x y) (h2 : ¬ klt y z) : ¬ klt x z := by
  unfold klt at *; omega

theorem klt_asymm {x y : Int × Int × Int × Int} (h1 : klt x y) : ¬ klt y x := by
  unfold klt at *; omega

/-- sort key under proposal 023: RequestId-0 transactions first, by source value descending,
nonce ascending, hash descending; the others by RequestId. -/
def key23 (a : Tx) : Int × Int × Int × Int :=
  if a.req = 0 then (0, -(srcVal a.src : Int), (a.nonce : Int), -(a.hash : Int)) else ((a.req : Int), 0, 0, 0)

/-- sort key under proposal 021 (without 023): no hash tie-break. -/
def key21 (a : Tx) : Int × Int × Int × Int :=
  if a.req = 0 then (0, -(srcVal a.src : Int), (a.nonce : Int), 0) else ((a.req : Int), 0, 0, 0)

theorem less23_iff {c : Cfg} (h23 : c.p023 = true) {a b : Tx} (hc : srcVal a.src = srcVal b.src → a.src = b.src) :
    less c a b = true ↔ klt (key23 a) (key23 b) := by
  unfold less lessRes key23 klt
  simp only [Cmp.ofBool, h23]
  by_cases ha : a.req = 0 <;> by_cases hb : b.req = 0 <;> simp [ha, hb]
  · by_cases hs : a.src = b.src
    · simp [hs]
      by_cases hn : a.nonce = b.nonce
      · simp [hn]
        by_cases hh : a.hash = b.hash
        · simp [hh]
        · simp [hh]
      · simp [hn]; omega
    · have : srcVal a.src ≠ srcVal b.src := fun e => hs (hc e)
      simp [hs]; omega
  all_goals omega

theorem less21_iff {c : Cfg} (h23 : c.p023 = false) (h21 : c.p021 = true) {a b : Tx}
    (hc : srcVal a.src = srcVal b.src → a.src = b.src) :
    less c a b = true ↔ klt (key21 a) (key21 b) := by
  unfold less lessRes key21 klt
  simp only [Cmp.ofBool, h23, h21]
  by_cases ha : a.req = 0 <;> by_cases hb : b.req = 0 <;> simp [ha, hb]
  · by_cases hs : a.src = b.src
    · simp [hs]
    · have : srcVal a.src ≠ srcVal b.src := fun e => hs (hc e)
      simp [hs]; omega
  all_goals omega

theorem weakOrder_of_key {c : Cfg} {S : Tx → Prop} (key : Tx → Int × Int × Int × Int)
    (hiff : ∀ a b, S a → S b → (less c a b = true ↔ klt (key a) (key b))) : WeakOrderOn c S where
  asymm a b ha hb h := by
    have h1 := (hiff a b ha hb).mp h
    have h2 : ¬ klt (key b) (key a) := klt_asymm h1
    cases hl : less c b a with
    | false => rfl
    | true => exact absurd ((hiff b a hb ha).mp hl) h2
  negtrans a b d ha hb hd h1 h2 := by
    have n1 : ¬ klt (key a) (key b) := fun k => by have := (hiff a b ha hb).mpr k; simp [h1] at this
    have n2 : ¬ klt (key b) (key d) := fun k => by have := (hiff b d hb hd).mpr k; simp [h2] at this
    cases hl : less c a d with
    | false => rfl
    | true => exact absurd ((hiff a d ha hd).mp hl) (klt_negtrans n1 n2)

/-- Under proposal 023 `Less` is a strict weak order on any set of transactions with canonical sources. -/
theorem weakOrder23 {c : Cfg} (h23 : c.p023 = true) {S : Tx → Prop} (hc : Canonical S) : WeakOrderOn c S :=
  weakOrder_of_key key23 (fun a b ha hb => less23_iff h23 (hc a b ha hb))

theorem weakOrder21 {c : Cfg} (h23 : c.p023 = false) (h21 : c.p021 = true) {S : Tx → Prop} (hc : Canonical S) :
    WeakOrderOn c S :=
  weakOrder_of_key key21 (fun a b ha hb => less21_iff h23 h21 (hc a b ha hb))

/-- With proposal 016, 021 or 023 active: if `b` is not less than `a`… wait direction: `a` precedes `b` in a sorted
slice (`Less(b, a)` is false), both nonce-checked, same `Source` ⇒ `a.nonce ≤ b.nonce`. -/
theorem nonce_le_of_not_less {c : Cfg} (hf : c.p016 = true ∨ c.p021 = true ∨ c.p023 = true) {a b : Tx}
    (ha : a.req = 0) (hb : b.req = 0) (hs : a.src = b.src) (h : less c b a = false) : a.nonce ≤ b.nonce := by
  unfold less lessRes at h
  simp only [Cmp.ofBool, ha, hb, hs] at h
  by_cases hn : b.nonce = a.nonce
  · omega
  · cases h23 : c.p023 <;> cases h21 : c.p021 <;> cases h16 : c.p016 <;> simp_all <;> omega

end Rangers.Pool
