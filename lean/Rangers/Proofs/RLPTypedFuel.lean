import Rangers.Proofs.RLPTypedComplete
/-! Fuel of the typed slice decoder: more fuel never changes a non-fuel result (`typed_mono`),
    and the fuel `decodeTy` hands out is never exhausted (`typed_fuel_suffices`). -/
namespace Rangers.RLP
open Rangers

def MonoAt (f : Nat) : Prop :=
  (∀ ty b r, decT f ty b = r → r ≠ .error .fuel → decT (f + 1) ty b = r) ∧
  (∀ e c r, decElems f e c = r → r ≠ .error .fuel → decElems (f + 1) e c = r) ∧
  (∀ e n c r, decArr f e n c = r → r ≠ .error .fuel → decArr (f + 1) e n c = r) ∧
  (∀ fs c r, decFields f fs c = r → r ≠ .error .fuel → decFields (f + 1) fs c = r)

theorem mono_zero : MonoAt 0 := by
  refine ⟨?_, ?_, ?_, ?_⟩
  · intro ty b r h hne; simp [decT] at h; exact absurd h.symm hne
  · intro e c r h hne; simp [decElems] at h; exact absurd h.symm hne
  · intro e n c r h hne; simp [decArr] at h; exact absurd h.symm hne
  · intro fs c r h hne; simp [decFields] at h; exact absurd h.symm hne

/-- step through `match inner with | error e => error e | ok y => k y` on both fuel levels -/
theorem mono_succ {f : Nat} (ih : MonoAt f) : MonoAt (f + 1) := by
  obtain ⟨ihT, ihE, ihA, ihF⟩ := ih
  refine ⟨?_, ?_, ?_, ?_⟩
  · intro ty b r h hne
    cases ty with
    | raw => rw [decT] at h ⊢; exact h
    | uint bits => rw [decT] at h ⊢; exact h
    | bool => rw [decT] at h ⊢; exact h
    | big => rw [decT] at h ⊢; exact h
    | str => rw [decT] at h ⊢; exact h
    | bytes => rw [decT] at h ⊢; exact h
    | barr n => rw [decT] at h ⊢; exact h
    | any =>
      rw [decT] at h ⊢
      cases hk : readHead b with
      | error e => rw [hk] at h; exact h
      | ok t =>
        obtain ⟨k, ts, cs⟩ := t
        rw [hk] at h
        cases k <;> simp only at h ⊢ <;> exact ihT _ _ _ h hne
    | ptr e =>
      rw [decT] at h ⊢
      cases hd : decT f e b with
      | error er =>
        rw [hd] at h
        have he : er ≠ .fuel := fun he => hne (by rw [← h, he])
        rw [ihT _ _ _ hd (by simpa using he)]; exact h
      | ok y => rw [hd] at h; rw [ihT _ _ _ hd (by simp)]; exact h
    | slice e =>
      rw [decT] at h ⊢
      cases hk : readHead b with
      | error er => rw [hk] at h; exact h
      | ok t =>
        obtain ⟨k, ts, cs⟩ := t
        rw [hk] at h
        cases k with
        | byte => exact h
        | string => exact h
        | list =>
          simp only at h ⊢
          cases hd : decElems f e ((b.drop ts).take cs) with
          | error er =>
            rw [hd] at h
            have he : er ≠ .fuel := fun he => hne (by rw [← h, he])
            rw [ihE _ _ _ hd (by simpa using he)]; exact h
          | ok y => rw [hd] at h; rw [ihE _ _ _ hd (by simp)]; exact h
    | arr n e =>
      rw [decT] at h ⊢
      cases hk : readHead b with
      | error er => rw [hk] at h; exact h
      | ok t =>
        obtain ⟨k, ts, cs⟩ := t
        rw [hk] at h
        cases k with
        | byte => exact h
        | string => exact h
        | list =>
          simp only at h ⊢
          cases hd : decArr f e n ((b.drop ts).take cs) with
          | error er =>
            rw [hd] at h
            have he : er ≠ .fuel := fun he => hne (by rw [← h, he])
            rw [ihA _ _ _ _ hd (by simpa using he)]; exact h
          | ok y => rw [hd] at h; rw [ihA _ _ _ _ hd (by simp)]; exact h
    | struct fs =>
      rw [decT] at h ⊢
      cases hk : readHead b with
      | error er => rw [hk] at h; exact h
      | ok t =>
        obtain ⟨k, ts, cs⟩ := t
        rw [hk] at h
        cases k with
        | byte => exact h
        | string => exact h
        | list =>
          simp only at h ⊢
          cases hd : decFields f fs ((b.drop ts).take cs) with
          | error er =>
            rw [hd] at h
            have he : er ≠ .fuel := fun he => hne (by rw [← h, he])
            rw [ihF _ _ _ hd (by simpa using he)]; exact h
          | ok y => rw [hd] at h; rw [ihF _ _ _ hd (by simp)]; exact h
  · intro e c r h hne
    cases c with
    | nil => simp only [decElems] at h ⊢; exact h
    | cons x xs =>
      rw [decElems] at h ⊢
      cases hd : decT f e (x :: xs) with
      | error er =>
        rw [hd] at h
        have he : er ≠ .fuel := fun he => hne (by rw [← h, he])
        rw [ihT _ _ _ hd (by simpa using he)]; exact h
      | ok y =>
        obtain ⟨v, rest⟩ := y
        rw [hd] at h; rw [ihT _ _ _ hd (by simp)]
        simp only at h ⊢
        cases hd2 : decElems f e rest with
        | error er =>
          rw [hd2] at h
          have he : er ≠ .fuel := fun he => hne (by rw [← h, he])
          rw [ihE _ _ _ hd2 (by simpa using he)]; exact h
        | ok vs => rw [hd2] at h; rw [ihE _ _ _ hd2 (by simp)]; exact h
  · intro e n c r h hne
    cases n with
    | zero => cases c <;> (simp only [decArr] at h ⊢; exact h)
    | succ n =>
      cases c with
      | nil => simp only [decArr] at h ⊢; exact h
      | cons x xs =>
        rw [decArr] at h ⊢
        cases hd : decT f e (x :: xs) with
        | error er =>
          rw [hd] at h
          have he : er ≠ .fuel := fun he => hne (by rw [← h, he])
          rw [ihT _ _ _ hd (by simpa using he)]; exact h
        | ok y =>
          obtain ⟨v, rest⟩ := y
          rw [hd] at h; rw [ihT _ _ _ hd (by simp)]
          simp only at h ⊢
          cases hd2 : decArr f e n rest with
          | error er =>
            rw [hd2] at h
            have he : er ≠ .fuel := fun he => hne (by rw [← h, he])
            rw [ihA _ _ _ _ hd2 (by simpa using he)]; exact h
          | ok vs => rw [hd2] at h; rw [ihA _ _ _ _ hd2 (by simp)]; exact h
  · intro fs c r h hne
    cases fs with
    | nil => cases c <;> (simp only [decFields] at h ⊢; exact h)
    | cons fld fs' =>
      obtain ⟨tag, ty⟩ := fld
      cases tag with
      | tail =>
        cases ty with
        | slice e =>
          cases fs' with
          | nil =>
            rw [decFields] at h ⊢
            cases hd : decElems f e c with
            | error er =>
              rw [hd] at h
              have he : er ≠ .fuel := fun he => hne (by rw [← h, he])
              rw [ihE _ _ _ hd (by simpa using he)]; exact h
            | ok vs => rw [hd] at h; rw [ihE _ _ _ hd (by simp)]; exact h
          | cons _ _ => simp only [decFields] at h ⊢; exact h
        | _ => simp only [decFields] at h ⊢; exact h
      | nilOK =>
        cases ty with
        | ptr e =>
          cases c with
          | nil => simp only [decFields] at h ⊢; exact h
          | cons x xs =>
            rw [decFields] at h ⊢
            cases hk : readHead (x :: xs) with
            | error er => rw [hk] at h; exact h
            | ok t =>
              obtain ⟨k, ts, cs⟩ := t
              rw [hk] at h
              simp only at h ⊢
              by_cases hc : cs = 0 ∧ k ≠ .byte
              · rw [if_pos hc] at h ⊢
                cases hd : decFields f fs' ((x :: xs).drop ts) with
                | error er =>
                  rw [hd] at h
                  have he : er ≠ .fuel := fun he => hne (by rw [← h, he])
                  rw [ihF _ _ _ hd (by simpa using he)]; exact h
                | ok vs => rw [hd] at h; rw [ihF _ _ _ hd (by simp)]; exact h
              · rw [if_neg hc] at h ⊢
                cases hd : decT f e (x :: xs) with
                | error er =>
                  rw [hd] at h
                  have he : er ≠ .fuel := fun he => hne (by rw [← h, he])
                  rw [ihT _ _ _ hd (by simpa using he)]; exact h
                | ok y =>
                  obtain ⟨v, rest⟩ := y
                  rw [hd] at h; rw [ihT _ _ _ hd (by simp)]
                  simp only at h ⊢
                  cases hd2 : decFields f fs' rest with
                  | error er =>
                    rw [hd2] at h
                    have he : er ≠ .fuel := fun he => hne (by rw [← h, he])
                    rw [ihF _ _ _ hd2 (by simpa using he)]; exact h
                  | ok vs => rw [hd2] at h; rw [ihF _ _ _ hd2 (by simp)]; exact h
        | _ => simp only [decFields] at h ⊢; exact h
      | none =>
        cases c with
        | nil => simp only [decFields] at h ⊢; exact h
        | cons x xs =>
          rw [decFields] at h ⊢
          cases hd : decT f ty (x :: xs) with
          | error er =>
            rw [hd] at h
            have he : er ≠ .fuel := fun he => hne (by rw [← h, he])
            rw [ihT _ _ _ hd (by simpa using he)]; exact h
          | ok y =>
            obtain ⟨v, rest⟩ := y
            rw [hd] at h; rw [ihT _ _ _ hd (by simp)]
            simp only at h ⊢
            cases hd2 : decFields f fs' rest with
            | error er =>
              rw [hd2] at h
              have he : er ≠ .fuel := fun he => hne (by rw [← h, he])
              rw [ihF _ _ _ hd2 (by simpa using he)]; exact h
            | ok vs => rw [hd2] at h; rw [ihF _ _ _ hd2 (by simp)]; exact h

theorem typed_mono : ∀ f, MonoAt f := by
  intro f
  induction f with
  | zero => exact mono_zero
  | succ f ih => exact mono_succ ih

theorem decT_mono_le {f g : Nat} (hfg : f ≤ g) (ty : Ty) (b : Bytes) (r : Except Err (Val × Bytes))
    (h : decT f ty b = r) (hne : r ≠ .error .fuel) : decT g ty b = r := by
  induction hfg with
  | refl => exact h
  | step _ ih => exact (typed_mono _).1 _ _ _ ih hne

theorem readLong_ne_fuel (tl : Bytes) (n : Nat) : readLong tl n ≠ .error .fuel := by
  intro h
  unfold readLong at h
  (repeat' split at h) <;> cases h

theorem readHead_ne_fuel (buf : Bytes) : readHead buf ≠ .error .fuel := by
  intro h
  cases buf with
  | nil => simp [readHead] at h
  | cons b tl =>
    simp only [readHead] at h
    (repeat' split at h) <;>
      first
        | (cases h; done)
        | (injection h with h; subst h
           rename_i he
           (repeat' split at he) <;>
             first
               | (cases he; done)
               | (injection he with he; subst he; rename_i hr; exact absurd hr (readLong_ne_fuel _ _)))

theorem bytesOf_ne_fuel (buf : Bytes) : bytesOf buf ≠ .error .fuel := by
  intro h
  unfold bytesOf at h
  cases hk : readHead buf with
  | error e => rw [hk] at h; injection h with h; subst h; exact readHead_ne_fuel _ hk
  | ok t =>
    obtain ⟨k, ts, cs⟩ := t
    rw [hk] at h
    cases k <;> simp only at h <;> (repeat' split at h) <;> cases h

theorem uintOf_ne_fuel (bits : Nat) (buf : Bytes) : uintOf bits buf ≠ .error .fuel := by
  intro h
  unfold uintOf at h
  cases hk : readHead buf with
  | error e => rw [hk] at h; injection h with h; subst h; exact readHead_ne_fuel _ hk
  | ok t =>
    obtain ⟨k, ts, cs⟩ := t
    rw [hk] at h
    cases k <;> simp only at h <;> (repeat' split at h) <;> cases h

theorem bigOfContent_ne_fuel (c : Bytes) : bigOfContent c ≠ .error .fuel := by
  intro h
  unfold bigOfContent at h
  (repeat' split at h) <;> cases h


theorem tySize_pos (ty : Ty) : 1 ≤ tySize ty := by
  cases ty <;> simp [tySize]

/-- "no fuel error at fuel `f`" for inputs within the bounds -/
def SuffAt (f : Nat) : Prop :=
  (∀ ty (b : Bytes), tySize ty * (b.length + 2) ≤ f → decT f ty b ≠ .error .fuel) ∧
  (∀ e (c : Bytes), tySize e * (c.length + 2) + 1 ≤ f → decElems f e c ≠ .error .fuel) ∧
  (∀ e n (c : Bytes), tySize e * (c.length + 2) + 1 ≤ f → decArr f e n c ≠ .error .fuel) ∧
  (∀ fs (c : Bytes), fieldsSize fs * (c.length + 2) + 1 ≤ f → decFields f fs c ≠ .error .fuel) ∧
  (∀ b : Bytes, 3 * b.length + 3 ≤ f → decT f (.slice .any) b ≠ .error .fuel) ∧
  (∀ b : Bytes, 3 * b.length + 4 ≤ f → decT f .any b ≠ .error .fuel) ∧
  (∀ c : Bytes, 3 * c.length + 5 ≤ f → decElems f .any c ≠ .error .fuel)

theorem suff_zero : SuffAt 0 := by
  refine ⟨?_, ?_, ?_, ?_, ?_, ?_, ?_⟩
  · intro ty b h
    have := tySize_pos ty
    have : 2 ≤ tySize ty * (b.length + 2) := by
      calc 2 = 1 * 2 := rfl
        _ ≤ tySize ty * (b.length + 2) := Nat.mul_le_mul this (by omega)
    omega
  all_goals (intros; omega)

/-- content of an accepted list header is strictly shorter than the buffer -/
theorem content_shorter {b : Bytes} {ts cs : Nat} (hk : readHead b = .ok (.list, ts, cs)) :
    ((b.drop ts).take cs).length + 1 ≤ b.length := by
  obtain ⟨hl, _, hc⟩ := readHead_inv hk
  rcases hc with ⟨h, _⟩ | ⟨h, _⟩ | ⟨_, _, hts⟩
  · cases h
  · cases h
  · simp only [List.length_take, List.length_drop]; omega

theorem mul_mono (a : Nat) {m m' : Nat} (h : m' ≤ m) : a * m' ≤ a * m := Nat.mul_le_mul_left a h

theorem suff_succ {f : Nat} (ih : SuffAt f) : SuffAt (f + 1) := by
  obtain ⟨ihT, ihE, ihA, ihF, ihS, ihAny, ihEA⟩ := ih
  -- the three `interface{}` clauses first
  have hEA : ∀ c : Bytes, 3 * c.length + 5 ≤ f + 1 → decElems (f + 1) .any c ≠ .error .fuel := by
    intro c hb
    cases c with
    | nil => simp [decElems]
    | cons x xs =>
      rw [decElems]
      have h1 := ihAny (x :: xs) (by simp only [List.length_cons] at hb ⊢; omega)
      cases hd : decT f .any (x :: xs) with
      | error er => simp only; intro h; injection h with h; subst h; exact h1 hd
      | ok y =>
        obtain ⟨v, rest⟩ := y
        simp only
        have hl := decT_shorter hd
        have h2 := ihEA rest (by simp only [List.length_cons] at hb hl; omega)
        cases hd2 : decElems f .any rest with
        | error er => simp only; intro h; injection h with h; subst h; exact h2 hd2
        | ok vs => simp
  have hS : ∀ b : Bytes, 3 * b.length + 3 ≤ f + 1 → decT (f + 1) (.slice .any) b ≠ .error .fuel := by
    intro b hb
    rw [decT]
    cases hk : readHead b with
    | error er => simp only; intro h; injection h with h; subst h; exact readHead_ne_fuel _ hk
    | ok t =>
      obtain ⟨k, ts, cs⟩ := t
      cases k with
      | byte => simp
      | string => simp
      | list =>
        simp only
        have hc := content_shorter hk
        have h1 := ihEA ((b.drop ts).take cs) (by omega)
        cases hd : decElems f .any ((b.drop ts).take cs) with
        | error er => simp only; intro h; injection h with h; subst h; exact h1 hd
        | ok vs => simp
  have hAny : ∀ b : Bytes, 3 * b.length + 4 ≤ f + 1 → decT (f + 1) .any b ≠ .error .fuel := by
    intro b hb
    rw [decT]
    cases hk : readHead b with
    | error er => simp only; intro h; injection h with h; subst h; exact readHead_ne_fuel _ hk
    | ok t =>
      obtain ⟨k, ts, cs⟩ := t
      have hbytes := ihT .bytes b (by simp only [tySize]; omega)
      cases k with
      | list => simp only; exact ihS b (by omega)
      | byte => simp only; exact hbytes
      | string => simp only; exact hbytes
  refine ⟨?_, ?_, ?_, ?_, hS, hAny, hEA⟩
  · intro ty b hb
    cases ty with
    | any => exact hAny b (by simp only [tySize] at hb; omega)
    | raw =>
      rw [decT]
      cases hk : readHead b with
      | error er => simp only; intro h; injection h with h; subst h; exact readHead_ne_fuel _ hk
      | ok t => obtain ⟨k, ts, cs⟩ := t; cases k <;> simp
    | uint bits =>
      rw [decT]
      cases hu : uintOf bits b with
      | error er => simp only; intro h; injection h with h; subst h; exact uintOf_ne_fuel _ _ hu
      | ok y => simp
    | bool =>
      rw [decT]
      cases hu : uintOf 8 b with
      | error er => simp only; intro h; injection h with h; subst h; exact uintOf_ne_fuel _ _ hu
      | ok y => obtain ⟨n, r⟩ := y; simp only; split; simp; split <;> simp
    | big =>
      rw [decT]
      cases hu : bytesOf b with
      | error er => simp only; intro h; injection h with h; subst h; exact bytesOf_ne_fuel _ hu
      | ok y =>
        obtain ⟨c, r⟩ := y
        simp only
        cases hb2 : bigOfContent c with
        | error er => simp only; intro h; injection h with h; subst h; exact bigOfContent_ne_fuel _ hb2
        | ok n => simp
    | str =>
      rw [decT]
      cases hu : bytesOf b with
      | error er => simp only; intro h; injection h with h; subst h; exact bytesOf_ne_fuel _ hu
      | ok y => simp
    | bytes =>
      rw [decT]
      cases hu : bytesOf b with
      | error er => simp only; intro h; injection h with h; subst h; exact bytesOf_ne_fuel _ hu
      | ok y => simp
    | barr n =>
      rw [decT]
      cases hk : readHead b with
      | error er => simp only; intro h; injection h with h; subst h; exact readHead_ne_fuel _ hk
      | ok t =>
        obtain ⟨k, ts, cs⟩ := t
        cases k <;> simp only <;> (repeat' split) <;> simp
    | ptr e =>
      rw [decT]
      simp only [tySize, Nat.add_mul, Nat.one_mul] at hb
      have h1 := ihT e b (by omega)
      cases hd : decT f e b with
      | error er => simp only; intro h; injection h with h; subst h; exact h1 hd
      | ok y => simp
    | slice e =>
      rw [decT]
      cases hk : readHead b with
      | error er => simp only; intro h; injection h with h; subst h; exact readHead_ne_fuel _ hk
      | ok t =>
        obtain ⟨k, ts, cs⟩ := t
        cases k with
        | byte => simp
        | string => simp
        | list =>
          simp only
          have hc := content_shorter hk
          have hp := tySize_pos e
          simp only [tySize, Nat.add_mul, Nat.one_mul] at hb
          have hm := mul_mono (tySize e) (show ((b.drop ts).take cs).length + 2 ≤ b.length + 1 by omega)
          have hs : tySize e * (b.length + 1) + tySize e = tySize e * (b.length + 2) := by
            rw [← Nat.mul_succ]
          have h1 := ihE e ((b.drop ts).take cs) (by omega)
          cases hd : decElems f e ((b.drop ts).take cs) with
          | error er => simp only; intro h; injection h with h; subst h; exact h1 hd
          | ok vs => simp
    | arr n e =>
      rw [decT]
      cases hk : readHead b with
      | error er => simp only; intro h; injection h with h; subst h; exact readHead_ne_fuel _ hk
      | ok t =>
        obtain ⟨k, ts, cs⟩ := t
        cases k with
        | byte => simp
        | string => simp
        | list =>
          simp only
          have hc := content_shorter hk
          have hp := tySize_pos e
          simp only [tySize, Nat.add_mul, Nat.one_mul] at hb
          have hm := mul_mono (tySize e) (show ((b.drop ts).take cs).length + 2 ≤ b.length + 1 by omega)
          have hs : tySize e * (b.length + 1) + tySize e = tySize e * (b.length + 2) := by
            rw [← Nat.mul_succ]
          have h1 := ihA e n ((b.drop ts).take cs) (by omega)
          cases hd : decArr f e n ((b.drop ts).take cs) with
          | error er => simp only; intro h; injection h with h; subst h; exact h1 hd
          | ok vs => simp
    | struct fs =>
      rw [decT]
      cases hk : readHead b with
      | error er => simp only; intro h; injection h with h; subst h; exact readHead_ne_fuel _ hk
      | ok t =>
        obtain ⟨k, ts, cs⟩ := t
        cases k with
        | byte => simp
        | string => simp
        | list =>
          simp only
          have hc := content_shorter hk
          simp only [tySize, Nat.add_mul, Nat.one_mul] at hb
          have hm := mul_mono (fieldsSize fs) (show ((b.drop ts).take cs).length + 2 ≤ b.length + 2 by omega)
          have h1 := ihF fs ((b.drop ts).take cs) (by omega)
          cases hd : decFields f fs ((b.drop ts).take cs) with
          | error er => simp only; intro h; injection h with h; subst h; exact h1 hd
          | ok vs => simp
  · intro e c hb
    cases c with
    | nil => simp [decElems]
    | cons x xs =>
      rw [decElems]
      have hp := tySize_pos e
      have h1 := ihT e (x :: xs) (by omega)
      cases hd : decT f e (x :: xs) with
      | error er => simp only; intro h; injection h with h; subst h; exact h1 hd
      | ok y =>
        obtain ⟨v, rest⟩ := y
        simp only
        have hl := decT_shorter hd
        have hm := mul_mono (tySize e) (show rest.length + 2 ≤ (x :: xs).length + 1 by omega)
        have hs : tySize e * ((x :: xs).length + 1) + tySize e = tySize e * ((x :: xs).length + 2) := by
          rw [← Nat.mul_succ]
        have h2 := ihE e rest (by omega)
        cases hd2 : decElems f e rest with
        | error er => simp only; intro h; injection h with h; subst h; exact h2 hd2
        | ok vs => simp
  · intro e n c hb
    cases n with
    | zero => cases c <;> simp [decArr]
    | succ n =>
      cases c with
      | nil => simp [decArr]
      | cons x xs =>
        rw [decArr]
        have hp := tySize_pos e
        have h1 := ihT e (x :: xs) (by omega)
        cases hd : decT f e (x :: xs) with
        | error er => simp only; intro h; injection h with h; subst h; exact h1 hd
        | ok y =>
          obtain ⟨v, rest⟩ := y
          simp only
          have hl := decT_shorter hd
          have hm := mul_mono (tySize e) (show rest.length + 2 ≤ (x :: xs).length + 1 by omega)
          have hs : tySize e * ((x :: xs).length + 1) + tySize e = tySize e * ((x :: xs).length + 2) := by
            rw [← Nat.mul_succ]
          have h2 := ihA e n rest (by omega)
          cases hd2 : decArr f e n rest with
          | error er => simp only; intro h; injection h with h; subst h; exact h2 hd2
          | ok vs => simp
  · intro fs c hb
    cases fs with
    | nil => cases c <;> simp [decFields]
    | cons fld fs' =>
      obtain ⟨tag, ty⟩ := fld
      simp only [fieldsSize, Nat.add_mul] at hb
      cases tag with
      | tail =>
        cases ty with
        | slice e =>
          cases fs' with
          | nil =>
            rw [decFields]
            simp only [tySize, Nat.add_mul, Nat.one_mul] at hb
            have h1 := ihE e c (by omega)
            cases hd : decElems f e c with
            | error er => simp only; intro h; injection h with h; subst h; exact h1 hd
            | ok vs => simp
          | cons _ _ => simp [decFields]
        | _ => simp [decFields]
      | nilOK =>
        cases ty with
        | ptr e =>
          cases c with
          | nil => simp [decFields]
          | cons x xs =>
            rw [decFields]
            simp only [tySize, Nat.add_mul, Nat.one_mul] at hb
            cases hk : readHead (x :: xs) with
            | error er => simp only; intro h; injection h with h; subst h; exact readHead_ne_fuel _ hk
            | ok t =>
              obtain ⟨k, ts, cs⟩ := t
              simp only
              split
              · have hm := mul_mono (fieldsSize fs') (show ((x :: xs).drop ts).length + 2 ≤ (x :: xs).length + 2 by simp only [List.length_drop]; omega)
                have h1 := ihF fs' ((x :: xs).drop ts) (by omega)
                cases hd : decFields f fs' ((x :: xs).drop ts) with
                | error er => simp only; intro h; injection h with h; subst h; exact h1 hd
                | ok vs => simp
              · have h1 := ihT e (x :: xs) (by omega)
                cases hd : decT f e (x :: xs) with
                | error er => simp only; intro h; injection h with h; subst h; exact h1 hd
                | ok y =>
                  obtain ⟨v, rest⟩ := y
                  simp only
                  have hl := decT_shorter hd
                  have hm := mul_mono (fieldsSize fs') (show rest.length + 2 ≤ (x :: xs).length + 2 by omega)
                  have h2 := ihF fs' rest (by omega)
                  cases hd2 : decFields f fs' rest with
                  | error er => simp only; intro h; injection h with h; subst h; exact h2 hd2
                  | ok vs => simp
        | _ => simp [decFields]
      | none =>
        cases c with
        | nil => simp [decFields]
        | cons x xs =>
          rw [decFields]
          have h1 := ihT ty (x :: xs) (by omega)
          cases hd : decT f ty (x :: xs) with
          | error er => simp only; intro h; injection h with h; subst h; exact h1 hd
          | ok y =>
            obtain ⟨v, rest⟩ := y
            simp only
            have hl := decT_shorter hd
            have hm := mul_mono (fieldsSize fs') (show rest.length + 2 ≤ (x :: xs).length + 2 by omega)
            have h2 := ihF fs' rest (by omega)
            cases hd2 : decFields f fs' rest with
            | error er => simp only; intro h; injection h with h; subst h; exact h2 hd2
            | ok vs => simp

theorem typed_suff : ∀ f, SuffAt f := by
  intro f
  induction f with
  | zero => exact suff_zero
  | succ f ih => exact suff_succ ih

/-- the fuel `decodeTy` hands out is never exhausted -/
theorem typed_fuel_suffices (ty : Ty) (b : Bytes) : decT (typedFuel ty b) ty b ≠ .error .fuel :=
  (typed_suff _).1 ty b (by unfold typedFuel; omega)

end Rangers.RLP
