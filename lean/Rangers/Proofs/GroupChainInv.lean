import Rangers.Proofs.GroupChainStore
/-!
The representation invariant of the group chain: the concrete state (LevelDB-keyed
store + in-memory mirror) represents an abstract list of groups, genesis first.
Every clause of property C19 is a consequence of `Rep` (see `Props/C19.lean`);
`save` / `remove` / start-up preserve it.
-/
namespace Rangers.Model.GroupChain
open Rangers

/-- A group id that cannot be mistaken for a bookkeeping key of the store: not empty,
    not 8 bytes long (height keys, `gcurrent`), not `gcount`. Real ids are 32 bytes. -/
def IdOK (id : Bytes) : Prop := id ≠ [] ∧ id.length ≠ 8 ∧ id ≠ cntKey

instance (id : Bytes) : Decidable (IdOK id) := by unfold IdOK; exact inferInstance

/-- Predecessor links: the first group's `pre` is `p`, every later one's is the id before it. -/
def Linked : Bytes → List Group → Prop
  | _, [] => True
  | p, g :: t => g.pre = p ∧ Linked g.id t

instance : (p : Bytes) → (l : List Group) → Decidable (Linked p l)
  | _, [] => isTrue trivial
  | p, g :: t => by
    unfold Linked
    have := instDecidableLinked g.id t
    exact inferInstance

/-- Upper bound on the chain length under which no height key equals `"gcurrent"`
    (`hkey 0x6763757272656e74 = "gcurrent"`): 2^62. -/
def lenBound : Nat := 4611686018427387904

/-- The one height whose 8-byte key spells `"gcurrent"`: the height index and the
    last-group pointer share a key space, so slot `curHeight` always "holds" the last group. -/
def curHeight : Nat := 7449927343006903924

theorem hkey_curHeight : hkey curHeight = curKey := by decide

theorem hkey_eq_curKey {i : Nat} (hi : i < u64) (h : hkey i = curKey) : i = curHeight := by
  rw [← hkey_curHeight] at h
  exact hkey_inj hi (by unfold u64 curHeight; omega) h

/-- The concrete chain `c` represents the list `l` (genesis first). -/
structure Rep (l : List Group) (c : Chain) : Prop where
  ne : l ≠ []
  count : c.count = l.length
  bound : l.length < lenBound
  slot : ∀ (i : Nat) (g : Group), l[i]? = some g → sget c.disk (hkey i) = some (.ref g.id)
  stored : ∀ (g : Group), g ∈ l → sget c.disk g.id = some (.grp g)
  height : ∀ (i : Nat) (g : Group), l[i]? = some g → g.height = i
  idok : ∀ (g : Group), g ∈ l → IdOK g.id
  above : ∀ i, l.length ≤ i → i < u64 → i ≠ curHeight → sget c.disk (hkey i) = none
  linked : Linked [] l
  nodup : (l.map (·.id)).Nodup
  last : l.getLast? = some c.last
  cur : sget c.disk curKey = some (.ref c.last.id)
  cnt : sget c.disk cntKey = some (.cnt l.length)
  empty : sget c.disk [] = none

/-! ### list helpers -/

theorem getElem?_snoc {α} (l : List α) (x g : α) (i : Nat) :
    (l ++ [x])[i]? = some g ↔ l[i]? = some g ∨ (i = l.length ∧ g = x) := by
  by_cases h : i < l.length
  · rw [List.getElem?_append_left h]
    constructor
    · intro e; exact Or.inl e
    · rintro (e | ⟨e, _⟩)
      · exact e
      · omega
  · have h' : l.length ≤ i := Nat.le_of_not_lt h
    rw [List.getElem?_append_right h']
    have hn : l[i]? = none := List.getElem?_eq_none h'
    by_cases h2 : i = l.length
    · subst h2; simp [eq_comm]
    · have : i - l.length ≠ 0 := by omega
      obtain ⟨j, hj⟩ : ∃ j, i - l.length = j + 1 := ⟨i - l.length - 1, by omega⟩
      simp [hj, hn, h2]

/-- Id of the last group of `l`, or `p` when `l` is empty. -/
def lastId (p : Bytes) : List Group → Bytes
  | [] => p
  | g :: t => lastId g.id t

theorem lastId_of_getLast? (p : Bytes) (l : List Group) (g : Group) (h : l.getLast? = some g) :
    lastId p l = g.id := by
  induction l generalizing p with
  | nil => simp at h
  | cons a t ih =>
    cases t with
    | nil => simp at h; subst h; rfl
    | cons b t' =>
      rw [List.getLast?_cons_cons] at h
      exact ih a.id h

theorem Linked_snoc (p : Bytes) (l : List Group) (x : Group) :
    Linked p (l ++ [x]) ↔ Linked p l ∧ x.pre = lastId p l := by
  induction l generalizing p with
  | nil => simp [Linked, lastId]
  | cons a t ih =>
    simp only [List.cons_append, Linked, ih, lastId]
    constructor
    · rintro ⟨h1, h2, h3⟩; exact ⟨⟨h1, h2⟩, h3⟩
    · rintro ⟨⟨h1, h2⟩, h3⟩; exact ⟨h1, h2, h3⟩

theorem Linked_head (p : Bytes) (l : List Group) (g : Group) (h : Linked p l) (h0 : l[0]? = some g) :
    g.pre = p := by
  cases l with
  | nil => simp at h0
  | cons a t => simp at h0; subst h0; exact h.1

theorem Linked_succ (p : Bytes) (l : List Group) (i : Nat) (a b : Group) (h : Linked p l)
    (ha : l[i]? = some a) (hb : l[i + 1]? = some b) : b.pre = a.id := by
  induction l generalizing p i with
  | nil => simp at ha
  | cons x t ih =>
    cases i with
    | zero =>
      simp at ha; subst ha
      cases t with
      | nil => simp at hb
      | cons y t' => simp at hb; subst hb; exact h.2.1
    | succ j =>
      simp at ha hb
      exact ih x.id j h.2 ha hb

theorem Linked_take (p : Bytes) (l : List Group) (n : Nat) (h : Linked p l) : Linked p (l.take n) := by
  induction l generalizing p n with
  | nil => simp [Linked]
  | cons x t ih =>
    cases n with
    | zero => simp [Linked]
    | succ m => simp only [List.take_succ_cons, Linked]; exact ⟨h.1, ih x.id m h.2⟩

/-! ### what `Rep` says about reads -/

theorem Rep.byId {l c} (r : Rep l c) {g : Group} (hg : g ∈ l) : getGroupById c.disk g.id = some g := by
  simp [getGroupById, r.stored g hg]

theorem Rep.byHeight_lt {l c} (r : Rep l c) {i : Nat} {g : Group} (hg : l[i]? = some g) :
    getGroupByHeight c.disk i = some g := by
  have hm : g ∈ l := List.mem_of_getElem? hg
  simp [getGroupByHeight, slotId, r.slot i g hg, r.byId hm]

theorem Rep.byHeight_ge {l c} (r : Rep l c) {i : Nat} (h1 : l.length ≤ i) (h2 : i < u64)
    (h3 : i ≠ curHeight) : getGroupByHeight c.disk i = none := by
  simp [getGroupByHeight, slotId, r.above i h1 h2 h3]

theorem Rep.last_mem {l c} (r : Rep l c) : c.last ∈ l := List.mem_of_getLast? r.last

theorem Rep.last_idx {l c} (r : Rep l c) : l[l.length - 1]? = some c.last := by
  have := r.last
  rw [List.getLast?_eq_getElem?] at this
  exact this

theorem Rep.pos {l c} (r : Rep l c) : 0 < l.length := List.length_pos_iff.mpr r.ne

theorem Rep.id_ne_hkey {l c} (r : Rep l c) {g : Group} (hg : g ∈ l) (n : Nat) : g.id ≠ hkey n := by
  intro e; have := (r.idok g hg).2.1; rw [e, hkey_length] at this; exact this rfl

theorem IdOK.ne_hkey {id : Bytes} (h : IdOK id) (n : Nat) : id ≠ hkey n := by
  intro e; have := h.2.1; rw [e, hkey_length] at this; exact this rfl

theorem IdOK.ne_curKey {id : Bytes} (h : IdOK id) : id ≠ curKey := by
  intro e; have := h.2.1; rw [e] at this; exact this (by decide)

theorem IdOK.ne_cntKey {id : Bytes} (h : IdOK id) : id ≠ cntKey := h.2.2

theorem hkey_ne_nil (n : Nat) : hkey n ≠ [] := by
  intro e; have := congrArg List.length e; simp [hkey] at this

/-! ### the store after `save` / `remove` -/

theorem sget_save (d : Store) (n : Nat) (g : Group) (k : Bytes) :
    sget (applyWrites d (saveWrites n g)) k =
      if k = cntKey then some (.cnt ((n + 1) % u64))
      else if k = hkey n then some (.ref g.id)
      else if k = curKey then some (.ref g.id)
      else if k = g.id then some (.grp (stamped n g))
      else sget d k := by
  simp [applyWrites, saveWrites, applyWrite, sget_sput]

theorem sget_remove (d : Store) (n : Nat) (g pre : Group) (k : Bytes) :
    sget (applyWrites d (removeWrites n g pre)) k =
      if k = cntKey then some (.cnt ((n + u64 - 1) % u64))
      else if k = hkey ((n + u64 - 1) % u64) then none
      else if k = curKey then some (.ref pre.id)
      else if k = g.id then none
      else sget d k := by
  simp [applyWrites, removeWrites, applyWrite, sget_sput, sget_sdel]

/-- `save` of a group whose id is new, whose predecessor is the current last, extends the list. -/
theorem rep_save {l : List Group} {c : Chain} (r : Rep l c) (g : Group)
    (hb : l.length + 1 < lenBound) (hid : IdOK g.id) (hfresh : ∀ x ∈ l, x.id ≠ g.id)
    (hpre : g.pre = c.last.id) :
    Rep (l ++ [stamped l.length g]) (save c g) := by
  have hcount := r.count
  have hlen : l.length < u64 := by have := r.bound; unfold lenBound at this; unfold u64; omega
  have hdisk : (save c g).disk = applyWrites c.disk (saveWrites l.length g) := by simp [save, hcount]
  have hsid : (stamped l.length g).id = g.id := rfl
  constructor
  · simp
  · simp only [save, hcount, List.length_append, List.length_singleton]
    unfold lenBound at hb; unfold u64; omega
  · simpa using hb
  · -- slot
    intro i x hx
    rw [getElem?_snoc] at hx
    rw [hdisk, sget_save]
    rcases hx with hx | ⟨hi, hxe⟩
    · have hil : i < l.length := (List.getElem?_eq_some_iff.mp hx).1
      have hmem : x ∈ l := List.mem_of_getElem? hx
      have h1 : hkey i ≠ cntKey := hkey_ne_cntKey i
      have h2 : hkey i ≠ hkey l.length := fun e => by
        have := hkey_inj (by omega) hlen e; omega
      have h3 : hkey i ≠ curKey := hkey_ne_curKey (by unfold lenBound at hb; omega)
      have h4 : hkey i ≠ g.id := fun e => hid.ne_hkey i e.symm
      simp [h1, h2, h3, h4, r.slot i x hx]
    · subst hi; subst hxe
      simp [hkey_ne_cntKey, hsid]
  · -- stored
    intro x hx
    rw [hdisk, sget_save]
    rcases List.mem_append.mp hx with hx | hx
    · have ok := r.idok x hx
      have h4 : x.id ≠ g.id := hfresh x hx
      simp [ok.ne_cntKey, ok.ne_hkey, ok.ne_curKey, h4, r.stored x hx]
    · simp at hx; subst hx
      simp [hsid, hid.ne_cntKey, hid.ne_hkey, hid.ne_curKey]
  · -- height
    intro i x hx
    rw [getElem?_snoc] at hx
    rcases hx with hx | ⟨hi, hxe⟩
    · exact r.height i x hx
    · subst hi; subst hxe; rfl
  · -- idok
    intro x hx
    rcases List.mem_append.mp hx with hx | hx
    · exact r.idok x hx
    · simp at hx; subst hx; exact hid
  · -- above
    intro i h1 h2 h3
    simp only [List.length_append, List.length_singleton] at h1
    rw [hdisk, sget_save]
    have e2 : hkey i ≠ hkey l.length := fun e => by
      have := hkey_inj h2 hlen e; omega
    have e4 : hkey i ≠ g.id := fun e => hid.ne_hkey i e.symm
    have e3 : hkey i ≠ curKey := fun e => h3 (hkey_eq_curKey h2 e)
    simp [hkey_ne_cntKey, e2, e3, e4, r.above i (by omega) h2 h3]
  · -- linked
    rw [Linked_snoc]
    refine ⟨r.linked, ?_⟩
    rw [lastId_of_getLast? [] l c.last r.last]
    exact hpre
  · -- nodup
    rw [List.map_append, List.nodup_append]
    refine ⟨r.nodup, by simp, ?_⟩
    intro a ha b hb'
    simp at hb'; subst hb'
    obtain ⟨x, hx, rfl⟩ := List.mem_map.mp ha
    exact hfresh x hx
  · simp [save, hcount]
  · rw [hdisk, sget_save]
    simp [curKey_ne_cntKey, save, hcount, stamped]
  · rw [hdisk, sget_save]
    simp
    unfold lenBound at hb; unfold u64; omega
  · rw [hdisk, sget_save]
    have h1 : ([] : Bytes) ≠ cntKey := by decide
    have h2 : ([] : Bytes) ≠ hkey l.length := fun e => hkey_ne_nil _ e.symm
    have h3 : ([] : Bytes) ≠ curKey := by decide
    have h4 : ([] : Bytes) ≠ g.id := fun e => hid.1 e.symm
    simp [h1, h2, h3, h4, r.empty]

theorem exists_getLast? {α} {l : List α} (h : l ≠ []) : ∃ p, l.getLast? = some p := by
  cases hh : l.getLast? with
  | none => exact absurd (List.getLast?_eq_none_iff.mp hh) h
  | some p => exact ⟨p, rfl⟩

/-- `remove` of the last group (when it is not the only one) drops it from the list. -/
theorem rep_remove {l : List Group} {g : Group} {c : Chain} (r : Rep (l ++ [g]) c) (hl : l ≠ []) :
    (remove c c.last).1 = true ∧ Rep l (remove c c.last).2 := by
  have hlast : c.last = g := by
    have := r.last; simp at this; exact this.symm
  obtain ⟨p, hp⟩ := exists_getLast? hl
  have hpm : p ∈ l := List.mem_of_getLast? hp
  have hlk := (Linked_snoc [] l g).mp r.linked
  have hgpre : g.pre = p.id := by rw [hlk.2, lastId_of_getLast? [] l p hp]
  have hpget : getGroupById c.disk g.pre = some p := by
    rw [hgpre]; exact r.byId (List.mem_append_left _ hpm)
  have hcount : c.count = l.length + 1 := by simpa using r.count
  have hb : l.length + 1 < lenBound := by simpa using r.bound
  have hlen : l.length + 1 < u64 := by unfold lenBound at hb; unfold u64; omega
  have hdec : (c.count + u64 - 1) % u64 = l.length := by
    rw [hcount]; unfold u64 at hlen ⊢; omega
  have hrem : remove c c.last =
      (true, { disk := applyWrites c.disk (removeWrites c.count g p), count := l.length, last := p,
               mirror := mirrorDelete c.mirror g.id }) := by
    simp [remove, hlast, hpget, hdec]
  rw [hrem]
  refine ⟨rfl, ?_⟩
  have hgid : IdOK g.id := r.idok g (by simp)
  have hnd := r.nodup
  rw [List.map_append, List.nodup_append] at hnd
  have hfresh : ∀ x ∈ l, x.id ≠ g.id := by
    intro x hx
    exact hnd.2.2 x.id (List.mem_map.mpr ⟨x, hx, rfl⟩) g.id (by simp)
  have hget : ∀ k, sget (applyWrites c.disk (removeWrites c.count g p)) k =
      if k = cntKey then some (.cnt l.length)
      else if k = hkey l.length then none
      else if k = curKey then some (.ref p.id)
      else if k = g.id then none
      else sget c.disk k := by
    intro k; rw [sget_remove, hdec]
  constructor
  · exact hl
  · rfl
  · omega
  · intro i x hx
    have hil : i < l.length := (List.getElem?_eq_some_iff.mp hx).1
    have hx' : (l ++ [g])[i]? = some x := (getElem?_snoc l g x i).mpr (Or.inl hx)
    have h2 : hkey i ≠ hkey l.length := fun e => by
      have := hkey_inj (by omega) (by omega) e; omega
    have h3 : hkey i ≠ curKey := hkey_ne_curKey (by unfold lenBound at hb; omega)
    have h4 : hkey i ≠ g.id := fun e => hgid.ne_hkey i e.symm
    simp only [hget]
    simp [hkey_ne_cntKey, h2, h3, h4, r.slot i x hx']
  · intro x hx
    have ok := r.idok x (List.mem_append_left _ hx)
    simp only [hget]
    simp [ok.ne_cntKey, ok.ne_hkey, ok.ne_curKey, hfresh x hx, r.stored x (List.mem_append_left _ hx)]
  · intro i x hx
    exact r.height i x ((getElem?_snoc l g x i).mpr (Or.inl hx))
  · intro x hx; exact r.idok x (List.mem_append_left _ hx)
  · intro i h1 h2 h3
    simp only [hget]
    by_cases e : i = l.length
    · subst e; simp [hkey_ne_cntKey]
    · have e2 : hkey i ≠ hkey l.length := fun e' => e (hkey_inj h2 (by omega) e')
      have e3 : hkey i ≠ curKey := fun e' => h3 (hkey_eq_curKey h2 e')
      have e4 : hkey i ≠ g.id := fun e' => hgid.ne_hkey i e'.symm
      simp [hkey_ne_cntKey, e2, e3, e4, r.above i (by simp; omega) h2 h3]
  · exact hlk.1
  · exact hnd.1
  · exact hp
  · simp only [hget]
    have : curKey ≠ hkey l.length := fun e => hkey_ne_curKey (by unfold lenBound at hb; omega) e.symm
    simp [curKey_ne_cntKey, this]
  · simp only [hget]; simp
  · simp only [hget]
    have h1 : ([] : Bytes) ≠ cntKey := by decide
    have h2 : ([] : Bytes) ≠ hkey l.length := fun e => hkey_ne_nil _ e.symm
    have h3 : ([] : Bytes) ≠ curKey := by decide
    have h4 : ([] : Bytes) ≠ g.id := fun e => hgid.1 e.symm
    simp [h1, h2, h3, h4, r.empty]

/-- Removing the genesis group does nothing: its predecessor is not stored. -/
theorem remove_single {g : Group} {c : Chain} (r : Rep [g] c) : remove c c.last = (false, c) := by
  have hlast : c.last = g := by
    have := r.last; simp at this; exact this.symm
  have hpre : g.pre = [] := by have := r.linked; simpa [Linked] using this
  simp [remove, hlast, hpre, getGroupById, r.empty]

/-- `Rep` does not look at the sqlite mirror. -/
theorem Rep.congr {l : List Group} {c c' : Chain} (r : Rep l c) (hd : c'.disk = c.disk)
    (hc : c'.count = c.count) (hl : c'.last = c.last) : Rep l c' := by
  constructor
  · exact r.ne
  · rw [hc]; exact r.count
  · exact r.bound
  · rw [hd]; exact r.slot
  · rw [hd]; exact r.stored
  · exact r.height
  · exact r.idok
  · rw [hd]; exact r.above
  · exact r.linked
  · exact r.nodup
  · rw [hl]; exact r.last
  · rw [hd, hl]; exact r.cur
  · rw [hd]; exact r.cnt
  · rw [hd]; exact r.empty

theorem addCheck_ok {c : Chain} {g : Group} (h : addCheck c g = .ok) :
    shas c.disk g.id = false ∧ shas c.disk g.parent = true ∧ c.last.id = g.pre := by
  unfold addCheck at h
  split at h
  · cases h
  · split at h
    · cases h
    · split at h
      · cases h
      · rename_i h1 h2 h3
        refine ⟨by simpa using h1, by simpa using h2, by simpa using h3⟩

/-- An accepted `AddGroup` appends the group (stamped with its height) to the list. -/
theorem rep_add {l : List Group} {c : Chain} (r : Rep l c) (g : Group)
    (hb : l.length + 1 < lenBound) (hid : IdOK g.id) (hok : addCheck c g = .ok) :
    addGroup c g = (.ok, save c g) ∧ Rep (l ++ [stamped l.length g]) (save c g) := by
  obtain ⟨h1, _, h3⟩ := addCheck_ok hok
  refine ⟨by simp [addGroup, hok], ?_⟩
  apply rep_save r g hb hid _ h3.symm
  intro x hx e
  have := r.stored x hx
  rw [e] at this
  simp [shas, this] at h1

/-- A rejected `AddGroup` changes nothing. -/
theorem addGroup_rejected {c : Chain} {g : Group} (h : addCheck c g ≠ .ok) :
    addGroup c g = (addCheck c g, c) := by
  unfold addGroup
  cases hh : addCheck c g <;> simp_all

/-- Start-up on the store of a chain that represents `l` yields the same chain (up to the mirror). -/
theorem rep_restart {l : List Group} {c : Chain} (r : Rep l c) (m : List Bytes) (gen : List Group) :
    ∃ c', restart c.disk m gen = some (.alive c') ∧ c'.disk = c.disk ∧ c'.count = c.count ∧
      c'.last = c.last ∧ Rep l c' := by
  have h1 := r.cur
  have h2 : getGroupById c.disk c.last.id = some c.last := r.byId r.last_mem
  have h3 : readCount c.disk = some l.length := by simp [readCount, r.cnt]
  refine ⟨{ disk := c.disk, count := l.length, last := c.last,
            mirror := refreshCache c.disk l.length c.last m }, ?_, rfl, r.count.symm, rfl, ?_⟩
  · simp [restart, h1, h2, h3]
  · exact r.congr rfl r.count.symm rfl

theorem dropLast_append_getLast? {α} {l : List α} {x : α} (h : l.getLast? = some x) :
    l.dropLast ++ [x] = l := by
  have hne : l ≠ [] := by intro e; simp [e] at h
  have := List.dropLast_concat_getLast hne
  rw [List.getLast?_eq_some_getLast hne] at h
  simp at h
  rw [← h]; exact this

/-- The loop of `removeFromCommonAncestor`: from the top height down to `h+1`. -/
theorem rep_rmLoop (h : Nat) : ∀ (t : Nat) (l : List Group) (c : Chain), Rep l c → l.length = t + 1 →
    Rep (l.take (h + 1)) (rmLoop h t c) := by
  intro t
  induction t with
  | zero =>
    intro l c r hl
    have : l.take (h + 1) = l := List.take_of_length_le (by omega)
    simpa [rmLoop, this] using r
  | succ t ih =>
    intro l c r hl
    unfold rmLoop
    by_cases hh : t + 1 > h
    · simp only [hh, if_true]
      have hidx : l[t + 1]? = some c.last := by
        have := r.last_idx; rw [hl] at this; simpa using this
      rw [r.byHeight_lt hidx]
      simp only
      have hsplit : l.dropLast ++ [c.last] = l := dropLast_append_getLast? r.last
      have hdl : l.dropLast.length = t + 1 := by simp [hl]
      have hne : l.dropLast ≠ [] := by intro e; simp [e] at hdl
      have r' : Rep (l.dropLast ++ [c.last]) c := by rw [hsplit]; exact r
      have hr := (rep_remove r' hne).2
      have := ih l.dropLast (remove c c.last).2 hr hdl
      have htake : l.dropLast.take (h + 1) = l.take (h + 1) := by
        rw [List.dropLast_eq_take, List.take_take]
        congr 1
        omega
      rw [htake] at this
      exact this
    · simp only [hh, if_false]
      have : l.take (h + 1) = l := List.take_of_length_le (by omega)
      rw [this]; exact r

theorem rep_rmTo {l : List Group} {c : Chain} (r : Rep l c) (h : Nat) :
    Rep (l.take (h + 1)) (rmTo c h) := by
  unfold rmTo topHeight
  have hp := r.pos
  by_cases h1 : c.count > 1
  · simp only [h1, if_true]
    exact rep_rmLoop h (c.count - 1) l c r (by rw [r.count] at h1 ⊢; omega)
  · simp only [h1, if_false]
    have hl : l.length = 1 := by rw [r.count] at h1; omega
    exact rep_rmLoop h 0 l c r (by omega)

end Rangers.Model.GroupChain
