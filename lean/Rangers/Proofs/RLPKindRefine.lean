import Rangers.Model.RLPTyped
import Rangers.Proofs.RLPTypedRT
/-! The header parsers agree: raw.go `readKind` and the slice form `readHead` of `Stream.readKind`+`Kind`. -/
namespace Rangers.RLP
open Rangers

theorem take_len_of_le {b : Bytes} {ts cs : Nat} (h : ts + cs ≤ b.length) : (b.take ts).length = ts := by
  simp only [List.length_take]; omega

/-- raw.go accepts a header exactly when the Stream form does and the single-byte canonicity check
    (which the Stream makes later, in `Bytes`/`uint`/`decodeByteArray`) passes; kind, tag size and
    content size — the item boundaries — are the same. -/
theorem readKind_iff_readHead (b : Bytes) (k : Kind) (ts cs : Nat) :
    readKind b = .ok (k, ts, cs) ↔
      (readHead b = .ok (k, ts, cs) ∧ ¬ (k = .string ∧ cs = 1 ∧ headLt128 (b.drop ts) = true)) := by
  constructor
  · intro h
    obtain ⟨hl, hcs, hc⟩ := readKind_inv h
    have hsp : b = b.take ts ++ b.drop ts := (List.take_append_drop ts b).symm
    have hdl : cs ≤ (b.drop ts).length := by simp only [List.length_drop]; omega
    have htl := take_len_of_le hl
    rcases hc with ⟨hk, hts, hcs1, x, tl, hb, hx⟩ | ⟨hk, hhead, hcanon⟩ | ⟨hk, hhead⟩
    · subst hk hts hcs1 hb
      exact ⟨readHead_byte x tl hx, by simp⟩
    · subst hk
      refine ⟨?_, fun ⟨_, h1, h2⟩ => hcanon ⟨h1, h2⟩⟩
      have := readHead_str cs (b.drop ts) hcs hdl
      rw [← hhead, ← hsp, htl] at this
      exact this
    · subst hk
      refine ⟨?_, by simp⟩
      have := readHead_list cs (b.drop ts) hcs hdl
      rw [← hhead, ← hsp, htl] at this
      exact this
  · intro ⟨h, hn⟩
    obtain ⟨hl, hcs, hc⟩ := readHead_inv h
    have hsp : b = b.take ts ++ b.drop ts := (List.take_append_drop ts b).symm
    have hdl : cs ≤ (b.drop ts).length := by simp only [List.length_drop]; omega
    have htl := take_len_of_le hl
    rcases hc with ⟨hk, hts, hcs1, x, tl, hb, hx⟩ | ⟨hk, hhead, _⟩ | ⟨hk, hhead, _⟩
    · subst hk hts hcs1 hb
      exact readKind_byte x tl hx
    · subst hk
      have := readKind_str cs (b.drop ts) hcs hdl (fun ⟨h1, h2⟩ => hn ⟨rfl, h1, h2⟩)
      rw [← hhead, ← hsp, htl] at this
      exact this
    · subst hk
      have := readKind_list cs (b.drop ts) hcs hdl
      rw [← hhead, ← hsp, htl] at this
      exact this

end Rangers.RLP

namespace Rangers.RLP
open Rangers

mutual
  /-- the Go value `DecodeBytes(b, &interface{})` produces for an item: `[]byte` / `[]interface{}` -/
  def ofItem : Item → Val
    | .str b => .bytes b
    | .list xs => .list (ofItems xs)
  def ofItems : List Item → List Val
    | [] => []
    | x :: xs => ofItem x :: ofItems xs
end

mutual
  theorem encT_any_ofItem (it : Item) : encT .any (ofItem it) = .ok (encode it) := by
    cases it with
    | str b => simp [ofItem, encT, encode]
    | list xs => simp [ofItem, encT, encode, encElems_any_ofItems xs]
  theorem encElems_any_ofItems (xs : List Item) : encElems .any (ofItems xs) = .ok (encodeList xs) := by
    cases xs with
    | nil => simp [ofItems, encElems, encodeList]
    | cons x xs => simp [ofItems, encElems, encodeList, encT_any_ofItem x, encElems_any_ofItems xs]
end

mutual
  theorem wfv_any_ofItem (it : Item) (h : it.sizeOK) : WFV .any (ofItem it) := by
    cases it with
    | str b => simpa [ofItem, WFV, Item.sizeOK] using h
    | list xs =>
      simp only [Item.sizeOK] at h
      simp only [ofItem, WFV]
      refine ⟨wfvs_any_ofItems xs h.1, ?_⟩
      intro p hp
      rw [encElems_any_ofItems xs] at hp
      injection hp with hp; subst hp; exact h.2
  theorem wfvs_any_ofItems (xs : List Item) (h : Item.sizeOKs xs) : WFVs .any (ofItems xs) := by
    cases xs with
    | nil => simp [ofItems, WFVs]
    | cons x xs =>
      simp only [Item.sizeOKs] at h
      simp only [ofItems, WFVs]
      exact ⟨wfv_any_ofItem x h.1, wfvs_any_ofItems xs h.2⟩
end

mutual
  theorem norm_any_ofItem (it : Item) : norm .any (ofItem it) = ofItem it := by
    cases it with
    | str b => simp [ofItem, norm]
    | list xs => simp [ofItem, norm, normL_any_ofItems xs]
  theorem normL_any_ofItems (xs : List Item) : normL .any (ofItems xs) = ofItems xs := by
    cases xs with
    | nil => simp [ofItems, normL]
    | cons x xs => simp [ofItems, normL, norm_any_ofItem x, normL_any_ofItems xs]
end

/-- what the generic decoder returns can be produced by the encoder (all payloads < 2^64) -/
theorem decoded_sizeOK : ∀ f,
    (∀ b it rest, decItemF f b = .ok (it, rest) → it.sizeOK) ∧
    (∀ b xs, decItemsF f b = .ok xs → Item.sizeOKs xs) := by
  intro f
  induction f with
  | zero => exact ⟨by intro b it rest h; simp [decItemF] at h, by intro b xs h; simp [decItemsF] at h⟩
  | succ f ih =>
    refine ⟨?_, ?_⟩
    · intro b it rest h
      rw [decItemF] at h
      cases hk : readKind b with
      | error e => rw [hk] at h; cases h
      | ok t =>
        obtain ⟨k, ts, cs⟩ := t
        rw [hk] at h
        obtain ⟨hl, hcs, _⟩ := readKind_inv hk
        have hcl := content_length hl
        cases k with
        | list =>
          simp only at h
          cases hd : decItemsF f ((b.drop ts).take cs) with
          | error e => rw [hd] at h; cases h
          | ok xs =>
            rw [hd] at h
            simp only [Except.ok.injEq, Prod.mk.injEq] at h
            rw [← h.1]
            simp only [Item.sizeOK]
            refine ⟨ih.2 _ _ hd, ?_⟩
            rw [← (dec_sound f).2 _ _ hd, hcl]; exact hcs
        | byte =>
          simp only [Except.ok.injEq, Prod.mk.injEq] at h
          rw [← h.1]; simp only [Item.sizeOK]; rw [hcl]; exact hcs
        | string =>
          simp only [Except.ok.injEq, Prod.mk.injEq] at h
          rw [← h.1]; simp only [Item.sizeOK]; rw [hcl]; exact hcs
    · intro b xs h
      cases b with
      | nil => simp only [decItemsF, Except.ok.injEq] at h; subst h; trivial
      | cons x tl =>
        rw [decItemsF] at h
        cases hd : decItemF f (x :: tl) with
        | error e => rw [hd] at h; cases h
        | ok t =>
          obtain ⟨y, rest⟩ := t
          rw [hd] at h
          simp only at h
          cases hd2 : decItemsF f rest with
          | error e => rw [hd2] at h; cases h
          | ok ys =>
            rw [hd2] at h
            simp only [Except.ok.injEq] at h
            subst h
            exact ⟨ih.1 _ _ _ hd, ih.2 _ _ hd2⟩

end Rangers.RLP
