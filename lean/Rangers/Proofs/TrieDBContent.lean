import Rangers.Proofs.TrieDBInv
import Rangers.Proofs.TrieStore
/-!
Bridge between the C03 node-cache model (`Rangers.Model.TrieDB`, hashes and
reference structure only) and the C02 trie content model (`Rangers.Trie`:
collapsed nodes `CNode`, `expand` = `resolveHash`/`expandNode` with every
reference followed).

`κ : Bytes → Hash` names a 32-byte hash in the abstract model, `blobOf h` is
*the* blob with hash `h` ("a hash names one blob": collision freedom among the
stored nodes, here a function).  A reader of an abstract store `get` sees the
collapsed node `blobOf h` under `h` iff `get (κ h)` is present.
-/
namespace Rangers.Model.TrieDB
open Rangers Rangers.Trie

/-- what is stored under a hash: a collapsed trie node or a raw blob (code) -/
inductive Blob where
  | node (c : Trie.CNode)
  | raw (b : Bytes)

mutual
/-- the hash references a reader follows inside a collapsed node (through embedded children) -/
def refsC : Trie.CNode → List Bytes
  | .empty => []
  | .hashRef h => [h]
  | .leaf _ _ => []
  | .ext _ c => refsC c
  | .branch cs _ => refsCL cs
def refsCL : List Trie.CNode → List Bytes
  | [] => []
  | c :: cs => refsC c ++ refsCL cs
end

theorem mem_refsCL {cs : List Trie.CNode} {c : Trie.CNode} (hc : c ∈ cs) {r : Bytes} (hr : r ∈ refsC c) :
    r ∈ refsCL cs := by
  induction cs with
  | nil => simp at hc
  | cons x xs ih =>
    simp only [refsCL, List.mem_append]
    rcases List.mem_cons.mp hc with h | h
    · subst h; exact Or.inl hr
    · exact Or.inr (ih h)

/-- `Trie.expand` over a lookup function instead of an association list -/
def expandF (get : Bytes → Option Trie.CNode) : Nat → Trie.CNode → Option Trie.Node
  | 0, _ => none
  | _ + 1, .empty => some .nil
  | f + 1, .hashRef h => (get h).bind (expandF get f)
  | _ + 1, .leaf ck v => (compactToHex ck).map (fun k => .short k (.value v))
  | f + 1, .ext ck c => (compactToHex ck).bind (fun k => (expandF get f c).map (fun c' => .short k c'))
  | f + 1, .branch cs v =>
    (cs.mapM (expandF get f)).map (fun cs' => .full (cs' ++ [if v.isEmpty then Trie.Node.nil else .value v]))

theorem expand_eq_expandF (st : List (Bytes × Trie.CNode)) :
    ∀ (f : Nat) (c : Trie.CNode), Trie.expand st f c = expandF (fun h => st.lookup h) f c := by
  intro f
  induction f with
  | zero => intro c; rfl
  | succ f ih =>
    intro c
    cases c with
    | empty => rfl
    | hashRef h =>
      simp only [Trie.expand, expandF]
      cases st.lookup h with
      | none => rfl
      | some x => simp [ih]
    | leaf ck v => rfl
    | ext ck c => simp only [Trie.expand, expandF, ih]
    | branch cs v =>
      simp only [Trie.expand, expandF]
      have : cs.mapM (Trie.expand st f) = cs.mapM (expandF (fun h => st.lookup h) f) := by
        congr 1; funext x; exact ih x
      rw [this]

theorem mapM_option_congr {α β : Type} (g g' : α → Option β) :
    ∀ (l : List α) (ts : List β), l.mapM g = some ts →
      (∀ x ∈ l, ∀ t, g x = some t → g' x = some t) → l.mapM g' = some ts
  | [], ts, h, _ => by simpa using h
  | x :: xs, ts, h, hc => by
    rw [List.mapM_cons] at h ⊢
    cases hx : g x with
    | none => simp [hx] at h
    | some a =>
      cases hr : xs.mapM g with
      | none => simp [hx, hr] at h
      | some as =>
        have h1 := hc x List.mem_cons_self a hx
        have h2 := mapM_option_congr g g' xs as hr (fun y hy t ht => hc y (List.mem_cons_of_mem _ hy) t ht)
        simp [hx, hr] at h
        simp [h1, h2, h]

/-- if every node `get` shows along the references below `c` is shown identically
    by `get'`, full resolution gives the same trie. -/
theorem expandF_transfer (get get' : Bytes → Option Trie.CNode) (G : Bytes → Prop)
    (hstep : ∀ h, G h → ∀ cn, get h = some cn → get' h = some cn ∧ ∀ r ∈ refsC cn, G r) :
    ∀ (f : Nat) (c : Trie.CNode) (t : Trie.Node), (∀ r ∈ refsC c, G r) →
      expandF get f c = some t → expandF get' f c = some t := by
  intro f
  induction f with
  | zero => intro c t _ h; simp [expandF] at h
  | succ f ih =>
    intro c t hg h
    cases c with
    | empty => simpa [expandF] using h
    | hashRef x =>
      simp only [expandF] at h ⊢
      cases hx : get x with
      | none => simp [hx] at h
      | some cn =>
        obtain ⟨h1, h2⟩ := hstep x (hg x (by simp [refsC])) cn hx
        simp only [hx, Option.bind_some] at h
        simp only [h1, Option.bind_some]
        exact ih cn t h2 h
    | leaf ck v => simpa [expandF] using h
    | ext ck c =>
      simp only [expandF] at h ⊢
      cases hk : compactToHex ck with
      | none => simp [hk] at h
      | some k =>
        simp only [hk, Option.bind_some] at h ⊢
        cases hc : expandF get f c with
        | none => simp [hc] at h
        | some c' =>
          have := ih c c' (fun r hr => hg r (by simpa [refsC] using hr)) hc
          simp only [hc] at h
          simp only [this]
          exact h
    | branch cs v =>
      simp only [expandF] at h ⊢
      cases hm : cs.mapM (expandF get f) with
      | none => simp [hm] at h
      | some ts =>
        have := mapM_option_congr (expandF get f) (expandF get' f) cs ts hm
          (fun x hx t' ht' => ih x t' (fun r hr => hg r (by simp only [refsC]; exact mem_refsCL hx hr)) ht')
        simp only [hm] at h
        simp only [this]
        exact h

/-! ## reading an abstract store at content level -/

/-- the collapsed node a reader finds under hash `h` in the abstract store `get` -/
def cget (κ : Bytes → Hash) (blobOf : Bytes → Blob) (get : Hash → Option DNode) (h : Bytes) : Option Trie.CNode :=
  match get (κ h) with
  | none => none
  | some _ => match blobOf h with
    | .node c => some c
    | .raw _ => none

/-- the raw blob (contract code) a reader finds under `h` -/
def rawget (κ : Bytes → Hash) (blobOf : Bytes → Blob) (get : Hash → Option DNode) (h : Bytes) : Option Bytes :=
  match get (κ h) with
  | none => none
  | some _ => match blobOf h with
    | .node _ => none
    | .raw b => some b

/-- the abstract `need` of a stored node covers the references of its real content
    (what the harness's node describer is tied to deliver). -/
def NeedOk (κ : Bytes → Hash) (blobOf : Bytes → Blob) (get : Hash → Option DNode) : Prop :=
  ∀ h dn cn, get (κ h) = some dn → blobOf h = .node cn → ∀ r ∈ refsC cn, κ r ∈ dn.need

/-- hashes whose subtree a successful commit makes readable from disk alone -/
def Covered (s : St) (ws : List Hash) (k : Hash) : Prop := k ∈ ws ∨ Has s.disk k

theorem commit_content_transfer {κ : Bytes → Hash} {blobOf : Bytes → Blob} {s : St} {root : Hash} {fuel : Nat}
    {ws : List Hash} (hi : Inv s) (hneed : NeedOk κ blobOf (liveLookup s))
    (hw : walk s.cache fuel root = some ws) :
    ∀ (f : Nat) (c : Trie.CNode) (t : Trie.Node), (∀ r ∈ refsC c, Covered s ws (κ r)) →
      expandF (cget κ blobOf (liveLookup s)) f c = some t →
      expandF (cget κ blobOf (diskGet (applyWrites s.cache s.disk ws))) f c = some t := by
  apply expandF_transfer _ _ (fun h => Covered s ws (κ h))
  intro h hg cn hcn
  unfold cget at hcn ⊢
  cases hl : liveLookup s (κ h) with
  | none => simp [hl] at hcn
  | some dn =>
    obtain ⟨h1, h2⟩ := commit_step hi hw (κ h) hg dn hl
    simp only [hl] at hcn
    simp only [h1]
    refine ⟨hcn, ?_⟩
    intro r hr
    cases hb : blobOf h with
    | raw b => simp [hb] at hcn
    | node c =>
      simp only [hb, Option.some.injEq] at hcn
      subst hcn
      exact h2 (κ r) (hneed h dn c hl hb r hr)

/-- hashes a reader can reach from `root` through cache-then-disk -/
inductive LiveReach (s : St) (root : Hash) : Hash → Prop where
  | root : (liveLookup s root).isSome = true → LiveReach s root root
  | step {k r : Hash} {dn : DNode} : LiveReach s root k → liveLookup s k = some dn → r ∈ dn.need → LiveReach s root r

theorem commit_none_disk {s : St} {root : Hash} {fuel : Nat} {out : CommitOut}
    (hc : commit s root none fuel = some out) :
    ∃ ws, walk s.cache fuel root = some ws ∧ out.st.disk = applyWrites s.cache s.disk ws := by
  unfold commit at hc
  cases hw : walk s.cache fuel root with
  | none => simp [hw] at hc
  | some ws =>
    simp only [hw, Option.some.injEq] at hc
    subst hc
    refine ⟨ws, rfl, ?_⟩
    simp only
    rw [applyBatches_eq, splitBatches_flatten]; simp

theorem covered_of_reach {s : St} {root : Hash} {fuel : Nat} {ws : List Hash} (hi : Inv s)
    (hw : walk s.cache fuel root = some ws) {k : Hash} (hr : LiveReach s root k) : Covered s ws k := by
  have g := walk_good s.cache s.disk hi.cacheInv fuel root ws hw
  induction hr with
  | root hroot =>
    unfold liveLookup at hroot
    cases hcr : s.cache.lookup root with
    | some n => exact Or.inl (g.top (has_of_lookup hcr))
    | none => simp only [hcr] at hroot; exact Or.inr hroot
  | step _ hl hr ih => exact (commit_step hi hw _ ih _ hl).2 _ hr

end Rangers.Model.TrieDB
