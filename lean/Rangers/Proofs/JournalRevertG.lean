import Rangers.Proofs.JournalRevert
/-! The generic nested snapshot/revert argument of `JournalRevert`, for an arbitrary relation `R`
that is reflexive, transitive, respected by every `undo` and blind to journal bookkeeping
(used with the finer relation `SimR` of the root theorem). Generated from JournalRevert.lean by
replacing `Sim`; see that file for comments. -/
namespace Rangers.Proofs.JournalG
open Rangers Rangers.Model.Journal Rangers.Proofs.Journal

structure RelOk (c : Cfg) (R : ADB → ADB → Prop) : Prop where
  refl : ∀ s, R s s
  trans : ∀ {s t u}, R s t → R t u → R s u
  undo_congr : ∀ {s t} (e : Entry), R s t → R (undo c s e) (undo c t e)
  book : ∀ (u : ADB) (j : List Entry) (rv : List (Nat × Nat)) (n : Nat), R { u with journal := j, revisions := rv, nextRev := n } u

theorem undoAllG {c : Cfg} {R : ADB → ADB → Prop} (hR : RelOk c R) (es : List Entry) {s t : ADB} (h : R s t) :
    R (undoAll c s es) (undoAll c t es) := by
  unfold undoAll
  generalize es.reverse = l
  induction l generalizing s t with
  | nil => exact h
  | cons e l ih => exact ih (hR.undo_congr e h)

variable {c : Cfg} {R : ADB → ADB → Prop}

/-- `f` (one non-snapshot op) at state `s`: journal only grows, revision stack untouched,
    a crash is sticky, and undoing the appended entries restores `s` up to `Sim` -/
structure RevAt (c : Cfg) (R : ADB → ADB → Prop) (f : ADB → ADB) (s : ADB) : Prop where
  sticky : s.crashed = true → (f s).crashed = true
  revs : (f s).revisions = s.revisions
  nextRev : (f s).nextRev = s.nextRev
  inv : ∃ E, (f s).journal = s.journal ++ E ∧ ((f s).crashed = false → R (undoAll c (f s) E) s)

theorem RevAt.comp {f g : ADB → ADB} {s : ADB} (hR : RelOk c R) (hf : RevAt c R f s) (hg : RevAt c R g (f s)) :
    RevAt c R (fun x => g (f x)) s := by
  refine ⟨fun h => hg.sticky (hf.sticky h), hg.revs.trans hf.revs, hg.nextRev.trans hf.nextRev, ?_⟩
  obtain ⟨E1, j1, i1⟩ := hf.inv
  obtain ⟨E2, j2, i2⟩ := hg.inv
  refine ⟨E1 ++ E2, by rw [j2, j1, List.append_assoc], fun hc => ?_⟩
  have hfs : (f s).crashed = false := by
    cases h : (f s).crashed with
    | false => rfl
    | true => have := hg.sticky h; rw [hc] at this; cases this
  rw [undoAll_append]
  exact hR.trans (undoAllG hR E1 (i2 hc)) (i1 hfs)

/-- no journal entry, result `Sim`-equal -/
theorem RevAt.of_rel {f : ADB → ADB} {s : ADB} (hst : s.crashed = true → (f s).crashed = true)
    (hr : (f s).revisions = s.revisions) (hn : (f s).nextRev = s.nextRev) (hj : (f s).journal = s.journal)
    (h : (f s).crashed = false → R (f s) s) : RevAt c R f s :=
  ⟨hst, hr, hn, [], by simp [hj], fun hc => by rw [undoAll_nil]; exact h hc⟩


/-- `G` lists, per valid revision, the exact state in which that snapshot was taken -/
def Inv (c : Cfg) (R : ADB → ADB → Prop) (s : ADB) (G : List ADB) : Prop :=
  G.length = s.revisions.length ∧
  ∀ (i : Nat) (r : Nat × Nat) (g : ADB), s.revisions[i]? = some r → G[i]? = some g →
    s.crashed = false → R (undoAll c s (s.journal.drop r.2)) g


theorem Inv.revert {s : ADB} {G : List ADB} (hR : RelOk c R) (hc : s.crashed = false) (ok : RevsOk s) (inv : Inv c R s G)
    {i : Nat} {r : Nat × Nat} (hi : s.revisions[i]? = some r) (hnc : (revert c s r.1).crashed = false) :
    (∃ g, G[i]? = some g ∧ R (revert c s r.1) g) ∧ Inv c R (revert c s r.1) (G.take i) ∧ RevsOk (revert c s r.1)
      ∧ (revert c s r.1).revisions = s.revisions.take i ∧ (revert c s r.1).nextRev = s.nextRev := by
  rw [revert_at c hc ok hi] at hnc ⊢
  have hs1 : (undoAll c s (s.journal.drop r.2)).crashed = false := by
    cases h : (undoAll c s (s.journal.drop r.2)).crashed with
    | false => rfl
    | true => simp [h] at hnc
  have hnr : (undoAll c s (s.journal.drop r.2)).nextRev = s.nextRev := undoAll_nextRev c s _
  obtain ⟨s1, hdef⟩ : ∃ s1, undoAll c s (s.journal.drop r.2) = s1 := ⟨_, rfl⟩
  rw [hdef] at hs1 hnr hnc ⊢
  rw [if_neg (by simp [hs1])]
  have hrm : r ∈ s.revisions := List.mem_of_getElem? hi
  have hrj : r.2 ≤ s.journal.length := (ok.below r hrm).2
  have hilt : i < s.revisions.length := by
    rcases Nat.lt_or_ge i s.revisions.length with h | h
    · exact h
    · rw [List.getElem?_eq_none h] at hi; cases hi
  refine ⟨?_, ⟨?_, ?_⟩, ⟨?_, ?_, ?_⟩, rfl, ?_⟩
  · have hg : ∃ g, G[i]? = some g := by
      have : i < G.length := inv.1 ▸ hilt
      exact ⟨G[i], List.getElem?_eq_getElem this⟩
    obtain ⟨g, hg⟩ := hg
    have := inv.2 i r g hi hg hc
    rw [hdef] at this
    exact ⟨g, hg, hR.trans (hR.book _ _ _ _) this⟩
  · simp [inv.1]
  · intro k r' g hk hg _
    simp only at hk ⊢
    rw [List.getElem?_take] at hk hg
    split at hk
    · rename_i hki
      simp only [hki, if_true] at hg
      have hr'le : r'.2 ≤ r.2 := by
        have hkl : k < s.revisions.length := by omega
        have e1 : s.revisions[k] = r' := by
          have := List.getElem?_eq_getElem hkl
          rw [this] at hk; exact Option.some.inj hk
        have e2 : s.revisions[i] = r := by
          have := List.getElem?_eq_getElem hilt
          rw [this] at hi; exact Option.some.inj hi
        have := List.pairwise_iff_getElem.mp ok.idx k i hkl hilt hki
        rw [e1, e2] at this; exact this
      -- journal.take r.2 dropped at r'.2, then the rest already undone
      have hsplit : s.journal.drop r'.2 = (s.journal.take r.2).drop r'.2 ++ s.journal.drop r.2 := by
        have h1 : s.journal = s.journal.take r.2 ++ s.journal.drop r.2 := (List.take_append_drop _ _).symm
        conv => lhs; rw [h1]
        rw [List.drop_append_of_le_length (by simp [List.length_take]; omega)]
      have hold := inv.2 k r' g hk hg hc
      rw [hsplit, undoAll_append, hdef] at hold
      exact hR.trans (undoAllG hR _ (hR.book _ _ _ _)) hold
    · cases hk
  · exact ok.ids.sublist (List.take_sublist _ _)
  · exact ok.idx.sublist (List.take_sublist _ _)
  · intro r' hr'
    simp only at hr' ⊢
    have hm : r' ∈ s.revisions := List.mem_of_mem_take hr'
    refine ⟨by rw [hnr]; exact (ok.below r' hm).1, ?_⟩
    obtain ⟨k, hk⟩ := List.getElem?_of_mem hr'
    rw [List.getElem?_take] at hk
    split at hk
    · rename_i hki
      have hkl : k < s.revisions.length := by omega
      have e1 : s.revisions[k] = r' := by
        have := List.getElem?_eq_getElem hkl
        rw [this] at hk; exact Option.some.inj hk
      have e2 : s.revisions[i] = r := by
        have := List.getElem?_eq_getElem hilt
        rw [this] at hi; exact Option.some.inj hi
      have := List.pairwise_iff_getElem.mp ok.idx k i hkl hilt hki
      rw [e1, e2] at this
      simp [List.length_take]; omega
    · cases hk
  · exact hnr



theorem Inv.op {f : ADB → ADB} {s : ADB} {G : List ADB} (hR : RelOk c R) (h : RevAt c R f s) (ok : RevsOk s) (inv : Inv c R s G) :
    Inv c R (f s) G ∧ RevsOk (f s) := by
  obtain ⟨E, hj, hE⟩ := h.inv
  refine ⟨⟨by rw [h.revs]; exact inv.1, ?_⟩, ⟨by rw [h.revs]; exact ok.ids, by rw [h.revs]; exact ok.idx, ?_⟩⟩
  · intro i r g hi hg hc
    rw [h.revs] at hi
    have hs : s.crashed = false := by
      cases hh : s.crashed with
      | false => rfl
      | true => have := h.sticky hh; rw [hc] at this; cases this
    have hle : r.2 ≤ s.journal.length := (ok.below r (List.mem_of_getElem? hi)).2
    rw [hj, List.drop_append_of_le_length hle, undoAll_append]
    exact hR.trans (undoAllG hR _ (hE hc)) (inv.2 i r g hi hg hs)
  · intro r hr
    rw [h.revs] at hr
    refine ⟨by rw [h.nextRev]; exact (ok.below r hr).1, ?_⟩
    rw [hj, List.length_append]; have := (ok.below r hr).2; omega


theorem Inv.snapshot {s : ADB} {G : List ADB} (hR : RelOk c R) (hc : s.crashed = false) (ok : RevsOk s) (inv : Inv c R s G) :
    Inv c R (snapshot s).1 (G ++ [(snapshot s).1]) ∧ RevsOk (snapshot s).1 := by
  rw [snapshot_eq hc]
  refine ⟨⟨by simp [inv.1], ?_⟩, ⟨?_, ?_, ?_⟩⟩
  · intro i r g hi hg _
    simp only at hi hg ⊢
    by_cases hlt : i < s.revisions.length
    · rw [List.getElem?_append_left hlt] at hi
      rw [List.getElem?_append_left (inv.1 ▸ hlt)] at hg
      exact hR.trans (undoAllG hR _ (hR.book s _ _ _)) (inv.2 i r g hi hg hc)
    · have hge : s.revisions.length ≤ i := by omega
      rw [List.getElem?_append_right hge] at hi
      rw [List.getElem?_append_right (inv.1 ▸ hge)] at hg
      have hi0 : i - s.revisions.length = 0 := by
        rcases Nat.eq_zero_or_pos (i - s.revisions.length) with h | h
        · exact h
        · rw [List.getElem?_eq_none (by simp only [List.length_cons, List.length_nil]; omega)] at hi; cases hi
      rw [hi0] at hi
      rw [inv.1, hi0] at hg
      simp only [List.getElem?_cons_zero, Option.some.injEq] at hi hg
      subst hi; subst hg
      simp only [List.drop_length]
      exact hR.refl _
  · simp only [List.pairwise_append, ok.ids, List.pairwise_cons, List.Pairwise.nil, true_and]
    refine ⟨by simp, fun r hr r' hr' => ?_⟩
    simp only [List.mem_singleton] at hr'; subst hr'
    exact (ok.below r hr).1
  · simp only [List.pairwise_append, ok.idx, List.pairwise_cons, List.Pairwise.nil, true_and]
    refine ⟨by simp, fun r hr r' hr' => ?_⟩
    simp only [List.mem_singleton] at hr'; subst hr'
    exact (ok.below r hr).2
  · intro r hr
    simp only [List.mem_append, List.mem_singleton] at hr
    rcases hr with hr | hr
    · exact ⟨Nat.lt_succ_of_lt (ok.below r hr).1, (ok.below r hr).2⟩
    · subst hr; exact ⟨Nat.lt_succ_self _, Nat.le_refl _⟩


section main
variable (P : ADB → Op → Prop)
variable (hP : ∀ s op, P s op → op ≠ Op.snapshot → (∀ id, op ≠ Op.revert id) → RevAt c R (fun x => step c x op) s)

include hP in
theorem step_sticky {s : ADB} {op : Op} (hp : P s op) (hs : s.crashed = true) : (step c s op).crashed = true := by
  by_cases h1 : op = Op.snapshot
  · subst h1; simp [step, Model.Journal.snapshot, hs]
  by_cases h2 : ∃ id, op = Op.revert id
  · obtain ⟨id, rfl⟩ := h2; simp [step, revert, hs]
  · exact (hP s op hp h1 (fun id h => h2 ⟨id, h⟩)).sticky hs

include hP in
theorem run_inv (hR : RelOk c R) {id : Nat} {g0 : ADB} (ops : List Op) {s : ADB} {G : List ADB} (hr : RunOk P c s ops)
    (inv : Inv c R s G) (ok : RevsOk s) (tr : Track id g0 s G) (hnc : (run c s ops).crashed = false) :
    ∃ G', Inv c R (run c s ops) G' ∧ RevsOk (run c s ops) ∧ Track id g0 (run c s ops) G' := by
  induction ops generalizing s G with
  | nil => exact ⟨G, inv, ok, tr⟩
  | cons op ops ih =>
    obtain ⟨hp, hr'⟩ := hr
    have hrun : run c s (op :: ops) = run c (step c s op) ops := rfl
    rw [hrun] at hnc ⊢
    -- the state after `op` is not crashed either, nor is `s`
    have hstick : ∀ (ops : List Op) (u : ADB), RunOk P c u ops → u.crashed = true → (run c u ops).crashed = true := by
      intro ops
      induction ops with
      | nil => intro u _ h; exact h
      | cons o os ih2 => intro u hu h; exact ih2 _ hu.2 (step_sticky P hP hu.1 h)
    have hs' : (step c s op).crashed = false := by
      cases h : (step c s op).crashed with
      | false => rfl
      | true => have := hstick ops _ hr' h; rw [hnc] at this; cases this
    have hs : s.crashed = false := by
      cases h : s.crashed with
      | false => rfl
      | true => have := step_sticky P hP hp h; rw [hs'] at this; cases this
    by_cases h1 : op = Op.snapshot
    · subst h1
      obtain ⟨i1, o1⟩ := Inv.snapshot hR hs ok inv
      refine ih hr' i1 o1 ?_ hnc
      show Track id g0 (Model.Journal.snapshot s).1 _
      rw [snapshot_eq hs]
      refine ⟨Nat.lt_succ_of_lt tr.1, fun i r hi hid => ?_⟩
      simp only at hi
      by_cases hlt : i < s.revisions.length
      · rw [List.getElem?_append_left hlt] at hi
        rw [List.getElem?_append_left (inv.1 ▸ hlt)]
        exact tr.2 i r hi hid
      · have hge : s.revisions.length ≤ i := by omega
        rw [List.getElem?_append_right hge] at hi
        have hi0 : i - s.revisions.length = 0 := by
          rcases Nat.eq_zero_or_pos (i - s.revisions.length) with h | h
          · exact h
          · rw [List.getElem?_eq_none (by simp only [List.length_cons, List.length_nil]; omega)] at hi; cases hi
        rw [hi0] at hi
        simp only [List.getElem?_cons_zero, Option.some.injEq] at hi
        subst hi
        simp only at hid
        have := tr.1; omega
    by_cases h2 : ∃ rid, op = Op.revert rid
    · obtain ⟨rid, rfl⟩ := h2
      have hs'' : (revert c s rid).crashed = false := hs'
      obtain ⟨i, j, hi⟩ := revert_valid c hs hs''
      obtain ⟨_, i1, o1, hrev, hnr⟩ := Inv.revert hR hs ok inv hi hs''
      refine ih hr' i1 o1 ?_ hnc
      show Track id g0 (revert c s rid) _
      refine ⟨by rw [hnr]; exact tr.1, fun k r hk hid => ?_⟩
      rw [hrev, List.getElem?_take] at hk
      rw [List.getElem?_take]
      split at hk
      · rename_i hki; simp only [hki, if_true]; exact tr.2 k r hk hid
      · cases hk
    · have hra := hP s op hp h1 (fun id h => h2 ⟨id, h⟩)
      obtain ⟨i1, o1⟩ := Inv.op hR hra ok inv
      refine ih hr' i1 o1 ⟨?_, fun i r hi hid => ?_⟩ hnc
      · show id < (step c s op).nextRev
        rw [hra.nextRev]; exact tr.1
      · have : (step c s op).revisions = s.revisions := hra.revs
        rw [this] at hi; exact tr.2 i r hi hid

include hP in
/-- **Generic revert theorem.** From a state `s` whose own revision stack is accounted for, take a
snapshot, run any ops (nested snapshots and reverts included) that satisfy the side conditions `P`,
revert to the snapshot: if that revert does not panic, the result is `Sim`-equal to `s`. -/
theorem revert_rel_generic (hR : RelOk c R) {s : ADB} {G : List ADB} (ops : List Op) (hs : s.crashed = false) (ok : RevsOk s) (inv : Inv c R s G)
    (hr : RunOk P c (snapshot s).1 ops)
    (hnc : (revert c (run c (snapshot s).1 ops) (snapshot s).2).crashed = false) :
    R (revert c (run c (snapshot s).1 ops) (snapshot s).2) s := by
  obtain ⟨i0, o0⟩ := Inv.snapshot hR hs ok inv
  have hid : (snapshot s).2 = s.nextRev := by rw [snapshot_eq hs]
  have tr0 : Track s.nextRev (snapshot s).1 (snapshot s).1 (G ++ [(snapshot s).1]) := by
    rw [snapshot_eq hs]
    refine ⟨Nat.lt_succ_self _, fun i r hi hid => ?_⟩
    simp only at hi
    by_cases hlt : i < s.revisions.length
    · rw [List.getElem?_append_left hlt] at hi
      have := (ok.below r (List.mem_of_getElem? hi)).1
      omega
    · have hge : s.revisions.length ≤ i := by omega
      rw [List.getElem?_append_right (inv.1 ▸ hge)]
      rw [List.getElem?_append_right hge] at hi
      have hi0 : i - s.revisions.length = 0 := by
        rcases Nat.eq_zero_or_pos (i - s.revisions.length) with h | h
        · exact h
        · rw [List.getElem?_eq_none (by simp only [List.length_cons, List.length_nil]; omega)] at hi; cases hi
      rw [inv.1, hi0]; rfl
  rw [hid] at hnc ⊢
  have hs1 : (run c (snapshot s).1 ops).crashed = false := by
    cases h : (run c (snapshot s).1 ops).crashed with
    | false => rfl
    | true => simp [revert, h] at hnc
  obtain ⟨G', i1, o1, tr1⟩ := run_inv P hP hR ops hr i0 o0 tr0 hs1
  obtain ⟨i, j, hi⟩ := revert_valid c hs1 hnc
  obtain ⟨⟨g, hg, hsim⟩, _⟩ := Inv.revert hR hs1 o1 i1 hi hnc
  have := tr1.2 i (s.nextRev, j) hi rfl
  rw [this] at hg
  cases hg
  refine hR.trans hsim ?_
  rw [snapshot_eq hs]
  exact hR.book s _ _ _

end main

end Rangers.Proofs.JournalG
