import Rangers.Model.Evm10Interp
import Rangers.Generated.Evm10JumpTable
/-!
C10 — facts about the generated jump tables (T-gen).  Everything here is decided over the
8 × 256 generated slots, so a re-pointed `execute`, a changed `minStack`, a dropped
`memorySize` function or a re-parameterised `makePush` closure breaks this file.
-/
namespace Rangers.Proofs.Evm10
open Rangers.Model.Evm10 Rangers.Generated.Evm10

/-- how many stack items the transcribed `execute` function pops/peeks -/
def arity : Exec → Nat
  | .opStop | .opJumpdest | .opPc | .opMsize | .opGas | .opPush0 | .opPush1 | .push _ _
  | .opCallDataSize | .opCodeSize | .opReturnDataSize => 0
  | .opNot | .opIszero | .opCallDataLoad | .opPop | .opMload | .opJump => 1
  | .opAddmod | .opMulmod | .opCallDataCopy | .opCodeCopy | .opReturnDataCopy | .opMcopy => 3
  | .dup n => n
  | .swap n => n + 1
  | .other _ => 0
  | _ => 2

/-- the `memorySize` function the transcribed `execute` function relies on -/
def expectedMem : Exec → MemFn
  | .opSha3 => .memorySha3
  | .opCallDataCopy => .memoryCallDataCopy
  | .opCodeCopy => .memoryCodeCopy
  | .opReturnDataCopy => .memoryReturnDataCopy
  | .opMload => .memoryMLoad
  | .opMstore => .memoryMStore
  | .opMstore8 => .memoryMStore8
  | .opMcopy => .memoryMcopy
  | .opReturn => .memoryReturn
  | .opRevert => .memoryRevert
  | _ => .none

/-- how deep the `memorySize` function looks into the stack (largest `Back(n)` + 1) -/
def memArity : MemFn → Nat
  | .none | .other _ => 0
  | .memoryMLoad | .memoryMStore8 | .memoryMStore => 1
  | .memorySha3 | .memoryReturn | .memoryRevert | .memoryLog => 2
  | .memoryCallDataCopy | .memoryReturnDataCopy | .memoryCodeCopy | .memoryMcopy
  | .memoryCreate | .memoryCreate2 => 3
  | .memoryExtCodeCopy => 4
  | .memoryDelegateCall | .memoryStaticCall => 6
  | .memoryCall => 7
  | .memoryAuthCall => 9

def isOther : Exec → Bool
  | .other _ => true
  | _ => false

/-- a slot is consistent: with an untranscribed `execute` the stack demand still covers what the
memory-size function reads; for a transcribed one enough stack is demanded for what `execute` pops, the memory-size
function is the one `execute` needs, a memory-size function never comes without a gas
function (which is what bounds the resize), `dup`/`swap` parameters are positive. -/
def slotOK (i : OpInfo) : Bool :=
  (isOther i.exec && decide (memArity i.memSize ≤ i.minStack)) ||
    (decide (arity i.exec ≤ i.minStack) && (i.memSize == expectedMem i.exec) &&
     ((i.memSize == .none) || !(i.dynGas == .none)) &&
     (match i.exec with | .dup n => decide (0 < n) | .swap n => decide (0 < n) | _ => true))

def tableOK (t : Table) : Bool :=
  t.toList.all (fun s => match s with | none => true | some i => slotOK i)

set_option maxRecDepth 100000 in
theorem table0_ok : tableOK table0 = true := by decide +kernel
set_option maxRecDepth 100000 in
theorem table1_ok : tableOK table1 = true := by decide +kernel
set_option maxRecDepth 100000 in
theorem table2_ok : tableOK table2 = true := by decide +kernel
set_option maxRecDepth 100000 in
theorem table3_ok : tableOK table3 = true := by decide +kernel
set_option maxRecDepth 100000 in
theorem table4_ok : tableOK table4 = true := by decide +kernel
set_option maxRecDepth 100000 in
theorem table5_ok : tableOK table5 = true := by decide +kernel
set_option maxRecDepth 100000 in
theorem table6_ok : tableOK table6 = true := by decide +kernel
set_option maxRecDepth 100000 in
theorem table7_ok : tableOK table7 = true := by decide +kernel

theorem tables_ok (cfg : Nat) : tableOK (table cfg) = true := by
  unfold table
  split
  · exact table0_ok
  · exact table1_ok
  · exact table2_ok
  · exact table3_ok
  · exact table4_ok
  · exact table5_ok
  · exact table6_ok
  · exact table7_ok

/-- what `tableOK` gives for the slot the interpreter looks up -/
theorem slotOK_of_get {t : Table} (ht : tableOK t = true) {op : Nat} {i : OpInfo}
    (h : t.get op = some i) : slotOK i = true := by
  unfold Table.get at h
  unfold tableOK at ht
  rw [List.all_eq_true] at ht
  cases hq : t[op]? with
  | none => simp [hq] at h
  | some s =>
    simp [hq] at h
    subst h
    have hm : (some i : Option OpInfo) ∈ t.toList := by
      rw [Array.mem_toList_iff]
      exact Array.mem_of_getElem? hq
    exact ht _ hm

end Rangers.Proofs.Evm10
